import Proto.Basic
namespace LZ

structure LoopSt (δ : Type) where
  dict : δ
  i : Nat
  litIndex : Nat
  seqs : List Seq
  lits : List Byte

structure Finder (δ : Type) where
  /-- probe at position i; may return a match (start, len, offset) -/
  probe : δ → List Byte → Nat → Nat → δ × Option (Nat × Nat × Nat)
  cover : δ → List Byte → Nat → Nat → δ

def greedyLoop {δ} (F : Finder δ) (p : List Byte) (stop : Nat) (st : LoopSt δ) : LoopSt δ :=
  if h : st.i < stop then
    match hp : F.probe st.dict p st.i st.litIndex with
    | (d, none) => greedyLoop F p stop { st with dict := d, i := st.i + 1 }
    | (d, some (s, k, o)) =>
      if hk : s + k > st.i then
        let q := (p.drop st.litIndex).take (s - st.litIndex)
        greedyLoop F p stop
          { dict := F.cover d p (s + 1) (s + k), i := s + k, litIndex := s + k,
            seqs := st.seqs ++ [{ litLen := q.length, matchLen := k, offset := o }],
            lits := st.lits ++ q }
      else { st with dict := d, i := stop }   -- unreachable under the probe contract
  else st
termination_by stop - st.i
decreasing_by all_goals simp_wf; all_goals omega

/-- contract of a finder: every reported match is genuine and lies between litIndex and the block end -/
def ProbeOK {δ} (F : Finder δ) (p : List Byte) : Prop :=
  ∀ d i li d' s k o, F.probe d p i li = (d', some (s, k, o)) →
    li ≤ s ∧ s ≤ i ∧ s + k > i ∧ MatchOK p s k o

def LoopInv {δ} (p : List Byte) (w : Nat) (st : LoopSt δ) : Prop :=
  w ≤ st.litIndex ∧ st.litIndex ≤ st.i ∧ st.litIndex ≤ p.length ∧
  expandSeqs (p.take w) st.lits st.seqs = some (p.take st.litIndex, [])

theorem expandSeqs_snoc (out lits1 lits2 : List Byte) (ss : List Seq) (s : Seq) (out' : List Byte)
    (h : expandSeqs out lits1 ss = some (out', [])) :
    expandSeqs out (lits1 ++ lits2) (ss ++ [s]) = expandSeqs out' lits2 [s] := by
  induction ss generalizing out lits1 with
  | nil =>
    simp only [expandSeqs, Option.some.injEq, Prod.mk.injEq] at h
    obtain ⟨h1, h2⟩ := h
    subst h1; subst h2; simp
  | cons a ss ih =>
    simp only [expandSeqs, List.cons_append] at h ⊢
    split at h
    · rename_i hle
      have hle' : a.litLen ≤ (lits1 ++ lits2).length := by simp; omega
      rw [if_pos hle']
      have t1 : (lits1 ++ lits2).take a.litLen = lits1.take a.litLen := by
        rw [List.take_append_of_le_length hle]
      have t2 : (lits1 ++ lits2).drop a.litLen = lits1.drop a.litLen ++ lits2 := by
        rw [List.drop_append_of_le_length hle]
      rw [t1, t2]
      split at h
      · exact ih _ _ h
      · simp at h
    · simp at h

theorem greedyLoop_inv {δ} (F : Finder δ) (p : List Byte) (w stop : Nat) (hF : ProbeOK F p) :
    ∀ st : LoopSt δ, LoopInv p w st → LoopInv p w (greedyLoop F p stop st) := by
  intro st
  induction st using greedyLoop.induct F p stop with
  | case1 st h d hp ih =>
    intro hinv
    rw [greedyLoop]; simp only [h, dite_true]
    split
    · rename_i d2 heq
      rw [hp] at heq
      simp only [Prod.mk.injEq, and_true] at heq
      subst heq
      apply ih
      obtain ⟨a, b, c, e⟩ := hinv
      exact ⟨a, by simp; omega, c, e⟩
    · rename_i d2 s2 k2 o2 heq
      rw [hp] at heq; simp at heq
  | case2 st h d s k o hp hk q ih =>
    intro hinv
    rw [greedyLoop]; simp only [h, dite_true]
    split
    · rename_i d2 heq
      rw [hp] at heq; simp at heq
    · rename_i d2 s2 k2 o2 heq
      rw [hp] at heq
      simp only [Prod.mk.injEq, Option.some.injEq] at heq
      obtain ⟨hd, hs, hk2, ho⟩ := heq
      subst hd hs hk2 ho
      simp only [hk, dite_true]
      apply ih
      obtain ⟨a, b, c, e⟩ := hinv
      obtain ⟨p1, p2, p3, hm⟩ := hF _ _ _ _ _ _ _ hp
      obtain ⟨m1, m2, m3, m4⟩ := hm
      refine ⟨by simp; omega, by simp, by simp; omega, ?_⟩
      simp only
      rw [expandSeqs_snoc _ _ _ _ _ _ e]
      have hq : q.length = s - st.litIndex := by simp [q]; omega
      simp only [expandSeqs, hq, List.take_length, List.drop_length]
      have : q.length ≤ q.length := Nat.le_refl _
      simp only [hq] at this
      simp only [Nat.le_refl, if_true]
      have e3 : p.take st.litIndex ++ q.take (s - st.litIndex) = p.take s := by
        have : q.take (s - st.litIndex) = q := by rw [← hq]; exact List.take_length
        rw [this]
        simp only [q]
        rw [← List.take_add]  -- take (a+b) = take a ++ take b (drop a)
        congr 1; omega
      rw [e3]
      rw [copyRef_take p o m1 k s m2 m3 m4]
      simp [hq]
  | case3 st h d s k o hp hk =>
    intro hinv
    rw [greedyLoop]; simp only [h, dite_true]
    split
    · rename_i d2 heq
      rw [hp] at heq; simp at heq
    · rename_i d2 s2 k2 o2 heq
      rw [hp] at heq
      simp only [Prod.mk.injEq, Option.some.injEq] at heq
      obtain ⟨hd, hs, hk2, ho⟩ := heq
      subst hd hs hk2 ho
      exact absurd (hF _ _ _ _ _ _ _ hp).2.2.1 hk
  | case4 st h =>
    intro hinv
    rw [greedyLoop]; simp only [h, dite_false]; exact hinv

end LZ
#print axioms LZ.greedyLoop_inv
