namespace LZ
abbrev Byte := UInt8

structure Seq where
  litLen : Nat
  matchLen : Nat
  offset : Nat
  aux : Nat := 0
deriving Repr, DecidableEq

structure Block where
  seqs : List Seq
  lits : List Byte
deriving Repr

/-- reference: copy m bytes from offset o back, one at a time; none if the source is out of range -/
def copyRef (out : List Byte) (o : Nat) : Nat → Option (List Byte)
  | 0 => some out
  | m+1 =>
    if h : 0 < o ∧ o ≤ out.length then
      copyRef (out ++ [out[out.length - o]'(by omega)]) o m
    else none

def expandSeqs (out : List Byte) (lits : List Byte) : List Seq → Option (List Byte × List Byte)
  | [] => some (out, lits)
  | s :: ss =>
    if s.litLen ≤ lits.length then
      match copyRef (out ++ lits.take s.litLen) s.offset s.matchLen with
      | some out' => expandSeqs out' (lits.drop s.litLen) ss
      | none => none
    else none

def expand (hist : List Byte) (b : Block) : Option (List Byte) :=
  match expandSeqs hist b.lits b.seqs with
  | some (out, rest) => some (out ++ rest)
  | none => none

/-- a match at position i of length k with offset o is genuine in p -/
def MatchOK (p : List Byte) (i k o : Nat) : Prop :=
  0 < o ∧ o ≤ i ∧ i + k ≤ p.length ∧ ∀ t, t < k → p[i + t]? = p[i + t - o]?

theorem copyRef_take (p : List Byte) (o : Nat) (ho : 0 < o) :
    ∀ (m j : Nat), o ≤ j → j + m ≤ p.length →
      (∀ t, t < m → p[j + t]? = p[j + t - o]?) →
      copyRef (p.take j) o m = some (p.take (j + m)) := by
  intro m
  induction m with
  | zero => intro j _ _ _; simp [copyRef]
  | succ m ih =>
    intro j hj hlen hb
    have hjl : j < p.length := by omega
    have hlt : (p.take j).length = j := by simp; omega
    unfold copyRef
    have hc : 0 < o ∧ o ≤ (p.take j).length := by rw [hlt]; exact ⟨ho, hj⟩
    rw [dif_pos hc]
    have h0 := hb 0 (by omega)
    simp only [Nat.add_zero] at h0
    have e1 : (p.take j)[(p.take j).length - o]'(by omega) = p[j]'hjl := by
      have h1 : (p.take j)[(p.take j).length - o]'(by omega) = p[j - o]'(by omega) := by
        simp [List.getElem_take, hlt]
      have h2 : p[j - o]'(by omega) = p[j]'hjl := by
        have : some (p[j]'hjl) = some (p[j - o]'(by omega)) := by
          rw [← List.getElem?_eq_getElem, ← List.getElem?_eq_getElem]; exact h0
        exact (Option.some.inj this).symm
      rw [h1, h2]
    rw [e1]
    have e2 : p.take j ++ [p[j]] = p.take (j + 1) := by
      rw [List.take_add_one]; simp [hjl]
    rw [e2]
    have := ih (j + 1) (by omega) (by omega) (by
      intro t ht
      have h3 := hb (t + 1) (by omega)
      have a1 : j + (t + 1) = j + 1 + t := by omega
      rw [a1] at h3; exact h3)
    rw [this]; congr 2; omega

end LZ
