namespace LZ

structure Item where
  n : Int
  j : Nat
deriving Repr

/-- inner loop of the (repaired) scanLCP: pop while n < top.n, emitting; returns new stack and emitted list,
    or none when the stack became empty (end of scan) -/
def popLoop (minLen : Int) (n : Int) (j : Nat) (left : Nat) :
    List Item → List (Int × Nat × Nat) → Option (List Item) × List (Int × Nat × Nat)
  | [], out => (none, out)
  | top :: rest, out =>
    if n > top.n then (some (⟨n, left⟩ :: top :: rest), out)
    else if n = top.n then (some (top :: rest), out)
    else
      let out' := if top.n ≥ minLen then out ++ [(top.n, top.j, j)] else out
      match rest with
      | [] => (none, out')
      | _ => popLoop minLen n j top.j rest out'

def scanFrom (lcp : Array Int) (minLen maxLen : Int) (fuelEnd : Nat) (j : Nat) (stack : List Item)
    (out : List (Int × Nat × Nat)) : List (Int × Nat × Nat) :=
  if h : j ≤ fuelEnd then
    let n : Int := if j < lcp.size then min (lcp[j]!) maxLen else -1
    match popLoop minLen n j (j - 1) stack out with
    | (none, out') => out'
    | (some st, out') => scanFrom lcp minLen maxLen fuelEnd (j + 1) st out'
  else out
termination_by fuelEnd + 1 - j

def scanLCP (lcp : Array Int) (minLen maxLen : Int) : List (Int × Nat × Nat) :=
  scanFrom lcp minLen maxLen lcp.size 1 [⟨0, 0⟩] []

#eval scanLCP #[0,0,0,3,2,0,2,1,0,1,0] 1 10   -- abcXabcYabd
#eval scanLCP #[0,3,2] 1 10
#eval scanLCP #[] 0 10
#eval scanLCP #[0] 0 10
end LZ
