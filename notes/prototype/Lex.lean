namespace LZ
abbrev B := UInt8

def lcpLen : List B → List B → Nat
  | a :: as, b :: bs => if a = b then lcpLen as bs + 1 else 0
  | _, _ => 0

/-- lexicographic ≤ on byte strings (a proper prefix is smaller) -/
def lexLe : List B → List B → Bool
  | [], _ => true
  | _ :: _, [] => false
  | a :: as, b :: bs => a < b || (a == b && lexLe as bs)

theorem sandwich : ∀ (a b c : List B), lexLe a b = true → lexLe b c = true →
    lcpLen a c ≤ lcpLen a b ∧ lcpLen a c ≤ lcpLen b c := by
  intro a
  induction a with
  | nil => intro b c _ _; simp [lcpLen]
  | cons x xs ih =>
    intro b c hab hbc
    cases b with
    | nil => simp [lexLe] at hab
    | cons y ys =>
      cases c with
      | nil => simp [lexLe] at hbc
      | cons z zs =>
        simp only [lexLe, Bool.or_eq_true, Bool.and_eq_true, decide_eq_true_eq, beq_iff_eq] at hab hbc
        simp only [lcpLen]
        by_cases hxz : x = z
        · subst hxz
          -- x ≤ y ≤ x hence y = x
          have hxy : x = y := by
            rcases hab with h1 | ⟨h1, _⟩
            · rcases hbc with h2 | ⟨h2, _⟩
              · exact absurd (UInt8.lt_trans h1 h2) (UInt8.lt_irrefl _)
              · subst h2; exact absurd h1 (UInt8.lt_irrefl _)
            · exact h1
          subst hxy
          have h1 : lexLe xs ys = true := by
            rcases hab with h | ⟨_, h⟩
            · exact absurd h (UInt8.lt_irrefl _)
            · exact h
          have h2 : lexLe ys zs = true := by
            rcases hbc with h | ⟨_, h⟩
            · exact absurd h (UInt8.lt_irrefl _)
            · exact h
          have := ih ys zs h1 h2
          simp; omega
        · simp [hxz]

#print axioms sandwich
end LZ
