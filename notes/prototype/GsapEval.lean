import LzModel.Generated.Code
import LzModel.BitsetW
import LzModel.Suffix
open LZ LZ.Gen

def lcpI (p q : Slice) : Int := ((LZ.lcpLen p.data q.data : Nat) : Int)
def sortI (t : Slice) (sa : GSlice Int32) : Res (GSlice Int32) :=
  if sa.len = t.len then
    Res.ok { sa with arr := ((LZ.saSpec t.data).map fun (k : Nat) => Int32.ofInt (k : Int)) ++ sa.arr.drop sa.len }
  else Res.panic
def toW (b : bitset) : LZ.BitsetW := { backing := b.a.arr.toArray, len := b.a.len, off := b.off.toNat }
def ofW (w : LZ.BitsetW) : bitset := { a := { arr := w.backing.toList, len := w.len }, off := (w.off : Int) }
def insI (b : bitset) (js : List Int) : Res bitset :=
  match (toW b).insert (js.map Int.toNat) with
  | some w => Res.ok (ofW w)
  | none => Res.panic

def grow (_ n : Nat) : Nat := n
def cfg0 : GSAPConfig := { ShrinkSize := 8, BufferSize := 64, WindowSize := 16, BlockSize := 12, MinMatchLen := 2 }
def dataS : Slice := { arr := "abcabcabcabxyzxyzabcabQQQQabcab".toUTF8.toList, len := 31 }

def showSt (tag : String) (s : gsap) (blk : Block') (n : Int) (e : Gen.Err) : String :=
  s!"{tag} n={n} err={repr e} W={s.ParserBuffer.W} lensa={s.sa.len} seqs={blk.Sequences.map fun q => (q.LitLen, q.MatchLen, q.Offset)} lits={String.fromUTF8! ⟨blk.Literals.data.toArray⟩} isa={s.isa.data.map (·.toInt)} off={s.bits.off} a={s.bits.a.data}"

def run : Res (List String) :=
  Res.bind (gsap_init default cfg0) fun r0 =>
  Res.bind (ParserBuffer_Write grow r0.1.ParserBuffer dataS) fun w =>
  let s0 : gsap := { r0.1 with ParserBuffer := w.1 }
  Res.bind (gsap_Parse grow 1000 lcpI sortI insI s0 default 0) fun r1 =>
  Res.bind (gsap_Parse grow 1000 lcpI sortI insI r1.1 default 1) fun r2 =>
  Res.bind (gsap_Parse grow 1000 lcpI sortI insI r2.1 default 1) fun r3 =>
  Res.bind (gsap_Parse grow 1000 lcpI sortI insI r3.1 default 0) fun r4 =>
  Res.ok [s!"init err={repr r0.2} write n={w.2.1}", showSt "parse0" r1.1 r1.2.1 r1.2.2.1 r1.2.2.2,
    showSt "parse1" r2.1 r2.2.1 r2.2.2.1 r2.2.2.2, showSt "parse2" r3.1 r3.2.1 r3.2.2.1 r3.2.2.2,
    showSt "parse3" r4.1 r4.2.1 r4.2.2.1 r4.2.2.2]

#eval match run with | Res.ok l => l | Res.panic => ["PANIC"] | Res.fuel => ["FUEL"]
