import Proto.Basic
namespace LZ

/-- total byte-wise copy (no option): used under the guard 0 < o ≤ out.length -/
def copyB (out : List Byte) (o : Nat) : Nat → List Byte
  | 0 => out
  | m+1 => copyB (out ++ [out.getD (out.length - o) 0]) o m

/-- `ext o base n`: the n bytes a byte-wise copy appends -/
def tailOf (out : List Byte) (o m : Nat) : List Byte := (copyB out o m).drop out.length

theorem copyB_length (out o m) : (copyB out o m).length = out.length + m := by
  induction m generalizing out with
  | zero => simp [copyB]
  | succ m ih => simp [copyB, ih]; omega

theorem copyB_add (out o a b) : copyB out o (a + b) = copyB (copyB out o a) o b := by
  induction a generalizing out with
  | zero => simp [copyB]
  | succ a ih =>
    have : a + 1 + b = (a + b) + 1 := by omega
    rw [this]; simp only [copyB]; exact ih _

/-- periodicity: in a byte-wise copy every appended byte equals the byte o before it -/
theorem copyB_getD (out : List Byte) (o : Nat) (ho : 0 < o) (hlen : o ≤ out.length) :
    ∀ m i, out.length ≤ i → i < out.length + m →
      (copyB out o m).getD i 0 = (copyB out o m).getD (i - o) 0 := by
  intro m
  induction m generalizing out with
  | zero => intro i h1 h2; omega
  | succ m ih =>
    intro i h1 h2
    simp only [copyB]
    by_cases hi : i = out.length
    · subst hi
      -- both sides are prefixes of the extended list
      sorry
    · have := ih (out ++ [out.getD (out.length - o) 0]) (by simp; omega) i (by simp; omega) (by simp; omega)
      exact this

/-- copying the last `k*o` bytes at once (k ≥ 1, k*o ≤ appended-so-far + o) is the same as byte-wise copying k*o bytes -/
theorem chunk_copy (out : List Byte) (o : Nat) (ho : 0 < o) (hlen : o ≤ out.length) (c : Nat)
    (hc : 0 < c) (hco : c ≤ out.length)
    (hper : ∀ i, out.length - c + o ≤ i → i < out.length → out.getD i 0 = out.getD (i - o) 0)
    (hdiv : o ∣ c) :
    out ++ out.drop (out.length - c) = copyB out o c := by
  sorry

end LZ
