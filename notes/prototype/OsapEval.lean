import LzModel.Generated.Code
import LzModel.Sap
open LZ LZ.Gen

/-- an instance of the opaque callee `computeEdges`: the hand model `LZ.computeEdges` (LzModel/Sap.lean) written
    back into the Go representation -/
def toEdgeG (e : LZ.Edge) : Gen.edge := ⟨UInt32.ofNat e.1, UInt32.ofNat e.2⟩
def ceI (s : optSuffixArrayParser) : Res optSuffixArrayParser :=
  let o := LZ.computeEdges s.ParserBuffer.Data.data s.ParserBuffer.W.toNat s.OSAPConfig.WindowSize.toNat
    s.OSAPConfig.MinMatchLen.toNat s.OSAPConfig.MaxMatchLen.toNat
  Res.ok { s with edges := ⟨o.edges.toList.map (fun l => ⟨l.map toEdgeG, l.length⟩), o.edges.size⟩,
                  start := (o.start : Int), nEdges := (o.nEdges : Int) }

def grow (_ n : Nat) : Nat := n
def cfg0 : OSAPConfig := { ShrinkSize := 8, BufferSize := 64, WindowSize := 16, BlockSize := 12, MinMatchLen := 2, MaxMatchLen := 0, Cost := "" }
def dataS : Slice := { arr := "abcabcabcabxyzxyzabcabQQQQabcab".toUTF8.toList, len := 31 }

def showSt (tag : String) (s : optSuffixArrayParser) (blk : Block') (n : Int) (e : Gen.Err) : String :=
  s!"{tag} n={n} err={repr e} W={s.ParserBuffer.W} start={s.start} lenedges={s.edges.len} nEdges={s.nEdges} seqs={blk.Sequences.map fun q => (q.LitLen, q.MatchLen, q.Offset)} lits={String.fromUTF8! ⟨blk.Literals.data.toArray⟩}"

def run : Res (List String) :=
  Res.bind (optSuffixArrayParser_init default cfg0) fun r0 =>
  Res.bind (ParserBuffer_Write grow r0.1.ParserBuffer dataS) fun w =>
  let s0 : optSuffixArrayParser := { r0.1 with ParserBuffer := w.1 }
  Res.bind (optSuffixArrayParser_Parse grow 1000 ceI s0 default 0) fun r1 =>
  Res.bind (optSuffixArrayParser_Parse grow 1000 ceI r1.1 default 1) fun r2 =>
  Res.bind (optSuffixArrayParser_Parse grow 1000 ceI r2.1 default 1) fun r3 =>
  Res.bind (optSuffixArrayParser_Parse grow 1000 ceI r3.1 default 0) fun r4 =>
  Res.bind (optSuffixArrayParser_shortestPath grow 1000 { r4.1 with ParserBuffer := { r4.1.ParserBuffer with W := 0 } } GSlice.nil 12) fun sp =>
  Res.ok [s!"init err={repr r0.2} cost={r0.1.cost} MaxMatchLen={r0.1.OSAPConfig.MaxMatchLen} Cost={r0.1.OSAPConfig.Cost} write n={w.2.1}",
    showSt "parse0" r1.1 r1.2.1 r1.2.2.1 r1.2.2.2,
    showSt "parse1" r2.1 r2.2.1 r2.2.2.1 r2.2.2.2, showSt "parse2" r3.1 r3.2.1 r3.2.2.1 r3.2.2.2,
    showSt "parse3" r4.1 r4.2.1 r4.2.2.1 r4.2.2.2,
    s!"edges={(r4.1.edges.data.zipIdx.filter (fun x => x.1.len > 0)).map fun x => (x.2, x.1.data.map fun e => (e.m, e.o))}",
    s!"shortestPath(nil,12) at W=0: {sp.data.map fun e => (e.m, e.o)}"]

#eval match run with | Res.ok l => l | Res.panic => ["PANIC"] | Res.fuel => ["FUEL"]
