package main

import (
	"fmt"

	"github.com/ulikunitz/lz"
)

type dProfile struct {
	dd        bool
	maxOps    int
	malformed int // percentage of malformed sequences / matches
	faults    int // percentage of writer responses with a fault (DD)
}

func genWriterResps(r *rng, faults int) []resp {
	n := r.rangeIn(0, 12)
	var rs []resp
	for i := 0; i < n; i++ {
		if r.chance(faults) {
			switch r.intn(3) {
			case 0:
				rs = append(rs, resp{r.rangeIn(0, 5), r.pick(2, 3, 7, 8, 9)}) // error with partial write (7, 8, 9: the library's own sentinel errors)
			case 1:
				rs = append(rs, resp{r.rangeIn(0, 5), 0}) // short write without error
			default:
				rs = append(rs, resp{0, r.pick(2, 2, 7)})
			}
		} else {
			rs = append(rs, resp{1 << 20, 0})
		}
	}
	// a writer that stalls for a while: a burst of calls that accept nothing
	// and report no error (C06: the Decoder must not re-offer the data in a loop)
	if faults > 0 && r.chance(25) {
		k := r.rangeIn(3, 24)
		at := r.rangeIn(0, len(rs))
		burst := make([]resp, k)
		rs = append(rs[:at:at], append(burst, rs[at:]...)...)
	}
	return rs
}

// capMatch keeps the decoded stream of a script small (default 8 MiB geometry:
// matches proportional to the offset would double the stream with every op).
func capMatch(r *rng, m, avail int) int {
	if avail+m > 3000 && m > 48 {
		return r.rangeIn(0, 48)
	}
	return m
}

var wildU32 = []int{0, 1, 2, 3, 255, 256, 65535, 1 << 20, 1<<31 - 1, 1 << 31, 1<<32 - 2, 1<<32 - 1}

// genValidBlock builds a block that is well-formed for window ws when avail
// bytes have been written; mal > 0 corrupts one field with that percentage.
func genValidBlock(r *rng, avail, ws, room int, mal int) ([]lz.Seq, []byte) {
	nseq := r.rangeIn(0, 4)
	var seqs []lz.Seq
	var lits []byte
	for i := 0; i < nseq; i++ {
		ll := r.pick(0, 0, 1, 2, r.rangeIn(0, 6))
		for j := 0; j < ll; j++ {
			lits = append(lits, byte('a'+r.intn(3)))
		}
		lim := min(ws, avail+ll)
		var o, m int
		if lim > 0 {
			o = r.pick(1, lim, r.rangeIn(1, lim))
			m = r.pick(0, 1, 2, o, o+1, 2*o+1, 3*o, r.rangeIn(0, max(1, room)), r.rangeIn(0, 2*max(1, room)))
			m = capMatch(r, m, avail)
		}
		seqs = append(seqs, lz.Seq{LitLen: uint32(ll), MatchLen: uint32(m), Offset: uint32(o)})
		avail += ll + m
	}
	tl := r.pick(0, 0, 1, r.rangeIn(0, 6), r.rangeIn(0, max(1, room)+2))
	for j := 0; j < tl; j++ {
		lits = append(lits, byte('x'+r.intn(2)))
	}
	if len(seqs) > 0 && r.chance(mal) {
		i := r.intn(len(seqs))
		switch r.intn(4) {
		case 0:
			seqs[i].Offset = uint32(r.pick(0, ws+1, ws+2, avail+5, wildU32[r.intn(len(wildU32))]))
		case 1:
			seqs[i].LitLen = uint32(r.pick(len(lits)+1, len(lits)+2, wildU32[r.intn(len(wildU32))]))
		case 2:
			seqs[i].MatchLen = uint32(wildU32[r.intn(len(wildU32))])
		case 3:
			seqs[i] = lz.Seq{LitLen: uint32(wildU32[r.intn(len(wildU32))]), MatchLen: uint32(wildU32[r.intn(len(wildU32))]),
				Offset: uint32(wildU32[r.intn(len(wildU32))]), Aux: uint32(r.intn(3))}
		}
	}
	return seqs, lits
}

func genDScript(r *rng, pf dProfile, id string, cnt counters, emit func(line, out string)) *dExec {
	w := r.pick(1, 1, 2, 3, 4, 8, r.rangeIn(1, 16), r.rangeIn(1, 40))
	b := r.pick(w+1, w+1, w+2, 2*w, 4*w, r.rangeIn(w+1, 4*w+2), 0)
	if r.chance(2) {
		w, b = r.pick(0, -1, 5), r.pick(0, -3, 5, 4)
	}
	pc := r.pick(0, 0, 0, r.rangeIn(1, 8), b+r.rangeIn(1, 30), 64)
	var header string
	if pf.dd {
		header = fmt.Sprintf("S %s DD %d %d %d %s", id, w, b, pc, showResps(genWriterResps(r, pf.faults)))
	} else {
		header = fmt.Sprintf("S %s D %d %d %d", id, w, b, pc)
	}
	e, st := newDExec(header, cnt)
	emit(header, st)
	if e.dead {
		emit("E", "E")
		return e
	}
	do := func(line string) string {
		out := e.step(line)
		emit(line, out)
		return out
	}
	nops := r.rangeIn(3, pf.maxOps)
	for k := 0; k < nops && !e.dead; k++ {
		B, W := e.buf.BufferSize, e.buf.WindowSize
		if B > 256 {
			B, W = 256, min(W, 128) // default (8 MiB) geometry: keep the data small
		}
		room := B - W
		free := B - len(e.buf.Data)
		sz := func() int {
			return r.pick(0, 1, 2, room-1, room, room+1, free, free+1, B, B+1, r.rangeIn(0, room+2), r.rangeIn(0, 2*B+2))
		}
		bytesOf := func(n int) []byte {
			if n < 0 {
				n = 0
			}
			if n > 300 {
				n = 300
			}
			p := make([]byte, n)
			for i := range p {
				p[i] = byte('k' + r.intn(4))
			}
			return p
		}
		x := r.intn(100)
		if pf.dd {
			switch {
			case x < 12:
				do("wb " + hx(bytesOf(1)))
			case x < 40:
				do("w " + hx(bytesOf(sz())))
			case x < 80:
				seqs, lits := genValidBlock(r, len(e.written), e.ws, room, pf.malformed)
				do(fmt.Sprintf("wblk %s %s", showSeqs(seqs), hx(lits)))
			case x < 95:
				do("flush")
			default:
				if r.chance(40) {
					nw := r.pick(W, W, r.rangeIn(1, 16), -1)
					do(fmt.Sprintf("init %d %d %s", nw, r.pick(0, nw+1, 2*nw, nw+r.rangeIn(1, 20), nw), showResps(genWriterResps(r, pf.faults))))
				} else {
					do("reset " + showResps(genWriterResps(r, pf.faults)))
				}
			}
			continue
		}
		switch {
		case x < 10:
			do("wb " + hx(bytesOf(1)))
		case x < 25:
			do("w " + hx(bytesOf(sz())))
		case x < 45:
			lim := min(e.ws, len(e.written))
			o, m := 0, 0
			if lim > 0 {
				o = r.pick(1, lim, r.rangeIn(1, lim))
				m = r.pick(0, 1, o, o+1, 2*o+1, 5*o+2, sz())
				m = capMatch(r, m, len(e.written))
			}
			if r.chance(pf.malformed) {
				o = r.pick(0, lim+1, e.ws+1, wildU32[r.intn(len(wildU32))])
				if r.chance(50) {
					m = wildU32[r.intn(len(wildU32))]
				}
			}
			do(fmt.Sprintf("wm %d %d", m, o))
		case x < 75:
			seqs, lits := genValidBlock(r, len(e.written), e.ws, room, pf.malformed)
			do(fmt.Sprintf("wblk %s %s", showSeqs(seqs), hx(lits)))
		case x < 88:
			do(fmt.Sprintf("rd %d", r.pick(0, 1, 2, len(e.buf.Data)-e.buf.R, r.rangeIn(0, B+1))))
		case x < 94:
			{
				var rs []resp
				if r.chance(60) {
					rs = []resp{{r.pick(0, 1, 2, 1<<20), r.pick(0, 0, 2)}}
				}
				do("wt " + showResps(rs))
			}
		case x < 96:
			if r.chance(40) {
				nw := r.pick(W, W, r.rangeIn(1, 16), -1)
				do(fmt.Sprintf("init %d %d", nw, r.pick(0, nw+1, 2*nw, nw+r.rangeIn(1, 20), nw)))
			} else {
				do("reset")
			}
		case x < 98:
			do(fmt.Sprintf("bae %d", r.pick(0, 1, len(e.buf.Data), len(e.buf.Data)+1, -1, r.rangeIn(0, B))))
		default:
			do("dump")
		}
	}
	if pf.dd && !e.dead {
		// finally flush until the writer took everything
		for k := 0; k < 40 && !e.dead; k++ {
			out := do("flush")
			if len(out) >= 2 && out[:2] == "ok" {
				break
			}
		}
	}
	emit("E", "E")
	return e
}

// genC07Script runs a real parser over generated data and pipes its blocks
// into a Decoder with the same WindowSize (emitted as a DD script).
func genC07Script(r *rng, id string, cnt counters, emit func(line, out string)) *dExec {
	pf := profGeneral
	pf.badCfgPct = 0
	kind := allKinds[r.intn(len(allKinds))]
	cfg := genPCfg(r, kind, pf)
	if r.chance(50) {
		// BlockSize > WindowSize and long runs: MatchLen up to BlockSize
		cfg.f["WindowSize"] = r.rangeIn(2, 12)
		cfg.f["BlockSize"] = r.rangeIn(cfg.f["WindowSize"]+1, 60)
		cfg.f["BufferSize"] = r.rangeIn(cfg.f["BlockSize"], 120)
		cfg.f["ShrinkSize"] = r.rangeIn(0, cfg.f["BufferSize"]-1)
		if kind == "GSAP" && cfg.f["WindowSize"] < cfg.f["MinMatchLen"] {
			cfg.f["WindowSize"] = cfg.f["MinMatchLen"]
		}
	}
	pcnt := counters{}
	pe, st := newPExec(cfg, pcnt)
	if st != "ok" {
		hdr := fmt.Sprintf("S %s X", id)
		emit(hdr, fmt.Sprintf("S %s ok", id))
		emit("E", "E")
		return &dExec{}
	}
	W := pe.bc.WindowSize
	B := r.pick(0, W+1, W+2, 2*W, 4*W, r.rangeIn(W+1, 4*W+1))
	header := fmt.Sprintf("S %s DD %d %d 0 %s", id, W, B, "-")
	e, dst := newDExec(header, cnt)
	emit(header, dst)
	if e.dead {
		emit("E", "E")
		return e
	}
	var data []byte
	if r.chance(40) {
		data = make([]byte, r.rangeIn(1, 300))
		c := byte(r.pick(0, 'a'))
		for i := range data {
			if r.chance(2) {
				c++
			}
			data[i] = c
		}
	} else {
		data = genData(r, r.rangeIn(1, 300))
	}
	cnt.inc("c07.parser." + kind)
	fed := 0
	for guard := 0; guard < 2000 && !e.dead && !pe.dead; guard++ {
		if pe.unparsed() == 0 {
			if fed == len(data) {
				break
			}
			pe.step("shrink")
			n := r.rangeIn(1, 64)
			if fed+n > len(data) {
				n = len(data) - fed
			}
			out := pe.step("write " + hx(data[fed:fed+n]))
			var k int
			fmt.Sscan(out, &k)
			fed += k
			if k == 0 {
				break
			}
			continue
		}
		out := pe.step("parse 0")
		_ = out
		blk := pe.blkBuf
		line := fmt.Sprintf("wblk %s %s", showSeqs(blk.Sequences), hx(blk.Literals))
		res := e.step(line)
		emit(line, res)
		cnt.inc("c07.block")
		// every block a parser emits must be accepted (C07)
		var n, k, l int
		var en string
		fmt.Sscan(res, &n, &k, &l, &en)
		if en != "ok" {
			g := int64(0)
			if k < len(blk.Sequences) {
				g = int64(blk.Sequences[k].LitLen) + int64(blk.Sequences[k].MatchLen)
			}
			if en == "matchLen" && g > int64(e.buf.BufferSize-e.buf.WindowSize) {
				cnt.inc("c07.known.neverfits") // reported by dExec.classify as a C07 finding (known)
			} else {
				e.find("C07", "Decoder refuses a block emitted by a parser of this module", "Decoder.WriteBlock",
					fmt.Sprintf("kind=%s err=%s k=%d g=%d B=%d W=%d", kind, en, k, g, e.buf.BufferSize, e.buf.WindowSize))
			}
			emit("E", "E")
			e.finds = append(e.finds, pe.finds...)
			return e
		}
	}
	if e.dead && len(e.finds) > 0 {
		e.find("C07", "Decoder mis-decodes blocks emitted by a parser of this module", "Decoder.WriteBlock",
			fmt.Sprintf("kind=%s first=%s: %s", kind, e.finds[0].Property, e.finds[0].What))
	}
	if !e.dead {
		res := e.step("flush")
		emit("flush", res)
		if string(e.w.got) != string(pe.fed[:pe.cpos]) {
			e.find("C07", "decoded output differs from the parser's input", "Decoder", fmt.Sprintf("got=%d want=%d", len(e.w.got), pe.cpos))
		} else {
			cnt.inc("c07.roundtrip.ok")
		}
	}
	emit("E", "E")
	e.finds = append(e.finds, pe.finds...)
	return e
}

// genDExhaustive enumerates every operation sequence over a small operand alphabet for the
// smallest geometries: case idx = (geometry, sequence in base len(ops), all lengths up to the bound).
func genDExhaustive(idx int, id string, cnt counters, emit func(line, out string)) *dExec {
	geos := [][3]int{{1, 2, 0}, {2, 3, 0}, {2, 5, 0}, {3, 4, 9}}
	ops := []string{"wb 61", "w 6162", "w 636465", "wm 1 1", "wm 3 1", "wm 2 2", "wblk 1:2:1:0 61",
		"wblk 0:1:2:0;1:1:1:0 6162", "rd 1", "rd 9", "wt -", "reset"}
	g := geos[idx%len(geos)]
	idx /= len(geos)
	n, x, pw := 0, idx, 1
	for x >= pw {
		x -= pw
		pw *= len(ops)
		n++
	}
	header := fmt.Sprintf("S %s D %d %d %d", id, g[0], g[1], g[2])
	e, st := newDExec(header, cnt)
	emit(header, st)
	for i := 0; i < n && !e.dead; i++ {
		l := ops[x%len(ops)]
		x /= len(ops)
		emit(l, e.step(l))
	}
	emit("E", "E")
	return e
}

func dSuite(pf dProfile, deep []string) suiteFn {
	return func(r *rng, id string, cnt counters, emit func(line, out string)) ([]finding, bool) {
		before := map[string]int{}
		for _, k := range deep {
			before[k] = cnt[k]
		}
		e := genDScript(r, pf, id, cnt, emit)
		d := false
		for _, k := range deep {
			if cnt[k] > before[k] {
				d = true
			}
		}
		return e.finds, d
	}
}

func init() {
	suites["d-buf"] = dSuite(dProfile{maxOps: 40, malformed: 12}, []string{"d.wblk.ok", "d.wblk.shrunk", "d.match.overlap"})
	suites["d-malformed"] = dSuite(dProfile{maxOps: 30, malformed: 60}, []string{"d.malformed"})
	suites["d-counts"] = dSuite(dProfile{maxOps: 60, malformed: 5}, []string{"d.wblk.shrunk-after-read"})
	suites["dd"] = dSuite(dProfile{dd: true, maxOps: 30, malformed: 5, faults: 0}, []string{"dd.write.oversize", "d.wblk.ok"})
	suites["dd-faults"] = dSuite(dProfile{dd: true, maxOps: 30, malformed: 0, faults: 35}, []string{"dd.flush.err", "dd.flush.ok"})
	suites["d-exhaustive"] = func(r *rng, id string, cnt counters, emit func(line, out string)) ([]finding, bool) {
		var sh, k int
		fmt.Sscanf(id, "%d.%d", &sh, &k)
		e := genDExhaustive(k*8+sh, id, cnt, emit)
		return e.finds, true
	}
	suites["d-large"] = func(r *rng, id string, cnt counters, emit func(line, out string)) ([]finding, bool) {
		e := genDLarge(r, r.chance(50), id, cnt, emit)
		return e.finds, true
	}
	suites["c07"] = func(r *rng, id string, cnt counters, emit func(line, out string)) ([]finding, bool) {
		b := cnt["c07.roundtrip.ok"] + cnt["c07.known.neverfits"]
		e := genC07Script(r, id, cnt, emit)
		return e.finds, cnt["c07.roundtrip.ok"]+cnt["c07.known.neverfits"] > b
	}
}

// genDLarge drives a DecoderBuffer (D) or a Decoder (DD) at LARGE geometry with generated payloads:
// matches of several hundred KiB with small and large, power-of-two and odd offsets (the doubling
// copy), writes and literal runs around BufferSize-WindowSize, tight buffers with a large window.
// Byte strings above 4 KiB are compared by length and hash.
func genDLarge(r *rng, dd bool, id string, cnt counters, emit func(line, out string)) *dExec {
	type geo struct{ w, b int }
	g := []geo{{0, 0}, {40000, 40000 + r.rangeIn(1, 20)}, {65536, 131072}, {65535, 65536 + r.rangeIn(1, 9)},
		{300000, 300000 + r.rangeIn(1, 500000)}, {1 << 20, 2 << 20}, {5000, 5000 + r.rangeIn(1, 3)},
		{4200 + r.intn(3000), 0}}[r.intn(8)]
	if g.b == 0 && g.w >= 4200 {
		g.b = g.w + 1 // the tightest buffer above 4 KiB: every byte written goes through shrink and flush
	}
	pc := 0
	if g.b > 0 && g.b-g.w < 256 && r.chance(70) {
		pc = g.b // Data pre-allocated with exactly BufferSize: append never raises BufferSize, the buffer stays tight
	}
	var header string
	if dd {
		header = fmt.Sprintf("S %s DD %d %d %d -", id, g.w, g.b, pc)
	} else {
		header = fmt.Sprintf("S %s D %d %d %d", id, g.w, g.b, pc)
	}
	e, st := newDExec(header, cnt)
	emit(header, st)
	if e.dead {
		emit("E", "E")
		return e
	}
	do := func(line string) string {
		out := e.step(line)
		emit(line, out)
		return out
	}
	seed := 0
	pay := func(n int) string {
		if n <= 0 {
			return "-"
		}
		seed++
		return fmt.Sprintf("%s%d:%d", r.pickS("#", "#", "@"), seed*13+r.intn(50), n)
	}
	W := e.buf.WindowSize
	budget := 3_500_000 // bytes written per script
	nops := r.rangeIn(4, 12)
	if dd && e.buf.BufferSize <= 10000 && e.buf.BufferSize-W < 256 {
		// a tight buffer of a few KiB: fill it completely and go on writing, chunk by chunk through
		// shrink and flush
		n := e.buf.BufferSize + r.rangeIn(1, 100)
		do("w " + pay(n))
		budget -= n
	}
	for k := 0; k < nops && !e.dead && budget > 0; k++ {
		B := e.buf.BufferSize
		room := B - W
		avail := min(W, len(e.written))
		x := r.intn(100)
		switch {
		case x < 25 || avail == 0:
			n := r.pick(1, 1000, 4096, 4097, 70000, 300000, room-1, room, room+1, r.rangeIn(1, 200000))
			if r.chance(15) {
				n = W + 1<<20 + r.pick(0, 1, 100) // one write of more than WindowSize + 1 MiB
			}
			if n > budget {
				n = budget
			}
			if dd && room < 256 && n > 200*room {
				// a Decoder feeds its buffer in chunks of BufferSize-WindowSize: keep the model fast
				if B <= 10000 {
					n = min(n, B+100) // small enough to be filled completely chunk by chunk
				} else {
					n = 200 * room
				}
			}
			do("w " + pay(n))
			budget -= n
		case x < 60:
			o := r.pick(1, 2, 3, 5, 7, 12, 1000, 1009, 4096, 65537, 150001, avail, r.rangeIn(1, avail))
			if o > avail {
				o = r.pick(avail, 1, min(3, avail))
			}
			m := r.pick(o+1, 2*o+1, 70000, 131073, 200000, 300003, 400000, 600001, 900000, room, room+1)
			if m > budget {
				m = budget
			}
			if dd {
				do(fmt.Sprintf("wblk 0:%d:%d:0 -", m, o))
			} else {
				do(fmt.Sprintf("wm %d %d", m, o))
			}
			budget -= m
		case x < 75:
			// a block: literals + long match + literals
			ll := r.pick(0, 1, 5000, 70000)
			o := r.pick(1, 3, 7, 1009, 65537)
			if o > avail+ll {
				o = max(1, min(avail+ll, 3))
			}
			m := r.pick(3, 70000, 200001, 500000)
			tl := r.pick(0, 0, 1, 9000, W+1<<20+r.intn(50))
			if tl > budget {
				tl = 9000
			}
			if dd && room < 256 {
				ll, tl = min(ll, 100*room), min(tl, 100*room)
			}
			if avail+ll == 0 {
				m = 0
				o = 0
			}
			do(fmt.Sprintf("wblk %d:%d:%d:0 %s", ll, m, o, pay(ll+tl)))
			budget -= ll + m + tl
		case x < 83:
			// a malformed sequence while a lot of decoded data may be pending: offset 0, offset beyond the
			// window / the data written, LitLen beyond the literals
			bad := r.pick(0, 1, 2)
			switch bad {
			case 0:
				do(fmt.Sprintf("wblk 2:5:0:0 %s", pay(2)))
			case 1:
				do(fmt.Sprintf("wblk 1:9:%d:0 %s", r.pick(W+1, len(e.written)+2, 1<<31), pay(1)))
			default:
				do(fmt.Sprintf("wblk 0:3:1:0;%d:4:1:0 %s", r.pick(5, 70000), pay(3)))
			}
			cnt.inc("d.large.malformed")
		case x < 95:
			if dd {
				do("flush")
			} else {
				unread := len(e.written) - e.delivered
				do(fmt.Sprintf("rd %d", r.pick(unread, unread, unread/2, 100000, 1)))
			}
		default:
			switch {
			case r.chance(40) && dd:
				do(fmt.Sprintf("init %d %d -", r.pick(W, W+1, 2*W, W/2+1), r.pick(0, 0, B)))
				W = e.buf.WindowSize
			case r.chance(40) && !dd:
				do(fmt.Sprintf("init %d %d", r.pick(W, W+1, 2*W, W/2+1), r.pick(0, 0, B)))
				W = e.buf.WindowSize
			case dd:
				do("reset -")
			default:
				do("reset")
			}
		}
	}
	if dd {
		do("flush")
	} else {
		do(fmt.Sprintf("rd %d", len(e.written)-e.delivered))
	}
	cnt.inc("d.large")
	emit("E", "E")
	return e
}
