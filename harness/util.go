package main

import (
	"encoding/hex"
	"fmt"
	"sort"
	"strings"
)

// rng is a splitmix64 generator; every random choice of the harness derives
// from one such state so that a run replays exactly.
type rng struct{ s uint64 }

func newRng(seed uint64) *rng { return &rng{s: seed*0x9E3779B97F4A7C15 + 0x1234567} }

func (r *rng) u64() uint64 {
	r.s += 0x9E3779B97F4A7C15
	z := r.s
	z = (z ^ (z >> 30)) * 0xBF58476D1CE4E5B9
	z = (z ^ (z >> 27)) * 0x94D049BB133111EB
	return z ^ (z >> 31)
}

// intn returns a value in [0, n).
func (r *rng) intn(n int) int {
	if n <= 0 {
		return 0
	}
	return int(r.u64() % uint64(n))
}

// rangeIn returns a value in [lo, hi].
func (r *rng) rangeIn(lo, hi int) int {
	if hi <= lo {
		return lo
	}
	return lo + r.intn(hi-lo+1)
}

func (r *rng) chance(pct int) bool { return r.intn(100) < pct }

func (r *rng) pick(xs ...int) int { return xs[r.intn(len(xs))] }

func hx(p []byte) string {
	if len(p) == 0 {
		return "-"
	}
	return hex.EncodeToString(p)
}

// hxl prints byte strings of the decoder machines: hex, or for more than 4096 bytes
// `~len:fnv1a64` (same as Driver.hexl in the model).
func hxl(p []byte) string {
	if len(p) <= 4096 {
		return hx(p)
	}
	h := uint64(14695981039346656037)
	for _, b := range p {
		h = (h ^ uint64(b)) * 1099511628211
	}
	return fmt.Sprintf("~%d:%d", len(p), h)
}

// genBytes is the generated payload `@seed:n` (same formula as LzModel/Driver.lean).
func genBytes(seed, n int) []byte {
	p := make([]byte, n)
	for k := range p {
		p[k] = byte(97 + ((7*k*k+13*k+seed)%1009)%5)
	}
	return p
}

// mixBytes is the aperiodic generated payload `#seed:n` (same formula as LzModel/Driver.lean).
func mixBytes(seed, n int) []byte {
	p := make([]byte, n)
	for k := range p {
		x := uint64(seed)*0x9E3779B97F4A7C15 + uint64(k)*0xBF58476D1CE4E5B9
		x ^= x >> 31
		x *= 0x94D049BB133111EB
		x ^= x >> 29
		p[k] = byte(x >> 24)
	}
	return p
}

func unhx(s string) []byte {
	if s == "-" {
		return nil
	}
	if len(s) > 0 && (s[0] == '@' || s[0] == '#' || s[0] == '=') {
		var a, n int
		fmt.Sscanf(s[1:], "%d:%d", &a, &n)
		switch s[0] {
		case '@':
			return genBytes(a, n)
		case '#':
			return mixBytes(a, n)
		}
		p := make([]byte, n)
		for i := range p {
			p[i] = byte(a)
		}
		return p
	}
	b, err := hex.DecodeString(s)
	if err != nil {
		panic(err)
	}
	return b
}

func joinInts(xs []int) string {
	if len(xs) == 0 {
		return "-"
	}
	ss := make([]string, len(xs))
	for i, x := range xs {
		ss[i] = fmt.Sprint(x)
	}
	return strings.Join(ss, ",")
}

// counters collects branch / distribution counters for the evidence file.
type counters map[string]int

func (c counters) inc(k string)        { c[k]++ }
func (c counters) add(k string, n int) { c[k] += n }
func (c counters) keys() []string {
	ks := make([]string, 0, len(c))
	for k := range c {
		ks = append(ks, k)
	}
	sort.Strings(ks)
	return ks
}

// genData produces input data from a mix of families.
func genData(r *rng, n int) []byte {
	if n <= 0 {
		return nil
	}
	p := make([]byte, n)
	switch r.intn(10) {
	case 9: // zero-heavy copies: repeats followed by zero bytes
		for i := 0; i < n; {
			if i > 6 && r.chance(60) {
				src := r.intn(i)
				l := r.rangeIn(3, 20)
				for j := 0; j < l && i < n; j++ {
					p[i] = p[src+j%(i-src)]
					i++
				}
			} else {
				p[i] = byte(r.pick(0, 0, 0, 1, 'a', 0xff))
				i++
			}
		}
	case 0: // uniform random
		for i := range p {
			p[i] = byte(r.u64())
		}
	case 1: // small alphabet
		a := r.rangeIn(1, 4)
		base := byte(r.pick(0, 0, 'a', 'a', 0xfe))
		for i := range p {
			p[i] = base + byte(r.intn(a))
		}
	case 2: // runs
		c := byte(r.pick(0, 0, 'x', 0xff, 7))
		for i := 0; i < n; {
			l := r.rangeIn(1, 40)
			for j := 0; j < l && i < n; j++ {
				p[i] = c
				i++
			}
			if r.chance(70) {
				c = byte(r.pick(0, 'x', 'y', 0xff, int(c)+1))
			}
		}
	case 3: // periodic with defects
		per := r.rangeIn(1, 9)
		pat := make([]byte, per)
		for i := range pat {
			pat[i] = byte('a' + r.intn(3))
		}
		for i := range p {
			p[i] = pat[i%per]
		}
		for k := r.intn(3); k > 0; k-- {
			p[r.intn(n)] ^= byte(1 + r.intn(3))
		}
	case 4: // fibonacci word
		a, b := []byte{'a'}, []byte{'a', 'b'}
		for len(b) < n {
			a, b = b, append(append([]byte{}, b...), a...)
		}
		copy(p, b)
	case 5: // thue-morse
		for i := range p {
			x, c := i, 0
			for x > 0 {
				c ^= x & 1
				x >>= 1
			}
			p[i] = byte('a' + c)
		}
	case 6: // copy from earlier with edits
		for i := 0; i < n; {
			if i > 4 && r.chance(70) {
				src := r.intn(i)
				l := r.rangeIn(2, 24)
				for j := 0; j < l && i < n; j++ {
					p[i] = p[src+j%(i-src)]
					i++
				}
			} else {
				p[i] = byte('a' + r.intn(6))
				i++
			}
		}
	case 7: // all zero
	case 8: // two letter runs
		for i := 0; i < n; {
			l := r.rangeIn(1, 12)
			c := byte('a' + r.intn(2))
			for j := 0; j < l && i < n; j++ {
				p[i] = c
				i++
			}
		}
	}
	return p
}
