module lzverif

go 1.22.0

require github.com/ulikunitz/lz v0.0.0

require golang.org/x/exp v0.0.0-20240325151524-a685a6edb6d8 // indirect

replace github.com/ulikunitz/lz => /repo
