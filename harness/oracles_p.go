package main

import (
	"fmt"
	"math/bits"

	"github.com/ulikunitz/lz"
)

// lcpClip: common prefix of fed[q:] and fed[p:end].
func lcpClip(fed []byte, q, p, end int) int {
	n := 0
	for p+n < end && fed[q+n] == fed[p+n] {
		n++
	}
	return n
}

// checkGSAP is the brute-force oracle of C12: every emitted match has the
// maximal length over all earlier buffered positions; with BufferSize <=
// WindowSize a literal is only emitted where no match of MinMatchLen exists.
func (e *pExec) checkGSAP(site string, n, blockMax int) {
	if e.nilUsed {
		e.cnt.inc("gsap.skipped.parsenil-history")
		return
	}
	if int64(blockMax)*int64(e.cpos+blockMax-e.off) > 20_000_000 {
		e.cnt.inc("gsap.skipped.large") // the brute-force oracle is quadratic
		return
	}
	blk := &e.blkBuf
	blockEnd := e.cpos + blockMax
	best := func(p int) int {
		b := 0
		for q := e.off; q < p; q++ {
			if l := lcpClip(e.fed, q, p, blockEnd); l > b {
				b = l
			}
		}
		return b
	}
	pos := e.cpos
	litOnlyIf := e.bc.BufferSize <= e.bc.WindowSize
	for i, s := range blk.Sequences {
		for k := 0; k < int(s.LitLen); k++ {
			if litOnlyIf {
				if b := best(pos + k); b >= e.minM {
					e.find("C12", "literal although an earlier position offers a match", site,
						fmt.Sprintf("pos=%d best=%d min=%d", pos+k, b, e.minM))
				}
				e.cnt.inc("gsap.literal.checked")
			}
		}
		pos += int(s.LitLen)
		if b := best(pos); b != int(s.MatchLen) {
			e.find("C12", "emitted match is not the longest available", site,
				fmt.Sprintf("seq=%d pos=%d m=%d best=%d", i, pos, s.MatchLen, b))
		}
		e.cnt.inc("gsap.match.checked")
		pos += int(s.MatchLen)
	}
	if litOnlyIf {
		for ; pos < e.cpos+n; pos++ {
			if b := best(pos); b >= e.minM {
				e.find("C12", "trailing literal although an earlier position offers a match", site,
					fmt.Sprintf("pos=%d best=%d min=%d", pos, b, e.minM))
			}
			e.cnt.inc("gsap.literal.checked")
		}
	}
	if e.off > 0 {
		e.cnt.inc("gsap.after-shrink")
	}
}

func xzCost(m, o uint32) uint64 {
	if o == 0 {
		return 9 * uint64(m)
	}
	c := uint64(0)
	m -= 2
	switch {
	case m < 8:
		c += 4
	case m < 16:
		c += 5
	default:
		c += 10
	}
	if d := o - 1; d < 4 {
		c += 4
	} else {
		c += 2 + uint64(bits.Len32(d))
	}
	return c
}

// checkOSAP is the brute-force oracle of C11: the cost of the emitted block
// equals the optimum over all valid parses of the block.
func (e *pExec) checkOSAP(site string, n int) {
	if int64(n)*int64(e.cpos+n-e.off) > 20_000_000 && n > 64 {
		e.cnt.inc("osap.skipped.large") // the brute-force optimum is quadratic
		return
	}
	blk := &e.blkBuf
	// cost of the emitted parse
	var got uint64
	sumL := 0
	for _, s := range blk.Sequences {
		got += xzCost(s.MatchLen, s.Offset)
		sumL += int(s.LitLen)
	}
	got += 9 * uint64(len(blk.Literals))
	_ = sumL
	start, end := e.cpos, e.cpos+n
	const inf = ^uint64(0) >> 1
	d := make([]uint64, n+1)
	for i := range d {
		d[i] = inf
	}
	d[0] = 0
	for i := 0; i < n; i++ {
		if d[i] == inf {
			continue
		}
		if c := d[i] + 9; c < d[i+1] {
			d[i+1] = c
		}
		p := start + i
		maxO := min(e.bc.WindowSize, p-e.off)
		for o := 1; o <= maxO; o++ {
			l := lcpClip(e.fed, p-o, p, end)
			if l > e.maxM {
				l = e.maxM
			}
			for m := e.minM; m <= l; m++ {
				if c := d[i] + xzCost(uint32(m), uint32(o)); c < d[i+m] {
					d[i+m] = c
				}
			}
		}
	}
	e.cnt.inc("osap.block.checked")
	if len(blk.Sequences) > 0 {
		e.cnt.inc("osap.block.withmatches")
	}
	if e.off > 0 {
		e.cnt.inc("osap.after-shrink")
	}
	if got != d[n] {
		e.find("C11", "emitted parse is not of minimum cost", site,
			fmt.Sprintf("cost=%d optimum=%d n=%d cpos=%d off=%d", got, d[n], n, e.cpos, e.off))
	}
}

var _ = lz.NoTrailingLiterals
