// Command lzh is the verification harness for github.com/ulikunitz/lz: it
// generates operation scripts from one PRNG state, executes them in-process
// on the real code (built with -tags verif), evaluates the property oracles
// on the implementation's outputs and writes the scripts together with the
// implementation's canonical outputs, so that the Lean model driver can replay
// the same scripts and the outputs can be diffed.
package main

import (
	"bufio"
	"crypto/sha256"
	"encoding/json"
	"flag"
	"fmt"
	"os"
	"path/filepath"
	"strings"
	"sync"
	"time"
)

// suiteFn generates and executes one script. It returns the findings of the
// oracles and whether the script is non-trivial for its suite.
type suiteFn func(r *rng, id string, cnt counters, emit func(line, out string)) (finds []finding, deep bool)

var suites = map[string]suiteFn{}

type shardResult struct {
	evals    int
	ops      int
	cnt      counters
	finds    []finding
	samples  [][]string
	distinct map[[32]byte]bool
	hung     bool
}

func runShard(fn suiteFn, seed uint64, shard, n int, dir string, hangTimeout time.Duration) shardResult {
	res := shardResult{cnt: counters{}, distinct: map[[32]byte]bool{}}
	sf, _ := os.Create(filepath.Join(dir, fmt.Sprintf("shard%02d.scripts", shard)))
	inf, _ := os.Create(filepath.Join(dir, fmt.Sprintf("shard%02d.impl", shard)))
	sw, iw := bufio.NewWriter(sf), bufio.NewWriter(inf)
	defer func() { sw.Flush(); iw.Flush(); sf.Close(); inf.Close() }()
	fmt.Fprintln(sw, "G "+joinInts(sizeClasses))
	fmt.Fprintln(iw, "G")
	r := newRng(seed*1000003 + uint64(shard)*7919 + 1)
	for k := 0; k < n; k++ {
		id := fmt.Sprintf("%d.%d", shard, k)
		var lines, outs []string
		var mu sync.Mutex
		emit := func(line, out string) {
			mu.Lock()
			lines = append(lines, line)
			outs = append(outs, out)
			mu.Unlock()
		}
		type ret struct {
			finds []finding
			deep  bool
		}
		done := make(chan ret, 1)
		sub := newRng(r.u64())
		t0 := time.Now()
		go func() {
			f, d := fn(sub, id, res.cnt, emit)
			if os.Getenv("LZH_TIMING") != "" {
				fmt.Fprintf(os.Stderr, "timing %s %.2fs\n", id, time.Since(t0).Seconds())
			}
			done <- ret{f, d}
		}()
		var rt ret
		select {
		case rt = <-done:
		case <-time.After(hangTimeout):
			// the operation spins: report it and stop this shard (the
			// goroutine cannot be killed)
			mu.Lock()
			res.hung = true
			ls := append([]string{}, lines...)
			mu.Unlock()
			res.finds = append(res.finds, finding{Property: "C06", What: "operation does not return (hang)",
				Site: "watchdog", Script: ls, Detail: fmt.Sprintf("no progress for %v", hangTimeout)})
			res.finds = append(res.finds, finding{Property: "C16", What: "operation does not return (hang)",
				Site: "watchdog", Script: ls, Detail: fmt.Sprintf("no progress for %v", hangTimeout)})
			for i := range ls {
				fmt.Fprintln(sw, ls[i])
				if i < len(outs) {
					fmt.Fprintln(iw, outs[i])
				} else {
					fmt.Fprintln(iw, "hang")
				}
			}
			if len(ls) == len(outs) {
				fmt.Fprintln(iw, "hang")
				fmt.Fprintln(sw, "hang-marker")
			}
			fmt.Fprintln(sw, "E")
			fmt.Fprintln(iw, "E")
			return res
		}
		res.evals++
		res.ops += len(lines)
		for i := range lines {
			fmt.Fprintln(sw, lines[i])
			fmt.Fprintln(iw, outs[i])
		}
		res.finds = append(res.finds, rt.finds...)
		if rt.deep {
			h := sha256.Sum256([]byte(strings.Join(lines[1:], "\n")))
			res.distinct[h] = true
		}
		if len(res.samples) < 2 && rt.deep && len(lines) < 40 {
			var s []string
			for i := range lines {
				s = append(s, lines[i]+"  =>  "+outs[i])
			}
			res.samples = append(res.samples, s)
		}
	}
	return res
}

type report struct {
	Suite              string         `json:"suite"`
	Seed               uint64         `json:"seed"`
	Evaluations        int            `json:"evaluations"`
	Ops                int            `json:"ops"`
	DistinctNontrivial int            `json:"distinct_nontrivial"`
	Counters           map[string]int `json:"counters"`
	Findings           []finding      `json:"findings"`
	Samples            [][]string     `json:"samples"`
	Hung               bool           `json:"hung"`
	Shards             int            `json:"shards"`
	EnvError           string         `json:"env_error,omitempty"`
}

func main() {
	if len(os.Args) < 2 {
		fmt.Fprintln(os.Stderr, "usage: lzh run|replay|list ...")
		os.Exit(2)
	}
	switch os.Args[1] {
	case "list":
		for k := range suites {
			fmt.Println(k)
		}
	case "run":
		fs := flag.NewFlagSet("run", flag.ExitOnError)
		suite := fs.String("suite", "", "suite name")
		seed := fs.Uint64("seed", 1, "seed")
		n := fs.Int("n", 100, "scripts per shard")
		shards := fs.Int("shards", 8, "parallel shards")
		out := fs.String("out", "", "output directory")
		hang := fs.Duration("hang", 20*time.Second, "watchdog per script")
		fs.Parse(os.Args[2:])
		fn, ok := suites[*suite]
		if !ok {
			fmt.Fprintln(os.Stderr, "unknown suite", *suite)
			os.Exit(2)
		}
		os.MkdirAll(*out, 0o755)
		rep := report{Suite: *suite, Seed: *seed, Counters: map[string]int{}, Shards: *shards}
		if err := selfTestGrow(); err != nil {
			rep.EnvError = err.Error()
		}
		results := make([]shardResult, *shards)
		var wg sync.WaitGroup
		for s := 0; s < *shards; s++ {
			wg.Add(1)
			go func(s int) {
				defer wg.Done()
				results[s] = runShard(fn, *seed, s, *n, *out, *hang)
			}(s)
		}
		wg.Wait()
		distinct := map[[32]byte]bool{}
		for _, res := range results {
			rep.Evaluations += res.evals
			rep.Ops += res.ops
			for k, v := range res.cnt {
				rep.Counters[k] += v
			}
			rep.Findings = append(rep.Findings, res.finds...)
			if len(rep.Samples) < 3 {
				rep.Samples = append(rep.Samples, res.samples...)
			}
			for h := range res.distinct {
				distinct[h] = true
			}
			rep.Hung = rep.Hung || res.hung
		}
		rep.DistinctNontrivial = len(distinct)
		{ // at most 30 findings per property
			per := map[string]int{}
			var keep []finding
			for _, f := range rep.Findings {
				per[f.Property]++
				if per[f.Property] <= 30 {
					keep = append(keep, f)
				}
			}
			rep.Findings = keep
		}
		b, _ := json.MarshalIndent(rep, "", " ")
		os.WriteFile(filepath.Join(*out, "report.json"), b, 0o644)
		fmt.Printf("suite=%s scripts=%d ops=%d findings=%d hung=%v\n", *suite, rep.Evaluations, rep.Ops, len(rep.Findings), rep.Hung)
		if rep.Hung {
			// spinning goroutines cannot be stopped
			os.Exit(0)
		}
	case "replay":
		// replay executes a script file (S … E blocks) on the implementation,
		// prints the outputs and the oracle findings
		fs := flag.NewFlagSet("replay", flag.ExitOnError)
		file := fs.String("file", "", "script file")
		fs.Parse(os.Args[2:])
		replayFile(*file)
	}
}
