package main

import (
	"fmt"
	"os"
)

// pProfile steers the generator of parser scripts.
type pProfile struct {
	kinds     []string
	maxOps    int
	maxBuf    int // largest BufferSize
	minBuf    int // smallest BufferSize (0: 1)
	stream    int // length of the underlying data stream
	wWrite    int
	wReadFrom int
	wParse    int
	wParseNil int
	wShrink   int
	wReset    int
	wProbe    int // readat / byteat
	wCfg      int
	ntlPct    int  // percentage of Parse calls with NoTrailingLiterals
	badCfgPct int  // percentage of scripts with a (possibly) invalid configuration
	runs      bool // run-heavy data and geometry (C19)
	wrap      bool // Wrap scripts (C08)
	bigWin    bool // prefer WindowSize >= BufferSize (C12 literal clause)
	twin      bool // compare with a fresh parser after every Reset (C13)
	staleBias bool // geometry and data that make stale dictionary entries matter (C13)
	bigTable  bool // hash tables of 2^20 entries (oracle only)
	hugeWin   bool // always one of the largest windows Verify accepts, tiny hash tables
}

func (pf pProfile) withKinds(k ...string) pProfile { pf.kinds = k; return pf }

var profGeneral = pProfile{kinds: allKinds, maxOps: 40, maxBuf: 96, stream: 400,
	wWrite: 30, wReadFrom: 8, wParse: 40, wParseNil: 3, wShrink: 8, wReset: 3, wProbe: 4, wCfg: 1,
	ntlPct: 30, badCfgPct: 3}

// genPCfg draws a configuration with tiny geometry so that every mechanism
// wraps within a short script.
func genPCfg(r *rng, kind string, pf pProfile) pcfg {
	c := pcfg{kind: kind, f: map[string]int{}}
	bs := r.rangeIn(max(1, pf.minBuf), pf.maxBuf)
	if r.chance(15) && pf.minBuf == 0 {
		bs = r.rangeIn(1, 12)
	}
	if pf.wReset > 0 && !pf.wrap && !pf.runs && r.chance(2) {
		bs = r.rangeIn(1025, 1200) // larger than grow()'s initial 1 KiB allocation (capacity boundary of Reset)
	}
	c.f["BufferSize"] = bs
	c.f["ShrinkSize"] = r.rangeIn(0, bs-1)
	if r.chance(3) {
		c.f["ShrinkSize"] = bs // boundary: rejected by Verify (and must never reach Wrap)
	}
	switch r.intn(5) {
	case 0:
		c.f["WindowSize"] = r.rangeIn(1, 4)
	case 1:
		c.f["WindowSize"] = bs
	case 2:
		c.f["WindowSize"] = r.rangeIn(1, 128)
	case 3:
		c.f["WindowSize"] = r.rangeIn(1, bs)
	case 4:
		c.f["WindowSize"] = bs + r.rangeIn(0, 40)
	}
	if pf.bigWin && r.chance(70) {
		c.f["WindowSize"] = bs + r.rangeIn(0, 9)
	}
	if r.chance(8) || pf.hugeWin {
		// the largest windows Verify accepts (the window is independent of the buffer): offsets are
		// computed in 32-bit types in places
		c.f["WindowSize"] = r.pick(1<<32-8, 1<<32-9, 1<<31, 1<<31-1, 1<<31+5, 1<<32-8-bs)
	}
	c.f["BlockSize"] = r.rangeIn(1, 48)
	if r.chance(10) {
		c.f["BlockSize"] = r.rangeIn(bs, bs+20)
	}
	if pf.runs {
		c.f["BlockSize"] = r.pick(32, 32, 33, 40, 48, 64)
		c.f["BufferSize"] = r.rangeIn(32, 200)
		c.f["ShrinkSize"] = r.rangeIn(0, c.f["BufferSize"]-1)
		if r.chance(40) {
			c.f["WindowSize"] = r.pick(1, 2, 3, 2, 1)
		}
	}
	hb := func(il int) int {
		if pf.bigTable && 8*il >= 20 {
			return r.pick(20, 20, 21)
		}
		if pf.hugeWin {
			return r.rangeIn(1, 3) // collisions evict entries: positions ahead of the window head stay in the table
		}
		m := 8 * il
		if m > 6 {
			m = 6
		}
		if r.chance(4) {
			return 0 // default
		}
		return r.rangeIn(1, m)
	}
	switch kind {
	case "HP", "BHP":
		il := r.rangeIn(2, 8)
		c.f["InputLen"] = il
		c.f["HashBits"] = hb(il)
	case "DHP", "BDHP":
		il1 := r.rangeIn(2, 7)
		il2 := r.rangeIn(il1+1, 8)
		c.f["InputLen1"], c.f["InputLen2"] = il1, il2
		c.f["HashBits1"], c.f["HashBits2"] = hb(il1), hb(il2)
		if r.chance(5) {
			c.f["InputLen2"] = 0 // default depends on InputLen1
			if il1 >= 6 {
				c.f["InputLen1"] = r.rangeIn(2, 5)
			}
		}
	case "BUP":
		il := r.rangeIn(2, 8)
		c.f["InputLen"] = il
		c.f["HashBits"] = hb(il)
		c.f["BucketSize"] = r.pick(1, 2, 3, 4, 128)
		if pf.staleBias {
			c.f["InputLen"] = r.rangeIn(4, 6)
			c.f["BucketSize"] = r.pick(1, 1, 2, 2, 3)
			c.f["HashBits"] = r.rangeIn(1, 6)
		}
	case "GSAP":
		c.f["MinMatchLen"] = r.rangeIn(2, 5)
		if c.f["WindowSize"] < c.f["MinMatchLen"] {
			c.f["WindowSize"] = c.f["MinMatchLen"] + r.intn(3)
		}
		if pf.runs && r.chance(40) {
			c.f["WindowSize"] = 2
			c.f["MinMatchLen"] = 2
		}
	case "OSAP":
		mn := r.rangeIn(2, 5)
		c.f["MinMatchLen"] = mn
		c.f["MaxMatchLen"] = r.pick(mn, mn+1, mn+r.intn(18), 273, 0)
		if r.chance(6) {
			c.f["MaxMatchLen"] = r.pick(1<<31-1, 1<<31, 1<<32, 1<<32+4, 1<<62) // Verify puts no upper bound on it
		}
		c.cost = r.pickS("", "XZCost")
	}
	for wild := 0; wild < 3 && r.chance(pf.badCfgPct); wild++ {
		if wild > 0 && pf.badCfgPct < 50 {
			break
		}
		// malformed stream: zero / negative / huge values for a random field (several with a high badCfgPct)
		fs := kindFields[kind]
		k := fs[r.intn(len(fs))]
		if k == "Cost" {
			c.cost = r.pickS("x", "xzcost", "XZCost_")
		} else {
			c.f[k] = r.pick(0, -1, -100, 1<<31, 1<<32-8, 1<<32-7, 1<<40, 9, 25, 129, 1<<31-1, 1<<62, 2, 1, 8, 24, 23, 128)
			// keep table sizes small enough to run
			if (k == "HashBits" || k == "HashBits1" || k == "HashBits2") && c.f[k] > 16 {
				c.f[k] = 25
			}
			if k == "BufferSize" && c.f[k] > 1<<20 {
				// accepted but never filled: fine
			}
		}
	}
	return c
}

func (r *rng) pickS(xs ...string) string { return xs[r.intn(len(xs))] }

func genResps(r *rng, total int) []resp {
	var rs []resp
	left := total
	n := r.rangeIn(1, 6)
	mode := r.intn(4)
	for i := 0; i < n || (left > 0 && len(rs) < 40); i++ {
		var mx int
		switch mode {
		case 0:
			mx = 1
		case 1:
			mx = r.rangeIn(1, 7)
		case 2:
			mx = left
		default:
			mx = r.rangeIn(1, 64)
		}
		ec := 0
		if r.chance(8) {
			ec = r.pick(1, 2, 3)
		}
		if mx >= left && r.chance(50) {
			ec = 1 // data together with io.EOF
		}
		if r.chance(4) {
			// a reader may answer (0, nil): "nothing happened" — ReadFrom has to ask again
			rs = append(rs, resp{0, 0})
		}
		rs = append(rs, resp{mx, ec})
		left -= mx
		if left <= 0 && r.chance(60) {
			break
		}
	}
	return rs
}

// genPScript generates and executes one parser script; emit receives every
// line together with the implementation's output.
func genPScript(r *rng, pf pProfile, id string, cnt counters, emit func(line, out string)) *pExec {
	kind := pf.kinds[r.intn(len(pf.kinds))]
	cfg := genPCfg(r, kind, pf)
	e, st := newPExec(cfg, cnt)
	e.twinOn = pf.twin
	if pf.twin && st == "ok" {
		e.twin, _ = cfg.toLz().NewParser()
	}
	emit(e.header(id), fmt.Sprintf("S %s %s", id, st))
	e.lines = append(e.lines, e.header(id))
	cnt.inc("p.script." + kind)
	if st != "ok" {
		cnt.inc("p.cfg.rejected")
		emit("E", "E")
		return e
	}
	do := func(line string) string {
		out := e.step(line)
		emit(line, out)
		return out
	}
	var stream []byte
	if e.bc.BufferSize > 1024 && e.bc.BufferSize < 4096 && pf.stream < 3000 {
		pf.stream = 3000
	}
	if pf.runs {
		stream = make([]byte, pf.stream)
		c := byte(r.pick(0, 0, 'a', 0xff, 1))
		for i := 0; i < len(stream); {
			l := r.rangeIn(20, 160)
			for j := 0; j < l && i < len(stream); j++ {
				stream[i] = c
				i++
			}
			c = byte(r.pick(0, 'a', 'b', 0xff))
		}
	} else if pf.staleBias {
		// small alphabet: n-grams recur with different continuations
		stream = make([]byte, pf.stream)
		al := r.rangeIn(2, 3)
		for i := range stream {
			stream[i] = byte('a' + r.intn(al))
		}
	} else {
		stream = genData(r, pf.stream)
	}
	sp := 0
	next := func(n int) []byte {
		if r.chance(8) && sp > 8 { // replay an earlier part of the stream
			a := r.intn(sp)
			b := min(a+n, sp)
			return stream[a:b]
		}
		if sp+n > len(stream) {
			n = len(stream) - sp
		}
		p := stream[sp : sp+n]
		sp += n
		return p
	}
	bs := e.bc.BufferSize
	if bs > 4096 {
		bs = 4096
	}
	if pf.wrap {
		genWrapOps(r, pf, e, do, next)
		emit("E", "E")
		return e
	}
	total := pf.wWrite + pf.wReadFrom + pf.wParse + pf.wParseNil + pf.wShrink + pf.wReset + pf.wProbe + pf.wCfg
	nops := r.rangeIn(3, pf.maxOps)
	if pf.wReset > 0 && (r.chance(6) || e.bc.BufferSize > 1024) {
		// directed: Reset(data) at the capacity boundary of the parser's own buffer. The
		// buffer's capacity is len+7 after a copying Reset and 1 KiB after a first small
		// Write; data that is 1..7 bytes longer than what fits with the 7-byte margin must
		// be given a new buffer, otherwise the next Parse reads behind the capacity.
		drain := func() {
			fl := r.pick(0, 0, 1)
			if r.chance(30) {
				do("parsenil")
			}
			for g := 0; g < 6 && !e.dead && e.unparsed() > 0; g++ {
				do(fmt.Sprintf("parse %d", fl))
			}
		}
		if e.bc.BufferSize > 1024 {
			do("write " + hx(next(r.rangeIn(1, 8))))
			n := r.rangeIn(1010, 1026)
			do(fmt.Sprintf("reset %s %d", hx(next(n)), r.pick(0, 3, 6, 7)))
			drain()
		} else if bs >= 4 {
			n1 := r.rangeIn(1, bs-1)
			do(fmt.Sprintf("reset %s %d", hx(next(n1)), r.pick(0, 3, 6)))
			if r.chance(50) {
				drain()
			}
			n2 := min(bs, n1+r.rangeIn(1, 8))
			do(fmt.Sprintf("reset %s %d", hx(next(n2)), r.pick(0, 3, 6)))
			drain()
		}
		cnt.inc("p.directed.resetcap")
	}
	for k := 0; k < nops && !e.dead; k++ {
		x := r.intn(total)
		if r.chance(6) {
			// directed: a repeat that ends exactly at the block end (= end of the buffered
			// data) whose earlier occurrence is followed by zero bytes and a non-zero byte —
			// the tail of the word-at-a-time match extension (getLE64 pads with zeros)
			pl := r.rangeIn(9, 30)
			pat := make([]byte, pl)
			for i := range pat {
				pat[i] = byte(1 + r.intn(250))
			}
			w := append([]byte{}, pat...)
			for z := r.rangeIn(1, 7); z > 0; z-- {
				w = append(w, 0)
			}
			w = append(w, byte(1+r.intn(200)))
			for j := r.intn(6); j > 0; j-- {
				w = append(w, byte(r.intn(256)))
			}
			if r.chance(30) {
				w = append(w, 0) // and a literal in front of the second occurrence that equals a byte before the first
			}
			w = append(w, pat...)
			do("write " + hx(w))
			cnt.inc("p.directed.tailzero")
			fl := r.pick(0, 0, 1)
			for g := 0; g < 20 && !e.dead && e.unparsed() > 0; g++ {
				do(fmt.Sprintf("parse %d", fl))
			}
			continue
		}
		if pf.twin && r.chance(7) && e.unparsed() > 0 {
			// directed: abandon the session directly after a block that NoTrailingLiterals truncated
			// (positions behind the returned window head have been indexed already), then Reset with
			// data that shares n-grams with the abandoned part
			do("parse 1")
			a := max(0, sp-r.rangeIn(10, 60))
			d := append([]byte{}, stream[a:min(len(stream), a+r.rangeIn(8, min(bs, 90)))]...)
			if len(d) > bs {
				d = d[:bs]
			}
			if r.chance(50) {
				do(fmt.Sprintf("reset %s %d", hx(d), r.pick(0, 7, 20)))
			} else {
				do("reset - 0")
				do("write " + hx(d))
			}
			cnt.inc("p.directed.reset-after-ntl")
			for g := 0; g < 10 && !e.dead && e.unparsed() > 0; g++ {
				do(fmt.Sprintf("parse %d", r.pick(0, 0, 1)))
			}
			continue
		}
		switch {
		case x < pf.wWrite:
			n := r.pick(0, 1, r.rangeIn(1, 8), r.rangeIn(1, bs), r.rangeIn(1, bs+5), e.bc.BlockSize)
			do("write " + hx(next(n)))
		case x < pf.wWrite+pf.wReadFrom:
			n := r.rangeIn(0, bs+5)
			p := next(n)
			do(fmt.Sprintf("readfrom %s %s", hx(p), showResps(genResps(r, len(p)))))
		case x < pf.wWrite+pf.wReadFrom+pf.wParse:
			fl := 0
			if r.chance(pf.ntlPct) {
				fl = r.pick(1, 1, 1, 3)
			} else if r.chance(3) {
				fl = 2
			}
			do(fmt.Sprintf("parse %d", fl))
			// drain more often than not
			for r.chance(55) && !e.dead && e.unparsed() > 0 {
				do(fmt.Sprintf("parse %d", fl))
			}
		case x < pf.wWrite+pf.wReadFrom+pf.wParse+pf.wParseNil:
			do("parsenil")
		case x < pf.wWrite+pf.wReadFrom+pf.wParse+pf.wParseNil+pf.wShrink:
			do("shrink")
		case x < pf.wWrite+pf.wReadFrom+pf.wParse+pf.wParseNil+pf.wShrink+pf.wReset:
			if r.chance(40) {
				do("reset - 0")
			} else {
				n := r.rangeIn(1, bs+2)
				if r.chance(80) && n > bs {
					n = bs
				}
				ce := r.pick(0, 3, 6, 7, 8, 20, 64, 500)
				do(fmt.Sprintf("reset %s %d", hx(next(n)), ce))
			}
		case x < pf.wWrite+pf.wReadFrom+pf.wParse+pf.wParseNil+pf.wShrink+pf.wReset+pf.wProbe:
			lo, hi := e.off, len(e.fed)
			off := r.pick(lo-1, lo, hi-1, hi, hi+1, r.rangeIn(lo, max(lo, hi)), -1, 0)
			if r.chance(8) {
				// far outside the retained range: offsets are int64, the retained range is not
				off = r.pick(lo, hi, r.rangeIn(lo, max(lo, hi))) + r.pick(1<<32, 2<<32, 1<<31, 1<<40, -(1 << 32))
			}
			if r.chance(50) {
				do(fmt.Sprintf("byteat %d", off))
			} else {
				do(fmt.Sprintf("readat %d %d", r.pick(0, 1, 3, hi-lo, hi-lo+1), off))
			}
		default:
			do("cfg")
		}
	}
	// drain what is left so that the whole stream is covered by blocks
	for k := 0; k < 200 && !e.dead && e.unparsed() > 0; k++ {
		do(fmt.Sprintf("parse %d", r.pick(0, 0, 1)))
	}
	if !e.dead {
		do("parse 0")
	}
	emit("E", "E")
	return e
}

func genWrapOps(r *rng, pf pProfile, e *pExec, do func(string) string, next func(int) []byte) {
	rounds := r.rangeIn(1, 2)
	for rd := 0; rd < rounds && !e.dead; rd++ {
		bs := e.bc.BufferSize
		n := r.pick(0, 1, bs-1, bs, bs+1, 2*bs, 2*bs+1, e.bc.BlockSize, 3*e.bc.BlockSize, r.rangeIn(0, 5*bs))
		if n < 0 {
			n = 0
		}
		if n > pf.stream {
			n = pf.stream
		}
		payload := next(n)
		rs := genResps(r, len(payload))
		op := "wrap"
		if rd > 0 {
			op = "wreset"
		}
		do(fmt.Sprintf("%s %s %s", op, hx(payload), showResps(rs)))
		eofs := 0
		for k := 0; k < 400 && !e.dead && eofs < 3; k++ {
			fl := 0
			if r.chance(pf.ntlPct) {
				fl = 1
			}
			out := do(fmt.Sprintf("wparse %d", fl))
			if len(out) > 2 && out[:2] == "0 " && out[2:5] == "eof" {
				eofs++
			}
		}
	}
}

// genPExhaustive: script number idx enumerates (parser kind, geometry, flags, string over {a,b});
// the string is written in one piece (or through ReadFrom with single-byte reads) and parsed
// completely. Used by the thorough tier: 7 kinds x 6 geometries x 2 flags x 2 deliveries x {a,b}^<=7.
func genPExhaustive(idx int, id string, cnt counters, emit func(line, out string)) *pExec {
	kinds := allKinds
	type geo struct{ bs, ss, ws, bl int }
	geos := []geo{{16, 7, 16, 16}, {8, 3, 4, 3}, {5, 2, 2, 2}, {12, 1, 1, 5}, {9, 8, 20, 4}, {64, 0, 0, 7}}
	kind := kinds[idx%7]
	idx /= 7
	g := geos[idx%6]
	idx /= 6
	flags := idx % 2
	idx /= 2
	viaReader := idx%2 == 1
	idx /= 2
	n, x := 0, idx
	for x >= 1<<n {
		x -= 1 << n
		n++
	}
	data := make([]byte, n)
	for i := range data {
		data[i] = byte('a' + (x>>i)&1)
	}
	c := pcfg{kind: kind, f: map[string]int{"BufferSize": g.bs, "ShrinkSize": g.ss, "WindowSize": g.ws, "BlockSize": g.bl}}
	switch kind {
	case "HP", "BHP":
		c.f["InputLen"], c.f["HashBits"] = 2+x%3, 3
	case "DHP", "BDHP":
		c.f["InputLen1"], c.f["InputLen2"], c.f["HashBits1"], c.f["HashBits2"] = 2+x%2, 4+x%3, 3, 4
	case "BUP":
		c.f["InputLen"], c.f["HashBits"], c.f["BucketSize"] = 2+x%3, 2, 1+x%3
	case "GSAP":
		c.f["MinMatchLen"] = 2 + x%2
		if c.f["WindowSize"] != 0 && c.f["WindowSize"] < c.f["MinMatchLen"] {
			c.f["WindowSize"] = c.f["MinMatchLen"]
		}
	case "OSAP":
		c.f["MinMatchLen"], c.f["MaxMatchLen"] = 2+x%2, []int{0, 3, 5}[x%3]
	}
	e, st := newPExec(c, cnt)
	emit(e.header(id), fmt.Sprintf("S %s %s", id, st))
	e.lines = append(e.lines, e.header(id))
	if st != "ok" {
		emit("E", "E")
		return e
	}
	do := func(line string) string {
		out := e.step(line)
		emit(line, out)
		return out
	}
	rest := data
	for guard := 0; guard < 64 && !e.dead; guard++ {
		if len(rest) > 0 {
			var out string
			if viaReader {
				rs := make([]resp, len(rest))
				for i := range rs {
					rs[i] = resp{1, 0}
				}
				out = do(fmt.Sprintf("readfrom %s %s", hx(rest), showResps(rs)))
			} else {
				out = do("write " + hx(rest))
			}
			var k int
			fmt.Sscan(out, &k)
			rest = rest[k:]
		}
		for g2 := 0; g2 < 64 && !e.dead && e.unparsed() > 0; g2++ {
			do(fmt.Sprintf("parse %d", flags))
		}
		if len(rest) == 0 {
			break
		}
		do("shrink")
	}
	if !e.dead {
		do(fmt.Sprintf("parse %d", flags))
	}
	emit("E", "E")
	return e
}

// genPBig generates a script with a LARGE buffer (around the 32 KiB chunk size of ReadFrom,
// the 64 KiB switch of the ShrinkSize default, the 1 KiB minimum allocation of grow and the
// 128 KiB default block size). Only operations that are cheap in the list-based model are
// used: the suffix-array parsers' Parse(nil) just advances the window head, so the buffer
// bookkeeping (Write, chunked ReadFrom, Shrink, Reset, ReadAt/ByteAt) can be driven through
// several fills without parsing. Payloads are generated (`@seed:n`), not spelled out.
func genPBig(r *rng, id string, cnt counters, emit func(line, out string)) *pExec {
	kind := r.pickS("GSAP", "GSAP", "OSAP")
	c := pcfg{kind: kind, f: map[string]int{}}
	edges := []int{1017, 1024, 1031, 32761, 32768, 32775, 65529, 65536, 65543}
	bs := edges[r.intn(len(edges))] + r.rangeIn(-3, 3)
	if r.chance(30) {
		bs = r.pick(2000, 33000, 40000, 66000, 70000, 100000, 140000) + r.intn(50)
	}
	c.f["BufferSize"] = bs
	switch r.intn(4) {
	case 0:
		c.f["ShrinkSize"] = 0 // default: BufferSize/2 below 64 KiB, 32 KiB above
	case 1:
		c.f["ShrinkSize"] = bs - 1
	default:
		c.f["ShrinkSize"] = r.rangeIn(0, bs-1)
	}
	c.f["WindowSize"] = r.pick(0, bs, bs/2, 1000, bs+100)
	c.f["BlockSize"] = r.pick(0, 1000, 32768, 40000, bs, bs+1, 200000) // 0: default 128 KiB
	if kind == "OSAP" {
		c.cost = ""
	}
	e, st := newPExec(c, cnt)
	emit(e.header(id), fmt.Sprintf("S %s %s", id, st))
	e.lines = append(e.lines, e.header(id))
	cnt.inc("p.script." + kind)
	if st != "ok" {
		emit("E", "E")
		return e
	}
	do := func(line string) string {
		out := e.step(line)
		emit(line, out)
		return out
	}
	seed := 0
	pay := func(n int) string {
		if n <= 0 {
			return "-"
		}
		seed++
		return fmt.Sprintf("@%d:%d", seed*37+r.intn(30), n)
	}
	size := func() int {
		free := bs - (len(e.fed) - e.off)
		return r.pick(1, r.rangeIn(1, 9), 1017, 1018, 1024, 1025, 32761, 32767, 32768, 32769, 32775, free-1, free, free+1, free+8,
			bs, bs+1, r.rangeIn(1, bs+10), r.rangeIn(1, 70000))
	}
	nops := r.rangeIn(5, 16)
	for k := 0; k < nops && !e.dead; k++ {
		switch x := r.intn(100); {
		case x < 22:
			do("write " + pay(size()))
		case x < 50:
			n := size()
			var rs []resp
			left := n
			for left > 0 && len(rs) < 12 {
				mx := r.pick(1, 7, 1000, 32767, 32768, 32769, 50000, 1<<20, left)
				ec := 0
				if r.chance(10) {
					ec = r.pick(1, 2, 3)
				}
				rs = append(rs, resp{mx, ec})
				left -= mx
			}
			if r.chance(40) {
				rs = append(rs, resp{1 << 20, 1})
			}
			do(fmt.Sprintf("readfrom %s %s", pay(n), showResps(rs)))
		case x < 70:
			if bsz := e.bc.BlockSize; r.chance(40) && e.unparsed() <= bsz {
				// directed: a little more than one block is unparsed
				want := bsz + r.pick(1, 2, bsz>>12, bsz>>12+1, bsz>>8, 255)
				if add := want - e.unparsed(); add > 0 && add <= bs-(len(e.fed)-e.off) {
					do("write " + pay(add))
				}
			}
			do("parsenil")
			for r.chance(50) && !e.dead && e.unparsed() > 0 {
				do("parsenil")
			}
		case x < 80:
			do("shrink")
		case x < 86:
			if r.chance(30) {
				do("reset - 0")
			} else {
				do(fmt.Sprintf("reset %s %d", pay(r.pick(size(), 1017, 1018, 1024, 32768)), r.pick(0, 3, 6, 7, 8, 64, 40000)))
			}
		case x < 98:
			lo, hi := e.off, len(e.fed)
			off := r.pick(lo-1, lo, hi-1, hi, hi+1, r.rangeIn(lo, max(lo, hi)), lo+32768, lo+65536, lo+1<<32, hi+1<<32, r.rangeIn(lo, max(lo, hi))+1<<32)
			if r.chance(50) {
				do(fmt.Sprintf("byteat %d", off))
			} else {
				do(fmt.Sprintf("readat %d %d", r.pick(0, 1, 8, 64), off))
			}
		default:
			do("cfg")
		}
	}
	cnt.inc("p.bigbuf")
	emit("E", "E")
	return e
}

// genPLarge drives a parser with LARGE geometry (buffers and windows beyond 64 KiB, the default
// 128 KiB block size, offsets above 65535, positions above 2^16) and pipes every block into a
// Decoder with the same window. It is oracle-only: the list-based Lean model is quadratic in the
// buffer size for the hash parsers, so these scripts are NOT replayed on the model (the header
// emitted to the model is the no-op machine X); the Go oracles (C01 round trip, C02 fields, C03
// accounting, C19 maximality and runs, C13 twin, C07/C04 decoder pipeline) evaluate the
// implementation directly. A finding carries the parser script with generated payloads, so it
// replays with `lzh replay`.
func genPLarge(r *rng, id string, cnt counters, emit func(line, out string)) (*pExec, *dExec) {
	kind := allKinds[r.intn(len(allKinds))]
	if kind == "OSAP" && r.chance(65) {
		kind = r.pickS("HP", "BHP", "DHP", "BDHP", "BUP", "GSAP") // the optimizing parser is the slow one
	}
	// the first script of every shard is a "huge" one (megabytes of history), one hash parser per shard
	forceHuge := false
	var sh, sk int
	if n, _ := fmt.Sscanf(id, "%d.%d", &sh, &sk); n == 2 && sk == 0 {
		forceHuge = true
		kind = []string{"HP", "BHP", "DHP", "BDHP", "BUP"}[sh%5]
	}
	c := pcfg{kind: kind, f: map[string]int{}}
	bs := r.pick(66000, 70000, 131080, 140000, 200000) + r.intn(100)
	c.f["BufferSize"] = bs
	c.f["WindowSize"] = r.pick(65535, 65536, 65537, 70000, bs, 32768, bs+5)
	c.f["ShrinkSize"] = r.pick(0, 1000, bs/2, bs-1, 65536)
	c.f["BlockSize"] = r.pick(0, 40000, 65536, 70000, bs)
	longOff := r.chance(50)
	if longOff {
		// long-distance repeats: offsets above 65535 need a window, a buffer and a shrink size beyond 64 KiB
		bs = r.pick(140000, 200000, 270000) + r.intn(100)
		if kind == "OSAP" || kind == "GSAP" {
			bs = 140000 + r.intn(100)
		}
		c.f["BufferSize"] = bs
		c.f["WindowSize"] = r.pick(70000, bs, 131072, bs+5, 100000)
		c.f["ShrinkSize"] = r.pick(bs/2, bs-1, 70000, bs-40000)
		c.f["BlockSize"] = r.pick(0, 40000, 65536, 70000)
	}
	if kind == "GSAP" || kind == "OSAP" {
		// a shrink that frees only a few bytes costs a suffix sort of the whole buffer per refill
		c.f["ShrinkSize"] = r.pick(0, 1000, bs/2, bs/3)
	}
	huge := forceHuge || (kind != "GSAP" && kind != "OSAP" && r.chance(4))
	if huge {
		// several MiB of buffered history behind a smaller window: candidates that lie megabytes back
		bs = r.pick(3<<20, 4<<20, 5<<20) + r.intn(100)
		c.f["BufferSize"] = bs
		c.f["WindowSize"] = r.pick(1<<20, 1<<20, 2<<20, 70000)
		c.f["ShrinkSize"] = bs - r.pick(300000, 600000)
		c.f["BlockSize"] = r.pick(0, 70000, 1<<20)
		longOff = false
	}
	switch kind {
	case "HP", "BHP":
		c.f["InputLen"] = r.pick(0, 3, 4, 8)
		c.f["HashBits"] = r.pick(0, 8, 12, 16)
	case "DHP", "BDHP":
		c.f["InputLen1"] = r.pick(0, 3, 4)
		c.f["InputLen2"] = r.pick(0, 6, 8)
		c.f["HashBits1"] = r.pick(0, 10, 16)
		c.f["HashBits2"] = r.pick(0, 10, 16)
	case "BUP":
		c.f["InputLen"] = r.pick(0, 3, 5)
		c.f["HashBits"] = r.pick(0, 8, 12)
		c.f["BucketSize"] = r.pick(0, 2, 10)
	case "GSAP":
		c.f["MinMatchLen"] = r.pick(0, 3, 4)
	case "OSAP":
		c.f["MinMatchLen"] = r.pick(0, 3)
		c.f["MaxMatchLen"] = r.pick(0, 273, 64)
	}
	e, st := newPExec(c, cnt)
	e.twinOn = true
	hdr := fmt.Sprintf("S %s X", id)
	emit(hdr, fmt.Sprintf("S %s ok", id))
	e.lines = append(e.lines, e.header(id))
	cnt.inc("p.large." + kind)
	if os.Getenv("LZH_TIMING") != "" {
		fmt.Fprintln(os.Stderr, "cfg", e.header(id))
	}
	if st != "ok" {
		emit("E", "E")
		return e, nil
	}
	W := e.bc.WindowSize
	d, _ := newDExec(fmt.Sprintf("S %s DD %d %d 0 -", id, W, r.pick(0, 0, 2*W, W+70000)), cnt)
	// the stream: segments that recur at long distances
	type seg struct{ spec string }
	var segs []string
	newSeg := func() string {
		n := r.pick(r.rangeIn(1, 300), r.rangeIn(1000, 9000), r.rangeIn(20000, 70000))
		if kind == "OSAP" {
			// the optimizing parser is slow on highly repetitive data
			if n > 3000 {
				return fmt.Sprintf("#%d:%d", r.intn(100000), n)
			}
		}
		switch r.intn(6) {
		case 0:
			return fmt.Sprintf("=%d:%d", r.pick(0, 97, 255), n) // a run
		case 1:
			return fmt.Sprintf("@%d:%d", r.intn(1000), n) // period 1009, 5 letters
		default:
			return fmt.Sprintf("#%d:%d", r.intn(100000), n) // aperiodic
		}
	}
	total := 0
	limit := r.rangeIn(150000, 320000)
	if huge {
		limit = r.rangeIn(5<<20, 8<<20)
	}
	if kind == "GSAP" {
		limit = r.rangeIn(100000, 180000) // a suffix sort per fill
	}
	if kind == "OSAP" {
		limit = r.rangeIn(60000, 110000)
	}
	for guard := 0; guard < 400 && !e.dead && total < limit; guard++ {
		var sp string
		if huge {
			// a recurring aperiodic segment, separated by long low-entropy fillers (a run keeps the hash
			// slots of the segment alive)
			switch {
			case len(segs) == 0:
				sp = fmt.Sprintf("#%d:%d", r.intn(100000), r.rangeIn(20000, 120000))
				segs = append(segs, sp)
			case guard%2 == 1:
				sp = fmt.Sprintf("=%d:%d", r.pick(0, 0, 97), r.pick(r.rangeIn(2100000, 3000000), r.rangeIn(2100000, 3000000), r.rangeIn(900000, 2000000)))
			default:
				sp = segs[0]
			}
		} else if longOff && r.chance(12) {
			// period >= 64 KiB, three repetitions: a match longer than its own offset
			sp = fmt.Sprintf("#%d:%d", r.intn(100000), r.rangeIn(65536, 70000))
			segs = append(segs, sp)
			for rep := 0; rep < 2 && !e.dead; rep++ {
				e.step("write " + sp)
			}
		} else if longOff && len(segs) >= 2 && r.chance(60) {
			sp = segs[max(0, len(segs)-r.rangeIn(2, 3))] // the segment before the previous one: distance > 64 KiB
		} else if longOff && r.chance(60) {
			sp = fmt.Sprintf("#%d:%d", r.intn(100000), r.rangeIn(66000, 90000)) // filler longer than 64 KiB
			segs = append(segs, sp)
		} else if len(segs) > 0 && r.chance(45) {
			sp = segs[r.intn(len(segs))] // an earlier segment again: long-distance repeat
		} else {
			sp = newSeg()
			segs = append(segs, sp)
		}
		p := unhx(sp)
		// feed the segment, parsing whenever the buffer is full
		for len(p) > 0 && !e.dead {
			var out string
			if r.chance(70) {
				out = e.step("write " + sp)
			} else {
				// uniform responses: how many Read calls are made depends on the capacity history
				// (32 KiB chunks while the buffer grows), which a reset parser and a new one do not share
				rs := make([]resp, 16)
				for i := range rs {
					rs[i] = resp{1 << 20, 0}
				}
				out = e.step(fmt.Sprintf("readfrom %s %s", sp, showResps(rs)))
			}
			var k int
			fmt.Sscan(out, &k)
			total += k
			if k >= len(p) {
				break
			}
			// not everything was taken: parse what is buffered, shrink, continue with the rest
			// (the rest is a different payload: spell its length with a fresh aperiodic segment)
			p = nil
			for g := 0; g < 64 && !e.dead && e.unparsed() > 0; g++ {
				pLargeParse(r, e, d)
			}
			e.step("shrink")
		}
		if r.chance(35) {
			for g := 0; g < 64 && !e.dead && e.unparsed() > 0; g++ {
				pLargeParse(r, e, d)
				if r.chance(20) {
					break
				}
			}
		}
		if r.chance(10) {
			e.step("shrink")
		}
		if r.chance(2) {
			e.step("reset - 0")
			if d != nil {
				d.step("reset -")
			}
			total = 0
		}
	}
	for g := 0; g < 200 && !e.dead && e.unparsed() > 0; g++ {
		pLargeParse(r, e, d)
	}
	if d != nil && !d.dead {
		d.step("flush")
	}
	emit("E", "E")
	return e, d
}

// pLargeParse parses one block and hands it to the decoder (same window).
func pLargeParse(r *rng, e *pExec, d *dExec) {
	if bsz := e.bc.BlockSize; r.chance(25) && e.unparsed() <= bsz {
		// directed: a little more than one block is unparsed (BlockSize + 1 … + BlockSize>>8)
		want := bsz + r.pick(1, 2, bsz>>12, bsz>>12+1, bsz>>8, 255, 256)
		if add := want - e.unparsed(); add > 0 && add <= e.bc.BufferSize-(len(e.fed)-e.off) {
			e.step(fmt.Sprintf("write #%d:%d", r.intn(100000), add))
		}
	}
	if r.chance(4) {
		before := e.cpos
		e.step("parsenil")
		if d != nil && !d.dead && e.cpos > before {
			d.step("w " + hx(e.fed[before:e.cpos]))
		}
		return
	}
	e.step(fmt.Sprintf("parse %d", r.pick(0, 0, 0, 1)))
	if d == nil || d.dead || e.dead {
		return
	}
	blk := e.blkBuf
	if len(blk.Sequences) == 0 && len(blk.Literals) == 0 {
		return
	}
	d.step(fmt.Sprintf("wblk %s %s", showSeqs(blk.Sequences), hx(blk.Literals)))
}


// genPLargeWrap: chunking independence of Wrap at large geometry (oracle only). Two wrapped parsers
// of the same configuration read the same stream, one from a reader that always fills the slice it
// is given, one from a reader with large short reads (>= 32 KiB but shorter than the slice), small
// reads and data delivered together with io.EOF; the (n, err, block) sequences must be identical.
func genPLargeWrap(r *rng, id string, cnt counters, emit func(line, out string)) []finding {
	kind := allKinds[r.intn(len(allKinds))]
	if kind == "OSAP" && r.chance(65) {
		kind = r.pickS("HP", "BHP", "DHP", "BDHP", "BUP", "GSAP") // the optimizing parser is the slow one
	}
	c := pcfg{kind: kind, f: map[string]int{}}
	bs := r.pick(33000, 40000, 66000, 70000, 100000, 140000) + r.intn(100)
	c.f["BufferSize"] = bs
	c.f["WindowSize"] = r.pick(1000, 32768, bs/2, bs)
	c.f["ShrinkSize"] = r.pick(0, 1000, bs/2, bs-5000) // bs-1 would refill one byte per call
	c.f["BlockSize"] = r.pick(0, 10000, 40000, bs)
	if kind == "GSAP" {
		c.f["MinMatchLen"] = 3
	}
	if kind == "GSAP" || kind == "OSAP" {
		c.f["ShrinkSize"] = r.pick(0, 1000, bs/2, bs/3)
	}
	e1, st := newPExec(c, cnt)
	emit(fmt.Sprintf("S %s X", id), fmt.Sprintf("S %s ok", id))
	if st != "ok" {
		emit("E", "E")
		return e1.finds
	}
	e2, _ := newPExec(c, counters{})
	if os.Getenv("LZH_TIMING") != "" {
		fmt.Fprintln(os.Stderr, "cfg wrap", e1.header(id))
	}
	e1.lines = append(e1.lines, e1.header(id))
	e2.lines = append(e2.lines, e2.header(id))
	n := r.rangeIn(90000, 260000)
	if kind == "OSAP" || kind == "GSAP" {
		n = r.rangeIn(60000, 120000)
	}
	pay := fmt.Sprintf("%s%d:%d", r.pickS("#", "@", "#"), r.intn(100000), n)
	if kind == "OSAP" {
		// the optimizing parser is slow on highly repetitive data: aperiodic payload, moderate size
		n = r.rangeIn(40000, 80000)
		pay = fmt.Sprintf("#%d:%d", r.intn(100000), n)
	}
	full := make([]resp, 6000)
	for i := range full {
		full[i] = resp{1 << 20, 0}
	}
	// one response per Read call (a response larger than the slice offered is cut, the rest of it
	// is NOT carried over), so provide more calls than can ever be needed
	var chunks []resp
	for i := 0; i < 400; i++ {
		mx := r.pick(32768, 32769, 40000, 65536, 100000, 50000, 33000, 32768, 40000)
		if r.chance(6) {
			mx = r.pick(7, 1, 1000)
		}
		chunks = append(chunks, resp{mx, 0})
	}
	for i := 0; i < 6000; i++ {
		chunks = append(chunks, resp{1 << 20, 0})
	}
	e1.step(fmt.Sprintf("wrap %s %s", pay, showResps(full)))
	if r.chance(35) {
		// the same stream as a concatenation of parts (a reader type with an io.Copy-based WriteTo)
		e2.step(fmt.Sprintf("wrapm %s %d", pay, r.pick(2, 3, 5)))
	} else {
		e2.step(fmt.Sprintf("wrap %s %s", pay, showResps(chunks)))
	}
	fl := r.pick(0, 0, 1)
	for g := 0; g < 3000 && !e1.dead && !e2.dead; g++ {
		o1 := e1.step(fmt.Sprintf("wparse %d", fl))
		o2 := e2.step(fmt.Sprintf("wparse %d", fl))
		if o1 != o2 {
			short := func(s string) string {
				if len(s) > 90 {
					return s[:90] + "…"
				}
				return s
			}
			e2.find("C08", "block sequence depends on how the reader chunks its data", "Wrap.Parse",
				fmt.Sprintf("call=%d full=%s chunked=%s", g, short(o1), short(o2)))
			break
		}
		if len(o1) >= 5 && o1[:5] == "0 eof" {
			break
		}
	}
	cnt.inc("p.large.wrap")
	emit("E", "E")
	return append(e1.finds, e2.finds...)
}

// genPMidSA: the greedy suffix-array parser at a geometry of a few KiB — matches longer than 1 KiB
// (anything that treats long matches in batches, e.g. marking their positions), blocks of a few
// hundred to a few thousand bytes, copies that start inside earlier long matches. Model
// correspondence and the brute-force longest-match oracle both apply (one script per shard: the
// list-based suffix sort of the model needs about a second at this size).
func genPMidSA(r *rng, id string, cnt counters, emit func(line, out string)) *pExec {
	c := pcfg{kind: "GSAP", f: map[string]int{}}
	bs := r.rangeIn(3000, 4200)
	c.f["BufferSize"] = bs
	c.f["WindowSize"] = r.pick(bs, bs+10, bs)
	c.f["ShrinkSize"] = r.pick(bs/2, 100, bs-1)
	c.f["BlockSize"] = r.pick(bs, bs, bs, 2100) // the long copy has to fit into one block
	c.f["MinMatchLen"] = r.pick(3, 2, 4)
	e, st := newPExec(c, cnt)
	emit(e.header(id), fmt.Sprintf("S %s %s", id, st))
	e.lines = append(e.lines, e.header(id))
	if st != "ok" {
		emit("E", "E")
		return e
	}
	do := func(line string) string {
		out := e.step(line)
		emit(line, out)
		return out
	}
	x := mixBytes(r.intn(1<<20), r.rangeIn(1100, 1400))
	var data []byte
	data = append(data, x...)
	data = append(data, mixBytes(r.intn(1<<20), r.rangeIn(3, 40))...)
	a := r.intn(30)
	cp := len(data) // start of the long copy
	cl := r.rangeIn(1030, len(x)-a)
	data = append(data, x[a:a+cl]...) // a copy longer than 1 KiB: one match
	zm := len(data)
	data = append(data, mixBytes(r.intn(1<<20), 24)...) // unique continuation behind the copy
	for len(data) < bs-400 {
		// later copies whose unique longest source starts INSIDE the long match (just behind a 1 KiB
		// boundary of it, …) and runs over its end into the continuation — the positions covered by a
		// match must all have been entered into the search set
		s0 := r.pick(1025, 1025, 1024, 1026, 1023, 1027, 1, 2, r.intn(cl))
		if s0 >= cl {
			s0 = cl - 1
		}
		seg := append([]byte{}, data[cp+s0:zm+r.rangeIn(3, 20)]...)
		if len(seg) > 330 {
			seg = seg[len(seg)-330:]
		}
		data = append(data, seg...)
		data = append(data, byte(r.intn(256)))
	}
	if len(data) > bs {
		data = data[:bs]
	}
	cut := r.pick(len(data), len(data), len(data), r.rangeIn(1, len(data)))
	do("write " + hx(data[:cut]))
	fl := r.pick(0, 0, 1)
	for g := 0; g < 12 && !e.dead && e.unparsed() > 0; g++ {
		do(fmt.Sprintf("parse %d", fl))
	}
	if cut < len(data) {
		do("write " + hx(data[cut:]))
		for g := 0; g < 12 && !e.dead && e.unparsed() > 0; g++ {
			do(fmt.Sprintf("parse %d", fl))
		}
	}
	cnt.inc("p.midsa")
	emit("E", "E")
	return e
}

// genPOsapFar: optimality of OSAP when candidates lie more than 2^20 bytes back (the offset part of
// XZCost grows with the offset, so a far 3-byte match can cost more than its literals while a near
// 2-byte match pays off). The history is skipped with Parse(nil); the last, small block is checked
// against the brute-force optimum (oracle only; the block is small, so the oracle is cheap).
func genPOsapFar(r *rng, id string, cnt counters, emit func(line, out string)) *pExec {
	c := pcfg{kind: "OSAP", f: map[string]int{}}
	hist := r.rangeIn(1_060_000, 1_250_000)
	c.f["BufferSize"] = hist + 200000
	c.f["WindowSize"] = hist + 100000
	c.f["BlockSize"] = 0 // 128 KiB
	c.f["MinMatchLen"] = r.pick(2, 2, 3)
	c.f["MaxMatchLen"] = r.pick(0, 273, 16)
	e, st := newPExec(c, cnt)
	emit(fmt.Sprintf("S %s X", id), fmt.Sprintf("S %s ok", id))
	e.lines = append(e.lines, e.header(id))
	if st != "ok" {
		emit("E", "E")
		return e
	}
	// planted n-grams: far ones at the very beginning, near ones just before the last block; the
	// filler uses other byte values
	filler := func(n int) []byte {
		p := make([]byte, n)
		for i := range p {
			p[i] = byte('a' + r.intn(6))
		}
		return p
	}
	far := []byte("XYZ-UVW-KLMN-")
	// a longer n-gram that occurs ONLY at the very beginning: more than 1 MiB away a 12-byte match is
	// still far cheaper than 12 literals, so the minimum-cost parse of the last block must use it
	far2 := []byte("QRSTUVWXYZ01")
	var data []byte
	data = append(data, far...)
	data = append(data, far2...)
	data = append(data, '-')
	data = append(data, filler(hist)...)
	// near: the 2- and 3-byte prefixes of the far n-grams, at most a few dozen bytes in front of the last
	// block (a 2-byte match only pays off below an offset of 2048); the last block starts at a block
	// boundary (multiple of 128 KiB), so pad in FRONT of the near part
	near := append([]byte("XY.UV.KLM."), filler(r.rangeIn(0, 30))...)
	for (len(data)+len(near))%(128<<10) != 0 {
		data = append(data, byte('a'+r.intn(6)))
	}
	data = append(data, near...)
	last := append([]byte("XYZ"), filler(r.rangeIn(0, 3))...)
	last = append(last, []byte("UVW")...)
	last = append(last, filler(r.rangeIn(0, 3))...)
	last = append(last, []byte("KLMN")...)
	last = append(last, filler(r.rangeIn(0, 4))...)
	last = append(last, far2...)
	last = append(last, filler(r.rangeIn(0, 2))...)
	data = append(data, last...)
	e.step("write " + hx(data))
	for g := 0; g < 40 && !e.dead && e.unparsed() > len(last); g++ {
		e.step("parsenil")
	}
	e.nilUsed = false
	for g := 0; g < 4 && !e.dead && e.unparsed() > 0; g++ {
		e.step("parse 0")
	}
	cnt.inc("p.large.osapfar")
	emit("E", "E")
	return e
}

// genPGiant: one hash parser with a buffer, a block and a window beyond 16 MiB (positions, offsets
// and block lengths above 2^24). Oracle only. Parse(nil) over more than 16 MiB, then a repeat of the
// beginning of the stream (offset > 2^24), parsed normally.
func genPGiant(r *rng, id string, cnt counters, emit func(line, out string)) *pExec {
	kind := r.pickS("HP", "BHP", "DHP", "BDHP", "BUP", "HP")
	c := pcfg{kind: kind, f: map[string]int{}}
	n1 := 16<<20 + r.pick(1, 4096, 300000)
	c.f["BufferSize"] = n1 + 1<<20
	c.f["WindowSize"] = r.pick(n1+1<<20, 0, n1)
	c.f["BlockSize"] = r.pick(n1+500000, n1, 17<<20)
	c.f["ShrinkSize"] = r.pick(0, n1)
	e, st := newPExec(c, cnt)
	emit(fmt.Sprintf("S %s X", id), fmt.Sprintf("S %s ok", id))
	e.lines = append(e.lines, e.header(id))
	if os.Getenv("LZH_TIMING") != "" {
		fmt.Fprintln(os.Stderr, "cfg giant", e.header(id))
	}
	if st != "ok" {
		emit("E", "E")
		return e
	}
	seed := r.intn(100000)
	e.step(fmt.Sprintf("write #%d:%d", seed, n1))
	e.step("parsenil")
	for g := 0; g < 3 && !e.dead && e.unparsed() > 0; g++ {
		e.step("parsenil")
	}
	// the beginning of the stream again: candidates more than 2^24 bytes back
	e.step(fmt.Sprintf("write #%d:%d", seed, r.rangeIn(50000, 300000)))
	for g := 0; g < 4 && !e.dead && e.unparsed() > 0; g++ {
		e.step("parse 0")
	}
	cnt.inc("p.large.giant")
	emit("E", "E")
	return e
}

// genPSABudget: a suffix-array parser fed one of the texts that exhaust the budget of the suffix
// sort inside tandem-repeat groups (budgetText); the whole text is in the window, so Parse sorts
// exactly these bytes. Model correspondence and the brute-force oracles apply.
func genPSABudget(kind string, r *rng, id string, cnt counters, emit func(line, out string)) *pExec {
	data := budgetText(r)
	c := pcfg{kind: kind, f: map[string]int{}}
	bs := len(data) + r.pick(0, 0, 1, 40)
	c.f["BufferSize"] = bs
	c.f["WindowSize"] = bs
	c.f["ShrinkSize"] = r.pick(bs/2, 0, bs-1)
	c.f["BlockSize"] = r.pick(bs, bs, 64, 100)
	c.f["MinMatchLen"] = r.pick(3, 2, 4)
	e, st := newPExec(c, cnt)
	emit(e.header(id), fmt.Sprintf("S %s %s", id, st))
	e.lines = append(e.lines, e.header(id))
	if st != "ok" {
		emit("E", "E")
		return e
	}
	do := func(line string) string {
		out := e.step(line)
		emit(line, out)
		return out
	}
	do("write " + hx(data))
	fl := r.pick(0, 0, 1)
	for g := 0; g < 12 && !e.dead && e.unparsed() > 0; g++ {
		do(fmt.Sprintf("parse %d", fl))
	}
	cnt.inc("p.sabudget")
	emit("E", "E")
	return e
}

// genPMidOSAP: the optimizing parser at a geometry of a few KiB with strings whose only earlier
// occurrence is more than 2048 bytes away (with MinMatchLen 2 a 2-byte match stops paying off
// there, longer ones do not: anything that prunes far edges by the cost of the SHORTEST match loses
// the optimum), next to near repeats. Model correspondence and the brute-force optimum both apply
// (one script per shard: the list-based suffix sort of the model needs about a second).
func genPMidOSAP(r *rng, id string, cnt counters, emit func(line, out string)) *pExec {
	c := pcfg{kind: "OSAP", f: map[string]int{}}
	bs := r.rangeIn(3000, 4200)
	c.f["BufferSize"] = bs
	c.f["WindowSize"] = r.pick(bs, bs, bs-100)
	c.f["ShrinkSize"] = r.pick(bs/2, 100, bs-1)
	c.f["BlockSize"] = r.pick(bs, 1024, 700)
	c.f["MinMatchLen"] = r.pick(2, 2, 3)
	c.f["MaxMatchLen"] = r.pick(0, 273, 16)
	e, st := newPExec(c, cnt)
	emit(e.header(id), fmt.Sprintf("S %s %s", id, st))
	e.lines = append(e.lines, e.header(id))
	if st != "ok" {
		emit("E", "E")
		return e
	}
	do := func(line string) string {
		out := e.step(line)
		emit(line, out)
		return out
	}
	filler := func(n int) []byte {
		p := make([]byte, n)
		for i := range p {
			p[i] = byte(0x80 + r.intn(120)) // large alphabet: hardly any accidental repeat
		}
		return p
	}
	var planted [][]byte
	var data []byte
	for k := r.rangeIn(3, 6); k > 0; k-- {
		w := make([]byte, r.rangeIn(4, 24))
		for i := range w {
			w[i] = byte('a' + r.intn(26))
		}
		planted = append(planted, w)
		data = append(data, filler(r.rangeIn(5, 60))...)
		data = append(data, w...)
	}
	data = append(data, filler(2100+r.intn(300)-len(data)%7)...)
	for len(data) < bs-200 {
		w := planted[r.intn(len(planted))]
		data = append(data, w[:r.rangeIn(2, len(w))]...)
		data = append(data, filler(r.rangeIn(1, 40))...)
		if r.chance(30) { // a near repeat of what was just written
			k := r.rangeIn(2, 12)
			data = append(data, data[len(data)-k-r.intn(20)-1:][:k]...)
		}
	}
	cut := r.pick(len(data), len(data), r.rangeIn(2200, len(data)))
	do("write " + hx(data[:cut]))
	fl := r.pick(0, 0, 1)
	for g := 0; g < 12 && !e.dead && e.unparsed() > 0; g++ {
		do(fmt.Sprintf("parse %d", fl))
	}
	if cut < len(data) {
		do("write " + hx(data[cut:]))
		for g := 0; g < 12 && !e.dead && e.unparsed() > 0; g++ {
			do(fmt.Sprintf("parse %d", fl))
		}
	}
	cnt.inc("p.midosap")
	emit("E", "E")
	return e
}
