package main

import (
	"bytes"
	"fmt"
	"sort"
	"strconv"
	"strings"
	"sync/atomic"
	"time"

	"github.com/ulikunitz/lz"
	"github.com/ulikunitz/lz/suffix"
)

// xExec executes the stateless one-line operations (machines S, C, U) and the
// bitset scripts on the real code, with their oracles.
type xExec struct {
	lines []string
	finds []finding
	cnt   counters
	bs    *lz.VerifBitset
	ref   map[int]bool
}

func (e *xExec) find(prop, what, site, detail string) {
	if len(e.finds) > 20 {
		return
	}
	e.finds = append(e.finds, finding{Property: prop, What: what, Site: site,
		Script: append([]string{}, e.lines...), Detail: detail})
}

func i32s(xs []int32) string {
	if len(xs) == 0 {
		return "-"
	}
	ss := make([]string, len(xs))
	for i, x := range xs {
		ss[i] = strconv.Itoa(int(x))
	}
	return strings.Join(ss, ",")
}

func parseI32s(s string) []int32 {
	if s == "-" || s == "" {
		return nil
	}
	var out []int32
	for _, t := range strings.Split(s, ",") {
		v, _ := strconv.Atoi(t)
		out = append(out, int32(v))
	}
	return out
}

func naiveSA(t []byte) []int32 {
	sa := make([]int32, len(t))
	for i := range sa {
		sa[i] = int32(i)
	}
	sort.Slice(sa, func(a, b int) bool { return bytes.Compare(t[sa[a]:], t[sa[b]:]) < 0 })
	return sa
}

func naiveLCP(a, b []byte) int {
	n := 0
	for n < len(a) && n < len(b) && a[n] == b[n] {
		n++
	}
	return n
}

type cb struct {
	m      int
	lo, hi int
	seg    []int32
}

// runSegments calls suffix.Segments and records the callbacks; the position
// of a segment inside sa is recovered from its capacity. The tables are laid
// out the way a caller with one arena lays them out — [lcp | sa | canaries],
// with spare capacity behind lcp — so that a callee that appends to or writes
// behind the slices it is given damages the suffix array or the canaries
// (clobbered is reported then).
func runSegments(sa0, lcp0 []int32, minLen, maxLen int, sortSeg bool) (cbs []cb, panicked, clobbered bool) {
	defer func() {
		if r := recover(); r != nil {
			panicked = true
		}
	}()
	n, k := len(lcp0), len(sa0)
	arena := make([]int32, n+k+8)
	lcp := arena[:n] // capacity reaches over sa and the canaries
	copy(lcp, lcp0)
	sa := arena[n : n+k : n+k]
	copy(sa, sa0)
	for i := n + k; i < len(arena); i++ {
		arena[i] = -0x5a5a5a5
	}
	suffix.Segments(sa, lcp, minLen, maxLen, func(m int, seg []int32) {
		lo := cap(sa) - cap(seg)
		c := cb{m: m, lo: lo, hi: lo + len(seg)}
		c.seg = append([]int32{}, seg...)
		if sortSeg {
			sort.Slice(c.seg, func(i, j int) bool { return c.seg[i] < c.seg[j] })
		}
		cbs = append(cbs, c)
	})
	for i := range sa {
		if sa[i] != sa0[i] {
			clobbered = true
		}
	}
	for i := range lcp {
		if lcp[i] != lcp0[i] {
			clobbered = true
		}
	}
	for i := n + k; i < len(arena); i++ {
		if arena[i] != -0x5a5a5a5 {
			clobbered = true
		}
	}
	return cbs, false, clobbered
}

// checkSegments is the brute-force oracle of C10 on an LCP profile.
func (e *xExec) checkSegments(lcp []int32, minLen, maxLen int, cbs []cb, site string) {
	n := len(lcp)
	clip := func(v int32) int {
		if int(v) > maxLen {
			return maxLen
		}
		return int(v)
	}
	for i, c := range cbs {
		if c.m < minLen || c.m > maxLen || c.lo < 0 || c.hi > n || c.hi-c.lo < 1 {
			e.find("C10", "callback out of range", site, fmt.Sprintf("cb=%d m=%d lo=%d hi=%d", i, c.m, c.lo, c.hi))
			return
		}
		for x := c.lo + 1; x < c.hi; x++ {
			if clip(lcp[x]) < c.m {
				e.find("C10", "segment members do not share m bytes", site, fmt.Sprintf("cb=%d m=%d x=%d", i, c.m, x))
				return
			}
		}
		// children first
		for j := i + 1; j < len(cbs); j++ {
			d := cbs[j]
			if d.m > c.m && c.lo <= d.lo && d.hi <= c.hi {
				e.find("C10", "a group with a longer prefix is reported after its enclosing group", site, fmt.Sprintf("cb=%d,%d", i, j))
				return
			}
		}
	}
	if n > 120 {
		return
	}
	for a := 0; a < n; a++ {
		c := 1 << 30
		for b := a + 1; b < n; b++ {
			if v := clip(lcp[b]); v < c {
				c = v
			}
			if c < minLen {
				break
			}
			cntm := 0
			for _, k := range cbs {
				if k.m == c && k.lo <= a && b < k.hi {
					cntm++
				}
			}
			if cntm != 1 {
				e.find("C10", "pair of suffixes not covered by exactly one callback", site,
					fmt.Sprintf("a=%d b=%d c=%d callbacks=%d", a, b, c, cntm))
				return
			}
		}
	}
	e.cnt.inc("s.segments.checked")
}

// opDeadline bounds one call into the suffix package: a call that does not return within it is
// reported as a finding of the property (the goroutine cannot be killed and keeps spinning until
// the process ends).
var opDeadline = 10 * time.Second

var hangCount atomic.Int64

// timed runs fn with the deadline; false means that fn did not return. A panic of fn is
// re-raised in the calling goroutine so that the recover of step sees it.
func (e *xExec) timed(prop, site, detail string, fn func()) bool {
	if hangCount.Load() >= 4 {
		// every hung call keeps a core busy for the rest of the run: the defect is
		// established, later calls of this run are not made
		e.cnt.inc("impl.skipped-after-hangs")
		return false
	}
	type res struct{ p interface{} }
	done := make(chan res, 1)
	go func() {
		defer func() { done <- res{recover()} }()
		fn()
	}()
	select {
	case r := <-done:
		if r.p != nil {
			panic(r.p)
		}
		return true
	case <-time.After(opDeadline):
		hangCount.Add(1)
		e.cnt.inc("impl.hang")
		e.find(prop, "operation does not return (hang)", site, detail)
		return false
	}
}

func (e *xExec) step(line string) (out string) {
	e.lines = append(e.lines, line)
	defer func() {
		if r := recover(); r != nil {
			out = "panic"
			e.cnt.inc("impl.panic")
			prop := map[string]string{"sort": "C09", "lcp": "C09", "lcpsa": "C09", "invert": "C09", "seg": "C10", "segtext": "C10",
				"defaults": "C16", "verify": "C16", "newparser": "C16", "marshal": "C20", "parsejson": "C20", "unmarshal": "C20"}[strings.Fields(line)[0]]
			if prop == "" {
				prop = "C16"
			}
			e.find(prop, "panic", strings.Fields(line)[0], fmt.Sprint(r))
		}
	}()
	ws := strings.Fields(line)
	switch ws[0] {
	case "sort":
		t := unhx(ws[1])
		t0 := append([]byte{}, t...)
		want := naiveSA(t)
		var first []int32
		ths := [][2]int{{7, 0}, {1, 1}, {2, 2}, {3, 3}, {8, 5}, {64, 64}}
		if len(t) > 64 {
			ths = [][2]int{{7, 0}, {2, 3}} // every Sort allocates 0.5 MB of bucket tables
		}
		for _, th := range ths {
			// sa with spare capacity and canaries behind it; t with spare capacity as well
			arena := make([]int32, len(t)+6)
			sa := arena[:len(t)]
			for i := range arena {
				arena[i] = int32(-77 + i*31)
			}
			tt := append(make([]byte, 0, len(t)+9), t...)
			tail := tt[len(t):cap(tt)]
			for i := range tail {
				tail[i] = byte(0xC3 ^ i)
			}
			if !e.timed("C09", "Sort", fmt.Sprintf("thresholds=%v no return within %v", th, opDeadline), func() {
				if th[0] == 7 && th[1] == 0 {
					suffix.Sort(tt, sa)
				} else {
					suffix.VerifSort(tt, sa, th[0], th[1])
				}
			}) {
				return "hang"
			}
			if !bytes.Equal(tt, t0) {
				e.find("C09", "Sort modifies t", "Sort", "")
			}
			for i := len(t); i < len(arena); i++ {
				if arena[i] != int32(-77+i*31) {
					e.find("C09", "Sort writes behind the suffix array it was given", "Sort", fmt.Sprintf("index=%d", i))
					break
				}
			}
			for i := range tail {
				if tail[i] != byte(0xC3^i) {
					e.find("C09", "Sort writes behind the text it was given", "Sort", fmt.Sprintf("index=%d", i))
					break
				}
			}
			if i32s(sa) != i32s(want) {
				e.find("C09", "Sort result is not the suffix array", "Sort", fmt.Sprintf("thresholds=%v got=%s want=%s", th, i32s(sa), i32s(want)))
			}
			if first == nil {
				first = sa
			}
		}
		if len(t) > 64 {
			e.cnt.inc("s.sort.long")
		}
		e.cnt.inc("s.sort")
		return i32s(first)
	case "lcp":
		t := unhx(ws[1])
		sa := naiveSA(t)
		// the result must not depend on what the table held before: prefill with garbage
		dirty := func(seed int) []int32 {
			l := make([]int32, len(t))
			for i := range l {
				l[i] = int32(seed + i*13)
			}
			return l
		}
		l1 := dirty(-447)
		if !e.timed("C09", "LCP", fmt.Sprintf("LCP(t, nil, nil, lcp): no return within %v", opDeadline), func() { suffix.LCP(t, nil, nil, l1) }) {
			return "hang"
		}
		l2 := dirty(1 << 30)
		suffix.LCP(t, append([]int32{}, sa...), nil, l2)
		inv := dirty(7)
		suffix.InvertSA(sa, inv)
		l3 := dirty(1)
		suffix.LCP(t, sa, inv, l3)
		for i := range l1 {
			w := 0
			if i > 0 {
				w = naiveLCP(t[sa[i-1]:], t[sa[i]:])
			}
			if int(l1[i]) != w || l2[i] != l1[i] || l3[i] != l1[i] {
				e.find("C09", "LCP table wrong", "LCP", fmt.Sprintf("i=%d got=%d,%d,%d want=%d", i, l1[i], l2[i], l3[i], w))
				break
			}
		}
		for i, j := range sa {
			if inv[j] != int32(i) {
				e.find("C09", "InvertSA wrong", "InvertSA", "")
				break
			}
		}
		e.cnt.inc("s.lcp")
		return i32s(l1)
	case "invert":
		sa := parseI32s(ws[1])
		inv := make([]int32, len(sa))
		suffix.InvertSA(sa, inv)
		return i32s(inv)
	case "seg":
		lcp := parseI32s(ws[1])
		mn, _ := strconv.Atoi(ws[2])
		mx, _ := strconv.Atoi(ws[3])
		sa := make([]int32, len(lcp))
		for i := range sa {
			sa[i] = int32(i)
		}
		cbs, pan, clob := runSegments(sa, lcp, mn, mx, false)
		if clob {
			e.find("C10", "Segments modifies the caller's tables or memory behind them", "Segments", fmt.Sprintf("n=%d min=%d max=%d", len(lcp), mn, mx))
		}
		if pan {
			if mn >= 0 && mn <= mx {
				e.find("C10", "Segments panics", "Segments", fmt.Sprintf("n=%d min=%d max=%d", len(lcp), mn, mx))
			}
			return "panic"
		}
		if mn >= 0 && mn <= mx && len(lcp) > 0 {
			e.checkSegments(lcp, mn, mx, cbs, "Segments")
		}
		if len(cbs) == 0 {
			return "-"
		}
		ss := make([]string, len(cbs))
		for i, c := range cbs {
			ss[i] = fmt.Sprintf("%d:%d:%d", c.m, c.lo, c.hi)
		}
		return strings.Join(ss, ";")
	case "segtext":
		t := unhx(ws[1])
		mn, _ := strconv.Atoi(ws[2])
		mx, _ := strconv.Atoi(ws[3])
		sa := make([]int32, len(t))
		suffix.Sort(t, sa)
		lcp := make([]int32, len(t))
		suffix.LCP(t, sa, nil, lcp)
		lcp0 := append([]int32{}, lcp...)
		cbs, pan, clob := runSegments(sa, lcp, mn, mx, true)
		if clob {
			e.find("C10", "Segments modifies the caller's tables or memory behind them", "Segments(text)", fmt.Sprintf("n=%d min=%d max=%d", len(t), mn, mx))
		}
		if pan {
			e.find("C10", "Segments panics", "Segments", fmt.Sprintf("n=%d min=%d max=%d", len(t), mn, mx))
			return "panic"
		}
		if len(t) > 0 && mn <= mx {
			e.checkSegments(lcp0, mn, mx, cbs, "Segments(text)")
		}
		for i, c := range cbs {
			for j := 1; j < len(c.seg); j++ {
				a, b := c.seg[j-1], c.seg[j]
				if a == b || naiveLCP(t[a:], t[b:]) < c.m {
					e.find("C10", "segment suffixes do not share m bytes or repeat", "Segments(text)", fmt.Sprintf("cb=%d", i))
				}
			}
		}
		e.cnt.inc("s.segtext")
		if len(cbs) == 0 {
			return "-"
		}
		ss := make([]string, len(cbs))
		for i, c := range cbs {
			ms := make([]string, len(c.seg))
			for j, x := range c.seg {
				ms[j] = strconv.Itoa(int(x))
			}
			ss[i] = fmt.Sprintf("%d:%s", c.m, strings.Join(ms, "."))
		}
		return strings.Join(ss, ";")
	case "ulcp", "ulcs":
		a, b := unhx(ws[1]), unhx(ws[2])
		var n, want int
		if ws[0] == "ulcp" {
			n = lz.VerifLcp(a, b)
			want = naiveLCP(a, b)
			if m := suffix.VerifMatchLen(a, b); m != want {
				e.find("C09", "matchLen wrong", "matchLen", fmt.Sprintf("got=%d want=%d", m, want))
			}
		} else {
			n = lz.VerifLcs(a, b)
			for want < len(a) && want < len(b) && a[len(a)-1-want] == b[len(b)-1-want] {
				want++
			}
		}
		if n != want {
			e.find("C01", ws[0][1:]+" wrong", ws[0][1:], fmt.Sprintf("got=%d want=%d", n, want))
		}
		e.cnt.inc("u." + ws[0])
		return strconv.Itoa(n)
	case "ule64":
		return strconv.FormatUint(lz.VerifGetLE64(unhx(ws[1])), 10)
	case "uhash":
		x, _ := strconv.ParseUint(ws[1], 10, 64)
		hb, _ := strconv.Atoi(ws[2])
		return strconv.Itoa(int(lz.VerifHashValue(x, uint(64-hb))))
	case "xzcost":
		m, _ := strconv.ParseUint(ws[1], 10, 32)
		o, _ := strconv.ParseUint(ws[2], 10, 32)
		return strconv.FormatUint(lz.XZCost(uint32(m), uint32(o)), 10)
	case "ins":
		var xs []int
		for _, t := range strings.Split(ws[1], ",") {
			v, _ := strconv.Atoi(t)
			xs = append(xs, v)
			e.ref[v] = true
		}
		e.bs.Insert(xs...)
		e.checkBitset("insert")
		return "ok"
	case "clear":
		e.bs.Clear()
		e.ref = map[int]bool{}
		e.cnt.inc("u.bitset.clear")
		return "ok"
	case "before", "after":
		i, _ := strconv.Atoi(ws[1])
		var j int
		var ok bool
		if ws[0] == "before" {
			j, ok = e.bs.MemberBefore(i)
		} else {
			j, ok = e.bs.MemberAfter(i)
		}
		want, wok := -1, false
		for m := range e.ref {
			if ws[0] == "before" && m < i && (!wok || m > want) {
				want, wok = m, true
			}
			if ws[0] == "after" && m > i && (!wok || m < want) {
				want, wok = m, true
			}
		}
		if j != want || ok != wok {
			e.find("C12", "bitset "+ws[0]+" wrong", "bitset", fmt.Sprintf("i=%d got=%d,%v want=%d,%v", i, j, ok, want, wok))
		}
		return fmt.Sprintf("%d %v", j, ok)
	case "slice":
		e.checkBitset("slice")
		return joinInts(e.bs.Slice())
	}
	if out, ok := e.stepCfg(ws); ok {
		return out
	}
	return "bad-op"
}

func (e *xExec) checkBitset(site string) {
	got := e.bs.Slice()
	if len(got) != len(e.ref) {
		e.find("C12", "bitset lost or invented members", "bitset."+site, fmt.Sprintf("got=%v want=%d members", got, len(e.ref)))
		return
	}
	for _, m := range got {
		if !e.ref[m] {
			e.find("C12", "bitset lost or invented members", "bitset."+site, fmt.Sprintf("got=%v", got))
			return
		}
	}
}

func newVerifBitset() *lz.VerifBitset { return new(lz.VerifBitset) }

func init() {
	f := func(lines []string, cnt counters) ([]string, []finding) {
		ws := strings.Fields(lines[0])
		e := &xExec{cnt: cnt, bs: new(lz.VerifBitset), ref: map[int]bool{}}
		e.lines = append(e.lines, lines[0])
		outs := []string{fmt.Sprintf("S %s ok", ws[1])}
		for _, l := range lines[1:] {
			outs = append(outs, e.step(l))
		}
		return outs, e.finds
	}
	execByMachine["X"] = f
	execByMachine["BS"] = f
}
