package main

import (
	"bytes"
	"encoding/hex"
	"encoding/json"
	"fmt"
	"reflect"
	"strconv"
	"strings"

	"github.com/ulikunitz/lz"
)

// stepCfg executes the configuration / JSON operations (machine C).
func (e *xExec) stepCfg(ws []string) (string, bool) {
	switch ws[0] {
	case "defaults":
		c := parsePcfg(ws[1], ws[2]).toLz()
		c0 := c.Clone()
		c.SetDefaults()
		// idempotent, only zero fields replaced (C20)
		d := c.Clone()
		d.SetDefaults()
		if !reflect.DeepEqual(c, d) {
			e.find("C20", "SetDefaults not idempotent", "SetDefaults", fmt.Sprintf("%+v vs %+v", c, d))
		}
		v0, v1 := reflect.Indirect(reflect.ValueOf(c0)), reflect.Indirect(reflect.ValueOf(c))
		for i := 0; i < v0.NumField(); i++ {
			if !v0.Field(i).IsZero() && !reflect.DeepEqual(v0.Field(i).Interface(), v1.Field(i).Interface()) {
				e.find("C20", "SetDefaults replaces a non-zero field", "SetDefaults", v0.Type().Field(i).Name)
			}
		}
		_, s := cfgFromLz(c)
		e.cnt.inc("c.defaults")
		return s, true
	case "verify":
		c := parsePcfg(ws[1], ws[2]).toLz()
		if c.Verify() != nil {
			return "cfg", true
		}
		return "ok", true
	case "newparser":
		pc := parsePcfg(ws[1], ws[2])
		c := pc.toLz()
		raw := c.Clone()
		p, err := newParserOf(c)
		d := c.Clone()
		d.SetDefaults()
		want := d.Verify() == nil
		if (err == nil) != want {
			e.find("C16", "NewParser succeeds although Verify(SetDefaults(cfg)) fails, or vice versa", "NewParser",
				fmt.Sprintf("cfg=%s err=%v verify=%v", pc.String(), err, d.Verify()))
		}
		if !reflect.DeepEqual(raw, c) {
			e.find("C20", "NewParser modifies the caller's configuration", "NewParser", "")
		}
		if err != nil {
			e.cnt.inc("c.newparser.rejected")
			return "cfg", true
		}
		e.cnt.inc("c.newparser.accepted")
		// reported configuration equals the defaults-completed one and creates
		// an identically configured parser (C20)
		if !reflect.DeepEqual(p.ParserConfig(), d) {
			e.find("C20", "reported ParserConfig differs from the defaults-completed configuration", "ParserConfig",
				fmt.Sprintf("%+v vs %+v", p.ParserConfig(), d))
		}
		if p.BufferConfig() != d.BufConfig() {
			e.find("C20", "reported BufferConfig differs", "BufferConfig", fmt.Sprintf("%+v vs %+v", p.BufferConfig(), d.BufConfig()))
		}
		q, err2 := newParserOf(p.ParserConfig().Clone())
		if err2 != nil || !reflect.DeepEqual(q.ParserConfig(), p.ParserConfig()) {
			e.find("C20", "parser from the reported configuration differs", "NewParser", fmt.Sprint(err2))
		}
		return "ok", true
	case "deccfg":
		w, _ := strconv.Atoi(ws[1])
		b, _ := strconv.Atoi(ws[2])
		cfg := lz.DecoderConfig{WindowSize: w, BufferSize: b}
		var db lz.DecoderBuffer
		if err := db.Init(cfg); err != nil {
			return "cfg", true
		}
		return fmt.Sprintf("ok %d %d", db.WindowSize, db.BufferSize), true
	case "marshal":
		pc := parsePcfg(ws[1], ws[2])
		c := pc.toLz()
		p, err := json.Marshal(c)
		if err != nil {
			e.find("C20", "Marshal fails", "MarshalJSON", err.Error())
			return "err", true
		}
		// round trip, clone (C20)
		back, err := lz.ParseJSON(p)
		if err != nil || !reflect.DeepEqual(back, c) {
			e.find("C20", "ParseJSON(Marshal(cfg)) differs from cfg", "ParseJSON", fmt.Sprintf("cfg=%s json=%s err=%v", pc.String(), p, err))
		}
		cl := c.Clone()
		if !reflect.DeepEqual(cl, c) || reflect.ValueOf(cl).Pointer() == reflect.ValueOf(c).Pointer() {
			e.find("C20", "Clone is not an equal independent copy", "Clone", "")
		}
		e.cnt.inc("c.marshal")
		return canonJSON(p), true
	case "parsejson", "unmarshal":
		docArg := ws[len(ws)-1]
		text := renderDoc(docArg)
		var c lz.ParserConfig
		var err error
		if ws[0] == "parsejson" {
			c, err = lz.ParseJSON(text)
		} else {
			c = parsePcfg(ws[1], "-").toLz()
			err = json.Unmarshal(text, c)
		}
		if err != nil {
			e.cnt.inc("c.json.rejected")
			return "err", true
		}
		e.cnt.inc("c.json.accepted")
		k, s := cfgFromLz(c)
		return k + " " + s, true
	}
	return "", false
}

func newParserOf(c lz.ParserConfig) (lz.Parser, error) { return c.NewParser() }

// canonJSON renders a JSON object in document order as key=value;…
func canonJSON(p []byte) string {
	dec := json.NewDecoder(bytes.NewReader(p))
	dec.UseNumber()
	tok, err := dec.Token()
	if err != nil || tok != json.Delim('{') {
		return "notobject"
	}
	var ss []string
	for dec.More() {
		kt, _ := dec.Token()
		key, _ := kt.(string)
		vt, _ := dec.Token()
		var v string
		switch x := vt.(type) {
		case nil:
			v = "n"
		case bool:
			v = map[bool]string{true: "t", false: "f"}[x]
		case json.Number:
			if _, err := strconv.ParseInt(string(x), 10, 64); err == nil {
				v = "i" + string(x)
			} else {
				v = "x"
			}
		case string:
			v = "s" + hx([]byte(x))
		default:
			v = "c"
		}
		ss = append(ss, key+"="+v)
	}
	return strings.Join(ss, ";")
}

// renderDoc turns the protocol's document syntax into JSON text.
func renderDoc(d string) []byte {
	switch {
	case d == "Z":
		return []byte(`{"Type":`)
	case d == "N":
		return []byte(`null`)
	case d == "T":
		return []byte(`["HP"]`)
	case d == "O":
		return []byte(`{}`)
	}
	body := strings.TrimPrefix(d, "O:")
	var sb strings.Builder
	sb.WriteByte('{')
	for i, kv := range strings.Split(body, ";") {
		ab := strings.SplitN(kv, "=", 2)
		if len(ab) != 2 {
			continue
		}
		if i > 0 {
			sb.WriteByte(',')
		}
		kb, _ := hex.DecodeString(strings.ReplaceAll(ab[0], "-", ""))
		ks, _ := json.Marshal(string(kb))
		sb.Write(ks)
		sb.WriteByte(':')
		v := ab[1]
		switch v[0] {
		case 'n':
			sb.WriteString("null")
		case 't':
			sb.WriteString("true")
		case 'f':
			sb.WriteString("false")
		case 'i':
			sb.WriteString(v[1:])
		case 'x':
			sb.WriteString([]string{"1.5", "1e3", "99999999999999999999", "-0.0"}[len(body)%4])
		case 's':
			sv, _ := hex.DecodeString(strings.ReplaceAll(v[1:], "-", ""))
			js, _ := json.Marshal(string(sv))
			sb.Write(js)
		default:
			sb.WriteString([]string{"[]", "{}", "[1,2]", `{"a":1}`}[len(body)%4])
		}
	}
	sb.WriteByte('}')
	return []byte(sb.String())
}
