package main

import (
	"fmt"
	"strconv"
	"strings"

	"github.com/ulikunitz/lz"
)

// dExec executes D (DecoderBuffer) and DD (Decoder) scripts on the real code
// and evaluates the oracles of C04, C05, C06 (via watchdog), C07, C17, C18.
type dExec struct {
	dd        bool
	buf       *lz.DecoderBuffer
	dec       *lz.Decoder
	w         *scriptWriter
	ws        int    // WindowSize after defaults
	written   []byte // reference log since Init/Reset
	delivered int    // bytes handed out by Read / WriteTo
	gotBase   int    // len(w.got) at the beginning of the current op
	lines     []string
	dead      bool
	finds     []finding
	cnt       counters
	c07seen   bool
	curW      *scriptWriter // the writer of the current operation (e.w, or the local writer of `wt`)
}

func (e *dExec) find(prop, what, site, detail string) {
	if len(e.finds) > 20 {
		return
	}
	e.finds = append(e.finds, finding{Property: prop, What: what, Site: site,
		Script: append([]string{}, e.lines...), Detail: detail})
}

func newDExec(header string, cnt counters) (*dExec, string) {
	ws := strings.Fields(header)
	e := &dExec{cnt: cnt, dd: ws[2] == "DD"}
	e.lines = append(e.lines, header)
	w, _ := strconv.Atoi(ws[3])
	b, _ := strconv.Atoi(ws[4])
	pc, _ := strconv.Atoi(ws[5])
	cfg := lz.DecoderConfig{WindowSize: w, BufferSize: b}
	var err error
	func() {
		defer func() {
			if r := recover(); r != nil {
				err = fmt.Errorf("panic %v", r)
				e.find("C05", "Init panics", "Init", fmt.Sprint(r))
			}
		}()
		if e.dd {
			e.w = &scriptWriter{resps: parseResps(ws[6])}
			e.dec = new(lz.Decoder)
			e.buf = e.dec.VerifBuf()
			if pc > 0 {
				e.buf.Data = make([]byte, 0, pc)
			}
			err = e.dec.Init(e.w, cfg)
		} else {
			e.buf = new(lz.DecoderBuffer)
			if pc > 0 {
				e.buf.Data = make([]byte, 0, pc)
			}
			err = e.buf.Init(cfg)
		}
	}()
	if err != nil {
		e.dead = true
		return e, fmt.Sprintf("S %s cfg", ws[1])
	}
	e.ws = e.buf.WindowSize
	return e, fmt.Sprintf("S %s ok %s", ws[1], e.state())
}

func (e *dExec) state() string {
	b := e.buf
	return fmt.Sprintf("| %d %d %d %d %d", len(b.Data), b.R, b.Off, b.BufferSize, cap(b.Data))
}

// refAppend applies the reference expansion of k sequences and l literals.
func refAppend(written []byte, seqs []lz.Seq, lits []byte, k, l int, trailing bool) ([]byte, error) {
	used := 0
	for _, s := range seqs[:k] {
		if used+int(s.LitLen) > len(lits) {
			return written, fmt.Errorf("literals exhausted")
		}
		written = append(written, lits[used:used+int(s.LitLen)]...)
		used += int(s.LitLen)
		if s.MatchLen > 0 && (s.Offset == 0 || int(s.Offset) > len(written)) {
			return written, fmt.Errorf("bad offset")
		}
		if int64(s.MatchLen) > 1<<27 {
			// no buffer of the harness holds that much: a sequence of this size cannot have been consumed
			return written, fmt.Errorf("sequence with MatchLen %d reported as consumed", s.MatchLen)
		}
		for i := 0; i < int(s.MatchLen); i++ {
			written = append(written, written[len(written)-int(s.Offset)])
		}
	}
	if trailing {
		if l < used {
			return written, fmt.Errorf("l=%d below the literals of the sequences %d", l, used)
		}
		written = append(written, lits[used:l]...)
	} else if l != used {
		return written, fmt.Errorf("l=%d differs from the literals of the %d sequences (%d)", l, k, used)
	}
	return written, nil
}

// malformed implements the rejection conditions of C05 for sequence s when
// `avail` bytes were written before it and `lits` literals remain.
func malformed(s lz.Seq, avail, ws, lits int) string {
	if int64(s.LitLen) > int64(lits) {
		return "litLen"
	}
	if s.Offset == 0 && s.MatchLen > 0 {
		return "offset"
	}
	lim := avail + int(s.LitLen)
	if lim > ws {
		lim = ws
	}
	if int64(s.Offset) > int64(lim) {
		return "offset"
	}
	return ""
}

// invariant checks the byte-log refinement after every operation.
func (e *dExec) invariant(site string) {
	b := e.buf
	if int(b.Off) != len(e.written) {
		e.find("C17", "Off differs from the number of bytes written", site, fmt.Sprintf("Off=%d written=%d", b.Off, len(e.written)))
	}
	if len(b.Data) > len(e.written) || string(b.Data) != string(e.written[len(e.written)-len(b.Data):]) {
		e.find("C04", "buffer contents are not the tail of the reference expansion", site,
			fmt.Sprintf("len=%d written=%d", len(b.Data), len(e.written)))
		if e.dd {
			e.find("C07", "Decoder does not reproduce the bytes of the well-formed stream it accepted", site,
				fmt.Sprintf("len=%d written=%d", len(b.Data), len(e.written)))
		}
		e.dead = true
		return
	}
	if b.R < 0 || b.R > len(b.Data) {
		e.find("C04", "R out of range", site, fmt.Sprintf("R=%d len=%d", b.R, len(b.Data)))
		e.dead = true
		return
	}
	if d := len(e.written) - len(b.Data) + b.R; d != e.delivered {
		e.find("C04", "unread bytes were discarded or bytes are delivered twice", site,
			fmt.Sprintf("delivered=%d position=%d", e.delivered, d))
	}
	if need := min(e.ws, len(e.written)); len(b.Data) < need {
		e.find("C04", "window no longer addressable", site, fmt.Sprintf("len=%d need=%d", len(b.Data), need))
	}
	if e.w != nil {
		g := e.w.got
		if len(g) > len(e.written) || string(g) != string(e.written[:len(g)]) {
			e.find("C18", "bytes accepted by the writer are not a prefix of the reference expansion", site,
				fmt.Sprintf("got=%d written=%d", len(g), len(e.written)))
			e.find("C07", "Decoder does not reproduce the bytes of the well-formed stream it accepted", site,
				fmt.Sprintf("got=%d written=%d", len(g), len(e.written)))
		}
		if len(g) != e.delivered {
			e.find("C18", "writer received a different number of bytes than delivered", site,
				fmt.Sprintf("got=%d delivered=%d", len(g), e.delivered))
		}
	}
}

// errName canonicalises an error; an error that is (by identity) the one the scripted writer
// just returned is printed as writer(code) also when it is one of the library's own sentinels.
func (e *dExec) errName(err error) string {
	if err != nil && e.curW != nil && e.curW.lastErr != nil && err == e.curW.lastErr && e.curW.lastCode >= 7 {
		return fmt.Sprintf("writer(%d)", e.curW.lastCode)
	}
	return errName(err)
}

func (e *dExec) gotNew() string { return hxl(e.w.got[e.gotBase:]) }

func (e *dExec) step(line string) (out string) {
	e.lines = append(e.lines, line)
	if e.dead {
		return "skip"
	}
	defer func() {
		if r := recover(); r != nil {
			out = "panic"
			e.dead = true
			e.cnt.inc("impl.panic")
			e.find("C05", "panic", strings.Fields(line)[0], fmt.Sprint(r))
		}
		// C06: one call must not keep offering data to a writer that takes nothing
		if e.w != nil && e.w.maxIdle >= 3 {
			e.cnt.inc("dd.noprogress")
			e.find("C06", "Decoder call keeps re-offering data to a writer that makes no progress",
				strings.Fields(line)[0], fmt.Sprintf("emptydrains=%d", e.w.maxIdle))
		}
	}()
	ws := strings.Fields(line)
	b := e.buf
	e.curW = e.w
	if e.w != nil {
		e.gotBase = len(e.w.got)
		e.w.resetStreak()
	}
	site := ws[0]
	switch ws[0] {
	case "wb":
		c := unhx(ws[1])[0]
		var err error
		if e.dd {
			err = e.dec.WriteByte(c)
			if err == nil && e.w.lastErr != nil {
				e.find("C18", "the destination writer failed during the call but the error is not surfaced", site, fmt.Sprintf("writer error code %d", e.w.lastCode))
			}
			e.delivered = len(e.w.got)
		} else {
			err = b.WriteByte(c)
		}
		if err == nil {
			e.written = append(e.written, c)
		} else if err == lz.ErrFullBuffer {
			e.cnt.inc("d.full")
		}
		e.invariant(site)
		if e.dd {
			return fmt.Sprintf("%s %s %s", e.errName(err), e.gotNew(), e.state())
		}
		return fmt.Sprintf("%s %s", e.errName(err), e.state())
	case "w":
		p := unhx(ws[1])
		var n int
		var err error
		if e.dd {
			n, err = e.dec.Write(p)
			if err == nil && e.w.lastErr != nil {
				e.find("C18", "the destination writer failed during the call but the error is not surfaced", site, fmt.Sprintf("writer error code %d", e.w.lastCode))
			}
			e.delivered = len(e.w.got)
		} else {
			n, err = b.Write(p)
		}
		if n < 0 || n > len(p) {
			e.find("C17", "Write returns n out of range", site, fmt.Sprint(n))
			n = 0
		}
		if !e.dd && n != 0 && n != len(p) {
			e.find("C17", "DecoderBuffer.Write wrote partially", site, fmt.Sprint(n))
		}
		e.written = append(e.written, p[:n]...)
		if err == lz.ErrFullBuffer {
			e.cnt.inc("d.full")
		}
		if err == nil && n != len(p) {
			e.find("C17", "Write returns nil without writing everything", site, fmt.Sprintf("n=%d len=%d", n, len(p)))
		}
		if e.dd && len(p) > b.BufferSize-b.WindowSize {
			e.cnt.inc("dd.write.oversize")
		}
		e.invariant(site)
		if e.dd {
			return fmt.Sprintf("%d %s %s %s", n, e.errName(err), e.gotNew(), e.state())
		}
		return fmt.Sprintf("%d %s %s", n, e.errName(err), e.state())
	case "wm":
		m64, _ := strconv.ParseUint(ws[1], 10, 32)
		o64, _ := strconv.ParseUint(ws[2], 10, 32)
		s := lz.Seq{MatchLen: uint32(m64), Offset: uint32(o64)}
		bad := malformed(s, len(e.written), e.ws, 0)
		n, err := b.WriteMatch(s.MatchLen, s.Offset)
		if bad != "" {
			e.cnt.inc("d.malformed")
			if err == nil || e.errName(err) != bad || n != 0 {
				e.find("C05", "malformed match not rejected", site, fmt.Sprintf("m=%d o=%d err=%v n=%d", m64, o64, err, n))
			}
		} else if err != nil && e.errName(err) != "full" && e.errName(err) != "matchLen" {
			e.find("C05", "valid match rejected", site, fmt.Sprintf("m=%d o=%d err=%v", m64, o64, err))
		}
		if err == nil {
			if n != int(m64) {
				e.find("C17", "WriteMatch reports a wrong n", site, fmt.Sprint(n))
			}
			var xerr error
			e.written, xerr = refAppend(e.written, []lz.Seq{s}, nil, 1, 0, false)
			if xerr != nil {
				e.find("C05", "invalid match accepted", site, xerr.Error())
			}
			if uint64(s.Offset) < m64 {
				e.cnt.inc("d.match.overlap")
			}
			if m64 > 2*o64 && o64 > 0 {
				e.cnt.inc("d.match.doubling2")
			}
		} else {
			if n != 0 {
				e.find("C17", "WriteMatch reports n != 0 on error", site, fmt.Sprint(n))
			}
			e.classify(err, int64(m64), site)
		}
		e.invariant(site)
		return fmt.Sprintf("%d %s %s", n, e.errName(err), e.state())
	case "wblk":
		seqs := parseSeqs(ws[1])
		lits := unhx(ws[2])
		// the caller's block must stay untouched
		seqs0 := append([]lz.Seq{}, seqs...)
		lits0 := append([]byte{}, lits...)
		blk := lz.Block{Sequences: seqs, Literals: lits}
		lenBefore := len(b.Data)
		rBefore := b.R
		var n, k, l int
		var err error
		if e.dd {
			n, k, l, err = e.dec.WriteBlock(blk)
			e.delivered = len(e.w.got)
		} else {
			n, k, l, err = b.WriteBlock(blk)
		}
		for i := range seqs0 {
			if seqs0[i] != seqs[i] {
				e.find("C05", "caller's sequences modified", site, "")
				break
			}
		}
		if string(lits0) != string(lits) {
			e.find("C05", "caller's literals modified", site, "")
		}
		if len(blk.Sequences) != len(seqs0) || len(blk.Literals) != len(lits0) {
			e.find("C05", "caller's block modified", site, "")
		}
		if k < 0 || k > len(seqs) || l < 0 || l > len(lits) {
			e.find("C17", "k or l out of range", site, fmt.Sprintf("k=%d l=%d", k, l))
			e.dead = true
			return fmt.Sprintf("%d %d %d %s", n, k, l, e.errName(err))
		}
		wl := len(e.written)
		var xerr error
		e.written, xerr = refAppend(e.written, seqs, lits, k, l, err == nil || k == len(seqs))
		if xerr != nil {
			e.find("C05", "consumed sequences are not valid or k/l inconsistent", site, xerr.Error())
		}
		if n != len(e.written)-wl {
			e.find("C17", "n differs from the bytes appended", site, fmt.Sprintf("n=%d appended=%d k=%d l=%d", n, len(e.written)-wl, k, l))
		}
		if err == nil && (k != len(seqs) || l != len(lits)) {
			e.find("C17", "nil error but not everything consumed", site, fmt.Sprintf("k=%d l=%d", k, l))
		}
		if e.dd && err == nil && e.w.lastErr != nil {
			e.find("C18", "the destination writer failed during the call but the error is not surfaced", site,
				fmt.Sprintf("writer error code %d, k=%d l=%d", e.w.lastCode, k, l))
		}
		if !e.dd && lenBefore+n != len(b.Data) {
			e.cnt.inc("d.wblk.shrunk")
			if rBefore > 0 {
				e.cnt.inc("d.wblk.shrunk-after-read")
			}
		}
		// rejection: the first malformed sequence must stop the call
		{
			avail := wl
			used := 0
			for i := 0; i < len(seqs); i++ {
				bad := malformed(seqs[i], avail, e.ws, len(lits)-used)
				if bad != "" {
					e.cnt.inc("d.malformed")
					if k > i || err == nil {
						e.find("C05", "malformed sequence accepted", site, fmt.Sprintf("seq=%d k=%d err=%v", i, k, err))
					} else if k == i && e.errName(err) != bad {
						e.find("C05", "malformed sequence: wrong error", site, fmt.Sprintf("seq=%d err=%v want=%s", i, err, bad))
					}
					break
				}
				if i == k && err != nil {
					// a well-formed sequence was refused: only for lack of space
					if en := e.errName(err); en != "full" && en != "matchLen" && !strings.HasPrefix(en, "writer") && en != "shortWrite" {
						e.find("C05", "well-formed sequence rejected", site, fmt.Sprintf("seq=%d err=%v", i, err))
					}
					e.classify(err, int64(seqs[i].LitLen)+int64(seqs[i].MatchLen), site)
					break
				}
				used += int(seqs[i].LitLen)
				avail += int(seqs[i].LitLen) + int(seqs[i].MatchLen)
			}
		}
		if err == lz.ErrFullBuffer {
			e.cnt.inc("d.full")
		}
		if err == nil && len(seqs) > 0 {
			e.cnt.inc("d.wblk.ok")
		}
		e.invariant(site)
		if e.dd {
			return fmt.Sprintf("%d %d %d %s %s %s", n, k, l, e.errName(err), e.gotNew(), e.state())
		}
		return fmt.Sprintf("%d %d %d %s %s", n, k, l, e.errName(err), e.state())
	case "rd":
		n, _ := strconv.Atoi(ws[1])
		p := make([]byte, n)
		k, err := b.Read(p)
		want := e.written[e.delivered:]
		if len(want) > n {
			want = want[:n]
		}
		if err != nil || string(p[:k]) != string(want) {
			e.find("C04", "Read hands out wrong bytes", site, fmt.Sprintf("got=%x want=%x err=%v", p[:k], want, err))
		}
		e.delivered += k
		if k > 0 {
			e.cnt.inc("d.read")
		}
		e.invariant(site)
		return fmt.Sprintf("%s %s", hxl(p[:k]), e.state())
	case "init":
		// Init on a used value (pool-style re-use)
		w, _ := strconv.Atoi(ws[1])
		bs, _ := strconv.Atoi(ws[2])
		cfg := lz.DecoderConfig{WindowSize: w, BufferSize: bs}
		var err error
		if e.dd {
			nw := &scriptWriter{resps: parseResps(ws[3])}
			err = e.dec.Init(nw, cfg)
			if err == nil {
				e.w = nw
				e.curW = nw
			}
		} else {
			err = b.Init(cfg)
		}
		if err != nil {
			e.invariant(site)
			if e.dd {
				return "cfg - " + e.state()
			}
			return "cfg " + e.state()
		}
		e.ws = e.buf.WindowSize
		if bs == 0 && e.buf.BufferSize < 2*e.buf.WindowSize {
			e.find("C07", "default BufferSize smaller than 2*WindowSize", site, fmt.Sprintf("B=%d W=%d", e.buf.BufferSize, e.buf.WindowSize))
		}
		e.written, e.delivered = e.written[:0], 0
		e.cnt.inc("d.reinit")
		e.invariant(site)
		if e.dd {
			return "ok - " + e.state()
		}
		return "ok " + e.state()
	case "reset":
		if e.dd {
			e.w = &scriptWriter{resps: parseResps(ws[1])}
			e.dec.Reset(e.w)
			e.written, e.delivered = e.written[:0], 0
			e.invariant(site)
			return "ok - " + e.state()
		}
		b.Reset()
		e.written, e.delivered = e.written[:0], 0
		e.invariant(site)
		return "ok " + e.state()
	case "bae":
		off, _ := strconv.Atoi(ws[1])
		c := b.ByteAtEnd(off)
		var want byte
		if off >= 1 && off <= len(b.Data) {
			want = e.written[len(e.written)-off]
		}
		if c != want {
			e.find("C04", "ByteAtEnd wrong", site, fmt.Sprintf("off=%d c=%d want=%d", off, c, want))
		}
		return fmt.Sprint(c)
	case "wt":
		w := &scriptWriter{resps: parseResps(ws[1])}
		e.curW = w
		n, err := b.WriteTo(w)
		want := e.written[e.delivered:]
		if int(n) != len(w.got) || int(n) > len(want) || string(w.got) != string(want[:len(w.got)]) {
			e.find("C04", "WriteTo hands out wrong bytes", site, fmt.Sprintf("n=%d got=%x", n, w.got))
		}
		e.delivered += len(w.got)
		e.invariant(site)
		return fmt.Sprintf("%d %s %s %s", n, e.errName(err), hxl(w.got), e.state())
	case "flush":
		err := e.dec.Flush()
		e.delivered = len(e.w.got)
		if err == nil && e.delivered != len(e.written) {
			e.find("C18", "Flush succeeded but the writer has not received everything", site,
				fmt.Sprintf("got=%d written=%d", e.delivered, len(e.written)))
		}
		if err == nil {
			e.cnt.inc("dd.flush.ok")
		} else {
			e.cnt.inc("dd.flush.err")
		}
		e.invariant(site)
		return fmt.Sprintf("%s %s %s", e.errName(err), e.gotNew(), e.state())
	case "dump":
		return hx(b.Data)
	}
	return "bad-op"
}

// classify handles space errors: ErrFullBuffer from the Decoder itself and
// errMatchLen for valid input are C07 territory.
func (e *dExec) classify(err error, g int64, site string) {
	switch e.errName(err) {
	case "matchLen":
		e.cnt.inc("d.matchLen")
		if g <= int64(e.buf.BufferSize-e.buf.WindowSize) {
			e.find("C07", "valid sequence refused with errMatchLen although it fits after flushing", site,
				fmt.Sprintf("g=%d B=%d W=%d", g, e.buf.BufferSize, e.buf.WindowSize))
		} else {
			e.cnt.inc("d.matchLen.neverfits")
			if !e.c07seen {
				e.c07seen = true
				e.find("C07", "Decoder refuses a block emitted by a parser of this module", site,
					fmt.Sprintf("err=matchLen g=%d B=%d W=%d", g, e.buf.BufferSize, e.buf.WindowSize))
			}
		}
	case "full":
		if e.dd {
			e.find("C06", "Decoder returns ErrFullBuffer instead of flushing", site, "")
		}
	}
}

func init() {
	f := func(lines []string, cnt counters) ([]string, []finding) {
		e, st := newDExec(lines[0], cnt)
		outs := []string{st}
		for _, l := range lines[1:] {
			outs = append(outs, e.step(l))
		}
		return outs, e.finds
	}
	execByMachine["D"] = f
	execByMachine["DD"] = f
}
