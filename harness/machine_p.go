package main

import (
	"errors"
	"fmt"
	"io"
	"strconv"
	"strings"

	"github.com/ulikunitz/lz"
)

// ---------------------------------------------------------------------------
// scripted reader

type resp struct{ max, err int }

func parseResps(s string) []resp {
	if s == "-" || s == "" {
		return nil
	}
	var rs []resp
	for _, t := range strings.Split(s, ",") {
		ab := strings.Split(t, ":")
		a, _ := strconv.Atoi(ab[0])
		b, _ := strconv.Atoi(ab[1])
		rs = append(rs, resp{a, b})
	}
	return rs
}

func showResps(rs []resp) string {
	if len(rs) == 0 {
		return "-"
	}
	ss := make([]string, len(rs))
	for i, r := range rs {
		ss[i] = fmt.Sprintf("%d:%d", r.max, r.err)
	}
	return strings.Join(ss, ",")
}

type codeErr int

func (e codeErr) Error() string { return fmt.Sprintf("script error %d", int(e)) }

func errOfCode(c int) error {
	switch c {
	case 0:
		return nil
	case 1:
		return io.EOF
	}
	return codeErr(c)
}

// scriptReader is an io.Reader following a list of responses; it never
// returns (0, nil).
// leafReader is one part of a multi-part stream: a plain reader (no WriterTo) that consumes the next
// `left` bytes of the shared payload.
type leafReader struct {
	src  *scriptReader
	left int
}

func (l *leafReader) Read(p []byte) (int, error) {
	if l.left == 0 {
		return 0, io.EOF
	}
	k := min(len(p), l.left)
	copy(p, l.src.payload[:k])
	l.src.payload = l.src.payload[k:]
	l.src.handed += k
	l.left -= k
	return k, nil
}

type scriptReader struct {
	payload []byte
	resps   []resp
	handed  int // bytes handed out so far
	calls   int
}

func (r *scriptReader) Read(p []byte) (int, error) {
	r.calls++
	if len(r.resps) == 0 {
		return 0, io.EOF
	}
	rs := r.resps[0]
	r.resps = r.resps[1:]
	n := rs.max
	if len(p) < n {
		n = len(p)
	}
	if len(r.payload) < n {
		n = len(r.payload)
	}
	copy(p, r.payload[:n])
	r.payload = r.payload[n:]
	r.handed += n
	// a response (0, nil) is passed on as it is: "nothing happened" (io.Reader); ReadFrom calls again
	return n, errOfCode(rs.err)
}

// errName maps errors of the module to the canonical enum of the protocol.
func errName(err error) string {
	switch {
	case err == nil:
		return "ok"
	case err == lz.ErrEmptyBuffer:
		return "empty"
	case err == lz.ErrFullBuffer:
		return "full"
	case err == io.EOF:
		return "eof"
	case err == lz.ErrOutOfBuffer:
		return "outOfBuffer"
	case err == lz.ErrEndOfBuffer:
		return "endOfBuffer"
	case err == io.ErrShortWrite:
		return "shortWrite"
	}
	var ce codeErr
	if errors.As(err, &ce) {
		return fmt.Sprintf("reader(%d)", int(ce))
	}
	var we writerErr
	if errors.As(err, &we) {
		return fmt.Sprintf("writer(%d)", int(we))
	}
	msg := err.Error()
	switch {
	case strings.Contains(msg, "LitLen out of range"):
		return "litLen"
	case strings.Contains(msg, "MatchLen out of range"):
		return "matchLen"
	case strings.Contains(msg, "Offset out of range"):
		return "offset"
	case strings.Contains(msg, "larger than BufferSize"):
		return "oversize"
	}
	return "other(" + strings.ReplaceAll(msg, " ", "_") + ")"
}

// ---------------------------------------------------------------------------
// configurations

var kindFields = map[string][]string{
	"HP":   {"ShrinkSize", "BufferSize", "WindowSize", "BlockSize", "InputLen", "HashBits"},
	"BHP":  {"ShrinkSize", "BufferSize", "WindowSize", "BlockSize", "InputLen", "HashBits"},
	"DHP":  {"ShrinkSize", "BufferSize", "WindowSize", "BlockSize", "InputLen1", "HashBits1", "InputLen2", "HashBits2"},
	"BDHP": {"ShrinkSize", "BufferSize", "WindowSize", "BlockSize", "InputLen1", "HashBits1", "InputLen2", "HashBits2"},
	"BUP":  {"ShrinkSize", "BufferSize", "WindowSize", "BlockSize", "InputLen", "HashBits", "BucketSize"},
	"GSAP": {"ShrinkSize", "BufferSize", "WindowSize", "BlockSize", "MinMatchLen"},
	"OSAP": {"ShrinkSize", "BufferSize", "WindowSize", "BlockSize", "MinMatchLen", "MaxMatchLen", "Cost"},
}

var allKinds = []string{"HP", "BHP", "DHP", "BDHP", "BUP", "GSAP", "OSAP"}

// pcfg is a raw parser configuration: integer fields by name plus Cost.
type pcfg struct {
	kind string
	f    map[string]int
	cost string
}

func (c pcfg) String() string {
	var ss []string
	for _, k := range kindFields[c.kind] {
		if k == "Cost" {
			ss = append(ss, "Cost="+c.cost)
		} else {
			ss = append(ss, fmt.Sprintf("%s=%d", k, c.f[k]))
		}
	}
	return strings.Join(ss, ",")
}

func parsePcfg(kind, s string) pcfg {
	c := pcfg{kind: kind, f: map[string]int{}}
	if s == "-" {
		return c
	}
	for _, kv := range strings.Split(s, ",") {
		ab := strings.SplitN(kv, "=", 2)
		if len(ab) != 2 {
			continue
		}
		if ab[0] == "Cost" {
			c.cost = ab[1]
		} else {
			v, _ := strconv.Atoi(ab[1])
			c.f[ab[0]] = v
		}
	}
	return c
}

func (c pcfg) toLz() lz.ParserConfig {
	f := c.f
	switch c.kind {
	case "HP":
		return &lz.HPConfig{ShrinkSize: f["ShrinkSize"], BufferSize: f["BufferSize"], WindowSize: f["WindowSize"], BlockSize: f["BlockSize"], InputLen: f["InputLen"], HashBits: f["HashBits"]}
	case "BHP":
		return &lz.BHPConfig{ShrinkSize: f["ShrinkSize"], BufferSize: f["BufferSize"], WindowSize: f["WindowSize"], BlockSize: f["BlockSize"], InputLen: f["InputLen"], HashBits: f["HashBits"]}
	case "DHP":
		return &lz.DHPConfig{ShrinkSize: f["ShrinkSize"], BufferSize: f["BufferSize"], WindowSize: f["WindowSize"], BlockSize: f["BlockSize"], InputLen1: f["InputLen1"], HashBits1: f["HashBits1"], InputLen2: f["InputLen2"], HashBits2: f["HashBits2"]}
	case "BDHP":
		return &lz.BDHPConfig{ShrinkSize: f["ShrinkSize"], BufferSize: f["BufferSize"], WindowSize: f["WindowSize"], BlockSize: f["BlockSize"], InputLen1: f["InputLen1"], HashBits1: f["HashBits1"], InputLen2: f["InputLen2"], HashBits2: f["HashBits2"]}
	case "BUP":
		return &lz.BUPConfig{ShrinkSize: f["ShrinkSize"], BufferSize: f["BufferSize"], WindowSize: f["WindowSize"], BlockSize: f["BlockSize"], InputLen: f["InputLen"], HashBits: f["HashBits"], BucketSize: f["BucketSize"]}
	case "GSAP":
		return &lz.GSAPConfig{ShrinkSize: f["ShrinkSize"], BufferSize: f["BufferSize"], WindowSize: f["WindowSize"], BlockSize: f["BlockSize"], MinMatchLen: f["MinMatchLen"]}
	case "OSAP":
		return &lz.OSAPConfig{ShrinkSize: f["ShrinkSize"], BufferSize: f["BufferSize"], WindowSize: f["WindowSize"], BlockSize: f["BlockSize"], MinMatchLen: f["MinMatchLen"], MaxMatchLen: f["MaxMatchLen"], Cost: c.cost}
	}
	panic("bad kind " + c.kind)
}

// fromLz renders a configuration value in the canonical form.
func cfgFromLz(pc lz.ParserConfig) (kind string, s string) {
	g := func(kind string, vals ...interface{}) (string, string) {
		fs := kindFields[kind]
		ss := make([]string, len(fs))
		for i, k := range fs {
			ss[i] = fmt.Sprintf("%s=%v", k, vals[i])
		}
		return kind, strings.Join(ss, ",")
	}
	switch c := pc.(type) {
	case *lz.HPConfig:
		return g("HP", c.ShrinkSize, c.BufferSize, c.WindowSize, c.BlockSize, c.InputLen, c.HashBits)
	case *lz.BHPConfig:
		return g("BHP", c.ShrinkSize, c.BufferSize, c.WindowSize, c.BlockSize, c.InputLen, c.HashBits)
	case *lz.DHPConfig:
		return g("DHP", c.ShrinkSize, c.BufferSize, c.WindowSize, c.BlockSize, c.InputLen1, c.HashBits1, c.InputLen2, c.HashBits2)
	case *lz.BDHPConfig:
		return g("BDHP", c.ShrinkSize, c.BufferSize, c.WindowSize, c.BlockSize, c.InputLen1, c.HashBits1, c.InputLen2, c.HashBits2)
	case *lz.BUPConfig:
		return g("BUP", c.ShrinkSize, c.BufferSize, c.WindowSize, c.BlockSize, c.InputLen, c.HashBits, c.BucketSize)
	case *lz.GSAPConfig:
		return g("GSAP", c.ShrinkSize, c.BufferSize, c.WindowSize, c.BlockSize, c.MinMatchLen)
	case *lz.OSAPConfig:
		return g("OSAP", c.ShrinkSize, c.BufferSize, c.WindowSize, c.BlockSize, c.MinMatchLen, c.MaxMatchLen, c.Cost)
	}
	return "?", "?"
}

func showSeqs(ss []lz.Seq) string {
	if len(ss) == 0 {
		return "-"
	}
	out := make([]string, len(ss))
	for i, s := range ss {
		out[i] = fmt.Sprintf("%d:%d:%d:%d", s.LitLen, s.MatchLen, s.Offset, s.Aux)
	}
	return strings.Join(out, ";")
}

func parseSeqs(s string) []lz.Seq {
	if s == "-" || s == "" {
		return nil
	}
	var out []lz.Seq
	for _, t := range strings.Split(s, ";") {
		f := strings.Split(t, ":")
		var v [4]uint64
		for i := 0; i < 4 && i < len(f); i++ {
			v[i], _ = strconv.ParseUint(f[i], 10, 32)
		}
		out = append(out, lz.Seq{LitLen: uint32(v[0]), MatchLen: uint32(v[1]), Offset: uint32(v[2]), Aux: uint32(v[3])})
	}
	return out
}

// ---------------------------------------------------------------------------
// execution of P scripts on the real code, with the direct oracles

// finding is a property violation observed on the implementation.
type finding struct {
	Property string   `json:"property"`
	What     string   `json:"what"`
	Site     string   `json:"site"`
	Script   []string `json:"script"`
	Detail   string   `json:"detail"`
}

type pExec struct {
	cfg           pcfg
	p             lz.Parser
	wp            *lz.WrappedParser
	rd            *scriptReader
	bc            lz.BufConfig // defaults-completed buffer configuration
	minM          int
	maxM          int
	fed           []byte // bytes accepted since the last Reset
	cpos          int    // bytes consumed by Parse since the last Reset
	off           int    // expected Off (sum of Shrink deltas)
	nilUsed       bool   // Parse(nil) used since the last Reset / sort invalidation (C12 excludes those)
	nilSinceReset bool
	lines         []string
	dead          bool
	finds         []finding
	cnt           counters
	blkBuf        lz.Block
	wrapEOF       bool
	twinOn        bool // compare with a parser that is fresh since the last Reset (C13)
	twin          lz.Parser
	twinBlk       lz.Block
	marginSeen    bool
}

func newPExec(cfg pcfg, cnt counters) (*pExec, string) {
	e := &pExec{cfg: cfg, cnt: cnt}
	var p lz.Parser
	var err error
	func() {
		defer func() {
			if r := recover(); r != nil {
				err = fmt.Errorf("panic: %v", r)
				e.find("C16", "NewParser panics", "NewParser", fmt.Sprint(r))
			}
		}()
		p, err = cfg.toLz().NewParser()
	}()
	if err != nil {
		e.dead = true
		return e, "cfg"
	}
	e.p = p
	e.bc = p.BufferConfig()
	pc := parsePcfg(cfgFromLz(p.ParserConfig()))
	switch cfg.kind {
	case "HP", "BHP", "BUP":
		e.minM = min(3, pc.f["InputLen"])
	case "DHP", "BDHP":
		e.minM = min(3, pc.f["InputLen1"])
	case "GSAP":
		e.minM = pc.f["MinMatchLen"]
	case "OSAP":
		e.minM = pc.f["MinMatchLen"]
		e.maxM = pc.f["MaxMatchLen"]
	}
	return e, "ok"
}

func (e *pExec) find(prop, what, site, detail string) {
	if len(e.finds) > 20 {
		return
	}
	e.finds = append(e.finds, finding{Property: prop, What: what, Site: site,
		Script: append([]string{}, e.lines...), Detail: detail})
}

// header returns the S line for this script.
func (e *pExec) header(id string) string {
	return fmt.Sprintf("S %s P %s %s", id, e.cfg.kind, e.cfg.String())
}

func (e *pExec) unparsed() int { return len(e.fed) - e.cpos }

// step executes one op line and returns the implementation's output line.
func (e *pExec) step(line string) (out string) {
	e.lines = append(e.lines, line)
	if e.dead {
		return "skip"
	}
	defer func() {
		// C15 (capacity accounting): behind the data there are always 7 readable bytes — the hash
		// parsers load 8 bytes at every position (hook VerifParserBuffer)
		if pb := lz.VerifParserBuffer(e.p); pb != nil && !e.marginSeen && len(pb.Data) > 0 && cap(pb.Data)-len(pb.Data) < 7 {
			e.marginSeen = true
			op := strings.Fields(line)[0]
			d := fmt.Sprintf("len=%d cap=%d", len(pb.Data), cap(pb.Data))
			e.find("C15", "the 7-byte read margin behind the buffered data is missing", op, d)
			e.find("C16", "the 7-byte read margin behind the buffered data is missing", op, d)
		}
	}()
	defer func() {
		if r := recover(); r != nil {
			out = "panic"
			e.dead = true
			e.cnt.inc("impl.panic")
			e.find("C16", "panic", strings.Fields(line)[0], fmt.Sprint(r))
			op := strings.Fields(line)[0]
			also := map[string]string{"byteat": "C15", "readat": "C15", "write": "C15", "readfrom": "C15", "shrink": "C15",
				"reset": "C15", "parsenil": "C14", "wparse": "C08", "parse": "C03"}[op]
			if also != "" {
				e.find(also, "panic", op, fmt.Sprint(r))
			}
			// C13: a parser that was reset panics where a new parser given the same calls does not
			if e.twin != nil && (op == "parse" || op == "parsenil") {
				twinPanics := false
				func() {
					defer func() {
						if recover() != nil {
							twinPanics = true
						}
					}()
					if op == "parse" {
						fl, _ := strconv.Atoi(strings.Fields(line)[1])
						e.twin.Parse(&e.twinBlk, fl)
					} else {
						e.twin.Parse(nil, 0)
					}
				}()
				if !twinPanics {
					e.find("C13", "parser after Reset behaves differently from a new parser", op,
						"the reset parser panics, a new parser given the same calls does not: "+fmt.Sprint(r))
				}
			}
		}
	}()
	ws := strings.Fields(line)
	switch ws[0] {
	case "write":
		p := unhx(ws[1])
		before := len(e.fed) - e.off
		n, err := e.p.Write(p)
		if e.twin != nil {
			n2, err2 := e.twin.Write(p)
			e.cmpTwin("Write", n, n2, err, err2, false)
		}
		e.checkStore("Write", p, n, err, before)
		return fmt.Sprintf("%d %s", n, errName(err))
	case "readfrom":
		payload := unhx(ws[1])
		r := &scriptReader{payload: append([]byte{}, payload...), resps: parseResps(ws[2])}
		before := len(e.fed) - e.off
		n, err := e.p.ReadFrom(r)
		if e.twin != nil {
			r2 := &scriptReader{payload: append([]byte{}, payload...), resps: parseResps(ws[2])}
			n2, err2 := e.twin.ReadFrom(r2)
			e.cmpTwin("ReadFrom", int(n), int(n2), err, err2, false)
		}
		if int(n) != r.handed {
			e.find("C15", "ReadFrom n differs from bytes the reader handed out", "ReadFrom",
				fmt.Sprintf("n=%d handed=%d", n, r.handed))
		}
		e.checkStore("ReadFrom", payload[:r.handed], int(n), err, before)
		return fmt.Sprintf("%d %s", n, errName(err))
	case "parse":
		flags, _ := strconv.Atoi(ws[1])
		dirtyBlock(&e.blkBuf)
		n, err := e.p.Parse(&e.blkBuf, flags)
		if e.twin != nil {
			dirtyBlock(&e.twinBlk)
			n2, err2 := e.twin.Parse(&e.twinBlk, flags)
			e.cmpTwin("Parse", n, n2, err, err2, true)
		}
		e.checkBlock("Parse", n, err, flags)
		return fmt.Sprintf("%d %s %s %s", n, errName(err), showSeqs(e.blkBuf.Sequences), hx(e.blkBuf.Literals))
	case "parsenil":
		n, err := e.p.Parse(nil, 0)
		if e.twin != nil {
			n2, err2 := e.twin.Parse(nil, 0)
			e.cmpTwin("Parse(nil)", n, n2, err, err2, false)
		}
		e.checkNil(n, err)
		return fmt.Sprintf("%d %s", n, errName(err))
	case "shrink":
		w := e.cpos - e.off
		d := e.p.Shrink()
		if e.twin != nil {
			d2 := e.twin.Shrink()
			e.cmpTwin("Shrink", d, d2, nil, nil, false)
		}
		want := w - e.bc.ShrinkSize
		if want < 0 {
			want = 0
		}
		if d != want {
			e.find("C15", "Shrink returns a wrong delta", "Shrink", fmt.Sprintf("delta=%d want=%d W=%d", d, want, w))
		}
		if d > 0 {
			e.cnt.inc("p.shrink.effective")
			e.nilUsed = false
		}
		e.off += d
		return fmt.Sprint(d)
	case "reset":
		data := unhx(ws[1])
		ce, _ := strconv.Atoi(ws[2])
		var arg []byte
		if ws[1] != "-" {
			// cap(data) = len + ce, the tail holds garbage the parser must never look at
			arg = make([]byte, len(data), len(data)+ce)
			copy(arg, data)
			tail := arg[len(data):cap(arg)]
			for i := range tail {
				tail[i] = byte(0xA5 ^ i*37)
			}
		}
		err := e.p.Reset(arg)
		if len(data) > e.bc.BufferSize {
			if err == nil {
				e.find("C15", "Reset accepts more than BufferSize bytes", "Reset", "")
			}
		} else if err != nil {
			e.find("C16", "Reset fails spuriously", "Reset", err.Error())
		}
		if err == nil && e.twinOn {
			// a newly created parser of the same configuration, given the same data
			e.twin, _ = e.cfg.toLz().NewParser()
			var arg2 []byte
			if ws[1] != "-" {
				arg2 = append(make([]byte, 0, len(data)+7), data...)
			}
			if e.twin.Reset(arg2) != nil {
				e.twin = nil
			}
			e.cnt.inc("p.twin.fresh")
		}
		if err == nil {
			e.fed = append(e.fed[:0], data...)
			e.cpos, e.off = 0, 0
			e.nilUsed = false
			e.nilSinceReset = false
			e.cnt.inc("p.reset.ok")
			if len(data) > 0 {
				e.cnt.inc("p.reset.data")
			}
		}
		return errName(err)
	case "readat":
		n, _ := strconv.Atoi(ws[1])
		off, _ := strconv.ParseInt(ws[2], 10, 64)
		p := make([]byte, n)
		k, err := e.p.ReadAt(p, off)
		e.checkReadAt(n, off, p[:k], err)
		return fmt.Sprintf("%d %s %s", k, errName(err), hx(p[:k]))
	case "byteat":
		off, _ := strconv.ParseInt(ws[1], 10, 64)
		c, err := e.p.ByteAt(off)
		e.checkByteAt(off, c, err)
		return fmt.Sprintf("%d %s", c, errName(err))
	case "cfg":
		k, s := cfgFromLz(e.p.ParserConfig())
		b := e.p.BufferConfig()
		return fmt.Sprintf("%s %s buf=%d,%d,%d,%d", k, s, b.ShrinkSize, b.BufferSize, b.WindowSize, b.BlockSize)
	case "wrap":
		e.rd = &scriptReader{payload: unhx(ws[1]), resps: parseResps(ws[2])}
		e.wp = lz.Wrap(e.rd, e.p)
		return "ok"
	case "wrapm":
		// a reader whose dynamic type offers io.WriterTo built on io.Copy: io.MultiReader over plain
		// readers (oracle-only scripts; the parts partition the payload)
		e.rd = &scriptReader{payload: unhx(ws[1])}
		parts, _ := strconv.Atoi(ws[2])
		total := len(e.rd.payload)
		var rs []io.Reader
		for i := 0; i < parts; i++ {
			n := total / parts
			if i == parts-1 {
				n = total - (parts-1)*(total/parts)
			}
			rs = append(rs, &leafReader{src: e.rd, left: n})
		}
		e.wp = lz.Wrap(io.MultiReader(rs...), e.p)
		return "ok"
	case "wparse":
		if e.wp == nil {
			return "bad-op"
		}
		flags, _ := strconv.Atoi(ws[1])
		dirtyBlock(&e.blkBuf)
		h0 := e.rd.handed
		pay := append([]byte{}, e.rd.payload...)
		n, err := e.wp.Parse(&e.blkBuf, flags)
		// the wrapped parser shrinks and reads on its own: replay the bookkeeping
		newly := e.rd.handed - h0
		e.fed = append(e.fed, pay[:newly]...)
		e.checkWrapped(n, err, flags)
		return fmt.Sprintf("%d %s %s %s", n, errName(err), showSeqs(e.blkBuf.Sequences), hx(e.blkBuf.Literals))
	case "wreset":
		e.rd = &scriptReader{payload: unhx(ws[1]), resps: parseResps(ws[2])}
		e.wp.Reset(e.rd)
		e.fed = e.fed[:0]
		e.cpos, e.off = 0, 0
		e.nilUsed = false
		return "ok"
	}
	return "bad-op"
}

// checkStore: Write/ReadFrom store a prefix, never exceed BufferSize, report
// ErrFullBuffer exactly when they could not take everything (C15).
func (e *pExec) checkStore(site string, p []byte, n int, err error, before int) {
	if n < 0 || n > len(p) {
		e.find("C15", site+" returns n out of range", site, fmt.Sprintf("n=%d len=%d", n, len(p)))
		n = 0
	}
	e.fed = append(e.fed, p[:n]...)
	held := before + n
	if held > e.bc.BufferSize {
		e.find("C15", site+" holds more than BufferSize bytes", site, fmt.Sprintf("held=%d BufferSize=%d", held, e.bc.BufferSize))
	}
	if site == "Write" {
		full := n < len(p)
		if full != (err == lz.ErrFullBuffer) || (err != nil && err != lz.ErrFullBuffer) {
			e.find("C15", "Write reports ErrFullBuffer wrongly", site, fmt.Sprintf("n=%d len=%d err=%v", n, len(p), err))
		}
		if full {
			e.cnt.inc("p.write.full")
		}
		if held != min(before+len(p), e.bc.BufferSize) {
			e.find("C15", "Write did not take as much as fits", site, fmt.Sprintf("held=%d", held))
		}
	} else {
		if err == lz.ErrFullBuffer {
			e.cnt.inc("p.readfrom.full")
			if held != e.bc.BufferSize {
				e.find("C15", "ReadFrom reports ErrFullBuffer although the buffer is not full", site, fmt.Sprintf("held=%d", held))
			}
		} else if err == nil {
			e.find("C16", "ReadFrom returns without error", site, "")
		} else {
			e.cnt.inc("p.readfrom." + errName(err))
		}
	}
	// the stored bytes are readable
	if n > 0 {
		c, err2 := e.p.ByteAt(int64(len(e.fed) - 1))
		if err2 != nil || c != e.fed[len(e.fed)-1] {
			e.find("C15", "last stored byte not readable", site, fmt.Sprintf("c=%d err=%v", c, err2))
		}
	}
}

func (e *pExec) checkReadAt(n int, off int64, got []byte, err error) {
	lo, hi := int64(e.off), int64(len(e.fed))
	switch {
	case off < lo || off >= hi:
		e.cnt.inc("p.readat.outside")
		if err != lz.ErrOutOfBuffer || len(got) != 0 {
			e.find("C15", "ReadAt outside the retained range", "ReadAt", fmt.Sprintf("off=%d range=[%d,%d) err=%v k=%d", off, lo, hi, err, len(got)))
		}
	default:
		avail := int(hi - off)
		want := e.fed[off:]
		if len(want) > n {
			want = want[:n]
		}
		if string(got) != string(want) {
			e.find("C15", "ReadAt returns wrong bytes", "ReadAt", fmt.Sprintf("off=%d got=%x want=%x", off, got, want))
		}
		if avail < n {
			e.cnt.inc("p.readat.pastend")
			if err != lz.ErrEndOfBuffer {
				e.find("C15", "ReadAt past the end without ErrEndOfBuffer", "ReadAt", fmt.Sprintf("err=%v", err))
			}
		} else if err != nil {
			e.find("C15", "ReadAt fails inside the retained range", "ReadAt", fmt.Sprintf("err=%v", err))
		}
	}
}

func (e *pExec) checkByteAt(off int64, c byte, err error) {
	lo, hi := int64(e.off), int64(len(e.fed))
	switch {
	case off == hi:
		e.cnt.inc("p.byteat.end")
		if err != lz.ErrEndOfBuffer {
			e.find("C15", "ByteAt at the end", "ByteAt", fmt.Sprintf("err=%v", err))
		}
	case off < lo || off > hi:
		if err != lz.ErrOutOfBuffer {
			e.find("C15", "ByteAt outside", "ByteAt", fmt.Sprintf("off=%d range=[%d,%d) err=%v", off, lo, hi, err))
		}
	default:
		if err != nil || c != e.fed[off] {
			e.find("C15", "ByteAt wrong", "ByteAt", fmt.Sprintf("off=%d c=%d err=%v", off, c, err))
		}
	}
}

func (e *pExec) checkNil(n int, err error) {
	want := min(e.bc.BlockSize, e.unparsed())
	if want == 0 {
		if err != lz.ErrEmptyBuffer || n != 0 {
			e.find("C14", "Parse(nil) on an empty buffer", "Parse(nil)", fmt.Sprintf("n=%d err=%v", n, err))
		}
		return
	}
	e.cnt.inc("p.parsenil.data")
	e.nilUsed = true
	e.nilSinceReset = true
	if err != nil || n != want {
		e.find("C14", "Parse(nil) returns a wrong n", "Parse(nil)", fmt.Sprintf("n=%d want=%d err=%v", n, want, err))
		if n < 0 || n > e.unparsed() {
			return
		}
	}
	// it must actually consume: W advances, visible through Shrink later and
	// through the next Parse, which must start behind the skipped bytes
	e.cpos += n
}

// expandBlock is the plain LZ77 expander of the properties.
func expandBlock(hist []byte, seqs []lz.Seq, lits []byte) ([]byte, error) {
	out := append([]byte{}, hist...)
	for _, s := range seqs {
		if int(s.LitLen) > len(lits) {
			return nil, fmt.Errorf("LitLen %d > %d literals", s.LitLen, len(lits))
		}
		out = append(out, lits[:s.LitLen]...)
		lits = lits[s.LitLen:]
		if s.MatchLen > 0 && (s.Offset == 0 || int(s.Offset) > len(out)) {
			return nil, fmt.Errorf("offset %d at %d", s.Offset, len(out))
		}
		for i := 0; i < int(s.MatchLen); i++ {
			out = append(out, out[len(out)-int(s.Offset)])
		}
	}
	out = append(out, lits...)
	return out[len(hist):], nil
}

func (e *pExec) checkWrapped(n int, err error, flags int) {
	// a wrapped Parse may have shrunk: Off is not observable through the
	// wrapper, recover it from ReadAt probing is not needed for C08; keep off
	// conservative by asking the buffer.
	e.syncOffAfterWrap()
	if err == io.EOF {
		e.cnt.inc("w.eof")
		if n != 0 || len(e.blkBuf.Sequences) != 0 || len(e.blkBuf.Literals) != 0 {
			e.find("C08", "io.EOF with n != 0 or a non-empty block", "Wrap.Parse", fmt.Sprintf("n=%d", n))
		}
		if e.unparsed() != 0 {
			e.find("C08", "io.EOF although bytes read from the reader are undelivered", "Wrap.Parse", fmt.Sprintf("undelivered=%d", e.unparsed()))
		}
		return
	}
	if err != nil {
		if errName(err)[0] == 'r' { // reader(..)
			e.cnt.inc("w.readererr")
			if e.unparsed() != 0 {
				e.find("C08", "reader error surfaced before all bytes read were delivered", "Wrap.Parse", fmt.Sprintf("undelivered=%d", e.unparsed()))
			}
			if n != 0 {
				e.find("C08", "reader error with n != 0", "Wrap.Parse", "")
			}
			return
		}
		e.find("C16", "wrapped Parse returns an undocumented error", "Wrap.Parse", err.Error())
		return
	}
	e.checkBlock("Wrap.Parse", n, err, flags)
}

// syncOffAfterWrap recomputes the expected Off after the wrapper shrank the
// buffer on its own: Off is the smallest offset ReadAt accepts.
func (e *pExec) syncOffAfterWrap() {
	lo := e.off
	for lo < len(e.fed) {
		if _, err := e.p.ByteAt(int64(lo)); err == nil {
			break
		}
		lo++
	}
	if lo != e.off {
		e.cnt.inc("w.shrunk")
		e.nilUsed = false
	}
	e.off = lo
}

// checkBlock evaluates C01, C02, C03, C19 (and C11/C12 hooks) on a block
// the implementation just produced.
func (e *pExec) checkBlock(site string, n int, err error, flags int) {
	blk := &e.blkBuf
	unp := e.unparsed()
	if unp == 0 {
		if err != lz.ErrEmptyBuffer || n != 0 || len(blk.Sequences) != 0 || len(blk.Literals) != 0 {
			e.find("C03", "no unparsed data but not (0, ErrEmptyBuffer, empty block)", site, fmt.Sprintf("n=%d err=%v", n, err))
		}
		e.cnt.inc("p.parse.empty")
		return
	}
	if err != nil {
		if err == lz.ErrEmptyBuffer {
			e.find("C03", "ErrEmptyBuffer although unparsed data is buffered", site, fmt.Sprintf("unparsed=%d", unp))
		} else {
			e.find("C16", "Parse returns an undocumented error", site, err.Error())
		}
		return
	}
	blockMax := min(e.bc.BlockSize, unp)
	if n < 1 || n > blockMax {
		e.find("C03", "n out of range", site, fmt.Sprintf("n=%d BlockSize=%d unparsed=%d", n, e.bc.BlockSize, unp))
		if n < 0 || n > unp {
			e.dead = true
			return
		}
	}
	sumL, sumM := 0, 0
	for _, s := range blk.Sequences {
		sumL += int(s.LitLen)
		sumM += int(s.MatchLen)
	}
	ntl := flags&lz.NoTrailingLiterals != 0 && len(blk.Sequences) > 0
	if sumL > len(blk.Literals) {
		e.find("C02", "LitLen sum exceeds the literals of the block", site, fmt.Sprintf("sum=%d lits=%d", sumL, len(blk.Literals)))
	}
	if ntl {
		e.cnt.inc("p.parse.ntl")
		if len(blk.Literals) != sumL || n != sumL+sumM {
			e.find("C03", "NoTrailingLiterals block carries other literals than claimed or n is not the end of the last match", site,
				fmt.Sprintf("n=%d sumL=%d sumM=%d lits=%d", n, sumL, sumM, len(blk.Literals)))
		}
		if n < blockMax {
			e.cnt.inc("p.parse.ntl.truncated")
		}
	} else {
		if int64(n) != blk.Len() || n != blockMax {
			e.find("C03", "n differs from Block.Len() or from min(BlockSize, unparsed)", site,
				fmt.Sprintf("n=%d Len=%d want=%d", n, blk.Len(), blockMax))
		}
	}
	if len(blk.Sequences) > 0 {
		e.cnt.inc("p.parse.matches")
	} else {
		e.cnt.inc("p.parse.literalonly")
	}
	// C01: expansion on top of everything consumed so far
	hist := e.fed[:e.cpos]
	got, xerr := expandBlock(hist, blk.Sequences, blk.Literals)
	want := e.fed[e.cpos : e.cpos+n]
	if xerr != nil || string(got) != string(want) {
		e.find("C01", "block does not expand to the bytes consumed", site, fmt.Sprintf("err=%v got=%x want=%x", xerr, got, want))
		if e.nilSinceReset {
			e.find("C14", "block parsed after Parse(nil) is not correct for a decoder that got the skipped bytes verbatim", site,
				fmt.Sprintf("err=%v got=%x want=%x", xerr, got, want))
		}
	}
	// C02 / C19 per sequence
	pos := e.cpos
	blockEnd := e.cpos + blockMax
	for i, s := range blk.Sequences {
		pos += int(s.LitLen)
		o, m := int(s.Offset), int(s.MatchLen)
		if o < 1 || o > e.bc.WindowSize || o > pos {
			e.find("C02", "offset outside [1, min(WindowSize, position)]", site, fmt.Sprintf("seq=%d o=%d pos=%d W=%d", i, o, pos, e.bc.WindowSize))
		}
		if o == e.bc.WindowSize {
			e.cnt.inc("p.match.offset=window")
		}
		if o >= 65536 {
			e.cnt.inc("p.match.offset>=64K")
		}
		if pos >= 65536 {
			e.cnt.inc("p.match.pos>=64K")
		}
		if m < e.minM {
			e.find("C02", "MatchLen below the minimum match length", site, fmt.Sprintf("seq=%d m=%d min=%d", i, m, e.minM))
		}
		if e.maxM > 0 && m > e.maxM {
			e.find("C02", "MatchLen above MaxMatchLen", site, fmt.Sprintf("seq=%d m=%d max=%d", i, m, e.maxM))
		}
		if s.Aux != 0 {
			e.find("C02", "Aux not zero", site, "")
		}
		if m >= 16 {
			e.cnt.inc("p.match.long")
		}
		if o < m {
			e.cnt.inc("p.match.overlap")
		}
		end := pos + m
		if e.cfg.kind != "OSAP" && o >= 1 && o <= pos && end <= len(e.fed) {
			// right maximality
			if end < blockEnd && e.fed[end] == e.fed[end-o] {
				e.find("C19", "match can be extended to the right", site, fmt.Sprintf("seq=%d pos=%d m=%d o=%d", i, pos, m, o))
			}
			if end == blockEnd {
				e.cnt.inc("p.match.toblockend")
			}
			// left maximality of the backward extending parsers
			if (e.cfg.kind == "BHP" || e.cfg.kind == "BDHP") && s.LitLen > 0 && pos-1-o >= e.off {
				if e.fed[pos-1] == e.fed[pos-1-o] {
					e.find("C19", "literal in front of a match equals the byte Offset before it", site, fmt.Sprintf("seq=%d pos=%d o=%d", i, pos, o))
				}
				e.cnt.inc("p.match.backcheck")
			}
		}
		pos = end
	}
	// run clause of C19 (flags 0)
	if !ntl && n >= 32 && flags&lz.NoTrailingLiterals == 0 {
		run := true
		for _, c := range want {
			if c != want[0] {
				run = false
				break
			}
		}
		if run {
			e.cnt.inc("p.runblock")
			limit := 1
			if e.cfg.kind == "GSAP" || e.cfg.kind == "OSAP" {
				limit = e.minM
			}
			if len(blk.Literals) > limit && (e.cfg.kind == "GSAP" || e.cfg.kind == "OSAP") && e.minM > 8 {
				// outside the property's quantifier (MinMatchLen <= 8)
			} else if len(blk.Literals) > limit {
				e.find("C19", "run block carries too many literals", site,
					fmt.Sprintf("kind=%s lits=%d limit=%d byte=%d n=%d cpos=%d off=%d B=%d W=%d", e.cfg.kind, len(blk.Literals), limit, want[0], n, e.cpos, e.off, e.bc.BufferSize, e.bc.WindowSize))
			}
		}
	}
	if e.cfg.kind == "GSAP" {
		e.checkGSAP(site, n, blockMax)
	}
	if e.cfg.kind == "OSAP" && flags&lz.NoTrailingLiterals == 0 {
		e.checkOSAP(site, n)
	}
	e.cpos += n
}

// cmpTwin compares the parser with its twin that is fresh since the last
// Reset (C13).
func (e *pExec) cmpTwin(site string, n, n2 int, err, err2 error, block bool) {
	same := n == n2 && errName(err) == errName(err2)
	if block && same {
		same = showSeqs(e.blkBuf.Sequences) == showSeqs(e.twinBlk.Sequences) && string(e.blkBuf.Literals) == string(e.twinBlk.Literals)
	}
	if block {
		e.cnt.inc("p.twin.blocks")
	}
	if !same {
		e.find("C13", "parser after Reset behaves differently from a new parser", site,
			fmt.Sprintf("n=%d/%d err=%v/%v seqs=%s / %s", n, n2, err, err2, showSeqs(e.blkBuf.Sequences), showSeqs(e.twinBlk.Sequences)))
		e.twin = nil
	}
}

// dirtyBlock simulates a caller that reuses its Block: the whole capacity of
// both slices holds leftovers of an upper layer (non-zero Aux, stale
// literals) and the slices are not empty when Parse is called.
func dirtyBlock(b *lz.Block) {
	if cap(b.Sequences) == 0 {
		b.Sequences = make([]lz.Seq, 0, 4)
	}
	if cap(b.Literals) == 0 {
		b.Literals = make([]byte, 0, 8)
	}
	s := b.Sequences[:cap(b.Sequences)]
	for i := range s {
		s[i] = lz.Seq{LitLen: 9, MatchLen: 9, Offset: 9, Aux: 0xA0000000 + uint32(i)}
	}
	l := b.Literals[:cap(b.Literals)]
	for i := range l {
		l[i] = 0xEE
	}
	b.Sequences = s[:1]
	b.Literals = l[:1]
}
