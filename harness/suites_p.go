package main

import (
	"fmt"
	"strconv"
	"strings"
)

var deepP = []string{"p.parse.matches", "p.shrink.effective", "p.parse.ntl.truncated", "p.reset.data"}

func pSuite(pf pProfile, deepKeys []string) suiteFn {
	return func(r *rng, id string, cnt counters, emit func(line, out string)) ([]finding, bool) {
		before := map[string]int{}
		for _, k := range deepKeys {
			before[k] = cnt[k]
		}
		e := genPScript(r, pf, id, cnt, emit)
		deep := false
		for _, k := range deepKeys {
			if cnt[k] > before[k] {
				deep = true
			}
		}
		return e.finds, deep
	}
}

func init() {
	suites["p-general"] = pSuite(profGeneral, []string{"p.parse.matches"})
	for _, k := range allKinds {
		suites["p-general-"+k] = pSuite(profGeneral.withKinds(k), []string{"p.parse.matches"})
	}
	hashOnly := []string{"HP", "BHP", "DHP", "BDHP", "BUP"}
	_ = hashOnly
	pn := profGeneral
	pn.wParseNil = 25
	// the largest windows with tiny hash tables and many NoTrailingLiterals blocks: after a truncated
	// block the table holds positions AHEAD of the window head; offsets are computed in 32-bit types
	phw := profGeneral.withKinds("HP", "BHP", "DHP", "BDHP", "BUP")
	phw.hugeWin = true
	phw.ntlPct = 60
	phw.badCfgPct = 0
	phw.wReset, phw.wParseNil = 1, 1
	phw.staleBias = true // small alphabet: n-grams recur inside the trailing literals
	phw.stream = 300
	suites["p-hugewin"] = pSuite(phw, []string{"p.parse.ntl.truncated"})
	// accepted but odd configurations (several fields at once zero, at a bound of Verify, or huge),
	// each driven through an ordinary short history: configuration-only panics and spurious errors
	pwc := profGeneral
	pwc.badCfgPct = 75
	pwc.maxOps = 25
	suites["p-wildcfg"] = pSuite(pwc, []string{"p.parse.matches"})
	suites["p-nil"] = pSuite(pn, []string{"p.parsenil.data"})
	suites["p-nil-GSAP"] = pSuite(pn.withKinds("GSAP"), []string{"p.parsenil.data"})
	pv := profGeneral
	pv.wProbe, pv.wShrink, pv.wReset, pv.wReadFrom = 40, 15, 8, 15
	pv.kinds = []string{"HP", "BUP", "DHP", "GSAP"}
	suites["p-view"] = pSuite(pv, []string{"p.shrink.effective", "p.readat.pastend", "p.byteat.end", "p.write.full", "p.readfrom.full"})
	pw := profGeneral
	pw.wrap = true
	pw.stream = 600
	suites["p-wrap"] = pSuite(pw, []string{"w.eof", "w.readererr"})
	pr := profGeneral
	pr.runs = true
	pr.stream = 900
	pr.ntlPct = 0
	pr.wReset, pr.wProbe, pr.wCfg, pr.wParseNil = 1, 0, 0, 0
	pr.badCfgPct = 0
	suites["p-runs"] = pSuite(pr, []string{"p.runblock"})
	for _, k := range allKinds {
		suites["p-runs-"+k] = pSuite(pr.withKinds(k), []string{"p.runblock"})
	}
	pg := profGeneral.withKinds("GSAP")
	pg.bigWin = true
	pg.wParseNil = 0
	pgs := pSuite(pg, []string{"gsap.match.checked"})
	suites["p-gsap"] = func(r *rng, id string, cnt counters, emit func(line, out string)) ([]finding, bool) {
		if len(id) > 2 && id[len(id)-2:] == ".0" { // the first script of every shard: matches longer than 1 KiB
			e := genPMidSA(r, id, cnt, emit)
			return e.finds, true
		}
		if budgetScriptID(id) {
			return genPSABudget("GSAP", r, id, cnt, emit).finds, true
		}
		return pgs(r, id, cnt, emit)
	}
	pt := profGeneral
	pt.twin = true
	pt.wReset = 14
	pt.wParseNil = 10
	pt.maxOps = 60
	pt.stream = 160 // short stream, replayed often: n-grams recur at shifted positions
	pt.badCfgPct = 0
	suites["p-reset"] = pSuite(pt, []string{"p.twin.fresh"})
	suites["p-large"] = func(r *rng, id string, cnt counters, emit func(line, out string)) ([]finding, bool) {
		if id == "0.1" || id == "4.1" {
			return genPOsapFar(r, id, cnt, emit).finds, true
		}
		if id == "2.1" {
			return genPGiant(r, id, cnt, emit).finds, true
		}
		if r.chance(25) && id[len(id)-2:] != ".0" {
			return genPLargeWrap(r, id, cnt, emit), true
		}
		e, d := genPLarge(r, id, cnt, emit)
		fs := e.finds
		if d != nil {
			fs = append(fs, d.finds...)
		}
		return fs, true
	}
	// hash tables of 2^20 and more entries (anything that treats large tables specially, e.g. in Reset):
	// twin comparison after Reset, oracle only (the model would need arrays of a million entries)
	pbt := pt.withKinds("HP", "BHP", "DHP", "BDHP", "BUP", "HP", "BHP")
	pbt.bigTable = true
	pbt.minBuf, pbt.maxBuf = 6000, 30000
	pbt.stream = 60000
	pbt.staleBias = true
	pbt.maxOps = 30
	pbt.wReset = 25
	inner := pSuite(pbt, []string{"p.twin.fresh"})
	suites["p-reset-bigtable"] = func(r *rng, id string, cnt counters, emit func(line, out string)) ([]finding, bool) {
		emit(fmt.Sprintf("S %s X", id), fmt.Sprintf("S %s ok", id))
		fs, deep := inner(r, id, cnt, func(line, out string) {})
		emit("E", "E")
		return fs, deep
	}
	suites["p-bigbuf"] = func(r *rng, id string, cnt counters, emit func(line, out string)) ([]finding, bool) {
		e := genPBig(r, id, cnt, emit)
		return e.finds, true
	}
	// suffix-array parsers with buffers of several bitset words (> 128 bytes): stale words of the
	// bitset, a suffix array kept over Reset, edges kept over Reset only show with larger fills
	psa := pt.withKinds("GSAP", "OSAP", "GSAP")
	psa.minBuf, psa.maxBuf = 130, 330
	psa.stream = 900
	psa.maxOps = 30
	suites["p-reset-sa"] = pSuite(psa, []string{"p.twin.fresh"})
	ps := pt
	ps.staleBias = true
	ps.wShrink = 3
	for _, k := range allKinds {
		suites["p-reset-stale-"+k] = pSuite(ps.withKinds(k), []string{"p.twin.fresh"})
	}
	suites["p-reset-stale"] = pSuite(ps, []string{"p.twin.fresh"})
	// exhaustive: script k of shard s (8 shards) is case number k*8+s; 7*6*2*2*255 = 42840 cases cover {a,b}^<=7
	suites["p-exhaustive"] = func(r *rng, id string, cnt counters, emit func(line, out string)) ([]finding, bool) {
		var sh, k int
		fmt.Sscanf(id, "%d.%d", &sh, &k)
		e := genPExhaustive(k*8+sh, id, cnt, emit)
		return e.finds, true
	}
	po := profGeneral.withKinds("OSAP")
	po.ntlPct = 10
	pos := pSuite(po, []string{"osap.block.withmatches"})
	suites["p-osap"] = func(r *rng, id string, cnt counters, emit func(line, out string)) ([]finding, bool) {
		if len(id) > 2 && id[len(id)-2:] == ".0" { // the first script of every shard: far matches at a few KiB
			return genPMidOSAP(r, id, cnt, emit).finds, true
		}
		if budgetScriptID(id) {
			return genPSABudget("OSAP", r, id, cnt, emit).finds, true
		}
		return pos(r, id, cnt, emit)
	}
}

// budgetScriptID selects every fourth script of a shard (not the first) for genPSABudget.
func budgetScriptID(id string) bool {
	k := strings.LastIndex(id, ".")
	if k < 0 {
		return false
	}
	n, err := strconv.Atoi(id[k+1:])
	return err == nil && n%4 == 1
}
