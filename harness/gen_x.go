package main

import (
	"bytes"
	"fmt"
	"strings"

	"github.com/ulikunitz/lz/suffix"
)

// hardText generates the hard families for suffix sorting named in C09.
func hardText(r *rng, n int) []byte {
	switch r.intn(8) {
	case 0: // fibonacci
		a, b := []byte{'b'}, []byte{'a'}
		for len(b) < n {
			a, b = b, append(append([]byte{}, b...), a...)
		}
		return b[:n]
	case 1: // thue-morse
		p := make([]byte, n)
		for i := range p {
			x, c := i, 0
			for x > 0 {
				c ^= x & 1
				x >>= 1
			}
			p[i] = byte('a' + c)
		}
		return p
	case 2: // de Bruijn-like: all k-mers over a small alphabet via LFSR-ish walk
		p := make([]byte, n)
		x := uint32(1)
		for i := range p {
			x = x*1664525 + 1013904223
			p[i] = byte('a' + (x>>29)%2)
		}
		return p
	case 3: // runs of two letters
		p := make([]byte, n)
		for i := 0; i < n; {
			l := r.rangeIn(1, 30)
			c := byte('a' + r.intn(2))
			for j := 0; j < l && i < n; j++ {
				p[i] = c
				i++
			}
		}
		return p
	case 4: // nested periods
		base := []byte("ab")
		for len(base) < n {
			base = append(append(append([]byte{}, base...), base...), byte('a'+r.intn(3)))
		}
		return base[:n]
	case 5: // all 256 byte values
		p := make([]byte, n)
		for i := range p {
			p[i] = byte(i * 7)
		}
		return p
	case 6: // single letter
		return []byte(strings.Repeat(string(rune('a'+r.intn(2))), n))
	}
	return genData(r, n)
}

func genSuffixScript(r *rng, id string, cnt counters, emit func(line, out string)) *xExec {
	hdr := fmt.Sprintf("S %s X", id)
	e := &xExec{cnt: cnt}
	e.lines = append(e.lines, hdr)
	emit(hdr, fmt.Sprintf("S %s ok", id))
	do := func(l string) { emit(l, e.step(l)) }
	for k := r.rangeIn(2, 5); k > 0; k-- {
		n := r.pick(0, 1, 2, 3, r.rangeIn(0, 12), r.rangeIn(0, 40), r.rangeIn(0, 200))
		var t []byte
		if r.chance(60) {
			t = hardText(r, n)
		} else {
			t = genData(r, n)
		}
		switch r.intn(4) {
		case 0:
			do("sort " + hx(t))
		case 1:
			do("lcp " + hx(t))
		case 2:
			mn := r.pick(0, 1, 2, 3)
			mx := r.pick(mn, mn+1, mn+3, 273, mn-1)
			if mx < 0 {
				mx = 0
			}
			if r.chance(6) {
				// the property quantifies over every 0 <= minLen <= maxLen: limits beyond the int32 range
				mx = r.pick(1<<31-1, 1<<31, 1<<32, 1<<40)
				mn = r.pick(mn, mn, 1<<31-1, 1<<31, mx)
			}
			if len(t) > 60 {
				t = t[:60]
			}
			do(fmt.Sprintf("segtext %s %d %d", hx(t), mn, mx))
		case 3:
			// arbitrary LCP profile incl. falling-then-rising shapes
			m := r.rangeIn(0, 14)
			l := make([]int, m)
			for i := 1; i < m; i++ {
				l[i] = r.pick(0, 1, 2, 3, 4, r.intn(6))
			}
			mn := r.pick(0, 1, 2, 3)
			mx := r.pick(mn, mn+1, mn+2, 9, mn-1)
			if mx < 0 {
				mx = 0
			}
			if r.chance(6) {
				mx = r.pick(1<<31-1, 1<<31, 1<<32, 1<<40)
				mn = r.pick(mn, mn, 1<<31-1, 1<<31, mx)
			}
			do(fmt.Sprintf("seg %s %d %d", joinInts(l), mn, mx))
		}
	}
	emit("E", "E")
	return e
}

// exhaustive suffix scripts: every string over {a,b} up to length maxLen.
func genSuffixExhaustive(id string, idx int, cnt counters, emit func(line, out string)) *xExec {
	hdr := fmt.Sprintf("S %s X", id)
	e := &xExec{cnt: cnt}
	e.lines = append(e.lines, hdr)
	emit(hdr, fmt.Sprintf("S %s ok", id))
	// idx encodes (length, bits)
	n, x := 0, idx
	for x >= 1<<n {
		x -= 1 << n
		n++
	}
	t := make([]byte, n)
	for i := range t {
		t[i] = byte('a' + (x>>i)&1)
	}
	emit2 := func(l string) { emit(l, e.step(l)) }
	emit2("sort " + hx(t))
	emit2("lcp " + hx(t))
	emit2(fmt.Sprintf("segtext %s %d %d", hx(t), idx%3, idx%3+idx%5))
	emit("E", "E")
	return e
}

var cfgWild = []int{0, 0, 1, 2, 3, 5, 8, 9, 16, 17, 23, 24, 25, 128, 129, -1, -7, 1 << 16, 1<<16 - 1, 1 << 31, 1<<31 - 1, 1<<32 - 8, 1<<32 - 7, 1 << 33,
	32768, 32769, 40000, 65537, 1 << 17, 1 << 20, 1 << 23}

func genWildCfg(r *rng) (string, string) {
	kind := allKinds[r.intn(len(allKinds))]
	c := pcfg{kind: kind, f: map[string]int{}}
	wild := 55
	if r.chance(60) {
		wild = 6 // mostly valid configurations
	}
	for _, k := range kindFields[kind] {
		if k == "Cost" {
			c.cost = r.pickS("", "XZCost", "x", "XZCost", "xzcost")
			if wild < 10 {
				c.cost = r.pickS("", "XZCost")
			}
			continue
		}
		if r.chance(wild) {
			c.f[k] = cfgWild[r.intn(len(cfgWild))]
		} else {
			c.f[k] = r.rangeIn(0, 12)
			if wild < 10 {
				switch k {
				case "BufferSize":
					c.f[k] = r.rangeIn(1, 64)
				case "ShrinkSize":
					c.f[k] = r.rangeIn(0, max(0, c.f["BufferSize"]-1))
				case "InputLen", "InputLen1":
					c.f[k] = r.rangeIn(0, 7)
				case "InputLen2":
					c.f[k] = r.pick(0, r.rangeIn(c.f["InputLen1"]+1, 8))
				case "MinMatchLen":
					c.f[k] = r.pick(0, 2, 3, 4)
				case "MaxMatchLen":
					c.f[k] = r.pick(0, 4, 8, 273)
				}
			}
		}
	}
	if wild < 10 && r.chance(20) {
		// realistic geometries: the defaults of the buffer fields depend on each other around 32 KiB / 64 KiB
		b := r.pick(65535, 65536, 65537, 1<<17, 1<<20, 8<<20, 40000)
		c.f["BufferSize"] = b
		c.f["WindowSize"] = r.pick(0, 32768, 32769, 40000, b/2, b/2+1, b, 2*b)
		c.f["ShrinkSize"] = r.pick(0, 0, 32768, b-1, b/2)
		c.f["BlockSize"] = r.pick(0, 1<<17, 1000)
	}
	// keep allocations of accepted configurations moderate
	for _, k := range []string{"HashBits", "HashBits1", "HashBits2"} {
		if c.f[k] > 16 && c.f[k] <= 24 {
			c.f[k] = r.pick(16, 25)
		}
	}
	if c.f["BucketSize"] > 8 && c.f["BucketSize"] <= 128 && c.f["HashBits"] > 12 {
		c.f["HashBits"] = 12
	}
	if c.f["HashBits"] == 0 && kind == "BUP" && c.f["BucketSize"] > 16 {
		c.f["BucketSize"] = 16
	}
	return kind, c.String()
}

func hexKey(s string) string { return hx([]byte(s)) }

func genJSONDoc(r *rng) string {
	switch r.intn(12) {
	case 0:
		return "Z"
	case 1:
		return "N"
	case 2:
		return "T"
	case 3:
		return "O"
	}
	var ms []string
	kind := r.pickS("HP", "BHP", "DHP", "BDHP", "BUP", "GSAP", "OSAP", "OSAP", "hp", "XX", "")
	typeKey := r.pickS("Type", "Type", "Type", "type", "TYPE", "tYPE")
	if r.chance(90) {
		if r.chance(92) {
			ms = append(ms, hexKey(typeKey)+"=s"+hx([]byte(kind)))
		} else {
			ms = append(ms, hexKey(typeKey)+"="+r.pickS("n", "i5", "t", "c", "x"))
		}
	}
	names := []string{"ShrinkSize", "BufferSize", "WindowSize", "BlockSize", "InputLen", "HashBits", "InputLen1",
		"HashBits1", "InputLen2", "HashBits2", "MinMatchLen", "MaxMatchLen", "BucketSize", "Cost", "Unknown", "cost", "inputlen", "BUFFERSIZE", ""}
	for k := r.rangeIn(0, 6); k > 0; k-- {
		nm := names[r.intn(len(names))]
		var v string
		isStr := strings.EqualFold(nm, "Cost")
		switch {
		case r.chance(80) && !isStr:
			v = fmt.Sprintf("i%d", cfgWild[r.intn(len(cfgWild))])
		case r.chance(80) && isStr:
			v = "s" + hx([]byte(r.pickS("XZCost", "", "a b", "é\"\\")))
		default:
			v = r.pickS("n", "t", "f", "x", "c", "s"+hx([]byte("7")), "i3")
		}
		if r.chance(8) {
			// encoding/json matches keys by Unicode simple case folding: the long s and the
			// Kelvin sign fold to s and k; look-alikes from other scripts must not match
			from := r.pickS("s", "S", "k", "K", "e", "i")
			to := map[string]string{"s": "\u017f", "S": "\u017f", "k": "\u212a", "K": "\u212a", "e": "\u0435", "i": "\u0131"}[from]
			nm = strings.Replace(nm, from, to, r.pick(1, -1))
		}
		ms = append(ms, hexKey(nm)+"="+v)
	}
	if r.chance(15) { // duplicate Type
		ms = append(ms, hexKey(r.pickS("Type", "type"))+"=s"+hx([]byte(r.pickS("HP", "OSAP", "nope"))))
	}
	// shuffle lightly
	if len(ms) > 1 && r.chance(50) {
		i, j := r.intn(len(ms)), r.intn(len(ms))
		ms[i], ms[j] = ms[j], ms[i]
	}
	if len(ms) == 0 {
		return "O"
	}
	return "O:" + strings.Join(ms, ";")
}

func genCfgScript(r *rng, id string, cnt counters, emit func(line, out string)) *xExec {
	hdr := fmt.Sprintf("S %s X", id)
	e := &xExec{cnt: cnt}
	e.lines = append(e.lines, hdr)
	emit(hdr, fmt.Sprintf("S %s ok", id))
	do := func(l string) { emit(l, e.step(l)) }
	for k := r.rangeIn(3, 8); k > 0; k-- {
		kind, c := genWildCfg(r)
		switch r.intn(7) {
		case 0:
			do(fmt.Sprintf("defaults %s %s", kind, c))
		case 1:
			do(fmt.Sprintf("verify %s %s", kind, c))
		case 2:
			do(fmt.Sprintf("newparser %s %s", kind, c))
		case 3:
			do(fmt.Sprintf("marshal %s %s", kind, c))
		case 4:
			do("parsejson " + genJSONDoc(r))
		case 5:
			do(fmt.Sprintf("unmarshal %s %s", kind, genJSONDoc(r)))
		case 6:
			do(fmt.Sprintf("deccfg %d %d", cfgWild[r.intn(len(cfgWild))], cfgWild[r.intn(len(cfgWild))]))
		}
	}
	emit("E", "E")
	return e
}

func genUnitScript(r *rng, id string, cnt counters, emit func(line, out string)) *xExec {
	e := &xExec{cnt: cnt}
	if r.chance(50) {
		// bitset script
		hdr := fmt.Sprintf("S %s BS", id)
		e.bs = newVerifBitset()
		e.ref = map[int]bool{}
		e.lines = append(e.lines, hdr)
		emit(hdr, fmt.Sprintf("S %s ok", id))
		do := func(l string) { emit(l, e.step(l)) }
		span := r.pick(70, 200, 1000, 5000)
		for k := r.rangeIn(3, 25); k > 0; k-- {
			switch x := r.intn(100); {
			case x < 45:
				n := r.rangeIn(1, 3)
				xs := make([]int, n)
				for i := range xs {
					xs[i] = r.pick(r.intn(span), r.intn(span), r.intn(64), 63, 64, 127, 128)
				}
				do("ins " + joinInts(xs))
			case x < 55:
				do("clear")
			case x < 75:
				do(fmt.Sprintf("before %d", r.pick(0, 1, 63, 64, 65, r.intn(span), span+70)))
			case x < 95:
				do(fmt.Sprintf("after %d", r.pick(0, 1, 62, 63, 64, r.intn(span), span+70)))
			default:
				do("slice")
			}
		}
		do("slice")
		emit("E", "E")
		return e
	}
	hdr := fmt.Sprintf("S %s X", id)
	e.lines = append(e.lines, hdr)
	emit(hdr, fmt.Sprintf("S %s ok", id))
	do := func(l string) { emit(l, e.step(l)) }
	for k := r.rangeIn(3, 10); k > 0; k-- {
		switch r.intn(5) {
		case 0, 1:
			n := r.pick(0, 1, 3, 4, 7, 8, 9, 15, 16, 17, r.rangeIn(0, 40))
			a := genData(r, n)
			b := append([]byte{}, a...)
			if r.chance(60) {
				b = append(b, genData(r, r.intn(12))...)
			}
			if len(b) > 0 && r.chance(70) {
				b[r.intn(len(b))] ^= byte(1 + r.intn(255))
			}
			if r.chance(30) {
				a, b = b, a
			}
			if r.chance(50) {
				do(fmt.Sprintf("ulcp %s %s", hx(a), hx(b)))
			} else {
				// common suffix: reverse the construction
				ra, rb := rev(a), rev(b)
				do(fmt.Sprintf("ulcs %s %s", hx(ra), hx(rb)))
			}
		case 2:
			do("ule64 " + hx(genData(r, r.rangeIn(0, 10))))
		case 3:
			do(fmt.Sprintf("uhash %d %d", r.u64(), r.rangeIn(0, 24)))
		case 4:
			do(fmt.Sprintf("xzcost %d %d", r.pick(2, 3, 9, 10, 17, 18, 273, r.rangeIn(2, 300)), r.pick(0, 1, 4, 5, 6, 1<<16, r.rangeIn(1, 1<<20), 1<<32-1)))
		}
	}
	emit("E", "E")
	return e
}

func rev(p []byte) []byte {
	q := make([]byte, len(p))
	for i := range p {
		q[len(p)-1-i] = p[i]
	}
	return q
}

// budgetText: inputs that exhaust the trsort budget and then reach a tandem repeat group
// (tuned offline: ~60%% of the inputs fail a budget check, ~0.15%% reach trPartialCopy).
func budgetText(r *rng) []byte {
	var t []byte
	nw := r.rangeIn(15, 26)
	for rep := 0; rep < 2; rep++ {
		for i := 0; i < nw; i++ {
			t = append(t, 'a', byte('b'+i%24))
		}
		t = append(t, byte('A'+rep))
	}
	// the bytes that end a run of copies are all smaller than the pattern (the tandem-repeat
	// group is completed from the left only), or some smaller and some larger (from both sides:
	// the right-hand loop of tr_partialcopy)
	both := r.chance(50)
	base := byte('x')
	if both {
		base = 'm'
	}
	groups := r.rangeIn(1, 2)
	for g := 0; g < groups; g++ {
		pl := r.rangeIn(2, 5)
		pat := make([]byte, pl)
		for i := range pat {
			pat[i] = base + byte(r.intn(3))
		}
		k := r.rangeIn(3, 7)
		copies := r.rangeIn(3, 5)
		if both {
			copies = r.rangeIn(3, 6)
		}
		for c := 0; c < copies; c++ {
			kk := k
			if both && r.chance(33) {
				kk = r.rangeIn(1, 8)
			}
			for i := 0; i < kk; i++ {
				t = append(t, pat...)
			}
			switch {
			case !both:
				t = append(t, byte('f'+c+5*g))
			case r.chance(50):
				t = append(t, byte('e'+c+5*g)) // below 'm'
			default:
				t = append(t, byte('q'+c+5*g)) // above 'o'
			}
		}
	}
	return t
}

// genBudgetScript sorts 8 budget-stress inputs; all are checked by the oracle, the first is
// also emitted for certification by the model.
func genBudgetScript(r *rng, id string, cnt counters, emit func(line, out string)) *xExec {
	hdr := fmt.Sprintf("S %s X", id)
	e := &xExec{cnt: cnt}
	e.lines = append(e.lines, hdr)
	emit(hdr, fmt.Sprintf("S %s ok", id))
	bf0, pc0 := suffix.VerifEvents[0].Load(), suffix.VerifEvents[1].Load()
	for k := 0; k < 8; k++ {
		l := "sort " + hx(budgetText(r))
		out := e.step(l)
		if k == 0 {
			emit(l, out)
		}
		if out == "hang" {
			break
		}
	}
	// (counters are global: with parallel shards they are attributed approximately)
	if suffix.VerifEvents[0].Load() > bf0 {
		cnt.inc("s.budget.fail")
	}
	if suffix.VerifEvents[1].Load() > pc0 {
		cnt.inc("s.budget.partialcopy")
	}
	emit("E", "E")
	return e
}

func xSuite(gen func(r *rng, id string, cnt counters, emit func(line, out string)) *xExec, deep []string) suiteFn {
	return func(r *rng, id string, cnt counters, emit func(line, out string)) ([]finding, bool) {
		before := map[string]int{}
		for _, k := range deep {
			before[k] = cnt[k]
		}
		e := gen(r, id, cnt, emit)
		d := false
		for _, k := range deep {
			if cnt[k] > before[k] {
				d = true
			}
		}
		return e.finds, d
	}
}

func init() {
	suites["s-suffix"] = xSuite(genSuffixScript, []string{"s.sort", "s.lcp", "s.segments.checked"})
	suites["c-config"] = xSuite(genCfgScript, []string{"c.marshal", "c.newparser.accepted", "c.json.accepted", "c.defaults"})
	suites["s-budget"] = xSuite(genBudgetScript, []string{"s.budget.fail"})
	suites["s-large"] = xSuite(genSortLarge, []string{"s.sort.large"})
	suites["u-units"] = xSuite(genUnitScript, []string{"u.ulcp", "u.ulcs", "u.bitset.clear"})
	// exhaustive: script k of shard s (8 shards) handles string number k*8+s
	suites["s-exhaustive"] = func(r *rng, id string, cnt counters, emit func(line, out string)) ([]finding, bool) {
		var s, k int
		fmt.Sscanf(id, "%d.%d", &s, &k)
		e := genSuffixExhaustive(id, k*8+s, cnt, emit)
		return e.finds, true
	}
}

// checkSALinear is the linear-time suffix array check (the Go twin of the Lean-verified
// `checkSA`): sa is a permutation of 0..n-1, first bytes are non-decreasing, and where the
// first bytes agree the ranks of the suffixes one position later are increasing.
func checkSALinear(t []byte, sa []int32) string {
	n := len(t)
	if len(sa) != n {
		return "length"
	}
	rank := make([]int32, n+1)
	for i := range rank {
		rank[i] = -2
	}
	for i, p := range sa {
		if p < 0 || int(p) >= n || rank[p] != -2 {
			return fmt.Sprintf("not a permutation at rank %d", i)
		}
		rank[p] = int32(i)
	}
	rank[n] = -1
	for i := 1; i < n; i++ {
		a, b := sa[i-1], sa[i]
		if t[a] > t[b] {
			return fmt.Sprintf("first bytes out of order at rank %d", i)
		}
		if t[a] == t[b] && rank[a+1] >= rank[b+1] {
			return fmt.Sprintf("suffixes out of order at rank %d", i)
		}
	}
	return ""
}

// genSortLarge: suffix.Sort on texts of 12 KiB … 200 KiB (large buckets of the substring sort, deep
// recursion of the rank sort), checked by the linear suffix-array check; LCP on the low-repetition
// families. Oracle only: the list-based specification of the model is far too slow at this size.
func genSortLarge(r *rng, id string, cnt counters, emit func(line, out string)) *xExec {
	e := &xExec{cnt: cnt}
	emit(fmt.Sprintf("S %s X", id), fmt.Sprintf("S %s ok", id))
	n := r.pick(r.rangeIn(12000, 40000), r.rangeIn(40000, 120000), r.rangeIn(100000, 200000), 4104*3, 8208*3)
	t := make([]byte, n)
	fam := r.intn(7)
	lowRep := false
	switch fam {
	case 0, 1: // random over a small alphabet
		al := r.rangeIn(2, 4)
		for i := range t {
			t[i] = byte('a' + r.intn(al))
		}
		lowRep = true
	case 2: // X X tail
		h := n / 2
		for i := 0; i < h; i++ {
			t[i] = byte('a' + r.intn(3))
		}
		copy(t[h:], t[:h])
		for i := 2 * h; i < n; i++ {
			t[i] = byte('a' + r.intn(3))
		}
	case 3: // period with defects
		p := r.rangeIn(3, 3000)
		for i := range t {
			if i < p {
				t[i] = byte('a' + r.intn(4))
			} else {
				t[i] = t[i-p]
			}
		}
		for k := r.intn(12); k > 0; k-- {
			t[r.intn(n)] ^= byte(1 + r.intn(3))
		}
	case 4: // long runs of two letters
		c := byte('a')
		for i := 0; i < n; {
			l := r.rangeIn(1, 600)
			for j := 0; j < l && i < n; j++ {
				t[i] = c
				i++
			}
			c ^= 3
		}
	case 5: // Fibonacci word
		a, b := []byte("a"), []byte("ab")
		for len(b) < n {
			a, b = b, append(append([]byte{}, b...), a...)
		}
		copy(t, b)
	default: // all byte values, low entropy mix
		for i := range t {
			t[i] = byte(r.intn(256) >> uint(r.intn(8)))
		}
		lowRep = true
	}
	t0 := append([]byte{}, t...)
	sa := make([]int32, n)
	func() {
		defer func() {
			if rec := recover(); rec != nil {
				e.find("C09", "Sort panics", "Sort", fmt.Sprintf("family=%d n=%d: %v", fam, n, rec))
			}
		}()
		suffix.Sort(t, sa)
		if !bytes.Equal(t, t0) {
			e.find("C09", "Sort modifies t", "Sort", "")
		}
		if why := checkSALinear(t, sa); why != "" {
			e.find("C09", "Sort result is not the suffix array", "Sort", fmt.Sprintf("family=%d n=%d seedtext=%x…: %s", fam, n, t[:min(24, n)], why))
		}
		// the first script of every shard also hands text and result to the model, whose linear
		// checker is Lean-verified (checkSALin_iff): certification of a large input by a theorem,
		// and a tie between the Go checker used for all the others and the verified one
		if strings.HasSuffix(id, ".0") && n <= 130000 {
			is := make([]int, n)
			for i, v := range sa {
				is[i] = int(v)
			}
			emit("checksalin "+hx(t)+" "+joinInts(is), "true")
			cnt.inc("s.sort.large.leanchecked")
		}
		if lowRep {
			lcp := make([]int32, n)
			for i := range lcp {
				lcp[i] = int32(-9 + i*7) // previous contents must not matter
			}
			suffix.LCP(t, sa, nil, lcp)
			if n > 0 && lcp[0] != 0 {
				e.find("C09", "LCP wrong", "LCP", fmt.Sprintf("family=%d n=%d rank=0", fam, n))
			}
			for i := 1; i < n; i += 1 + r.intn(3) {
				if int(lcp[i]) != naiveLCP(t[sa[i-1]:], t[sa[i]:]) {
					e.find("C09", "LCP wrong", "LCP", fmt.Sprintf("family=%d n=%d rank=%d", fam, n, i))
					break
				}
			}
		}
	}()
	cnt.inc("s.sort.large")
	emit("E", "E")
	return e
}
