package main

import (
	"bufio"
	"encoding/json"
	"fmt"
	"os"
	"strings"
)

// replayFile runs the scripts of a file on the implementation and prints one
// output line per input line, followed by the oracle findings as JSON lines
// prefixed with "FINDING ".
func replayFile(path string) {
	f, err := os.Open(path)
	if err != nil {
		fmt.Fprintln(os.Stderr, err)
		os.Exit(2)
	}
	defer f.Close()
	sc := bufio.NewScanner(f)
	sc.Buffer(make([]byte, 1<<20), 1<<26)
	var lines []string
	for sc.Scan() {
		l := strings.TrimSpace(sc.Text())
		if l != "" {
			lines = append(lines, l)
		}
	}
	cnt := counters{}
	var finds []finding
	for i := 0; i < len(lines); {
		l := lines[i]
		ws := strings.Fields(l)
		if ws[0] == "G" {
			fmt.Println("G")
			i++
			continue
		}
		if ws[0] != "S" {
			fmt.Println("bad-op")
			i++
			continue
		}
		j := i + 1
		for j < len(lines) && lines[j] != "E" {
			j++
		}
		outs, fs := execScript(lines[i:j], cnt)
		for _, o := range outs {
			fmt.Println(o)
		}
		fmt.Println("E")
		finds = append(finds, fs...)
		i = j + 1
	}
	for _, fd := range finds {
		b, _ := json.Marshal(fd)
		fmt.Println("FINDING " + string(b))
	}
}

// execScript executes one script (header + ops, without E) on the real code.
func execScript(lines []string, cnt counters) (outs []string, finds []finding) {
	ws := strings.Fields(lines[0])
	id, machine := ws[1], ws[2]
	switch machine {
	case "P":
		cfg := parsePcfg(ws[3], ws[4])
		e, st := newPExec(cfg, cnt)
		e.lines = append(e.lines, lines[0])
		outs = append(outs, fmt.Sprintf("S %s %s", id, st))
		for _, l := range lines[1:] {
			outs = append(outs, e.step(l))
		}
		return outs, e.finds
	default:
		if fn, ok := execByMachine[machine]; ok {
			return fn(lines, cnt)
		}
	}
	outs = append(outs, "S "+id+" bad-machine")
	for range lines[1:] {
		outs = append(outs, "skip")
	}
	return outs, nil
}

var execByMachine = map[string]func(lines []string, cnt counters) ([]string, []finding){}
