package main

import "fmt"

// sizeClasses are the Go runtime's small size classes (runtime/sizeclasses.go).
// They are sent to the model in the script header; selfTestGrow checks the
// transcription against the running toolchain's append before every run.
var sizeClasses = []int{8, 16, 24, 32, 48, 64, 80, 96, 112, 128, 144, 160, 176, 192, 208, 224, 240, 256,
	288, 320, 352, 384, 416, 448, 480, 512, 576, 640, 704, 768, 896, 1024, 1152, 1280, 1408, 1536,
	1792, 2048, 2304, 2688, 3072, 3200, 3456, 4096, 4864, 5376, 6144, 6528, 6784, 6912, 8192, 9472,
	9728, 10240, 10880, 12288, 13568, 14336, 16384, 18432, 19072, 20480, 21760, 24576, 27264, 28672, 32768}

func nextSliceCap(newLen, oldCap int) int {
	dbl := oldCap + oldCap
	if newLen > dbl {
		return newLen
	}
	if oldCap < 256 {
		return dbl
	}
	c := oldCap
	for {
		c += (c + 768) >> 2
		if c >= newLen {
			return c
		}
	}
}

func roundUp(n int) int {
	for _, c := range sizeClasses {
		if c >= n {
			return c
		}
	}
	return (n + 8191) / 8192 * 8192
}

// goGrow predicts cap after append when newLen exceeds oldCap.
func goGrow(oldCap, newLen int) int { return roundUp(nextSliceCap(newLen, oldCap)) }

func selfTestGrow() error {
	r := newRng(99)
	for k := 0; k < 3000; k++ {
		oc := r.pick(0, r.rangeIn(0, 64), r.rangeIn(0, 600), r.rangeIn(0, 5000), r.rangeIn(0, 70000))
		add := r.pick(1, r.rangeIn(1, 16), r.rangeIn(1, 300), r.rangeIn(1, 9000))
		s := make([]byte, oc, oc)
		t := append(s, make([]byte, add)...)
		if want := goGrow(oc, oc+add); cap(t) != want {
			return fmt.Errorf("append growth differs from the transcription: oldCap=%d newLen=%d cap=%d predicted=%d", oc, oc+add, cap(t), want)
		}
	}
	return nil
}
