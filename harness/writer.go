package main

import "fmt"

type writerErr int

func (e writerErr) Error() string { return fmt.Sprintf("writer error %d", int(e)) }

// scriptWriter is an io.Writer following a list of responses (max bytes
// accepted, error code); once the responses are used up it accepts everything.
type scriptWriter struct {
	resps []resp
	got   []byte // everything accepted
	calls int
}

func (w *scriptWriter) Write(p []byte) (int, error) {
	w.calls++
	if len(w.resps) == 0 {
		w.got = append(w.got, p...)
		return len(p), nil
	}
	rs := w.resps[0]
	w.resps = w.resps[1:]
	k := rs.max
	if k > len(p) {
		k = len(p)
	}
	w.got = append(w.got, p[:k]...)
	if rs.err != 0 {
		return k, writerErr(rs.err)
	}
	return k, nil
}
