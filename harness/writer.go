package main

import (
	"fmt"
	"io"

	"github.com/ulikunitz/lz"
)

type writerErr int

func (e writerErr) Error() string { return fmt.Sprintf("writer error %d", int(e)) }

// scriptWriter is an io.Writer following a list of responses (max bytes
// accepted, error code); once the responses are used up it accepts everything.
type scriptWriter struct {
	resps []resp
	got   []byte // everything accepted
	calls int
	// no-progress accounting for the C06 oracle: consecutive calls that were
	// offered data and accepted nothing, and the longest such streak since
	// the last resetStreak (one decoder operation).
	idle, maxIdle int
	// the error of the most recent call that failed, and its code (sentinel errors of the
	// library itself have codes 7, 8, 9: a Decoder may write into a Parser or a bounded buffer)
	lastErr  error
	lastCode int
}

// errOfWriterCode maps a response code to the error the writer returns.
func errOfWriterCode(c int) error {
	switch c {
	case 7:
		return lz.ErrFullBuffer
	case 8:
		return io.ErrShortWrite
	case 9:
		return io.EOF
	}
	return writerErr(c)
}

func (w *scriptWriter) resetStreak() { w.idle, w.maxIdle = 0, 0; w.lastErr, w.lastCode = nil, 0 }

func (w *scriptWriter) Write(p []byte) (n int, err error) {
	w.calls++
	defer func() {
		if len(p) > 0 && n == 0 {
			w.idle++
			if w.idle > w.maxIdle {
				w.maxIdle = w.idle
			}
		} else {
			w.idle = 0
		}
	}()
	if len(w.resps) == 0 {
		w.got = append(w.got, p...)
		return len(p), nil
	}
	rs := w.resps[0]
	w.resps = w.resps[1:]
	k := rs.max
	if k > len(p) {
		k = len(p)
	}
	w.got = append(w.got, p[:k]...)
	if rs.err != 0 {
		w.lastErr, w.lastCode = errOfWriterCode(rs.err), rs.err
		return k, w.lastErr
	}
	return k, nil
}
