#!/usr/bin/env bash
# Robustness self-test: behaviour-preserving ("harmless") rewrites of the Go source must not
# change the regenerated constants and must not break the proofs about the regenerated code.
#
# For every patch in harmlessA1/, harmlessA2/, harmlessA4/ (given) and tools/harmless/ (written here):
#   1. apply it to a scratch copy of /repo,
#   2. regenerate Facts.lean and the Code*.lean topic modules into a SCRATCH COPY of the lake
#      project (the real tree is never touched),
#   3. (a) the named constants of Facts.lean must be textually unchanged (this includes the
#          derivation comment, so a silent positional fallback is detected as well),
#      (b) `lake build LzProofs.FactsProps` and every proof module about generated code
#          (GenProps<Topic>, GenBufPropsP, GenBufPropsD) must build — except
#          the modules of topics the translator refuses; the set of refused topics has to be
#          exactly the expected one (table below), and the set of failing GenProps modules has
#          to be exactly what follows from it.
# Then three sanity sections:
#   - behaviour-CHANGING edits must change the derived constants (the derivation is not blind),
#   - an uninterpretable construct must produce the documented positional fallback,
#   - tools/gen_selftest.sh and tools/genbuf_selftest.sh: all real mutants are still killed
#     (skip with SKIP_MUTANTS=1).
#
# usage: tools/harmless_selftest.sh        exit status 0 iff everything is as expected
#        FULL=1 …                          additionally run a complete `lake build` per clean patch
set -u
export GOFLAGS=-mod=mod GOPROXY=off GOSUMDB=off GOTOOLCHAIN=local

HERE="$(cd "$(dirname "$0")/.." && pwd)"
REPO="${REPO:-/repo}"
SCRATCH="$(mktemp -d /tmp/pf-harmless.XXXXXX)"
trap 'rm -rf "$SCRATCH"' EXIT
EXTRACT="$SCRATCH/extract"
LEAN="$SCRATCH/lean"
GEN="$LEAN/LzModel/Generated"
bad=0

(cd "$HERE/tools/extract" && go build -o "$EXTRACT" .) || { echo "cannot build the extractor"; exit 1; }
mkdir -p "$LEAN"
cp -a "$HERE/lean/." "$LEAN"/

# patch ↦ topics the translator is expected to refuse (everything else: none)
expected_refused() {
  case "$(basename "$(dirname "$1")")/$(basename "$1")" in
    A1/patch3.diff)        echo "CfgBDHP CfgDHP" ;;   # hasDHVals extracted from dhCfg/setDHCfg (reflection idiom)
    harmless/h12_refl_helper.diff) echo "CfgBUP" ;;           # hasBucketVals extracted from bucketCfg/setBucketCfg (reflection idiom)
    # harmless/h15_local_const.diff: local const declarations are substituted by tools/extract/code_desugar.go
    # since the robustness round (notes/robust.md) — nothing is refused any more
    *)                     echo "" ;;
  esac
}

# patch ↦ proof modules that are KNOWN to break although the translation succeeds (documented in
# NOTES.md as remaining weaknesses; listed here so that the script notices when that changes)
expected_broken() {
  case "$(basename "$(dirname "$1")")/$(basename "$1")" in
    A2/patch3.diff) echo "DBufCopy" ;;   # copy loop of WriteMatch/WriteBlock extracted into appendMatch: translated
                                                  # (helper followed automatically), but D08/D09 are proved along the loop functions
    *)                      echo "" ;;
  esac
}

ALL_PROPS="Ints Hash Cost Len CfgBuf CfgHash CfgBucket CfgHP CfgBHP CfgDHP CfgBDHP CfgBUP CfgGSAP CfgOSAP CfgAll Dec PBuf DBuf DBufCopy"

# proof module of a topic (the names used in this script are the topic names of the extractor,
# plus CfgAll = G19, which needs all seven parser configurations)
module_of() {
  case "$1" in
    PBuf) echo "LzProofs.GenBufPropsP" ;;
    DBuf) echo "LzProofs.GenBufPropsD" ;;
    DBufCopy) echo "LzProofs.GenBufPropsDCopy" ;;
    *)    echo "LzProofs.GenProps$1" ;;
  esac
}

# imports among the proof modules (besides GenPropsBase / GenBufPropsBase, which never fail)
props_deps() {
  case "$1" in
    CfgHP|CfgBHP|CfgDHP|CfgBDHP) echo "CfgBuf CfgHash" ;;
    CfgBUP)                      echo "CfgBuf CfgBucket" ;;
    CfgGSAP|CfgOSAP)             echo "CfgBuf" ;;
    CfgAll)                      echo "CfgHP CfgBHP CfgDHP CfgBDHP CfgBUP CfgGSAP CfgOSAP" ;;
    PBuf)                        echo "CfgBuf" ;;
    DBuf)                        echo "Dec Ints" ;;
    DBufCopy)                    echo "DBuf" ;;
  esac
}

# proof modules that cannot build when the given topics are refused: the module of the
# topic itself and everything that imports it (transitively)
expected_failing() {
  local failing=" $* " changed=1 m d out=""
  while [ $changed -eq 1 ]; do
    changed=0
    for m in $ALL_PROPS; do
      case "$failing" in *" $m "*) continue ;; esac
      for d in $(props_deps "$m"); do
        case "$failing" in *" $d "*) failing="$failing$m "; changed=1; break ;; esac
      done
    done
  done
  for m in $ALL_PROPS; do case "$failing" in *" $m "*) out="$out $m" ;; esac; done
  echo $out
}

consts() { grep -E '^def [A-Za-z][A-Za-z0-9]* : (Int|Nat|String) :=' "$1" | grep -vE '^def [LS]_'; }

copy_repo() {
  mkdir -p "$1"
  cp "$REPO"/*.go "$REPO"/go.mod "$1"/
  [ -f "$REPO/go.sum" ] && cp "$REPO/go.sum" "$1"/
  cp -r "$REPO/suffix" "$1/suffix"
}

# regen <repo dir> <stderr file>: regenerate into the scratch lake project; echoes the exit status
regen() {
  "$EXTRACT" -repo "$1" -out "$GEN/Facts.lean" -code "$GEN/Code.lean" 2>"$2"
  echo $?
}
refused_of() { grep -o 'topic [A-Za-z0-9]* REFUSED' "$1" | awk '{print $2}' | sort | tr '\n' ' ' | sed 's/ $//'; }

# build_props: builds FactsProps and every GenProps module; echoes the failing ones
build_props() {
  local log="$1" failing="" m
  : >"$log"
  (cd "$LEAN" && lake build LzProofs.FactsProps) >>"$log" 2>&1 || failing="$failing FactsProps"
  for m in $ALL_PROPS; do
    (cd "$LEAN" && lake build "$(module_of "$m")") >>"$log" 2>&1 || failing="$failing $m"
  done
  echo $failing
}

# failing theorem names (file:theorem) from a build log
failing_theorems() {
  grep -o 'error: LzProofs/[A-Za-z]*\.lean:[0-9]*' "$1" | sed 's/error: //' | sort -u | while IFS=: read -r f ln; do
    awk -v L="$ln" -v F="$(basename "$f" .lean)" 'NR<=L && /^theorem /{name=$2} END{print F ":" name}' "$LEAN/$f"
  done | sort -u | tr '\n' ' '
}

echo "== baseline ($REPO)"
rc=$(regen "$REPO" "$SCRATCH/base.err")
[ "$rc" = 0 ] || { echo "baseline: extractor exit status $rc"; cat "$SCRATCH/base.err"; exit 1; }
cmp -s "$GEN/Facts.lean" "$HERE/lean/LzModel/Generated/Facts.lean" || { echo "baseline: Facts.lean of the tree is not what the extractor generates from $REPO"; bad=$((bad+1)); }
consts "$GEN/Facts.lean" >"$SCRATCH/base.consts"
if grep -q -e '-- positional fallback:' "$GEN/Facts.lean"; then echo "baseline: unexpected positional fallback"; bad=$((bad+1)); fi
f=$(build_props "$SCRATCH/base.log")
[ -z "$f" ] || { echo "baseline build FAILED: $f"; tail -30 "$SCRATCH/base.log"; exit 1; }
echo "   ok: $(wc -l <"$SCRATCH/base.consts") named constants, FactsProps and all GenProps modules build"

echo "== harmless patches"
n=0
for p in "$HERE"/tools/harmless/A1/patch*.diff "$HERE"/tools/harmless/A2/patch*.diff "$HERE"/tools/harmless/A4/patch*.diff "$HERE"/tools/harmless/*.diff; do
  [ -f "$p" ] || continue
  n=$((n+1))
  name="$(basename "$(dirname "$p")")/$(basename "$p")"
  dir="$SCRATCH/p$n"
  copy_repo "$dir"
  if ! (cd "$dir" && patch -p1 -s <"$p") >"$dir.patch.log" 2>&1; then
    echo "FAIL  $name: patch does not apply"; cat "$dir.patch.log"; bad=$((bad+1)); continue
  fi
  rc=$(regen "$dir" "$dir.err")
  refused="$(refused_of "$dir.err")"
  want="$(expected_refused "$p")"
  status=ok
  msg=""
  case "$rc" in
    0) [ -z "$refused" ] || status=FAIL ;;
    3) [ -n "$refused" ] || status=FAIL ;;
    *) status=FAIL; msg="$msg extractor exit status $rc: $(head -3 "$dir.err");" ;;
  esac
  if [ "$refused" != "$want" ]; then status=FAIL; msg="$msg refused topics [$refused], expected [$want];"; fi
  # (a) constants
  consts "$GEN/Facts.lean" >"$dir.consts"
  if ! cmp -s "$SCRATCH/base.consts" "$dir.consts"; then
    status=FAIL; msg="$msg named constants CHANGED: $(diff "$SCRATCH/base.consts" "$dir.consts" | grep '^[<>]' | head -6 | tr '\n' ' ');"
  fi
  # (b) builds
  failing="$(build_props "$dir.log")"
  broken="$(expected_broken "$p")"
  wantfail="$(expected_failing $want $broken)"
  if [ "$failing" != "$wantfail" ]; then
    status=FAIL; msg="$msg failing modules [$failing], expected [$wantfail]; failing theorems: $(failing_theorems "$dir.log");"
  fi
  if [ "$status" = ok ] && [ -z "$want$broken" ] && [ "${FULL:-0}" = 1 ]; then
    (cd "$LEAN" && lake build) >"$dir.full.log" 2>&1 || { status=FAIL; msg="$msg full lake build failed;"; }
  fi
  if [ "$status" = ok ]; then
    if [ -n "$broken" ]; then
      echo "ok*   $name: constants unchanged; nothing refused; KNOWN proof breakage [$failing] (see NOTES.md), the other proof modules and FactsProps build"
    elif [ -z "$want" ]; then
      echo "ok    $name: constants unchanged; FactsProps + all 19 proof modules build"
    else
      echo "ok    $name: constants unchanged; refused topics [$refused] as expected; only [$failing] fail, the other GenProps modules and FactsProps build"
      sed 's/^/        /' "$dir.err" | grep -v '^ *$' | head -8
    fi
  else
    echo "FAIL  $name:$msg"; bad=$((bad+1))
    cp "$dir.log" "/tmp/pf-harmless-last-$(basename "$p").log" 2>/dev/null
  fi
  rm -rf "$dir"
done

# ---- the derivation is not blind: behaviour-changing edits change the constants
echo "== behaviour-changing edits change the derived constants"
# change <name> <file> <perl program> <constant> <expected value>
change() {
  local name="$1" file="$2" prog="$3" cst="$4" val="$5"
  local dir="$SCRATCH/c"
  rm -rf "$dir"; copy_repo "$dir"
  perl -0pi -e "$prog" "$dir/$file"
  if cmp -s "$dir/$file" "$REPO/$file"; then echo "FAIL  $name: the edit did not apply"; bad=$((bad+1)); return; fi
  "$EXTRACT" -repo "$dir" -out "$dir/Facts.lean" 2>"$dir.err" || { echo "FAIL  $name: extractor failed: $(cat "$dir.err")"; bad=$((bad+1)); return; }
  local got
  got="$(grep -E "^def $cst : [A-Za-z]* := " "$dir/Facts.lean" | sed -E 's/^def [A-Za-z0-9]* : [A-Za-z]* := ([^ ]*).*/\1/')"
  local others
  others="$(diff <(consts "$dir/Facts.lean" | grep -v "^def $cst ") <(grep -v "^def $cst " "$SCRATCH/base.consts") | grep -c '^[<>]')"
  if [ "$got" = "$val" ] && [ "$others" = 0 ]; then echo "ok    $name: $cst = $got, all other constants unchanged"
  else echo "FAIL  $name: $cst = $got (expected $val), $others other lines differ"; bad=$((bad+1)); fi
}
change "BufConfig.SetDefaults: 64*kiB -> 32*kiB"        lz.go 's/64\*kiB/32*kiB/'                          shrinkSmallLimit 32768
change "BufConfig.SetDefaults: < 64*kiB -> <= 65535 (same behaviour, no literal 65536)" lz.go 's/cfg\.BufferSize < 64\*kiB/cfg.BufferSize <= 65535/' shrinkSmallLimit 65536
change "BufConfig.SetDefaults: 32*kiB -> 16*kiB"        lz.go 's/cfg\.ShrinkSize = 32 \* kiB/cfg.ShrinkSize = 16 * kiB/' defShrinkSize 16384
change "hashConfig.Verify: InputLen <= 8 -> <= 7"       hash.go 's/(func \(cfg \*hashConfig\) Verify.*?)cfg\.InputLen <= 8/${1}cfg.InputLen <= 7/s' maxInputLen 7
change "hashConfig.Verify: maxHashBits 24 -> 25"        hash.go 's/(func \(cfg \*hashConfig\) Verify.*?)maxHashBits := 24/${1}maxHashBits := 25/s' maxHashBits 25
change "dhConfig.SetDefaults: H1.InputLen < 5 -> <= 5"  hash.go 's/cfg\.H1\.InputLen < 5/cfg.H1.InputLen <= 5/'  dhSmallInputLen 6
change "bucketConfig.Verify: BucketSize <= 128 -> < 128" bucket_hash.go 's/cfg\.BucketSize <= 128/cfg.BucketSize < 128/' maxBucketSize 127
change "bucketConfig.Verify: BucketSize <= 128 -> <= 70000 (beyond the linear scan)" bucket_hash.go 's/cfg\.BucketSize <= 128/cfg.BucketSize <= 70000/' maxBucketSize 70000
change "DecoderConfig.SetDefaults: 2*WindowSize -> WindowSize<<2" decoder_buffer.go 's/2 \* cfg\.WindowSize/cfg.WindowSize << 2/' decBufFactor 4
change "ParserBuffer: margin 7 -> 8 in Reset, grow, Write, ReadFrom" parser_buffer.go 's/(\+ ?|- )7\b/${1}8/g' margin 8
change "ParserBuffer.grow: minimum allocation 1024 -> 2048" parser_buffer.go 's/c < 1024 \{\n\t\tc = 1024/c < 2048 {\n\t\tc = 2048/' growMin 2048
change "OSAPConfig.SetDefaults: Cost default renamed"   osap.go 's/cfg\.Cost = "XZCost"/cfg.Cost = "xz"/'         defCost '"xz"'

# ---- documented fallback
echo "== positional fallback when the interpreter cannot run a function"
dir="$SCRATCH/fb"; copy_repo "$dir"
perl -0pi -e 's/(func \(cfg \*hashConfig\) SetDefaults\(\) \{\n)/${1}\tdefer func() {}()\n/' "$dir/hash.go"
"$EXTRACT" -repo "$dir" -out "$dir/Facts.lean" 2>"$dir.err"
fb="$(grep -c -e '-- positional fallback:' "$dir/Facts.lean")"
if [ "$fb" -ge 2 ] && grep -q '^def defInputLen : Int := 3  -- positional fallback' "$dir/Facts.lean" \
   && grep -q 'L_hashConfig_SetDefaults.length == 4' "$dir/Facts.lean" \
   && [ "$(consts "$dir/Facts.lean" | sed 's/  --.*//' | diff - <(sed 's/  --.*//' "$SCRATCH/base.consts") | grep -c '^[<>]')" = 0 ]; then
  echo "ok    defer in hashConfig.SetDefaults: $fb constants fall back to the position (same values), shapeOK guards the list length:"
  grep -e '-- positional fallback:' "$dir/Facts.lean" | sed 's/^/        /' | cut -c1-170
  cp "$dir/Facts.lean" "$GEN/Facts.lean"
  (cd "$LEAN" && lake build LzProofs.FactsProps) >"$dir.log" 2>&1 && echo "ok    FactsProps builds with the fallback Facts.lean" || { echo "FAIL  FactsProps with fallback"; bad=$((bad+1)); }
else
  echo "FAIL  fallback not as documented"; grep -n 'defInputLen\|defHashBits\|shapeOK' -A3 "$dir/Facts.lean" | head -20; bad=$((bad+1))
fi

dir="$SCRATCH/fb2"; copy_repo "$dir"
perl -0pi -e 's/margin := len\(data\) \+ 7/margin := len(data) + 9/' "$dir/parser_buffer.go"
"$EXTRACT" -repo "$dir" -out "$dir/Facts.lean" 2>"$dir.err"
if grep -q '^def margin : Nat := 7  -- positional fallback: Reset allocates' "$dir/Facts.lean" || grep -q '^def margin : Nat := 7  -- positional fallback: grow' "$dir/Facts.lean"; then
  echo "ok    Reset with a different margin than grow/Write (behaviour CHANGED, margins inconsistent): margin falls back to the position,"
  echo "      and shapeOK now checks the literal lists of grow/Write/Reset — which fails for this edit, as it should:"
  grep -e '-- positional fallback:' "$dir/Facts.lean" | sed 's/^/        /' | cut -c1-170
  cp "$dir/Facts.lean" "$GEN/Facts.lean"
  if (cd "$LEAN" && lake build LzProofs.FactsProps) >"$dir.log" 2>&1; then echo "FAIL  FactsProps builds although the margins differ"; bad=$((bad+1)); else echo "ok    FactsProps fails at: $(failing_theorems "$dir.log")"; fi
else
  echo "FAIL  inconsistent margins not detected"; grep -n '^def margin' "$dir/Facts.lean"; bad=$((bad+1))
fi

# ---- the real mutants
if [ "${SKIP_MUTANTS:-0}" != 1 ]; then
  echo "== tools/gen_selftest.sh (on the scratch copy of the lake project)"
  rc=$(regen "$REPO" "$SCRATCH/restore.err")
  LEAN_DIR="$LEAN" "$HERE/tools/gen_selftest.sh" 2>&1 | tee "$SCRATCH/mutants.log" | grep -E '^(==|SURVIVED|MUTANT|   )'
  grep -q '^== summary: .* 0 survived' "$SCRATCH/mutants.log" || { echo "FAIL  gen_selftest.sh"; bad=$((bad+1)); }
  echo "== tools/genbuf_selftest.sh (on the scratch copy of the lake project)"
  LEAN_DIR="$LEAN" "$HERE/tools/genbuf_selftest.sh" 2>&1 | tee "$SCRATCH/mutants2.log" | grep -E '^(==|SURVIVED|MUTANT|KILLED\?|   )'
  grep -q '^== summary: .* 0 survived' "$SCRATCH/mutants2.log" || { echo "FAIL  genbuf_selftest.sh"; bad=$((bad+1)); }
fi

echo "== harmless_selftest: $n patches, $bad problem(s)"
[ "$bad" -eq 0 ]
