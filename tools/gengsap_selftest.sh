#!/usr/bin/env bash
# Mutation self-test of the eighth part of the translator (tools/extract/code_opq.go: opaque state-passing callees):
#   topic GSAPParse     gsap.go (*gsap).sort, (*gsap).Parse              proofs LzProofs/GenGSAPLemmas.lean, GenGSAPLoop.lean, GenGSAPParse.lean
#   topic GSAPInit      gsap.go (*gsap).init, Reset, Shrink              proofs LzProofs/GenGSAPInit.lean
#
# For every mutant: copy the repository to a fresh directory under /tmp, apply one small semantic
# change, regenerate LzModel/Generated/Code*.lean from the copy into a COPY of the lake
# project, and build LzProofs.GenGSAPParse LzProofs.GenGSAPInit there.
#   kind proof    : the build must FAIL (the failing theorems are listed)
#   kind extract  : the extractor must refuse a topic (exit status 3)
#   kind harmless : a behaviour-preserving rewrite — extractor and build must still succeed
# The working tree (<verif>/lean) is never touched; scratch-repo and the copy are removed.
#
# usage: ./gengsap_selftest.sh     (ONLY=<regex> restricts the run to the mutants whose name matches)
#        ./gengsap_selftest.sh     exit status 0 iff every mutant behaves as expected
set -u
export GOFLAGS=-mod=mod GOPROXY=off GOSUMDB=off GOTOOLCHAIN=local

HERE="$(cd "$(dirname "$0")/.." && pwd)"
REPO="${REPO:-/repo}"
SCRATCH="$(mktemp -d /tmp/pf-gengsap-selftest.XXXXXX)"
LEAN="$SCRATCH/lean"
GEN="$LEAN/LzModel/Generated"
MUT="$(mktemp -d /tmp/pf-mutrepo.XXXXXX)/scratch-repo"   # scratch copies of the library live outside /verif and /repo
EXTRACT="$SCRATCH/extract"
TARGETS="${TARGETS:-LzProofs.GenGSAPParse LzProofs.GenGSAPInit}"
bad=0; good=0; total=0

cleanup() { rm -rf "$SCRATCH" "$MUT"; }
trap cleanup EXIT

cp -r "$HERE/lean" "$LEAN"
(cd "$HERE/tools/extract" && go build -o "$EXTRACT" .) || { echo "cannot build the extractor"; exit 1; }

failing_theorems() {
  grep -o 'error: LzProofs/Gen[A-Za-z]*\.lean:[0-9]*' "$1" | sed 's/error: //' | sort -u | while IFS=: read -r f ln; do
    awk -v L="$ln" -v F="$(basename "$f" .lean)" 'NR<=L && /^theorem /{name=$2} END{if (name=="") name="(import)"; print F ":" name}' "$LEAN/$f"
  done | sort -u | tr '\n' ' '
}
build() { (cd "$LEAN" && lake build $TARGETS) >"$1" 2>&1; }

# mutant <name> <kind> <file> <perl program>
mutant() {
  local name="$1" kind="$2" file="$3" prog="$4"
  if [ -n "${ONLY:-}" ] && ! printf '%s' "$name" | grep -q -- "$ONLY"; then return; fi
  total=$((total+1))
  rm -rf "$MUT"; cp -r "$REPO" "$MUT"; rm -rf "$MUT/.git"
  perl -0pi -e "$prog" "$MUT/$file"
  if cmp -s "$MUT/$file" "$REPO/$file"; then
    echo "ERROR    $name: the mutation did not apply to $file"; bad=$((bad+1)); return
  fi
  (cd "$MUT" && go build ./... >/dev/null 2>"$SCRATCH/gobuild.err") || {
    echo "ERROR    $name: the mutated repository does not compile: $(head -2 "$SCRATCH/gobuild.err" | tr '\n' ' ')"; bad=$((bad+1)); return; }
  "$EXTRACT" -repo "$MUT" -out "$SCRATCH/facts.lean" -code "$GEN/Code.lean" 2>"$SCRATCH/extract.err"
  local rc=$?
  local refused
  refused="$(grep -o 'topic [A-Za-z0-9]* REFUSED' "$SCRATCH/extract.err" | awk '{print $2}' | tr '\n' ' ' | sed 's/ $//')"
  case "$kind" in
  extract)
    if [ $rc -eq 3 ] && [ -n "$refused" ]; then
      echo "REFUSED  $name  [topics: $refused — $(grep -v REFUSED "$SCRATCH/extract.err" | head -1 | sed 's/^ *//')]"; good=$((good+1))
    else
      echo "ACCEPTED $name: the extractor accepted a construct it must refuse (status $rc)"; bad=$((bad+1))
    fi ;;
  proof)
    if [ $rc -ne 0 ]; then
      echo "ERROR    $name: extractor status $rc: $(head -3 "$SCRATCH/extract.err" | tr '\n' ' ')"; bad=$((bad+1))
    elif build "$SCRATCH/build.log"; then
      echo "SURVIVED $name: the proof modules still build"; bad=$((bad+1))
    else
      echo "KILLED   $name  [failing: $(failing_theorems "$SCRATCH/build.log")]"; good=$((good+1))
    fi ;;
  harmless)
    if [ $rc -ne 0 ]; then
      echo "BROKEN   $name: extractor status $rc: $(head -3 "$SCRATCH/extract.err" | tr '\n' ' ')"; bad=$((bad+1))
    elif build "$SCRATCH/build.log"; then
      echo "HARMLESS $name  [still builds]"; good=$((good+1))
    else
      echo "BROKEN   $name: a harmless rewrite breaks [$(failing_theorems "$SCRATCH/build.log")]"; bad=$((bad+1))
    fi ;;
  esac
}

echo "== baseline: code generated from $REPO, the proof modules build"
"$EXTRACT" -repo "$REPO" -out "$SCRATCH/facts.lean" -code "$GEN/Code.lean" || { echo "extractor failed on $REPO"; exit 1; }
diff -r "$GEN" "$HERE/lean/LzModel/Generated" >/dev/null || echo "   note: the Generated directory of the working tree is not up to date with $REPO"
build "$SCRATCH/base.log" || { echo "baseline build FAILED"; grep -A8 '^error' "$SCRATCH/base.log" | head -40; exit 1; }
echo "   ok"

echo "== mutants"
# --- gsap.go: (*gsap).sort
mutant "sort: the rank of position W is inserted as well (i <= s.W)"   proof gsap.go 's/for i := 0; i < s\.W; i\+\+ \{/for i := 0; i <= s.W; i++ {/'
mutant "sort: the bitset is not cleared"                               proof gsap.go 's/(func \(s \*gsap\) sort\(\).*?)\ts\.bits\.clear\(\)\n/${1}/s'
mutant "sort: inverse suffix array off by one (isa[j] = int32(i) + 1)" proof gsap.go 's/s\.isa\[j\] = int32\(i\)/s.isa[j] = int32(i) + 1/'
mutant "sort: sa not resized when the capacity suffices (s.sa[:n-1])"  proof gsap.go 's/s\.sa = s\.sa\[:n\]/s.sa = s.sa[:n-1]/'
# --- gsap.go: (*gsap).Parse
mutant "parse: on a tie the SMALLER position wins (f2 < f)"            proof gsap.go 's/\(m2 == m && f2 > f\)/(m2 == m \&\& f2 < f)/'
mutant "parse: window test o <= WindowSize"                            proof gsap.go 's/0 < o && o < s\.WindowSize/0 < o \&\& o <= s.WindowSize/'
mutant "parse: f2 read one rank below k2 (s.sa[k2-1])"                 proof gsap.go 's/f2 := int\(s\.sa\[k2\]\)/f2 := int(s.sa[k2-1])/'
mutant "parse: the suffix array is kept after a truncated block"       proof gsap.go 's/\t\t\ts\.sa = s\.sa\[:0\]\n(\t\t\}\n\t\ti = litIndex)/\t\t\ts.sa = s.sa[:len(s.sa)]\n${1}/'
mutant "parse: literals start at 0 (litIndex := 0)"                    proof gsap.go 's/\tlitIndex := i\n/\tlitIndex := 0\n/'
mutant "parse: the rank loop after a match runs one position too far (i <= litIndex)" proof gsap.go 's/for i\+\+; i < litIndex; i\+\+ \{/for i++; i <= litIndex; i++ {/'
mutant "parse: memberBefore asked for j+1 (finds the position itself)" proof gsap.go 's/s\.bits\.memberBefore\(j\)/s.bits.memberBefore(j + 1)/'
mutant "parse: the position is inserted AFTER the two queries"         proof gsap.go 's/\t\ts\.bits\.insert\(j\)\n(\t\tk1, ok1 := s\.bits\.memberBefore\(j\)\n\t\tk2, ok2 := s\.bits\.memberAfter\(j\)\n)/${1}\t\ts.bits.insert(j)\n/'
# --- gsap.go: Reset / Shrink / init
mutant "reset: isa not truncated"                                      proof gsap.go 's/(func \(s \*gsap\) Reset.*?)\ts\.isa = s\.isa\[:0\]\n/${1}\ts.isa = s.isa[:len(s.isa)]\n/s'
mutant "shrink: the dictionary is dropped only for delta > 1"          proof gsap.go 's/if delta > 0 \{/if delta > 1 {/'
# --- behaviour-preserving rewrites
mutant "harmless: block size clamp written with >="                    harmless gsap.go 's/(func \(s \*gsap\) Parse.*?)\tif n > s\.BlockSize \{/${1}\tif n >= s.BlockSize {/s'
mutant "harmless: window test written o <= 0 || o >= WindowSize"       harmless gsap.go 's/if !\(0 < o && o < s\.WindowSize\) \{/if o <= 0 || o >= s.WindowSize {/'
mutant "harmless: tie rule written m < m2 || (m == m2 && f < f2)"      harmless gsap.go 's/if m2 > m \|\| \(m2 == m && f2 > f\) \{/if m < m2 || (m == m2 \&\& f < f2) {/'
mutant "harmless: sort loop guard written s.W > i"                     harmless gsap.go 's/for i := 0; i < s\.W; i\+\+ \{/for i := 0; s.W > i; i++ {/'

echo "== summary: $good of $total mutants behaved as expected, $bad did not"
[ $bad -eq 0 ]
