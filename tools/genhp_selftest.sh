#!/usr/bin/env bash
# Mutation self-test of the translation of the parser loop (tools/extract/code_parse.go, topic HPParse:
# hp.go (*hashParser).Parse with hash.go processSegment and the loads of bytes.go) and of
# LzProofs/GenHPParse.lean (gen_hp_parse: translated Parse = ProbeW.parseW) with its lemma files.
#
# For every mutant: copy the repository to a fresh directory under /tmp, apply one small semantic
# change, regenerate LzModel/Generated/Code*.lean from the copy into a COPY of the lake
# project, and build LzProofs.GenHPParse there.
#   kind proof    : the build must FAIL (the failing theorems are listed)
#   kind extract  : the extractor must refuse a topic (exit status 3)
#   kind harmless : a behaviour-preserving rewrite — extractor and build must still succeed
# The working tree (<verif>/lean) is never touched; scratch-repo and the copy are removed.
#
# usage: ./genhp_selftest.sh     (ONLY=<regex> restricts the run to the mutants whose name matches)
#        ./genhp_selftest.sh     exit status 0 iff every mutant behaves as expected
set -u
export GOFLAGS=-mod=mod GOPROXY=off GOSUMDB=off GOTOOLCHAIN=local

HERE="$(cd "$(dirname "$0")/.." && pwd)"
REPO="${REPO:-/repo}"
SCRATCH="$(mktemp -d /tmp/pf-genhp-selftest.XXXXXX)"
LEAN="$SCRATCH/lean"
GEN="$LEAN/LzModel/Generated"
MUT="$(mktemp -d /tmp/pf-mutrepo.XXXXXX)/scratch-repo"   # scratch copies of the library live outside /verif and /repo
EXTRACT="$SCRATCH/extract"
TARGETS="${TARGETS:-LzProofs.GenHPParse}"
bad=0; good=0; total=0

cleanup() { rm -rf "$SCRATCH" "$MUT"; }
trap cleanup EXIT

cp -r "$HERE/lean" "$LEAN"
(cd "$HERE/tools/extract" && go build -o "$EXTRACT" .) || { echo "cannot build the extractor"; exit 1; }

failing_theorems() {
  grep -o 'error: LzProofs/Gen[A-Za-z]*\.lean:[0-9]*' "$1" | sed 's/error: //' | sort -u | while IFS=: read -r f ln; do
    awk -v L="$ln" -v F="$(basename "$f" .lean)" 'NR<=L && /^theorem /{name=$2} END{if (name=="") name="(import)"; print F ":" name}' "$LEAN/$f"
  done | sort -u | tr '\n' ' '
}
build() { (cd "$LEAN" && lake build $TARGETS) >"$1" 2>&1; }

# mutant <name> <kind> <file> <perl program>
mutant() {
  local name="$1" kind="$2" file="$3" prog="$4"
  if [ -n "${ONLY:-}" ] && ! printf '%s' "$name" | grep -q -- "$ONLY"; then return; fi
  total=$((total+1))
  rm -rf "$MUT"; cp -r "$REPO" "$MUT"; rm -rf "$MUT/.git"
  perl -0pi -e "$prog" "$MUT/$file"
  if cmp -s "$MUT/$file" "$REPO/$file"; then
    echo "ERROR    $name: the mutation did not apply to $file"; bad=$((bad+1)); return
  fi
  (cd "$MUT" && go build ./... >/dev/null 2>"$SCRATCH/gobuild.err") || {
    echo "ERROR    $name: the mutated repository does not compile: $(head -2 "$SCRATCH/gobuild.err" | tr '\n' ' ')"; bad=$((bad+1)); return; }
  "$EXTRACT" -repo "$MUT" -out "$SCRATCH/facts.lean" -code "$GEN/Code.lean" 2>"$SCRATCH/extract.err"
  local rc=$?
  local refused
  refused="$(grep -o 'topic [A-Za-z0-9]* REFUSED' "$SCRATCH/extract.err" | awk '{print $2}' | tr '\n' ' ' | sed 's/ $//')"
  case "$kind" in
  extract)
    if [ $rc -eq 3 ] && [ -n "$refused" ]; then
      echo "REFUSED  $name  [topics: $refused — $(grep -v REFUSED "$SCRATCH/extract.err" | head -1 | sed 's/^ *//')]"; good=$((good+1))
    else
      echo "ACCEPTED $name: the extractor accepted a construct it must refuse (status $rc)"; bad=$((bad+1))
    fi ;;
  proof)
    if [ $rc -ne 0 ]; then
      echo "ERROR    $name: extractor status $rc: $(head -3 "$SCRATCH/extract.err" | tr '\n' ' ')"; bad=$((bad+1))
    elif build "$SCRATCH/build.log"; then
      echo "SURVIVED $name: the proof modules still build"; bad=$((bad+1))
    else
      echo "KILLED   $name  [failing: $(failing_theorems "$SCRATCH/build.log")]"; good=$((good+1))
    fi ;;
  harmless)
    if [ $rc -ne 0 ]; then
      echo "BROKEN   $name: extractor status $rc: $(head -3 "$SCRATCH/extract.err" | tr '\n' ' ')"; bad=$((bad+1))
    elif build "$SCRATCH/build.log"; then
      echo "HARMLESS $name  [still builds]"; good=$((good+1))
    else
      echo "BROKEN   $name: a harmless rewrite breaks [$(failing_theorems "$SCRATCH/build.log")]"; bad=$((bad+1))
    fi ;;
  esac
}

echo "== baseline: code generated from $REPO, the proof modules build"
"$EXTRACT" -repo "$REPO" -out "$SCRATCH/facts.lean" -code "$GEN/Code.lean" || { echo "extractor failed on $REPO"; exit 1; }
diff -r "$GEN" "$HERE/lean/LzModel/Generated" >/dev/null || echo "   note: the Generated directory of the working tree is not up to date with $REPO"
build "$SCRATCH/base.log" || { echo "baseline build FAILED"; grep -A8 '^error' "$SCRATCH/base.log" | head -40; exit 1; }
echo "   ok"

echo "== mutants"
# --- hp.go: the greedy loop of (*hashParser).Parse
mutant "hp: first-word clamp against inputEnd instead of len(p)" proof hp.go 's/(func \(s \*hashParser\) Parse.*?)\t\tif k > len\(p\)-i \{\n\t\t\tk = len\(p\) - i\n/${1}\t\tif k > inputEnd-i {\n\t\t\tk = inputEnd - i\n/s'
mutant "hp: window test o < WindowSize"                       proof hp.go 's/(func \(s \*hashParser\) Parse.*?)o <= s\.WindowSize/${1}o < s.WindowSize/s'
mutant "hp: re-indexing starts at i + 2"                      proof hp.go 's/(func \(s \*hashParser\) Parse.*?)for j = i \+ 1; j < b; j\+\+/${1}for j = i + 2; j < b; j++/s'
mutant "hp: goto match also for b == 8"                       proof hp.go 's/(func \(s \*hashParser\) Parse.*?)if b < 8 \{\n\t\t\t\t\tgoto match/${1}if b <= 8 {\n\t\t\t\t\tgoto match/s'
mutant "hp: next position litIndex + 1"                       proof hp.go 's/(func \(s \*hashParser\) Parse.*?)\t\ti = litIndex - 1\n/${1}\t\ti = litIndex\n/s'
mutant "hp: LitLen one too large"                             proof hp.go 's/(func \(s \*hashParser\) Parse.*?)LitLen:   uint32\(len\(q\)\)/${1}LitLen:   uint32(len(q) + 1)/s'
mutant "hp: the extension tail is not clamped to len(q)"      proof hp.go 's/(func \(s \*hashParser\) Parse.*?)\t\t\t\tif b > len\(q\) \{\n\t\t\t\t\tb = len\(q\)\n\t\t\t\t\}\n/${1}/s'
mutant "hp: NoTrailingLiterals without the len(Sequences) test" proof hp.go 's/(func \(s \*hashParser\) Parse.*?)flags&NoTrailingLiterals != 0 && len\(blk\.Sequences\) > 0/${1}flags\&NoTrailingLiterals != 0/s'
mutant "hp: the key is not masked"                            proof hp.go 's/(func \(s \*hashParser\) Parse.*?)\t\tx := y & s\.mask\n/${1}\t\tx := y\n/s'
mutant "hp: trailing literals from i instead of litIndex"     proof hp.go 's/(func \(s \*hashParser\) Parse.*?)append\(blk\.Literals, p\[litIndex:\]\.\.\.\)/${1}append(blk.Literals, p[i:]...)/s'
# --- hash.go: processSegment
mutant "processSegment: reslice f.Data[:b+8]"                 proof hash.go 's/_p := f\.Data\[:b\+7\]/_p := f.Data[:b+8]/'
mutant "processSegment: loop starts at a + 1"                 proof hash.go 's/(func \(f \*hashDictionary\) processSegment.*?)for i := a; i < b; i\+\+/${1}for i := a + 1; i < b; i++/s'
# --- bytes.go
mutant "_getLE64: byte 3 shifted by 16"                       proof bytes.go 's/(func _getLE64.*?)uint64\(p\[3\]\)<<24/${1}uint64(p[3])<<16/s'
# --- harmless rewrites: must still be accepted and proved
mutant "harmless: block size clamp written with >="           harmless hp.go 's/(func \(s \*hashParser\) Parse.*?)\tif n > s\.BlockSize \{/${1}\tif n >= s.BlockSize {/s'
mutant "harmless: window test written o <= 0 || o > WindowSize" harmless hp.go 's/(func \(s \*hashParser\) Parse.*?)if !\(0 < o && o <= s\.WindowSize\) \{/${1}if o <= 0 || o > s.WindowSize {/s'
mutant "harmless: k = k + b in the extension loop"            harmless hp.go 's/(func \(s \*hashParser\) Parse.*?)\t\t\t\tk \+= b\n\t\t\t\tif b < 8/${1}\t\t\t\tk = k + b\n\t\t\t\tif b < 8/s'
mutant "harmless: re-index bound written b = litIndex; if b > inputEnd" harmless hp.go 's/(func \(s \*hashParser\) Parse.*?)\t\tif litIndex > inputEnd \{\n\t\t\tb = inputEnd\n\t\t\} else \{\n\t\t\tb = litIndex\n\t\t\}\n/${1}\t\tb = litIndex\n\t\tif b > inputEnd {\n\t\t\tb = inputEnd\n\t\t}\n/s'


# --- second robustness round (notes/robust2.md): the new normalisations of tools/extract/code_desugar.go and the
#     element-write footprint of code_parse.go — harmless uses must be proved, wrong uses must be killed / refused
FT_SWITCH='s/func getLE64\(p \[\]byte\) uint64 \{.*?\n\}\n/func getLE64(p []byte) uint64 {\n\tn := len(p)\n\tif n >= 8 {\n\t\treturn _getLE64(p)\n\t}\n\tif n >= 4 {\n\t\tx := uint64(_getLE32(p))\n\t\tswitch n {\n\t\tcase 7:\n\t\t\tx |= uint64(p[6]) << 48\n\t\t\tfallthrough\n\t\tcase 6:\n\t\t\tx |= uint64(p[5]) << 40\n\t\t\tfallthrough\n\t\tcase 5:\n\t\t\tx |= uint64(p[4]) << 32\n\t\t}\n\t\treturn x\n\t}\n\tswitch n {\n\tcase 3:\n\t\treturn uint64(p[0]) | uint64(p[1])<<8 | uint64(p[2])<<16\n\tcase 2:\n\t\treturn uint64(p[0]) | uint64(p[1])<<8\n\tcase 1:\n\t\treturn uint64(p[0])\n\t}\n\treturn 0\n}\n/s'
mutant "harmless: getLE64 as a switch with fallthrough"       harmless bytes.go "$FT_SWITCH"
mutant "getLE64 fallthrough switch: one fallthrough missing"  proof bytes.go "$FT_SWITCH; s/<< 48\n\t\t\tfallthrough\n/<< 48\n/"
mutant "getLE64 fallthrough switch: case 6 ORs byte 4 twice"  proof bytes.go "$FT_SWITCH; s/x \|= uint64\(p\[5\]\) << 40/x |= uint64(p[4]) << 40/"
mutant "harmless: processSegment clamps b by a swapping tuple assignment" harmless hash.go 's/(func \(f \*hashDictionary\) processSegment.*?)\tif c < b \{\n\t\tb = c\n\t\}/${1}\tif c < b {\n\t\tc, b = b, c\n\t}/s'
mutant "processSegment: tuple assignment c, b = b, b (no swap)" proof hash.go 's/(func \(f \*hashDictionary\) processSegment.*?)\tif c < b \{\n\t\tb = c\n\t\}/${1}\tif c < b {\n\t\tc, b = b, b\n\t}/s'
mutant "harmless: processSegment with table, mask, shift hoisted into locals" harmless hash.go 's/(func \(f \*hashDictionary\) processSegment.*?)(\tfor i := a; i < b; i\+\+ \{\n)\t\tx := _getLE64\(_p\[i:\]\) & f\.mask\n\t\tf\.table\[hashValue\(x, f\.shift\)\]/${1}\ttable, mask, shift := f.table, f.mask, f.shift\n${2}\t\tx := _getLE64(_p[i:]) \& mask\n\t\ttable[hashValue(x, shift)]/s'
mutant "alias: processSegment writes through a RE-SLICED copy of the table" extract hash.go 's/(func \(f \*hashDictionary\) processSegment.*?)(\tfor i := a; i < b; i\+\+ \{\n)\t\tx := _getLE64\(_p\[i:\]\) & f\.mask\n\t\tf\.table\[hashValue\(x, f\.shift\)\]/${1}\ttable := f.table[0:]\n${2}\t\tx := _getLE64(_p[i:]) \& f.mask\n\t\ttable[hashValue(x, f.shift)]/s'
mutant "alias: a helper method that writes Data is called while p is live" extract hp.go 's/(func \(s \*hashParser\) Parse.*?)(\t\ti = litIndex - 1\n)/${1}\t\ts.hashDictionary.poke()\n${2}/s; s/\z/\nfunc (f *hashDictionary) poke() { f.Data[0] = 1 }\n/'
mutant "a helper method that writes table[0] is called in the loop (accepted by the footprint rule; semantic change)" proof hp.go 's/(func \(s \*hashParser\) Parse.*?)(\t\ti = litIndex - 1\n)/${1}\t\ts.hashDictionary.poke()\n${2}/s; s/\z/\nfunc (f *hashDictionary) poke() { f.table[0] = hashEntry{} }\n/'

echo "== summary: $good of $total mutants behaved as expected, $bad did not"
[ $bad -eq 0 ]
