#!/bin/sh
# sweep.sh <tier> <seed...> — runs every registered check for several seeds on the unchanged tree
# and prints every line that is not a plain ok (false-alarm hunting).
tier=$1; shift
cd "$(dirname "$0")/.." || exit 2
./check --setup || exit 2
for s in "$@"; do
  for p in 01 02 03 04 05 06 07 08 09 10 11 12 13 14 15 16 17 18 19 20; do
    VERIF_SEED=$s ./check C$p --tier $tier > /tmp/sweep.$$.out 2>&1
    rc=$?
    tail -1 /tmp/sweep.$$.out | sed "s/^/seed=$s rc=$rc /"
    if [ $rc -ne 0 ]; then grep -E "VIOLATION|note:" /tmp/sweep.$$.out | head -5; fi
  done
done
rm -f /tmp/sweep.$$.out
