#!/usr/bin/env bash
# Robustness self-test, second evaluation set: the 30 independently written behaviour-preserving
# ("harmless") rewrites of tools/harmless2/B{1,2,3,4,5}/patch{1..6}.diff (each with a README.md that
# explains why it preserves behaviour) — plus the 6 rewrites of tools/harmless2/B6 written in the third
# robustness pass for the newest tie modules (GSAP, OSAP, BUP, ReadFrom; notes/robust3.md) — must not
# raise an alarm in the tie between the hand-written model and the translated Go text.
#
# For every patch:
#   1. apply it to a scratch copy of /repo,
#   2. regenerate Facts.lean and the Code*.lean topic modules into a SCRATCH COPY of the lake
#      project (the real tree is never touched),
#   3. the translator must not refuse a topic (exit status 0) — except for the topics listed in
#      expected_refused,
#   4. build every proof module about generated code (all LzProofs/Gen*.lean); the modules whose own
#      proofs break have to be exactly the ones in expected_roots, and the set of modules that fail
#      exactly these and their importers (empty for most patches; the remaining alarms — all of them
#      STRUCTURAL rewrites: a loop moved into a helper, gotos replaced by a flag — are explained in
#      notes/robust.md and notes/robust2.md).
# The baseline (unpatched /repo) has to build completely first.
#
# usage: tools/harmless2_selftest.sh         exit status 0 iff everything is as expected
#        JOBS=n …                            n patches at a time (n scratch copies of the lake project)
#        ONLY='B1/patch3 B2/patch5' …        only these patches
#        KEEP=1 …                            keep the scratch directory (printed at the end)
set -u
export GOFLAGS=-mod=mod GOPROXY=off GOSUMDB=off GOTOOLCHAIN=local

HERE="$(cd "$(dirname "$0")/.." && pwd)"
REPO="${REPO:-/repo}"
JOBS="${JOBS:-1}"
SCRATCH="$(mktemp -d /tmp/pf-harmless2.XXXXXX)"
[ "${KEEP:-0}" = 1 ] || trap 'rm -rf "$SCRATCH"' EXIT
EXTRACT="$SCRATCH/extract"

# patch ↦ topics the translator is expected to refuse
expected_refused() {
  case "$1" in
    *) echo "" ;;
  esac
}

# patch ↦ the proof modules (without the prefix LzProofs.) whose OWN proofs are expected to break (the roots of the
# alarm).  The modules expected to fail are these and every Gen* module that imports one of them, directly or not
# (closure below, computed from the import lines of LzProofs/*.lean); the script checks both: the set of modules that
# fail is exactly that closure, and the modules that report errors of their own are exactly the roots.
# One line of reason per remaining alarm; details in notes/robust.md (B1–B3) and notes/robust2.md (B4, B5).
# Third pass (notes/robust3.md): B3/patch6 → GenOSAPInit and the five alarms of the new set B6 (patch1 → GenGSAPParse, patch3 →
# GenOSAPPath, patch4 → GenOSAPParseLemmas, patch5 → GenBUPParseLemmas, patch6 → GenPBufReadFrom) were shape-dependent proofs
# and are repaired; no entry here for them.
expected_roots() {
  case "$1" in
    # STRUCTURAL: the doubling-copy loop moves into the new helper appendMatch: D08/D09 (GenBufPropsDCopy) are proved by
    # induction along the loop functions of WriteMatch/WriteBlock, which no longer exist (notes/robust.md)
    B3/patch2) echo "GenBufPropsDCopy" ;;
    # STRUCTURAL: the match-extension loop of hp.go moves into the new helper extendMatch (other state: counts from 0, result
    # in a ret component, no goto exit) and the re-hash loop is renumbered: the one line that names the two inner loops
    # (`open … renaming … → rehashLoop, … → extLoop` in GenHPParseLemmas) and loop2_eq (spec of the moved loop) fail
    B4/patch3) echo "GenHPParseLemmas" ;;
    # STRUCTURAL: the re-hash loop of hp.go AND bhp.go moves into the new method (*hashDictionary).rehash (accepted by the
    # translator since the footprint rule): its loop function works on hashDictionary instead of hashParser /
    # backwardHashParser, loop3_eq / loop3_eqB are stated about the loop of Parse
    B4/patch6) echo "GenHPParseLemmas" ;;
    # STRUCTURAL: both gotos of dhp.go replaced by a `mismatch` flag: the two extension loops have another state tuple and
    # no exit code; only their specs (loop2_spec, loop6_spec, loop2_cont, loop6_cont) fail, the callers are proved from them
    B5/patch4) echo "GenDHPParseLemmas" ;;
    # STRUCTURAL: the forward extension loops of bdhp.go move into the helper extendMatch (extra ret component in the loop
    # state): one tactic line each in loop5_step and loop1_step (`extBlock_at …`) fails, everything else goes through
    B5/patch5) echo "GenBDHPParseLoop" ;;
    *) echo "" ;;
  esac
}

# closure <roots…>: the roots and every Gen* module importing one of them (transitively, through any LzProofs module)
closure() {
  [ $# -eq 0 ] && return
  local lean="$HERE/lean/LzProofs" frontier="$*" seen=" $* " next m f imp
  while [ -n "$frontier" ]; do
    next=""
    for m in $frontier; do
      for f in $(grep -l "^import LzProofs\.$m\$" "$lean"/*.lean 2>/dev/null); do
        imp="$(basename "$f" .lean)"
        case "$seen" in *" $imp "*) ;; *) seen="$seen$imp "; next="$next $imp" ;; esac
      done
    done
    frontier="$next"
  done
  for m in $seen; do case " $MODULES " in *" $m "*) echo "$m" ;; esac; done | sort | tr '\n' ' '
}

(cd "$HERE/tools/extract" && go build -o "$EXTRACT" .) || { echo "cannot build the extractor"; exit 1; }

MODULES="$(cd "$HERE/lean/LzProofs" && ls Gen*.lean | sed 's/\.lean$//' | sort | tr '\n' ' ')"
targets() { for m in $MODULES; do printf 'LzProofs.%s ' "$m"; done; }

copy_repo() {
  mkdir -p "$1"
  cp "$REPO"/*.go "$REPO"/go.mod "$1"/
  [ -f "$REPO/go.sum" ] && cp "$REPO/go.sum" "$1"/
  cp -r "$REPO/suffix" "$1/suffix"
}

# build_all <lean dir> <log>: builds every Gen* module (one lake invocation builds what it can, then
# every module is asked for on its own to get its status); echoes the failing ones
build_all() {
  local lean="$1" log="$2" failing="" m
  (cd "$lean" && lake build $(targets)) >"$log" 2>&1
  for m in $MODULES; do
    (cd "$lean" && lake build "LzProofs.$m") >>"$log.$m" 2>&1 || failing="$failing $m"
  done
  echo $failing
}

failing_theorems() {
  grep -ho 'error: LzProofs/[A-Za-z0-9]*\.lean:[0-9]*' "$1" | sed 's/error: //' | sort -u | while IFS=: read -r f ln; do
    awk -v L="$ln" -v F="$(basename "$f" .lean)" 'NR<=L && /^(private )?theorem /{name=$2; if ($1=="private") name=$3} END{if (name=="") name="(import)"; print F ":" name}' "$2/$f"
  done | sort -u | tr '\n' ' '
}

echo "== baseline ($REPO): $(echo $MODULES | wc -w) proof modules about generated code"
LEAN0="$SCRATCH/lean0"
mkdir -p "$LEAN0"; cp -a "$HERE/lean/." "$LEAN0"/
"$EXTRACT" -repo "$REPO" -out "$LEAN0/LzModel/Generated/Facts.lean" -code "$LEAN0/LzModel/Generated/Code.lean" 2>"$SCRATCH/base.err" \
  || { echo "baseline: extractor failed"; cat "$SCRATCH/base.err"; exit 1; }
diff -r "$LEAN0/LzModel/Generated" "$HERE/lean/LzModel/Generated" >/dev/null || echo "   note: lean/LzModel/Generated of the tree is not what the extractor generates from $REPO"
f="$(build_all "$LEAN0" "$SCRATCH/base.log")"
[ -z "$f" ] || { echo "baseline build FAILED: $f"; grep -h '^error' "$SCRATCH/base.log" | head -20; exit 1; }
echo "   ok: all of them build"

PATCHES=""
for b in B1 B2 B3 B4 B5 B6; do for n in 1 2 3 4 5 6; do
  case " ${ONLY:-$b/patch$n} " in *" $b/patch$n "*) PATCHES="$PATCHES $b/patch$n" ;; esac
done; done

# one_patch <name> <lean dir>: prints one result line (ok / ok* / FAIL), returns 1 on FAIL
one_patch() {
  local name="$1" lean="$2" p="$HERE/tools/harmless2/$1.diff"
  local tag; tag="$(echo "$name" | tr '/' '-')"
  local dir="$SCRATCH/$tag"
  copy_repo "$dir"
  if ! (cd "$dir" && patch -p1 -s <"$p") >"$dir.patch.log" 2>&1; then
    echo "FAIL  $name: patch does not apply: $(head -2 "$dir.patch.log" | tr '\n' ' ')"; return 1
  fi
  (cd "$dir" && go build ./... >/dev/null 2>"$dir.gobuild.err") || { echo "FAIL  $name: the patched repository does not compile"; return 1; }
  "$EXTRACT" -repo "$dir" -out "$lean/LzModel/Generated/Facts.lean" -code "$lean/LzModel/Generated/Code.lean" 2>"$dir.err"
  local rc=$? status=ok msg=""
  local refused want
  refused="$(grep -o 'topic [A-Za-z0-9]* REFUSED' "$dir.err" | awk '{print $2}' | sort | tr '\n' ' ' | sed 's/ $//')"
  want="$(expected_refused "$name")"
  case "$rc" in 0|3) ;; *) status=FAIL; msg="$msg extractor exit status $rc: $(head -3 "$dir.err" | tr '\n' ' ');" ;; esac
  if [ "$refused" != "$want" ]; then
    status=FAIL; msg="$msg refused topics [$refused], expected [$want]: $(grep -v REFUSED "$dir.err" | head -2 | sed 's/^ *//' | tr '\n' ' ');"
  fi
  local failing wantfail roots wantroots
  failing="$(build_all "$lean" "$dir.log")"
  wantroots="$(echo $(expected_roots "$name" | tr ' ' '\n' | sort))"
  wantfail="$(echo $(closure $wantroots))"
  failing="$(echo $(echo $failing | tr ' ' '\n' | sort))"
  cat "$dir.log" "$dir.log".* 2>/dev/null >"$dir.all.log"
  roots="$(echo $(grep -ho 'error: LzProofs/[A-Za-z0-9]*\.lean:[0-9]*' "$dir.all.log" | sed 's/error: LzProofs\///; s/\.lean.*//' | sort -u))"
  if [ "$failing" != "$wantfail" ] || [ "$roots" != "$wantroots" ]; then
    status=FAIL; msg="$msg modules with errors of their own [$roots], expected [$wantroots]; failing modules [$failing], expected [$wantfail]; failing theorems: $(failing_theorems "$dir.all.log" "$lean");"
  fi
  rm -rf "$dir"
  if [ "$status" = ok ]; then
    if [ -n "$wantfail$want" ]; then
      echo "ok*   $name: KNOWN alarm — refused topics [$refused], proofs break in [$roots] ($(echo $failing | wc -w) modules with their importers; failing theorems: $(failing_theorems "$dir.all.log" "$lean")); everything else builds"
    else
      echo "ok    $name: nothing refused, all proof modules build"
    fi
    return 0
  fi
  echo "FAIL  $name:$msg"
  return 1
}

echo "== the harmless rewrites of tools/harmless2 ($JOBS at a time)"
i=0
for name in $PATCHES; do
  shard=$((i % JOBS)); i=$((i+1))
  echo "$name" >>"$SCRATCH/shard.$shard"
done
# the scratch copies of the lake project are taken before any of them is modified (shard 0 re-uses the baseline copy)
for s in $(seq 1 $((JOBS-1))); do
  [ -f "$SCRATCH/shard.$s" ] || continue
  mkdir -p "$SCRATCH/lean$s"; cp -a "$LEAN0/." "$SCRATCH/lean$s"/
done
for s in $(seq 0 $((JOBS-1))); do
  [ -f "$SCRATCH/shard.$s" ] || continue
  (
    while read -r name; do
      tag="$(echo "$name" | tr '/' '-')"
      one_patch "$name" "$SCRATCH/lean$s" >"$SCRATCH/result.$tag" 2>&1
    done <"$SCRATCH/shard.$s"
  ) &
done
wait
bad=0; alarms=0; n=0
for name in $PATCHES; do
  tag="$(echo "$name" | tr '/' '-')"
  n=$((n+1))
  cat "$SCRATCH/result.$tag" 2>/dev/null || echo "FAIL  $name: no result"
  grep -q '^ok' "$SCRATCH/result.$tag" 2>/dev/null || bad=$((bad+1))
  grep -q '^ok\*' "$SCRATCH/result.$tag" 2>/dev/null && alarms=$((alarms+1))
done
echo "== harmless2_selftest: $n patches, $alarms known alarm(s), $bad problem(s)"
[ "${KEEP:-0}" = 1 ] && echo "   scratch directory kept: $SCRATCH"
[ "$bad" -eq 0 ]
