#!/usr/bin/env bash
# Robustness self-test, second evaluation set: the 18 independently written behaviour-preserving
# ("harmless") rewrites of tools/harmless2/B{1,2,3}/patch{1..6}.diff (each with a README.md that
# explains why it preserves behaviour) must not raise an alarm in the tie between the hand-written
# model and the translated Go text.
#
# For every patch:
#   1. apply it to a scratch copy of /repo,
#   2. regenerate Facts.lean and the Code*.lean topic modules into a SCRATCH COPY of the lake
#      project (the real tree is never touched),
#   3. the translator must not refuse a topic (exit status 0) — except for the topics listed in
#      expected_refused,
#   4. build every proof module about generated code (all LzProofs/Gen*.lean); the set of modules
#      that fail has to be exactly the one in expected_failing (empty for most patches; the
#      remaining alarms are explained in notes/robust.md).
# The baseline (unpatched /repo) has to build completely first.
#
# usage: tools/harmless2_selftest.sh         exit status 0 iff everything is as expected
#        JOBS=n …                            n patches at a time (n scratch copies of the lake project)
#        ONLY='B1/patch3 B2/patch5' …        only these patches
#        KEEP=1 …                            keep the scratch directory (printed at the end)
set -u
export GOFLAGS=-mod=mod GOPROXY=off GOSUMDB=off GOTOOLCHAIN=local

HERE="$(cd "$(dirname "$0")/.." && pwd)"
REPO="${REPO:-/repo}"
JOBS="${JOBS:-1}"
SCRATCH="$(mktemp -d /tmp/pf-harmless2.XXXXXX)"
[ "${KEEP:-0}" = 1 ] || trap 'rm -rf "$SCRATCH"' EXIT
EXTRACT="$SCRATCH/extract"

# patch ↦ topics the translator is expected to refuse
expected_refused() {
  case "$1" in
    *) echo "" ;;
  esac
}

# patch ↦ proof modules (without the prefix LzProofs.) that are expected to fail: the module whose
# proof breaks and every Gen* module that imports it
expected_failing() {
  case "$1" in
    # the doubling-copy loop moves into the new helper appendMatch: D08/D09 (GenBufPropsDCopy) are proved by
    # induction along the loop functions of WriteMatch/WriteBlock, which no longer exist (notes/robust.md);
    # the other modules are the Gen* modules that import GenBufPropsDCopy (directly or not)
    B3/patch2) echo "GenBufPropsDCopy GenBufProps GenDecoderProps GenHPHist GenHPHistEx GenHPHistRF GenHPHistRF2 GenHPHistRun GenBHPHist GenBHPHistEx GenBHPHistRun GenDHPHist GenDHPHistEx GenDHPHistRun GenBDHPHist GenBDHPHistEx GenBDHPHistRun GenC19Hist GenC19HistEx" ;;
    # ReadFrom rewritten as `for len(b.Data) < b.BufferSize { … return … }` with the window lent WITHOUT a name
    # (`r.Read(b.Data[len(b.Data):end])`): accepted by the translator (anonymous lent window, code_lend.go), but the loop
    # function has another state and exit codes; GenPBufReadFrom.loop_step follows the loop function of the current text
    # (notes/bup-readfrom-translate.md §5); GenHPHistRF2 imports it
    B3/patch3) echo "GenPBufReadFrom GenHPHistRF2" ;;
    *) echo "" ;;
  esac
}

(cd "$HERE/tools/extract" && go build -o "$EXTRACT" .) || { echo "cannot build the extractor"; exit 1; }

MODULES="$(cd "$HERE/lean/LzProofs" && ls Gen*.lean | sed 's/\.lean$//' | sort | tr '\n' ' ')"
targets() { for m in $MODULES; do printf 'LzProofs.%s ' "$m"; done; }

copy_repo() {
  mkdir -p "$1"
  cp "$REPO"/*.go "$REPO"/go.mod "$1"/
  [ -f "$REPO/go.sum" ] && cp "$REPO/go.sum" "$1"/
  cp -r "$REPO/suffix" "$1/suffix"
}

# build_all <lean dir> <log>: builds every Gen* module (one lake invocation builds what it can, then
# every module is asked for on its own to get its status); echoes the failing ones
build_all() {
  local lean="$1" log="$2" failing="" m
  (cd "$lean" && lake build $(targets)) >"$log" 2>&1
  for m in $MODULES; do
    (cd "$lean" && lake build "LzProofs.$m") >>"$log.$m" 2>&1 || failing="$failing $m"
  done
  echo $failing
}

failing_theorems() {
  grep -ho 'error: LzProofs/[A-Za-z0-9]*\.lean:[0-9]*' "$1" | sed 's/error: //' | sort -u | while IFS=: read -r f ln; do
    awk -v L="$ln" -v F="$(basename "$f" .lean)" 'NR<=L && /^(private )?theorem /{name=$2; if ($1=="private") name=$3} END{if (name=="") name="(import)"; print F ":" name}' "$2/$f"
  done | sort -u | tr '\n' ' '
}

echo "== baseline ($REPO): $(echo $MODULES | wc -w) proof modules about generated code"
LEAN0="$SCRATCH/lean0"
mkdir -p "$LEAN0"; cp -a "$HERE/lean/." "$LEAN0"/
"$EXTRACT" -repo "$REPO" -out "$LEAN0/LzModel/Generated/Facts.lean" -code "$LEAN0/LzModel/Generated/Code.lean" 2>"$SCRATCH/base.err" \
  || { echo "baseline: extractor failed"; cat "$SCRATCH/base.err"; exit 1; }
diff -r "$LEAN0/LzModel/Generated" "$HERE/lean/LzModel/Generated" >/dev/null || echo "   note: lean/LzModel/Generated of the tree is not what the extractor generates from $REPO"
f="$(build_all "$LEAN0" "$SCRATCH/base.log")"
[ -z "$f" ] || { echo "baseline build FAILED: $f"; grep -h '^error' "$SCRATCH/base.log" | head -20; exit 1; }
echo "   ok: all of them build"

PATCHES=""
for b in B1 B2 B3 B4 B5; do for n in 1 2 3 4 5 6; do
  case " ${ONLY:-$b/patch$n} " in *" $b/patch$n "*) PATCHES="$PATCHES $b/patch$n" ;; esac
done; done

# one_patch <name> <lean dir>: prints one result line (ok / ok* / FAIL), returns 1 on FAIL
one_patch() {
  local name="$1" lean="$2" p="$HERE/tools/harmless2/$1.diff"
  local tag; tag="$(echo "$name" | tr '/' '-')"
  local dir="$SCRATCH/$tag"
  copy_repo "$dir"
  if ! (cd "$dir" && patch -p1 -s <"$p") >"$dir.patch.log" 2>&1; then
    echo "FAIL  $name: patch does not apply: $(head -2 "$dir.patch.log" | tr '\n' ' ')"; return 1
  fi
  (cd "$dir" && go build ./... >/dev/null 2>"$dir.gobuild.err") || { echo "FAIL  $name: the patched repository does not compile"; return 1; }
  "$EXTRACT" -repo "$dir" -out "$lean/LzModel/Generated/Facts.lean" -code "$lean/LzModel/Generated/Code.lean" 2>"$dir.err"
  local rc=$? status=ok msg=""
  local refused want
  refused="$(grep -o 'topic [A-Za-z0-9]* REFUSED' "$dir.err" | awk '{print $2}' | sort | tr '\n' ' ' | sed 's/ $//')"
  want="$(expected_refused "$name")"
  case "$rc" in 0|3) ;; *) status=FAIL; msg="$msg extractor exit status $rc: $(head -3 "$dir.err" | tr '\n' ' ');" ;; esac
  if [ "$refused" != "$want" ]; then
    status=FAIL; msg="$msg refused topics [$refused], expected [$want]: $(grep -v REFUSED "$dir.err" | head -2 | sed 's/^ *//' | tr '\n' ' ');"
  fi
  local failing wantfail
  failing="$(build_all "$lean" "$dir.log")"
  wantfail="$(echo $(expected_failing "$name" | tr ' ' '\n' | sort))"
  failing="$(echo $(echo $failing | tr ' ' '\n' | sort))"
  if [ "$failing" != "$wantfail" ]; then
    status=FAIL; msg="$msg failing modules [$failing], expected [$wantfail]; failing theorems: $(cat "$dir.log" "$dir.log".* 2>/dev/null >"$dir.all.log"; failing_theorems "$dir.all.log" "$lean");"
  fi
  rm -rf "$dir"
  if [ "$status" = ok ]; then
    if [ -n "$wantfail$want" ]; then
      echo "ok*   $name: KNOWN alarm — refused topics [$refused], failing modules [$failing] (notes/robust.md); everything else builds"
    else
      echo "ok    $name: nothing refused, all proof modules build"
    fi
    return 0
  fi
  echo "FAIL  $name:$msg"
  return 1
}

echo "== the harmless rewrites of tools/harmless2 ($JOBS at a time)"
i=0
for name in $PATCHES; do
  shard=$((i % JOBS)); i=$((i+1))
  echo "$name" >>"$SCRATCH/shard.$shard"
done
# the scratch copies of the lake project are taken before any of them is modified (shard 0 re-uses the baseline copy)
for s in $(seq 1 $((JOBS-1))); do
  [ -f "$SCRATCH/shard.$s" ] || continue
  mkdir -p "$SCRATCH/lean$s"; cp -a "$LEAN0/." "$SCRATCH/lean$s"/
done
for s in $(seq 0 $((JOBS-1))); do
  [ -f "$SCRATCH/shard.$s" ] || continue
  (
    while read -r name; do
      tag="$(echo "$name" | tr '/' '-')"
      one_patch "$name" "$SCRATCH/lean$s" >"$SCRATCH/result.$tag" 2>&1
    done <"$SCRATCH/shard.$s"
  ) &
done
wait
bad=0; alarms=0; n=0
for name in $PATCHES; do
  tag="$(echo "$name" | tr '/' '-')"
  n=$((n+1))
  cat "$SCRATCH/result.$tag" 2>/dev/null || echo "FAIL  $name: no result"
  grep -q '^ok' "$SCRATCH/result.$tag" 2>/dev/null || bad=$((bad+1))
  grep -q '^ok\*' "$SCRATCH/result.$tag" 2>/dev/null && alarms=$((alarms+1))
done
echo "== harmless2_selftest: $n patches, $alarms known alarm(s), $bad problem(s)"
[ "${KEEP:-0}" = 1 ] && echo "   scratch directory kept: $SCRATCH"
[ "$bad" -eq 0 ]
