#!/usr/bin/env bash
# Mutation self-test of the NIL PATHS (`Parse(nil, flags)`) of the parsers: the nilable pointer parameter of
# tools/extract/code_nil.go (flag + value, flow-sensitive nil-ness) and the proof modules
# LzProofs/Gen{HP,BHP,DHP,BDHP,BUP,GSAP}ParseNil.lean / Gen*HistNil.lean (gen_<p>_parseNil: translated Parse with a
# nil block = ProbeW.parseNilW / Parser.parseNil; C14_go_text_<p>).
#
# Mechanics of genhp_selftest.sh: for every mutant copy the repository to a fresh directory under /tmp, apply one small
# change, regenerate LzModel/Generated/Code*.lean from the copy into a COPY of the lake project, and build
# $TARGETS there.
#   kind proof    : the build must FAIL (the failing theorems are listed)
#   kind extract  : the extractor must refuse a topic (exit status 3)
#   kind harmless : a behaviour-preserving rewrite — extractor and build must still succeed
# The working tree (<verif>/lean) is never touched; scratch-repo and the copy are removed.
#
# usage: ./gennil_selftest.sh    (ONLY=<regex> restricts the run to the mutants whose name matches;
#                                 TARGETS=… overrides the modules built)
#        exit status 0 iff every mutant behaves as expected
set -u
export GOFLAGS=-mod=mod GOPROXY=off GOSUMDB=off GOTOOLCHAIN=local

HERE="$(cd "$(dirname "$0")/.." && pwd)"
REPO="${REPO:-/repo}"
SCRATCH="$(mktemp -d /tmp/pf-gennil-selftest.XXXXXX)"
LEAN="$SCRATCH/lean"
GEN="$LEAN/LzModel/Generated"
MUT="$(mktemp -d /tmp/pf-mutrepo.XXXXXX)/scratch-repo"   # scratch copies of the library live outside /verif and /repo
EXTRACT="$SCRATCH/extract"
TARGETS="${TARGETS:-LzProofs.GenHPHistNil LzProofs.GenBHPHistNil LzProofs.GenDHPHistNil LzProofs.GenBDHPHistNil LzProofs.GenBUPHistNil LzProofs.GenGSAPHistNil}"
bad=0; good=0; total=0

cleanup() { rm -rf "$SCRATCH" "$MUT"; }
trap cleanup EXIT

cp -r "$HERE/lean" "$LEAN"
(cd "$HERE/tools/extract" && go build -o "$EXTRACT" .) || { echo "cannot build the extractor"; exit 1; }

failing_theorems() {
  grep -o 'error: LzProofs/Gen[A-Za-z]*\.lean:[0-9]*' "$1" | sed 's/error: //' | sort -u | while IFS=: read -r f ln; do
    awk -v L="$ln" -v F="$(basename "$f" .lean)" 'NR<=L && /^theorem /{name=$2} END{if (name=="") name="(import)"; print F ":" name}' "$LEAN/$f"
  done | sort -u | tr '\n' ' '
}
build() { (cd "$LEAN" && lake build $TARGETS) >"$1" 2>&1; }

# mutant <name> <kind> <file> <perl program>
mutant() {
  local name="$1" kind="$2" file="$3" prog="$4"
  if [ -n "${ONLY:-}" ] && ! printf '%s' "$name" | grep -q -- "$ONLY"; then return; fi
  total=$((total+1))
  rm -rf "$MUT"; cp -r "$REPO" "$MUT"; rm -rf "$MUT/.git"
  perl -0pi -e "$prog" "$MUT/$file"
  if cmp -s "$MUT/$file" "$REPO/$file"; then
    echo "ERROR    $name: the mutation did not apply to $file"; bad=$((bad+1)); return
  fi
  (cd "$MUT" && go build ./... >/dev/null 2>"$SCRATCH/gobuild.err") || {
    echo "ERROR    $name: the mutated repository does not compile: $(head -2 "$SCRATCH/gobuild.err" | tr '\n' ' ')"; bad=$((bad+1)); return; }
  "$EXTRACT" -repo "$MUT" -out "$SCRATCH/facts.lean" -code "$GEN/Code.lean" 2>"$SCRATCH/extract.err"
  local rc=$?
  local refused
  refused="$(grep -o 'topic [A-Za-z0-9]* REFUSED' "$SCRATCH/extract.err" | awk '{print $2}' | tr '\n' ' ' | sed 's/ $//')"
  case "$kind" in
  extract)
    if [ $rc -eq 3 ] && [ -n "$refused" ]; then
      echo "REFUSED  $name  [topics: $refused — $(grep -v REFUSED "$SCRATCH/extract.err" | head -1 | sed 's/^ *//')]"; good=$((good+1))
    else
      echo "ACCEPTED $name: the extractor accepted a construct it must refuse (status $rc)"; bad=$((bad+1))
    fi ;;
  proof)
    if [ $rc -ne 0 ]; then
      echo "ERROR    $name: extractor status $rc: $(head -3 "$SCRATCH/extract.err" | tr '\n' ' ')"; bad=$((bad+1))
    elif build "$SCRATCH/build.log"; then
      echo "SURVIVED $name: the proof modules still build"; bad=$((bad+1))
    else
      echo "KILLED   $name  [failing: $(failing_theorems "$SCRATCH/build.log")]"; good=$((good+1))
    fi ;;
  harmless)
    if [ $rc -ne 0 ]; then
      echo "BROKEN   $name: extractor status $rc: $(head -3 "$SCRATCH/extract.err" | tr '\n' ' ')"; bad=$((bad+1))
    elif build "$SCRATCH/build.log"; then
      echo "HARMLESS $name  [still builds]"; good=$((good+1))
    else
      echo "BROKEN   $name: a harmless rewrite breaks [$(failing_theorems "$SCRATCH/build.log")]"; bad=$((bad+1))
    fi ;;
  esac
}

echo "== baseline: code generated from $REPO, the proof modules build"
"$EXTRACT" -repo "$REPO" -out "$SCRATCH/facts.lean" -code "$GEN/Code.lean" || { echo "extractor failed on $REPO"; exit 1; }
diff -r "$GEN" "$HERE/lean/LzModel/Generated" >/dev/null || echo "   note: the Generated directory of the working tree is not up to date with $REPO"
build "$SCRATCH/base.log" || { echo "baseline build FAILED"; grep -A8 '^error' "$SCRATCH/base.log" | head -40; exit 1; }
echo "   ok"

echo "== mutants"
NILHP='(func \(s \*hashParser\) Parse.*?if blk == nil \{.*?)'
# --- hp.go, nil path
mutant "hp nil: the skipped segment is not hashed"            proof hp.go "s/${NILHP}\t\ts\.processSegment\(s\.W-s\.hash\.inputLen\+1, t\)\n/\${1}/s"
mutant "hp nil: the segment is hashed from W+1"               proof hp.go "s/${NILHP}s\.processSegment\(s\.W-s\.hash\.inputLen\+1, t\)/\${1}s.processSegment(s.W+1, t)/s"
mutant "hp nil: W advanced by n-1"                            proof hp.go "s/${NILHP}\t\ts\.W = t\n/\${1}\t\ts.W = t - 1\n/s"
mutant "hp nil: ErrEmptyBuffer test n < 0"                    proof hp.go "s/${NILHP}\t\tif n == 0 \{\n\t\t\treturn 0, ErrEmptyBuffer/\${1}\t\tif n < 0 {\n\t\t\treturn 0, ErrEmptyBuffer/s"
mutant "hp nil: returns n+1"                                  proof hp.go "s/${NILHP}\t\treturn n, nil\n/\${1}\t\treturn n + 1, nil\n/s"
mutant "hp nil: the block is emptied BEFORE the nil test (dereference while nil-ness is undecided)" extract hp.go 's/(func \(s \*hashParser\) Parse.*?)(\tif blk == nil \{)/${1}\tblk.Sequences = blk.Sequences[:0]\n${2}/s'
mutant "hp nil: the nil path writes blk.Sequences (nil dereference = panic; the model returns n)" proof hp.go "s/${NILHP}\t\ts\.W = t\n/\${1}\t\ts.W = t\n\t\tblk.Sequences = nil\n/s"
mutant "harmless: hp nil test written nil == blk" harmless hp.go 's/(func \(s \*hashParser\) Parse.*?)\tif blk == nil \{/${1}\tif nil == blk {/s'
# --- the other parsers
mutant "dhp nil: the segment starts at W - h1.inputLen + 1"   proof dhp.go 's/(func \(s \*doubleHashParser\) Parse.*?if blk == nil \{.*?)s\.processSegment\(s\.W-s\.h2\.inputLen\+1, t\)/${1}s.processSegment(s.W-s.h1.inputLen+1, t)/s'
mutant "bup nil: the skipped segment is not hashed"           proof bup.go 's/(func \(s \*bucketParser\) Parse.*?if blk == nil \{.*?)\t\ts\.processSegment\(s\.W-s\.inputLen\+1, t\)\n/${1}/s'
mutant "gsap nil: W is SET to n instead of advanced by n"     proof gsap.go 's/(func \(s \*gsap\) Parse.*?if blk == nil \{.*?)\t\ts\.W \+= n\n/${1}\t\ts.W = n\n/s'
mutant "gsap nil: the suffix array is dropped on the nil path (the model keeps it)" proof gsap.go 's/(func \(s \*gsap\) Parse.*?if blk == nil \{.*?)\t\ts\.W \+= n\n/${1}\t\ts.W += n\n\t\ts.sa = s.sa[:0]\n/s'

echo "== summary: $good of $total mutants behaved as expected, $bad did not"
[ $bad -eq 0 ]
