#!/usr/bin/env bash
# Differential check of the translator (the trusted part of the chain): the Go functions
# are run in a scratch copy of /repo (internal test file tools/difftest/zz_gendiff_test.go),
# the generated Lean definitions are evaluated by tools/difftest/Diff.lean on the same
# inputs, and the two transcripts are compared line by line.
set -eu
export GOFLAGS=-mod=mod GOPROXY=off GOSUMDB=off GOTOOLCHAIN=local
HERE="$(cd "$(dirname "$0")/.." && pwd)"
REPO="${REPO:-/repo}"
SCRATCH="$(mktemp -d /tmp/pf-gen-difftest.XXXXXX)"
trap 'rm -rf "$SCRATCH"' EXIT
mkdir "$SCRATCH/repo"
cp -r "$REPO"/. "$SCRATCH/repo"/
rm -rf "$SCRATCH/repo/.git"
cp "$HERE/tools/difftest/zz_gendiff_test.go" "$SCRATCH/repo"/
(cd "$SCRATCH/repo" && GENDIFF_OUT="$SCRATCH/go.txt" go test -count=1 -run '^TestGenDiff$' . >"$SCRATCH/gotest.log" 2>&1) \
  || { cat "$SCRATCH/gotest.log"; exit 1; }
(cd "$HERE/lean" && lake build LzModel.Generated.Code >/dev/null 2>&1 && lake env lean --run "$HERE/tools/difftest/Diff.lean") >"$SCRATCH/lean.txt"
n=$(wc -l <"$SCRATCH/go.txt")
if cmp -s "$SCRATCH/go.txt" "$SCRATCH/lean.txt"; then
  echo "difftest: $n calls, Go and generated Lean agree on every line"
else
  echo "difftest: MISMATCH"; diff "$SCRATCH/go.txt" "$SCRATCH/lean.txt" | head -20; exit 1
fi
