#!/usr/bin/env python3
"""verify_seed.py <dir with patch.diff and demo_test.go> [pkgdir]
Confirms in a scratch worktree of /repo that a seeded change (a) applies and compiles,
(b) keeps every baseline test passing, (c) makes the demonstration fail, and that the
demonstration passes without the change. The worktree is removed afterwards."""
import json, os, subprocess, sys, shutil, tempfile
d = os.path.abspath(sys.argv[1])
pkg = sys.argv[2] if len(sys.argv) > 2 else "."
env = dict(os.environ, GOFLAGS="-mod=mod", GOPROXY="off", GOSUMDB="off", GOTOOLCHAIN="local")
wt = tempfile.mkdtemp(prefix="vseed_", dir="/tmp")
os.rmdir(wt)
def sh(cmd, cwd=wt, timeout=1800):
    p = subprocess.run(cmd, cwd=cwd, env=env, capture_output=True, text=True, timeout=timeout)
    return p.returncode, p.stdout + p.stderr
def passing():
    rc, out = sh(["go", "test", "-vet=off", "-count=1", "-json", "./..."])
    s = set()
    for l in out.split("\n"):
        try:
            e = json.loads(l)
        except Exception:
            continue
        if e.get("Action") == "pass" and e.get("Test"):
            s.add(e["Package"] + "::" + e["Test"])
    return s
res = {}
try:
    subprocess.run(["git", "-C", "/repo", "worktree", "add", "--detach", wt, "HEAD"], capture_output=True)
    want = [l.strip() for l in open("/verif/tools/baseline_tests.txt") if l.strip()]
    demo_name = "zz_verif_demo_test.go"
    demo_dst = os.path.join(wt, pkg, demo_name)
    # demonstration without the change
    shutil.copy(os.path.join(d, "demo_test.go"), demo_dst)
    rc, out = sh(["go", "test", "-vet=off", "-count=1", "-run", ".", "./" + pkg], timeout=1200)
    # run only the demo's tests: find Test names
    import re
    names = re.findall(r"^func (Test\w+)\(", open(demo_dst).read(), re.M)
    pat = "^(" + "|".join(names) + ")$"
    rc0, out0 = sh(["go", "test", "-vet=off", "-count=1", "-run", pat, "./" + pkg], timeout=1200)
    res["demo_without_change"] = "pass" if rc0 == 0 else "FAIL"
    os.remove(demo_dst)
    rc, out = sh(["git", "apply", os.path.join(d, "patch.diff")])
    res["applies"] = rc == 0
    rc, out = sh(["go", "build", "./..."])
    res["compiles"] = rc == 0
    got = passing()
    missing = [t for t in want if t not in got]
    res["baseline_still_passes"] = not missing
    res["baseline_missing"] = missing
    shutil.copy(os.path.join(d, "demo_test.go"), demo_dst)
    rc1, out1 = sh(["go", "test", "-vet=off", "-count=1", "-run", pat, "./" + pkg], timeout=1200)
    res["demo_with_change"] = "fail" if rc1 != 0 else "PASS"
    res["demo_output_tail"] = out1[-400:]
    res["ok"] = bool(res["applies"] and res["compiles"] and res["baseline_still_passes"]
                     and res["demo_without_change"] == "pass" and res["demo_with_change"] == "fail")
finally:
    subprocess.run(["git", "-C", "/repo", "worktree", "remove", "--force", wt], capture_output=True)
    shutil.rmtree(wt, ignore_errors=True)
print(json.dumps(res, indent=1))
sys.exit(0 if res.get("ok") else 1)
