#!/usr/bin/env bash
# Mutation self-test of the translation of the parser loops of the hash parsers with two tables / buckets
# (tools/extract/code_parse.go, topics DHPParse, BDHPParse, BUPParse; tools/extract/code_ptralias.go) and of
# LzProofs/GenDHPParse.lean, GenBDHPParse.lean, GenBUPParse.lean (gen_*_parse: translated Parse = ProbeW.parseW).
# Same mechanics as genhp_selftest.sh; every mutant names the proof target it is checked against.
#
# For every mutant: copy the repository to a fresh directory under /tmp, apply one small semantic
# change, regenerate LzModel/Generated/Code*.lean from the copy into a COPY of the lake
# project, and build the target module there.
#   kind proof    : the build must FAIL (the failing theorems are listed)
#   kind extract  : the extractor must refuse a topic (exit status 3)
#   kind harmless : a behaviour-preserving rewrite — extractor and build must still succeed
# The working tree (<verif>/lean) is never touched; scratch-repo and the copy are removed.
#
# usage: ./gendhp_selftest.sh     (ONLY=<regex> restricts the run to the mutants whose name matches)
#        ./gendhp_selftest.sh    exit status 0 iff every mutant behaves as expected
set -u
export GOFLAGS=-mod=mod GOPROXY=off GOSUMDB=off GOTOOLCHAIN=local

HERE="$(cd "$(dirname "$0")/.." && pwd)"
REPO="${REPO:-/repo}"
SCRATCH="$(mktemp -d /tmp/pf-gendhp-selftest.XXXXXX)"
LEAN="$SCRATCH/lean"
GEN="$LEAN/LzModel/Generated"
MUT="$(mktemp -d /tmp/pf-mutrepo.XXXXXX)/scratch-repo"   # scratch copies of the library live outside /verif and /repo
EXTRACT="$SCRATCH/extract"
TARGETS="${TARGETS:-LzProofs.GenDHPParse LzProofs.GenBDHPParse}"
bad=0; good=0; total=0

cleanup() { rm -rf "$SCRATCH" "$MUT"; }
trap cleanup EXIT

cp -r "$HERE/lean" "$LEAN"
(cd "$HERE/tools/extract" && go build -o "$EXTRACT" .) || { echo "cannot build the extractor"; exit 1; }

failing_theorems() {
  grep -o 'error: LzProofs/Gen[A-Za-z]*\.lean:[0-9]*' "$1" | sed 's/error: //' | sort -u | while IFS=: read -r f ln; do
    awk -v L="$ln" -v F="$(basename "$f" .lean)" 'NR<=L && /^theorem /{name=$2} END{if (name=="") name="(import)"; print F ":" name}' "$LEAN/$f"
  done | sort -u | tr '\n' ' '
}
build() { (cd "$LEAN" && lake build $TARGETS) >"$1" 2>&1; }

# mutant <name> <kind> <file> <perl program>
mutant() {
  local name="$1" kind="$2" file="$3" prog="$4"
  if [ -n "${ONLY:-}" ] && ! printf '%s' "$name" | grep -q -- "$ONLY"; then return; fi
  total=$((total+1))
  rm -rf "$MUT"; cp -r "$REPO" "$MUT"; rm -rf "$MUT/.git"
  perl -0pi -e "$prog" "$MUT/$file"
  if cmp -s "$MUT/$file" "$REPO/$file"; then
    echo "ERROR    $name: the mutation did not apply to $file"; bad=$((bad+1)); return
  fi
  (cd "$MUT" && go build ./... >/dev/null 2>"$SCRATCH/gobuild.err") || {
    echo "ERROR    $name: the mutated repository does not compile: $(head -2 "$SCRATCH/gobuild.err" | tr '\n' ' ')"; bad=$((bad+1)); return; }
  "$EXTRACT" -repo "$MUT" -out "$SCRATCH/facts.lean" -code "$GEN/Code.lean" 2>"$SCRATCH/extract.err"
  local rc=$?
  local refused
  refused="$(grep -o 'topic [A-Za-z0-9]* REFUSED' "$SCRATCH/extract.err" | awk '{print $2}' | tr '\n' ' ' | sed 's/ $//')"
  case "$kind" in
  extract)
    if [ $rc -eq 3 ] && [ -n "$refused" ]; then
      echo "REFUSED  $name  [topics: $refused — $(grep -v REFUSED "$SCRATCH/extract.err" | head -1 | sed 's/^ *//')]"; good=$((good+1))
    else
      echo "ACCEPTED $name: the extractor accepted a construct it must refuse (status $rc)"; bad=$((bad+1))
    fi ;;
  proof)
    if [ $rc -ne 0 ]; then
      echo "ERROR    $name: extractor status $rc: $(head -3 "$SCRATCH/extract.err" | tr '\n' ' ')"; bad=$((bad+1))
    elif build "$SCRATCH/build.log"; then
      echo "SURVIVED $name: the proof modules still build"; bad=$((bad+1))
    else
      echo "KILLED   $name  [failing: $(failing_theorems "$SCRATCH/build.log")]"; good=$((good+1))
    fi ;;
  harmless)
    if [ $rc -ne 0 ]; then
      echo "BROKEN   $name: extractor status $rc: $(head -3 "$SCRATCH/extract.err" | tr '\n' ' ')"; bad=$((bad+1))
    elif build "$SCRATCH/build.log"; then
      echo "HARMLESS $name  [still builds]"; good=$((good+1))
    else
      echo "BROKEN   $name: a harmless rewrite breaks [$(failing_theorems "$SCRATCH/build.log")]"; bad=$((bad+1))
    fi ;;
  esac
}

echo "== baseline: code generated from $REPO, the proof modules build"
"$EXTRACT" -repo "$REPO" -out "$SCRATCH/facts.lean" -code "$GEN/Code.lean" || { echo "extractor failed on $REPO"; exit 1; }
diff -r "$GEN" "$HERE/lean/LzModel/Generated" >/dev/null || echo "   note: the Generated directory of the working tree is not up to date with $REPO"
build "$SCRATCH/base.log" || { echo "baseline build FAILED"; grep -A8 '^error' "$SCRATCH/base.log" | head -40; exit 1; }
echo "   ok"

echo "== mutants"
# --- dhp.go: the two greedy loops of (*doubleHashParser).Parse           (target LzProofs.GenDHPParse)
TARGETS=LzProofs.GenDHPParse
mutant "dhp: the entry of h1 is preferred to the entry of h2"   proof dhp.go 's/(func \(s \*doubleHashParser\) Parse.*?)\t\tif v2 != entry\.value \{\n\t\t\tif v1 != entry1\.value \{\n\t\t\t\tcontinue\n\t\t\t\}\n\t\t\tentry = entry1\n\t\t\}\n/${1}\t\tif v1 == entry1.value {\n\t\t\tentry = entry1\n\t\t} else if v2 != entry.value {\n\t\t\tcontinue\n\t\t}\n/s'
mutant "dhp: the h1 entry is stored into the table of h2"        proof dhp.go 's/(func \(s \*doubleHashParser\) Parse.*?)\t\ts\.h1\.table\[h\] = hashEntry\{pos: pos, value: v1\}/${1}\t\ts.h2.table[h] = hashEntry{pos: pos, value: v1}/s'
mutant "dhp: window test on the position j instead of the offset" proof dhp.go 's/(func \(s \*doubleHashParser\) Parse.*?)o <= s\.WindowSize/${1}j <= s.WindowSize/s'
mutant "dhp: first loop runs to e1"                               proof dhp.go 's/(func \(s \*doubleHashParser\) Parse.*?)for ; i < e2; i\+\+/${1}for ; i < e1; i++/s'
mutant "dhp: h1-only re-indexing clamped to e2 instead of e1"     proof dhp.go 's/(func \(s \*doubleHashParser\) Parse.*?)\t\t\tb = litIndex\n\t\t\tif litIndex > e1 \{\n\t\t\t\tb = e1\n/${1}\t\t\tb = litIndex\n\t\t\tif litIndex > e1 {\n\t\t\t\tb = e2\n/s'
mutant "dhp: tail loop re-indexes from i + 1 (not from the match position j)" proof dhp.go 's/(func \(s \*doubleHashParser\) Parse.*match1:.*?)\t\tfor ; j < b; j\+\+ \{/${1}\t\tfor j = i + 1; j < b; j++ {/s'
mutant "dhp: tail loop bound e1 - 1"                              proof dhp.go 's/(func \(s \*doubleHashParser\) Parse.*?)\tfor ; i < e1; i\+\+ \{/${1}\tfor ; i < e1-1; i++ {/s'
mutant "processSegment (double): second loop starts at a"         proof hash.go 's/for i := b2; i < b1; i\+\+/for i := a; i < b1; i++/'
mutant "processSegment (double): x2 masked with the mask of h1"   proof hash.go 's/x1, x2 := x&h1\.mask, x&h2\.mask/x1, x2 := x\&h1.mask, x\&h1.mask/'
mutant "harmless: block size clamp written n > s.BlockSize"       harmless dhp.go 's/(func \(s \*doubleHashParser\) Parse.*?)\tif s\.BlockSize < n \{/${1}\tif n > s.BlockSize {/s'
mutant "harmless: window test written o <= 0 || o > WindowSize (first loop)" harmless dhp.go 's/(func \(s \*doubleHashParser\) Parse.*?)if !\(0 < o && o <= s\.WindowSize\) \{/${1}if o <= 0 || o > s.WindowSize {/s'
mutant "harmless: re-index bound written if b > e2"               harmless dhp.go 's/(func \(s \*doubleHashParser\) Parse.*?)\t\tif litIndex > e2 \{\n\t\t\tb = e2/${1}\t\tif b > e2 {\n\t\t\tb = e2/s'
mutant "alias: h1 reassigned after h1, h2 := &f.h1, &f.h2"        extract hash.go 's/(h1, h2 := &f\.h1, &f\.h2\n)/${1}\th1 = h2\n/'

# --- bdhp.go: the two greedy loops of (*bdhp).Parse                        (target LzProofs.GenBDHPParse)
TARGETS=LzProofs.GenBDHPParse
mutant "bdhp: backward extension bounded by i instead of j"       proof bdhp.go 's/(func \(s \*bdhp\) Parse.*?)\t\t\tif back > j \{\n\t\t\t\tback = j\n/${1}\t\t\tif back > i {\n\t\t\t\tback = i\n/s'
mutant "bdhp: match length not increased by the backward extension" proof bdhp.go 's/(func \(s \*bdhp\) Parse.*?)\t\t\ti -= m\n\t\t\tk \+= m\n/${1}\t\t\ti -= m\n/s'
mutant "bdhp: first loop re-indexes from i + 2"                   proof bdhp.go 's/(func \(s \*bdhp\) Parse.*?)for j = i \+ 1; j < b; j\+\+/${1}for j = i + 2; j < b; j++/s'
mutant "bdhp: first loop also re-indexes h2 (as dhp.go does)"     proof bdhp.go 's/(func \(s \*bdhp\) Parse.*?)(\t\t\tx = y & s\.h1\.mask\n\t\t\th = hashValue\(x, s\.h1\.shift\)\n\t\t\ts\.h1\.table\[h\] = hashEntry\{pos: pos, value: uint32\(x\)\}\n)/${1}\t\t\tx = y \& s.h2.mask\n\t\t\th = hashValue(x, s.h2.shift)\n\t\t\ts.h2.table[h] = hashEntry{pos: pos, value: uint32(x)}\n${2}/s'
mutant "bdhp: tail loop bound off by one (i <= e1)"               proof bdhp.go 's/(func \(s \*bdhp\) Parse.*?)\tfor ; i < e1; i\+\+ \{/${1}\tfor ; i <= e1; i++ {/s'
mutant "bdhp: tail loop window test o < WindowSize"               proof bdhp.go 's/(func \(s \*bdhp\) Parse.*\tfor ; i < e1; i\+\+ \{.*?)o <= s\.WindowSize/${1}o < s.WindowSize/s'
mutant "harmless: window test written o <= 0 || o > WindowSize (bdhp first loop)" harmless bdhp.go 's/(func \(s \*bdhp\) Parse.*?)if !\(0 < o && o <= s\.WindowSize\) \{/${1}if o <= 0 || o > s.WindowSize {/s'
mutant "harmless: bdhp block size clamp written s.BlockSize < n"  harmless bdhp.go 's/(func \(s \*bdhp\) Parse.*?)\tif n > s\.BlockSize \{/${1}\tif s.BlockSize < n {/s'

echo "== summary: $good of $total mutants behaved as expected, $bad did not"
[ $bad -eq 0 ]
