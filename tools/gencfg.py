#!/usr/bin/env python3
"""Generates /verif/checkcfg.json and /verif/MANIFEST.json from one table."""
import json, os

V = os.path.dirname(os.path.dirname(os.path.abspath(__file__)))

SIZE_CLASSES = [8, 16, 24, 32, 48, 64, 80, 96, 112, 128, 144, 160, 176, 192, 208, 224, 240, 256,
                288, 320, 352, 384, 416, 448, 480, 512, 576, 640, 704, 768, 896, 1024, 1152, 1280, 1408, 1536,
                1792, 2048, 2304, 2688, 3072, 3200, 3456, 4096, 4864, 5376, 6144, 6528, 6784, 6912, 8192, 9472,
                9728, 10240, 10880, 12288, 13568, 14336, 16384, 18432, 19072, 20480, 21760, 24576, 27264, 28672, 32768]

TRUSTED = [
    "Lean 4.33 kernel (thorough tier: re-checked with leanchecker)",
    "axioms admitted for property theorems: propext, Classical.choice, Quot.sound only (audited with #print axioms on every run); no native_decide, no bv_decide, no sorry",
    "tools/extract (go/parser based translator of constants, schema, type tags, package variables into LzModel/Generated/Facts.lean, and of the bodies of the small pure functions into Generated/Code.lean; the translator itself is exercised by tools/gen_difftest.sh and tools/gen_selftest.sh)",
    "harness: generators, canonicaliser of outputs, Go oracles; lzdriver line protocol",
    "statements of the theorems and the reference semantics in LzModel/Basic.lean (copyRef, expandSeqs, expand, lcpLen)",
    "modelled, not verified: word-at-a-time byte comparison (lcp/lcs/matchLen bit tricks), bitset word layout, DivSufSort internals, Go runtime (append growth, copy/memmove, bounds checks), encoding/json, reflect, slices.Sort",
]

QUICK_SCALE = 3   # quick tier: scripts per shard = table value x QUICK_SCALE (exhaustive suites excepted)

def S(suite, quick, thorough, require=(), shards=8, hang="20s"):
    if "exhaustive" not in suite:
        quick = min(quick * QUICK_SCALE, thorough)
    return {"suite": suite, "quick": quick, "thorough": thorough, "require": list(require), "shards": shards, "hang": hang}

def O(theorem, module, strength="full", note=""):
    return {"theorem": theorem, "module": module, "strength": strength, "note": note}

FACTS = "LzProofs.FactsProps"

# theorem obligations per property; extended as proofs land (see obligations in DESIGN.md §8)
OBL = json.load(open(os.path.join(V, "obligations.json")))

P = {}
def prop(pid, level, text, technique, suites, note, rule, design, assumptions=(), explanation=""):
    if not OBL.get(pid):
        level = "translation_validation"   # no theorem registered yet: only the correspondence decides
    P[pid] = dict(level=level, text=text, technique=technique, suites=suites, note=note, rule=rule,
                  design=design, assumptions=list(assumptions), explanation=explanation,
                  obligations=OBL.get(pid, []))

GEN_RULE = ("scripts are generated from one splitmix64 state (VERIF_SEED) with tiny buffer geometries so that every "
            "mechanism wraps within a script; a script is non-trivial when it reaches one of the suite's deep counters "
            "(e.g. a block with matches, an effective Shrink, a truncated NoTrailingLiterals block); distinct = distinct "
            "sha256 of the operation lines")

prop("C01", "proof", "Lean theorems: the greedy loop invariant (independent of the search structure) gives round-trip for the six greedy parsers; the model is tied to the Go code by executing both on the same scripts; Go oracle re-expands every block",
     "Lean 4 loop-invariant proof + model/impl differential correspondence",
     [S("p-general", 300, 6000, ["p.parse.matches", "p.shrink.effective", "p.reset.data", "p.parse.ntl.truncated"]),
      S("u-units", 100, 2000, ["u.ulcp", "u.ulcs"]), S("p-exhaustive", 5355, 42987, []), S("p-hugewin", 600, 6000, ["p.parse.ntl.truncated", "p.parse.matches"]), S("p-large", 4, 80, ["p.parse.matches", "p.match.offset>=64K"], hang="120s")],
     "trusted: Lean kernel, theorem statements, harness+extractor; byte comparison tricks modelled at byte level (tied by u-units)", GEN_RULE, "§8 C01")
prop("C02", "proof", "Lean theorem on emitted sequences (offset within window and position, minimum length, Aux 0, LitLen sum) from the probe contract; oracle checks every sequence of every generated block",
     "Lean 4 proof of the probe contract + differential correspondence",
     [S("p-general", 300, 6000, ["p.parse.matches", "p.match.offset=window"]), S("p-exhaustive", 5355, 42987, []), S("p-hugewin", 600, 6000, ["p.parse.ntl.truncated", "p.parse.matches"]), S("p-large", 4, 80, ["p.parse.matches"], hang="120s")],
     "as C01", GEN_RULE, "§8 C02")
prop("C03", "proof", "Lean theorems on Parse accounting (n, ErrEmptyBuffer, NoTrailingLiterals) from finishBlock; oracle compares n with Block.Len and the remaining input",
     "Lean 4 proof + differential correspondence",
     [S("p-general", 300, 6000, ["p.parse.ntl.truncated", "p.parse.literalonly", "p.parse.empty"]), S("p-exhaustive", 5355, 42987, []), S("p-large", 4, 80, ["p.parse.matches"], hang="120s"), S("p-bigbuf", 8, 200, ["p.bigbuf"])],
     "as C01", GEN_RULE, "§8 C03")
prop("C04", "proof", "refinement of the DecoderBuffer model to an append-only byte log (all growth functions) incl. the doubling copy; model tied by differential scripts that compare len, R, Off, BufferSize and cap after every operation",
     "Lean 4 refinement proof + differential correspondence",
     [S("d-buf", 300, 6000, ["d.wblk.ok", "d.wblk.shrunk", "d.match.overlap", "d.match.doubling2", "d.read"]),
      S("dd", 200, 4000, ["d.wblk.ok", "dd.flush.ok"], hang="10s"), S("d-exhaustive", 11311, 135727, []), S("d-large", 2, 60, ["d.large", "d.wblk.ok"], hang="60s")],
     "trusted: as C01; Go runtime slice growth is a parameter of the theorems and transcribed (self-tested against append) for execution", GEN_RULE, "§8 C04")
prop("C05", "proof", "rejection conditions and atomicity of WriteMatch/WriteBlock as Lean theorems over the full uint32 range; malformed-stream generator; caller's block compared before/after",
     "Lean 4 proof + differential correspondence with malformed streams",
     [S("d-malformed", 300, 6000, ["d.malformed", "d.wblk.ok"]), S("d-buf", 100, 1000, []), S("d-exhaustive", 11311, 135727, []),
      S("d-large", 2, 60, ["d.large", "d.large.malformed"], hang="60s")],
     "as C04", GEN_RULE, "§8 C05")
prop("C06", "proof", "the Decoder retry loops are total Lean functions whose spin branch (hang marker) is proved unreachable; harness watchdog reports hangs of the real code",
     "Lean 4 termination proof (unreachable hang marker) + watchdog differential runs",
     [S("dd", 300, 5000, ["dd.write.oversize", "d.wblk.ok"], hang="10s"), S("dd-faults", 200, 3000, ["dd.flush.err"], hang="10s"), S("d-large", 2, 60, ["d.large", "d.wblk.ok"], hang="60s")],
     "assumes the destination writer returns", GEN_RULE, "§8 C06")
prop("C07", "proof", "composition of the parser-side well-formedness and decoder acceptance theorems; partial: sequences with LitLen+MatchLen > BufferSize-WindowSize are refused (known finding); parser blocks are piped into Decoders with the same window",
     "Lean 4 proof (partial) + parser→decoder pipeline correspondence",
     [S("c07", 300, 5000, ["c07.roundtrip.ok", "c07.block"]), S("d-large", 2, 60, ["d.large", "d.wblk.ok"], hang="60s"), S("p-large", 4, 80, ["p.parse.matches", "p.match.offset>=64K"], hang="120s")],
     "known finding: errMatchLen for g > BufferSize-WindowSize", GEN_RULE, "§8 C07")
prop("C08", "proof", "Wrap as a derived machine of the parser model; ReadFrom chunking independence and no-panic proved on PBuf; reader scripts with short reads, EOF with data and errors",
     "Lean 4 proof on the buffer model + differential correspondence with scripted readers",
     [S("p-wrap", 300, 5000, ["w.eof", "w.readererr", "w.shrunk"]), S("p-bigbuf", 8, 200, ["p.bigbuf", "p.readfrom.full"]),
      S("p-large", 4, 80, ["p.large.wrap"], hang="120s")],
     "assumes readers never return (0, nil) forever", GEN_RULE, "§8 C08")
prop("C09", "proof", "suffix.Sort is certified per input against the Lean specification saSpec (sorted permutation, proved unique), large inputs by a Lean-verified linear checker run by the model driver; _lcp (Kasai) and InvertSA are translated from lcp.go on every run, proved equal to the model and correct for every previous contents of the output tables",
     "Lean 4 proof (Kasai, InvertSA, regenerated translation of lcp.go, verified linear suffix-array checker) + per-input certification of Sort against a verified specification",
     [S("s-suffix", 300, 5000, ["s.sort", "s.lcp", "s.sort.long"]), S("s-exhaustive", 256, 2048, ["s.sort"]),
      S("s-budget", 400, 8000, ["s.budget.fail", "s.budget.partialcopy"]), S("s-large", 12, 400, ["s.sort.large"])],
     "DivSufSort internals are not modelled; forced thresholds 1..3 via the verif hook", GEN_RULE, "§8 C09")
prop("C10", "proof", "scanLCP modelled as the exact stack machine; soundness, completeness/uniqueness and children-first proved in Lean for every 0 <= minLen <= maxLen; Segments/scanLCP translated from segments.go on every run and proved equal to the model; arbitrary LCP profiles and real texts compared incl. callback order",
     "Lean 4 invariant proof of the stack machine + regenerated translation of segments.go proved equal to the model + differential correspondence",
     [S("s-suffix", 400, 6000, ["s.segments.checked", "s.segtext"])],
     "as C01", GEN_RULE, "§8 C10")
prop("C11", "proof", "DP optimality over stored edges proved in Lean (with the literal relaxation); edges/DP modelled exactly incl. tie-breaking; Go oracle compares with an independent brute-force optimum",
     "Lean 4 optimality proof of the DP + differential correspondence + brute-force oracle",
     [S("p-osap", 250, 4000, ["osap.block.withmatches", "osap.after-shrink"]), S("p-large", 4, 80, ["p.large.osapfar"], hang="120s")],
     "edge completeness w.r.t. the suffix array is a named hypothesis until discharged", GEN_RULE, "§8 C11")
prop("C12", "proof", "rank-neighbour maximality (sandwich lemma) proved in Lean; GSAP loop modelled exactly; bitset word layout tied to the set model; brute-force longest-match oracle",
     "Lean 4 proof (neighbour maximality) + differential correspondence + brute-force oracle",
     [S("p-gsap", 300, 5000, ["gsap.match.checked", "gsap.literal.checked", "gsap.after-shrink", "p.midsa"]), S("u-units", 100, 1500, ["u.bitset.clear"]), S("p-nil-GSAP", 60, 1000, ["p.parsenil.data", "p.parse.matches"])],
     "histories without Parse(nil) as the property states", GEN_RULE, "§8 C12")
prop("C13", "proof", "Reset clears every search structure in the model (tied by correspondence on post-Reset behaviour and twin comparison with a fresh parser); no shared mutable state is a decide-d fact over the regenerated package variables",
     "Lean 4 facts over regenerated source data + twin-parser differential runs",
     [S("p-reset", 300, 5000, ["p.twin.fresh", "p.twin.blocks"]), S("p-reset-stale", 300, 5000, ["p.twin.fresh", "p.twin.blocks"]),
      S("p-reset-sa", 60, 1200, ["p.twin.fresh", "p.twin.blocks"]), S("p-reset-bigtable", 60, 1500, ["p.twin.fresh", "p.twin.blocks"]), S("p-large", 4, 80, ["p.parse.matches", "p.match.offset>=64K"], hang="120s")],
     "schedules clause reduced to the absence of package-level mutable state (syntactic criteria of the extractor)", GEN_RULE, "§8 C13")
prop("C14", "proof", "Parse(nil) accounting and drain theorem in Lean; generator with raised Parse(nil) weight; later blocks checked against a decoder that got the skipped bytes verbatim",
     "Lean 4 proof + differential correspondence",
     [S("p-nil", 300, 5000, ["p.parsenil.data", "p.parse.matches"]), S("p-bigbuf", 8, 200, ["p.bigbuf"]), S("p-large", 4, 80, ["p.large.giant"], hang="120s")],
     "as C01", GEN_RULE, "§8 C14")
prop("C15", "proof", "refinement of ParserBuffer to (fed, Off) with the 7-byte margin invariant; probes at Off-1, Off, Off+len-1, Off+len, Off+len+1; readers with short reads and errors; Reset(data) with every capacity class",
     "Lean 4 refinement proof + differential correspondence",
     [S("p-view", 300, 5000, ["p.shrink.effective", "p.readat.pastend", "p.byteat.end", "p.write.full", "p.readfrom.full", "p.reset.data"]),
      S("p-bigbuf", 8, 200, ["p.bigbuf", "p.shrink.effective", "p.readfrom.full"]), S("p-large", 4, 80, ["p.parse.matches"], hang="120s")],
     "as C01", GEN_RULE, "§8 C15")
prop("C16", "proof", "NewParser ⇔ Verify∘SetDefaults over Int fields; the bodies of every SetDefaults/Verify are re-translated from the Go source on every run and proved equal to the model (GenProps); panic guards in the model are values; boundary configurations through several fills under recover and watchdog; large geometries (oracle only)",
     "Lean 4 proof + regenerated Go->Lean translation of the configuration code + differential correspondence on wild configurations",
     [S("c-config", 300, 5000, ["c.newparser.accepted", "c.newparser.rejected"]), S("p-general", 200, 3000, ["p.parse.matches"]), S("p-wildcfg", 300, 6000, ["p.parse.matches", "p.cfg.rejected"]), S("p-wrap", 100, 1500, ["w.eof"]), S("p-large", 4, 80, ["p.parse.matches", "p.match.offset>=64K"], hang="120s")],
     "BufferSize ≤ MaxInt32 for GSAP/OSAP is a stated bound (D18)", GEN_RULE, "§8 C16")
prop("C17", "proof", "n, k, l and Off exactness as part of the decoder refinement; scripts biased to a full buffer with already-read bytes",
     "Lean 4 refinement proof + differential correspondence",
     [S("d-counts", 300, 5000, ["d.wblk.shrunk-after-read", "d.full"]), S("dd", 200, 3000, ["d.wblk.ok"], hang="10s"), S("d-large", 2, 60, ["d.large", "d.wblk.ok"], hang="60s")],
     "as C04", GEN_RULE, "§8 C17")
prop("C18", "proof", "writer scripts with every placement of short writes and errors; delivered-prefix invariant and retry theorem in Lean",
     "Lean 4 proof + differential correspondence with fault-injecting writers",
     [S("dd-faults", 300, 5000, ["dd.flush.err", "dd.flush.ok", "d.wblk.ok"], hang="10s")],
     "as C06", GEN_RULE, "§8 C18")
prop("C19", "proof", "right/left maximality from k = lcpLen exactly (Lean); run clause decided by proof for all seven parsers: proved for every reachable state of HP, BHP, DHP (table freshness invariant), OSAP (exchange argument on C11) and GSAP with BufferSize <= WindowSize; refuted with kernel-checked witnesses and bounded for BUP, BDHP and GSAP(BufferSize > WindowSize), which are known findings; run-heavy and large-geometry scripts search the implementation",
     "Lean 4 proof (maximality, freshness invariant over all histories, exchange argument) + run-heavy differential correspondence",
     [S("p-runs", 300, 5000, ["p.runblock", "p.match.toblockend"]), S("p-general", 100, 2000, ["p.match.backcheck"]), S("p-large", 4, 80, ["p.parse.matches", "p.match.offset>=64K"], hang="120s")],
     "run clause for BUP, BDHP, GSAP(BufferSize > WindowSize): known findings with proven upper bounds; OSAP under Int32OK (D18)", GEN_RULE, "§8 C19, §13.2")
prop("C20", "proof", "JSON round trip generic over the regenerated schema (union covers fields, tags injective by decide), SetDefaults idempotence (model proved equal to the re-translated Go bodies, GenProps), reported configuration; arbitrary JSON documents compared with encoding/json",
     "Lean 4 proof over the regenerated schema and the regenerated Go->Lean translation + differential correspondence with encoding/json",
     [S("c-config", 300, 5000, ["c.marshal", "c.json.accepted", "c.json.rejected", "c.defaults"])],
     "encoding/json and reflect trusted; strings are valid UTF-8", GEN_RULE, "§8 C20")

cfg = {"size_classes": SIZE_CLASSES, "trusted_base": TRUSTED, "properties": {}}
for pid, p in P.items():
    cfg["properties"][pid] = {"level": p["level"], "suites": p["suites"], "obligations": p["obligations"],
                              "race_suite": "p-reset" if pid == "C13" else None,
                              "rule": p["rule"], "assumptions": p["assumptions"] or [p["note"]],
                              "explanation": p["text"]}
json.dump(cfg, open(os.path.join(V, "checkcfg.json"), "w"), indent=1)

man = {
    "version": 1,
    "setup_cmd": "./check --setup",
    "hooks": {
        "guard": "verif",
        "enable": "go build -tags verif (harness module with `replace github.com/ulikunitz/lz => /repo`)",
        "baseline_off_cmd": "/verif/tools/baseline.sh",
        "source_commits": json.load(open(os.path.join(V, "hooks.json"))),
        "add_only": True,
    },
    "engines": [
        {"name": "lean-model", "path": "lean", "serves_properties": sorted(P), "kind_free_text": "Lean 4 executable model (LzModel), proofs (LzProofs), compiled driver lzdriver"},
        {"name": "harness", "path": "harness", "serves_properties": sorted(P), "kind_free_text": "Go harness: seeded script generators, in-process execution of the real code (-tags verif), oracles"},
        {"name": "extract", "path": "tools/extract", "serves_properties": ["C01", "C03", "C04", "C05", "C06", "C08", "C09", "C10", "C11", "C12", "C13", "C15", "C16", "C17", "C18", "C20"], "kind_free_text": "go/ast translator regenerating LzModel/Generated/Facts.lean (constants, schema, tags, package state) and Generated/Code*.lean (Lean translation, per topic, of the bodies of the configuration functions, XZCost, hashValue, Block.Len, the ParserBuffer and DecoderBuffer methods, hash.init/reset/shiftOffsets, the hash and double-hash dictionaries' init/Reset/Shrink, hashParser.init, bucketHash.reset, suffix/lcp.go InvertSA and _lcp, suffix/segments.go Segments and scanLCP, bitset.go clear/memberBefore/memberAfter, the Decoder layer Write/WriteByte/WriteBlock/Flush/Reset, wrap.go, and — translation only, proof pending — hashParser.Parse) on every run"},
    ],
    "checks": [],
    "not_applicable": [],
    "notes": "Every check regenerates Facts.lean from /repo, rebuilds model, proofs and harness, audits the axioms of the property's theorems, runs the corpus and the generated suites on implementation and model, and diffs. See DESIGN.md.",
}
for pid in sorted(P):
    p = P[pid]
    man["checks"].append({
        "property_id": pid,
        "quick_cmd": "./check %s --tier quick" % pid,
        "thorough_cmd": "./check %s --tier thorough" % pid,
        "evidence_file": "evidence/%s.json" % pid,
        "replay_cmd_template": "./check %s --replay {path}" % pid,
        "engine": "lean-model",
        "level_claimed": {"category": p["level"], "text": p["text"], "design_ref": "DESIGN.md " + p["design"]},
        "level_note": p["note"],
        "technique": p["technique"],
    })
json.dump(man, open(os.path.join(V, "MANIFEST.json"), "w"), indent=1)
print("wrote checkcfg.json and MANIFEST.json (%d checks)" % len(man["checks"]))
