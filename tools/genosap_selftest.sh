#!/usr/bin/env bash
# Mutation self-test of the ninth part of the translator (tools/extract/code_osap.go: fields of function type,
# consumed slice parameters / scratch fields, local aliases of slice values, slices of slices):
#   topic OSAPPath      osap.go (*optSuffixArrayParser).shortestPath     proofs LzProofs/GenOSAPLemmas.lean, GenOSAPPath.lean
#   topic OSAPParse     osap.go (*optSuffixArrayParser).Parse            proofs LzProofs/GenOSAPParse*.lean, GenOSAPAll.lean
#   topic OSAPInit      osap.go (*optSuffixArrayParser).init, Reset, Shrink, resetEdges   proofs LzProofs/GenOSAPInit.lean
#   topic OSAPEdges     osap.go (*optSuffixArrayParser).computeEdges with its closure f (lambda-lifted, code_cblift.go)
#                       proofs LzProofs/GenOSAPEdgesCB.lean, GenOSAPEdgesFold.lean, GenOSAPEdges.lean, GenOSAPHistGo.lean
#
# For every mutant: copy the repository to a fresh directory under /tmp, apply one small semantic
# change, regenerate LzModel/Generated/Code*.lean from the copy into a COPY of the lake
# project, and build LzProofs.GenOSAPPath LzProofs.GenOSAPParse LzProofs.GenOSAPInit LzProofs.GenOSAPAll there.
#   kind proof    : the build must FAIL (the failing theorems are listed)
#   kind extract  : the extractor must refuse a topic (exit status 3)
#   kind harmless : a behaviour-preserving rewrite — extractor and build must still succeed
# The working tree (<verif>/lean) is never touched; scratch-repo and the copy are removed.
#
# usage: ./genosap_selftest.sh     (ONLY=<regex> restricts the run to the mutants whose name matches)
#        ./genosap_selftest.sh     exit status 0 iff every mutant behaves as expected
set -u
export GOFLAGS=-mod=mod GOPROXY=off GOSUMDB=off GOTOOLCHAIN=local

HERE="$(cd "$(dirname "$0")/.." && pwd)"
REPO="${REPO:-/repo}"
SCRATCH="$(mktemp -d /tmp/pf-genosap-selftest.XXXXXX)"
LEAN="$SCRATCH/lean"
GEN="$LEAN/LzModel/Generated"
MUT="$(mktemp -d /tmp/pf-mutrepo.XXXXXX)/scratch-repo"   # scratch copies of the library live outside /verif and /repo
EXTRACT="$SCRATCH/extract"
TARGETS="${TARGETS:-LzProofs.GenOSAPPath LzProofs.GenOSAPParse LzProofs.GenOSAPInit LzProofs.GenOSAPAll LzProofs.GenOSAPEdges LzProofs.GenOSAPHistGo}"
bad=0; good=0; total=0

cleanup() { rm -rf "$SCRATCH" "$MUT"; }
trap cleanup EXIT

cp -r "$HERE/lean" "$LEAN"
(cd "$HERE/tools/extract" && go build -o "$EXTRACT" .) || { echo "cannot build the extractor"; exit 1; }

failing_theorems() {
  grep -o 'error: LzProofs/Gen[A-Za-z]*\.lean:[0-9]*' "$1" | sed 's/error: //' | sort -u | while IFS=: read -r f ln; do
    awk -v L="$ln" -v F="$(basename "$f" .lean)" 'NR<=L && /^theorem /{name=$2} END{if (name=="") name="(import)"; print F ":" name}' "$LEAN/$f"
  done | sort -u | tr '\n' ' '
}
build() { (cd "$LEAN" && lake build $TARGETS) >"$1" 2>&1; }

# mutant <name> <kind> <file> <perl program>
mutant() {
  local name="$1" kind="$2" file="$3" prog="$4"
  if [ -n "${ONLY:-}" ] && ! printf '%s' "$name" | grep -q -- "$ONLY"; then return; fi
  total=$((total+1))
  rm -rf "$MUT"; cp -r "$REPO" "$MUT"; rm -rf "$MUT/.git"
  perl -0pi -e "$prog" "$MUT/$file"
  if cmp -s "$MUT/$file" "$REPO/$file"; then
    echo "ERROR    $name: the mutation did not apply to $file"; bad=$((bad+1)); return
  fi
  (cd "$MUT" && go build ./... >/dev/null 2>"$SCRATCH/gobuild.err") || {
    echo "ERROR    $name: the mutated repository does not compile: $(head -2 "$SCRATCH/gobuild.err" | tr '\n' ' ')"; bad=$((bad+1)); return; }
  "$EXTRACT" -repo "$MUT" -out "$SCRATCH/facts.lean" -code "$GEN/Code.lean" 2>"$SCRATCH/extract.err"
  local rc=$?
  local refused
  refused="$(grep -o 'topic [A-Za-z0-9]* REFUSED' "$SCRATCH/extract.err" | awk '{print $2}' | tr '\n' ' ' | sed 's/ $//')"
  case "$kind" in
  extract)
    if [ $rc -eq 3 ] && [ -n "$refused" ]; then
      echo "REFUSED  $name  [topics: $refused — $(grep -v REFUSED "$SCRATCH/extract.err" | head -1 | sed 's/^ *//')]"; good=$((good+1))
    else
      echo "ACCEPTED $name: the extractor accepted a construct it must refuse (status $rc)"; bad=$((bad+1))
    fi ;;
  proof)
    if [ $rc -ne 0 ]; then
      echo "ERROR    $name: extractor status $rc: $(head -3 "$SCRATCH/extract.err" | tr '\n' ' ')"; bad=$((bad+1))
    elif build "$SCRATCH/build.log"; then
      echo "SURVIVED $name: the proof modules still build"; bad=$((bad+1))
    else
      echo "KILLED   $name  [failing: $(failing_theorems "$SCRATCH/build.log")]"; good=$((good+1))
    fi ;;
  harmless)
    if [ $rc -ne 0 ]; then
      echo "BROKEN   $name: extractor status $rc: $(head -3 "$SCRATCH/extract.err" | tr '\n' ' ')"; bad=$((bad+1))
    elif build "$SCRATCH/build.log"; then
      echo "HARMLESS $name  [still builds]"; good=$((good+1))
    else
      echo "BROKEN   $name: a harmless rewrite breaks [$(failing_theorems "$SCRATCH/build.log")]"; bad=$((bad+1))
    fi ;;
  esac
}

echo "== baseline: code generated from $REPO, the proof modules build"
"$EXTRACT" -repo "$REPO" -out "$SCRATCH/facts.lean" -code "$GEN/Code.lean" || { echo "extractor failed on $REPO"; exit 1; }
diff -r "$GEN" "$HERE/lean/LzModel/Generated" >/dev/null || echo "   note: the Generated directory of the working tree is not up to date with $REPO"
build "$SCRATCH/base.log" || { echo "baseline build FAILED"; grep -A8 '^error' "$SCRATCH/base.log" | head -40; exit 1; }
echo "   ok"

echo "== mutants"
# --- osap.go: (*optSuffixArrayParser).shortestPath (the DP)
mutant "dp: cost of a literal edge taken for length 2 (lit := s.cost(2, 0))"    proof osap.go 's/lit := s\.cost\(1, 0\)/lit := s.cost(2, 0)/'
mutant "dp: match relaxation with <= (a later equal path wins)"                 proof osap.go 's/\t\t\t\tif c < d\[j\]\.c \{/\t\t\t\tif c <= d[j].c {/'
mutant "dp: match lengths stop one short (m < max)"                             proof osap.go 's/m <= max; m\+\+/m < max; m++/'
mutant "dp: the edges of a position are walked in ascending order"              proof osap.go 's/for k := len\(q\) - 1; k >= 0; k-- \{/for k := 0; k < len(q); k++ {/'
mutant "dp: back-tracking steps by 1 instead of the edge length (i -= 1)"       proof osap.go 's/\t\ti -= m\n/\t\ti -= 1\n/'
mutant "dp: initial table without the all-literals cost (c: 0)"                 proof osap.go 's/d\[i\] = opt\{m: 1, o: 0, c: s\.cost\(uint32\(i\), 0\)\}/d[i] = opt{m: 1, o: 0, c: 0 * s.cost(uint32(i), 0)}/'
# --- osap.go: (*optSuffixArrayParser).Parse
mutant "parse: NoTrailingLiterals cuts a block without sequences as well"       proof osap.go 's/if flags&NoTrailingLiterals != 0 && len\(blk\.Sequences\) > 0 \{/if flags\&NoTrailingLiterals != 0 {/'
mutant "parse: stored edges reused one position too long (+1 in the reuse test)" proof osap.go 's/if s\.W\+n > s\.start\+len\(s\.edges\) \{/if s.W+n > s.start+len(s.edges)+1 {/'
mutant "parse: litIndex set before the match is skipped"                        proof osap.go 's/\t\ti \+= e\.m\n\t\tlitIndex = i\n/\t\tlitIndex = i\n\t\ti += e.m\n/'
mutant "parse: the path is walked forwards"                                     proof osap.go 's/for j := len\(sp\) - 1; j >= 0; j-- \{/for j := 0; j < len(sp); j++ {/'
# --- osap.go: init / Reset / Shrink / resetEdges
mutant "resetEdges: the edge count is not cleared"                              proof osap.go 's/\ts\.nEdges = 0\n(\ts\.tmp = s\.tmp\[:0\])/\ts.nEdges = 1\n${1}/'
mutant "shrink: the edge table is dropped only for delta > 1"                   proof osap.go 's/(func \(s \*optSuffixArrayParser\) Shrink.*?)if delta > 0 \{/${1}if delta > 1 {/s'
mutant "init: the cost function is not stored"                                  proof osap.go 's/\tcase "XZCost":\n\t\ts\.cost = XZCost\n/\tcase "XZCost":\n/'
# --- behaviour-preserving rewrites
mutant "harmless: relaxation written d[j].c > c"                                harmless osap.go 's/\t\t\t\tif c < d\[j\]\.c \{/\t\t\t\tif d[j].c > c {/'
mutant "harmless: back-tracking loop guard written i > 0"                       harmless osap.go 's/for i != 0 \{/for i > 0 {/'
mutant "harmless: block size clamp written with >="                             harmless osap.go 's/(func \(s \*optSuffixArrayParser\) Parse.*?)\tif n > s\.BlockSize \{/${1}\tif n >= s.BlockSize {/s'
mutant "harmless: NoTrailingLiterals test with swapped conjuncts"               harmless osap.go 's/if flags&NoTrailingLiterals != 0 && len\(blk\.Sequences\) > 0 \{/if len(blk.Sequences) > 0 \&\& flags\&NoTrailingLiterals != 0 {/'
# --- constructs the translator must refuse (soundness conditions of code_osap.go)
mutant "alias: the range value q is re-sliced to its capacity"                  extract osap.go 's/(for i, q := range edges \{\n)/${1}\t\tq = q[:cap(q)]\n/'
mutant "alias: the scratch slice s.tmp is handed out a second time"             extract osap.go 's/(\tsp := s\.shortestPath\(s\.tmp\[:0\], n\)\n)/\ttmp2 := s.tmp[:0]\n\t_ = tmp2\n${1}/'
mutant "fnfield: a closure is stored in the field cost"                         extract osap.go 's/\t\ts\.cost = XZCost\n/\t\ts.cost = func(m, o uint32) uint64 { return XZCost(m, o) }\n/'
mutant "alias: an element is written through the local alias of s.edges"        extract osap.go 's/(\tedges := s\.edges\[k : k\+n\]\n)/${1}\tedges[0] = nil\n/'
# --- osap.go: (*optSuffixArrayParser).computeEdges and its closure f (topic OSAPEdges, code_cblift.go; proofs
#     LzProofs/GenOSAPEdgesCB.lean, GenOSAPEdgesFold.lean, GenOSAPEdges.lean, GenOSAPHistGo.lean)
mutant "edges: window test o >= uint32(s.WindowSize) (offset WindowSize is dropped)" proof osap.go 's/if o > uint32\(s\.WindowSize\) \{/if o >= uint32(s.WindowSize) {/'
mutant "edges: offset computed from the wrong predecessor (seg[0])"             proof osap.go 's/o := uint32\(i - seg\[j-1\]\)/o := uint32(i - seg[0])/'
mutant "edges: maxLen is not clamped to MaxMatchLen"                            proof osap.go 's/\tif int\(maxLen\) > s\.MaxMatchLen \{\n\t\tmaxLen = int32\(s\.MaxMatchLen\)\n\t\}\n//'
mutant "edges: positions in front of the block are skipped, not the rest (k < 0: continue)" proof osap.go 's/(\t\t\tk := i \+ w\n\t\t\tif k < 0 \{\n)\t\t\t\tbreak/${1}\t\t\t\tcontinue/'
mutant "edges: an edge is stored although the last one has a smaller offset (re-use test <)" proof osap.go 's/if \(\*p\)\[len\(\*p\)-1\]\.o <= o \{/if (*p)[len(*p)-1].o < o {/'
mutant "edges: the segment is not sorted (slices.Sort only in dead code)"       proof osap.go 's/\t\tslices\.Sort\(seg\)\n/\t\tif len(seg) < 0 {\n\t\t\tslices.Sort(seg)\n\t\t}\n/'
mutant "edges: the edge counter is not incremented"                             proof osap.go 's/\t\t\ts\.nEdges\+\+\n//'
mutant "edges: the windows have capacity 4 but the step is 3 (k := i * 3)"      extract osap.go 's/\t\tk := i \* 4\n/\t\tk := i * 3\n/'
mutant "edges: the offset w captured by the closure is changed after its definition" extract osap.go 's/(\tsuffix\.Segments\(sa, lcp, s\.MinMatchLen, int\(maxLen\), f\))/\tw = w + 0\n${1}/'
mutant "edges: sa is handed to a function of the package before Segments runs (the window source may escape)" extract osap.go 's/(\tsuffix\.Segments\(sa, lcp, s\.MinMatchLen, int\(maxLen\), f\))/\t_ = keepLen(sa)\n${1}/; s/(func \(s \*optSuffixArrayParser\) computeEdges\(\) \{)/func keepLen(x []int32) int { return len(x) }\n\n${1}/'
mutant "edges: an element of edgeBuf is written (the field is not element-blind)" extract osap.go 's/(\ts\.nEdges = 0\n\n\tif len\(data\) == 0 \{)/\tif len(s.edgeBuf) > 0 {\n\t\ts.edgeBuf[0] = edge{}\n\t}\n${1}/'
mutant "harmless: window test written uint32(s.WindowSize) < o"                 harmless osap.go 's/if o > uint32\(s\.WindowSize\) \{/if uint32(s.WindowSize) < o {/'
mutant "harmless: the clamp written with >="                                    harmless osap.go 's/\tif int\(maxLen\) > s\.MaxMatchLen \{/\tif int(maxLen) >= s.MaxMatchLen {/'

echo "== summary: $good of $total mutants behaved as expected, $bad did not"
[ $bad -eq 0 ]
