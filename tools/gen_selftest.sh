#!/usr/bin/env bash
# Mutation self-test of the Go -> Lean translation and of the LzProofs/GenProps*.lean files.
#
# For every mutant: copy /repo to a scratch directory, apply a one-token (or one-block)
# change to a whitelisted function, regenerate the topic modules LzModel/Generated/Code*.lean
# from the mutated copy, and run `lake build LzProofs.GenProps` (the umbrella of the topic
# files GenPropsInts, …, GenPropsDec).  The build has to FAIL and the failing theorems are
# reported as <file>:<theorem>.  Mutants marked "extract" must already be refused by the
# extractor (construct outside the supported subset / changed reflect primitive): since the
# translation is emitted per topic, "refused" means exit status 3 (partial), the refused
# topics are listed, and the GenProps module of every refused topic must fail to build while
# the modules of the other topics still build.
# Finally the code is regenerated from /repo and the build has to succeed again.
#
# usage: ./gen_selftest.sh        (exit status 0 iff every mutant is killed and the
#                                  unmutated tree builds)
#        LEAN_DIR=<copy of lean/> ./gen_selftest.sh    works on a copy of the lake project
set -u
export GOFLAGS=-mod=mod GOPROXY=off GOSUMDB=off GOTOOLCHAIN=local

HERE="$(cd "$(dirname "$0")/.." && pwd)"
REPO="${REPO:-/repo}"
LEAN="${LEAN_DIR:-$HERE/lean}"
GEN="$LEAN/LzModel/Generated"
CODE="$GEN/Code.lean"
SCRATCH="$(mktemp -d /tmp/pf-gen-selftest.XXXXXX)"
EXTRACT="$SCRATCH/extract"
survived=0
killed=0
total=0

cleanup() {
  # always leave the tree with the code generated from the real repository
  "$EXTRACT" -repo "$REPO" -out "$SCRATCH/facts.lean" -code "$CODE" >/dev/null 2>&1
  rm -rf "$SCRATCH"
}
trap cleanup EXIT

(cd "$HERE/tools/extract" && go build -o "$EXTRACT" .) || { echo "cannot build the extractor"; exit 1; }

# failing theorems of a build log as <file>:<theorem>: for every error position in a
# GenProps file the nearest preceding `theorem`; a file whose import is missing is
# reported as <file>:(import)
failing_theorems() {
  {
    grep -o 'error: LzProofs/GenProps[A-Za-z]*\.lean:[0-9]*' "$1" | sed 's/error: //' | sort -u | while IFS=: read -r f ln; do
      awk -v L="$ln" -v F="$(basename "$f" .lean)" 'NR<=L && /^theorem /{name=$2} END{if (name=="") name="(import)"; print F ":" name}' "$LEAN/$f"
    done
  } | sort -u | tr '\n' ' '
}

build() { (cd "$LEAN" && lake build LzProofs.GenProps) >"$1" 2>&1; }

# GenProps module of a topic, and the topics whose GenProps modules it imports
props_of() { echo "LzProofs.GenProps$1"; }
props_deps() {
  case "$1" in
    CfgHP|CfgBHP|CfgDHP|CfgBDHP) echo "CfgBuf CfgHash" ;;
    CfgBUP)                      echo "CfgBuf CfgBucket" ;;
    CfgGSAP|CfgOSAP)             echo "CfgBuf" ;;
  esac
}
ALL_TOPICS="Ints Hash Cost Len CfgBuf CfgHash CfgBucket CfgHP CfgBHP CfgDHP CfgBDHP CfgBUP CfgGSAP CfgOSAP Dec"

# mutant <name> <kind: proof|extract> <file> <perl substitution program>
mutant() {
  local name="$1" kind="$2" file="$3" prog="$4"
  total=$((total+1))
  local dir="$SCRATCH/m$total"
  mkdir -p "$dir"
  cp -r "$REPO"/*.go "$REPO"/go.mod "$dir"/ 2>/dev/null
  cp -r "$REPO"/suffix "$dir"/suffix
  perl -0pi -e "$prog" "$dir/$file"
  if cmp -s "$dir/$file" "$REPO/$file"; then
    echo "MUTANT $name: the mutation did not apply to $file"; survived=$((survived+1)); return
  fi
  local change rc refused
  change="$(diff "$REPO/$file" "$dir/$file" | grep '^[<>]' | head -4 | sed 's/^/      /')"
  "$EXTRACT" -repo "$dir" -out "$dir/facts.lean" -code "$CODE" 2>"$dir/extract.err"
  rc=$?
  refused="$(grep -o 'topic [A-Za-z]* REFUSED' "$dir/extract.err" | awk '{print $2}' | tr '\n' ' ' | sed 's/ $//')"
  if [ $rc -ne 0 ]; then
    if [ "$kind" = extract ] && [ $rc -eq 3 ] && [ -n "$refused" ]; then
      # the modules of the refused topics must not build, the others must
      local t wrong=""
      for t in $ALL_TOPICS; do
        if (cd "$LEAN" && lake build "$(props_of "$t")") >"$dir/b.log" 2>&1; then
          case " $refused " in *" $t "*) wrong="$wrong $t(builds)" ;; esac
        else
          # acceptable only for a refused topic or a module that imports the module of one
          local excused=0 d
          case " $refused " in *" $t "*) excused=1 ;; esac
          for d in $(props_deps "$t"); do case " $refused " in *" $d "*) excused=1 ;; esac; done
          [ $excused -eq 1 ] || wrong="$wrong $t(fails)"
        fi
      done
      if [ -z "$wrong" ]; then
        echo "KILLED   $name  [refused by the extractor, topics: $refused — $(grep -v REFUSED "$dir/extract.err" | head -1 | sed 's/^ *//')]"
        killed=$((killed+1))
      else
        echo "MUTANT $name: refused topics [$refused] but unexpected build results:$wrong"; survived=$((survived+1))
      fi
    elif [ "$kind" = extract ]; then
      echo "MUTANT $name: extractor exit status $rc without a refused topic: $(head -3 "$dir/extract.err")"; survived=$((survived+1))
    else
      echo "MUTANT $name: extractor failed unexpectedly (status $rc): $(cat "$dir/extract.err")"; survived=$((survived+1))
    fi
    rm -rf "$dir"; return
  fi
  if [ "$kind" = extract ]; then
    echo "SURVIVED $name: the extractor accepted a construct it must refuse"; survived=$((survived+1))
    rm -rf "$dir"; return
  fi
  if build "$dir/build.log"; then
    echo "SURVIVED $name: GenProps still builds"
    echo "$change"
    survived=$((survived+1))
  else
    echo "KILLED   $name  [failing: $(failing_theorems "$dir/build.log")]"
    killed=$((killed+1))
  fi
  rm -rf "$dir"
}

snapshot() { mkdir -p "$1"; cp "$GEN"/Code*.lean "$1"/; }

echo "== baseline: code generated from $REPO builds, generation is deterministic"
"$EXTRACT" -repo "$REPO" -out "$SCRATCH/facts.lean" -code "$CODE" || exit 1
snapshot "$SCRATCH/code1"
mkdir -p "$SCRATCH/code2"
"$EXTRACT" -repo "$REPO" -out "$SCRATCH/facts2.lean" -code "$SCRATCH/code2/Code.lean" || exit 1
diff -r "$SCRATCH/code1" "$SCRATCH/code2" >/dev/null || { echo "generation is not deterministic"; exit 1; }
cmp "$SCRATCH/facts.lean" "$SCRATCH/facts2.lean" || { echo "generation of Facts.lean is not deterministic"; exit 1; }
if grep -l "$HERE\|$REPO\|/tmp/" "$SCRATCH"/code1/*.lean "$SCRATCH/facts.lean" 2>/dev/null; then echo "generated files mention an absolute path"; exit 1; fi
if [ -f "$GEN/Facts.lean" ]; then
  cmp "$SCRATCH/facts.lean" "$GEN/Facts.lean" || { echo "Facts.lean output changed"; exit 1; }
fi
build "$SCRATCH/base.log" || { echo "baseline build FAILED"; tail -30 "$SCRATCH/base.log"; exit 1; }
echo "   ok ($(ls "$SCRATCH/code1" | wc -l) generated modules)"

echo "== mutants"
# --- the six mutants of the task description
mutant "BufConfig.Verify: ShrinkSize < BufferSize -> <="      proof lz.go       's/cfg\.ShrinkSize < cfg\.BufferSize/cfg.ShrinkSize <= cfg.BufferSize/'
mutant "BufConfig.SetDefaults: 64*kiB -> 32*kiB"              proof lz.go       's/64\*kiB/32*kiB/'
mutant "XZCost: m < 16 -> m <= 16"                            proof osap.go     's/case m < 16:/case m <= 16:/'
mutant "dhConfig.Verify: il1 < il2 -> il1 <= il2"             proof hash.go     's/!\(il1 < il2\)/!(il1 <= il2)/'
mutant "dhConfig.SetDefaults: swap the InputLen2 arms"        proof hash.go     's/(cfg\.H2\.InputLen = )6(.*?cfg\.H2\.InputLen = )8/${1}8${2}6/s'
mutant "GSAPConfig.Verify: drop MinMatchLen <= WindowSize"    proof gsap.go     's/\tif !\(cfg\.MinMatchLen <= cfg\.WindowSize\) \{.*?\n\t\}\n//s'
# --- further operator / constant / branch mutants
mutant "BufConfig.Verify: 1 <= BufferSize -> 0 <="            proof lz.go       's/!\(1 <= cfg\.BufferSize/!(0 <= cfg.BufferSize/'
mutant "BufConfig.Verify: maxSize margin 7 -> 8"              proof lz.go       's/int64\(maxUint32\) - 7/int64(maxUint32) - 8/'
mutant "BufConfig.SetDefaults: BufferSize >> 1 -> >> 2"       proof lz.go       's/cfg\.BufferSize >> 1/cfg.BufferSize >> 2/'
mutant "BufConfig.SetDefaults: WindowSize == 0 -> != 0"       proof lz.go       's/if cfg\.WindowSize == 0 \{\n\t\tcfg\.WindowSize = 8/if cfg.WindowSize != 0 {\n\t\tcfg.WindowSize = 8/'
mutant "hashConfig.SetDefaults: HashBits 18 -> 17"            proof hash.go     's/cfg\.HashBits = 18/cfg.HashBits = 17/'
mutant "hashConfig.Verify: t < maxHashBits -> t > maxHashBits" proof hash.go    's/(func \(cfg \*hashConfig\) Verify.*?)t < maxHashBits/${1}t > maxHashBits/s'
mutant "hashConfig.Verify: InputLen <= 8 -> < 8"              proof hash.go     's/(func \(cfg \*hashConfig\) Verify.*?)cfg\.InputLen <= 8/${1}cfg.InputLen < 8/s'
mutant "dhConfig.SetDefaults: H1.InputLen < 5 -> < 6"         proof hash.go     's/cfg\.H1\.InputLen < 5/cfg.H1.InputLen < 6/'
mutant "dhConfig.Verify: drop the H2 check"                   proof hash.go     's/\tif err = cfg\.H2\.Verify\(\); err != nil \{\n\t\treturn err\n\t\}\n//'
mutant "bucketConfig.Verify: BucketSize <= 128 -> <= 127"     proof bucket_hash.go 's/cfg\.BucketSize <= 128/cfg.BucketSize <= 127/'
mutant "bucketConfig.Verify: maxHashBits 23 -> 24"            proof bucket_hash.go 's/maxHashBits := 23/maxHashBits := 24/'
mutant "bucketConfig.SetDefaults: BucketSize 10 -> 12"        proof bucket_hash.go 's/cfg\.BucketSize = 10/cfg.BucketSize = 12/'
mutant "setDHCfg: InputLen1 copied from H2"                   proof hash.go     's/setIVal\(v, "InputLen1", c\.H1\.InputLen\)/setIVal(v, "InputLen1", c.H2.InputLen)/'
mutant "hashCfg: HashBits read from InputLen"                 proof hash.go     's/HashBits: iVal\(v, "HashBits"\),\n\t\}\n\treturn hcfg/HashBits: iVal(v, "InputLen"),\n\t}\n\treturn hcfg/'
mutant "setBufferConfig: BlockSize not copied back"           proof lz.go       's/\tsetIVal\(v, "BlockSize", bc\.BlockSize\)\n//'
mutant "HPConfig.Verify: buffer error ignored"                proof hp.go       's/(func \(cfg \*HPConfig\) Verify.*?)if err = bc\.Verify\(\); err != nil \{\n\t\treturn err\n\t\}/${1}err = bc.Verify()/s'
mutant "BUPConfig.SetDefaults: bucket defaults not stored"    proof bup.go      's/\tsetBucketCfg\(cfg, b\)\n//'
mutant "GSAPConfig.Verify: math.MaxInt32 -> math.MaxUint32"   proof gsap.go     's/int64\(math\.MaxInt32\)/int64(math.MaxUint32)/'
mutant "GSAPConfig.SetDefaults: MinMatchLen 3 -> 2"           proof gsap.go     's/cfg\.MinMatchLen = 3/cfg.MinMatchLen = 2/'
mutant "OSAPConfig.SetDefaults: MaxMatchLen 273 -> 272"       proof osap.go     's/cfg\.MaxMatchLen = 273/cfg.MaxMatchLen = 272/'
mutant "OSAPConfig.SetDefaults: BufferSize = WindowSize -> ShrinkSize" proof osap.go 's/bc\.BufferSize = bc\.WindowSize/bc.BufferSize = bc.ShrinkSize/'
mutant "OSAPConfig.Verify: MinMatchLen <= MaxMatchLen -> <"   proof osap.go     's/cfg\.MinMatchLen <= cfg\.MaxMatchLen\)/cfg.MinMatchLen < cfg.MaxMatchLen)/'
mutant "OSAPConfig.Verify: case \"XZCost\" -> \"xzcost\""     proof osap.go     's/case "XZCost":/case "xzcost":/'
mutant "DecoderConfig.SetDefaults: 2*WindowSize -> 3*"        proof decoder_buffer.go 's/2 \* cfg\.WindowSize/3 * cfg.WindowSize/'
mutant "DecoderConfig.Verify: WindowSize < BufferSize -> <="  proof decoder_buffer.go 's/cfg\.WindowSize < cfg\.BufferSize/cfg.WindowSize <= cfg.BufferSize/'
mutant "XZCost: 9*m -> 8*m"                                   proof osap.go     's/return 9 \* uint64\(m\)/return 8 * uint64(m)/'
mutant "XZCost: m -= 2 -> m -= 1"                             proof osap.go     's/\tm -= 2\n/\tm -= 1\n/'
mutant "XZCost: d < 4 -> d <= 4"                              proof osap.go     's/d := o - 1; d < 4/d := o - 1; d <= 4/'
mutant "XZCost: 2 + Len32 -> 1 + Len32"                       proof osap.go     's/c \+= 2 \+ uint64\(bits\.Len32\(d\)\)/c += 1 + uint64(bits.Len32(d))/'
mutant "hashValue: x * prime -> x + prime"                    proof hash.go     's/\(x \* prime\) >> shift/(x + prime) >> shift/'
mutant "hashValue: prime changed in the last digit"           proof hash.go     's/const prime = 9920624304325388887/const prime = 9920624304325388885/'
mutant "Block.Len: MatchLen -> LitLen"                        proof lz.go       's/n \+= int64\(s\.MatchLen\)/n += int64(s.LitLen)/'
mutant "Seq.Len: + -> -"                                      proof lz.go       's/int64\(s\.MatchLen\) \+ int64\(s\.LitLen\)/int64(s.MatchLen) - int64(s.LitLen)/'
mutant "min: x - doz -> y - doz"                              proof ints.go     's/return x - doz\(x, y\)/return y - doz(x, y)/'
mutant "doz: x >= y -> x <= y"                                proof ints.go     's/iverson\(x >= y\)/iverson(x <= y)/'
mutant "iverson: return 1 -> return 2"                        proof ints.go     's/\t\treturn 1\n/\t\treturn 2\n/'
# --- constructs outside the subset / changed primitives: the extractor must refuse
mutant "unsupported: for loop in hashConfig.SetDefaults"      extract hash.go   's/(func \(cfg \*hashConfig\) SetDefaults\(\) \{\n)/${1}\tfor i := 0; i < 3; i++ {\n\t\tcfg.InputLen++\n\t}\n/'
mutant "unsupported: division in DecoderConfig.SetDefaults"   extract decoder_buffer.go 's/2 \* cfg\.WindowSize/cfg.WindowSize \/ 2/'
mutant "unsupported: call of a non-whitelisted function"      extract lz.go     's/cfg\.BlockSize = 128 \* kiB/cfg.BlockSize = iVal(reflect.ValueOf(cfg), "x")/'
mutant "reflect primitive iVal changed"                       extract lz.go     's/return int\(v\.FieldByName\(name\)\.Int\(\)\)/return int(v.FieldByName(name).Int()) + 1/'
mutant "reflective helper with an extra statement"            extract lz.go     's/(func setBufferConfig\(x ParserConfig, bc BufConfig\) \{\n\tv := reflect\.Indirect\(reflect\.ValueOf\(x\)\)\n)/${1}\tbc.BlockSize++\n/'
mutant "hashCfg applied to a struct without HashBits"         extract hp.go     's/(type HPConfig struct \{.*?)\tHashBits int\n/${1}\tHashBitz int\n/s'

echo "== restore: regenerate from $REPO and rebuild"
"$EXTRACT" -repo "$REPO" -out "$SCRATCH/facts.lean" -code "$CODE" || exit 1
snapshot "$SCRATCH/code3"
diff -r "$SCRATCH/code1" "$SCRATCH/code3" >/dev/null || { echo "the restored Code*.lean differ from the baseline"; exit 1; }
if build "$SCRATCH/final.log"; then echo "   ok: LzProofs.GenProps builds"; else echo "   FINAL BUILD FAILED"; tail -30 "$SCRATCH/final.log"; exit 1; fi

echo "== summary: $killed of $total mutants killed, $survived survived"
[ "$survived" -eq 0 ]
