#!/usr/bin/env python3
"""mutants.py — systematic single-token mutation run against the checks' suites.

  tools/mutants.py --out <dir> [--files a.go,b.go] [--limit N] [--seed S] [--stride K]

For every mutant (one operator / constant / statement change in a non-test source file of
ulikunitz/lz) that still compiles and keeps the pinned baseline tests passing, the
quick-tier suites of all properties are run on the mutated code (scratch worktree under
/tmp, removed afterwards) and compared with the model (the lzdriver binary that was built
for the unchanged tree).  A mutant is

  killed-oracle          an oracle of the harness reports a finding that is not a known finding
  killed-correspondence  implementation and model outputs differ
  killed-facts           the regenerated Facts.lean differs (a proof obligation is re-checked /
                         the model follows the constant: not run further)
  killed-tests           a pinned baseline test fails (not interesting here)
  nocompile
  SURVIVED               none of the above: either an equivalent mutant or a gap in the suites

This is a measuring instrument for the generators, not a check; results go to <out>/results.jsonl.
It must be run from a copy of /verif whose lean/ and harness/ are built (./check --setup).
"""
import json, os, re, subprocess, sys, shutil, hashlib, glob, random, time

V = os.path.dirname(os.path.dirname(os.path.abspath(__file__)))
GOENV = dict(os.environ, GOFLAGS="-mod=mod", GOPROXY="off", GOSUMDB="off", GOTOOLCHAIN="local", CGO_ENABLED="0")
DRIVER = os.path.join(V, "lean", ".lake", "build", "bin", "lzdriver")
CFG = json.load(open(os.path.join(V, "checkcfg.json")))
KNOWN = json.load(open(os.path.join(V, "known_findings.json")))

def sh(cmd, cwd=None, env=None, timeout=None):
    try:
        p = subprocess.run(cmd, cwd=cwd, env=env or GOENV, stdout=subprocess.PIPE, stderr=subprocess.STDOUT, text=True, timeout=timeout)
        return p.returncode, p.stdout
    except subprocess.TimeoutExpired as ex:
        return 124, "timeout"

# --- mutation operators: (regex, replacement list) applied to code with comments/strings masked
OPS = [
    (r"<=", ["<"]), (r">=", [">"]), (r"(?<![<>=!-])<(?![<=-])", ["<="]), (r"(?<![<>=-])>(?![>=])", [">="]),
    (r"==", ["!="]), (r"!=", ["=="]), (r"&&", ["||"]), (r"\|\|", ["&&"]),
    (r"(?<![+\w)\]] )\+ 1\b", ["+ 0", "+ 2"]), (r" \+ 1\b", [" + 0", " + 2"]), (r" - 1\b", [" - 0", " - 2"]),
    (r"\+\+", ["--"]), (r" \+= ", [" -= "]), (r" -= ", [" += "]),
    (r"(?<=[\w)\]]) \+ (?=[\w(])", [" - "]), (r"(?<=[\w)\]]) - (?=[\w(])", [" + "]),
    (r">> 1\b", [">> 2"]), (r"<< 1\b", ["<< 2"]),
    (r"\b0\b", ["1"]), (r"\b1\b", ["0", "2"]), (r"\b2\b", ["3"]), (r"\b3\b", ["2", "4"]), (r"\b7\b", ["6", "8"]), (r"\b8\b", ["7", "9"]),
    (r"\bcontinue\b", ["break"]), (r"\bbreak\b", ["continue"]),
    (r"\btrue\b", ["false"]), (r"\bfalse\b", ["true"]),
]

def mask(text):
    """comments and string literals replaced by spaces (same length)"""
    out = list(text)
    i, n = 0, len(text)
    while i < n:
        c = text[i]
        if text.startswith("//", i):
            j = text.find("\n", i)
            j = n if j < 0 else j
            for k in range(i, j): out[k] = " "
            i = j
        elif text.startswith("/*", i):
            j = text.find("*/", i + 2)
            j = n if j < 0 else j + 2
            for k in range(i, j):
                if out[k] != "\n": out[k] = " "
            i = j
        elif c in "\"`'":
            q = c
            j = i + 1
            while j < n and text[j] != q:
                if text[j] == "\\" and q != "`": j += 1
                j += 1
            for k in range(i + 1, min(j, n)):
                if out[k] != "\n": out[k] = " "
            i = j + 1
        else:
            i += 1
    return "".join(out)

def func_spans(masked):
    """(start, end, name) of top-level func bodies"""
    spans = []
    for m in re.finditer(r"^func [^\n]*\{\s*$", masked, re.M):
        # find matching brace
        depth, i = 0, m.end() - 1
        while i >= 0 and masked[i] != "{": i -= 1
        j = i
        while j < len(masked):
            if masked[j] == "{": depth += 1
            elif masked[j] == "}":
                depth -= 1
                if depth == 0: break
            j += 1
        name = re.sub(r"\s+", " ", masked[m.start():m.end()])[:80]
        spans.append((i, j, name))
    return spans

def gen_mutants(repo, files):
    res = []
    for f in files:
        text = open(os.path.join(repo, f)).read()
        m = mask(text)
        spans = func_spans(m)
        def in_func(pos):
            for a, b, nm in spans:
                if a <= pos <= b: return nm
            return None
        for rx, reps in OPS:
            for mt in re.finditer(rx, m):
                fn = in_func(mt.start())
                if fn is None: continue
                line = text.count("\n", 0, mt.start()) + 1
                ltxt = text.split("\n")[line - 1]
                if "fmt.Errorf" in ltxt or "panic(" in ltxt or "errors.New" in ltxt: continue
                for rp in reps:
                    res.append({"file": f, "pos": mt.start(), "end": mt.end(), "rep": rp, "line": line,
                                "orig": text[mt.start():mt.end()], "src": ltxt.strip()[:120], "func": fn})
        # statement deletion: simple assignment / call lines inside functions
        off = 0
        for ln, l in enumerate(text.split("\n")):
            st = l.strip()
            if in_func(off + len(l) - len(l.lstrip())) and re.match(r"^[\w\.\[\]]+(\[[^\]]*\])? (=|\+=|-=) [^{]*$", st) and not st.endswith("{"):
                res.append({"file": f, "pos": off, "end": off + len(l), "rep": "", "line": ln + 1, "orig": l, "src": st[:120],
                            "func": in_func(off + len(l) - len(l.lstrip())), "delete": True})
            off += len(l) + 1
    return res

FILE_SUITES = {
    # which suites can see a change in which file
    "decoder_buffer.go": ["d-buf", "dd", "d-exhaustive", "d-malformed", "dd-faults", "c07", "d-counts"],
    "parser_buffer.go": ["p-general", "p-wrap", "p-view", "p-reset", "p-nil", "p-exhaustive", "c07"],
    "wrap.go": ["p-wrap"],
    "lz.go": ["c-config", "p-general", "c07"],
    "bytes.go": ["u-units", "p-general", "p-runs", "p-exhaustive"],
    "bitset.go": ["u-units", "p-gsap", "p-reset-sa", "p-reset"],
    "hash.go": ["p-general", "p-reset", "p-reset-stale", "p-nil", "p-runs", "p-exhaustive", "c-config"],
    "bucket_hash.go": ["p-general", "p-reset", "p-reset-stale", "p-nil", "p-runs", "p-exhaustive", "c-config"],
    "gsap.go": ["p-gsap", "p-general", "p-reset", "p-reset-sa", "p-nil", "p-runs", "p-exhaustive", "c-config", "p-wrap"],
    "osap.go": ["p-osap", "p-general", "p-reset", "p-reset-sa", "p-nil", "p-runs", "p-exhaustive", "c-config", "p-wrap"],
    "ints.go": ["d-buf", "dd", "p-general", "p-view", "p-wrap", "u-units", "p-gsap"],
    "suffix/": ["s-suffix", "s-exhaustive", "s-budget", "p-osap", "p-gsap"],
}
for k in ("hp.go", "bhp.go", "dhp.go", "bdhp.go", "bup.go"):
    FILE_SUITES[k] = ["p-general", "p-reset", "p-reset-stale", "p-nil", "p-runs", "p-exhaustive", "c-config", "p-wrap", "c07"]

def suite_sizes():
    s = {}
    for p, pc in CFG["properties"].items():
        for x in pc["suites"]:
            s[x["suite"]] = (max(s.get(x["suite"], (0, ""))[0], x["quick"]), x.get("hang", "20s"))
    return s

def attrs_of(f):
    d = {"site": f.get("site", ""), "what": f.get("what", "")}
    for m in re.finditer(r"(\w+)=(-?\w+)", f.get("detail", "")):
        k, v = m.group(1), m.group(2)
        try: d[k] = int(v)
        except ValueError: d[k] = v
    if f.get("script"):
        ws = f["script"][0].split()
        if len(ws) > 4 and ws[2] == "P":
            d.setdefault("kind", ws[3])
            for kv in ws[4].split(","):
                if "=" in kv:
                    k, v = kv.split("=", 1)
                    try: d.setdefault(k, int(v))
                    except ValueError: d.setdefault(k, v)
    return d

def known_match(f):
    a = attrs_of(f)
    for k in KNOWN.get("known", []):
        if k["property"] != f["property"]: continue
        if k.get("what") and k["what"] != f.get("what"): continue
        try:
            if eval(k["predicate"], {"__builtins__": {}}, dict(a)): return True
        except Exception:
            continue
    return False

def nohdr(t):
    return t.split("\n", 1)[1] if "\n" in t else t

def main():
    args = sys.argv[1:]
    opt = {"--out": "/tmp/mutants", "--files": "", "--limit": "0", "--seed": "1", "--stride": "1", "--offset": "0",
           "--only": "", "--scale": "1"}   # --only file:line,file:line … ; --scale multiplies the suite sizes
    i = 0
    while i < len(args):
        opt[args[i]] = args[i + 1]; i += 2
    out = opt["--out"]
    os.makedirs(out, exist_ok=True)
    wt = os.path.join("/tmp", "mutwt_%d" % os.getpid())
    subprocess.run(["git", "-C", "/repo", "worktree", "add", "--detach", wt, "HEAD"], capture_output=True)
    try:
        allfiles = [f for f in sorted(os.listdir(wt)) if f.endswith(".go") and not f.endswith("_test.go") and not f.startswith("verif_")]
        allfiles += ["suffix/" + f for f in sorted(os.listdir(os.path.join(wt, "suffix"))) if f.endswith(".go") and not f.endswith("_test.go") and not f.startswith("verif_")]
        files = [f for f in opt["--files"].split(",") if f] or allfiles
        muts = gen_mutants(wt, files)
        if opt["--only"]:
            want_sites = set(opt["--only"].split(","))
            muts = [m for m in muts if "%s:%d" % (m["file"], m["line"]) in want_sites]
        random.Random(int(opt["--seed"])).shuffle(muts)
        muts = muts[int(opt["--offset"])::int(opt["--stride"])]
        if int(opt["--limit"]): muts = muts[:int(opt["--limit"])]
        print("mutants:", len(muts), flush=True)
        base_facts = open(os.path.join(V, "lean", "LzModel", "Generated", "Facts.lean")).read()
        want = [l.strip() for l in open(os.path.join(V, "tools", "baseline_tests.txt")) if l.strip()]
        sizes = suite_sizes()
        alt = os.path.join(out, "altmod"); os.makedirs(alt, exist_ok=True)
        mod = open(os.path.join(V, "harness", "go.mod")).read().replace("=> /repo", "=> " + wt)
        open(os.path.join(alt, "go.mod"), "w").write(mod)
        shutil.copy(os.path.join(wt, "go.sum"), os.path.join(alt, "go.sum"))
        exe = os.path.join(out, "lzh-mut")
        resf = open(os.path.join(out, "results.jsonl"), "a")
        for idx, mu in enumerate(muts):
            t0 = time.time()
            path = os.path.join(wt, mu["file"])
            orig = open(path).read()
            new = orig[:mu["pos"]] + mu["rep"] + orig[mu["end"]:]
            open(path, "w").write(new)
            rec = dict(mu); rec.pop("pos"); rec.pop("end")
            try:
                rc, o = sh(["go", "build", "./..."], cwd=wt, timeout=300)
                if rc != 0:
                    rec["status"] = "nocompile"; continue
                rc, o = sh(["go", "test", "-vet=off", "-count=1", "-timeout", "90s", "-json", "./..."], cwd=wt, timeout=200)
                got = set()
                for l in o.split("\n"):
                    try: e = json.loads(l)
                    except Exception: continue
                    if e.get("Action") == "pass" and e.get("Test"): got.add(e["Package"] + "::" + e["Test"])
                missing = [t for t in want if t not in got]
                if missing:
                    rec["status"] = "killed-tests"; rec["detail"] = missing[:3]; continue
                tmpf = os.path.join(out, "Facts.lean")
                rc, o = sh(["go", "run", ".", "-repo", wt, "-out", tmpf], cwd=os.path.join(V, "tools", "extract"))
                if rc != 0 or nohdr(open(tmpf).read()) != nohdr(base_facts):
                    rec["status"] = "killed-facts"; continue
                if os.path.exists(exe): os.remove(exe)
                rc, o = sh(["go", "build", "-tags", "verif", "-o", exe, "-modfile=" + os.path.join(alt, "go.mod"), "."], cwd=os.path.join(V, "harness"), timeout=300)
                if rc != 0:
                    rec["status"] = "harness-nocompile"; rec["detail"] = o[-300:]; continue
                key = mu["file"] if not mu["file"].startswith("suffix/") else "suffix/"
                status, detail = "SURVIVED", ""
                for su in FILE_SUITES.get(key, list(sizes)):
                    n, hang = sizes[su]
                    n = n * int(opt["--scale"])
                    sd = os.path.join(out, "run"); shutil.rmtree(sd, ignore_errors=True); os.makedirs(sd)
                    rc, log = sh([exe, "run", "-suite", su, "-seed", opt["--seed"], "-n", str(n), "-shards", "8", "-out", sd, "-hang", "5s"],
                                 env=dict(GOENV, GOMEMLIMIT="6GiB"), timeout=900)
                    rp = os.path.join(sd, "report.json")
                    if not os.path.exists(rp):
                        status, detail = "killed-crash", su + ": " + log[-200:]; break
                    rep = json.load(open(rp))
                    fs = [f for f in (rep.get("findings") or []) if not known_match(f)]
                    if fs:
                        status, detail = "killed-oracle", "%s: %s %s (%s)" % (su, fs[0]["property"], fs[0]["what"], fs[0]["detail"][:80]); break
                    dis = False
                    procs = []
                    for s in sorted(glob.glob(os.path.join(sd, "shard*.scripts"))):
                        fo = open(s[:-8] + ".model", "w")
                        procs.append((s, subprocess.Popen([DRIVER], stdin=open(s), stdout=fo)))
                    for s, p in procs:
                        p.wait()
                        if open(s[:-8] + ".impl").read() != open(s[:-8] + ".model").read(): dis = True
                    if dis:
                        status, detail = "killed-correspondence", su; break
                rec["status"], rec["detail"] = status, detail
            finally:
                open(path, "w").write(orig)
                rec["secs"] = round(time.time() - t0, 1)
                resf.write(json.dumps(rec) + "\n"); resf.flush()
                print("%4d %-22s %s:%d %s -> %s | %s | %s" % (idx, rec.get("status"), mu["file"], mu["line"], mu["orig"].strip()[:20], mu["rep"][:10], mu["src"][:70], str(rec.get("detail", ""))[:100]), flush=True)
    finally:
        subprocess.run(["git", "-C", "/repo", "worktree", "remove", "--force", wt], capture_output=True)
        shutil.rmtree(wt, ignore_errors=True)

if __name__ == "__main__":
    main()
