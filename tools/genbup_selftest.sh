#!/usr/bin/env bash
# Mutation self-test of the seventh part of the translator (tools/extract/code_lend.go):
#   topic PBufReadFrom  parser_buffer.go (*ParserBuffer).ReadFrom        proofs LzProofs/GenPBufReadFrom.lean, GenHPHistRF2.lean
#   topic BUPParse      bup.go (*bucketParser).Parse, bucket_hash.go     proofs LzProofs/GenBUPParse*.lean
#
# For every mutant: copy the repository to a fresh directory under /tmp, apply one small semantic
# change, regenerate LzModel/Generated/Code*.lean from the copy into a COPY of the lake
# project, and build LzProofs.GenHPParse there.
#   kind proof    : the build must FAIL (the failing theorems are listed)
#   kind extract  : the extractor must refuse a topic (exit status 3)
#   kind harmless : a behaviour-preserving rewrite — extractor and build must still succeed
# The working tree (<verif>/lean) is never touched; scratch-repo and the copy are removed.
#
# usage: ./genbup_selftest.sh     (ONLY=<regex> restricts the run to the mutants whose name matches)
#        ./genbup_selftest.sh     exit status 0 iff every mutant behaves as expected
set -u
export GOFLAGS=-mod=mod GOPROXY=off GOSUMDB=off GOTOOLCHAIN=local

HERE="$(cd "$(dirname "$0")/.." && pwd)"
REPO="${REPO:-/repo}"
SCRATCH="$(mktemp -d /tmp/pf-genbup-selftest.XXXXXX)"
LEAN="$SCRATCH/lean"
GEN="$LEAN/LzModel/Generated"
MUT="$(mktemp -d /tmp/pf-mutrepo.XXXXXX)/scratch-repo"   # scratch copies of the library live outside /verif and /repo
EXTRACT="$SCRATCH/extract"
TARGETS="${TARGETS:-LzProofs.GenHPHistRF2 LzProofs.GenBUPParse}"
bad=0; good=0; total=0

cleanup() { rm -rf "$SCRATCH" "$MUT"; }
trap cleanup EXIT

cp -r "$HERE/lean" "$LEAN"
(cd "$HERE/tools/extract" && go build -o "$EXTRACT" .) || { echo "cannot build the extractor"; exit 1; }

failing_theorems() {
  grep -o 'error: LzProofs/Gen[A-Za-z]*\.lean:[0-9]*' "$1" | sed 's/error: //' | sort -u | while IFS=: read -r f ln; do
    awk -v L="$ln" -v F="$(basename "$f" .lean)" 'NR<=L && /^theorem /{name=$2} END{if (name=="") name="(import)"; print F ":" name}' "$LEAN/$f"
  done | sort -u | tr '\n' ' '
}
build() { (cd "$LEAN" && lake build $TARGETS) >"$1" 2>&1; }

# mutant <name> <kind> <file> <perl program>
mutant() {
  local name="$1" kind="$2" file="$3" prog="$4"
  if [ -n "${ONLY:-}" ] && ! printf '%s' "$name" | grep -q -- "$ONLY"; then return; fi
  total=$((total+1))
  rm -rf "$MUT"; cp -r "$REPO" "$MUT"; rm -rf "$MUT/.git"
  perl -0pi -e "$prog" "$MUT/$file"
  if cmp -s "$MUT/$file" "$REPO/$file"; then
    echo "ERROR    $name: the mutation did not apply to $file"; bad=$((bad+1)); return
  fi
  (cd "$MUT" && go build ./... >/dev/null 2>"$SCRATCH/gobuild.err") || {
    echo "ERROR    $name: the mutated repository does not compile: $(head -2 "$SCRATCH/gobuild.err" | tr '\n' ' ')"; bad=$((bad+1)); return; }
  "$EXTRACT" -repo "$MUT" -out "$SCRATCH/facts.lean" -code "$GEN/Code.lean" 2>"$SCRATCH/extract.err"
  local rc=$?
  local refused
  refused="$(grep -o 'topic [A-Za-z0-9]* REFUSED' "$SCRATCH/extract.err" | awk '{print $2}' | tr '\n' ' ' | sed 's/ $//')"
  case "$kind" in
  extract)
    if [ $rc -eq 3 ] && [ -n "$refused" ]; then
      echo "REFUSED  $name  [topics: $refused — $(grep -v REFUSED "$SCRATCH/extract.err" | head -1 | sed 's/^ *//')]"; good=$((good+1))
    else
      echo "ACCEPTED $name: the extractor accepted a construct it must refuse (status $rc)"; bad=$((bad+1))
    fi ;;
  proof)
    if [ $rc -ne 0 ]; then
      echo "ERROR    $name: extractor status $rc: $(head -3 "$SCRATCH/extract.err" | tr '\n' ' ')"; bad=$((bad+1))
    elif build "$SCRATCH/build.log"; then
      echo "SURVIVED $name: the proof modules still build"; bad=$((bad+1))
    else
      echo "KILLED   $name  [failing: $(failing_theorems "$SCRATCH/build.log")]"; good=$((good+1))
    fi ;;
  harmless)
    if [ $rc -ne 0 ]; then
      echo "BROKEN   $name: extractor status $rc: $(head -3 "$SCRATCH/extract.err" | tr '\n' ' ')"; bad=$((bad+1))
    elif build "$SCRATCH/build.log"; then
      echo "HARMLESS $name  [still builds]"; good=$((good+1))
    else
      echo "BROKEN   $name: a harmless rewrite breaks [$(failing_theorems "$SCRATCH/build.log")]"; bad=$((bad+1))
    fi ;;
  esac
}

echo "== baseline: code generated from $REPO, the proof modules build"
"$EXTRACT" -repo "$REPO" -out "$SCRATCH/facts.lean" -code "$GEN/Code.lean" || { echo "extractor failed on $REPO"; exit 1; }
diff -r "$GEN" "$HERE/lean/LzModel/Generated" >/dev/null || echo "   note: the Generated directory of the working tree is not up to date with $REPO"
build "$SCRATCH/base.log" || { echo "baseline build FAILED"; grep -A8 '^error' "$SCRATCH/base.log" | head -40; exit 1; }
echo "   ok"

echo "== mutants"
# --- parser_buffer.go: (*ParserBuffer).ReadFrom
mutant "readfrom: clamp of end to BufferSize dropped"          proof parser_buffer.go 's/\t\tif end > b\.BufferSize \{\n\t\t\tend = b\.BufferSize\n\t\t\}\n//'
mutant "readfrom: loop continues after an error other than io.EOF" proof parser_buffer.go 's/(k, err = r\.Read\(p\)\n.*?)if err != nil \{/${1}if err == io.EOF {/s'
mutant "readfrom: k not added to len(b.Data)"                  proof parser_buffer.go 's/b\.Data = b\.Data\[:len\(b\.Data\)\+k\]/b.Data = b.Data[:len(b.Data)+k-k]/'
mutant "readfrom: window starts at 0 (p := b.Data[:end])"      proof parser_buffer.go 's/p := b\.Data\[len\(b\.Data\):end\]/p := b.Data[0:end]/'
mutant "readfrom: full test off by one (len > BufferSize)"     proof parser_buffer.go 's/(func \(b \*ParserBuffer\) ReadFrom.*?)if len\(b\.Data\) >= b\.BufferSize \{/${1}if len(b.Data) > b.BufferSize {/s'
mutant "harmless: readfrom clamp of end written with min"      harmless parser_buffer.go 's/\t\tend := cap\(b\.Data\) - 7\n\t\tif end > b\.BufferSize \{\n\t\t\tend = b\.BufferSize\n\t\t\}\n/\t\tend := min(cap(b.Data)-7, b.BufferSize)\n/'
mutant "harmless: readfrom full test written BufferSize <= len" harmless parser_buffer.go 's/(func \(b \*ParserBuffer\) ReadFrom.*?)if len\(b\.Data\) >= b\.BufferSize \{/${1}if b.BufferSize <= len(b.Data) {/s'
mutant "harmless: readfrom window lent without a name (r.Read(b.Data[len(b.Data):end]))" harmless parser_buffer.go 's/\t\tp := b\.Data\[len\(b\.Data\):end\]\n\t\tvar k int\n\t\tk, err = r\.Read\(p\)/\t\tvar k int\n\t\tk, err = r.Read(b.Data[len(b.Data):end])/'
mutant "alias: readfrom reads p again after the call (p[0] used)" extract parser_buffer.go 's/(k, err = r\.Read\(p\)\n)/${1}\t\tif len(p) > 0 \&\& p[0] == 0 {\n\t\t\tk = k + 0\n\t\t}\n/'
# --- bup.go / bucket_hash.go: (*bucketParser).Parse and what it calls
mutant "bup: the bucket scan stops one slot early (bucket() returns bucketSize-1 slots)" proof bucket_hash.go 's/return bh\.buckets\[k : k\+bh\.bucketSize\]/return bh.buckets[k : k+bh.bucketSize-1]/'
mutant "bup: tie broken with > instead of >= (ke == k \&\& oe > o)"  proof bup.go 's/\(ke == k && oe >= o\)/(ke == k \&\& oe > o)/'
mutant "bup: add() wraps the ring index one slot late (i > bucketSize)" proof bucket_hash.go 's/(func \(bh \*bucketHash\) add.*?)if i >= bh\.bucketSize \{/${1}if i > bh.bucketSize {/s'
mutant "bup: add() writes the slot of the next bucket (h+1)"         proof bucket_hash.go 's/(func \(bh \*bucketHash\) add.*?)k := int\(h\)\*bh\.bucketSize \+ i/${1}k := int(h+1)*bh.bucketSize + i/s'
mutant "bup: window test oe < WindowSize"                            proof bup.go 's/0 < oe && oe <= s\.WindowSize/0 < oe \&\& oe < s.WindowSize/'
mutant "bup: the byte pre-check compares p[j+k] with p[i+k]"         proof bup.go 's/p\[j\+k-1\] != p\[i\+k-1\]/p[j+k] != p[i+k]/'
mutant "bup: re-indexing starts at i + 2"                            proof bup.go 's/(func \(s \*bucketParser\) Parse.*?)for j := i \+ 1; j < b; j\+\+/${1}for j := i + 2; j < b; j++/s'
mutant "bup: the entry is added BEFORE the scan"                     proof bup.go 's/(\t\to, k := 0, 0\n)(.*?)\t\ts\.add\(h, uint32\(i\), v\)\n/${1}\t\ts.add(h, uint32(i), v)\n${2}/s'
mutant "bup: processSegment (bucket) starts at a + 1"                proof bucket_hash.go 's/(func \(f \*bucketDictionary\) processSegment.*?)for i := a; i < b; i\+\+/${1}for i := a + 1; i < b; i++/s'
mutant "harmless: bup block size clamp written with >="              harmless bup.go 's/(func \(s \*bucketParser\) Parse.*?)\tif n > s\.BlockSize \{/${1}\tif n >= s.BlockSize {/s'
mutant "harmless: bup window test written oe <= 0 || oe > WindowSize" harmless bup.go 's/if !\(0 < oe && oe <= s\.WindowSize\) \{/if oe <= 0 || oe > s.WindowSize {/'
mutant "harmless: bup byte pre-check written as nested ifs"          harmless bup.go 's/\t\t\tif k > 0 && p\[j\+k-1\] != p\[i\+k-1\] \{\n\t\t\t\tcontinue\n\t\t\t\}\n/\t\t\tif k > 0 {\n\t\t\t\tif p[j+k-1] != p[i+k-1] {\n\t\t\t\t\tcontinue\n\t\t\t\t}\n\t\t\t}\n/'
mutant "alias: bup s.add inside the bucket scan (write while the view is live)" extract bup.go 's/(\t\t\to, k = oe, ke\n)/${1}\t\t\ts.add(h, uint32(i), v)\n/'

echo "== summary: $good of $total mutants behaved as expected, $bad did not"
[ $bad -eq 0 ]
