#!/usr/bin/env bash
# Runs tools/genbuf_selftest.sh in N shards (default 6) at the same time, each on its own copy of
# the lake project (lean_s<i>/, removed afterwards), and prints the consolidated result.
# The consolidated list of the last run is kept in tools/genbuf_selftest.last.txt.
set -u
HERE="$(cd "$(dirname "$0")/.." && pwd)"
N="${1:-6}"
cd "$HERE"
for i in $(seq 0 $((N-1))); do
  rm -rf "lean_s$i"; cp -r lean "lean_s$i"
  SHARD=$i/$N LEAN_DIR="$HERE/lean_s$i" tools/genbuf_selftest.sh >"$HERE/lean_s$i.log" 2>&1 &
done
wait
rc=0
for i in $(seq 0 $((N-1))); do
  tail -1 "lean_s$i.log" | grep -q ', 0 survived' || { rc=1; grep -v '^KILLED ' "lean_s$i.log"; }
done
cat lean_s*.log | grep '^KILLED' | sed -e 's/\[refused by the extractor: extract: /[refused: /' -e 's/\[refused by the extractor, topics: /[refused: topics /' | sort >tools/genbuf_selftest.last.txt
grep -h 'SURVIVED\|^MUTANT\|KILLED?' lean_s*.log
echo "== $(wc -l <tools/genbuf_selftest.last.txt) mutants killed ($(grep -c 'refused:' tools/genbuf_selftest.last.txt) of them refused by the extractor); exit status $rc"
for i in $(seq 0 $((N-1))); do rm -rf "lean_s$i" "lean_s$i.log"; done
exit $rc
