#!/usr/bin/env python3
"""Runs the registered checks against every seeded change under /verif/seeded:
apply the patch to /repo, run the property's check, undo. Prints the matrix."""
import json, os, subprocess, sys, glob
V = os.path.dirname(os.path.dirname(os.path.abspath(__file__)))
only = sys.argv[1:]
rows = []
for d in sorted(glob.glob(os.path.join(V, "seeded", "*"))):
    name = os.path.basename(d)
    if only and not any(o in name for o in only):
        continue
    meta = json.load(open(os.path.join(d, "meta.json")))
    props = meta.get("check_properties") or [meta["property"]]
    REPO = os.environ.get("VERIF_REPO", "/repo")
    subprocess.run(["git", "-C", REPO, "checkout", "--", "."])
    r = subprocess.run(["git", "-C", REPO, "apply", os.path.join(d, "patch.diff")], capture_output=True, text=True)
    if r.returncode != 0:
        rows.append((name, "PATCH DOES NOT APPLY", r.stderr[:100]))
        continue
    try:
        for p in props:
            c = subprocess.run([os.path.join(V, "check"), p, "--tier", os.environ.get("SEEDED_TIER", "quick")],
                               capture_output=True, text=True, cwd=V)
            vio = [l for l in c.stdout.split("\n") if l.startswith("VIOLATION")]
            rows.append((name, p, "caught" if c.returncode == 1 and vio else "MISSED", (vio[0] if vio else c.stdout.strip().split("\n")[-1])[:140]))
    finally:
        subprocess.run(["git", "-C", REPO, "checkout", "--", "."])
for r in rows:
    print(" | ".join(r))
# leave Facts.lean regenerated from the unchanged repository
subprocess.run(["go", "run", ".", "-repo", "/repo", "-out", os.path.join(V, "lean", "LzModel", "Generated", "Facts.lean"),
                "-code", os.path.join(V, "lean", "LzModel", "Generated", "Code.lean")],
               cwd=os.path.join(V, "tools", "extract"),
               env=dict(os.environ, GOFLAGS="-mod=mod", GOPROXY="off", GOSUMDB="off", GOTOOLCHAIN="local"))
