#!/usr/bin/env bash
# Mutation self-test of the THIRD part of the Go -> Lean translation (hash tables, parser
# init / Reset / Shrink; tools/extract/code_gslice.go) and of LzProofs/GenHashProps*.lean.
#
# For every mutant: copy the repository to a fresh directory under /tmp, apply one small semantic
# change, regenerate LzModel/Generated/Code*.lean from the copy into a COPY of the lake
# project, and build the GenHashProps modules there.
#   kind proof    : the build must FAIL (the failing theorems are listed)
#   kind extract  : the extractor must refuse a topic (exit status 3)
#   kind harmless : a behaviour-preserving rewrite — extractor and build must still succeed
# The working tree (<verif>/lean) is never touched; scratch-repo and the copy are removed.
#
# usage: ./genhash_selftest.sh     exit status 0 iff every mutant behaves as expected
set -u
export GOFLAGS=-mod=mod GOPROXY=off GOSUMDB=off GOTOOLCHAIN=local

HERE="$(cd "$(dirname "$0")/.." && pwd)"
REPO="${REPO:-/repo}"
SCRATCH="$(mktemp -d /tmp/pf-genhash-selftest.XXXXXX)"
LEAN="$SCRATCH/lean"
GEN="$LEAN/LzModel/Generated"
MUT="$(mktemp -d /tmp/pf-mutrepo.XXXXXX)/scratch-repo"   # scratch copies of the library live outside /verif and /repo
EXTRACT="$SCRATCH/extract"
TARGETS="LzProofs.GenHashProps LzProofs.GenHashPropsDict LzProofs.GenHashPropsBucket"
bad=0; good=0; total=0

cleanup() { rm -rf "$SCRATCH" "$MUT"; }
trap cleanup EXIT

cp -r "$HERE/lean" "$LEAN"
(cd "$HERE/tools/extract" && go build -o "$EXTRACT" .) || { echo "cannot build the extractor"; exit 1; }

failing_theorems() {
  grep -o 'error: LzProofs/GenHashProps[A-Za-z]*\.lean:[0-9]*' "$1" | sed 's/error: //' | sort -u | while IFS=: read -r f ln; do
    awk -v L="$ln" -v F="$(basename "$f" .lean)" 'NR<=L && /^theorem /{name=$2} END{if (name=="") name="(import)"; print F ":" name}' "$LEAN/$f"
  done | sort -u | tr '\n' ' '
}
build() { (cd "$LEAN" && lake build $TARGETS) >"$1" 2>&1; }

# mutant <name> <kind> <file> <perl program>
mutant() {
  local name="$1" kind="$2" file="$3" prog="$4"
  total=$((total+1))
  rm -rf "$MUT"; cp -r "$REPO" "$MUT"; rm -rf "$MUT/.git"
  perl -0pi -e "$prog" "$MUT/$file"
  if cmp -s "$MUT/$file" "$REPO/$file"; then
    echo "ERROR    $name: the mutation did not apply to $file"; bad=$((bad+1)); return
  fi
  (cd "$MUT" && go build ./... >/dev/null 2>"$SCRATCH/gobuild.err") || {
    echo "ERROR    $name: the mutated repository does not compile: $(head -2 "$SCRATCH/gobuild.err" | tr '\n' ' ')"; bad=$((bad+1)); return; }
  "$EXTRACT" -repo "$MUT" -out "$SCRATCH/facts.lean" -code "$GEN/Code.lean" 2>"$SCRATCH/extract.err"
  local rc=$?
  local refused
  refused="$(grep -o 'topic [A-Za-z0-9]* REFUSED' "$SCRATCH/extract.err" | awk '{print $2}' | tr '\n' ' ' | sed 's/ $//')"
  case "$kind" in
  extract)
    if [ $rc -eq 3 ] && [ -n "$refused" ]; then
      echo "REFUSED  $name  [topics: $refused — $(grep -v REFUSED "$SCRATCH/extract.err" | head -1 | sed 's/^ *//')]"; good=$((good+1))
    else
      echo "ACCEPTED $name: the extractor accepted a construct it must refuse (status $rc)"; bad=$((bad+1))
    fi ;;
  proof)
    if [ $rc -ne 0 ]; then
      echo "ERROR    $name: extractor status $rc: $(head -3 "$SCRATCH/extract.err" | tr '\n' ' ')"; bad=$((bad+1))
    elif build "$SCRATCH/build.log"; then
      echo "SURVIVED $name: the GenHashProps modules still build"; bad=$((bad+1))
    else
      echo "KILLED   $name  [failing: $(failing_theorems "$SCRATCH/build.log")]"; good=$((good+1))
    fi ;;
  harmless)
    if [ $rc -ne 0 ]; then
      echo "BROKEN   $name: extractor status $rc: $(head -3 "$SCRATCH/extract.err" | tr '\n' ' ')"; bad=$((bad+1))
    elif build "$SCRATCH/build.log"; then
      echo "HARMLESS $name  [still builds]"; good=$((good+1))
    else
      echo "BROKEN   $name: a harmless rewrite breaks [$(failing_theorems "$SCRATCH/build.log")]"; bad=$((bad+1))
    fi ;;
  esac
}

echo "== baseline: code generated from $REPO, the GenHashProps modules build"
"$EXTRACT" -repo "$REPO" -out "$SCRATCH/facts.lean" -code "$GEN/Code.lean" || { echo "extractor failed on $REPO"; exit 1; }
diff -r "$GEN" "$HERE/lean/LzModel/Generated" >/dev/null || echo "   note: the Generated directory of the working tree is not up to date with $REPO"
build "$SCRATCH/base.log" || { echo "baseline build FAILED"; grep -A8 '^error' "$SCRATCH/base.log" | head -40; exit 1; }
echo "   ok"

echo "== mutants"
# --- hash.init
mutant "hash.init: shift = 64 - hashBits -> 63 - hashBits"   proof hash.go 's/h\.shift = 64 - uint\(hashBits\)/h.shift = 63 - uint(hashBits)/'
mutant "hash.init: n = 1 << hashBits -> 2 << hashBits"       proof hash.go 's/n := 1 << hashBits/n := 2 << hashBits/'
mutant "hash.init: mask 1<<(inputLen*8) -> 1<<(inputLen*4)"  proof hash.go 's/1<<\(uint\(inputLen\)\*8\) - 1/1<<(uint(inputLen)*4) - 1/'
mutant "hash.init: h.inputLen = inputLen -> hashBits"        proof hash.go 's/h\.inputLen = inputLen/h.inputLen = hashBits/'
mutant "hash.init: maxHashBits 24 -> 25"                     proof hash.go 's/(func \(h \*hash\) init.*?)maxHashBits := 24/${1}maxHashBits := 25/s'
mutant "hash.init: re-used table not cleared"                proof hash.go 's/(h\.table = h\.table\[:n\]\n)\t\tfor i := range h\.table \{\n\t\t\th\.table\[i\] = hashEntry\{\}\n\t\t\}\n/${1}/'
# --- hash.reset
mutant "hash.reset: entry 0 is not cleared"                  proof hash.go 's/(func \(h \*hash\) reset\(\) \{\n\tfor i := range h\.table \{\n)\t\th\.table\[i\] = hashEntry\{\}/${1}\t\tif i > 0 {\n\t\t\th.table[i] = hashEntry{}\n\t\t}/'
mutant "hash.reset: clears with pos 1"                       proof hash.go 's/(func \(h \*hash\) reset\(\) \{\n\tfor i := range h\.table \{\n)\t\th\.table\[i\] = hashEntry\{\}/${1}\t\th.table[i] = hashEntry{pos: 1}/'
# --- hash.shiftOffsets
mutant "hash.shiftOffsets: e.pos < delta -> <="              proof hash.go 's/if e\.pos < delta \{/if e.pos <= delta {/'
mutant "hash.shiftOffsets: e.pos - delta -> e.pos + delta"   proof hash.go 's/h\.table\[i\]\.pos = e\.pos - delta/h.table[i].pos = e.pos + delta/'
mutant "hash.shiftOffsets: stale entries keep their value"   proof hash.go 's/(if e\.pos < delta \{\n)\t\t\th\.table\[i\] = hashEntry\{\}/${1}\t\t\th.table[i].pos = 0/'
# --- hashDictionary (Reset / Shrink of the hash parser), hashParser.init
mutant "hashDictionary.Shrink: delta > 0 -> delta > 1"       proof hash.go 's/(func \(f \*hashDictionary\) Shrink.*?)if delta > 0 \{/${1}if delta > 1 {/s'
mutant "hashDictionary.Reset: table not cleared"             proof hash.go 's/\tf\.hash\.reset\(\)\n//'
mutant "hashDictionary.init: hash.init gets swapped arguments" proof hash.go 's/f\.hash\.init\(cfg\.InputLen, cfg\.HashBits\)/f.hash.init(cfg.HashBits, cfg.InputLen)/'
mutant "hashParser.init: configuration not stored"           proof hp.go   's/\ts\.HPConfig = cfg\n//'
mutant "hashParser.init: Verify error ignored"               proof hp.go   's/(func \(s \*hashParser\) init.*?)if err = cfg\.Verify\(\); err != nil \{\n\t\treturn err\n\t\}/${1}err = cfg.Verify()/s'
# --- bucketHash.reset
mutant "bucketHash.reset: indexes not cleared"               proof bucket_hash.go 's/\tfor i := range bh\.indexes \{\n\t\tbh\.indexes\[i\] = 0\n\t\}\n//'
mutant "bucketHash.reset: indexes set to 1"                  proof bucket_hash.go 's/bh\.indexes\[i\] = 0/bh.indexes[i] = 1/'
# --- harmless rewrites: must still be accepted and proved
mutant "harmless: make with a larger capacity"               harmless hash.go 's/make\(\[\]hashEntry, n\)/make([]hashEntry, n, 2*n)/'
mutant "harmless: zero entry spelled out"                    harmless hash.go 's/(func \(h \*hash\) reset\(\) \{\n\tfor i := range h\.table \{\n)\t\th\.table\[i\] = hashEntry\{\}/${1}\t\th.table[i] = hashEntry{pos: 0, value: 0}/'
mutant "harmless: shiftOffsets arms swapped"                 harmless hash.go 's/if e\.pos < delta \{\n\t\t\th\.table\[i\] = hashEntry\{\}\n\t\t\} else \{\n\t\t\th\.table\[i\]\.pos = e\.pos - delta\n\t\t\}/if e.pos >= delta {\n\t\t\th.table[i].pos = e.pos - delta\n\t\t} else {\n\t\t\th.table[i] = hashEntry{}\n\t\t}/'
mutant "harmless: init range checks via De Morgan"           harmless hash.go 's/(func \(h \*hash\) init.*?)if !\(2 <= inputLen && inputLen <= 8\) \{/${1}if inputLen < 2 || inputLen > 8 {/s'
# --- the normalisations of the robustness round (notes/robust.md): zeroing loop / clear / counting loop
mutant "harmless: reset with the builtin clear"              harmless hash.go 's/(func \(h \*hash\) reset\(\) \{\n)\tfor i := range h\.table \{\n\t\th\.table\[i\] = hashEntry\{\}\n\t\}\n/${1}\tclear(h.table)\n/'
mutant "harmless: reset as a counting loop"                  harmless hash.go 's/(func \(h \*hash\) reset\(\) \{\n)\tfor i := range h\.table \{/${1}\tfor i := 0; i < len(h.table); i++ {/'
mutant "hash.reset: counting loop that stops one short"      proof hash.go 's/(func \(h \*hash\) reset\(\) \{\n)\tfor i := range h\.table \{/${1}\tfor i := 0; i < len(h.table)-1; i++ {/'
mutant "hash.reset: counting loop that starts at 1"          proof hash.go 's/(func \(h \*hash\) reset\(\) \{\n)\tfor i := range h\.table \{/${1}\tfor i := 1; i < len(h.table); i++ {/'
mutant "bucketHash.reset: clear(buckets) twice, indexes kept" proof bucket_hash.go 's/\tfor i := range bh\.indexes \{\n\t\tbh\.indexes\[i\] = 0\n\t\}\n/\tclear(bh.buckets)\n/'
mutant "hash.shiftOffsets: element pointer to entry 0      " proof hash.go 's/for i, e := range h\.table \{\n\t\tif e\.pos < delta \{\n\t\t\th\.table\[i\] = hashEntry\{\}/for i, e := range h.table {\n\t\tif e.pos < delta {\n\t\t\tp := &h.table[0]\n\t\t\t*p = hashEntry{}/'
# --- constructs the value model of slices cannot express: the extractor must refuse
# (second robustness round, notes/robust2.md: `t := h.table` with a stable header is a second NAME of the field and is
#  substituted by the normalisation pass — behaviour-preserving and now translated; a RE-SLICED copy stays an alias)
mutant "harmless: reset through a second slice variable"     harmless hash.go 's/(func \(h \*hash\) reset\(\) \{\n)\tfor i := range h\.table \{\n\t\th\.table\[i\] = hashEntry\{\}/${1}\tt := h.table\n\tfor i := range t {\n\t\tt[i] = hashEntry{}/'
mutant "alias: reset through a re-sliced second variable"    extract hash.go 's/(func \(h \*hash\) reset\(\) \{\n)\tfor i := range h\.table \{\n\t\th\.table\[i\] = hashEntry\{\}/${1}\tt := h.table[0:]\n\tfor i := range t {\n\t\tt[i] = hashEntry{}/'
mutant "second slice variable, one entry not cleared"        proof hash.go 's/(func \(h \*hash\) reset\(\) \{\n)\tfor i := range h\.table \{\n\t\th\.table\[i\] = hashEntry\{\}/${1}\tt := h.table\n\tfor i := range t {\n\t\tt[i] = hashEntry{pos: 1}/'
mutant "range loop re-slices the table it iterates over"     extract hash.go 's/(func \(h \*hash\) reset\(\) \{\n\tfor i := range h\.table \{\n)/${1}\t\th.table = h.table[:len(h.table)-i]\n/'
mutant "value receiver writes elements"                      extract hash.go 's/func \(h \*hash\) reset\(\) \{/func (h hash) reset() {/'

echo "== summary: $good of $total mutants behaved as expected, $bad did not"
[ $bad -eq 0 ]
