#!/bin/sh
# Runs the repository's pinned test-suite with the verif guard OFF and checks
# that every test of the stable baseline passes.
export GOFLAGS=-mod=mod GOPROXY=off GOSUMDB=off GOTOOLCHAIN=local
cd /repo || exit 2
go test -json -vet=off -count=1 -timeout 25m ./... > /tmp/lz_baseline.$$.json 2>/dev/null
python3 - /tmp/lz_baseline.$$.json /verif/tools/baseline_tests.txt <<'PY'
import json,sys
passed=set()
for l in open(sys.argv[1]):
    try: e=json.loads(l)
    except Exception: continue
    if e.get('Action')=='pass' and e.get('Test'):
        passed.add(e['Package']+'::'+e['Test'])
want=[l.strip() for l in open(sys.argv[2]) if l.strip()]
missing=[t for t in want if t not in passed]
print("baseline: %d/%d stable tests pass"%(len(want)-len(missing),len(want)))
for m in missing: print("MISSING",m)
sys.exit(1 if missing else 0)
PY
rc=$?
rm -f /tmp/lz_baseline.$$.json
exit $rc
