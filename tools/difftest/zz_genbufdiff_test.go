package lz

// Differential check of the second part of the Go -> Lean translation (buffer state
// machines): runs pseudo-random scripts of calls on ParserBuffer and DecoderBuffer and
// prints one line per call (results, errors, panics, and the complete state including the
// backing array up to the capacity), in the same format as tools/difftest/DiffBuf.lean.
// Copied into a scratch copy of the repository by tools/genbuf_difftest.sh; never part of /repo.

import (
	"fmt"
	"os"
	"strings"
	"testing"
)

type bufRnd struct{ s uint64 }

func (r *bufRnd) n(n int) int {
	r.s = r.s*6364136223846793005 + 1442695040888963407
	return int((r.s >> 33) % uint64(n))
}

func (r *bufRnd) bytes(n, extra int) []byte {
	p := make([]byte, n, n+extra)
	for i := range p {
		p[i] = byte(r.n(256))
	}
	return p
}

func hexAll(p []byte) string {
	q := p[:cap(p)]
	var sb strings.Builder
	for _, c := range q {
		fmt.Fprintf(&sb, "%02x", c)
	}
	return sb.String() + "."
}

func bufErr(err error) string {
	switch err {
	case nil:
		return "ok"
	case ErrFullBuffer:
		return "full"
	case ErrOutOfBuffer:
		return "outOfBuffer"
	case ErrEndOfBuffer:
		return "endOfBuffer"
	case errOffset:
		return "offset"
	case errMatchLen:
		return "matchLen"
	case errLitLen:
		return "litLen"
	}
	return "error"
}

func TestGenBufDiff(t *testing.T) {
	f, err := os.Create(os.Getenv("GENBUFDIFF_OUT"))
	if err != nil {
		t.Fatal(err)
	}
	defer f.Close()
	p := func(format string, a ...interface{}) { fmt.Fprintf(f, format+"\n", a...) }

	// ---------------------------------------------------------------- ParserBuffer
	for seed := 0; seed < 400; seed++ {
		r := &bufRnd{uint64(seed)*2654435761 + 17}
		var b ParserBuffer
		pst := func() string {
			return fmt.Sprintf("len=%d cap=%d W=%d Off=%d BS=%d SS=%d %s", len(b.Data), cap(b.Data), b.W, b.Off,
				b.BufferSize, b.ShrinkSize, hexAll(b.Data))
		}
		bs := 16 + r.n(48)
		cfg := BufConfig{BufferSize: bs, ShrinkSize: r.n(bs), WindowSize: r.n(bs + 1), BlockSize: 1 + r.n(8)}
		if seed%50 == 7 {
			cfg.BufferSize = -1
		}
		e := b.Init(cfg)
		p("PB %d Init %s %s", seed, bufErr(e), pst())
		if e != nil {
			continue
		}
		func() {
			defer func() {
				if x := recover(); x != nil {
					p("PB %d panic", seed)
				}
			}()
			for step := 0; step < 30; step++ {
				switch op := r.n(10); op {
				case 0, 8, 9:
					q := r.bytes(r.n(24), 0)
					n, err := b.Write(q)
					p("PB %d Write %d %s %s", seed, n, bufErr(err), pst())
				case 1:
					b.W = r.n(len(b.Data) + 1)
					d := b.Shrink()
					p("PB %d Shrink %d %s", seed, d, pst())
				case 2:
					off := b.Off - 2 + int64(r.n(len(b.Data)+4))
					c, err := b.ByteAt(off)
					p("PB %d ByteAt %d %d %s", seed, off, c, bufErr(err))
				case 3:
					n := r.n(20)
					off := b.Off - 2 + int64(r.n(len(b.Data)+4))
					q, err := b.PeekAt(n, off)
					p("PB %d PeekAt %d %d %d %s %s", seed, n, off, len(q), bufErr(err), hexAll(q))
				case 4:
					k := r.n(12)
					q := make([]byte, k, k+r.n(3))
					off := b.Off - 2 + int64(r.n(len(b.Data)+4))
					n, err := b.ReadAt(q, off)
					p("PB %d ReadAt %d %d %d %s %s", seed, k, off, n, bufErr(err), hexAll(q))
				case 5:
					k := r.n(30)
					data := r.bytes(k, r.n(10))
					err := b.Reset(data)
					es := bufErr(err)
					if err != nil {
						es = "oversize"
					}
					p("PB %d Reset %d %s %s", seed, k, es, pst())
				case 6:
					tt := r.n(100)
					b.grow(tt)
					p("PB %d grow %d %s", seed, tt, pst())
				case 7:
					if r.n(4) == 0 {
						b.W = b.ShrinkSize + len(b.Data) + 1 + r.n(3)
						d := b.Shrink()
						p("PB %d ShrinkBad %d %s", seed, d, pst())
					}
				}
			}
		}()
	}

	// ---------------------------------------------------------------- DecoderBuffer
	for seed := 0; seed < 400; seed++ {
		r := &bufRnd{uint64(seed)*40503 + 99}
		var b DecoderBuffer
		dst := func() string {
			return fmt.Sprintf("len=%d cap=%d R=%d Off=%d WS=%d BS=%d %s", len(b.Data), cap(b.Data), b.R, b.Off,
				b.WindowSize, b.BufferSize, hexAll(b.Data))
		}
		ws := r.n(16)
		cfg := DecoderConfig{WindowSize: ws, BufferSize: ws + 1 + r.n(32)}
		if seed%50 == 9 {
			cfg.BufferSize = ws
		}
		e := b.Init(cfg)
		p("DB %d Init %s %s", seed, bufErr(e), dst())
		if e != nil {
			continue
		}
		func() {
			defer func() {
				if x := recover(); x != nil {
					p("DB %d panic", seed)
				}
			}()
			for step := 0; step < 30; step++ {
				switch op := r.n(9); op {
				case 0:
					c := byte(r.n(256))
					err := b.WriteByte(c)
					p("DB %d WriteByte %d %s %s", seed, c, bufErr(err), dst())
				case 1:
					q := r.bytes(r.n(20), 0)
					n, err := b.Write(q)
					p("DB %d Write %d %s %s", seed, n, bufErr(err), dst())
				case 2, 8:
					m, o := uint32(r.n(40)), uint32(r.n(12))
					n, err := b.WriteMatch(m, o)
					p("DB %d WriteMatch %d %d %d %s %s", seed, m, o, n, bufErr(err), dst())
				case 3:
					k := r.n(16)
					q := make([]byte, k)
					n, err := b.Read(q)
					p("DB %d Read %d %d %s %s %s", seed, k, n, bufErr(err), hexAll(q), dst())
				case 4:
					off := r.n(len(b.Data) + 3)
					c := b.ByteAtEnd(off)
					p("DB %d ByteAtEnd %d %d", seed, off, c)
				case 5:
					ns := r.n(4)
					var blk Block
					for i := 0; i < ns; i++ {
						blk.Sequences = append(blk.Sequences, Seq{LitLen: uint32(r.n(5)), MatchLen: uint32(r.n(12)), Offset: uint32(r.n(10))})
					}
					blk.Literals = r.bytes(r.n(24), 0)
					n, k, l, err := b.WriteBlock(blk)
					p("DB %d WriteBlock %d %d %d %s %s", seed, n, k, l, bufErr(err), dst())
				case 6:
					if r.n(4) == 0 {
						b.Reset()
						p("DB %d Reset %s", seed, dst())
					}
				case 7:
					g := r.n(80)
					d := b.shrink(g)
					p("DB %d shrink %d %d %s", seed, g, d, dst())
				}
			}
		}()
	}
}
