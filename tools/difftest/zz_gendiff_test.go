package lz

// Differential check of the Go -> Lean translation: prints the results of the
// whitelisted functions on a grid of inputs, one line per call, in the same
// format as tools/difftest/Diff.lean.  Copied into a scratch copy of the
// repository by difftest.sh; never part of /repo.

import (
	"fmt"
	"os"
	"testing"
)

func errCode(err error) string {
	if err == nil {
		return "ok"
	}
	return "err"
}

func TestGenDiff(t *testing.T) {
	f, err := os.Create(os.Getenv("GENDIFF_OUT"))
	if err != nil {
		t.Fatal(err)
	}
	defer f.Close()
	p := func(format string, a ...interface{}) { fmt.Fprintf(f, format+"\n", a...) }

	ints := []int{-9223372036854775807, -4294967296, -65537, -3, -2, -1, 0, 1, 2, 3, 7, 8, 65535, 65536, 4294967288, 4294967289, 9223372036854775807}
	for _, x := range ints {
		for _, y := range ints {
			// overflow of x-y is outside the model (unbounded Int): skip those pairs
			d := x - y
			if (x >= 0) != (y >= 0) && (d >= 0) != (x >= 0) {
				continue
			}
			p("doz %d %d %d", x, y, doz(x, y))
			p("min %d %d %d", x, y, min(x, y))
		}
	}
	p("iverson %d %d", iverson(false), iverson(true))

	xs := []uint64{0, 1, 2, 0xff, 0x123456789abcdef0, 0xffffffffffffffff, 0x8000000000000000, 6364136223846793005}
	for _, x := range xs {
		for _, s := range []uint{0, 1, 31, 32, 40, 46, 63, 64, 65, 1000} {
			p("hashValue %d %d %d", x, s, hashValue(x, s))
		}
	}
	us := []uint32{0, 1, 2, 3, 4, 5, 6, 9, 10, 11, 17, 18, 19, 255, 256, 273, 65535, 65536, 0x7fffffff, 0x80000000, 0xfffffffe, 0xffffffff}
	for _, m := range us {
		for _, o := range us {
			p("XZCost %d %d %d", m, o, XZCost(m, o))
		}
	}
	for _, a := range us[:8] {
		for _, b := range us[14:] {
			s := Seq{LitLen: a, MatchLen: b, Offset: 1, Aux: 7}
			p("SeqLen %d %d %d", a, b, s.Len())
			blk := Block{Sequences: []Seq{s, {LitLen: b, MatchLen: a}, s}, Literals: make([]byte, int(a))}
			p("BlockLen %d %d %d", a, b, blk.Len())
		}
	}

	grid := []int{-1, 0, 1, 2, 3, 65535, 65536, 131072, 4294967288, 4294967289}
	for _, ss := range grid {
		for _, bs := range grid {
			for _, ws := range grid {
				for _, bl := range []int{-1, 0, 1, 4294967288, 4294967289} {
					c := BufConfig{ShrinkSize: ss, BufferSize: bs, WindowSize: ws, BlockSize: bl}
					v := errCode(c.Verify())
					d := c
					d.SetDefaults()
					p("Buf %d %d %d %d %s %d %d %d %d %s", ss, bs, ws, bl, v, d.ShrinkSize, d.BufferSize, d.WindowSize, d.BlockSize, errCode(d.Verify()))
				}
			}
		}
	}
	small := []int{-1, 0, 1, 2, 3, 4, 5, 6, 8, 9, 16, 17, 23, 24, 25, 64}
	for _, il := range small {
		for _, hb := range small {
			h := hashConfig{InputLen: il, HashBits: hb}
			v := errCode(h.Verify())
			d := h
			d.SetDefaults()
			p("Hash %d %d %s %d %d %s", il, hb, v, d.InputLen, d.HashBits, errCode(d.Verify()))
			for _, bsz := range []int{-1, 0, 1, 10, 128, 129} {
				b := bucketConfig{InputLen: il, HashBits: hb, BucketSize: bsz}
				v := errCode(b.Verify())
				e := b
				e.SetDefaults()
				p("Bucket %d %d %d %s %d %d %d %s", il, hb, bsz, v, e.InputLen, e.HashBits, e.BucketSize, errCode(e.Verify()))
			}
			for _, il2 := range []int{0, 2, 5, 6, 8, 9} {
				for _, hb2 := range []int{0, 18, 25} {
					dh := dhConfig{H1: h, H2: hashConfig{InputLen: il2, HashBits: hb2}}
					v := errCode(dh.Verify())
					e := dh
					e.SetDefaults()
					p("Dh %d %d %d %d %s %d %d %d %d %s", il, hb, il2, hb2, v, e.H1.InputLen, e.H1.HashBits, e.H2.InputLen, e.H2.HashBits, errCode(e.Verify()))
				}
			}
		}
	}
	sz := []int{0, 1, 5, 65536, 2147483647, 2147483648}
	for _, bs := range sz {
		for _, ws := range sz {
			for _, a := range []int{-1, 0, 1, 2, 3, 273, 274} {
				for _, b := range []int{0, 2, 3, 273} {
					hp := HPConfig{BufferSize: bs, WindowSize: ws, InputLen: a, HashBits: b}
					v := errCode(hp.Verify())
					hp.SetDefaults()
					p("HP %d %d %d %d %s %d %d %d %d %d %d %s", bs, ws, a, b, v, hp.ShrinkSize, hp.BufferSize, hp.WindowSize, hp.BlockSize, hp.InputLen, hp.HashBits, errCode(hp.Verify()))
					bup := BUPConfig{BufferSize: bs, WindowSize: ws, InputLen: a, HashBits: b, BucketSize: b}
					v = errCode(bup.Verify())
					bup.SetDefaults()
					p("BUP %d %d %d %d %s %d %d %d %d %d %d %d %s", bs, ws, a, b, v, bup.ShrinkSize, bup.BufferSize, bup.WindowSize, bup.BlockSize, bup.InputLen, bup.HashBits, bup.BucketSize, errCode(bup.Verify()))
					dhp := DHPConfig{BufferSize: bs, WindowSize: ws, InputLen1: a, HashBits1: b, InputLen2: b, HashBits2: a}
					v = errCode(dhp.Verify())
					dhp.SetDefaults()
					p("DHP %d %d %d %d %s %d %d %d %d %d %d %d %d %s", bs, ws, a, b, v, dhp.ShrinkSize, dhp.BufferSize, dhp.WindowSize, dhp.BlockSize, dhp.InputLen1, dhp.HashBits1, dhp.InputLen2, dhp.HashBits2, errCode(dhp.Verify()))
					g := GSAPConfig{BufferSize: bs, WindowSize: ws, MinMatchLen: a}
					v = errCode(g.Verify())
					g.SetDefaults()
					p("GSAP %d %d %d %s %d %d %d %d %d %s", bs, ws, a, v, g.ShrinkSize, g.BufferSize, g.WindowSize, g.BlockSize, g.MinMatchLen, errCode(g.Verify()))
					for _, cost := range []string{"", "XZCost", "x"} {
						o := OSAPConfig{BufferSize: bs, WindowSize: ws, MinMatchLen: a, MaxMatchLen: b, Cost: cost}
						v = errCode(o.Verify())
						o.SetDefaults()
						p("OSAP %d %d %d %d %q %s %d %d %d %d %d %d %q %s", bs, ws, a, b, cost, v, o.ShrinkSize, o.BufferSize, o.WindowSize, o.BlockSize, o.MinMatchLen, o.MaxMatchLen, o.Cost, errCode(o.Verify()))
					}
				}
			}
			dc := DecoderConfig{WindowSize: ws, BufferSize: bs}
			v := errCode(dc.Verify())
			dc.SetDefaults()
			p("Dec %d %d %s %d %d %s", ws, bs, v, dc.WindowSize, dc.BufferSize, errCode(dc.Verify()))
		}
	}
}
