/-
  Differential check of the Go → Lean translation (the trusted part): evaluates the
  generated definitions of `LZ.Gen` on the same grid of inputs as
  `zz_gendiff_test.go` and prints one line per call in the same format.
  Run by `difftest.sh`; not part of the proof build.
-/
import LzModel.Generated.Code
open LZ.Gen

def ec (e : Err) : String := match e with | .ok => "ok" | .error _ => "err"

def ints : List Int := [-9223372036854775807, -4294967296, -65537, -3, -2, -1, 0, 1, 2, 3, 7, 8, 65535, 65536,
  4294967288, 4294967289, 9223372036854775807]
def xs : List UInt64 := [0, 1, 2, 0xff, 0x123456789abcdef0, 0xffffffffffffffff, 0x8000000000000000, 6364136223846793005]
def us : List UInt32 := [0, 1, 2, 3, 4, 5, 6, 9, 10, 11, 17, 18, 19, 255, 256, 273, 65535, 65536, 0x7fffffff,
  0x80000000, 0xfffffffe, 0xffffffff]
def grid : List Int := [-1, 0, 1, 2, 3, 65535, 65536, 131072, 4294967288, 4294967289]
def small : List Int := [-1, 0, 1, 2, 3, 4, 5, 6, 8, 9, 16, 17, 23, 24, 25, 64]
def sz : List Int := [0, 1, 5, 65536, 2147483647, 2147483648]

def main : IO Unit := do
  let p (s : String) : IO Unit := IO.println s
  for x in ints do
    for y in ints do
      let d := x - y
      if d < -9223372036854775808 ∨ d > 9223372036854775807 then continue
      p s!"doz {x} {y} {LZ.Gen.doz x y}"
      p s!"min {x} {y} {LZ.Gen.min x y}"
  p s!"iverson {iverson false} {iverson true}"
  for x in xs do
    for s in ([0, 1, 31, 32, 40, 46, 63, 64, 65, 1000] : List UInt64) do
      p s!"hashValue {x} {s} {LZ.Gen.hashValue x s}"
  for m in us do
    for o in us do
      p s!"XZCost {m} {o} {XZCost m o}"
  for a in us.take 8 do
    for b in us.drop 14 do
      let s : Seq := { LitLen := a, MatchLen := b, Offset := 1, Aux := 7 }
      p s!"SeqLen {a} {b} {Seq_Len s}"
      let blk : Block := { Sequences := [s, { LitLen := b, MatchLen := a, Offset := 0, Aux := 0 }, s],
                           Literals := List.replicate a.toNat 0 }
      p s!"BlockLen {a} {b} {Block_Len blk}"
  for ss in grid do
    for bs in grid do
      for ws in grid do
        for bl in ([-1, 0, 1, 4294967288, 4294967289] : List Int) do
          let c : BufConfig := ⟨ss, bs, ws, bl⟩
          let d := BufConfig_SetDefaults c
          p s!"Buf {ss} {bs} {ws} {bl} {ec (BufConfig_Verify c)} {d.ShrinkSize} {d.BufferSize} {d.WindowSize} {d.BlockSize} {ec (BufConfig_Verify d)}"
  for il in small do
    for hb in small do
      let h : hashConfig := ⟨il, hb⟩
      let d := hashConfig_SetDefaults h
      p s!"Hash {il} {hb} {ec (hashConfig_Verify h)} {d.InputLen} {d.HashBits} {ec (hashConfig_Verify d)}"
      for bsz in ([-1, 0, 1, 10, 128, 129] : List Int) do
        let b : bucketConfig := ⟨il, hb, bsz⟩
        let e := bucketConfig_SetDefaults b
        p s!"Bucket {il} {hb} {bsz} {ec (bucketConfig_Verify b)} {e.InputLen} {e.HashBits} {e.BucketSize} {ec (bucketConfig_Verify e)}"
      for il2 in ([0, 2, 5, 6, 8, 9] : List Int) do
        for hb2 in ([0, 18, 25] : List Int) do
          let dh : dhConfig := ⟨h, ⟨il2, hb2⟩⟩
          let e := dhConfig_SetDefaults dh
          p s!"Dh {il} {hb} {il2} {hb2} {ec (dhConfig_Verify dh)} {e.H1.InputLen} {e.H1.HashBits} {e.H2.InputLen} {e.H2.HashBits} {ec (dhConfig_Verify e)}"
  for bs in sz do
    for ws in sz do
      for a in ([-1, 0, 1, 2, 3, 273, 274] : List Int) do
        for b in ([0, 2, 3, 273] : List Int) do
          let hp : HPConfig := { ShrinkSize := 0, BufferSize := bs, WindowSize := ws, BlockSize := 0, InputLen := a, HashBits := b }
          let v := ec (HPConfig_Verify hp)
          let hp := HPConfig_SetDefaults hp
          p s!"HP {bs} {ws} {a} {b} {v} {hp.ShrinkSize} {hp.BufferSize} {hp.WindowSize} {hp.BlockSize} {hp.InputLen} {hp.HashBits} {ec (HPConfig_Verify hp)}"
          let bup : BUPConfig := { ShrinkSize := 0, BufferSize := bs, WindowSize := ws, BlockSize := 0, InputLen := a, HashBits := b, BucketSize := b }
          let v := ec (BUPConfig_Verify bup)
          let bup := BUPConfig_SetDefaults bup
          p s!"BUP {bs} {ws} {a} {b} {v} {bup.ShrinkSize} {bup.BufferSize} {bup.WindowSize} {bup.BlockSize} {bup.InputLen} {bup.HashBits} {bup.BucketSize} {ec (BUPConfig_Verify bup)}"
          let dhp : DHPConfig := { ShrinkSize := 0, BufferSize := bs, WindowSize := ws, BlockSize := 0, InputLen1 := a, HashBits1 := b, InputLen2 := b, HashBits2 := a }
          let v := ec (DHPConfig_Verify dhp)
          let dhp := DHPConfig_SetDefaults dhp
          p s!"DHP {bs} {ws} {a} {b} {v} {dhp.ShrinkSize} {dhp.BufferSize} {dhp.WindowSize} {dhp.BlockSize} {dhp.InputLen1} {dhp.HashBits1} {dhp.InputLen2} {dhp.HashBits2} {ec (DHPConfig_Verify dhp)}"
          let g : GSAPConfig := { ShrinkSize := 0, BufferSize := bs, WindowSize := ws, BlockSize := 0, MinMatchLen := a }
          let v := ec (GSAPConfig_Verify g)
          let g := GSAPConfig_SetDefaults g
          p s!"GSAP {bs} {ws} {a} {v} {g.ShrinkSize} {g.BufferSize} {g.WindowSize} {g.BlockSize} {g.MinMatchLen} {ec (GSAPConfig_Verify g)}"
          for cost in ["", "XZCost", "x"] do
            let o : OSAPConfig := { ShrinkSize := 0, BufferSize := bs, WindowSize := ws, BlockSize := 0, MinMatchLen := a, MaxMatchLen := b, Cost := cost }
            let v := ec (OSAPConfig_Verify o)
            let o := OSAPConfig_SetDefaults o
            p s!"OSAP {bs} {ws} {a} {b} {cost.quote} {v} {o.ShrinkSize} {o.BufferSize} {o.WindowSize} {o.BlockSize} {o.MinMatchLen} {o.MaxMatchLen} {o.Cost.quote} {ec (OSAPConfig_Verify o)}"
      let dc : DecoderConfig := ⟨ws, bs⟩
      let v := ec (DecoderConfig_Verify dc)
      let dc := DecoderConfig_SetDefaults dc
      p s!"Dec {ws} {bs} {v} {dc.WindowSize} {dc.BufferSize} {ec (DecoderConfig_Verify dc)}"
