/-
  Differential check of the second part of the Go → Lean translation (buffer state machines):
  evaluates the generated definitions of `LZ.Gen` on the same pseudo-random scripts as
  `zz_genbufdiff_test.go` and prints one line per call in the same format.  The growth function
  of `append` is the transcription of the Go run time's `growslice` for byte slices
  (`LZ.goGrow` with the size class table).  Run by `tools/genbuf_difftest.sh`; not part of the
  proof build.
-/
import LzModel.Generated.Code
import LzModel.Driver
open LZ.Gen

def sizeClasses : List Nat := [8, 16, 24, 32, 48, 64, 80, 96, 112, 128, 144, 160, 176, 192, 208, 224, 240, 256,
  288, 320, 352, 384, 416, 448, 480, 512, 576, 640, 704, 768, 896, 1024, 1152, 1280, 1408, 1536,
  1792, 2048, 2304, 2688, 3072, 3200, 3456, 4096, 4864, 5376, 6144, 6528, 6784, 6912, 8192, 9472,
  9728, 10240, 10880, 12288, 13568, 14336, 16384, 18432, 19072, 20480, 21760, 24576, 27264, 28672, 32768]

def grow : Nat → Nat → Nat := LZ.Driver.goGrow sizeClasses

abbrev Rnd := StateT UInt64 IO

def rn (n : Nat) : Rnd Nat := do
  let s ← get
  let s := s * 6364136223846793005 + 1442695040888963407
  set s
  return ((s >>> 33).toNat % n)

def rbytes (n extra : Nat) : Rnd Slice := do
  let mut bs : List UInt8 := []
  for _ in [0:n] do
    let c ← rn 256
    bs := bs ++ [UInt8.ofNat c]
  return { arr := bs ++ List.replicate extra 0, len := n }

def hex2 (c : UInt8) : String :=
  let d (x : Nat) : Char := if x < 10 then Char.ofNat (48 + x) else Char.ofNat (87 + x)
  String.ofList [d (c.toNat / 16), d (c.toNat % 16)]

def hexAll (s : Slice) : String := String.join (s.arr.map hex2) ++ "."

def bufErr (e : Err) : String :=
  if e = Err.ok then "ok" else if e = ErrFullBuffer then "full" else if e = ErrOutOfBuffer then "outOfBuffer"
  else if e = ErrEndOfBuffer then "endOfBuffer" else if e = errOffset then "offset"
  else if e = errMatchLen then "matchLen" else if e = errLitLen then "litLen" else "error"

def pst (b : ParserBuffer) : String :=
  s!"len={b.Data.len} cap={b.Data.cap} W={b.W} Off={b.Off} BS={b.BufConfig.BufferSize} SS={b.BufConfig.ShrinkSize} {hexAll b.Data}"

def dst (b : DecoderBuffer) : String :=
  s!"len={b.Data.len} cap={b.Data.cap} R={b.R} Off={b.Off} WS={b.DecoderConfig.WindowSize} BS={b.DecoderConfig.BufferSize} {hexAll b.Data}"

def zeroPB : ParserBuffer := { Data := Slice.nil, W := 0, Off := 0, BufConfig := ⟨0, 0, 0, 0⟩ }
def zeroDB : DecoderBuffer := { Data := Slice.nil, R := 0, Off := 0, DecoderConfig := ⟨0, 0⟩ }

/-- one step of a ParserBuffer script; `none` = panic -/
def pbStep (seed : Nat) (b : ParserBuffer) : Rnd (Option ParserBuffer) := do
  let p (s : String) : Rnd Unit := IO.println s
  let op ← rn 10
  match op with
  | 0 | 8 | 9 =>
    let k ← rn 24
    let q ← rbytes k 0
    match ParserBuffer_Write grow b q with
    | .ok (b', n, e) => p s!"PB {seed} Write {n} {bufErr e} {pst b'}"; return some b'
    | _ => return none
  | 1 =>
    let w ← rn (b.Data.len + 1)
    let b := { b with W := Int.ofNat w }
    match ParserBuffer_Shrink b with
    | .ok (b', d) => p s!"PB {seed} Shrink {d} {pst b'}"; return some b'
    | _ => return none
  | 2 =>
    let x ← rn (b.Data.len + 4)
    let off : Int := b.Off - 2 + Int.ofNat x
    match ParserBuffer_ByteAt b off with
    | .ok (c, e) => p s!"PB {seed} ByteAt {off} {c} {bufErr e}"; return some b
    | _ => return none
  | 3 =>
    let n ← rn 20
    let x ← rn (b.Data.len + 4)
    let off : Int := b.Off - 2 + Int.ofNat x
    match ParserBuffer_PeekAt b (Int.ofNat n) off with
    | .ok (q, e) => p s!"PB {seed} PeekAt {n} {off} {q.len} {bufErr e} {hexAll q}"; return some b
    | _ => return none
  | 4 =>
    let k ← rn 12
    let extra ← rn 3
    let q : Slice := { arr := List.replicate (k + extra) 0, len := k }
    let x ← rn (b.Data.len + 4)
    let off : Int := b.Off - 2 + Int.ofNat x
    match ParserBuffer_ReadAt b q off with
    | .ok (q', n, e) => p s!"PB {seed} ReadAt {k} {off} {n} {bufErr e} {hexAll q'}"; return some b
    | _ => return none
  | 5 =>
    let k ← rn 30
    let extra ← rn 10
    let data ← rbytes k extra
    match ParserBuffer_Reset b data with
    | .ok (b', e) =>
      let es := if e = Err.ok then "ok" else "oversize"
      p s!"PB {seed} Reset {k} {es} {pst b'}"; return some b'
    | _ => return none
  | 6 =>
    let t ← rn 100
    match ParserBuffer_grow b (Int.ofNat t) with
    | .ok b' => p s!"PB {seed} grow {t} {pst b'}"; return some b'
    | _ => return none
  | _ =>
    let c ← rn 4
    if c = 0 then
      let x ← rn 3
      let b := { b with W := b.BufConfig.ShrinkSize + Int.ofNat b.Data.len + 1 + Int.ofNat x }
      match ParserBuffer_Shrink b with
      | .ok (b', d) => p s!"PB {seed} ShrinkBad {d} {pst b'}"; return some b'
      | _ => return none
    else return some b

def pbScript (seed : Nat) : Rnd Unit := do
  set (UInt64.ofNat seed * 2654435761 + 17)
  let bs := 16 + (← rn 48)
  let ss ← rn bs
  let ws ← rn (bs + 1)
  let bl := 1 + (← rn 8)
  let cfg : BufConfig := { BufferSize := if seed % 50 = 7 then -1 else Int.ofNat bs, ShrinkSize := Int.ofNat ss,
                           WindowSize := Int.ofNat ws, BlockSize := Int.ofNat bl }
  match ParserBuffer_Init zeroPB cfg with
  | .ok (b, e) =>
    IO.println s!"PB {seed} Init {bufErr e} {pst b}"
    if e ≠ Err.ok then return
    let mut b := b
    for _ in [0:30] do
      match ← pbStep seed b with
      | some b' => b := b'
      | none => IO.println s!"PB {seed} panic"; return
  | _ => IO.println s!"PB {seed} panic"

def dbStep (seed : Nat) (b : DecoderBuffer) : Rnd (Option DecoderBuffer) := do
  let p (s : String) : Rnd Unit := IO.println s
  let fuel := 1000
  let op ← rn 9
  match op with
  | 0 =>
    let c ← rn 256
    match DecoderBuffer_WriteByte grow b (UInt8.ofNat c) with
    | .ok (b', e) => p s!"DB {seed} WriteByte {c} {bufErr e} {dst b'}"; return some b'
    | _ => return none
  | 1 =>
    let k ← rn 20
    let q ← rbytes k 0
    match DecoderBuffer_Write grow b q with
    | .ok (b', n, e) => p s!"DB {seed} Write {n} {bufErr e} {dst b'}"; return some b'
    | _ => return none
  | 2 | 8 =>
    let m ← rn 40
    let o ← rn 12
    match DecoderBuffer_WriteMatch grow fuel b (UInt32.ofNat m) (UInt32.ofNat o) with
    | .ok (b', n, e) => p s!"DB {seed} WriteMatch {m} {o} {n} {bufErr e} {dst b'}"; return some b'
    | _ => return none
  | 3 =>
    let k ← rn 16
    let q : Slice := { arr := List.replicate k 0, len := k }
    match DecoderBuffer_Read b q with
    | .ok (b', q', n, e) => p s!"DB {seed} Read {k} {n} {bufErr e} {hexAll q'} {dst b'}"; return some b'
    | _ => return none
  | 4 =>
    let off ← rn (b.Data.len + 3)
    match DecoderBuffer_ByteAtEnd b (Int.ofNat off) with
    | .ok c => p s!"DB {seed} ByteAtEnd {off} {c}"; return some b
    | _ => return none
  | 5 =>
    let ns ← rn 4
    let mut seqs : List Seq := []
    for _ in [0:ns] do
      let l ← rn 5
      let m ← rn 12
      let o ← rn 10
      seqs := seqs ++ [{ LitLen := UInt32.ofNat l, MatchLen := UInt32.ofNat m, Offset := UInt32.ofNat o, Aux := 0 }]
    let k ← rn 24
    let lits ← rbytes k 0
    match DecoderBuffer_WriteBlock grow fuel b { Sequences := seqs, Literals := lits } with
    | .ok (b', n, k, l, e) => p s!"DB {seed} WriteBlock {n} {k} {l} {bufErr e} {dst b'}"; return some b'
    | _ => return none
  | 6 =>
    let c ← rn 4
    if c = 0 then
      match DecoderBuffer_Reset b with
      | .ok b' => p s!"DB {seed} Reset {dst b'}"; return some b'
      | _ => return none
    else return some b
  | _ =>
    let g ← rn 80
    match DecoderBuffer_shrink b (Int.ofNat g) with
    | .ok (b', d) => p s!"DB {seed} shrink {g} {d} {dst b'}"; return some b'
    | _ => return none

def dbScript (seed : Nat) : Rnd Unit := do
  set (UInt64.ofNat seed * 40503 + 99)
  let ws ← rn 16
  let x ← rn 32
  let cfg : DecoderConfig := { WindowSize := Int.ofNat ws, BufferSize := if seed % 50 = 9 then Int.ofNat ws else Int.ofNat (ws + 1 + x) }
  match DecoderBuffer_Init zeroDB cfg with
  | .ok (b, e) =>
    IO.println s!"DB {seed} Init {bufErr e} {dst b}"
    if e ≠ Err.ok then return
    let mut b := b
    for _ in [0:30] do
      match ← dbStep seed b with
      | some b' => b := b'
      | none => IO.println s!"DB {seed} panic"; return
  | _ => IO.println s!"DB {seed} panic"

def main : IO Unit := do
  for seed in [0:400] do
    let _ ← (pbScript seed).run 0
  for seed in [0:400] do
    let _ ← (dbScript seed).run 0
