#!/usr/bin/env bash
# Mutation self-test of the second part of the Go -> Lean translation (byte slices, panics,
# loops) and of LzProofs/GenBufProps{Base,P,D}.lean.
#
# For every mutant: copy /repo to a scratch directory, apply a one-token (or one-statement)
# change to parser_buffer.go / decoder_buffer.go, regenerate the topic modules
# LzModel/Generated/Code*.lean from the mutated copy and run `lake build LzProofs.GenBufProps`
# (umbrella of GenBufPropsP = ParserBuffer, GenBufPropsD = DecoderBuffer without loops,
# GenBufPropsDCopy = WriteMatch / WriteBlock).  The build has to
# FAIL; the failing theorems are reported as <file>:<theorem>.  Mutants marked "extract" must be
# refused by the extractor itself (construct outside of the supported subset): the translation
# is emitted per topic, so "refused" means exit status 3 (partial) with the topic of the mutated
# file among the refused ones — and the OTHER buffer's proof module must still build.  At the end
# the code is regenerated from /repo, compared with the first generation, and the build has to
# succeed.
#
# usage: tools/genbuf_selftest.sh     (exit status 0 iff every mutant is killed, the first
#                                      part of the generated code is the unchanged baseline, and the
#                                      unmutated tree builds)
set -u
export GOFLAGS=-mod=mod GOPROXY=off GOSUMDB=off GOTOOLCHAIN=local

HERE="$(cd "$(dirname "$0")/.." && pwd)"
REPO="${REPO:-/repo}"
# LEAN_DIR: the lake project to use (default: lean/); SHARD=i/n runs only the mutants whose number is
# i modulo n (several shards can run at the same time on separate copies of lean/)
LEAN="${LEAN_DIR:-$HERE/lean}"
SHARD="${SHARD:-0/1}"
SHARD_I="${SHARD%/*}"
SHARD_N="${SHARD#*/}"
GEN="$LEAN/LzModel/Generated"
CODE="$GEN/Code.lean"
if [ "$LEAN" != "$HERE/lean" ]; then cp "$HERE"/lean/LzProofs/GenBufProps*.lean "$LEAN/LzProofs/"; fi
SCRATCH="$(mktemp -d /tmp/pf-genbuf-selftest.XXXXXX)"
EXTRACT="$SCRATCH/extract"
survived=0
killed=0
total=0
seq=0

cleanup() {
  "$EXTRACT" -repo "$REPO" -out "$SCRATCH/facts.lean" -code "$CODE" >/dev/null 2>&1
  rm -rf "$SCRATCH"
}
trap cleanup EXIT

(cd "$HERE/tools/extract" && go build -o "$EXTRACT" .) || { echo "cannot build the extractor"; exit 1; }

failing_theorems() {
  grep -o 'error: LzProofs/GenBufProps[A-Za-z]*\.lean:[0-9]*' "$1" | sed 's/error: //' | sort -u | while IFS=: read -r f ln; do
    awk -v L="$ln" -v F="$(basename "$f" .lean)" 'NR<=L && /^theorem /{name=$2} END{if (name=="") name="(import)"; print F ":" name}' "$LEAN/$f"
  done | sort -u | tr '\n' ' '
}

build() { (cd "$LEAN" && lake build LzProofs.GenBufProps) >"$1" 2>&1; }

# mutant <name> <kind: proof|extract> <file> <perl substitution program>
mutant() {
  local name="$1" kind="$2" file="$3" prog="$4"
  seq=$((seq+1))
  if [ $((seq % SHARD_N)) -ne "$SHARD_I" ]; then return; fi
  total=$((total+1))
  local dir="$SCRATCH/m$total"
  mkdir -p "$dir"
  cp -r "$REPO"/*.go "$REPO"/go.mod "$dir"/ 2>/dev/null
  cp -r "$REPO"/suffix "$dir"/suffix
  perl -0pi -e "$prog" "$dir/$file"
  if cmp -s "$dir/$file" "$REPO/$file"; then
    echo "MUTANT $name: the mutation did not apply to $file"; survived=$((survived+1)); return
  fi
  if ! (cd "$dir" && gofmt -e "$file" >/dev/null 2>"$dir/gofmt.err"); then
    echo "MUTANT $name: the mutated file does not parse: $(head -1 "$dir/gofmt.err")"; survived=$((survived+1)); return
  fi
  local change
  change="$(diff "$REPO/$file" "$dir/$file" | grep '^[<>]' | head -4 | sed 's/^/      /')"
  local rc refused
  "$EXTRACT" -repo "$dir" -out "$dir/facts.lean" -code "$CODE" 2>"$dir/extract.err"
  rc=$?
  refused="$(grep -o 'topic [A-Za-z0-9]* REFUSED' "$dir/extract.err" | awk '{print $2}' | tr '\n' ' ' | sed 's/ $//')"
  if [ $rc -ne 0 ]; then
    if [ "$kind" = extract ] && [ $rc -eq 3 ] && [ -n "$refused" ]; then
      # per-topic refusal: the proof module of a buffer whose topic was NOT refused still builds
      local other="" ok=1
      case " $refused " in *" PBuf "*) ;; *) other="$other LzProofs.GenBufPropsP" ;; esac
      case " $refused " in *" DBuf "*) ;; *) other="$other LzProofs.GenBufPropsD" ;; esac
      case " $refused " in *" DBuf "*|*" DBufCopy "*) ;; *) other="$other LzProofs.GenBufPropsDCopy" ;; esac
      if [ -n "$other" ]; then (cd "$LEAN" && lake build $other) >"$dir/other.log" 2>&1 || ok=0; fi
      if [ $ok -eq 1 ]; then
        echo "KILLED   $name  [refused by the extractor, topics: $refused${other:+; still builds:$other} — $(grep -v REFUSED "$dir/extract.err" | head -1 | sed 's/^ *//' | cut -c1-200)]"
        killed=$((killed+1))
      else
        echo "MUTANT $name: refused topics [$refused], but$other does not build any more"; survived=$((survived+1))
      fi
    elif [ "$kind" = extract ]; then
      echo "MUTANT $name: extractor exit status $rc without a refused topic: $(head -3 "$dir/extract.err")"; survived=$((survived+1))
    else
      echo "MUTANT $name: extractor failed unexpectedly (status $rc): $(cat "$dir/extract.err")"; survived=$((survived+1))
    fi
    rm -rf "$dir"; return
  fi
  if [ "$kind" = extract ]; then
    echo "SURVIVED $name: the extractor accepted a construct it must refuse"; survived=$((survived+1))
    rm -rf "$dir"; return
  fi
  if build "$dir/build.log"; then
    echo "SURVIVED $name: GenBufProps still builds"
    echo "$change"
    survived=$((survived+1))
  else
    local ft
    ft="$(failing_theorems "$dir/build.log")"
    if [ -z "$ft" ]; then
      echo "KILLED?  $name  [the build fails outside of the GenBufProps files: $(grep -m1 'error' "$dir/build.log" | cut -c1-200)]"
      survived=$((survived+1))
    else
      echo "KILLED   $name  [failing: $ft]"
      killed=$((killed+1))
    fi
  fi
  rm -rf "$dir"
}

echo "== baseline: code generated from $REPO builds, generation is deterministic, first part unchanged"
"$EXTRACT" -repo "$REPO" -out "$SCRATCH/facts.lean" -code "$CODE" || exit 1
snapshot() { mkdir -p "$1"; cp "$GEN"/Code*.lean "$1"/; }
snapshot "$SCRATCH/code1"
mkdir -p "$SCRATCH/code2"
"$EXTRACT" -repo "$REPO" -out "$SCRATCH/facts2.lean" -code "$SCRATCH/code2/Code.lean" || exit 1
diff -r "$SCRATCH/code1" "$SCRATCH/code2" >/dev/null || { echo "generation is not deterministic"; exit 1; }
if [ -f "$GEN/Facts.lean" ]; then
  cmp "$SCRATCH/facts.lean" "$GEN/Facts.lean" || { echo "Facts.lean output changed"; exit 1; }
fi
if [ -f "$HERE/tools/baseline_Code.lean" ]; then
  # the function text of the first part must be what the monolithic Code.lean of the previous step contained
  fns() { awk '/^\/-! ### functions -\//{f=1;next} /^\/-! ## second part|^end LZ.Gen/{f=0} f' "$@" | grep -v '^$'; }
  cmp <(fns "$HERE/tools/baseline_Code.lean") <(fns "$GEN"/Code{Ints,Hash,Cost,Len,CfgBuf,CfgHash,CfgBucket,CfgHP,CfgBHP,CfgDHP,CfgBDHP,CfgBUP,CfgGSAP,CfgOSAP,Dec}.lean) \
    || { echo "the first part of the generated code changed"; exit 1; }
fi
build "$SCRATCH/base.log" || { echo "baseline build FAILED"; tail -30 "$SCRATCH/base.log"; exit 1; }
(cd "$LEAN" && lake build LzProofs.GenProps) >"$SCRATCH/base2.log" 2>&1 || { echo "GenProps build FAILED"; exit 1; }
echo "   ok"

PB=parser_buffer.go
DB=decoder_buffer.go
echo "== mutants"
# --- ParserBuffer
mutant "PB.Shrink: drop b.Off += int64(delta)"                 proof $PB 's/\tb\.Off \+= int64\(delta\)\n//'
mutant "PB.Shrink: b.W = b.ShrinkSize -> b.W = delta"          proof $PB 's/b\.W = b\.ShrinkSize/b.W = delta/'
mutant "PB.Shrink: delta := W - ShrinkSize -> W + ShrinkSize"  proof $PB 's/delta := b\.W - b\.ShrinkSize/delta := b.W + b.ShrinkSize/'
mutant "PB.Shrink: return delta -> return n"                   proof $PB 's/(b\.Off \+= int64\(delta\)\n)\treturn delta/${1}\treturn n/'
mutant "PB.Shrink: delta <= 0 -> delta < 0 (equivalent in Go; the proof follows the case split of the code)" proof $PB 's/if delta <= 0 \{/if delta < 0 {/'
mutant "PB.Shrink: swapped copy arguments"                     extract $PB 's/n := copy\(b\.Data, b\.Data\[delta:\]\)/n := copy(b.Data[delta:], b.Data)/'
mutant "PB.ByteAt: i < len -> i <= len"                        proof $PB 's/(func \(b \*ParserBuffer\) ByteAt.*?)i < int64\(len\(b\.Data\)\)/${1}i <= int64(len(b.Data))/s'
mutant "PB.ByteAt: i == len -> i != len"                       proof $PB 's/if i == int64\(len\(b\.Data\)\)/if i != int64(len(b.Data))/'
mutant "PB.ByteAt: b.Data[i] -> b.Data[i+1]"                   proof $PB 's/return b\.Data\[i\], nil/return b.Data[i+1], nil/'
mutant "PB.PeekAt: len(p) < n -> len(p) <= n"                  proof $PB 's/if len\(p\) < n \{/if len(p) <= n {/'
mutant "PB.PeekAt: ErrOutOfBuffer -> ErrEndOfBuffer"           proof $PB 's/return nil, ErrOutOfBuffer/return nil, ErrEndOfBuffer/'
mutant "PB.PeekAt: 0 <= i -> 1 <= i"                           proof $PB 's/(func \(b \*ParserBuffer\) PeekAt.*?)!\(0 <= i/${1}!(1 <= i/s'
mutant "PB.ReadAt: copy(p, q) -> copy(q, p)"                   proof $PB 's/n = copy\(p, q\)/n = copy(q, p)/'
mutant "PB.Reset: margin len+7 -> len+6"                       proof $PB 's/margin := len\(data\) \+ 7/margin := len(data) + 6/'
mutant "PB.Reset: len(data) > BufferSize -> >="                proof $PB 's/if len\(data\) > b\.BufferSize \{/if len(data) >= b.BufferSize {/'
mutant "PB.Reset: drop b.W = 0"                                proof $PB 's/\tb\.W = 0\n//'
mutant "PB.Reset: margin > cap(data) -> margin < cap(data)"    proof $PB 's/if margin > cap\(data\) \{/if margin < cap(data) {/'
mutant "PB.grow: t+7 <= cap -> t+6 <= cap"                     proof $PB 's/if t\+7 <= cap\(b\.Data\) \{/if t+6 <= cap(b.Data) {/'
mutant "PB.grow: 2*t+7 -> 2*t+8"                               proof $PB 's/c := 2\*int64\(t\) \+ 7/c := 2*int64(t) + 8/'
mutant "PB.grow: minimum 1024 -> 512"                          proof $PB 's/\t\tc = 1024\n/\t\tc = 512\n/'
mutant "PB.grow: make(len, c) -> make(len, c+1)"               proof $PB 's/make\(\[\]byte, len\(b\.Data\), c\)/make([]byte, len(b.Data), c+1)/'
mutant "PB.Write: p[:available] -> p[:available+1]"            proof $PB 's/p = p\[:available\]/p = p[:available+1]/'
mutant "PB.Write: available < len(p) -> <="                    proof $PB 's/if available < len\(p\) \{/if available <= len(p) {/'
mutant "PB.Write: t+7 > cap -> t+6 > cap"                      proof $PB 's/(func \(b \*ParserBuffer\) Write.*?)if t\+7 > cap\(b\.Data\)/${1}if t+6 > cap(b.Data)/s'
mutant "PB.Write: err = ErrFullBuffer dropped"                 proof $PB 's/(p = p\[:available\]\n)\t\terr = ErrFullBuffer\n/${1}/'
mutant "PB.Init: Data: b.Data[:0] -> b.Data[:1]"               proof $PB 's/(\*b = ParserBuffer\{\n\t\tData:      b\.Data)\[:0\]/${1}[:1]/'
# --- DecoderBuffer
mutant "DB.Init: cap > BufferSize -> cap < BufferSize"         proof $DB 's/(func \(b \*DecoderBuffer\) Init.*?)if cap\(b\.Data\) > b\.BufferSize/${1}if cap(b.Data) < b.BufferSize/s'
mutant "DB.Reset: keeps R (R: b.R in the literal)"             proof $DB 's/(func \(b \*DecoderBuffer\) Reset.*?Data:          b\.Data\[:0\],\n)/${1}\t\tR:             b.R,\n/s'
mutant "DB.ByteAtEnd: len - off -> len + off"                  proof $DB 's/i := len\(b\.Data\) - off/i := len(b.Data) + off/'
mutant "DB.ByteAtEnd: i < len -> i <= len"                     proof $DB 's/(func \(b \*DecoderBuffer\) ByteAtEnd.*?)i < len\(b\.Data\)/${1}i <= len(b.Data)/s'
mutant "DB.Read: drop b.R += n"                                proof $DB 's/(n = copy\(p, b\.Data\[b\.R:\]\)\n)\tb\.R \+= n\n/${1}/'
mutant "DB.Read: b.Data[b.R:] -> b.Data[b.R+1:]"               proof $DB 's/n = copy\(p, b\.Data\[b\.R:\]\)/n = copy(p, b.Data[b.R+1:])/'
mutant "DB.shrink: BufferSize < cap -> <="                     proof $DB 's/if b\.BufferSize < cap\(b\.Data\) \{/if b.BufferSize <= cap(b.Data) {/'
mutant "DB.shrink: g <= BufferSize -> g < BufferSize"          proof $DB 's/if g <= b\.BufferSize \{/if g < b.BufferSize {/'
mutant "DB.shrink: b.R -= delta dropped"                       proof $DB 's/\tb\.R -= delta\n//'
mutant "DB.shrink: doz(len, WindowSize) -> doz(WindowSize, len)" proof $DB 's/delta := doz\(len\(b\.Data\), b\.WindowSize\)/delta := doz(b.WindowSize, len(b.Data))/'
mutant "DB.shrink: swapped copy arguments"                     extract $DB 's/k := copy\(b\.Data, b\.Data\[delta:\]\)/k := copy(b.Data[delta:], b.Data)/'
mutant "DB.WriteByte: drop b.Off++"                            proof $DB 's/\tb\.Off\+\+\n//'
mutant "DB.WriteByte: g > BufferSize -> g >= BufferSize"       proof $DB 's/(func \(b \*DecoderBuffer\) WriteByte.*?)if g > b\.BufferSize \{/${1}if g >= b.BufferSize {/s'
mutant "DB.WriteByte: g := len+1 -> len+2"                     proof $DB 's/g := len\(b\.Data\) \+ 1/g := len(b.Data) + 2/'
mutant "DB.Write: b.Off += int64(n) -> int64(g)"               proof $DB 's/(func \(b \*DecoderBuffer\) Write\(.*?)b\.Off \+= int64\(n\)/${1}b.Off += int64(g)/s'
mutant "DB.Write: return 0, ErrFullBuffer -> return n, ErrFullBuffer" proof $DB 's/(func \(b \*DecoderBuffer\) Write\(.*?)return 0, ErrFullBuffer/${1}return n, ErrFullBuffer/s'
mutant "DB.WriteMatch: off <<= 1 dropped"                      proof $DB 's/(func \(b \*DecoderBuffer\) WriteMatch.*?)\t\toff <<= 1\n/${1}/s'
mutant "DB.WriteMatch: off <<= 1 -> off <<= 2"                 proof $DB 's/(func \(b \*DecoderBuffer\) WriteMatch.*?)off <<= 1/${1}off <<= 2/s'
mutant "DB.WriteMatch: n -= off -> n -= 1"                     proof $DB 's/(func \(b \*DecoderBuffer\) WriteMatch.*?)\t\tn -= off\n/${1}\t\tn -= 1\n/s'
mutant "DB.WriteMatch: o == 0 && m > 0 -> m >= 0"              proof $DB 's/(func \(b \*DecoderBuffer\) WriteMatch.*?)o == 0 && m > 0/${1}o == 0 \&\& m >= 0/s'
mutant "DB.WriteMatch: int64(o) > winLen -> >="                proof $DB 's/if int64\(o\) > int64\(winLen\) \{/if int64(o) >= int64(winLen) {/'
mutant "DB.WriteMatch: j := len - off -> len - n"              proof $DB 's/(func \(b \*DecoderBuffer\) WriteMatch.*?)j := len\(b\.Data\) - off/${1}j := len(b.Data) - n/s'
mutant "DB.WriteMatch: errMatchLen <-> ErrFullBuffer"          proof $DB 's/(func \(b \*DecoderBuffer\) WriteMatch.*?)return 0, errMatchLen(.*?)return 0, ErrFullBuffer/${1}return 0, ErrFullBuffer${2}return 0, errMatchLen/s'
mutant "DB.WriteMatch: b.Off += _m -> b.Off += int64(n)"       proof $DB 's/b\.Off \+= _m/b.Off += int64(n)/'
mutant "DB.WriteMatch: shrink(int(_m) + len) -> shrink(int(_m))" proof $DB 's/b\.shrink\(int\(_m\) \+ len\(b\.Data\)\)/b.shrink(int(_m))/'
mutant "DB.WriteMatch: winLen > WindowSize -> winLen < WindowSize" proof $DB 's/(func \(b \*DecoderBuffer\) WriteMatch.*?)if winLen > b\.WindowSize \{/${1}if winLen < b.WindowSize {/s'
# --- DecoderBuffer.WriteBlock (range loop, goto end)
mutant "DB.WriteBlock: LitLen > len(Literals) -> >="            proof $DB 's/if int64\(s\.LitLen\) > int64\(len\(blk\.Literals\)\) \{/if int64(s.LitLen) >= int64(len(blk.Literals)) {/'
mutant "DB.WriteBlock: err = errLitLen -> errOffset"            proof $DB 's/err = errLitLen\n/err = errOffset\n/'
mutant "DB.WriteBlock: winLen without the literals"             proof $DB 's/winLen := len\(b\.Data\) \+ int\(s\.LitLen\)/winLen := len(b.Data)/'
mutant "DB.WriteBlock: ld -= b.shrink(..) -> b.shrink(..)"      proof $DB 's/ld -= b\.shrink\(int\(g\) \+ len\(b\.Data\)\)/b.shrink(int(g) + len(b.Data))/'
mutant "DB.WriteBlock: literals not advanced"                   proof $DB 's/\t\tblk\.Literals = blk\.Literals\[s\.LitLen:\]\n//'
mutant "DB.WriteBlock: blk.Literals[:s.LitLen] -> [:s.LitLen+1]" proof $DB 's/append\(b\.Data, blk\.Literals\[:s\.LitLen\]\.\.\.\)/append(b.Data, blk.Literals[:s.LitLen+1]...)/'
mutant "DB.WriteBlock: k = len(blk.Sequences) dropped"          proof $DB 's/\tk = len\(blk\.Sequences\)\n//'
mutant "DB.WriteBlock: ld -= delta dropped"                     proof $DB 's/\t\t\tld -= delta\n//'
mutant "DB.WriteBlock: l = ll - len(Literals) -> l = ll"        proof $DB 's/l = ll - len\(blk\.Literals\)/l = ll/'
mutant "DB.WriteBlock: b.Off += int64(n) dropped"               proof $DB 's/(n = len\(b\.Data\) - ld\n)\tb\.Off \+= int64\(n\)\n/${1}/'
mutant "DB.WriteBlock: first goto end dropped"                  proof $DB 's/(err = errLitLen\n)\t\t\tgoto end\n/${1}/'
mutant "DB.WriteBlock: goto end -> break after errLitLen"       proof $DB 's/(err = errLitLen\n)\t\t\tgoto end\n/${1}\t\t\tbreak\n/'
mutant "DB.WriteBlock: blk.Literals = blk.Literals[:0] dropped" proof $DB 's/\tblk\.Literals = blk\.Literals\[:0\]\n//'
mutant "DB.WriteBlock: off <<= 1 -> off <<= 2 in its copy loop" proof $DB 's/(func \(b \*DecoderBuffer\) WriteBlock.*?)off <<= 1/${1}off <<= 2/s'
mutant "DB.WriteBlock: errMatchLen <-> ErrFullBuffer"           proof $DB 's/(func \(b \*DecoderBuffer\) WriteBlock.*?)err = errMatchLen(.*?)err = ErrFullBuffer/${1}err = ErrFullBuffer${2}err = errMatchLen/s'
mutant "DB.WriteBlock: g := LitLen + MatchLen -> LitLen"        proof $DB 's/g := int64\(s\.LitLen\) \+ int64\(s\.MatchLen\)/g := int64(s.LitLen)/'
mutant "unsupported: labeled continue"                          extract $DB 's/\tfor k, s = range blk\.Sequences \{\n(.*?)\t\t\tgoto end\n/outer:\n\tfor k, s = range blk.Sequences {\n${1}\t\t\tcontinue outer\n/s'
mutant "unsupported: backward goto"                             extract $DB 's/(func \(b \*DecoderBuffer\) WriteBlock.*?\tll := len\(blk\.Literals\)\n)(.*?)(\tl = ll - len\(blk\.Literals\)\n)/${1}again:\n${2}${3}\tif l < 0 {\n\t\tgoto again\n\t}\n/s'
# --- constructs outside of the subset: the extractor must refuse
mutant "unsupported: append not assigned back to its first argument" extract $DB 's/(func \(b \*DecoderBuffer\) WriteByte.*?)b\.Data = append\(b\.Data, c\)/${1}x := append(b.Data, c)\n\tb.Data = x/s'
mutant "unsupported: 3-index slice expression"                  extract $PB 's/b\.Data = b\.Data\[:n\]\n\tb\.W = b\.ShrinkSize/b.Data = b.Data[:n:n]\n\tb.W = b.ShrinkSize/'
mutant "unsupported: goto in Shrink"                            extract $PB 's/(func \(b \*ParserBuffer\) Shrink\(\) int \{\n)/${1}\tgoto done\ndone:\n/'
mutant "unsupported: defer in Write"                            extract $PB 's/(func \(b \*ParserBuffer\) Write\(p \[\]byte\) \(n int, err error\) \{\n)/${1}\tdefer func() { n++ }()\n/'
mutant "unsupported: return inside the for loop of WriteMatch"  extract $DB 's/(func \(b \*DecoderBuffer\) WriteMatch.*?)\t\tif n <= off \{\n\t\t\tbreak\n/${1}\t\tif n <= off {\n\t\t\treturn n, nil\n/s'
mutant "unsupported: for loop with init and post statement"     extract $DB 's/(func \(b \*DecoderBuffer\) WriteMatch.*?)for n > off \{/${1}for i := 0; n > off; i++ {/s'
mutant "unsupported: slice op on the right of && (short circuit)" extract $DB 's/(func \(b \*DecoderBuffer\) ByteAtEnd.*?)if !\(0 <= i && i < len\(b\.Data\)\)/${1}if !(0 <= i \&\& b.Data[i] < 200)/s'
mutant "unsupported: element assignment b.Data[0] = c"          extract $DB 's/(func \(b \*DecoderBuffer\) WriteByte.*?)\tb\.Off\+\+\n/${1}\tb.Data[0] = c\n\tb.Off++\n/s'
mutant "unsupported: mutating call and read of the receiver in one statement" extract $DB 's/(func \(b \*DecoderBuffer\) WriteByte.*?)if g -= b\.shrink\(g\); g > b\.BufferSize/${1}if g = b.R - b.shrink(g); g > b.BufferSize/s'
mutant "unsupported: a package-level error variable that is assigned somewhere in the package" extract lz.go 's/\z/\nfunc zzMutant() { ErrFullBuffer = nil }\n/'

echo "== restore: regenerate from $REPO and rebuild"
"$EXTRACT" -repo "$REPO" -out "$SCRATCH/facts.lean" -code "$CODE" || exit 1
snapshot "$SCRATCH/code3"
diff -r "$SCRATCH/code1" "$SCRATCH/code3" >/dev/null || { echo "the restored Code*.lean differ from the baseline"; exit 1; }
if build "$SCRATCH/final.log"; then echo "   ok: LzProofs.GenBufProps builds"; else echo "   FINAL BUILD FAILED"; tail -30 "$SCRATCH/final.log"; exit 1; fi

echo "== summary: $killed of $total mutants killed, $survived survived"
[ "$survived" -eq 0 ]
