// code_ptralias.go — LOCAL POINTER ALIASES are eliminated at source level, before any topic is
// translated (sixth part; used by hash.go doubleHashDictionary.processSegment
// `h1, h2 := &f.h1, &f.h2` and bucket_hash.go bucketHash.add `pi := &bh.indexes[h]`).
//
// The value model has no pointers into a structure.  A local variable
//
//	v := &P          (also   v, w := &P, &Q)
//
// that is never assigned again and is used only as `v.f…` (field access, method call on it) or
// `*v` is a NAME for the location P as long as P denotes the same location during the whole
// function.  Then `v.f` ≡ `P.f` and `*v` ≡ `P`, and the function is rewritten accordingly (the
// rewritten Go text is what the translator sees; every later check — slice aliases, mutation
// analysis, panics — works on it as on hand-written Go).  The rewriting is done only if ALL of the
// following hold (otherwise the function is left alone and `&` is refused as before):
//
//	(1) the statement is a define `:=` in a statement list; every right side is `&P` with P a
//	    selector or index expression built from an identifier R (variable, parameter, receiver),
//	    field selectors and at most ONE index expression `S[e]`;
//	(2) the name v is declared only here in the function (no shadowing, not a parameter / result /
//	    label), does not occur as a composite-literal key, and every occurrence is the operand of a
//	    selector `v.x` or of `*v` — it is never assigned, compared, passed, returned, or has its
//	    address taken;
//	(3) R is never assigned, redeclared or has its address taken in the function (so a pointer R
//	    keeps pointing to the same object): fields of a struct object have fixed addresses, so a
//	    pure field path P names ONE location whatever is assigned to it or to parts of it;
//	(4) with an index expression `S[e]`: e is built from literals, parentheses, + - * and
//	    identifiers that are PARAMETERS or the receiver never assigned in the function; and the
//	    slice header S cannot change: every assignment in the function whose left side is rooted at
//	    R is an ELEMENT assignment (contains an index expression), and R occurs in no call — as
//	    receiver or argument — other than conversions and len / cap.  The define statement is
//	    replaced by `_ = S[e]`, which keeps the bounds check (and its panic) at the place where Go
//	    evaluates `&S[e]`; for a pure field path the statement is deleted (`&R.f` cannot panic for
//	    a non-nil R; pointers are modelled by the value they point to).
//
// Nothing is keyed on a function name.  The functions that were rewritten carry a note in the doc
// comment of their translation.
package main

import (
	"fmt"
	"go/ast"
	"go/token"
)

// ptrAliasNotes: the aliases eliminated in a function (for the doc comment of its translation).
var ptrAliasNotes = map[*ast.FuncDecl][]string{}

// elimPtrAliases rewrites fd in place; it returns one note per eliminated alias.
func elimPtrAliases(fd *ast.FuncDecl) (notes []string) {
	if fd.Body == nil {
		return nil
	}
	for {
		note := elimOnePtrAlias(fd)
		if note == "" {
			return notes
		}
		notes = append(notes, note)
	}
}

type ptrAliasCand struct {
	list  *[]ast.Stmt
	idx   int
	stmt  *ast.AssignStmt
	names []string
	paths []ast.Expr
}

func elimOnePtrAlias(fd *ast.FuncDecl) string {
	var cand *ptrAliasCand
	var lists func(l *[]ast.Stmt)
	visitStmt := func(s ast.Stmt) {}
	lists = func(l *[]ast.Stmt) {
		for i, s := range *l {
			if cand != nil {
				return
			}
			if as, ok := s.(*ast.AssignStmt); ok && as.Tok == token.DEFINE && len(as.Lhs) == len(as.Rhs) {
				c := &ptrAliasCand{list: l, idx: i, stmt: as}
				for j, r := range as.Rhs {
					u, ok := r.(*ast.UnaryExpr)
					id, ok2 := as.Lhs[j].(*ast.Ident)
					if !ok || u.Op != token.AND || !ok2 || id.Name == "_" {
						c = nil
						break
					}
					switch u.X.(type) {
					case *ast.SelectorExpr, *ast.IndexExpr:
					default:
						c = nil
					}
					if c == nil {
						break
					}
					c.names = append(c.names, id.Name)
					c.paths = append(c.paths, u.X)
				}
				if c != nil && ptrAliasOK(fd, c) {
					cand = c
					return
				}
			}
			visitStmt(s)
		}
	}
	visitStmt = func(s ast.Stmt) {
		switch x := s.(type) {
		case *ast.BlockStmt:
			lists(&x.List)
		case *ast.IfStmt:
			lists(&x.Body.List)
			if x.Else != nil {
				visitStmt(x.Else)
			}
		case *ast.ForStmt:
			lists(&x.Body.List)
		case *ast.RangeStmt:
			lists(&x.Body.List)
		case *ast.LabeledStmt:
			visitStmt(x.Stmt)
		case *ast.SwitchStmt:
			for _, cc := range x.Body.List {
				lists(&cc.(*ast.CaseClause).Body)
			}
		}
	}
	lists(&fd.Body.List)
	if cand == nil {
		return ""
	}
	// substitute
	sub := map[string]ast.Expr{}
	for j, n := range cand.names {
		sub[n] = cand.paths[j]
	}
	var repl []ast.Stmt
	note := ""
	for j, p := range cand.paths {
		if ix := ptrAliasIndex(p); ix != nil {
			repl = append(repl, &ast.AssignStmt{Lhs: []ast.Expr{&ast.Ident{NamePos: cand.stmt.Pos(), Name: "_"}}, TokPos: cand.stmt.TokPos,
				Tok: token.ASSIGN, Rhs: []ast.Expr{copyPathExpr(ix, cand.stmt.Rhs[j].Pos())}})
		}
		if note != "" {
			note += ", "
		}
		note += fmt.Sprintf("%s := &%s", cand.names[j], exprString(p))
	}
	nl := append([]ast.Stmt{}, (*cand.list)[:cand.idx]...)
	nl = append(nl, repl...)
	nl = append(nl, (*cand.list)[cand.idx+1:]...)
	*cand.list = nl
	substPtrAlias(fd.Body, sub)
	// nothing may be left of the alias names (a use in a position substPtrAlias does not visit)
	sels := map[*ast.Ident]bool{}
	ast.Inspect(fd.Body, func(n ast.Node) bool {
		if se, isSel := n.(*ast.SelectorExpr); isSel {
			sels[se.Sel] = true
		}
		return true
	})
	ast.Inspect(fd.Body, func(n ast.Node) bool {
		if id, isId := n.(*ast.Ident); isId && sub[id.Name] != nil && !sels[id] {
			fatal(fmt.Errorf("code_ptralias.go: a use of the pointer alias %s in %s was not rewritten", id.Name, fd.Name.Name))
		}
		return true
	})
	return note
}

// ptrAliasIndex: the (single) index expression inside the path, or nil.
func ptrAliasIndex(p ast.Expr) *ast.IndexExpr {
	for {
		switch x := p.(type) {
		case *ast.SelectorExpr:
			p = x.X
		case *ast.IndexExpr:
			return x
		case *ast.ParenExpr:
			p = x.X
		default:
			return nil
		}
	}
}

func exprString(e ast.Expr) string {
	switch x := e.(type) {
	case *ast.Ident:
		return x.Name
	case *ast.BasicLit:
		return x.Value
	case *ast.SelectorExpr:
		return exprString(x.X) + "." + x.Sel.Name
	case *ast.IndexExpr:
		return exprString(x.X) + "[" + exprString(x.Index) + "]"
	case *ast.ParenExpr:
		return "(" + exprString(x.X) + ")"
	case *ast.BinaryExpr:
		return exprString(x.X) + " " + x.Op.String() + " " + exprString(x.Y)
	}
	return "…"
}

// copyPathExpr: a deep copy of a path / index expression with every position set to pos (the
// place of the use it replaces: the position checks of the translator compare statements).
func copyPathExpr(e ast.Expr, pos token.Pos) ast.Expr {
	switch x := e.(type) {
	case *ast.Ident:
		return &ast.Ident{NamePos: pos, Name: x.Name}
	case *ast.BasicLit:
		return &ast.BasicLit{ValuePos: pos, Kind: x.Kind, Value: x.Value}
	case *ast.SelectorExpr:
		return &ast.SelectorExpr{X: copyPathExpr(x.X, pos), Sel: &ast.Ident{NamePos: pos, Name: x.Sel.Name}}
	case *ast.IndexExpr:
		return &ast.IndexExpr{X: copyPathExpr(x.X, pos), Lbrack: pos, Index: copyPathExpr(x.Index, pos), Rbrack: pos}
	case *ast.ParenExpr:
		return &ast.ParenExpr{Lparen: pos, X: copyPathExpr(x.X, pos), Rparen: pos}
	case *ast.BinaryExpr:
		return &ast.BinaryExpr{X: copyPathExpr(x.X, pos), OpPos: pos, Op: x.Op, Y: copyPathExpr(x.Y, pos)}
	}
	panic("copyPathExpr: unexpected node")
}

// ptrAliasOK checks the conditions (1)–(4) of the header for the candidate.
func ptrAliasOK(fd *ast.FuncDecl, c *ptrAliasCand) bool {
	params := map[string]bool{}
	sigNames := map[string]bool{}
	addFields := func(fl *ast.FieldList, isParam bool) {
		if fl == nil {
			return
		}
		for _, f := range fl.List {
			for _, n := range f.Names {
				sigNames[n.Name] = true
				if isParam {
					params[n.Name] = true
				}
			}
		}
	}
	addFields(fd.Recv, true)
	addFields(fd.Type.Params, true)
	addFields(fd.Type.Results, false)

	// declarations and assignments by name
	declCount := map[string]int{}
	assigned := map[string]bool{} // identifier assigned / inc-dec / range variable / address taken
	var rootAssigns []ast.Expr    // left sides that are not plain identifiers
	labels := map[string]bool{}
	kvKeys := map[string]bool{}
	noteLhs := func(l ast.Expr, def bool) {
		for {
			pe, ok := l.(*ast.ParenExpr)
			if !ok {
				break
			}
			l = pe.X
		}
		if id, ok := l.(*ast.Ident); ok {
			if def {
				declCount[id.Name]++
			} else {
				assigned[id.Name] = true
			}
			return
		}
		rootAssigns = append(rootAssigns, l)
	}
	ast.Inspect(fd.Body, func(n ast.Node) bool {
		switch x := n.(type) {
		case *ast.AssignStmt:
			for _, l := range x.Lhs {
				noteLhs(l, x.Tok == token.DEFINE)
			}
		case *ast.IncDecStmt:
			noteLhs(x.X, false)
		case *ast.RangeStmt:
			if x.Key != nil {
				noteLhs(x.Key, x.Tok == token.DEFINE)
			}
			if x.Value != nil {
				noteLhs(x.Value, x.Tok == token.DEFINE)
			}
		case *ast.GenDecl:
			for _, sp := range x.Specs {
				if vs, ok := sp.(*ast.ValueSpec); ok {
					for _, n := range vs.Names {
						declCount[n.Name]++
					}
				}
			}
		case *ast.LabeledStmt:
			labels[x.Label.Name] = true
		case *ast.KeyValueExpr:
			if id, ok := x.Key.(*ast.Ident); ok {
				kvKeys[id.Name] = true
			}
		case *ast.UnaryExpr:
			if x.Op == token.AND {
				if id := rootOfPath(x.X); id != nil {
					if pid, plain := x.X.(*ast.Ident); plain {
						assigned[pid.Name] = true // &R
					}
					_ = id
				}
			}
		case *ast.FuncLit:
			assigned["\x00funclit"] = true
		}
		return true
	})
	if assigned["\x00funclit"] {
		return false
	}
	seenName := map[string]bool{}
	for _, n := range c.names {
		if seenName[n] || declCount[n] != 1 || assigned[n] || sigNames[n] || labels[n] || kvKeys[n] {
			return false
		}
		seenName[n] = true
	}
	// (2) every occurrence of the alias names is `v.x` or `*v`
	uses := map[*ast.Ident]bool{}
	ast.Inspect(fd.Body, func(n ast.Node) bool {
		switch x := n.(type) {
		case *ast.SelectorExpr:
			if id, isId := x.X.(*ast.Ident); isId && seenName[id.Name] {
				uses[id] = true
			}
		case *ast.StarExpr:
			if id, isId := x.X.(*ast.Ident); isId && seenName[id.Name] {
				uses[id] = true
			}
		}
		return true
	})
	// every identifier with an alias name that is not the Sel of a selector must be a recorded use
	// (`v.x`, `*v`) or the defining occurrence
	defIdents := map[*ast.Ident]bool{}
	for _, l := range c.stmt.Lhs {
		defIdents[l.(*ast.Ident)] = true
	}
	sels := map[*ast.Ident]bool{}
	ast.Inspect(fd.Body, func(n ast.Node) bool {
		if se, isSel := n.(*ast.SelectorExpr); isSel {
			sels[se.Sel] = true
		}
		return true
	})
	ok := true
	ast.Inspect(fd.Body, func(n ast.Node) bool {
		if id, isId := n.(*ast.Ident); isId && seenName[id.Name] && !sels[id] && !defIdents[id] && !uses[id] {
			ok = false
		}
		return true
	})
	if !ok {
		return false
	}
	// uses must come after the define statement
	for id := range uses {
		if id.Pos() < c.stmt.End() {
			return false
		}
	}
	// (1), (3), (4) the paths
	for _, p := range c.paths {
		root := rootOfPath(p)
		if root == nil || seenName[root.Name] {
			return false
		}
		if assigned[root.Name] || declCount[root.Name] > 1 || (declCount[root.Name] == 1 && sigNames[root.Name]) {
			return false
		}
		nIndex := 0
		good := true
		var walk func(e ast.Expr)
		walk = func(e ast.Expr) {
			switch x := e.(type) {
			case *ast.Ident:
			case *ast.SelectorExpr:
				walk(x.X)
			case *ast.ParenExpr:
				walk(x.X)
			case *ast.IndexExpr:
				nIndex++
				if !stableIndex(x.Index, params, assigned, declCount) {
					good = false
				}
				if ptrAliasIndex(x.X) != nil {
					good = false
				}
				walk(x.X)
			default:
				good = false
			}
		}
		walk(p)
		if !good || nIndex > 1 {
			return false
		}
		if nIndex == 1 {
			// the slice header cannot change: assignments rooted at R are element assignments, R is in no call
			for _, l := range rootAssigns {
				if r := rootOfPath(l); r != nil && r.Name == root.Name && ptrAliasIndex(l) == nil {
					return false
				}
				if st, star := l.(*ast.StarExpr); star {
					// `*v = …` through one of the aliases is an element / field assignment; any other pointer may point anywhere
					if id, isId := st.X.(*ast.Ident); !isId || !seenName[id.Name] {
						return false
					}
				}
			}
			inCall := false
			ast.Inspect(fd.Body, func(n ast.Node) bool {
				call, isCall := n.(*ast.CallExpr)
				if !isCall {
					return true
				}
				if id, isId := call.Fun.(*ast.Ident); isId && pureConvName[id.Name] {
					return true
				}
				ast.Inspect(call, func(m ast.Node) bool {
					if id, isId := m.(*ast.Ident); isId && id.Name == root.Name && !sels[id] {
						inCall = true
					}
					return true
				})
				return true
			})
			if inCall {
				return false
			}
		}
	}
	return true
}

// pureConvName: calls that neither retain nor modify their argument — conversions to the basic
// types and len / cap.
var pureConvName = map[string]bool{"len": true, "cap": true, "int": true, "int8": true, "int16": true, "int32": true, "int64": true,
	"uint": true, "uint8": true, "uint16": true, "uint32": true, "uint64": true, "byte": true, "uintptr": true}

func rootOfPath(e ast.Expr) *ast.Ident {
	for {
		switch x := e.(type) {
		case *ast.Ident:
			return x
		case *ast.SelectorExpr:
			e = x.X
		case *ast.IndexExpr:
			e = x.X
		case *ast.ParenExpr:
			e = x.X
		case *ast.StarExpr:
			e = x.X
		default:
			return nil
		}
	}
}

// stableIndex: literals, parentheses, + - * and never-assigned parameters.
func stableIndex(e ast.Expr, params, assigned map[string]bool, declCount map[string]int) bool {
	switch x := e.(type) {
	case *ast.BasicLit:
		return x.Kind == token.INT
	case *ast.Ident:
		return params[x.Name] && !assigned[x.Name] && declCount[x.Name] == 0
	case *ast.ParenExpr:
		return stableIndex(x.X, params, assigned, declCount)
	case *ast.BinaryExpr:
		switch x.Op {
		case token.ADD, token.SUB, token.MUL:
			return stableIndex(x.X, params, assigned, declCount) && stableIndex(x.Y, params, assigned, declCount)
		}
	}
	return false
}

// substPtrAlias replaces `v.x` by `P.x` and `*v` by `P` in the whole body.
func substPtrAlias(body *ast.BlockStmt, sub map[string]ast.Expr) {
	var fix func(e ast.Expr) ast.Expr
	fix = func(e ast.Expr) ast.Expr {
		switch x := e.(type) {
		case *ast.StarExpr:
			if id, ok := x.X.(*ast.Ident); ok && sub[id.Name] != nil {
				return copyPathExpr(sub[id.Name], id.Pos())
			}
		case *ast.ParenExpr:
			if inner, ok := x.X.(*ast.StarExpr); ok {
				if id, ok := inner.X.(*ast.Ident); ok && sub[id.Name] != nil {
					return copyPathExpr(sub[id.Name], id.Pos())
				}
			}
		}
		return e
	}
	fixList := func(l []ast.Expr) {
		for i := range l {
			l[i] = fix(l[i])
		}
	}
	ast.Inspect(body, func(n ast.Node) bool {
		switch x := n.(type) {
		case *ast.SelectorExpr:
			if id, ok := x.X.(*ast.Ident); ok && sub[id.Name] != nil {
				x.X = copyPathExpr(sub[id.Name], id.Pos())
				return false
			}
			x.X = fix(x.X)
		case *ast.AssignStmt:
			fixList(x.Lhs)
			fixList(x.Rhs)
		case *ast.CallExpr:
			x.Fun = fix(x.Fun)
			fixList(x.Args)
		case *ast.BinaryExpr:
			x.X, x.Y = fix(x.X), fix(x.Y)
		case *ast.UnaryExpr:
			x.X = fix(x.X)
		case *ast.ParenExpr:
			x.X = fix(x.X)
		case *ast.IndexExpr:
			x.X, x.Index = fix(x.X), fix(x.Index)
		case *ast.SliceExpr:
			x.X = fix(x.X)
			if x.Low != nil {
				x.Low = fix(x.Low)
			}
			if x.High != nil {
				x.High = fix(x.High)
			}
			if x.Max != nil {
				x.Max = fix(x.Max)
			}
		case *ast.IncDecStmt:
			x.X = fix(x.X)
		case *ast.ReturnStmt:
			fixList(x.Results)
		case *ast.IfStmt:
			x.Cond = fix(x.Cond)
		case *ast.ForStmt:
			if x.Cond != nil {
				x.Cond = fix(x.Cond)
			}
		case *ast.RangeStmt:
			x.X = fix(x.X)
		case *ast.SwitchStmt:
			if x.Tag != nil {
				x.Tag = fix(x.Tag)
			}
		case *ast.CaseClause:
			fixList(x.List)
		case *ast.CompositeLit:
			fixList(x.Elts)
		case *ast.KeyValueExpr:
			x.Value = fix(x.Value)
		case *ast.ExprStmt:
			x.X = fix(x.X)
		case *ast.StarExpr:
			x.X = fix(x.X)
		case *ast.TypeAssertExpr:
			x.X = fix(x.X)
		}
		return true
	})
}
