// code_gslice.go — third part of the translation: slices of ANY element type as
// values with capacity (GSlice α), element assignment, `range` over such a slice,
// shifts by a signed count, shifts of untyped constants.  It is what the hash
// table code needs (hash.go: `[]hashEntry`, `h.table[i] = hashEntry{}`,
// `h.table[i].pos = …`, `for i, e := range h.table`, `1 << hashBits`,
// `make([]hashEntry, n)`, `cap(h.table)`, `h.table[:n]`).
//
// A topic of the third part (part3Topics in code_topics.go) is a topic of the second
// part (Res, Slice, fuel, …) in which additionally
//
//	[]T (T ≠ byte)        ↦ GSlice T     {arr : List T, len : Nat}, cap = arr.length
//	                         (in the second part: List T, which has no capacity and
//	                         supports only len and range; a struct first met by the
//	                         second part keeps that shape — structPhase)
//	x[i]                  ↦ Res.bind (GSlice.index zero x i)       panics unless 0 ≤ i < len
//	x[i] = v              ↦ Res.bind (GSlice.set x i v), x rebound  panics unless 0 ≤ i < len
//	x[i].f = v            ↦ index, record update, set
//	clear(P)              ↦ P rebound to GSlice.clear zero P / Slice.clear P (P a variable or field path; it never
//	                         panics, but the enclosing function is given a result in Res all the same, as
//	                         with the zeroing loop, so that its signature does not depend on the spelling)
//	for i := range P { P[i] = zero }
//	                      ↦ the same as clear(P) — NORMALISATION (clearIdiom): the zeroing loop, the
//	                         builtin and a helper that consists of the loop all give the same term.  The
//	                         right-hand side must translate to the zero value of the element type, the
//	                         index must be the range key itself, the body nothing else; any other loop
//	                         (other value, other index, other slice) is translated as a loop.
//	  (the same two for []byte: Slice.index / Slice.set)
//	x[i:j], len, cap      ↦ GSlice.slice / .len / .cap
//	make([]T, n[, c])     ↦ GSlice.make zero n c    (zero = the zero value of T, spelled out)
//	for i, e := range P   ↦ a function recursive over the NUMBER of remaining iterations
//	                         (len(P) at the loop entry), the index counts up from 0; e is read
//	                         from the CURRENT value of P at the start of the iteration — in Go
//	                         the range copy of P shares its array with P, so element writes of
//	                         the body are visible to later iterations.  P must be a variable or
//	                         field path, and the body must not assign P (or a prefix of P) as a
//	                         whole: then the range copy and P have the same slice header
//	                         throughout and "read P[i] now" is exactly what Go does.
//	a << k, k of type int ↦ Res.bind (shiftCount k)                 panics if k < 0
//	1 << k (untyped left) ↦ the constant takes the type the context gives the whole shift
//
// Slices are still values (two slices never share memory).  Because elements can now be
// written, every way of creating a second reference to the array of a GSlice is refused:
// a GSlice (or a struct containing one) may only be assigned from `make`, `nil`, a composite
// literal, or a slice expression of the very path it is assigned to (`x = x[:n]`); it may not
// be a parameter or result of a translated function (the receiver of a pointer method is
// fine: it is threaded through the call), and elements are only written through the pointer
// receiver or a local variable.  For []byte the second part's reviewed-by-hand assumption
// (notes: "aliasing") continues to apply; the third part only adds element reads/writes.
// (The FOURTH part, code_part4.go, admits slice PARAMETERS as values with out parameters, under
// the documented no-overlap assumption.  In the topics of the third part a slice parameter is
// admitted only for a function without receiver and without any other slice parameter — e.g. a
// helper `zeroEntries(table []hashEntry)` extracted from a method: the callee can reach no second
// slice, so no overlap assumption is involved; the written slice comes back as an out parameter
// and is stored in the path that was passed, see promoted3 in code_topics.go.)
package main

import (
	"go/ast"
	"go/token"
)

const leanPrelude3 = `/-! ### third prelude: slices of any element type as values with capacity, signed shift counts -/

/-- a ` + "`[]T`" + ` value (T ≠ byte): like ` + "`Slice`" + `, ` + "`arr`" + ` is the backing array from the first element of
    the slice to the end of its capacity, ` + "`len`" + ` the length.  Slices are values: two slices never
    share memory (the translator refuses every construct that would create a second reference). -/
structure GSlice (α : Type) where
  arr : List α
  len : Nat
deriving DecidableEq, Repr, Inhabited

namespace GSlice
variable {α : Type}

/-- the nil slice -/
def nil : GSlice α := { arr := [], len := 0 }

def cap (s : GSlice α) : Nat := s.arr.length

/-- the elements -/
def data (s : GSlice α) : List α := s.arr.take s.len

/-- ` + "`s[i:j]`" + `: panics unless 0 ≤ i ≤ j ≤ cap(s) -/
def slice (s : GSlice α) (i j : Int) : Res (GSlice α) :=
  if 0 ≤ i ∧ i ≤ j ∧ j ≤ Int.ofNat s.cap then
    Res.ok { arr := s.arr.drop i.toNat, len := j.toNat - i.toNat }
  else Res.panic

/-- ` + "`s[i]`" + `: panics unless 0 ≤ i < len(s); ` + "`zero`" + ` is the zero value of the element type (never
    returned when the invariant len ≤ cap holds) -/
def index (zero : α) (s : GSlice α) (i : Int) : Res α :=
  if 0 ≤ i ∧ i < Int.ofNat s.len then Res.ok (s.arr.getD i.toNat zero) else Res.panic

/-- ` + "`s[i] = v`" + `: panics unless 0 ≤ i < len(s) -/
def set (s : GSlice α) (i : Int) (v : α) : Res (GSlice α) :=
  if 0 ≤ i ∧ i < Int.ofNat s.len then Res.ok { s with arr := s.arr.set i.toNat v } else Res.panic

/-- ` + "`make([]T, n, c)`" + `: panics unless 0 ≤ n ≤ c -/
def make (zero : α) (n c : Int) : Res (GSlice α) :=
  if 0 ≤ n ∧ n ≤ c then Res.ok { arr := List.replicate c.toNat zero, len := n.toNat } else Res.panic

/-- ` + "`clear(s)`" + `: the elements (up to len) become the zero value; length and capacity stay -/
def clear (zero : α) (s : GSlice α) : GSlice α :=
  { s with arr := List.replicate (min s.len s.arr.length) zero ++ s.arr.drop s.len }

end GSlice

/-- ` + "`clear(s)`" + ` on a ` + "`[]byte`" + ` -/
def Slice.clear (s : Slice) : Slice :=
  { s with arr := List.replicate (min s.len s.arr.length) 0 ++ s.arr.drop s.len }

/-- ` + "`s[i] = v`" + ` on a ` + "`[]byte`" + `: panics unless 0 ≤ i < len(s) -/
def Slice.set (s : Slice) (i : Int) (v : UInt8) : Res Slice :=
  if 0 ≤ i ∧ i < Int.ofNat s.len then Res.ok { s with arr := s.arr.set i.toNat v } else Res.panic

/-- the count of a shift ` + "`a << k`" + ` / ` + "`a >> k`" + ` with k of a signed type: the shift panics if k < 0 -/
def shiftCount (k : Int) : Res Nat := if 0 ≤ k then Res.ok k.toNat else Res.panic
`

// containsGSlice: the type is, or contains, a slice value of the third part.
func (c *codegen) containsGSlice(t gtype, at ast.Node) bool {
	switch t.kind {
	case kGSlice:
		return true
	case kSlice:
		return c.containsGSlice(*t.elem, at)
	case kStruct:
		for _, f := range c.structFields(t.name, at) {
			if c.containsGSlice(f.typ, at) {
				return true
			}
		}
	}
	return false
}

// indexStep finds the index step of an assignment target  X[i].f1.f2…  and the selectors
// that follow it.
func indexStep(lhs ast.Expr) (*ast.IndexExpr, []string) {
	var inner []string
	e := lhs
	for {
		switch x := e.(type) {
		case *ast.ParenExpr:
			e = x.X
		case *ast.SelectorExpr:
			inner = append([]string{x.Sel.Name}, inner...)
			e = x.X
		case *ast.IndexExpr:
			return x, inner
		default:
			return nil, nil
		}
	}
}

// checkNoSliceAlias: the value assigned is (or contains) a GSlice — it must be fresh.
func (c *codegen) checkNoSliceAlias(t gtype, lhs, rhs ast.Expr, at ast.Node) {
	if !c.containsGSlice(t, at) {
		return
	}
	for {
		p, ok := rhs.(*ast.ParenExpr)
		if !ok {
			break
		}
		rhs = p.X
	}
	if c.phase5 && t.kind == kGSlice && lhs != nil && c.aliasableSlice(lhs, rhs) {
		return // code_osap.go: a local alias of a slice value; recorded by noteSliceAlias, writes through either are refused (checkAliasWrite)
	}
	switch x := rhs.(type) {
	case *ast.CallExpr:
		if c.phase5 && t.kind == kGSlice && lhs != nil && c.consumedCallResult(lhs, x) {
			return // code_osap.go: the value a callee appended to and handed back
		}
		if (isBuiltin(x, "make") && c.lookup("make") == nil) || (isBuiltin(x, "append") && c.lookup("append") == nil) {
			return // append: only x = append(x, …) is accepted
		}
	case *ast.Ident:
		if x.Name == "nil" && c.lookup("nil") == nil {
			return
		}
	case *ast.CompositeLit:
		return // its fields are checked one by one (compositeLit)
	case *ast.SliceExpr:
		if lhs != nil && c.src(x.X) == c.src(lhs) && rootIdent(lhs) != nil && indexOf(lhs) == nil {
			return // x = x[i:j]: the old value of x is dead
		}
	}
	c.fail(at, "copy of the slice value %s of type %s (slices are values in the translation: a second reference to the same array, through which elements could be written, cannot be expressed)", c.src(rhs), t)
}

// indexOf: the first index expression inside of a path expression.
func indexOf(e ast.Expr) *ast.IndexExpr {
	for {
		switch x := e.(type) {
		case *ast.ParenExpr:
			e = x.X
		case *ast.SelectorExpr:
			e = x.X
		case *ast.StarExpr:
			e = x.X
		case *ast.IndexExpr:
			return x
		default:
			return nil
		}
	}
}

// zeroTyped: the zero value of t with its type spelled out (an argument of a polymorphic function).
func (c *codegen) zeroTyped(t gtype, at ast.Node) string {
	return "(" + c.zeroOf(t, at) + " : " + t.lean() + ")"
}

// checkRecvMutation: a statement that modifies the value of the pointer receiver in a method the
// mutation analysis (computeMutates) did not mark — the modification would be dropped silently.
func (c *codegen) checkRecvMutation(root *ast.Ident, at ast.Node) {
	if root == nil || c.cur.recvVar == "" || root.Name != c.cur.recvVar || c.cur.sig.recvMut {
		return
	}
	if v := c.lookup(root.Name); v == nil || v.depth != 0 {
		return
	}
	if _, ptr := c.cur.fd.Recv.List[0].Type.(*ast.StarExpr); ptr {
		c.fail(at, "internal error: the method modifies its receiver, but the mutation analysis did not notice")
	}
}

// checkElemWrite: elements are written only through the pointer receiver or a local variable.
func (c *codegen) checkElemWrite(root *ast.Ident, at ast.Node) {
	v := c.lookup(root.Name)
	if v == nil {
		c.fail(at, "assignment to %s, which is not a local variable, parameter or receiver", root.Name)
	}
	if v.depth != 0 {
		return
	}
	if root.Name == c.cur.recvVar {
		if _, ptr := c.cur.fd.Recv.List[0].Type.(*ast.StarExpr); !ptr {
			c.fail(at, "element assignment through the value receiver %s (the caller's array is written)", root.Name)
		}
		c.checkRecvMutation(root, at)
		return
	}
	if c.phase4 {
		// fourth part: the parameter becomes an out parameter (the written slice is part of the result)
		for _, p := range c.cur.sig.params {
			if p.name == root.Name && (p.typ.kind == kGSlice || p.typ.kind == kBytes) {
				c.noteOutParam(root.Name, true, at)
				return
			}
		}
	}
	c.fail(at, "element assignment through the parameter %s (the caller's array is written)", root.Name)
}

// assignElem translates  X[i] = v  and  X[i].f… = v  (third part).
func (c *codegen) assignElem(lhs ast.Expr, ix *ast.IndexExpr, inner []string, rhs ast.Expr, at ast.Node) []string {
	if !c.phase3 {
		c.fail(at, "assignment to the element %s (only in the third part of the whitelist)", c.src(lhs))
	}
	root := rootIdent(ix.X)
	if root == nil || indexOf(ix.X) != nil {
		c.fail(at, "assignment target %s (only one index step on a variable or field path)", c.src(lhs))
	}
	v, p := c.path(ix.X)
	st := c.pathType(v, p, at)
	var elemT gtype
	ns, zero := "", ""
	switch st.kind {
	case kGSlice:
		elemT, ns = *st.elem, "GSlice"
		zero = " " + c.zeroTyped(elemT, at)
	case kBytes:
		elemT, ns = gtype{kind: kU8}, "Slice"
	default:
		c.fail(at, "element assignment on %s", st)
	}
	c.checkElemWrite(root, at)
	c.checkAliasWrite(v, p, at, "element assignment to")
	t := elemT
	var q []string
	for _, f := range inner {
		fp, ft := c.fieldPath(t, f, at)
		q = append(q, fp...)
		t = ft
	}
	var val string
	var vt gtype
	if call, ok := rhs.(*ast.CallExpr); ok && isBuiltin(call, "append") && c.lookup("append") == nil {
		// code_cblift.go: `X[i] = append(X[i], e)` on a slice of slices whose elements are pairwise disjoint windows
		// (windowedElems): the append cannot touch a cell that any other live slice value can reach
		if !(c.phase5 && len(inner) == 0 && elemT.kind == kGSlice && len(call.Args) == 2 && c.src(call.Args[0]) == c.src(lhs) && c.windowedElems(ix.X, at)) {
			c.fail(at, "append assigned to an element")
		}
		a, at2 := c.expr(call.Args[0], gtype{}, false)
		val, vt = c.appendGSlice(call, a, at2)
		if !vt.eq(t) {
			c.fail(at, "assignment of %s to %s of type %s", vt, c.src(lhs), t)
		}
	} else if w3, ok := c.window3(ix, rhs, t, at); ok { // code_cblift.go: `X[i] = Y[k:k:k+C]`, a zero-length window
		val = w3
	} else {
		val, vt = c.expr(rhs, t, true)
		if !vt.eq(t) {
			c.fail(at, "assignment of %s to %s of type %s", vt, c.src(lhs), t)
		}
		c.checkNoSliceAlias(t, nil, rhs, at)
	}
	sl, _ := c.expr(ix.X, gtype{}, false)
	idx := c.intIndex(ix.Index)
	elem := val
	if len(q) > 0 {
		old := c.bindRes("t", ns+".index"+zero+" "+paren(sl)+" "+idx, at)
		elem = update(old, q, val)
	}
	nw := c.bindRes("t", ns+".set "+paren(sl)+" "+idx+" "+paren(elem), at)
	return []string{"let " + v.lean + " : " + v.typ.lean() + " := " + update(v.lean, p, nw)}
}

// clearStmt translates the builtin clear(P) on a slice value (third part).
func (c *codegen) clearStmt(call *ast.CallExpr, at ast.Node) []string {
	if !c.phase3 || len(call.Args) != 1 {
		c.fail(at, "call statement %s", c.src(call))
	}
	arg := call.Args[0]
	root := rootIdent(arg)
	if root == nil || indexOf(arg) != nil {
		c.fail(at, "clear(%s) (only of a variable or field path)", c.src(arg))
	}
	// like the zeroing loop it stands for, clear makes its function one "that may panic" (result in
	// Res): the signature of the function must not depend on how the zeroing is spelled
	c.needMonadic(at)
	v, p := c.path(arg)
	st := c.pathType(v, p, at)
	c.checkElemWrite(root, at)
	c.checkAliasWrite(v, p, at, "clear of")
	sl, _ := c.expr(arg, gtype{}, false)
	var nw string
	switch st.kind {
	case kGSlice:
		nw = "GSlice.clear " + c.zeroTyped(*st.elem, at) + " " + paren(sl)
	case kBytes:
		nw = "Slice.clear " + paren(sl)
	default:
		c.fail(at, "clear of %s", st)
	}
	return []string{"let " + v.lean + " : " + v.typ.lean() + " := " + update(v.lean, p, nw)}
}

// clearIdiom: `for i := range P { P[i] = zero }` with P a variable or field path of slice type —
// returns the equivalent call clear(P), or nil (see the header).
func (c *codegen) clearIdiom(x *ast.RangeStmt) *ast.CallExpr {
	if !c.phase3 || x.Tok != token.DEFINE || c.lookup("clear") != nil || c.fns[fnKey{"", "clear"}] != nil {
		return nil
	}
	key, ok := x.Key.(*ast.Ident)
	if !ok || key.Name == "_" {
		return nil
	}
	if x.Value != nil {
		if id, ok := x.Value.(*ast.Ident); !ok || id.Name != "_" {
			return nil
		}
	}
	if rootIdent(x.X) == nil || pathOf(x.X) == nil || c.lookup(rootIdent(x.X).Name) == nil || len(x.Body.List) != 1 {
		return nil
	}
	as, ok := x.Body.List[0].(*ast.AssignStmt)
	if !ok || as.Tok != token.ASSIGN || len(as.Lhs) != 1 || len(as.Rhs) != 1 {
		return nil
	}
	ix, ok := as.Lhs[0].(*ast.IndexExpr)
	if !ok || c.src(ix.X) != c.src(x.X) || pathOf(ix.X) == nil {
		return nil
	}
	if id, ok := ix.Index.(*ast.Ident); !ok || id.Name != key.Name || key.Name == rootIdent(x.X).Name {
		return nil
	}
	v, p := c.path(x.X)
	st := c.pathType(v, p, x)
	var elemT gtype
	switch st.kind {
	case kGSlice:
		elemT = *st.elem
	case kBytes:
		elemT = gtype{kind: kU8}
	default:
		return nil
	}
	// the value: a constant or a composite literal that is the zero value (nothing that reads a variable)
	switch as.Rhs[0].(type) {
	case *ast.BasicLit, *ast.CompositeLit:
	case *ast.Ident:
		if _, _, isConst := c.cfold(as.Rhs[0]); !isConst {
			return nil
		}
	default:
		return nil
	}
	n := len(c.cur.pre)
	val, vt := c.expr(as.Rhs[0], elemT, true)
	if len(c.cur.pre) != n || !vt.eq(elemT) {
		c.cur.pre = c.cur.pre[:n]
		return nil
	}
	if val != c.zeroOf(elemT, x) && val != c.zeroTyped(elemT, x) {
		return nil
	}
	return &ast.CallExpr{Fun: &ast.Ident{NamePos: x.Pos(), Name: "clear"}, Lparen: x.Pos(), Args: []ast.Expr{x.X}, Rparen: x.End()}
}

// checkRangeTarget: inside `for … range P` the slice header of P must not change — no
// assignment to P or to a prefix of P as a whole.
func (c *codegen) checkRangeTarget(v *varInfo, p []string, at ast.Node) {
	for _, l := range c.cur.loops {
		if l.rangeVar == "" || l.rangeVar != v.lean || len(p) > len(l.rangePath) {
			continue
		}
		prefix := true
		for i := range p {
			if p[i] != l.rangePath[i] {
				prefix = false
			}
		}
		if prefix {
			c.fail(at, "assignment to (a prefix of) the slice the enclosing range loop iterates over")
		}
	}
}

// checkSig3: slices of the third part may not cross a function boundary by value.
func (c *codegen) checkSig3(fd *ast.FuncDecl, sig *fnSig) {
	for _, p := range sig.params {
		if c.phase4 && p.typ.kind == kGSlice {
			if c.strictSliceParams {
				// a topic of the third part proper (promoted3): no second way to reach a slice
				n := 0
				for _, q := range sig.params {
					if c.containsGSlice(q.typ, fd) || q.typ.kind == kBytes {
						n++
					}
				}
				if (fd.Recv != nil || n != 1) && !(c.phase5 && c.consumedParam(fd, p.name)) && !(c.phase5 && liftedSliceParams[fd][p.name]) { // code_osap.go: a consumed parameter; code_cblift.go: a window handed to a lifted closure
					c.fail(fd, "parameter %s of type %s next to a receiver or another slice parameter (a slice value of the third part may only be passed to a function that can reach no other slice: aliasing)", p.name, p.typ)
				}
			}
			continue // fourth part: a slice parameter is a value; written ones are out parameters (code_part4.go)
		}
		if c.containsGSlice(p.typ, fd) {
			c.fail(fd, "parameter %s of type %s (a slice value of the third part may not be passed: aliasing)", p.name, p.typ)
		}
	}
	for i, r := range sig.results {
		if r.typ.kind == kGSlice && c.phase5 && c.consumedResult(fd, i) {
			continue // code_osap.go: the function hands back the slice value it was handed (and appended to)
		}
		if c.containsGSlice(r.typ, fd) {
			c.fail(fd, "result of type %s (a slice value of the third part may not be returned: aliasing)", r.typ)
		}
	}
	// a struct passed through a pointer parameter is modelled by value: an assignment through
	// the pointer would be lost
	if fd.Type.Params != nil {
		for _, f := range fd.Type.Params.List {
			if _, ptr := f.Type.(*ast.StarExpr); !ptr || c.phase5 {
				continue // fifth part: a pointer parameter that is written is an out parameter (code_iface.go)
			}
			names := map[string]bool{}
			for _, n := range f.Names {
				names[n.Name] = true
			}
			for _, n := range c.assignedOuter2(fd, fd.Body.List) {
				if names[n] {
					c.fail(fd, "assignment through the pointer parameter %s (pointer parameters are modelled by value)", n)
				}
			}
		}
	}
	_ = token.NoPos
}
