// code_part4.go — fourth part of the translation: what package `suffix` (lcp.go, segments.go)
// and bitset.go need on top of the third part (code_gslice.go).  A topic of the fourth part
// (topics4 below; part4Topics) is a topic of the third part in which additionally
//
//	sub-packages           a topic may name a sub-directory of the repository (`pkg: "suffix"`); it is
//	                       parsed like the root package and translated by its own generator state; the
//	                       Lean names of its functions carry the prefix `suffix_` (namespace LZ.Gen)
//	int32                  ↦ Int32 (Lean's two's-complement type: + - * wrap exactly like Go's);
//	                       int32(x) ↦ Int32.ofInt x, int(x) ↦ x.toInt, an index of type int32 ↦ x.toInt;
//	                       shifts of int32 values are refused
//	[]T parameters         a slice parameter is a VALUE (GSlice T / Slice).  A parameter whose elements the
//	                       function writes (x[i] = v, or by passing it to a callee that writes it) is an OUT
//	                       parameter: the written slice is a component of the Lean result, exactly as for
//	                       the []byte parameters of the second part.  TRUSTED READING (not checkable in a
//	                       value model): the slices passed for different parameters do not overlap in
//	                       memory when one of them is written.  An out parameter may not be re-assigned;
//	                       the same variable may not be passed twice to a call that writes one of them.
//	panic(v)               ↦ Res.panic (v is not translated), ends the path like a return
//	opaque callees         a package-level function listed under `opaque` in the topic table is NOT
//	                       translated: every function that (transitively) calls it takes a parameter of
//	                       that name whose type is read from the Go signature (`matchLen : Slice → Slice →
//	                       Int`).  TRUSTED READING: the callee is a total function of the VALUES of its
//	                       arguments, has no effects and does not panic.  The theorems carry its
//	                       specification as a hypothesis.
//	callback parameters    a parameter of function type WITHOUT results (`f func(m int, s []int32)`) is not a
//	                       Lean parameter: its calls are LOGGED.  The function has a hidden variable
//	                       `f : List (T1 × T2 × …)`, initially `[]`; `f(a, b)` ↦ `f := f ++ [(a, b)]`; passing
//	                       `f` on to a translated callee appends the callee's log; the log is a component of
//	                       the Lean result (after the out parameters).  TRUSTED READING: the callback does
//	                       not panic and has no effect on anything the function reads afterwards (in
//	                       segments.go the callback receives `sa[lo:hi]`, which aliases `sa`, and the caller
//	                       may permute it: `scanLCP` never reads an element of `sa`).
//	local struct types     `type item struct{…}` inside a function body: a structure `<Function>_item`
//	T{a, b}                positional composite literal of a struct (all fields, in order)
//	x = append(x, e)       on a slice of any element type (GSlice.append, growth function `grow`)
//	for init; cond; post   ↦ `{ init; for cond { body; post } }`, `continue` runs post first
//	labeled loops          `L: for …`; `continue L` / `break L` from an inner loop leave the inner loop
//	                       function with an exit code (the mechanism of `goto` of the second part) and
//	                       continue / leave the loop L
//	return inside a loop   the loop function leaves with an exit code; the returned values travel in
//	                       hidden state variables `ret_i`
//	bits.LeadingZeros64, bits.TrailingZeros64 (fourth prelude: bit scans), ^x on unsigned values
//	                       (bitset.go)
//	state order            (the topics of this file: declOrderTopics) the state tuple of a loop function and
//	                       the join tuple of an `if` list the variables in the order of their DECLARATION
//	                       (receiver, parameters, results, locals as they appear), not of their first
//	                       assignment: reordering independent assignments, or swapping the arms of an `if`,
//	                       does not change the signature of the loop functions.  The earlier topics keep the
//	                       order of first assignment — their proofs were written against it; a new topic
//	                       should be added to declOrderTopics.
//
// Nothing here is keyed on a function name; the only per-topic data is the table below.
package main

import (
	"go/ast"
	"go/token"
	"strings"
)

// topics4: the topics of the fourth part.
var topics4 = []topic{
	{name: "SuffixLcp", doc: "suffix/lcp.go: InvertSA, _lcp (matchLen is an opaque parameter)", pkg: "suffix",
		fns: []fnKey{{"", "InvertSA"}, {"", "_lcp"}}, opaque: []fnKey{{"", "matchLen"}}, part2: true},
	{name: "SuffixSegments", doc: "suffix/segments.go: scanLCP, Segments (the callback f is logged)", pkg: "suffix",
		fns: []fnKey{{"", "scanLCP"}, {"", "Segments"}}, part2: true},
	{name: "Bitset", doc: "bitset.go: clear, memberBefore, memberAfter", fns: methods("bitset", "clear", "memberBefore", "memberAfter"), part2: true},
}

// declOrderTopics: the topics whose loop-state and join tuples are in declaration order (see the
// header: "state order").
var declOrderTopics = map[string]bool{}

func init() {
	for _, t := range topics4 {
		declOrderTopics[t.name] = true
	}
}

func isPanicStmt(x *ast.ExprStmt) bool {
	call, ok := x.X.(*ast.CallExpr)
	if !ok {
		return false
	}
	id, ok := call.Fun.(*ast.Ident)
	return ok && id.Name == "panic"
}

// ---------------------------------------------------------------- opaque callees

func (c *codegen) needOpaque(k fnKey, at ast.Node) {
	for _, o := range c.cur.sig.opaques {
		if o == k {
			return
		}
	}
	if !c.cur.probe {
		c.fail(at, "internal error: call of the opaque function %s in a function not marked as such", k.name)
	}
	c.cur.sig.opaques = append(c.cur.sig.opaques, k)
}

// opaqueType: the Lean type of the parameter that stands for the opaque callee.
func (c *codegen) opaqueType(k fnKey, at ast.Node) ([]gtype, gtype) {
	fd := c.fns[k]
	if fd == nil || fd.Recv != nil {
		c.fail(at, "opaque callee %s not found in the package", k.name)
	}
	var ps []gtype
	for _, p := range fd.Type.Params.List {
		if _, ok := p.Type.(*ast.Ellipsis); ok {
			c.fail(at, "opaque callee %s is variadic", k.name)
		}
		t := c.typeOf(p.Type, at)
		if t.kind == kStruct || t.kind == kFunc {
			c.fail(at, "opaque callee %s has a parameter of type %s", k.name, t)
		}
		n := len(p.Names)
		if n == 0 {
			n = 1
		}
		for i := 0; i < n; i++ {
			ps = append(ps, t)
		}
	}
	if fd.Type.Results == nil || len(fd.Type.Results.List) != 1 || len(fd.Type.Results.List[0].Names) > 1 {
		c.fail(at, "opaque callee %s must have exactly one result", k.name)
	}
	rt := c.typeOf(fd.Type.Results.List[0].Type, at)
	if !rt.numeric() && rt.kind != kBool {
		c.fail(at, "opaque callee %s has a result of type %s (only numbers and bool)", k.name, rt)
	}
	return ps, rt
}

func (c *codegen) opaqueDecls(sig *fnSig, at ast.Node) string {
	s := ""
	for _, o := range sig.opaques {
		ps, rt := c.opaqueType(o, at)
		var ts []string
		for _, p := range ps {
			ts = append(ts, p.lean())
		}
		ts = append(ts, rt.lean())
		s += " (" + o.name + " : " + strings.Join(ts, " → ") + ")"
	}
	return s
}

func (c *codegen) opaqueCall(k fnKey, x *ast.CallExpr) (string, gtype) {
	if leanReserved[k.name] {
		c.fail(x, "opaque callee %s: the name is reserved in Lean", k.name)
	}
	ps, rt := c.opaqueType(k, x)
	if len(ps) != len(x.Args) {
		c.fail(x, "call of %s with %d arguments", k.name, len(x.Args))
	}
	c.needOpaque(k, x)
	parts := []string{k.name}
	for i, a := range x.Args {
		s, t := c.expr(a, ps[i], false)
		if !t.eq(ps[i]) {
			c.fail(a, "argument %d of %s has type %s, want %s", i+1, k.name, t, ps[i])
		}
		parts = append(parts, paren(s))
	}
	return strings.Join(parts, " "), rt
}

// ---------------------------------------------------------------- callback parameters (log)

// callbackStmt (below) translates the call `f(a, b)` of a callback parameter.

// callbackType: the type of a parameter `f func(a T1, b T2)` — the log of its calls.
func (c *codegen) callbackType(x *ast.FuncType, at ast.Node) gtype {
	if x.Results != nil && len(x.Results.List) > 0 {
		c.fail(at, "function type with results (only callbacks without results are supported: their calls are logged)")
	}
	var ts []gtype
	var ss []string
	for _, p := range x.Params.List {
		if _, ok := p.Type.(*ast.Ellipsis); ok {
			c.fail(at, "variadic callback")
		}
		t := c.typeOf(p.Type, at)
		if t.kind == kFunc || t.kind == kStruct {
			c.fail(at, "callback parameter of type %s", t)
		}
		n := len(p.Names)
		if n == 0 {
			n = 1
		}
		for i := 0; i < n; i++ {
			ts = append(ts, t)
			s := t.lean()
			ss = append(ss, s)
		}
	}
	if len(ts) == 0 {
		c.fail(at, "callback without parameters")
	}
	name := "(" + strings.Join(ss, " × ") + ")"
	if c.cbTypes == nil {
		c.cbTypes = map[string][]gtype{}
	}
	c.cbTypes[name] = ts
	return gtype{kind: kFunc, name: name}
}

func (c *codegen) callbackStmt(x *ast.ExprStmt) ([]string, bool) {
	call, ok := x.X.(*ast.CallExpr)
	if !ok {
		return nil, false
	}
	id, ok := call.Fun.(*ast.Ident)
	if !ok {
		return nil, false
	}
	v := c.lookup(id.Name)
	if v == nil || v.typ.kind != kFunc {
		return nil, false
	}
	if v.depth != 0 {
		c.fail(x, "call of the function value %s (only callback parameters)", id.Name)
	}
	ts := c.cbTypes[v.typ.name]
	if len(ts) != len(call.Args) || call.Ellipsis.IsValid() {
		c.fail(x, "call of the callback %s with %d arguments", id.Name, len(call.Args))
	}
	var vals []string
	for i, a := range call.Args {
		s, t := c.expr(a, ts[i], false)
		if !t.eq(ts[i]) {
			c.fail(a, "argument %d of the callback %s has type %s, want %s", i+1, id.Name, t, ts[i])
		}
		vals = append(vals, s)
	}
	lines := c.flush(x)
	lines = append(lines, "let "+v.lean+" : "+v.typ.lean()+" := "+v.lean+" ++ ["+tupleVal(vals)+"]")
	return lines, true
}

// markCallEffects4 (for assignedOuter2): a call of a callback parameter modifies its log; a call
// of a translated function modifies the variables passed for its out parameters.
func (c *codegen) markCallEffects4(f *ast.Ident, call *ast.CallExpr, local func(string) bool, mark func(ast.Expr)) {
	if local(f.Name) {
		return
	}
	if v := c.lookup(f.Name); v != nil {
		if v.typ.kind == kFunc {
			mark(f)
		}
		return
	}
	k := fnKey{"", f.Name}
	if !c.whiteSet[k] || c.busy[k] || c.opaqueOf[k] {
		return
	}
	c.ensure(k, call)
	sig := c.sigs[k]
	if sig == nil || len(sig.params) != len(call.Args) {
		return
	}
	for i, p := range sig.params {
		if p.out && rootIdent(call.Args[i]) != nil {
			mark(call.Args[i])
		}
	}
}

// ---------------------------------------------------------------- local struct types, positional literals

func (c *codegen) localTypeDecl(gd *ast.GenDecl) {
	for _, sp := range gd.Specs {
		ts := sp.(*ast.TypeSpec)
		st, ok := ts.Type.(*ast.StructType)
		if !ok || ts.TypeParams != nil || ts.Assign.IsValid() {
			c.fail(gd, "local type declaration %s (only struct types)", ts.Name.Name)
		}
		lean := leanFn(c.cur.key) + "_" + ts.Name.Name
		if _, dup := c.cur.localTypes[ts.Name.Name]; dup || len(c.cur.loops) > 0 {
			c.fail(gd, "local type %s declared twice or inside a loop", ts.Name.Name)
		}
		if _, clash := c.reservedStructs[lean]; clash {
			c.fail(gd, "local type %s: the name %s is a struct of the root package", ts.Name.Name, lean)
		}
		var fs []field
		for _, fl := range st.Fields.List {
			if len(fl.Names) == 0 {
				c.fail(gd, "embedded field in the local type %s", ts.Name.Name)
			}
			for _, n := range fl.Names {
				fs = append(fs, field{n.Name, exprStr(fl.Type), ""})
			}
		}
		c.structs[lean] = fs
		c.cur.localTypes[ts.Name.Name] = lean
	}
}

// keyedElts: a positional struct literal T{a, b} as the keyed literal T{f1: a, f2: b}.
func (c *codegen) keyedElts(x *ast.CompositeLit, t gtype) []ast.Expr {
	if len(x.Elts) == 0 {
		return x.Elts
	}
	if _, keyed := x.Elts[0].(*ast.KeyValueExpr); keyed {
		return x.Elts
	}
	fs := c.structFields(t.name, x)
	if len(fs) != len(x.Elts) {
		c.fail(x, "positional composite literal with %d values for %d fields", len(x.Elts), len(fs))
	}
	var out []ast.Expr
	for i, e := range x.Elts {
		if _, keyed := e.(*ast.KeyValueExpr); keyed {
			c.fail(x, "mixture of keyed and positional fields")
		}
		out = append(out, &ast.KeyValueExpr{Key: ast.NewIdent(fs[i].name), Colon: e.Pos(), Value: e})
	}
	return out
}

// appendGSlice: x = append(x, e) on a slice of any element type.
func (c *codegen) appendGSlice(x *ast.CallExpr, a string, at gtype) (string, gtype) {
	if x.Ellipsis.IsValid() {
		c.fail(x, "append of a slice to a slice of type %s", at)
	}
	c.needGrow(x)
	b, bt := c.expr(x.Args[1], *at.elem, true)
	if !bt.eq(*at.elem) {
		c.fail(x, "append of an element of type %s to %s", bt, at)
	}
	c.checkNoSliceAlias(*at.elem, nil, x.Args[1], x)
	return "GSlice.append " + c.zeroTyped(*at.elem, x) + " grow " + paren(a) + " [" + b + "]", at
}

// ---------------------------------------------------------------- labeled break / continue, return inside a loop

const pseudoMark = "\x01"

func pseudoLabel(tok token.Token, label string) string {
	return pseudoMark + tok.String() + " " + label
}
func isPseudoLabel(l string) bool { return strings.HasPrefix(l, pseudoMark) }

const returnLabel = pseudoMark + "return"

func escapeDoc(l string) string {
	if isPseudoLabel(l) {
		return strings.TrimPrefix(l, pseudoMark)
	}
	return "goto " + l
}

// labelOnlyForLoops: no goto refers to the label.
func (c *codegen) labelOnlyForLoops(label string) bool {
	ok := true
	ast.Inspect(c.cur.fd.Body, func(n ast.Node) bool {
		if br, isBr := n.(*ast.BranchStmt); isBr && br.Tok == token.GOTO && br.Label != nil && br.Label.Name == label {
			ok = false
		}
		return ok
	})
	return ok
}

// pseudoGotoK: the continuation of `continue L`, `break L` or of a `return` inside a loop.  If the
// innermost loop is not the target, it is left with an exit code; the statement that called the
// loop function dispatches on the code and calls pseudoGotoK again, one loop further out.
func (c *codegen) pseudoGotoK(label string, at ast.Node) []string {
	n := len(c.cur.loops)
	if label == returnLabel {
		if n == 0 {
			var vals []string
			for _, rv := range c.cur.retVars {
				vals = append(vals, c.lookup(rv).lean)
			}
			return c.retValue(vals)
		}
	} else {
		parts := strings.SplitN(strings.TrimPrefix(label, pseudoMark), " ", 2)
		found := -1
		for i := n - 1; i >= 0; i-- {
			if c.cur.loops[i].label == parts[1] {
				found = i
				break
			}
		}
		if found < 0 {
			c.fail(at, "%s: the label is not that of an enclosing loop", strings.TrimPrefix(label, pseudoMark))
		}
		if found == n-1 {
			if parts[0] == "break" {
				return c.cur.loops[n-1].breakK()
			}
			return c.cur.loops[n-1].contK()
		}
	}
	top := c.cur.loops[n-1]
	for i, e := range top.escapes {
		if e == label {
			return top.exitK(i + 1)
		}
	}
	top.escapes = append(top.escapes, label)
	return top.exitK(len(top.escapes))
}

// declareRetVars declares (once per function) the hidden variables that carry the values of a
// `return` out of a loop; it returns their declarations.
func (c *codegen) declareRetVars(at ast.Node) []string {
	if c.cur.retVars != nil || len(c.cur.sig.results) == 0 {
		if c.cur.retVars == nil {
			c.cur.retVars = []string{}
		}
		return nil
	}
	if len(c.cur.loops) > 0 {
		c.fail(at, "internal error: return variables declared inside a loop")
	}
	var lines []string
	c.cur.retVars = []string{}
	for i, r := range c.cur.sig.results {
		name := "ret_" + string(rune('1'+i))
		if c.lookup(name) != nil {
			c.fail(at, "variable name %s collides with the hidden result variables", name)
		}
		v := c.declare(name, r.typ)
		lines = append(lines, "let "+v.lean+" : "+r.typ.lean()+" := "+c.zeroOf(r.typ, at))
		c.cur.retVars = append(c.cur.retVars, name)
	}
	return lines
}

// retInLoop: `return e1, e2` inside a loop — the values go to the hidden variables, the loop is
// left with the exit code of the pseudo label "return".
func (c *codegen) retInLoop(x *ast.ReturnStmt) []string {
	f := c.cur
	var vals []string
	if len(x.Results) == 0 {
		if len(f.sig.results) > 0 {
			vals = c.namedResults(x)
		}
	} else {
		if len(x.Results) != len(f.sig.results) {
			c.fail(x, "return of %d values from a function with %d results", len(x.Results), len(f.sig.results))
		}
		for i, r := range x.Results {
			want := f.sig.results[i].typ
			s, t := c.expr(r, want, false)
			if !t.eq(want) {
				c.fail(x, "return of %s where %s is expected", t, want)
			}
			if i > 0 && len(c.cur.mutHoist) > 0 {
				c.fail(x, "return of several values with a call that has effects")
			}
			vals = append(vals, s)
		}
	}
	lines := c.flush(x)
	if len(vals) != len(f.retVars) {
		c.fail(x, "internal error: hidden result variables")
	}
	for i, rv := range f.retVars {
		v := c.lookup(rv)
		lines = append(lines, "let "+v.lean+" : "+v.typ.lean()+" := "+vals[i])
	}
	return append(lines, c.pseudoGotoK(returnLabel, x)...)
}

// ---------------------------------------------------------------- fourth prelude

const leanPrelude4 = `/-! ### fourth prelude: append on slices of any element type, bit scans -/

/-- ` + "`append(s, xs...)`" + ` on a ` + "`[]T`" + ` value: in place if the capacity suffices (the elements behind the
    new length are kept), else into a new array whose capacity ` + "`grow oldCap neededLen`" + ` is chosen by
    the run time and whose tail is zeroed -/
def GSlice.append {α : Type} (zero : α) (grow : Nat → Nat → Nat) (s : GSlice α) (xs : List α) : GSlice α :=
  let n := s.len + xs.length
  if n ≤ s.cap then { arr := s.arr.take s.len ++ xs ++ s.arr.drop n, len := n }
  else { arr := s.arr.take s.len ++ xs ++ List.replicate (grow s.cap n - n) zero, len := n }

/-- the index of the highest set bit below position p, -1 if there is none -/
def highBitBelow (x : UInt64) : Nat → Int
  | 0 => -1
  | p + 1 => if x.toNat.testBit p then Int.ofNat p else highBitBelow x p

/-- ` + "`bits.LeadingZeros64`" + ` (64 for 0): 63 minus the index of the highest set bit -/
def leadingZeros64 (x : UInt64) : Int := 63 - highBitBelow x 64

/-- the index of the lowest set bit among the bits i, i+1, … (at most fuel of them), 64 if there is none -/
def lowBitFrom (x : UInt64) : Nat → Nat → Nat
  | 0, _ => 64
  | fuel + 1, i => if x.toNat.testBit i then i else lowBitFrom x fuel (i + 1)

/-- ` + "`bits.TrailingZeros64`" + ` (64 for 0) -/
def trailingZeros64 (x : UInt64) : Int := Int.ofNat (lowBitFrom x 64 0)
`
