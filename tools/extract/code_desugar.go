// code_desugar.go — a syntactic NORMALISATION pass over the parsed Go files, run once by load()
// before anything else reads the syntax trees (facts, interpreter, translator).  Its purpose is
// robustness: behaviour-preserving rewrites of the Go source that only change the surface form
// of a construct should lead to the same (or at least to an accepted) translation.  Every rule
// rewrites a construct the translator does not know into an equivalent one it knows, and only
// when simple, purely syntactic side conditions guarantee the equivalence; when a condition
// fails the tree is left alone and the translator decides (usually: it refuses the topic).
// Nothing here is keyed on a function, type or variable name of the repository.
//
//	local constants       `const c = e` / `const c T = e` inside a function body: every use of c in the
//	                      rest of the block is replaced by `(e)` / `T(e)`; the declaration itself is then skipped
//	                      by the translator (Go's own reading of a constant).  Conditions: c is declared exactly once in
//	                      the function (no shadowing in either direction), no identifier of e is
//	                      declared anywhere in the function, every spec has its own value (no iota).
//
//	element pointers      `p := &X[i]` where X is a variable or field path and i a pure arithmetic
//	                      expression: the statement becomes `_ = X[i]` (the bounds check `&X[i]` performs),
//	                      and in the rest of the block `*p` ↦ `X[i]`, `p.f` ↦ `X[i].f`.  Conditions over
//	                      the rest of the block: p occurs only in these two forms (never assigned,
//	                      passed or compared); no variable of X or i is assigned, redeclared or has its
//	                      address taken; neither X nor a prefix of X is assigned as a whole, is the
//	                      receiver of a method call, or is passed to a call (so the slice header and the
//	                      index — hence the location — are the same at every use); no closure, go, defer.
//
//	counting loops        `for i := 0; i < len(P); i++ { body }` (also `len(P) > i`, `i += 1`) where P is a
//	                      variable or field path ↦ `for i := range P { body }`.  Conditions over the body:
//	                      i is not assigned, redeclared or has its address taken; neither P nor a prefix
//	                      of P is assigned as a whole, has its address taken, is the receiver of a method
//	                      call or is passed to a call (len(P) is the same at every test, which is what
//	                      `range` assumes by evaluating it once); no closure (per-iteration variables).
//	                      The translator then treats both spellings of the loop alike (recursion over the
//	                      number of iterations left, code_gslice.go), and a rewrite of a `range` loop with
//	                      an element variable into an index loop (or back) only moves the element read.
//
//	fallthrough           in an expression switch a clause whose body ends in `fallthrough` gets the body of the
//	                      NEXT clause appended (a deep copy; Go: "fallthrough transfers control to the first
//	                      statement of the next clause", whatever that clause's own case expressions say, and it
//	                      may only be the final statement of a clause).  Done from the last clause to the first,
//	                      so chains 7→6→5 unfold completely; the switch is then an ordinary one (chain of ifs in
//	                      desugarSwitch).  Conditions: no name declared at the top level of the falling clause
//	                      (`:=`, var, const, type) occurs in the appended body (in Go the two bodies are separate
//	                      scopes — after concatenation such a name would capture a use that referred to an outer
//	                      variable), the appended body contains no label and no goto (labels cannot be duplicated).
//	                      `break` in the copy still leaves the same switch.
//
//	tuple assignment      `a, b, … = e1, e2, …` (plain `=`, as many operands right as left, every left side a
//	                      variable, a field path or `_`) in a statement list, where some e_j READS the root
//	                      variable of an EARLIER left side a_i (i < j) — only then does the order "all right
//	                      sides first, then the assignments left to right" (Go) differ from assigning one after
//	                      the other.  Let m be the last such j: the statement becomes
//	                      `t1 := e1; …; tm := em; a1 = t1; …; am = tm; a(m+1), … = e(m+1), …` with names t_k that
//	                      occur nowhere in the file (operands that are literals get no temporary — a literal has no
//	                      evaluation — so that an untyped constant keeps its context type).  The rest, and every tuple
//	                      assignment without such a dependency (`n, k = n+nn, k+kk`), is split by the translator
//	                      itself (code_stmt.go assign: one after the other; tupleDependency below is the shared test).
//	                      Not applied to `:=`, to index/pointer left sides, or outside a statement list (if/for
//	                      headers): the translator refuses those when there is a dependency.
//
//	local copy of a       `v := P` (also as one pair of `v, w := P, Q`) where P is a field path `r.a.b` on the
//	slice field           receiver or a parameter r and the DECLARED type of the field is a slice `[]T` (looked up
//	                      in the struct declarations of the package, promoted fields by Go's rule): v is a second
//	                      name for the same header and the same array as long as neither header changes, so every
//	                      use of v in the rest of the block is replaced by P and the pair is dropped.  This is what
//	                      makes `table := f.table; …; table[h] = e` (hoisting a field into a local) expressible: in
//	                      the value model a write through a local alias would be lost (and is refused,
//	                      code_parse.go), a write to `f.table[h]` is the same write in Go.  Conditions over the
//	                      rest of the block: v is declared exactly once in the function and never assigned
//	                      (also not re-sliced in place), redeclared or has its address taken; r is not assigned;
//	                      P and its prefixes are not assigned as a whole, not the receiver of a method call, not
//	                      handed to a callee and do not have their address taken; no closure, go, defer (stableIn).
//	                      An ARRAY-typed field is a value copy and is left alone (that is why the declared type
//	                      is needed); so is everything whose type cannot be found.  The same substitution is made
//	                      for a field whose declared type is a predeclared number / bool / string type
//	                      (`mask, shift := f.mask, f.shift`): under the same conditions P keeps its value, so the
//	                      local is P; hoisting a loop-invariant field into a local then gives the same translation
//	                      (otherwise the local becomes an extra parameter of the loop function).
//
// (The other normalisation, zeroing loop ↦ `clear`, needs the element type and lives in
// code_slice.go: clearIdiom.)
package main

import (
	"go/ast"
	"go/token"
	"reflect"
)

// ---------------------------------------------------------------- generic helpers

var (
	exprIface  = reflect.TypeOf((*ast.Expr)(nil)).Elem()
	objectType = reflect.TypeOf(ast.Object{})
	scopeType  = reflect.TypeOf(ast.Scope{})
)

// rewriteExprs walks n and offers every expression in an ast.Expr position to f (parents first);
// if f returns (e', true) the expression is replaced by e' and e' is not walked.
func rewriteExprs(n ast.Node, f func(ast.Expr) (ast.Expr, bool)) {
	if n == nil {
		return
	}
	rewriteValue(reflect.ValueOf(n), f)
}

func rewriteValue(v reflect.Value, f func(ast.Expr) (ast.Expr, bool)) {
	switch v.Kind() {
	case reflect.Interface:
		if v.IsNil() {
			return
		}
		if v.Type() == exprIface && v.CanSet() {
			if ne, ok := f(v.Interface().(ast.Expr)); ok {
				v.Set(reflect.ValueOf(ne))
				return
			}
		}
		rewriteValue(v.Elem(), f)
	case reflect.Ptr:
		if v.IsNil() {
			return
		}
		if t := v.Type().Elem(); t == objectType || t == scopeType {
			return
		}
		rewriteValue(v.Elem(), f)
	case reflect.Struct:
		for i := 0; i < v.NumField(); i++ {
			rewriteValue(v.Field(i), f)
		}
	case reflect.Slice:
		for i := 0; i < v.Len(); i++ {
			rewriteValue(v.Index(i), f)
		}
	}
}

// cloneExpr copies the expression forms the rules below substitute (paths, indices, constant
// expressions); nil for anything else.
func cloneExpr(e ast.Expr) ast.Expr {
	switch x := e.(type) {
	case *ast.Ident:
		return &ast.Ident{NamePos: x.NamePos, Name: x.Name}
	case *ast.BasicLit:
		c := *x
		return &c
	case *ast.ParenExpr:
		if y := cloneExpr(x.X); y != nil {
			return &ast.ParenExpr{Lparen: x.Lparen, X: y, Rparen: x.Rparen}
		}
	case *ast.SelectorExpr:
		if y := cloneExpr(x.X); y != nil {
			return &ast.SelectorExpr{X: y, Sel: &ast.Ident{NamePos: x.Sel.NamePos, Name: x.Sel.Name}}
		}
	case *ast.IndexExpr:
		a, b := cloneExpr(x.X), cloneExpr(x.Index)
		if a != nil && b != nil {
			return &ast.IndexExpr{X: a, Lbrack: x.Lbrack, Index: b, Rbrack: x.Rbrack}
		}
	case *ast.UnaryExpr:
		if y := cloneExpr(x.X); y != nil && x.Op != token.AND && x.Op != token.ARROW {
			return &ast.UnaryExpr{OpPos: x.OpPos, Op: x.Op, X: y}
		}
	case *ast.BinaryExpr:
		a, b := cloneExpr(x.X), cloneExpr(x.Y)
		if a != nil && b != nil {
			return &ast.BinaryExpr{X: a, OpPos: x.OpPos, Op: x.Op, Y: b}
		}
	case *ast.CallExpr:
		// a conversion or builtin applied to constants: T(e), len("…")
		if id, ok := x.Fun.(*ast.Ident); ok && len(x.Args) == 1 && !x.Ellipsis.IsValid() {
			if y := cloneExpr(x.Args[0]); y != nil {
				return &ast.CallExpr{Fun: &ast.Ident{NamePos: id.NamePos, Name: id.Name}, Lparen: x.Lparen, Args: []ast.Expr{y}, Rparen: x.Rparen}
			}
		}
	}
	return nil
}

// pathOf: the components of a variable or field path `a.b.c` (nil if e is anything else).
func pathOf(e ast.Expr) []string {
	switch x := e.(type) {
	case *ast.Ident:
		return []string{x.Name}
	case *ast.ParenExpr:
		return pathOf(x.X)
	case *ast.SelectorExpr:
		if p := pathOf(x.X); p != nil {
			return append(p, x.Sel.Name)
		}
	}
	return nil
}

// isPrefix: p is a prefix of (or equal to) q.
func isPrefix(p, q []string) bool {
	if len(p) == 0 || len(p) > len(q) {
		return false
	}
	for i := range p {
		if p[i] != q[i] {
			return false
		}
	}
	return true
}

// identsOf: the identifiers in value positions of a pure expression (selectors' field names excluded).
func identsOf(e ast.Expr, into map[string]bool) {
	ast.Inspect(e, func(n ast.Node) bool {
		switch x := n.(type) {
		case *ast.SelectorExpr:
			identsOf(x.X, into)
			return false
		case *ast.Ident:
			into[x.Name] = true
		}
		return true
	})
}

// pureIndex: an arithmetic expression over variables and literals (no calls, no reads through memory).
func pureIndex(e ast.Expr) bool {
	switch x := e.(type) {
	case *ast.Ident, *ast.BasicLit:
		return true
	case *ast.ParenExpr:
		return pureIndex(x.X)
	case *ast.UnaryExpr:
		return (x.Op == token.SUB || x.Op == token.ADD) && pureIndex(x.X)
	case *ast.BinaryExpr:
		switch x.Op {
		case token.ADD, token.SUB, token.MUL, token.AND, token.OR:
			return pureIndex(x.X) && pureIndex(x.Y)
		}
	}
	return false
}

// declCounts: how often every name is declared in the function (parameters, results, receiver,
// :=, var, const, type, range variables, parameters of closures).
func declCounts(fd *ast.FuncDecl) map[string]int {
	m := map[string]int{}
	fields := func(fl *ast.FieldList) {
		if fl == nil {
			return
		}
		for _, f := range fl.List {
			for _, n := range f.Names {
				m[n.Name]++
			}
		}
	}
	fields(fd.Recv)
	ast.Inspect(fd, func(n ast.Node) bool {
		switch x := n.(type) {
		case *ast.FuncType:
			fields(x.Params)
			fields(x.Results)
		case *ast.AssignStmt:
			if x.Tok == token.DEFINE {
				for _, l := range x.Lhs {
					if id, ok := l.(*ast.Ident); ok {
						m[id.Name]++
					}
				}
			}
		case *ast.RangeStmt:
			if x.Tok == token.DEFINE {
				for _, l := range []ast.Expr{x.Key, x.Value} {
					if id, ok := l.(*ast.Ident); ok {
						m[id.Name]++
					}
				}
			}
		case *ast.ValueSpec:
			for _, id := range x.Names {
				m[id.Name]++
			}
		case *ast.TypeSpec:
			m[x.Name.Name]++
		case *ast.LabeledStmt:
			// labels live in their own name space
		}
		return true
	})
	return m
}

// stableIn reports whether, in the statements, the variables `vars` keep their values and the
// slice header of the path `hdr` stays the same: none of the variables is assigned, redeclared or
// has its address taken; hdr and its prefixes are not assigned as a whole, not the receiver of a
// method call, not passed to a call and do not have their address taken; no closure, go or defer.
func stableIn(stmts []ast.Stmt, vars map[string]bool, hdr []string) bool {
	ok := true
	touched := func(e ast.Expr) {
		// e is written as a whole (assignment target, operand of &, range variable)
		for {
			p, isP := e.(*ast.ParenExpr)
			if !isP {
				break
			}
			e = p.X
		}
		if id, isId := e.(*ast.Ident); isId && vars[id.Name] {
			ok = false
		}
		if p := pathOf(e); p != nil && isPrefix(p, hdr) {
			ok = false
		}
	}
	for _, s := range stmts {
		ast.Inspect(s, func(n ast.Node) bool {
			if !ok {
				return false
			}
			switch x := n.(type) {
			case *ast.FuncLit, *ast.GoStmt, *ast.DeferStmt:
				ok = false
			case *ast.AssignStmt:
				for _, l := range x.Lhs {
					touched(l)
				}
			case *ast.IncDecStmt:
				touched(x.X)
			case *ast.RangeStmt:
				if x.Key != nil {
					touched(x.Key)
				}
				if x.Value != nil {
					touched(x.Value)
				}
			case *ast.ValueSpec:
				for _, id := range x.Names {
					if vars[id.Name] {
						ok = false
					}
				}
			case *ast.TypeSpec:
				if vars[x.Name.Name] {
					ok = false
				}
			case *ast.UnaryExpr:
				if x.Op == token.AND {
					// &v, &X, &X.f… of a prefix: the address escapes; &X[i] of the path itself is an element
					e := x.X
					for {
						switch y := e.(type) {
						case *ast.ParenExpr:
							e = y.X
							continue
						case *ast.IndexExpr:
							e = nil
						}
						break
					}
					if e != nil {
						touched(e)
						if id := rootIdentOfExpr(e); id != "" && vars[id] {
							ok = false
						}
					}
				}
			case *ast.CallExpr:
				if se, isSel := x.Fun.(*ast.SelectorExpr); isSel {
					if p := pathOf(se.X); p != nil && isPrefix(p, hdr) {
						ok = false // method call on (a prefix of) the path: it may change the header
					}
				}
				builtin := false
				if id, isId := x.Fun.(*ast.Ident); isId {
					switch id.Name {
					case "len", "cap", "copy", "clear", "min", "max":
						builtin = true
					}
				}
				if !builtin {
					for _, a := range x.Args {
						if p := pathOf(a); p != nil && len(p) < len(hdr) && isPrefix(p, hdr) {
							ok = false // a proper prefix (a struct or a pointer to it) handed to a callee
						}
					}
				}
			}
			return ok
		})
	}
	return ok
}

func rootIdentOfExpr(e ast.Expr) string {
	for {
		switch x := e.(type) {
		case *ast.Ident:
			return x.Name
		case *ast.ParenExpr:
			e = x.X
		case *ast.SelectorExpr:
			e = x.X
		case *ast.IndexExpr:
			e = x.X
		case *ast.StarExpr:
			e = x.X
		default:
			return ""
		}
	}
}

// ---------------------------------------------------------------- the pass

func desugarFile(f *ast.File) {
	names := map[string]bool{}
	ast.Inspect(f, func(n ast.Node) bool {
		if id, ok := n.(*ast.Ident); ok {
			names[id.Name] = true
		}
		return true
	})
	fresh := 0
	for _, d := range f.Decls {
		if fd, ok := d.(*ast.FuncDecl); ok && fd.Body != nil {
			ds := &desugarer{fd: fd, names: names, fresh: &fresh}
			ds.block(&fd.Body.List)
			ds.loops(fd.Body)
		}
	}
}

// desugaredConsts: the local constant declarations whose uses have all been replaced.
var desugaredConsts = map[*ast.GenDecl]bool{}

type desugarer struct {
	fd    *ast.FuncDecl
	names map[string]bool // every identifier of the file (for fresh names)
	fresh *int
}

// block applies the block-level rules (local constants, element pointers) to a statement list
// and to the statement lists nested in it.
func (d *desugarer) block(list *[]ast.Stmt) {
	for k := 0; k < len(*list); k++ {
		s := (*list)[k]
		if ds, ok := s.(*ast.DeclStmt); ok {
			if gd, ok := ds.Decl.(*ast.GenDecl); ok && gd.Tok == token.CONST && d.localConst(gd, (*list)[k+1:]) {
				// the declaration stays (the literal lists of Facts.lean count it); the translator skips it
				desugaredConsts[gd] = true
				continue
			}
		}
		if as, ok := s.(*ast.AssignStmt); ok {
			if repl := d.elemPointer(as, (*list)[k+1:]); repl != nil {
				(*list)[k] = repl
				continue
			}
			if changed, drop := d.sliceFieldCopy(as, (*list)[k+1:]); changed {
				if drop {
					*list = append(append([]ast.Stmt{}, (*list)[:k]...), (*list)[k+1:]...)
					k--
				}
				continue
			}
			if repl := d.tupleAssign(as); repl != nil {
				nl := append([]ast.Stmt{}, (*list)[:k]...)
				nl = append(nl, repl...)
				nl = append(nl, (*list)[k+1:]...)
				*list = nl
				k += len(repl) - 1
				continue
			}
		}
	}
	for _, s := range *list {
		d.nested(s)
	}
}

func (d *desugarer) nested(s ast.Stmt) {
	switch x := s.(type) {
	case *ast.BlockStmt:
		d.block(&x.List)
	case *ast.IfStmt:
		d.block(&x.Body.List)
		if x.Else != nil {
			d.nested(x.Else)
		}
	case *ast.ForStmt:
		d.block(&x.Body.List)
	case *ast.RangeStmt:
		d.block(&x.Body.List)
	case *ast.LabeledStmt:
		d.nested(x.Stmt)
	case *ast.SwitchStmt:
		unfoldFallthrough(x)
		for _, cc := range x.Body.List {
			d.block(&cc.(*ast.CaseClause).Body)
		}
	case *ast.TypeSwitchStmt:
		for _, cc := range x.Body.List {
			d.block(&cc.(*ast.CaseClause).Body)
		}
	case *ast.SelectStmt:
		for _, cc := range x.Body.List {
			d.block(&cc.(*ast.CommClause).Body)
		}
	}
}

// localConst: see the header.  rest are the statements of the block after the declaration.
func (d *desugarer) localConst(gd *ast.GenDecl, rest []ast.Stmt) bool {
	counts := declCounts(d.fd)
	type sub struct {
		name string
		val  ast.Expr
	}
	var subs []sub
	own := map[string]bool{}
	for _, sp := range gd.Specs {
		vs := sp.(*ast.ValueSpec)
		if len(vs.Values) != len(vs.Names) {
			return false // implicit repetition (iota)
		}
		for i, n := range vs.Names {
			if n.Name == "_" || counts[n.Name] != 1 {
				return false
			}
			ids := map[string]bool{}
			identsOf(vs.Values[i], ids)
			for id := range ids {
				if id == "iota" || (counts[id] != 0 && !own[id]) {
					return false
				}
			}
			v := cloneExpr(vs.Values[i])
			if v == nil {
				return false
			}
			// earlier constants of the same declaration
			holder := &ast.ParenExpr{X: v}
			for _, s := range subs {
				substIdent(holder, s.name, s.val)
			}
			v = holder.X
			var val ast.Expr = &ast.ParenExpr{Lparen: vs.Values[i].Pos(), X: v, Rparen: vs.Values[i].End()}
			if vs.Type != nil {
				tid, ok := vs.Type.(*ast.Ident)
				if !ok || counts[tid.Name] != 0 {
					return false
				}
				val = &ast.CallExpr{Fun: &ast.Ident{NamePos: tid.NamePos, Name: tid.Name}, Lparen: vs.Values[i].Pos(), Args: []ast.Expr{v}, Rparen: vs.Values[i].End()}
			}
			subs = append(subs, sub{n.Name, val})
			own[n.Name] = true
		}
	}
	for _, s := range rest {
		for _, sb := range subs {
			substIdent(s, sb.name, sb.val)
		}
	}
	return true
}

// substIdent replaces the identifier `name` in value positions by a copy of val (field names of
// selectors and the keys of composite literals are not value positions).
func substIdent(n ast.Node, name string, val ast.Expr) {
	var f func(e ast.Expr) (ast.Expr, bool)
	f = func(e ast.Expr) (ast.Expr, bool) {
		switch x := e.(type) {
		case *ast.Ident:
			if x.Name == name {
				return cloneExpr(val), true
			}
		case *ast.KeyValueExpr:
			if _, isId := x.Key.(*ast.Ident); isId {
				holder := &ast.ParenExpr{X: x.Value}
				rewriteExprs(holder, f)
				x.Value = holder.X
				return x, true
			}
		}
		return nil, false
	}
	rewriteExprs(n, f)
}

// elemPointer: `p := &X[i]`, see the header.  Returns the replacement of the statement, or nil.
func (d *desugarer) elemPointer(as *ast.AssignStmt, rest []ast.Stmt) ast.Stmt {
	if as.Tok != token.DEFINE || len(as.Lhs) != 1 || len(as.Rhs) != 1 {
		return nil
	}
	p, ok := as.Lhs[0].(*ast.Ident)
	if !ok || p.Name == "_" {
		return nil
	}
	ue, ok := as.Rhs[0].(*ast.UnaryExpr)
	if !ok || ue.Op != token.AND {
		return nil
	}
	ix, ok := ue.X.(*ast.IndexExpr)
	if !ok {
		return nil
	}
	hdr := pathOf(ix.X)
	if hdr == nil || !pureIndex(ix.Index) || cloneExpr(ix) == nil {
		return nil
	}
	if declCounts(d.fd)[p.Name] != 1 {
		return nil
	}
	vars := map[string]bool{hdr[0]: true}
	identsOf(ix.Index, vars)
	if vars[p.Name] {
		return nil
	}
	// p only as *p and p.f
	total, good := 0, 0
	for _, s := range rest {
		ast.Inspect(s, func(n ast.Node) bool {
			switch x := n.(type) {
			case *ast.Ident:
				if x.Name == p.Name {
					total++
				}
			case *ast.StarExpr:
				if id, ok := x.X.(*ast.Ident); ok && id.Name == p.Name {
					good++
				}
			case *ast.SelectorExpr:
				if id, ok := x.X.(*ast.Ident); ok && id.Name == p.Name {
					good++
				}
			}
			return true
		})
	}
	if total != good || !stableIn(rest, vars, hdr) {
		return nil
	}
	for _, s := range rest {
		rewriteExprs(s, func(e ast.Expr) (ast.Expr, bool) {
			switch x := e.(type) {
			case *ast.StarExpr:
				if id, ok := x.X.(*ast.Ident); ok && id.Name == p.Name {
					return cloneExpr(ix), true
				}
			case *ast.SelectorExpr:
				if id, ok := x.X.(*ast.Ident); ok && id.Name == p.Name {
					return &ast.SelectorExpr{X: cloneExpr(ix), Sel: x.Sel}, true
				}
			}
			return nil, false
		})
	}
	return &ast.AssignStmt{Lhs: []ast.Expr{&ast.Ident{NamePos: p.NamePos, Name: "_"}}, TokPos: as.TokPos, Tok: token.ASSIGN, Rhs: []ast.Expr{ix}}
}

// loops rewrites the counting loops below n (innermost first).
func (d *desugarer) loops(n ast.Node) {
	var fix func(s *ast.Stmt)
	var list func(l []ast.Stmt)
	list = func(l []ast.Stmt) {
		for i := range l {
			fix(&l[i])
		}
	}
	fix = func(sp *ast.Stmt) {
		switch x := (*sp).(type) {
		case *ast.BlockStmt:
			list(x.List)
		case *ast.IfStmt:
			list(x.Body.List)
			if x.Else != nil {
				fix(&x.Else)
			}
		case *ast.LabeledStmt:
			fix(&x.Stmt)
		case *ast.RangeStmt:
			list(x.Body.List)
		case *ast.SwitchStmt:
			for _, cc := range x.Body.List {
				list(cc.(*ast.CaseClause).Body)
			}
		case *ast.ForStmt:
			list(x.Body.List)
			if r := countingLoop(x); r != nil {
				*sp = r
			}
		}
	}
	if b, ok := n.(*ast.BlockStmt); ok {
		list(b.List)
	}
}

// countingLoop: `for i := 0; i < len(P); i++ { … }` ↦ `for i := range P { … }`, see the header.
func countingLoop(x *ast.ForStmt) ast.Stmt {
	init, ok := x.Init.(*ast.AssignStmt)
	if !ok || init.Tok != token.DEFINE || len(init.Lhs) != 1 || len(init.Rhs) != 1 {
		return nil
	}
	i, ok := init.Lhs[0].(*ast.Ident)
	if !ok || i.Name == "_" {
		return nil
	}
	if lit, ok := init.Rhs[0].(*ast.BasicLit); !ok || lit.Kind != token.INT || lit.Value != "0" {
		return nil
	}
	isI := func(e ast.Expr) bool {
		id, ok := e.(*ast.Ident)
		return ok && id.Name == i.Name
	}
	lenOf := func(e ast.Expr) ast.Expr {
		call, ok := e.(*ast.CallExpr)
		if !ok || len(call.Args) != 1 {
			return nil
		}
		if id, ok := call.Fun.(*ast.Ident); !ok || id.Name != "len" {
			return nil
		}
		return call.Args[0]
	}
	cond, ok := x.Cond.(*ast.BinaryExpr)
	if !ok {
		return nil
	}
	var P ast.Expr
	switch {
	case cond.Op == token.LSS && isI(cond.X):
		P = lenOf(cond.Y)
	case cond.Op == token.GTR && isI(cond.Y):
		P = lenOf(cond.X)
	}
	if P == nil {
		return nil
	}
	hdr := pathOf(P)
	if hdr == nil || hdr[0] == i.Name || hdr[0] == "len" {
		return nil
	}
	switch post := x.Post.(type) {
	case *ast.IncDecStmt:
		if post.Tok != token.INC || !isI(post.X) {
			return nil
		}
	case *ast.AssignStmt:
		if post.Tok != token.ADD_ASSIGN || len(post.Lhs) != 1 || !isI(post.Lhs[0]) {
			return nil
		}
		if lit, ok := post.Rhs[0].(*ast.BasicLit); !ok || lit.Kind != token.INT || lit.Value != "1" {
			return nil
		}
	default:
		return nil
	}
	// `len` must be the builtin in the body's view as well; i and the header of P are stable
	if !stableIn(x.Body.List, map[string]bool{i.Name: true, hdr[0]: true, "len": true}, hdr) {
		return nil
	}
	return &ast.RangeStmt{For: x.For, Key: i, TokPos: init.TokPos, Tok: token.DEFINE, Range: x.For, X: P, Body: x.Body}
}

// ---------------------------------------------------------------- fallthrough

// cloneNode: a deep copy of a syntax tree (positions kept, so messages still point into the source;
// the resolver's Object/Scope links are dropped — nothing in this program reads them).
func cloneNode[T ast.Node](n T) T {
	return cloneValue(reflect.ValueOf(n)).Interface().(T)
}

func cloneValue(v reflect.Value) reflect.Value {
	switch v.Kind() {
	case reflect.Interface:
		if v.IsNil() {
			return v
		}
		out := reflect.New(v.Type()).Elem()
		out.Set(cloneValue(v.Elem()))
		return out
	case reflect.Ptr:
		if v.IsNil() {
			return v
		}
		if t := v.Type().Elem(); t == objectType || t == scopeType {
			return reflect.Zero(v.Type())
		}
		out := reflect.New(v.Type().Elem())
		out.Elem().Set(cloneValue(v.Elem()))
		return out
	case reflect.Struct:
		out := reflect.New(v.Type()).Elem()
		for i := 0; i < v.NumField(); i++ {
			if out.Field(i).CanSet() {
				out.Field(i).Set(cloneValue(v.Field(i)))
			}
		}
		return out
	case reflect.Slice:
		if v.IsNil() {
			return v
		}
		out := reflect.MakeSlice(v.Type(), v.Len(), v.Len())
		for i := 0; i < v.Len(); i++ {
			out.Index(i).Set(cloneValue(v.Index(i)))
		}
		return out
	}
	return v
}

// topLevelDecls: the names a statement list declares in its own scope (not in nested blocks).
func topLevelDecls(list []ast.Stmt) map[string]bool {
	m := map[string]bool{}
	for _, s := range list {
		switch x := s.(type) {
		case *ast.AssignStmt:
			if x.Tok == token.DEFINE {
				for _, l := range x.Lhs {
					if id, ok := l.(*ast.Ident); ok {
						m[id.Name] = true
					}
				}
			}
		case *ast.DeclStmt:
			if gd, ok := x.Decl.(*ast.GenDecl); ok {
				for _, sp := range gd.Specs {
					switch y := sp.(type) {
					case *ast.ValueSpec:
						for _, id := range y.Names {
							m[id.Name] = true
						}
					case *ast.TypeSpec:
						m[y.Name.Name] = true
					}
				}
			}
		}
	}
	return m
}

// unfoldFallthrough: see the header.  Clauses whose conditions fail keep their `fallthrough`
// (the translator and the interpreter refuse it).
func unfoldFallthrough(x *ast.SwitchStmt) {
	cls := x.Body.List
	for i := len(cls) - 2; i >= 0; i-- {
		cc := cls[i].(*ast.CaseClause)
		n := len(cc.Body)
		if n == 0 {
			continue
		}
		br, ok := cc.Body[n-1].(*ast.BranchStmt)
		if !ok || br.Tok != token.FALLTHROUGH {
			continue
		}
		next := cls[i+1].(*ast.CaseClause)
		own := topLevelDecls(cc.Body[:n-1])
		safe := true
		for _, s := range next.Body {
			ast.Inspect(s, func(nd ast.Node) bool {
				switch y := nd.(type) {
				case *ast.Ident:
					if own[y.Name] {
						safe = false
					}
				case *ast.LabeledStmt:
					safe = false
				case *ast.BranchStmt:
					if y.Tok == token.GOTO || y.Tok == token.FALLTHROUGH {
						safe = false // (a fallthrough left in the next body: its own unfolding was refused)
					}
				}
				return safe
			})
		}
		if !safe {
			continue
		}
		body := append([]ast.Stmt{}, cc.Body[:n-1]...)
		for _, s := range next.Body {
			body = append(body, cloneNode(s))
		}
		cc.Body = body
	}
}

// ---------------------------------------------------------------- tuple assignment

// tupleDependency: the last index j (≥ 1) such that rhs[j] mentions the root variable of an earlier
// left side lhs[i], i < j; 0 if there is none (then assigning one after the other is what Go does,
// up to the moment at which a panic of a later operand happens — the translator refuses operands that
// may panic).  Roots, not paths: `s.W` and `s.ParserBuffer.W` may be the same location (promoted fields).
func tupleDependency(lhs, rhs []ast.Expr) int {
	last := 0
	for j := 1; j < len(rhs) && j < len(lhs); j++ {
		names := map[string]bool{}
		for i := 0; i < j; i++ {
			if r := rootIdentOfExpr(lhs[i]); r != "" && r != "_" {
				names[r] = true
			} else if r == "" {
				// not a path (index, dereference, …): anything may be read
				ids := map[string]bool{}
				identsOf(lhs[i], ids)
				for id := range ids {
					names[id] = true
				}
			}
		}
		if usesIdent(rhs[j], names) {
			last = j
		}
	}
	return last
}

func isLiteralOperand(e ast.Expr) bool {
	switch x := e.(type) {
	case *ast.BasicLit:
		return true
	case *ast.ParenExpr:
		return isLiteralOperand(x.X)
	case *ast.UnaryExpr:
		return (x.Op == token.SUB || x.Op == token.ADD || x.Op == token.XOR || x.Op == token.NOT) && isLiteralOperand(x.X)
	case *ast.Ident:
		return x.Name == "nil" || x.Name == "true" || x.Name == "false"
	}
	return false
}

// tupleAssign: see the header; nil when the rule does not apply.
func (d *desugarer) tupleAssign(as *ast.AssignStmt) []ast.Stmt {
	if as.Tok != token.ASSIGN || len(as.Lhs) < 2 || len(as.Lhs) != len(as.Rhs) {
		return nil
	}
	for _, l := range as.Lhs {
		if pathOf(l) == nil {
			return nil
		}
	}
	m := tupleDependency(as.Lhs, as.Rhs)
	if m == 0 {
		return nil
	}
	for _, n := range []string{"nil", "true", "false"} {
		if declCounts(d.fd)[n] != 0 {
			return nil // (a shadowed predeclared name would not be a literal)
		}
	}
	var out, assigns []ast.Stmt
	for i := 0; i <= m; i++ {
		rhs := as.Rhs[i]
		if !isLiteralOperand(rhs) {
			var name string
			for {
				*d.fresh++
				name = "tup" + itoa(*d.fresh)
				if !d.names[name] {
					break
				}
			}
			d.names[name] = true
			out = append(out, &ast.AssignStmt{Lhs: []ast.Expr{&ast.Ident{NamePos: rhs.Pos(), Name: name}},
				TokPos: as.TokPos, Tok: token.DEFINE, Rhs: []ast.Expr{rhs}})
			rhs = &ast.Ident{NamePos: rhs.Pos(), Name: name}
		}
		assigns = append(assigns, &ast.AssignStmt{Lhs: []ast.Expr{as.Lhs[i]}, TokPos: as.TokPos, Tok: token.ASSIGN, Rhs: []ast.Expr{rhs}})
	}
	out = append(out, assigns...)
	if m+1 < len(as.Lhs) {
		out = append(out, &ast.AssignStmt{Lhs: as.Lhs[m+1:], TokPos: as.TokPos, Tok: token.ASSIGN, Rhs: as.Rhs[m+1:]})
	}
	return out
}

// ---------------------------------------------------------------- local copies of slice fields

// pkgStructs: the struct declarations of the package (collected by load() before the pass runs);
// pkgTypeNames: every type name the package declares (a declared `int` would shadow the builtin).
var pkgStructs = map[string]*ast.StructType{}
var pkgTypeNames = map[string]bool{}

var scalarTypeNames = map[string]bool{"int": true, "int8": true, "int16": true, "int32": true, "int64": true,
	"uint": true, "uint8": true, "uint16": true, "uint32": true, "uint64": true, "uintptr": true, "byte": true,
	"rune": true, "bool": true, "string": true, "float32": true, "float64": true}

func collectPkgStructs(files map[string]*ast.File) {
	pkgStructs = map[string]*ast.StructType{}
	pkgTypeNames = map[string]bool{}
	for _, f := range files {
		for _, d := range f.Decls {
			gd, ok := d.(*ast.GenDecl)
			if !ok || gd.Tok != token.TYPE {
				continue
			}
			for _, sp := range gd.Specs {
				ts := sp.(*ast.TypeSpec)
				pkgTypeNames[ts.Name.Name] = true
				if st, ok := ts.Type.(*ast.StructType); ok && ts.TypeParams == nil {
					pkgStructs[ts.Name.Name] = st
				}
			}
		}
	}
}

// structNameOf: T or *T naming a struct of the package ("" otherwise).
func structNameOf(t ast.Expr) string {
	if st, ok := t.(*ast.StarExpr); ok {
		t = st.X
	}
	if id, ok := t.(*ast.Ident); ok && pkgStructs[id.Name] != nil {
		return id.Name
	}
	return ""
}

// declaredFieldType: the declared type of the selector .f on struct `name` by Go's rule (shallowest depth
// of embedding, unique there); nil if there is none or it is ambiguous.
func declaredFieldType(name, f string) ast.Expr {
	cur := []string{name}
	for depth := 0; depth < 20 && len(cur) > 0; depth++ {
		var found []ast.Expr
		var next []string
		for _, n := range cur {
			st := pkgStructs[n]
			if st == nil {
				continue
			}
			for _, fl := range st.Fields.List {
				if len(fl.Names) == 0 {
					en := structNameOf(fl.Type)
					base := fl.Type
					if se, ok := base.(*ast.StarExpr); ok {
						base = se.X
					}
					if id, ok := base.(*ast.Ident); ok && id.Name == f {
						found = append(found, fl.Type)
					}
					if en != "" {
						if _, ptr := fl.Type.(*ast.StarExpr); !ptr {
							next = append(next, en)
						} else {
							return nil // an embedded pointer on the way: a field behind it may be shared; left alone
						}
					}
					continue
				}
				for _, id := range fl.Names {
					if id.Name == f {
						found = append(found, fl.Type)
					}
				}
			}
		}
		if len(found) > 1 {
			return nil
		}
		if len(found) == 1 {
			return found[0]
		}
		cur = next
	}
	return nil
}

// sliceFieldCopy: see the header.  changed: at least one pair was eliminated; drop: no pair is left.
func (d *desugarer) sliceFieldCopy(as *ast.AssignStmt, rest []ast.Stmt) (changed, drop bool) {
	if as.Tok != token.DEFINE || len(as.Lhs) != len(as.Rhs) {
		return false, false
	}
	// the struct type of the receiver and of the parameters
	rootType := map[string]string{}
	fields := func(fl *ast.FieldList) {
		if fl == nil {
			return
		}
		for _, f := range fl.List {
			if n := structNameOf(f.Type); n != "" {
				for _, id := range f.Names {
					rootType[id.Name] = n
				}
			}
		}
	}
	fields(d.fd.Recv)
	fields(d.fd.Type.Params)
	counts := declCounts(d.fd)
	var keepL, keepR []ast.Expr
	for i := range as.Lhs {
		v, ok := as.Lhs[i].(*ast.Ident)
		path := pathOf(as.Rhs[i])
		elim := false
		if ok && v.Name != "_" && counts[v.Name] == 1 && len(path) >= 2 && rootType[path[0]] != "" && counts[path[0]] == 1 {
			// the declared type of the path
			name := rootType[path[0]]
			var t ast.Expr
			for j, f := range path[1:] {
				t = declaredFieldType(name, f)
				if t == nil {
					break
				}
				if j < len(path)-2 {
					if _, ptr := t.(*ast.StarExpr); ptr {
						t = nil // a pointer field on the way
						break
					}
					name = structNameOf(t)
					if name == "" {
						t = nil
						break
					}
				}
			}
			eligible := false
			if at, isArr := t.(*ast.ArrayType); isArr && at.Len == nil {
				eligible = true
			}
			if id, isId := t.(*ast.Ident); isId && scalarTypeNames[id.Name] && !pkgTypeNames[id.Name] && counts[id.Name] == 0 {
				eligible = true // a number, bool or string: a plain value; P is stable, so v = P throughout
			}
			if eligible {
				// the other pairs of the same statement must not be affected: v and P do not occur in them
				clean := true
				for j := range as.Rhs {
					if j != i && usesIdent(as.Rhs[j], map[string]bool{v.Name: true}) {
						clean = false
					}
				}
				if clean && stableIn(rest, map[string]bool{v.Name: true, path[0]: true}, path) {
					elim = true
				}
			}
		}
		if !elim {
			keepL = append(keepL, as.Lhs[i])
			keepR = append(keepR, as.Rhs[i])
			continue
		}
		for _, s := range rest {
			substIdent(s, v.Name, as.Rhs[i])
		}
		changed = true
	}
	if !changed {
		return false, false
	}
	as.Lhs, as.Rhs = keepL, keepR
	return true, len(keepL) == 0
}
