// code_desugar.go — a syntactic NORMALISATION pass over the parsed Go files, run once by load()
// before anything else reads the syntax trees (facts, interpreter, translator).  Its purpose is
// robustness: behaviour-preserving rewrites of the Go source that only change the surface form
// of a construct should lead to the same (or at least to an accepted) translation.  Every rule
// rewrites a construct the translator does not know into an equivalent one it knows, and only
// when simple, purely syntactic side conditions guarantee the equivalence; when a condition
// fails the tree is left alone and the translator decides (usually: it refuses the topic).
// Nothing here is keyed on a function, type or variable name of the repository.
//
//	local constants       `const c = e` / `const c T = e` inside a function body: every use of c in the
//	                      rest of the block is replaced by `(e)` / `T(e)`; the declaration itself is then skipped
//	                      by the translator (Go's own reading of a constant).  Conditions: c is declared exactly once in
//	                      the function (no shadowing in either direction), no identifier of e is
//	                      declared anywhere in the function, every spec has its own value (no iota).
//
//	element pointers      `p := &X[i]` where X is a variable or field path and i a pure arithmetic
//	                      expression: the statement becomes `_ = X[i]` (the bounds check `&X[i]` performs),
//	                      and in the rest of the block `*p` ↦ `X[i]`, `p.f` ↦ `X[i].f`.  Conditions over
//	                      the rest of the block: p occurs only in these two forms (never assigned,
//	                      passed or compared); no variable of X or i is assigned, redeclared or has its
//	                      address taken; neither X nor a prefix of X is assigned as a whole, is the
//	                      receiver of a method call, or is passed to a call (so the slice header and the
//	                      index — hence the location — are the same at every use); no closure, go, defer.
//
//	counting loops        `for i := 0; i < len(P); i++ { body }` (also `len(P) > i`, `i += 1`) where P is a
//	                      variable or field path ↦ `for i := range P { body }`.  Conditions over the body:
//	                      i is not assigned, redeclared or has its address taken; neither P nor a prefix
//	                      of P is assigned as a whole, has its address taken, is the receiver of a method
//	                      call or is passed to a call (len(P) is the same at every test, which is what
//	                      `range` assumes by evaluating it once); no closure (per-iteration variables).
//	                      The translator then treats both spellings of the loop alike (recursion over the
//	                      number of iterations left, code_gslice.go), and a rewrite of a `range` loop with
//	                      an element variable into an index loop (or back) only moves the element read.
//
// (The other normalisation, zeroing loop ↦ `clear`, needs the element type and lives in
// code_slice.go: clearIdiom.)
package main

import (
	"go/ast"
	"go/token"
	"reflect"
)

// ---------------------------------------------------------------- generic helpers

var (
	exprIface  = reflect.TypeOf((*ast.Expr)(nil)).Elem()
	objectType = reflect.TypeOf(ast.Object{})
	scopeType  = reflect.TypeOf(ast.Scope{})
)

// rewriteExprs walks n and offers every expression in an ast.Expr position to f (parents first);
// if f returns (e', true) the expression is replaced by e' and e' is not walked.
func rewriteExprs(n ast.Node, f func(ast.Expr) (ast.Expr, bool)) {
	if n == nil {
		return
	}
	rewriteValue(reflect.ValueOf(n), f)
}

func rewriteValue(v reflect.Value, f func(ast.Expr) (ast.Expr, bool)) {
	switch v.Kind() {
	case reflect.Interface:
		if v.IsNil() {
			return
		}
		if v.Type() == exprIface && v.CanSet() {
			if ne, ok := f(v.Interface().(ast.Expr)); ok {
				v.Set(reflect.ValueOf(ne))
				return
			}
		}
		rewriteValue(v.Elem(), f)
	case reflect.Ptr:
		if v.IsNil() {
			return
		}
		if t := v.Type().Elem(); t == objectType || t == scopeType {
			return
		}
		rewriteValue(v.Elem(), f)
	case reflect.Struct:
		for i := 0; i < v.NumField(); i++ {
			rewriteValue(v.Field(i), f)
		}
	case reflect.Slice:
		for i := 0; i < v.Len(); i++ {
			rewriteValue(v.Index(i), f)
		}
	}
}

// cloneExpr copies the expression forms the rules below substitute (paths, indices, constant
// expressions); nil for anything else.
func cloneExpr(e ast.Expr) ast.Expr {
	switch x := e.(type) {
	case *ast.Ident:
		return &ast.Ident{NamePos: x.NamePos, Name: x.Name}
	case *ast.BasicLit:
		c := *x
		return &c
	case *ast.ParenExpr:
		if y := cloneExpr(x.X); y != nil {
			return &ast.ParenExpr{Lparen: x.Lparen, X: y, Rparen: x.Rparen}
		}
	case *ast.SelectorExpr:
		if y := cloneExpr(x.X); y != nil {
			return &ast.SelectorExpr{X: y, Sel: &ast.Ident{NamePos: x.Sel.NamePos, Name: x.Sel.Name}}
		}
	case *ast.IndexExpr:
		a, b := cloneExpr(x.X), cloneExpr(x.Index)
		if a != nil && b != nil {
			return &ast.IndexExpr{X: a, Lbrack: x.Lbrack, Index: b, Rbrack: x.Rbrack}
		}
	case *ast.UnaryExpr:
		if y := cloneExpr(x.X); y != nil && x.Op != token.AND && x.Op != token.ARROW {
			return &ast.UnaryExpr{OpPos: x.OpPos, Op: x.Op, X: y}
		}
	case *ast.BinaryExpr:
		a, b := cloneExpr(x.X), cloneExpr(x.Y)
		if a != nil && b != nil {
			return &ast.BinaryExpr{X: a, OpPos: x.OpPos, Op: x.Op, Y: b}
		}
	case *ast.CallExpr:
		// a conversion or builtin applied to constants: T(e), len("…")
		if id, ok := x.Fun.(*ast.Ident); ok && len(x.Args) == 1 && !x.Ellipsis.IsValid() {
			if y := cloneExpr(x.Args[0]); y != nil {
				return &ast.CallExpr{Fun: &ast.Ident{NamePos: id.NamePos, Name: id.Name}, Lparen: x.Lparen, Args: []ast.Expr{y}, Rparen: x.Rparen}
			}
		}
	}
	return nil
}

// pathOf: the components of a variable or field path `a.b.c` (nil if e is anything else).
func pathOf(e ast.Expr) []string {
	switch x := e.(type) {
	case *ast.Ident:
		return []string{x.Name}
	case *ast.ParenExpr:
		return pathOf(x.X)
	case *ast.SelectorExpr:
		if p := pathOf(x.X); p != nil {
			return append(p, x.Sel.Name)
		}
	}
	return nil
}

// isPrefix: p is a prefix of (or equal to) q.
func isPrefix(p, q []string) bool {
	if len(p) == 0 || len(p) > len(q) {
		return false
	}
	for i := range p {
		if p[i] != q[i] {
			return false
		}
	}
	return true
}

// identsOf: the identifiers in value positions of a pure expression (selectors' field names excluded).
func identsOf(e ast.Expr, into map[string]bool) {
	ast.Inspect(e, func(n ast.Node) bool {
		switch x := n.(type) {
		case *ast.SelectorExpr:
			identsOf(x.X, into)
			return false
		case *ast.Ident:
			into[x.Name] = true
		}
		return true
	})
}

// pureIndex: an arithmetic expression over variables and literals (no calls, no reads through memory).
func pureIndex(e ast.Expr) bool {
	switch x := e.(type) {
	case *ast.Ident, *ast.BasicLit:
		return true
	case *ast.ParenExpr:
		return pureIndex(x.X)
	case *ast.UnaryExpr:
		return (x.Op == token.SUB || x.Op == token.ADD) && pureIndex(x.X)
	case *ast.BinaryExpr:
		switch x.Op {
		case token.ADD, token.SUB, token.MUL, token.AND, token.OR:
			return pureIndex(x.X) && pureIndex(x.Y)
		}
	}
	return false
}

// declCounts: how often every name is declared in the function (parameters, results, receiver,
// :=, var, const, type, range variables, parameters of closures).
func declCounts(fd *ast.FuncDecl) map[string]int {
	m := map[string]int{}
	fields := func(fl *ast.FieldList) {
		if fl == nil {
			return
		}
		for _, f := range fl.List {
			for _, n := range f.Names {
				m[n.Name]++
			}
		}
	}
	fields(fd.Recv)
	ast.Inspect(fd, func(n ast.Node) bool {
		switch x := n.(type) {
		case *ast.FuncType:
			fields(x.Params)
			fields(x.Results)
		case *ast.AssignStmt:
			if x.Tok == token.DEFINE {
				for _, l := range x.Lhs {
					if id, ok := l.(*ast.Ident); ok {
						m[id.Name]++
					}
				}
			}
		case *ast.RangeStmt:
			if x.Tok == token.DEFINE {
				for _, l := range []ast.Expr{x.Key, x.Value} {
					if id, ok := l.(*ast.Ident); ok {
						m[id.Name]++
					}
				}
			}
		case *ast.ValueSpec:
			for _, id := range x.Names {
				m[id.Name]++
			}
		case *ast.TypeSpec:
			m[x.Name.Name]++
		case *ast.LabeledStmt:
			// labels live in their own name space
		}
		return true
	})
	return m
}

// stableIn reports whether, in the statements, the variables `vars` keep their values and the
// slice header of the path `hdr` stays the same: none of the variables is assigned, redeclared or
// has its address taken; hdr and its prefixes are not assigned as a whole, not the receiver of a
// method call, not passed to a call and do not have their address taken; no closure, go or defer.
func stableIn(stmts []ast.Stmt, vars map[string]bool, hdr []string) bool {
	ok := true
	touched := func(e ast.Expr) {
		// e is written as a whole (assignment target, operand of &, range variable)
		for {
			p, isP := e.(*ast.ParenExpr)
			if !isP {
				break
			}
			e = p.X
		}
		if id, isId := e.(*ast.Ident); isId && vars[id.Name] {
			ok = false
		}
		if p := pathOf(e); p != nil && isPrefix(p, hdr) {
			ok = false
		}
	}
	for _, s := range stmts {
		ast.Inspect(s, func(n ast.Node) bool {
			if !ok {
				return false
			}
			switch x := n.(type) {
			case *ast.FuncLit, *ast.GoStmt, *ast.DeferStmt:
				ok = false
			case *ast.AssignStmt:
				for _, l := range x.Lhs {
					touched(l)
				}
			case *ast.IncDecStmt:
				touched(x.X)
			case *ast.RangeStmt:
				if x.Key != nil {
					touched(x.Key)
				}
				if x.Value != nil {
					touched(x.Value)
				}
			case *ast.ValueSpec:
				for _, id := range x.Names {
					if vars[id.Name] {
						ok = false
					}
				}
			case *ast.TypeSpec:
				if vars[x.Name.Name] {
					ok = false
				}
			case *ast.UnaryExpr:
				if x.Op == token.AND {
					// &v, &X, &X.f… of a prefix: the address escapes; &X[i] of the path itself is an element
					e := x.X
					for {
						switch y := e.(type) {
						case *ast.ParenExpr:
							e = y.X
							continue
						case *ast.IndexExpr:
							e = nil
						}
						break
					}
					if e != nil {
						touched(e)
						if id := rootIdentOfExpr(e); id != "" && vars[id] {
							ok = false
						}
					}
				}
			case *ast.CallExpr:
				if se, isSel := x.Fun.(*ast.SelectorExpr); isSel {
					if p := pathOf(se.X); p != nil && isPrefix(p, hdr) {
						ok = false // method call on (a prefix of) the path: it may change the header
					}
				}
				builtin := false
				if id, isId := x.Fun.(*ast.Ident); isId {
					switch id.Name {
					case "len", "cap", "copy", "clear", "min", "max":
						builtin = true
					}
				}
				if !builtin {
					for _, a := range x.Args {
						if p := pathOf(a); p != nil && len(p) < len(hdr) && isPrefix(p, hdr) {
							ok = false // a proper prefix (a struct or a pointer to it) handed to a callee
						}
					}
				}
			}
			return ok
		})
	}
	return ok
}

func rootIdentOfExpr(e ast.Expr) string {
	for {
		switch x := e.(type) {
		case *ast.Ident:
			return x.Name
		case *ast.ParenExpr:
			e = x.X
		case *ast.SelectorExpr:
			e = x.X
		case *ast.IndexExpr:
			e = x.X
		case *ast.StarExpr:
			e = x.X
		default:
			return ""
		}
	}
}

// ---------------------------------------------------------------- the pass

func desugarFile(f *ast.File) {
	for _, d := range f.Decls {
		if fd, ok := d.(*ast.FuncDecl); ok && fd.Body != nil {
			ds := &desugarer{fd: fd}
			ds.block(&fd.Body.List)
			ds.loops(fd.Body)
		}
	}
}

// desugaredConsts: the local constant declarations whose uses have all been replaced.
var desugaredConsts = map[*ast.GenDecl]bool{}

type desugarer struct {
	fd *ast.FuncDecl
}

// block applies the block-level rules (local constants, element pointers) to a statement list
// and to the statement lists nested in it.
func (d *desugarer) block(list *[]ast.Stmt) {
	for k := 0; k < len(*list); k++ {
		s := (*list)[k]
		if ds, ok := s.(*ast.DeclStmt); ok {
			if gd, ok := ds.Decl.(*ast.GenDecl); ok && gd.Tok == token.CONST && d.localConst(gd, (*list)[k+1:]) {
				// the declaration stays (the literal lists of Facts.lean count it); the translator skips it
				desugaredConsts[gd] = true
				continue
			}
		}
		if as, ok := s.(*ast.AssignStmt); ok {
			if repl := d.elemPointer(as, (*list)[k+1:]); repl != nil {
				(*list)[k] = repl
				continue
			}
		}
	}
	for _, s := range *list {
		d.nested(s)
	}
}

func (d *desugarer) nested(s ast.Stmt) {
	switch x := s.(type) {
	case *ast.BlockStmt:
		d.block(&x.List)
	case *ast.IfStmt:
		d.block(&x.Body.List)
		if x.Else != nil {
			d.nested(x.Else)
		}
	case *ast.ForStmt:
		d.block(&x.Body.List)
	case *ast.RangeStmt:
		d.block(&x.Body.List)
	case *ast.LabeledStmt:
		d.nested(x.Stmt)
	case *ast.SwitchStmt:
		for _, cc := range x.Body.List {
			d.block(&cc.(*ast.CaseClause).Body)
		}
	case *ast.TypeSwitchStmt:
		for _, cc := range x.Body.List {
			d.block(&cc.(*ast.CaseClause).Body)
		}
	case *ast.SelectStmt:
		for _, cc := range x.Body.List {
			d.block(&cc.(*ast.CommClause).Body)
		}
	}
}

// localConst: see the header.  rest are the statements of the block after the declaration.
func (d *desugarer) localConst(gd *ast.GenDecl, rest []ast.Stmt) bool {
	counts := declCounts(d.fd)
	type sub struct {
		name string
		val  ast.Expr
	}
	var subs []sub
	own := map[string]bool{}
	for _, sp := range gd.Specs {
		vs := sp.(*ast.ValueSpec)
		if len(vs.Values) != len(vs.Names) {
			return false // implicit repetition (iota)
		}
		for i, n := range vs.Names {
			if n.Name == "_" || counts[n.Name] != 1 {
				return false
			}
			ids := map[string]bool{}
			identsOf(vs.Values[i], ids)
			for id := range ids {
				if id == "iota" || (counts[id] != 0 && !own[id]) {
					return false
				}
			}
			v := cloneExpr(vs.Values[i])
			if v == nil {
				return false
			}
			// earlier constants of the same declaration
			holder := &ast.ParenExpr{X: v}
			for _, s := range subs {
				substIdent(holder, s.name, s.val)
			}
			v = holder.X
			var val ast.Expr = &ast.ParenExpr{Lparen: vs.Values[i].Pos(), X: v, Rparen: vs.Values[i].End()}
			if vs.Type != nil {
				tid, ok := vs.Type.(*ast.Ident)
				if !ok || counts[tid.Name] != 0 {
					return false
				}
				val = &ast.CallExpr{Fun: &ast.Ident{NamePos: tid.NamePos, Name: tid.Name}, Lparen: vs.Values[i].Pos(), Args: []ast.Expr{v}, Rparen: vs.Values[i].End()}
			}
			subs = append(subs, sub{n.Name, val})
			own[n.Name] = true
		}
	}
	for _, s := range rest {
		for _, sb := range subs {
			substIdent(s, sb.name, sb.val)
		}
	}
	return true
}

// substIdent replaces the identifier `name` in value positions by a copy of val (field names of
// selectors and the keys of composite literals are not value positions).
func substIdent(n ast.Node, name string, val ast.Expr) {
	var f func(e ast.Expr) (ast.Expr, bool)
	f = func(e ast.Expr) (ast.Expr, bool) {
		switch x := e.(type) {
		case *ast.Ident:
			if x.Name == name {
				return cloneExpr(val), true
			}
		case *ast.KeyValueExpr:
			if _, isId := x.Key.(*ast.Ident); isId {
				holder := &ast.ParenExpr{X: x.Value}
				rewriteExprs(holder, f)
				x.Value = holder.X
				return x, true
			}
		}
		return nil, false
	}
	rewriteExprs(n, f)
}

// elemPointer: `p := &X[i]`, see the header.  Returns the replacement of the statement, or nil.
func (d *desugarer) elemPointer(as *ast.AssignStmt, rest []ast.Stmt) ast.Stmt {
	if as.Tok != token.DEFINE || len(as.Lhs) != 1 || len(as.Rhs) != 1 {
		return nil
	}
	p, ok := as.Lhs[0].(*ast.Ident)
	if !ok || p.Name == "_" {
		return nil
	}
	ue, ok := as.Rhs[0].(*ast.UnaryExpr)
	if !ok || ue.Op != token.AND {
		return nil
	}
	ix, ok := ue.X.(*ast.IndexExpr)
	if !ok {
		return nil
	}
	hdr := pathOf(ix.X)
	if hdr == nil || !pureIndex(ix.Index) || cloneExpr(ix) == nil {
		return nil
	}
	if declCounts(d.fd)[p.Name] != 1 {
		return nil
	}
	vars := map[string]bool{hdr[0]: true}
	identsOf(ix.Index, vars)
	if vars[p.Name] {
		return nil
	}
	// p only as *p and p.f
	total, good := 0, 0
	for _, s := range rest {
		ast.Inspect(s, func(n ast.Node) bool {
			switch x := n.(type) {
			case *ast.Ident:
				if x.Name == p.Name {
					total++
				}
			case *ast.StarExpr:
				if id, ok := x.X.(*ast.Ident); ok && id.Name == p.Name {
					good++
				}
			case *ast.SelectorExpr:
				if id, ok := x.X.(*ast.Ident); ok && id.Name == p.Name {
					good++
				}
			}
			return true
		})
	}
	if total != good || !stableIn(rest, vars, hdr) {
		return nil
	}
	for _, s := range rest {
		rewriteExprs(s, func(e ast.Expr) (ast.Expr, bool) {
			switch x := e.(type) {
			case *ast.StarExpr:
				if id, ok := x.X.(*ast.Ident); ok && id.Name == p.Name {
					return cloneExpr(ix), true
				}
			case *ast.SelectorExpr:
				if id, ok := x.X.(*ast.Ident); ok && id.Name == p.Name {
					return &ast.SelectorExpr{X: cloneExpr(ix), Sel: x.Sel}, true
				}
			}
			return nil, false
		})
	}
	return &ast.AssignStmt{Lhs: []ast.Expr{&ast.Ident{NamePos: p.NamePos, Name: "_"}}, TokPos: as.TokPos, Tok: token.ASSIGN, Rhs: []ast.Expr{ix}}
}

// loops rewrites the counting loops below n (innermost first).
func (d *desugarer) loops(n ast.Node) {
	var fix func(s *ast.Stmt)
	var list func(l []ast.Stmt)
	list = func(l []ast.Stmt) {
		for i := range l {
			fix(&l[i])
		}
	}
	fix = func(sp *ast.Stmt) {
		switch x := (*sp).(type) {
		case *ast.BlockStmt:
			list(x.List)
		case *ast.IfStmt:
			list(x.Body.List)
			if x.Else != nil {
				fix(&x.Else)
			}
		case *ast.LabeledStmt:
			fix(&x.Stmt)
		case *ast.RangeStmt:
			list(x.Body.List)
		case *ast.SwitchStmt:
			for _, cc := range x.Body.List {
				list(cc.(*ast.CaseClause).Body)
			}
		case *ast.ForStmt:
			list(x.Body.List)
			if r := countingLoop(x); r != nil {
				*sp = r
			}
		}
	}
	if b, ok := n.(*ast.BlockStmt); ok {
		list(b.List)
	}
}

// countingLoop: `for i := 0; i < len(P); i++ { … }` ↦ `for i := range P { … }`, see the header.
func countingLoop(x *ast.ForStmt) ast.Stmt {
	init, ok := x.Init.(*ast.AssignStmt)
	if !ok || init.Tok != token.DEFINE || len(init.Lhs) != 1 || len(init.Rhs) != 1 {
		return nil
	}
	i, ok := init.Lhs[0].(*ast.Ident)
	if !ok || i.Name == "_" {
		return nil
	}
	if lit, ok := init.Rhs[0].(*ast.BasicLit); !ok || lit.Kind != token.INT || lit.Value != "0" {
		return nil
	}
	isI := func(e ast.Expr) bool {
		id, ok := e.(*ast.Ident)
		return ok && id.Name == i.Name
	}
	lenOf := func(e ast.Expr) ast.Expr {
		call, ok := e.(*ast.CallExpr)
		if !ok || len(call.Args) != 1 {
			return nil
		}
		if id, ok := call.Fun.(*ast.Ident); !ok || id.Name != "len" {
			return nil
		}
		return call.Args[0]
	}
	cond, ok := x.Cond.(*ast.BinaryExpr)
	if !ok {
		return nil
	}
	var P ast.Expr
	switch {
	case cond.Op == token.LSS && isI(cond.X):
		P = lenOf(cond.Y)
	case cond.Op == token.GTR && isI(cond.Y):
		P = lenOf(cond.X)
	}
	if P == nil {
		return nil
	}
	hdr := pathOf(P)
	if hdr == nil || hdr[0] == i.Name || hdr[0] == "len" {
		return nil
	}
	switch post := x.Post.(type) {
	case *ast.IncDecStmt:
		if post.Tok != token.INC || !isI(post.X) {
			return nil
		}
	case *ast.AssignStmt:
		if post.Tok != token.ADD_ASSIGN || len(post.Lhs) != 1 || !isI(post.Lhs[0]) {
			return nil
		}
		if lit, ok := post.Rhs[0].(*ast.BasicLit); !ok || lit.Kind != token.INT || lit.Value != "1" {
			return nil
		}
	default:
		return nil
	}
	// `len` must be the builtin in the body's view as well; i and the header of P are stable
	if !stableIn(x.Body.List, map[string]bool{i.Name: true, hdr[0]: true, "len": true}, hdr) {
		return nil
	}
	return &ast.RangeStmt{For: x.For, Key: i, TokPos: init.TokPos, Tok: token.DEFINE, Range: x.For, X: P, Body: x.Body}
}
