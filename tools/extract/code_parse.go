// code_parse.go — sixth part of the translation (pilot): the PARSER LOOPS (hp.go: hashParser.Parse,
// bhp.go: backwardHashParser.Parse) on top of the fifth part (code_iface.go).  The topics of this
// file (topicsParse below) are topics of the fifth part (they are appended to topics5); what this
// file adds is available to every topic of the fifth part (phase5).  The hooks in the other files
// are marked "code_parse.go".
//
//	embedded chains        `hashParser` ⊃ `hashDictionary` ⊃ `ParserBuffer`, `hash`: a promoted field is found
//	                       at ANY depth (fieldPath, code.go) by Go's rule — the shallowest depth at which a
//	                       field of that name exists, unique there (otherwise refused as ambiguous);
//	                       `s.Data` ↦ `s.hashDictionary.ParserBuffer.Data`.
//	promoted methods       `s.processSegment(a, b)`, processSegment a method of the embedded hashDictionary,
//	                       is the call `s.hashDictionary.processSegment(a, b)` (promotedMethod, code.go; the
//	                       receiver expression is completed in calleeOf, code_slice.go; the mutation analysis
//	                       computeMutates, assignedOuter2 and the helper closure helperCallees follow it).
//	                       The earlier parts keep refusing it.
//	p == nil, p != nil     p a parameter or the receiver of POINTER type.  A pointer is modelled by the value
//	                       it points to: there is no nil pointer.  (SINCE code_nil.go the parser topics model the
//	                       pointer parameter `blk` of Parse as FLAG + VALUE instead — nilableTopics; what follows is
//	                       the older mechanism, still available, no topic uses it now.)  The comparison is REFUSED,
//	                       except in a
//	                       topic listed in ptrNonNilTopics, which ASSUMES that the pointer parameters of its
//	                       functions are not nil: `p == nil` ↦ False, `p != nil` ↦ True (the dead branch is
//	                       still translated: `if False then … else …`).  TRUSTED READING, stated in the doc
//	                       comment of every generated function that uses it: the translation says nothing
//	                       about calls with a nil pointer (Parse(nil, …) is modelled apart: Parser.parseNil).
//	x[:0], x[0:0] on a     a slice that an earlier part models as a LIST (`[]Seq` in Block') has no capacity;
//	list-valued slice      `x[:j]` panics iff j > cap(x) — for the CONSTANT 0 never: ↦ `[]`.  Every other
//	                       upper bound stays refused (fifth part).
//	x = append(x, e),      on a list-valued slice ↦ `x ++ [e]` / `x ++ ys`.  Faithful for the VALUE; which array
//	x = append(x, ys...)   holds the result (all that the capacity decides) cannot be observed where slices
//	                       are values — the convention of the second part for list-valued slices.
//	a ^ b                  on two values of the same UNSIGNED type ↦ `a ^^^ b`; on signed values refused.
//	switch len(P) { … }    the tag may be len(P) / cap(P) of a variable or field path (pure, cannot panic), so
//	                       that `getLE64` (bytes.go) is translated rather than trusted.
//	goto L, L in a nested  `match:` at the end of an if-block inside a loop.  `goto L` continues with the
//	block                  statements from L to the end of L's statement list and then with the continuation
//	                       of that list (blockLabel, blockGotoK); from inside a loop opened within the list
//	                       the loop function returns an exit code and the dispatch after the loop call
//	                       continues at L (the mechanism of the second part for labels of the function
//	                       body).  Only forward jumps.  An `if` whose gotos all stay inside the if statement
//	                       is translated as a JOIN (hasJumpX) instead of duplicating the statements after it.
//	local slice aliases    `p := s.Data[:s.W+n]`, `_p := s.Data[:inputEnd+7]`, `r := p[j+8:]`: in Go these share
//	                       the array of s.Data; in the model they are independent values.  The two agree as
//	                       long as no element of the shared array is written while an alias is live.
//	                       ENFORCED (noteSliceAlias / checkAliasWrite): from the aliasing statement on (from
//	                       the outermost enclosing loop on, if it is inside a loop), every operation that
//	                       writes elements through the alias or its source — element assignment, copy into
//	                       it, append to it (may write in place), passing it to a callee / interface method
//	                       that writes that argument, a mutating method on a struct that contains it — is
//	                       refused.  Re-slicing (`r = r[8:]`) and assignments to OTHER fields (`s.W = i`,
//	                       `s.table[h] = …`) are fine.  The aliases found by the probing pass are handed to
//	                       the emitting pass (fnSig.aliases), so the order of statements inside a loop does
//	                       not matter.  (The second part left this to the review by hand.)
//	                       A MUTATING METHOD on a struct that contains an aliased slice is judged by its
//	                       ELEMENT-WRITE FOOTPRINT (elemFootprint below): the receiver-relative field paths of
//	                       the slices whose elements the method — and the methods it calls — may write
//	                       (`X[i] = …`, `X[i]++`, copy into / clear of / append to X, X handed to a function
//	                       that writes that parameter).  `s.rehash(_p, a, b)`, which only writes
//	                       `s.hash.table[…]`, is accepted although `_p` shares the array of `s.….Data`: the
//	                       method gets the receiver and `_p` as independent values and Go computes the same
//	                       as long as it writes no element of Data.  When the footprint cannot be determined
//	                       syntactically (writes through something that is not a field path of the receiver,
//	                       interface calls, closures, …) the whole receiver counts as written, as before.
//	                       Assignments to fields as a whole (`s.W = i`, `s.Data = s.Data[:n]`) write no
//	                       element of a shared array and are not part of the footprint.
//
// Nothing is opaque in HPParse: `_getLE64`, `getLE64`, `_getLE32` (bytes.go) are followed
// automatically and translated, INCLUDING their panics (`_ = p[7]`); `hashValue` is the function of
// topic Hash.  BHPParse keeps `lcs` as an opaque parameter (fourth part: a total function of the
// values of its arguments; `p, q = q, p` on its slice parameters is outside the subset).
//
// DHPParse (dhp.go) and BDHPParse (bdhp.go; `lcs` opaque) are topics of the same kind; their
// `doubleHashDictionary.processSegment` uses local pointer aliases `h1, h2 := &f.h1, &f.h2`, which are
// eliminated at source level (code_ptralias.go) before the translation.  bup.go (topic BUPParse) and
// parser_buffer.go ReadFrom (topic PBufReadFrom) are topics of the seventh part (code_lend.go: lent windows,
// view methods inlined at range statements, block-scoped read-only views, `if A && B` with a B that may
// panic, `&P` arguments); they are registered by the init function below, after the topics of this file.
//
// Nothing here is keyed on a function name; the per-topic data are topicsParse and ptrNonNilTopics.
package main

import (
	"go/ast"
	"go/token"
	"strings"
)

// topicsParse: the topics of this file; they are topics of the fifth part.
var topicsParse = []topic{
	{name: "HPParse", doc: "hp.go: hashParser.Parse (with hashDictionary.processSegment and _getLE64, _getLE32, getLE64 of bytes.go); ASSUMES blk != nil",
		fns: methods("hashParser", "Parse"), part2: true},
	{name: "BHPParse", doc: "bhp.go: backwardHashParser.Parse (lcs is an opaque parameter); ASSUMES blk != nil",
		fns: methods("backwardHashParser", "Parse"), opaque: []fnKey{{"", "lcs"}}, part2: true},
	{name: "DHPParse", doc: "dhp.go: doubleHashParser.Parse (with doubleHashDictionary.processSegment and _getLE64, _getLE32, getLE64 of bytes.go); ASSUMES blk != nil",
		fns: methods("doubleHashParser", "Parse"), part2: true},
	{name: "BDHPParse", doc: "bdhp.go: bdhp.Parse (lcs is an opaque parameter); ASSUMES blk != nil",
		fns: methods("bdhp", "Parse"), opaque: []fnKey{{"", "lcs"}}, part2: true},
}

func init() {
	for _, t := range append(append(append(append([]topic{}, topicsParse...), topicsLend...), topicsOpq...), topicsOsap...) { // code_lend.go, code_opq.go: their topics come last
		topics5 = append(topics5, t)
		part3Topics[t.name] = true
		part4Topics[t.name] = true
		part5Topics[t.name] = true
	}
}

// ptrNonNilTopics: the topics that ASSUME their pointer parameters are not nil (see the header).
// (The parser topics were listed here until code_nil.go; they are topics of nilableTopics now.)
var ptrNonNilTopics = map[string]bool{}

// ptrNilCompare: `p == nil` / `p != nil` (either order) where p is a parameter (or the receiver) of
// pointer type of the function being translated.  The value model has no nil pointers: outside a
// topic of ptrNonNilTopics the comparison is refused; inside, it is decided by the assumption.
func (c *codegen) ptrNilCompare(x *ast.BinaryExpr) (string, bool) {
	if x.Op != token.EQL && x.Op != token.NEQ || c.cur == nil || c.cur.ptrVars == nil {
		return "", false
	}
	isNil := func(e ast.Expr) bool {
		id, ok := e.(*ast.Ident)
		return ok && id.Name == "nil" && c.lookup("nil") == nil
	}
	var other ast.Expr
	switch {
	case isNil(x.Y):
		other = x.X
	case isNil(x.X):
		other = x.Y
	default:
		return "", false
	}
	for {
		pe, ok := other.(*ast.ParenExpr)
		if !ok {
			break
		}
		other = pe.X
	}
	id, ok := other.(*ast.Ident)
	if !ok {
		return "", false
	}
	v := c.lookup(id.Name)
	if r, ok := c.nilCompare(x, v); ok { // code_nil.go: a nilable parameter (flag + value); before the ptrVars test (pointer identity)
		return r, true
	}
	if v == nil || !c.cur.ptrVars[v] {
		return "", false
	}
	if !c.ptrNonNil {
		c.fail(x, "comparison of the pointer %s with nil (pointers are modelled by the value they point to; only a topic that assumes non-nil pointer parameters decides it)", id.Name)
	}
	seen := false
	for _, n := range c.cur.nonNilUsed {
		seen = seen || n == id.Name
	}
	if !seen {
		c.cur.nonNilUsed = append(c.cur.nonNilUsed, id.Name)
	}
	if x.Op == token.EQL {
		return "False", true
	}
	return "True", true
}

// constZero: e is a constant expression with the value 0.
func (c *codegen) constZero(e ast.Expr) bool {
	if e == nil {
		return false
	}
	v, _, ok := c.cfold(e)
	return ok && v.ExactString() == "0"
}

// ---------------------------------------------------------------- goto into the rest of a nested block

// blockLabel: a label on a statement of a statement list that is NOT the function body (`match:` at
// the end of an if-block inside a loop).  `goto L` continues with the statements from the label
// to the end of that list, then with the continuation of the list.
type blockLabel struct {
	stmts []ast.Stmt // from the labelled statement to the end of its list
	k     cont       // the continuation of the list
	depth int        // number of scopes open in the list
	loops int        // number of loops open around the list
}

// noteBlockLabels registers the labels of the list that is about to be translated (seq calls it
// for every tail of the list: the entries for the labels still ahead are simply renewed).  Labels
// of loops (`L: for …`, used by break L / continue L) and labels of the function body (second
// part: c.cur.labels) are not ours.
func (c *codegen) noteBlockLabels(list []ast.Stmt, k cont) {
	for i, s := range list {
		ls, ok := s.(*ast.LabeledStmt)
		if !ok {
			continue
		}
		if _, fnLevel := c.cur.labels[ls.Label.Name]; fnLevel {
			continue
		}
		switch ls.Stmt.(type) {
		case *ast.ForStmt, *ast.RangeStmt:
			continue
		}
		if c.cur.blockLabels == nil {
			c.cur.blockLabels = map[string]*blockLabel{}
		}
		c.cur.blockLabels[ls.Label.Name] = &blockLabel{stmts: list[i:], k: k, depth: len(c.cur.scopes), loops: len(c.cur.loops)}
	}
}

// blockGotoK: the continuation of `goto L`, L a blockLabel.  Go guarantees that the goto is inside
// the block of L and does not jump over a variable declaration, so every variable visible at L is
// visible at the goto (and has kept its Lean name).  Only forward jumps.  From inside a loop that
// was opened in the list of L the loop function is left with an exit code; the statement that
// called the loop function dispatches on the code and calls gotoK again, one loop further out.
func (c *codegen) blockGotoK(bl *blockLabel, label string, at ast.Node) []string {
	if bl.stmts[0].Pos() <= at.Pos() {
		c.fail(at, "goto %s: backward jump", label)
	}
	if n := len(c.cur.loops); n > bl.loops {
		l := c.cur.loops[n-1]
		for i, e := range l.escapes {
			if e == label {
				return l.exitK(i + 1)
			}
		}
		l.escapes = append(l.escapes, label)
		return l.exitK(len(l.escapes))
	}
	if len(c.cur.scopes) < bl.depth || len(c.cur.loops) != bl.loops {
		c.fail(at, "goto %s: the label is not in an enclosing block", label)
	}
	saved := c.cur.scopes
	c.cur.scopes = c.snapshotScopes()[:bl.depth]
	defer func() { c.cur.scopes = saved }()
	return c.seq(bl.stmts, bl.k)
}

// appendList: `x = append(x, e)` / `x = append(x, ys...)` on a slice that an earlier part models as
// a LIST (no capacity: the `[]Seq` field of Block).  The VALUE of the result is old ++ new whatever
// the capacity is; which array holds it (the only thing the capacity decides) is not observable
// in a model where slices are values (the convention of the second part for list-valued slices).
func (c *codegen) appendList(x *ast.CallExpr, a string, at gtype) (string, gtype) {
	if x.Ellipsis != token.NoPos {
		b, bt := c.expr(x.Args[1], at, false)
		if !bt.eq(at) {
			c.fail(x, "append of %s... to %s", bt, at)
		}
		return paren(a) + " ++ " + paren(b), at
	}
	b, bt := c.expr(x.Args[1], *at.elem, false)
	if !bt.eq(*at.elem) {
		c.fail(x, "append of an element of type %s to %s", bt, at)
	}
	return paren(a) + " ++ [" + b + "]", at
}

// ---------------------------------------------------------------- local aliases of slices: read-only

// sliceAlias: the statement `D = S…` made the slice variable / field path D (root dRoot, path dPath)
// share its array with S (root sRoot, path sPath): S is a variable or field path, possibly
// re-sliced (`p := s.Data[:n]`, `r := p[j+8:]`, `q = data`).  In the value model D and S are
// independent values; that is what Go computes as long as NO ELEMENT of the shared array is
// written while both are live.  pos: from where on in the source the alias exists (the statement;
// or the outermost loop around it — inside a loop "later" includes the statements before it).
type sliceAlias struct {
	dRoot string
	dPath []string
	sRoot string
	sPath []string
	pos   token.Pos
	end   token.Pos // code_lend.go: valid for a block-scoped view — the alias is dead from here on
}

func pathOverlap(a, b []string) bool {
	for i := 0; i < len(a) && i < len(b); i++ {
		if a[i] != b[i] {
			return false
		}
	}
	return true
}

// noteSliceAlias records the alias created by assigning rhs (of slice type t) to the variable /
// field path (v, p).  Re-slicing in place (`x = x[8:]`, same root and path) creates no second
// reference.  Everything that is not a (re-sliced) variable or field path — make, append, nil,
// composite literals, calls — yields a fresh value (append is `x = append(x, …)` only).
func (c *codegen) noteSliceAlias(v *varInfo, p []string, t gtype, rhs ast.Expr, at ast.Node) {
	c.noteSliceAliasScoped(v, p, t, rhs, at, nil)
}

// noteViewAlias (code_lend.go): the alias of a range-only variable lives from its define to the end
// of the enclosing block.
func (c *codegen) noteViewAlias(v *varInfo, t gtype, rhs ast.Expr, at ast.Node, vi *viewInfo) {
	c.noteSliceAliasScoped(v, nil, t, rhs, at, vi)
}

func (c *codegen) noteSliceAliasScoped(v *varInfo, p []string, t gtype, rhs ast.Expr, at ast.Node, vi *viewInfo) {
	if !c.phase5 || (t.kind != kBytes && t.kind != kGSlice) {
		return
	}
	e := rhs
	for {
		switch x := e.(type) {
		case *ast.ParenExpr:
			e = x.X
			continue
		case *ast.SliceExpr:
			e = x.X
			continue
		}
		break
	}
	switch e.(type) {
	case *ast.Ident, *ast.SelectorExpr:
	default:
		return
	}
	if id, ok := e.(*ast.Ident); ok && c.lookup(id.Name) == nil {
		return // nil
	}
	if rootIdent(e) == nil || indexOf(e) != nil || c.lookup(rootIdent(e).Name) == nil {
		return
	}
	sv, sp := c.path(e)
	if sv == nil || (sv.lean == v.lean && len(sp) == len(p) && pathOverlap(sp, p)) {
		return
	}
	pos := at.Pos()
	var end token.Pos
	if vi != nil {
		end = vi.end // block-scoped: from the define to the end of the declaring block, whatever loops enclose it
	} else if len(c.cur.loops) > 0 && c.cur.loops[0].pos.IsValid() && c.cur.loops[0].pos < pos {
		pos = c.cur.loops[0].pos
	}
	for _, a := range c.cur.sig.aliases {
		if a.end != end {
			continue
		}
		if a.dRoot == v.lean && a.sRoot == sv.lean && len(a.dPath) == len(p) && pathOverlap(a.dPath, p) &&
			len(a.sPath) == len(sp) && pathOverlap(a.sPath, sp) && a.pos <= pos {
			return
		}
	}
	c.cur.sig.aliases = append(c.cur.sig.aliases, sliceAlias{v.lean, append([]string{}, p...), sv.lean, append([]string{}, sp...), pos, end})
}

// checkAliasWrite: an operation that writes elements of (v, p) — element assignment, copy into,
// append (which may write in place), handing it to a callee that writes it, a mutating method on
// it or on a struct that contains it — is refused when (v, p) overlaps a recorded alias or its
// source from the alias's position on.
func (c *codegen) checkAliasWrite(v *varInfo, p []string, at ast.Node, what string) {
	if !c.phase5 || v == nil || c.cur == nil || c.cur.sig == nil {
		return
	}
	for _, a := range c.cur.sig.aliases {
		if at.Pos() < a.pos || (a.end.IsValid() && at.Pos() >= a.end) {
			continue
		}
		if (v.lean == a.dRoot && pathOverlap(p, a.dPath)) || (v.lean == a.sRoot && pathOverlap(p, a.sPath)) {
			name := func(r string, fs []string) string {
				for _, f := range fs {
					r += "." + f
				}
				return r
			}
			c.fail(at, "%s %s while the slices %s and %s share an array (slices are values in the model: a write through one of two live aliases is not expressible)",
				what, name(v.lean, p), name(a.dRoot, a.dPath), name(a.sRoot, a.sPath))
		}
	}
}

// pureLenTag: the switch tag is len(P) / cap(P), P a variable or field path — free of effects and
// of panics, so evaluating it once (Go) or once per case (the if-chain the switch is turned into)
// is the same.
func (c *codegen) pureLenTag(e ast.Expr) bool {
	call, ok := e.(*ast.CallExpr)
	if !ok || len(call.Args) != 1 || !(isBuiltin(call, "len") || isBuiltin(call, "cap")) {
		return false
	}
	id := call.Fun.(*ast.Ident)
	return c.lookup(id.Name) == nil && rootIdent(call.Args[0]) != nil && indexOf(call.Args[0]) == nil
}

// ---------------------------------------------------------------- element-write footprint of a mutating method

// rawFieldPath resolves the selector .f on the struct (Go name) t by Go's rule — shallowest depth of
// embedding, unique there — on the declarations alone: the path of field names (an embedded struct is
// named by its type) and the Go spelling of the field's type; nil if there is no such field or it is
// ambiguous.
func (c *codegen) rawFieldPath(t, f string) ([]string, string) {
	type level struct {
		name string
		path []string
	}
	cur := []level{{t, nil}}
	for depth := 0; depth < 20 && len(cur) > 0; depth++ {
		var found []string
		typ := ""
		n := 0
		var next []level
		for _, l := range cur {
			for _, sf := range c.structs[l.name] {
				if sf.name == f || (sf.name == "" && sf.typ == f) {
					found, typ = append(append([]string{}, l.path...), f), sf.typ
					n++
				}
				if sf.name == "" {
					if _, ok := c.structs[sf.typ]; ok {
						next = append(next, level{sf.typ, append(append([]string{}, l.path...), sf.typ)})
					}
				}
			}
		}
		if n > 1 {
			return nil, ""
		}
		if n == 1 {
			return found, typ
		}
		cur = next
	}
	return nil, ""
}

// recvRelPath: e is a pure field path `r.a.b` on the receiver variable r of a method of struct t ↦ the
// resolved path (promoted fields spelled out) and the Go spelling of its type; ok = false for anything
// else (indices, dereferences, pointer-typed fields on the way, unknown fields).
func (c *codegen) recvRelPath(e ast.Expr, r, t string) (path []string, typ string, ok bool) {
	comps := pathOf(e)
	if comps == nil || comps[0] != r {
		return nil, "", false
	}
	typ = t
	for _, f := range comps[1:] {
		if _, isStruct := c.structs[typ]; !isStruct {
			return nil, "", false
		}
		p, nt := c.rawFieldPath(typ, f)
		if p == nil {
			return nil, "", false
		}
		path = append(path, p...)
		typ = nt
	}
	return path, typ, true
}

// elemFootprint: the receiver-relative paths of the slices whose elements the method k may write, see the
// header; ok = false when it cannot be determined (then the whole receiver counts as written).
func (c *codegen) elemFootprint(k fnKey) (paths [][]string, ok bool) {
	if c.footprints == nil {
		c.footprints = map[fnKey]*footprint{}
	}
	if fp := c.footprints[k]; fp != nil {
		return fp.paths, fp.ok && !fp.busy
	}
	fp := &footprint{busy: true}
	c.footprints[k] = fp
	fp.paths, fp.ok = c.elemFootprint1(k)
	fp.busy = false
	return fp.paths, fp.ok
}

type footprint struct {
	paths [][]string
	ok    bool
	busy  bool // recursion: unknown
}

func (c *codegen) elemFootprint1(k fnKey) ([][]string, bool) {
	fd := c.fns[k]
	if fd == nil || fd.Body == nil || fd.Recv == nil || len(fd.Recv.List) != 1 || len(fd.Recv.List[0].Names) != 1 {
		return nil, false
	}
	r := fd.Recv.List[0].Names[0].Name
	if r == "_" {
		return nil, true
	}
	params := map[string]bool{}
	if fd.Type.Params != nil {
		for _, f := range fd.Type.Params.List {
			for _, id := range f.Names {
				params[id.Name] = true
			}
		}
	}
	if declCounts(fd)[r] != 1 {
		return nil, false // the receiver name is shadowed somewhere
	}
	var out [][]string
	good := true
	// target of an element-writing operation: the slice expression X (re-slicings stripped)
	written := func(x ast.Expr) {
		for {
			switch y := x.(type) {
			case *ast.ParenExpr:
				x = y.X
				continue
			case *ast.SliceExpr:
				x = y.X
				continue
			}
			break
		}
		root := rootIdent(x)
		switch {
		case root == nil:
			good = false
		case root.Name == r:
			if p, _, ok := c.recvRelPath(x, r, k.recv); ok && len(p) > 0 {
				out = append(out, p)
			} else {
				good = false
			}
		case params[root.Name] && declCounts(fd)[root.Name] == 1 && pathOf(x) != nil && len(pathOf(x)) == 1:
			// a slice PARAMETER written by the method: the call site checks the argument (`out` parameters)
		default:
			good = false // a local variable: it may share an array with a field of the receiver
		}
	}
	elemTarget := func(l ast.Expr) {
		// l contains an index expression: the innermost one (closest to the root) selects the array written
		var ix *ast.IndexExpr
		e := l
		for e != nil {
			switch y := e.(type) {
			case *ast.ParenExpr:
				e = y.X
			case *ast.SelectorExpr:
				e = y.X
			case *ast.IndexExpr:
				ix = y
				e = y.X
			case *ast.Ident:
				e = nil
			default:
				good = false // dereference, call result, …
				e = nil
			}
		}
		if ix != nil {
			written(ix.X)
		}
	}
	ast.Inspect(fd.Body, func(n ast.Node) bool {
		if !good {
			return false
		}
		switch x := n.(type) {
		case *ast.FuncLit, *ast.GoStmt, *ast.DeferStmt:
			good = false
		case *ast.AssignStmt:
			if x.Tok == token.DEFINE {
				break
			}
			for _, l := range x.Lhs {
				if indexOf(l) != nil {
					elemTarget(l)
				} else if _, isStar := l.(*ast.StarExpr); isStar {
					if id := rootIdent(l); id == nil || id.Name != r || len(pathOf(l.(*ast.StarExpr).X)) != 1 {
						good = false // `*p = …` for a p other than the receiver itself
					}
				}
			}
		case *ast.IncDecStmt:
			if indexOf(x.X) != nil {
				elemTarget(x.X)
			}
		case *ast.RangeStmt:
			if x.Tok == token.ASSIGN {
				for _, l := range []ast.Expr{x.Key, x.Value} {
					if l != nil && indexOf(l) != nil {
						elemTarget(l)
					}
				}
			}
		case *ast.CallExpr:
			switch f := x.Fun.(type) {
			case *ast.Ident:
				if c.fns[fnKey{"", f.Name}] == nil {
					switch f.Name {
					case "copy", "clear", "append":
						if len(x.Args) > 0 {
							if ix, isIx := stripParens(x.Args[0]).(*ast.IndexExpr); isIx && f.Name == "append" {
								written(ix.X) // code_cblift.go: `X[i] = append(X[i], e)` writes (a window that is the value of) an element of X
							} else {
								written(x.Args[0])
							}
						}
					}
					break
				}
				hd := c.fns[fnKey{"", f.Name}]
				if ri := c.reflOf(f.Name); ri != nil && ri.setter {
					good = false
					break
				}
				for i, a := range x.Args {
					if c.writesParam(hd, i, 0) {
						written(a)
					}
				}
			case *ast.SelectorExpr:
				root := rootIdent(f.X)
				if root == nil {
					good = false
					break
				}
				if c.fns[fnKey{"", root.Name}] == nil && declCounts(fd)[root.Name] == 0 && root.Name != r && pathOf(f.X) != nil && len(pathOf(f.X)) == 1 {
					break // a function of an imported package (bits.TrailingZeros64): writes nothing of ours
				}
				if root.Name != r {
					// a method on a parameter or local: harmless only if no method of that name mutates anything
					for h := range c.fns {
						if h.recv != "" && h.name == f.Sel.Name && c.mutates[h] {
							good = false
						}
					}
					break
				}
				p, typ, ok := c.recvRelPath(f.X, r, k.recv)
				if !ok {
					good = false
					break
				}
				typ = strings.TrimPrefix(typ, "*")
				if len(p) == 0 {
					typ = k.recv
				}
				h := fnKey{typ, f.Sel.Name}
				if c.fns[h] == nil {
					pp := c.promotedMethod(typ, f.Sel.Name, x)
					if pp == nil {
						good = false // an interface method, a function-valued field, …
						break
					}
					p = append(append([]string{}, p...), pp...)
					h = fnKey{pp[len(pp)-1], f.Sel.Name}
				}
				if !c.mutates[h] {
					break
				}
				sub, ok := c.elemFootprint(h)
				if !ok {
					good = false
					break
				}
				for _, q := range sub {
					out = append(out, append(append([]string{}, p...), q...))
				}
			default:
				good = false
			}
		}
		return good
	})
	if !good {
		return nil, false
	}
	return out, true
}
