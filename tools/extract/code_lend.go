// code_lend.go — seventh part of the translation: what parser_buffer.go `ParserBuffer.ReadFrom`
// and bup.go / bucket_hash.go (the bucket parser) need on top of the sixth part (code_parse.go).
// The topics of this file (topicsLend below) are topics of the fifth part; the constructs are
// available to every topic of the fifth part (phase5).  The hooks in the other files are marked
// "code_lend.go".  Nothing here is keyed on a function, type or variable name of the repository.
//
//	lent window            `p := S[lo:hi]` … `k, err = X.M(…, p, …)`, X.M a method of an INTERFACE value that may
//	                       write its slice argument (io.Reader.Read).  In Go p shares the array of S, and the
//	                       callee fills p; in the model slices are values.  The alias rule of the sixth part
//	                       (noteSliceAlias / checkAliasWrite) refuses a write through one of two live aliases.
//	                       The LOAN is the one case in which the write is expressible: p exists only to
//	                       be handed to the callee.  Conditions (all syntactic, lendCands):
//	                         (L1) the define is a statement of a statement list, one new variable p on the
//	                              left, one slice expression on the right whose operand S is a variable or
//	                              field path (no index step); the name p is declared only there in the
//	                              function; the function contains no function literal;
//	                         (L2) p occurs exactly ONCE more in the whole function: as a complete argument
//	                              of a method call X.M(…) that IS a later statement of the same list (an
//	                              expression statement, or the only right side of an assignment);
//	                         (L3) neither the statements in between nor the call statement mention the
//	                              root variable of S (so header and elements of S are what they were at
//	                              the define when the callee runs, and the receiver X and the other
//	                              arguments are not parts of S);
//	                       and, checked when the call is translated: X is an interface value and the
//	                       argument position is IN-OUT (code_iface.go).  Then during the call p is the only
//	                       way to reach the window (TRUSTED READING of the fifth part: the callee has no
//	                       other reference and retains nothing), and after the call p is dead, so S is
//	                       again the only reference.  Translation: the call is translated as every
//	                       interface method call (p is rebound to the slice the callee hands back), and
//	                       then the window is WRITTEN BACK:
//	                           S := Slice.writeBack S p         (sixth prelude, CodeLendPrelude.lean)
//	                       — the array of S from position cap(S) − cap(p) on is replaced by the array of p
//	                       (Go: cap(S[lo:hi]) = cap(S) − lo, so that position is lo); len(S) is unchanged.
//	                       The root of S counts as assigned by the call (loop state, out parameter).
//	                       If a condition fails nothing changes: the alias is recorded and the call is
//	                       refused as before.
//
//	                       The same loan WITHOUT a name: `k, err = X.M(…, S[lo:hi], …)` — the in-out argument
//	                       is itself a slice expression of a variable or field path S of type []byte (no
//	                       index step, no 3-index slice).  The value of the slice expression is computed
//	                       before the call as for every argument, handed to the callee, and what comes back
//	                       is written back into S in the same way; nobody else can name the window.  S must
//	                       be disjoint from the receiver and the other in-out arguments, and must have no
//	                       live alias (checkAliasWrite).
//
// The constructs for the bucket parser are described further down (section "bucket parser").
package main

import (
	"go/ast"
	"go/token"
	"strings"
)

// topicsLend: the topics of this file; they are topics of the fifth part.
var topicsLend = []topic{
	{name: "PBufReadFrom", doc: "parser_buffer.go: ParserBuffer.ReadFrom (the io.Reader is an abstract state, r.Read an opaque state-passing parameter; the window b.Data[len:end] is LENT to it and written back)",
		fns: methods("ParserBuffer", "ReadFrom"), part2: true},
	{name: "BUPParse", doc: "bup.go: bucketParser.Parse (with bucketDictionary.processSegment, bucketHash.add, bucketHash.bucket as a read-only view; lcp is an opaque parameter); ASSUMES blk != nil",
		fns: methods("bucketParser", "Parse"), opaque: []fnKey{{"", "lcp"}}, part2: true},
	{name: "BucketInit", doc: "bucket_hash.go: bucketHash.init, bucketDictionary.init; bup.go: bucketParser.init",
		fns: cat(methods("bucketHash", "init"), methods("bucketDictionary", "init"), methods("bucketParser", "init")), part2: true, refl: true},
}

// (They are registered by the init function of code_parse.go, AFTER the topics of the sixth part: a
// function is emitted by the first topic that needs it, so the order decides which module owns the
// helpers of bytes.go — the existing modules must not change.)

// ---------------------------------------------------------------- lent windows

type lendCand struct {
	name   string          // p
	define *ast.AssignStmt // p := S[lo:hi]
	src    ast.Expr        // S
	call   *ast.CallExpr   // X.M(…, p, …)
	arg    int             // the position of p
}

// lendCands: the syntactic candidates (L1)–(L3) of a function, by the name of the lent variable.
func (c *codegen) lendCands(fd *ast.FuncDecl) map[string]*lendCand {
	if c.lendCache == nil {
		c.lendCache = map[*ast.FuncDecl]map[string]*lendCand{}
	}
	if m, ok := c.lendCache[fd]; ok {
		return m
	}
	m := map[string]*lendCand{}
	c.lendCache[fd] = m
	if fd.Body == nil {
		return m
	}
	closure := false
	decls := map[string]int{}
	uses := map[string]int{}
	ast.Inspect(fd, func(n ast.Node) bool {
		switch x := n.(type) {
		case *ast.FuncLit:
			closure = true
		case *ast.Ident:
			uses[x.Name]++
		case *ast.AssignStmt:
			if x.Tok == token.DEFINE {
				for _, l := range x.Lhs {
					if id, ok := l.(*ast.Ident); ok {
						decls[id.Name]++
					}
				}
			}
		case *ast.ValueSpec:
			for _, id := range x.Names {
				decls[id.Name]++
			}
		case *ast.Field:
			for _, id := range x.Names {
				decls[id.Name]++
			}
		case *ast.RangeStmt:
			if x.Tok == token.DEFINE {
				for _, e := range []ast.Expr{x.Key, x.Value} {
					if id, ok := e.(*ast.Ident); ok {
						decls[id.Name]++
					}
				}
			}
		case *ast.LabeledStmt:
			decls[x.Label.Name]++
		}
		return true
	})
	if closure {
		return m
	}
	mentions := func(n ast.Node, name string) bool {
		found := false
		ast.Inspect(n, func(n ast.Node) bool {
			if id, ok := n.(*ast.Ident); ok && id.Name == name {
				found = true
			}
			return !found
		})
		return found
	}
	var lists func(l []ast.Stmt)
	var visit func(s ast.Stmt)
	lists = func(l []ast.Stmt) {
		for i, s := range l {
			visit(s)
			as, ok := s.(*ast.AssignStmt)
			if !ok || as.Tok != token.DEFINE || len(as.Lhs) != 1 || len(as.Rhs) != 1 {
				continue
			}
			id, ok := as.Lhs[0].(*ast.Ident)
			se, ok2 := as.Rhs[0].(*ast.SliceExpr)
			if !ok || !ok2 || id.Name == "_" || se.Slice3 || decls[id.Name] != 1 || uses[id.Name] != 2 {
				continue
			}
			root := rootIdent(se.X)
			if root == nil || indexOf(se.X) != nil || root.Name == id.Name {
				continue
			}
			switch se.X.(type) {
			case *ast.Ident, *ast.SelectorExpr:
			default:
				continue
			}
			if mentions(se, id.Name) {
				continue
			}
			for j := i + 1; j < len(l); j++ {
				if !mentions(l[j], id.Name) {
					if mentions(l[j], root.Name) {
						break
					}
					continue
				}
				var call *ast.CallExpr
				switch y := l[j].(type) {
				case *ast.ExprStmt:
					call, _ = y.X.(*ast.CallExpr)
				case *ast.AssignStmt:
					if len(y.Rhs) == 1 {
						call, _ = y.Rhs[0].(*ast.CallExpr)
					}
				}
				if call == nil || mentions(l[j], root.Name) {
					break
				}
				if _, isSel := call.Fun.(*ast.SelectorExpr); !isSel || call.Ellipsis.IsValid() {
					break
				}
				for ai, a := range call.Args {
					if aid, ok := a.(*ast.Ident); ok && aid.Name == id.Name {
						m[id.Name] = &lendCand{name: id.Name, define: as, src: se.X, call: call, arg: ai}
					}
				}
				break
			}
		}
	}
	visit = func(s ast.Stmt) {
		switch x := s.(type) {
		case *ast.BlockStmt:
			lists(x.List)
		case *ast.IfStmt:
			lists(x.Body.List)
			if x.Else != nil {
				visit(x.Else)
			}
		case *ast.ForStmt:
			lists(x.Body.List)
		case *ast.RangeStmt:
			lists(x.Body.List)
		case *ast.LabeledStmt:
			visit(x.Stmt)
		case *ast.SwitchStmt:
			for _, cc := range x.Body.List {
				lists(cc.(*ast.CaseClause).Body)
			}
		}
	}
	lists(fd.Body.List)
	return m
}

// lentArg: argument i of the interface method call x (in-out position, checked by the caller) is a
// lent window; the candidate is returned.
func (c *codegen) lentArg(x *ast.CallExpr, i int) *lendCand {
	if !c.phase5 || c.cur == nil || c.cur.fd == nil || i >= len(x.Args) {
		return nil
	}
	id, ok := x.Args[i].(*ast.Ident)
	if !ok {
		return nil
	}
	lc := c.lendCands(c.cur.fd)[id.Name]
	if lc == nil || lc.call != x || lc.arg != i {
		return nil
	}
	return lc
}

// lendDefine: the define statement `at` creates a lent window (the candidate's call is an interface
// method call whose argument position is in-out): no alias is recorded for it.
func (c *codegen) lendDefine(name string, at ast.Node) bool {
	if !c.phase5 || c.cur == nil || c.cur.fd == nil {
		return false
	}
	lc := c.lendCands(c.cur.fd)[name]
	if lc == nil || lc.define.Pos() != at.Pos() {
		return false
	}
	_, k, ok := c.ifaceCallee(lc.call)
	if !ok {
		return false
	}
	ps, inout, _ := c.imethType(k, lc.call)
	return lc.arg < len(ps) && inout[lc.arg] && (ps[lc.arg].kind == kBytes)
}

// anonLend: the in-out argument a (parameter type t) of an interface method call is an anonymous lent
// window `S[lo:hi]`; S is returned (nil otherwise).
func (c *codegen) anonLend(a ast.Expr, t gtype) ast.Expr {
	if !c.phase5 || t.kind != kBytes {
		return nil
	}
	se, ok := a.(*ast.SliceExpr)
	if !ok || se.Slice3 || pathOf(se.X) == nil {
		return nil
	}
	id := rootIdent(se.X)
	if id == nil || c.lookup(id.Name) == nil {
		return nil
	}
	v, p := c.path(se.X)
	if c.pathType(v, p, a).kind != kBytes {
		return nil
	}
	return se.X
}

// lendWriteBack: the lines that write the window p (Lean value pLean, after the call) back into
// its source S, and the root of S.
func (c *codegen) lendWriteBack(lc *lendCand, pLean string, at ast.Node) (line string, root string) {
	v, p := c.path(lc.src)
	t := c.pathType(v, p, at)
	if t.kind != kBytes {
		c.fail(at, "lent window of a slice of type %s (only []byte)", t)
	}
	c.checkRangeTarget(v, p, at)
	cur, _ := c.expr(lc.src, gtype{}, false)
	return "let " + v.lean + " : " + v.typ.lean() + " := " + update(v.lean, p, "Slice.writeBack "+paren(cur)+" "+pLean), rootIdent(lc.src).Name
}

// ---------------------------------------------------------------- sixth prelude

const lendPreludeName = "CodeLendPrelude"

func leanPrelude6() string {
	var sb strings.Builder
	sb.WriteString("/-! ### sixth prelude: a window of a byte slice lent to a callee -/\n")
	sb.WriteString(`
/-- ` + "`p := s[lo:hi]`" + ` was handed to a callee that may write it and came back as ` + "`p`" + `: the array of ` + "`s`" + ` from
    position ` + "`cap(s) - cap(p)`" + ` on (that is ` + "`lo`" + `: ` + "`cap(s[lo:hi]) = cap(s) - lo`" + `) is the array of ` + "`p`" + `; the length
    of ` + "`s`" + ` is unchanged -/
def Slice.writeBack (s p : Slice) : Slice :=
  { arr := s.arr.take (s.arr.length - p.arr.length) ++ p.arr, len := s.len }
`)
	return sb.String()
}

// ---------------------------------------------------------------- bucket parser: read-only views
//
//	read-only view         `v := S[lo:hi]` where v is a RANGE-ONLY variable: declared exactly once in the
//	                       function, by that define, and every other occurrence of v is the operand of a
//	                       range statement (`for _, e := range v`).  The third part refuses every copy of a
//	                       slice of structs (checkNoSliceAlias), the sixth part records an alias that lives
//	                       from the statement (or the outermost loop around it) to the end of the function.
//	                       For a range-only variable the alias is BLOCK-SCOPED: v cannot be mentioned outside
//	                       the block that declares it, a range statement copies ELEMENT VALUES (no further
//	                       reference arises), and every execution of the define creates a new v.  So v and S
//	                       are two live references exactly from the define to the end of the enclosing
//	                       block; in that stretch of the source every write to S or through v is refused
//	                       (checkAliasWrite), afterwards S is the only reference again (`s.add(…)` after the
//	                       bucket scan of bup.go).  Go reads the elements of v from the shared array at each
//	                       iteration; since nothing writes the array while v is live, the copy the value
//	                       model makes at the define has the same elements.

// viewInfo: where a range-only variable is declared and where its block ends.
type viewInfo struct {
	define token.Pos
	end    token.Pos
}

// rangeOnlyViews: the range-only variables of a function (see above), by name.
func (c *codegen) rangeOnlyViews(fd *ast.FuncDecl) map[string]*viewInfo {
	if c.viewCache == nil {
		c.viewCache = map[*ast.FuncDecl]map[string]*viewInfo{}
	}
	if m, ok := c.viewCache[fd]; ok {
		return m
	}
	m := map[string]*viewInfo{}
	c.viewCache[fd] = m
	if fd.Body == nil {
		return m
	}
	decls := map[string]int{}
	uses := map[string]int{}
	rangeUses := map[string]int{}
	closure := false
	ast.Inspect(fd, func(n ast.Node) bool {
		switch x := n.(type) {
		case *ast.FuncLit:
			closure = true
		case *ast.Ident:
			uses[x.Name]++
		case *ast.AssignStmt:
			if x.Tok == token.DEFINE {
				for _, l := range x.Lhs {
					if id, ok := l.(*ast.Ident); ok {
						decls[id.Name]++
					}
				}
			}
		case *ast.ValueSpec:
			for _, id := range x.Names {
				decls[id.Name]++
			}
		case *ast.Field:
			for _, id := range x.Names {
				decls[id.Name]++
			}
		case *ast.RangeStmt:
			if x.Tok == token.DEFINE {
				for _, e := range []ast.Expr{x.Key, x.Value} {
					if id, ok := e.(*ast.Ident); ok {
						decls[id.Name]++
					}
				}
			}
			if id, ok := x.X.(*ast.Ident); ok {
				rangeUses[id.Name]++
			}
		case *ast.LabeledStmt:
			decls[x.Label.Name]++
		}
		return true
	})
	if closure {
		return m
	}
	var lists func(l []ast.Stmt, end token.Pos)
	var visit func(s ast.Stmt)
	lists = func(l []ast.Stmt, end token.Pos) {
		for _, s := range l {
			visit(s)
			as, ok := s.(*ast.AssignStmt)
			if !ok || as.Tok != token.DEFINE || len(as.Lhs) != 1 || len(as.Rhs) != 1 {
				continue
			}
			id, ok := as.Lhs[0].(*ast.Ident)
			if !ok || id.Name == "_" || decls[id.Name] != 1 || rangeUses[id.Name] == 0 || uses[id.Name] != 1+rangeUses[id.Name] {
				continue
			}
			if _, ok := as.Rhs[0].(*ast.SliceExpr); !ok {
				continue
			}
			m[id.Name] = &viewInfo{define: as.Pos(), end: end}
		}
	}
	visit = func(s ast.Stmt) {
		switch x := s.(type) {
		case *ast.BlockStmt:
			lists(x.List, x.End())
		case *ast.IfStmt:
			lists(x.Body.List, x.Body.End())
			if x.Else != nil {
				visit(x.Else)
			}
		case *ast.ForStmt:
			lists(x.Body.List, x.Body.End())
		case *ast.RangeStmt:
			lists(x.Body.List, x.Body.End())
		case *ast.LabeledStmt:
			visit(x.Stmt)
		case *ast.SwitchStmt:
			for _, cc := range x.Body.List {
				lists(cc.(*ast.CaseClause).Body, cc.End())
			}
		}
	}
	lists(fd.Body.List, fd.Body.End())
	return m
}

// viewDefine: the define statement `at` declares the range-only variable name (fifth part and later).
func (c *codegen) viewDefine(name string, at ast.Node) *viewInfo {
	if !c.phase5 || c.cur == nil || c.cur.fd == nil {
		return nil
	}
	vi := c.rangeOnlyViews(c.cur.fd)[name]
	if vi == nil || vi.define != at.Pos() {
		return nil
	}
	return vi
}

// ---------------------------------------------------------------- bucket parser: `if A && B { … }`
//
//	if A && B { … }        without init statement and without else, where B contains an operation that may
//	                       panic or a call (an index or slice expression, a call other than len / cap / a
//	                       conversion): the sixth part refuses it, because a hoisted operation on the right
//	                       of && would be evaluated although A is false.  Go evaluates B only if A holds:
//	                       the statement is exactly `if A { if B { … } }`, and that is what is translated
//	                       (`if k > 0 && p[j+k-1] != p[i+k-1] { continue }` in bup.go).

func (c *codegen) splitAndIf(x *ast.IfStmt) *ast.IfStmt {
	if !c.phase5 || x.Init != nil || x.Else != nil {
		return nil
	}
	e := x.Cond
	for {
		p, ok := e.(*ast.ParenExpr)
		if !ok {
			break
		}
		e = p.X
	}
	be, ok := e.(*ast.BinaryExpr)
	if !ok || be.Op != token.LAND || !c.mayHoist(be.Y) {
		return nil
	}
	inner := &ast.IfStmt{If: be.Y.Pos(), Cond: be.Y, Body: x.Body}
	return &ast.IfStmt{If: x.If, Cond: be.X, Body: &ast.BlockStmt{Lbrace: x.Body.Lbrace, List: []ast.Stmt{inner}, Rbrace: x.Body.Rbrace}}
}

// mayHoist: the expression contains an index or slice expression, or a call other than len / cap /
// a conversion to a basic type (syntactic; errs on the side of "yes").
func (c *codegen) mayHoist(e ast.Expr) bool {
	found := false
	ast.Inspect(e, func(n ast.Node) bool {
		switch x := n.(type) {
		case *ast.IndexExpr, *ast.SliceExpr:
			found = true
		case *ast.CallExpr:
			if (isBuiltin(x, "len") && c.lookup("len") == nil) || (isBuiltin(x, "cap") && c.lookup("cap") == nil) {
				break
			}
			if id, ok := x.Fun.(*ast.Ident); ok && len(x.Args) == 1 && c.lookup(id.Name) == nil {
				switch id.Name {
				case "int", "int8", "int16", "int32", "int64", "uint", "uint8", "uint16", "uint32", "uint64", "byte", "uintptr":
					return true
				}
			}
			found = true
		}
		return !found
	})
	return found
}

// ---------------------------------------------------------------- bucket parser: view methods inlined at a range statement
//
//	for … := range X.m(a…) a method whose result is a SUB-SLICE of a field of its receiver
//	                       (`func (bh *bucketHash) bucket(h uint32) []bucketEntry { k := int(h) * bh.bucketSize;
//	                       return bh.buckets[k : k+bh.bucketSize] }`) cannot be translated as a function: the
//	                       third part refuses a slice result (the caller would hold a second reference).
//	                       Used as the operand of a range statement the call is INLINED AT SOURCE LEVEL
//	                       (inlineViews, run once per package when the functions are collected, like the
//	                       elimination of local pointer aliases):
//	                           { v_a := a…; v_k := …; v := X.P.S[lo:hi]; for … := range v { … } }
//	                       and v is then a range-only variable (see "read-only views" above): a
//	                       block-scoped read-only view.  Conditions (syntactic, otherwise nothing is
//	                       rewritten and the old refusal stays):
//	                         (W1) X is the receiver or a parameter of the calling function, of type T or *T,
//	                              T a struct of the package, never assigned in the calling function; m is a
//	                              method of T, or of a struct embedded in T (Go's rule: shallowest depth,
//	                              unique there; P is the path of embedded fields);
//	                         (W2) m has a named receiver, named parameters of basic types, exactly one
//	                              result; its body is a list of defines `x := e` (one variable each)
//	                              followed by `return S[lo:hi]`, S a field path of the receiver; every
//	                              expression is built from identifiers, literals, selectors, parentheses,
//	                              unary / binary operators, conversions to basic types, len and cap — no
//	                              other calls, so the inlined statements do exactly what the call does
//	                              (same values, same panic of the slice expression, at the same moment:
//	                              the evaluation of the range operand);
//	                         (W3) the arguments are identifiers or literals; the range statement carries
//	                              no label; the calling function contains no function literal.
//	                       The new local names (`view1`, `view1_k`, …) do not occur in the calling function.
//	                       The doc comment of the translated function says which calls were inlined.

// viewNotes: the view calls inlined in a function (for the doc comment of its translation).
var viewNotes = map[*ast.FuncDecl][]string{}

var basicTypeNames = map[string]bool{"int": true, "int8": true, "int16": true, "int32": true, "int64": true,
	"uint": true, "uint8": true, "uint16": true, "uint32": true, "uint64": true, "byte": true, "uintptr": true, "bool": true}

// inlineViews rewrites the range statements of every function of the package (idempotent).
func inlineViews(p *pkgInfo, fns map[fnKey]*ast.FuncDecl) {
	structs := p.structs()
	for _, fd := range fns {
		if fd.Body == nil {
			continue
		}
		iv := &viewInliner{fns: fns, structs: structs, fd: fd}
		iv.run()
	}
}

type viewInliner struct {
	fns     map[fnKey]*ast.FuncDecl
	structs map[string][]field
	fd      *ast.FuncDecl
	names   map[string]bool
	n       int
}

func (iv *viewInliner) run() {
	fd := iv.fd
	closure := false
	assigned := map[string]bool{}
	iv.names = map[string]bool{}
	ast.Inspect(fd, func(n ast.Node) bool {
		switch x := n.(type) {
		case *ast.FuncLit:
			closure = true
		case *ast.Ident:
			iv.names[x.Name] = true
		case *ast.AssignStmt:
			for _, l := range x.Lhs {
				if id, ok := l.(*ast.Ident); ok {
					assigned[id.Name] = true
				}
			}
		case *ast.IncDecStmt:
			if id, ok := x.X.(*ast.Ident); ok {
				assigned[id.Name] = true
			}
		case *ast.UnaryExpr:
			if id, ok := x.X.(*ast.Ident); ok && x.Op == token.AND {
				assigned[id.Name] = true
			}
		case *ast.RangeStmt:
			for _, e := range []ast.Expr{x.Key, x.Value} {
				if id, ok := e.(*ast.Ident); ok {
					assigned[id.Name] = true
				}
			}
		}
		return true
	})
	if closure {
		return
	}
	// the receiver and the parameters of struct type
	varType := map[string]string{}
	addFields := func(fl *ast.FieldList) {
		if fl == nil {
			return
		}
		for _, f := range fl.List {
			t := f.Type
			if s, ok := t.(*ast.StarExpr); ok {
				t = s.X
			}
			id, ok := t.(*ast.Ident)
			if !ok || iv.structs[id.Name] == nil {
				continue
			}
			for _, n := range f.Names {
				if !assigned[n.Name] {
					varType[n.Name] = id.Name
				}
			}
		}
	}
	addFields(fd.Recv)
	addFields(fd.Type.Params)
	if len(varType) == 0 {
		return
	}
	var lists func(l []ast.Stmt)
	var visit func(s ast.Stmt)
	lists = func(l []ast.Stmt) {
		for i, s := range l {
			if rs, ok := s.(*ast.RangeStmt); ok {
				if blk := iv.inline(rs, varType); blk != nil {
					l[i] = blk
					lists(rs.Body.List)
					continue
				}
			}
			visit(s)
		}
	}
	visit = func(s ast.Stmt) {
		switch x := s.(type) {
		case *ast.BlockStmt:
			lists(x.List)
		case *ast.IfStmt:
			lists(x.Body.List)
			if x.Else != nil {
				visit(x.Else)
			}
		case *ast.ForStmt:
			lists(x.Body.List)
		case *ast.RangeStmt:
			lists(x.Body.List)
		case *ast.LabeledStmt:
			if _, isRange := x.Stmt.(*ast.RangeStmt); isRange {
				lists(x.Stmt.(*ast.RangeStmt).Body.List) // (W3) a labelled range statement is left alone
			} else {
				visit(x.Stmt)
			}
		case *ast.SwitchStmt:
			for _, cc := range x.Body.List {
				lists(cc.(*ast.CaseClause).Body)
			}
		}
	}
	lists(fd.Body.List)
}

// resolveMethod: the method name of struct typ, possibly promoted; path = the embedded fields on the way.
func (iv *viewInliner) resolveMethod(typ, name string) (path []string, fd *ast.FuncDecl) {
	type cand struct {
		typ  string
		path []string
	}
	level := []cand{{typ, nil}}
	seen := map[string]bool{typ: true}
	for depth := 0; depth < 10 && len(level) > 0; depth++ {
		var found []cand
		for _, c := range level {
			if iv.fns[fnKey{c.typ, name}] != nil {
				found = append(found, c)
			}
		}
		if len(found) == 1 {
			return found[0].path, iv.fns[fnKey{found[0].typ, name}]
		}
		if len(found) > 1 {
			return nil, nil
		}
		var next []cand
		for _, c := range level {
			for _, f := range iv.structs[c.typ] {
				if f.name != "" {
					continue
				}
				t := strings.TrimPrefix(f.typ, "*")
				if iv.structs[t] == nil || seen[t] {
					continue
				}
				seen[t] = true
				next = append(next, cand{t, append(append([]string{}, c.path...), t)})
			}
		}
		level = next
	}
	return nil, nil
}

// inline: the block that replaces the range statement rs, or nil.
func (iv *viewInliner) inline(rs *ast.RangeStmt, varType map[string]string) ast.Stmt {
	call, ok := rs.X.(*ast.CallExpr)
	if !ok || call.Ellipsis.IsValid() {
		return nil
	}
	sel, ok := call.Fun.(*ast.SelectorExpr)
	if !ok {
		return nil
	}
	x, ok := sel.X.(*ast.Ident)
	if !ok || varType[x.Name] == "" {
		return nil
	}
	path, m := iv.resolveMethod(varType[x.Name], sel.Sel.Name)
	if m == nil || m.Body == nil || m.Recv == nil || len(m.Recv.List) != 1 || len(m.Recv.List[0].Names) != 1 {
		return nil
	}
	if m.Type.Results == nil || len(m.Type.Results.List) != 1 || len(m.Type.Results.List[0].Names) > 1 {
		return nil
	}
	recv := m.Recv.List[0].Names[0].Name
	var params []string
	if m.Type.Params != nil {
		for _, f := range m.Type.Params.List {
			id, ok := f.Type.(*ast.Ident)
			if !ok || !basicTypeNames[id.Name] || len(f.Names) == 0 {
				return nil
			}
			for _, n := range f.Names {
				params = append(params, n.Name)
			}
		}
	}
	if len(params) != len(call.Args) || len(m.Body.List) == 0 {
		return nil
	}
	for _, a := range call.Args {
		switch a.(type) {
		case *ast.Ident, *ast.BasicLit:
		default:
			return nil
		}
	}
	pos := call.Pos()
	iv.n++
	base := "view" + itoa(iv.n)
	for iv.names[base] {
		iv.n++
		base = "view" + itoa(iv.n)
	}
	fresh := func(n string) string {
		s := base + "_" + n
		for iv.names[s] {
			s += "_"
		}
		return s
	}
	sub := map[string]ast.Expr{}
	// the receiver ↦ X.P
	var rx ast.Expr = &ast.Ident{NamePos: pos, Name: x.Name}
	for _, f := range path {
		rx = &ast.SelectorExpr{X: rx, Sel: &ast.Ident{NamePos: pos, Name: f}}
	}
	sub[recv] = rx
	var stmts []ast.Stmt
	var newNames []string
	define := func(name string, e ast.Expr) {
		newNames = append(newNames, name)
		stmts = append(stmts, &ast.AssignStmt{Lhs: []ast.Expr{&ast.Ident{NamePos: pos, Name: name}}, TokPos: pos, Tok: token.DEFINE, Rhs: []ast.Expr{e}})
	}
	for i, pn := range params {
		if pn == "_" {
			continue
		}
		n := fresh(pn)
		var a ast.Expr
		switch y := call.Args[i].(type) {
		case *ast.Ident:
			a = &ast.Ident{NamePos: pos, Name: y.Name}
		case *ast.BasicLit:
			cp := *y
			cp.ValuePos = pos
			a = &cp
		}
		// the parameter has its declared type: a conversion keeps the type of an untyped constant argument
		var pt string
		k := 0
		for _, f := range m.Type.Params.List {
			for range f.Names {
				if k == i {
					pt = f.Type.(*ast.Ident).Name
				}
				k++
			}
		}
		if _, isLit := a.(*ast.BasicLit); isLit {
			a = &ast.CallExpr{Fun: &ast.Ident{NamePos: pos, Name: pt}, Lparen: pos, Args: []ast.Expr{a}, Rparen: pos}
		}
		define(n, a)
		sub[pn] = &ast.Ident{NamePos: pos, Name: n}
	}
	body := m.Body.List
	for _, s := range body[:len(body)-1] {
		as, ok := s.(*ast.AssignStmt)
		if !ok || as.Tok != token.DEFINE || len(as.Lhs) != 1 || len(as.Rhs) != 1 {
			return nil
		}
		id, ok := as.Lhs[0].(*ast.Ident)
		if !ok || id.Name == "_" || id.Name == recv {
			return nil
		}
		e := viewSubst(as.Rhs[0], sub, pos)
		if e == nil {
			return nil
		}
		n := fresh(id.Name)
		define(n, e)
		sub[id.Name] = &ast.Ident{NamePos: pos, Name: n}
	}
	ret, ok := body[len(body)-1].(*ast.ReturnStmt)
	if !ok || len(ret.Results) != 1 {
		return nil
	}
	se, ok := ret.Results[0].(*ast.SliceExpr)
	if !ok || se.Slice3 {
		return nil
	}
	if p := pathOf(se.X); p == nil || len(p) < 2 || p[0] != recv {
		return nil // (W2) a field path of the receiver
	}
	re := viewSubst(se, sub, pos)
	if re == nil {
		return nil
	}
	define(base, re)
	for _, n := range newNames {
		iv.names[n] = true
	}
	note := x.Name + "." + sel.Sel.Name + "(…)"
	rs.X = &ast.Ident{NamePos: pos, Name: base}
	viewNotes[iv.fd] = append(viewNotes[iv.fd], note+" ↦ "+base)
	return &ast.BlockStmt{Lbrace: rs.Pos(), List: append(stmts, rs), Rbrace: rs.End() - 1}
}

// viewSubst copies a pure expression (W2), replacing identifiers by sub; nil for any other form.
func viewSubst(e ast.Expr, sub map[string]ast.Expr, pos token.Pos) ast.Expr {
	switch x := e.(type) {
	case *ast.Ident:
		if s, ok := sub[x.Name]; ok {
			return viewSubst(s, nil, pos)
		}
		return &ast.Ident{NamePos: pos, Name: x.Name}
	case *ast.BasicLit:
		cp := *x
		cp.ValuePos = pos
		return &cp
	case *ast.ParenExpr:
		if y := viewSubst(x.X, sub, pos); y != nil {
			return &ast.ParenExpr{Lparen: pos, X: y, Rparen: pos}
		}
	case *ast.SelectorExpr:
		if y := viewSubst(x.X, sub, pos); y != nil {
			return &ast.SelectorExpr{X: y, Sel: &ast.Ident{NamePos: pos, Name: x.Sel.Name}}
		}
	case *ast.UnaryExpr:
		if x.Op == token.AND || x.Op == token.ARROW {
			return nil
		}
		if y := viewSubst(x.X, sub, pos); y != nil {
			return &ast.UnaryExpr{OpPos: pos, Op: x.Op, X: y}
		}
	case *ast.BinaryExpr:
		a, b := viewSubst(x.X, sub, pos), viewSubst(x.Y, sub, pos)
		if a != nil && b != nil {
			return &ast.BinaryExpr{X: a, OpPos: pos, Op: x.Op, Y: b}
		}
	case *ast.CallExpr:
		id, ok := x.Fun.(*ast.Ident)
		if !ok || len(x.Args) != 1 || x.Ellipsis.IsValid() || sub[id.Name] != nil {
			return nil
		}
		if !basicTypeNames[id.Name] && id.Name != "len" && id.Name != "cap" {
			return nil
		}
		if y := viewSubst(x.Args[0], sub, pos); y != nil {
			return &ast.CallExpr{Fun: &ast.Ident{NamePos: pos, Name: id.Name}, Lparen: pos, Args: []ast.Expr{y}, Rparen: pos}
		}
	case *ast.SliceExpr:
		if x.Slice3 {
			return nil
		}
		a := viewSubst(x.X, sub, pos)
		if a == nil {
			return nil
		}
		out := &ast.SliceExpr{X: a, Lbrack: pos, Rbrack: pos}
		if x.Low != nil {
			if out.Low = viewSubst(x.Low, sub, pos); out.Low == nil {
				return nil
			}
		}
		if x.High != nil {
			if out.High = viewSubst(x.High, sub, pos); out.High == nil {
				return nil
			}
		}
		return out
	}
	return nil
}

func itoa(n int) string {
	if n == 0 {
		return "0"
	}
	s := ""
	for n > 0 {
		s = string(rune('0'+n%10)) + s
		n /= 10
	}
	return s
}

// ---------------------------------------------------------------- bucket parser: `&P` as an argument
//
//	f(…, &P, …)            P a variable or field path (no index step), the parameter of the translated callee
//	                       a struct that the callee reaches through a POINTER (`func (bh *bucketHash)
//	                       init(cfg *bucketConfig)`, called as `f.bucketHash.init(&cfg)`): pointers are
//	                       modelled by the value they point to, so the argument is the value of P, and if the
//	                       callee writes through the pointer (an out parameter of the fifth part) P is
//	                       rebound to what comes back — the reading the fifth part already gives to a
//	                       pointer VARIABLE that is passed on.  The trusted reading is the same (the callee
//	                       does not retain the pointer; distinct pointer parameters point to distinct
//	                       objects — two arguments rooted at the same variable must be disjoint paths).
//	                       Every other use of the unary & stays refused.

func (c *codegen) addrArgs(args []ast.Expr, sig *fnSig) []ast.Expr {
	if !c.phase5 || sig == nil || len(sig.params) != len(args) {
		return args
	}
	var out []ast.Expr
	for i, a := range args {
		if u, ok := a.(*ast.UnaryExpr); ok && u.Op == token.AND && sig.params[i].typ.kind == kStruct && pathOf(u.X) != nil {
			if id := rootIdent(u.X); id != nil && c.lookup(id.Name) != nil {
				if out == nil {
					out = append([]ast.Expr{}, args...)
				}
				out[i] = u.X
			}
		}
	}
	if out == nil {
		return args
	}
	return out
}
