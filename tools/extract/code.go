// code.go — second output of the extractor: a mechanical, syntax-directed
// translation of a whitelist of small pure Go functions into Lean definitions
// (LzModel/Generated/Code.lean, namespace LZ.Gen).  The translation covers a
// small subset of Go; anything outside of it aborts the run with a message
// naming the function and the construct.
//
// This file: types, constant folding, expressions.
package main

import (
	"fmt"
	"go/ast"
	"go/constant"
	"go/parser"
	"go/token"
	"os"
	"path/filepath"
	"strconv"
	"strings"
)

// ---------------------------------------------------------------- types

type gkind int

const (
	kInvalid gkind = iota
	kUntyped       // untyped integer constant
	kInt           // int, int64  -> Int (unbounded)
	kU8            // byte, uint8 -> UInt8
	kU32           // uint32      -> UInt32
	kU64           // uint64, uint-> UInt64 (64 bit platform)
	kBool
	kString
	kError
	kStruct
	kSlice
	kBytes // []byte as a value with capacity (second part of Code.lean) -> Slice
	// third part (code_gslice.go): a slice of any other element type as a value with
	// capacity -> GSlice elem
	kGSlice
	// fourth part (code_part4.go)
	kI32  // int32 -> Int32 (two's complement wrap-around, Lean's Int32)
	kFunc // a parameter of function type without results: its calls are logged (callback log)
	// fifth part (code_iface.go)
	kIface // a value of interface type: the abstract state of the object behind it -> a type parameter
	// ninth part (code_osap.go)
	kFnVal // a struct field of function type, defunctionalised: the code (Int) of the function stored in it; name = the dispatch function
)

type gtype struct {
	kind gkind
	name string // struct name
	elem *gtype // slice element
	// fifth part
	targs  []string // kStruct: the type parameters of the structure (interface types of its fields)
	goName string   // kIface: the Go spelling of the interface type ("io.Writer")
}

func (t gtype) eq(u gtype) bool {
	if t.kind != u.kind || t.name != u.name {
		return false
	}
	if t.kind == kSlice || t.kind == kGSlice {
		return t.elem.eq(*u.elem)
	}
	return true
}

func (t gtype) unsigned() bool { return t.kind == kU8 || t.kind == kU32 || t.kind == kU64 }
func (t gtype) numeric() bool  { return t.kind == kInt || t.kind == kI32 || t.unsigned() }

func (t gtype) bits() int {
	switch t.kind {
	case kU8:
		return 8
	case kU32:
		return 32
	case kU64:
		return 64
	}
	return 0
}

func (t gtype) lean() string {
	switch t.kind {
	case kInt, kFnVal:
		return "Int"
	case kI32:
		return "Int32"
	case kFunc:
		return "List " + t.name
	case kU8:
		return "UInt8"
	case kU32:
		return "UInt32"
	case kU64:
		return "UInt64"
	case kBool:
		return "Bool"
	case kString:
		return "String"
	case kError:
		return "Err"
	case kStruct:
		if len(t.targs) > 0 {
			return t.name + " " + strings.Join(t.targs, " ")
		}
		return t.name
	case kIface:
		return t.name
	case kSlice:
		e := t.elem.lean()
		if strings.Contains(e, " ") {
			e = "(" + e + ")"
		}
		return "List " + e
	case kBytes:
		return "Slice"
	case kGSlice:
		e := t.elem.lean()
		if strings.Contains(e, " ") {
			e = "(" + e + ")"
		}
		return "GSlice " + e
	}
	return "?"
}

func (t gtype) String() string {
	switch t.kind {
	case kUntyped:
		return "untyped constant"
	case kInvalid:
		return "invalid"
	}
	return t.lean()
}

// ---------------------------------------------------------------- generator state

type varInfo struct {
	lean  string
	typ   gtype
	depth int
	seq   int // position in the order of declaration within the function (declare)
}

type fnCtx struct {
	key       fnKey
	fd        *ast.FuncDecl
	recvVar   string
	recvMut   bool
	result    gtype // kInvalid: no result
	errSites  int
	errSiteOf map[token.Pos]int // fmt.Errorf / errors.New call -> number (source order)
	tmp       int
	nvars     int // number of variables declared so far (varInfo.seq)
	scopes    []map[string]*varInfo
	used      map[string]bool // lean names used in this function
	// second part (slices, panics, loops); see code_slice.go
	sig      *fnSig
	probe    bool     // first pass: find out whether the function needs Res / grow / fuel
	pre      []string // lines hoisted in front of the statement being translated
	nbind    int      // number of Res.bind emitted so far
	mutHoist []hoist  // mutating calls hoisted out of the current statement
	loops    []*loopCtx
	nloops   int
	loopDefs []loopDef
	aux      [][]string // loop functions, emitted in front of the function
	end      cont
	labels   map[string][]ast.Stmt // label of a statement of the function body -> the statements from there on
	// fourth part
	localTypes   map[string]string // Go name of a struct type declared in the body -> Lean structure
	pendingLabel string            // label of the loop statement that is translated next
	cbParams     map[string][]gtype
	retVars      []string // hidden variables that carry the values of a `return` inside a loop
	// code_parse.go
	ptrVars     map[*varInfo]bool      // the parameters (and the receiver) of pointer type
	nonNilUsed  []string               // pointer parameters whose comparison with nil was decided by the topic's assumption
	blockLabels map[string]*blockLabel // labels on statements of nested blocks (goto targets)
	// code_nil.go
	nilVars  map[*varInfo]*nilInfo // nilable pointer parameters (flag + value)
	nilOrder []*varInfo
}

type codegen struct {
	p          *pkgInfo
	fns        map[fnKey]*ast.FuncDecl
	structs    map[string][]field
	constTypes map[string]ast.Expr
	white      []fnKey
	whiteSet   map[fnKey]bool
	footprints map[fnKey]*footprint // code_parse.go: element-write footprints of mutating methods
	mutates    map[fnKey]bool
	refl       map[string]*reflInfo
	structUse  []string // structures needed, dependency order
	structSeen map[string]bool
	cur        *fnCtx
	done       map[fnKey]bool
	busy       map[fnKey]bool
	outs       []fnOut
	// second part
	phase2    bool
	phase3    bool // third part (implies phase2): slices of any element type as values (code_gslice.go)
	white3Set map[fnKey]bool
	// fourth part (code_part4.go)
	phase4          bool // implies phase3
	phase5          bool // fifth part (code_iface.go), implies phase4
	white5Set       map[fnKey]bool
	lendCache       map[*ast.FuncDecl]map[string]*lendCand // code_lend.go
	viewCache       map[*ast.FuncDecl]map[string]*viewInfo // code_lend.go
	ifaces          map[string]*ifaceInfo
	ifaceDecls      map[string]*ast.InterfaceType
	white4Set       map[fnKey]bool
	prefix          string                 // Lean name prefix of the functions of a sub-package
	reservedStructs map[string][]field     // struct names of the root package (a sub-package must not re-use them)
	opaqueOf        map[fnKey]bool         // callees that are parameters of the translated functions
	spOf            map[spKey]*spInfo      // code_opq.go: opaque state-passing callees (parameters as well)
	cbTypes         map[string][]gtype     // callback log type -> the parameter types of the callback
	winOK           map[string]*windowLoop // code_cblift.go: the checked window loop per field name
	winWhy          map[string]string      // code_cblift.go: why the window conditions fail for a field name
	helperPhase5    bool                   // code_cblift.go: helperCallees runs for a topic of the fifth part
	white2Set       map[fnKey]bool
	structPhase     map[string]int
	sigs            map[fnKey]*fnSig
	errVars         map[string]*errVar
	errVarDropped   map[string]bool
	errVarUse       []string
	// code_parse.go: the topic being translated assumes that pointer parameters are not nil
	ptrNonNil bool
	nilable   bool                // code_nil.go: the topic models the pointer parameters it compares with nil as flag + value
	fnFields  map[string]*fnField // code_osap.go: struct fields of function type
	// code_topics.go (promoted3): a slice parameter only as the only slice the function can reach
	strictSliceParams bool
	// code_part4.go (topic.declOrder): state and join tuples in declaration order
	declOrder bool
}

func (c *codegen) pos(n ast.Node) string {
	if n == nil {
		return "?"
	}
	p := c.p.fset.Position(n.Pos())
	return fmt.Sprintf("%s:%d", filepath.Base(p.Filename), p.Line)
}

func fnName(k fnKey) string {
	if k.recv == "" {
		return k.name
	}
	return k.recv + "." + k.name
}

// leanFnPrefix: the prefix of the Lean names of the functions of the package being translated or
// rendered ("" for the root package, "suffix_" for package suffix).
var leanFnPrefix = ""

func leanFn(k fnKey) string {
	if k.recv == "" {
		return leanFnPrefix + k.name
	}
	return leanFnPrefix + k.recv + "_" + k.name
}

// fail aborts the run: unsupported construct in a whitelisted function.
func (c *codegen) fail(n ast.Node, format string, a ...interface{}) {
	where := "?"
	if c.cur != nil {
		where = fnName(c.cur.key)
	}
	fmt.Fprintf(os.Stderr, "extract: function %s (%s): unsupported construct: %s\n",
		where, c.pos(n), fmt.Sprintf(format, a...))
	refuse() // code_topics.go: the refusal is per topic, not per run
}

func (c *codegen) src(n ast.Node) string {
	switch x := n.(type) {
	case *ast.Ident:
		return x.Name
	case *ast.BasicLit:
		return x.Value
	case *ast.SelectorExpr:
		return c.src(x.X) + "." + x.Sel.Name
	case *ast.CallExpr:
		var as []string
		for _, a := range x.Args {
			as = append(as, c.src(a))
		}
		return c.src(x.Fun) + "(" + strings.Join(as, ", ") + ")"
	case *ast.BinaryExpr:
		return c.src(x.X) + " " + x.Op.String() + " " + c.src(x.Y)
	case *ast.UnaryExpr:
		return x.Op.String() + c.src(x.X)
	case *ast.ParenExpr:
		return "(" + c.src(x.X) + ")"
	case *ast.StarExpr:
		return "*" + c.src(x.X)
	case *ast.IndexExpr:
		return c.src(x.X) + "[" + c.src(x.Index) + "]"
	case *ast.SliceExpr:
		lo, hi := "", ""
		if x.Low != nil {
			lo = c.src(x.Low)
		}
		if x.High != nil {
			hi = c.src(x.High)
		}
		return c.src(x.X) + "[" + lo + ":" + hi + "]"
	case *ast.CompositeLit:
		return c.src(x.Type) + "{...}"
	case *ast.ArrayType:
		return "[]" + c.src(x.Elt)
	case *ast.FuncType:
		var ps []string
		if x.Params != nil {
			for _, p := range x.Params.List {
				var ns []string
				for _, n := range p.Names {
					ns = append(ns, n.Name)
				}
				if len(ns) > 0 {
					ps = append(ps, strings.Join(ns, ", ")+" "+c.src(p.Type))
				} else {
					ps = append(ps, c.src(p.Type))
				}
			}
		}
		return "func(" + strings.Join(ps, ", ") + ")"
	}
	return fmt.Sprintf("%T", n)
}

// ---------------------------------------------------------------- Go types -> gtype

func (c *codegen) typeOf(e ast.Expr, at ast.Node) gtype {
	switch x := e.(type) {
	case *ast.Ident:
		switch x.Name {
		case "int", "int64":
			return gtype{kind: kInt}
		case "uint32":
			return gtype{kind: kU32}
		case "int32":
			if c.phase4 {
				return gtype{kind: kI32}
			}
		case "uint64", "uint":
			return gtype{kind: kU64}
		case "byte", "uint8":
			return gtype{kind: kU8}
		case "bool":
			return gtype{kind: kBool}
		case "string":
			return gtype{kind: kString}
		case "error":
			return gtype{kind: kError}
		}
		if c.phase4 && c.cur != nil && c.cur.localTypes[x.Name] != "" && c.lookup(x.Name) == nil {
			name := c.cur.localTypes[x.Name]
			c.needStruct(name, at)
			return gtype{kind: kStruct, name: name}
		}
		if it, ok := c.ifaceType(x); ok {
			return it
		}
		if _, ok := c.structs[x.Name]; ok {
			name := x.Name
			if c.phase2 && c.structPhase[name] == 1 && c.hasBytesField(name, map[string]bool{}) {
				// a struct of the first part whose []byte fields are lists there: the
				// second part uses its own version (Lean name with a prime) with Slice fields
				name += "'"
			}
			c.needStruct(name, at)
			if c.phase5 {
				return gtype{kind: kStruct, name: name, targs: c.structTArgs(name)}
			}
			return gtype{kind: kStruct, name: name}
		}
	case *ast.SelectorExpr:
		if it, ok := c.ifaceType(x); ok {
			return it
		}
	case *ast.StarExpr:
		// pointers only to structs (receivers); modelled by value
		t := c.typeOf(x.X, at)
		if t.kind == kStruct {
			return t
		}
	case *ast.FuncType:
		if c.phase4 {
			return c.callbackType(x, at)
		}
	case *ast.ArrayType:
		if x.Len == nil {
			t := c.typeOf(x.Elt, at)
			if c.phase2 && t.kind == kU8 {
				return gtype{kind: kBytes}
			}
			if c.phase3 {
				return gtype{kind: kGSlice, elem: &t}
			}
			return gtype{kind: kSlice, elem: &t}
		}
	}
	c.fail(at, "type %s", c.src(e))
	return gtype{}
}

// needStruct registers a structure (and the structures of its fields) for emission.
func (c *codegen) needStruct(name string, at ast.Node) {
	if c.structSeen[name] {
		return
	}
	c.structSeen[name] = true
	if c.phase3 {
		c.structPhase[name] = 3
	} else if c.phase2 {
		c.structPhase[name] = 2
	} else {
		c.structPhase[name] = 1
	}
	for _, f := range c.structFields(name, at) {
		_ = f
	}
	c.structUse = append(c.structUse, name)
}

type sfield struct {
	name string
	typ  gtype
}

func (c *codegen) structFields(name string, at ast.Node) []sfield {
	var out []sfield
	for _, f := range c.structs[goStruct(name)] {
		if f.name == "" {
			// embedded struct: a field named after its type; its fields are promoted
			if _, ok := c.structs[f.typ]; !ok || c.structPhase[name] < 2 {
				c.fail(at, "embedded field %s in struct %s", f.typ, name)
			}
			f.name = f.typ
		}
		if leanReserved[f.name] {
			c.fail(at, "field name %s of struct %s is reserved in Lean", f.name, name)
		}
		if f.typ == "func" && c.phase5 { // code_osap.go: a field of function type is a code
			out = append(out, sfield{f.name, c.fnFieldOf(goStruct(name), f.name, at).gtype()})
			continue
		}
		out = append(out, sfield{f.name, c.typeOfStr(f.typ, name, at)})
	}
	return out
}

// goStruct is the Go name of a struct (the Lean name of the second-part version of a
// first-part struct carries a prime).
func goStruct(name string) string { return strings.TrimSuffix(name, "'") }

func (c *codegen) hasBytesField(name string, seen map[string]bool) bool {
	if seen[name] {
		return false
	}
	seen[name] = true
	for _, f := range c.structs[name] {
		t := strings.TrimPrefix(f.typ, "[]")
		if f.typ == "[]byte" || f.typ == "[]uint8" {
			return true
		}
		if _, ok := c.structs[t]; ok && c.hasBytesField(t, seen) {
			return true
		}
	}
	return false
}

func (c *codegen) typeOfStr(s string, in string, at ast.Node) gtype {
	switch {
	case (s == "[]byte" || s == "[]uint8") && c.structPhase[in] >= 2:
		return gtype{kind: kBytes}
	case strings.HasPrefix(s, "[]"):
		t := c.typeOfStr(s[2:], in, at)
		if c.structPhase[in] == 3 {
			// a struct first met by the third part: its slices are values with capacity
			return gtype{kind: kGSlice, elem: &t}
		}
		return gtype{kind: kSlice, elem: &t}
	case c.phase5 && strings.Contains(s, ".") && !strings.HasPrefix(s, "*") && c.ifaceByStr(s) != nil:
		if e, err := parser.ParseExpr(s); err == nil {
			if it, ok := c.ifaceType(e); ok {
				return it
			}
		}
		c.fail(at, "field type %s in struct %s", s, in)
	case strings.HasPrefix(s, "*") || s == "?" || s == "func" || strings.Contains(s, "."):
		c.fail(at, "field type %s in struct %s", s, in)
	}
	return c.typeOf(ast.NewIdent(s), at)
}

func (c *codegen) fieldType(t gtype, f string, at ast.Node) gtype {
	_, ft := c.fieldPath(t, f, at)
	return ft
}

// fieldPath resolves the selector .f on a struct; a field promoted from an
// embedded struct yields the path through the embedded field(s).  Go's rule
// (spec, "Selectors"): f denotes the field at the SHALLOWEST depth of embedding
// where such a field exists; there must be exactly one at that depth.  (Chains of
// any depth: hashParser ⊃ hashDictionary ⊃ ParserBuffer — code_parse.go.)
func (c *codegen) fieldPath(t gtype, f string, at ast.Node) ([]string, gtype) {
	if t.kind != kStruct {
		c.fail(at, "selector .%s on non-struct type %s", f, t)
	}
	for _, sf := range c.structFields(t.name, at) {
		if sf.name == f {
			return []string{f}, sf.typ
		}
	}
	type level struct {
		name string   // struct reached
		path []string // through these embedded fields
	}
	cur := []level{{t.name, nil}}
	for depth := 0; depth < 20 && len(cur) > 0; depth++ {
		var found []string
		var ft gtype
		var next []level
		for _, l := range cur {
			for _, raw := range c.structs[goStruct(l.name)] {
				if raw.name != "" {
					continue
				}
				if _, ok := c.structs[raw.typ]; !ok {
					continue // an embedded non-struct: structFields refuses the struct if it is used
				}
				p := append(append([]string{}, l.path...), raw.typ)
				for _, sf := range c.structFields(raw.typ, at) {
					if sf.name == f {
						if found != nil {
							c.fail(at, "ambiguous promoted field %s in struct %s", f, t.name)
						}
						found, ft = append(p, f), sf.typ
					}
				}
				next = append(next, level{raw.typ, p})
			}
		}
		if found != nil {
			return found, ft
		}
		cur = next
	}
	c.fail(at, "struct %s has no field %s", t.name, f)
	return nil, gtype{}
}

// promotedMethod finds the method m that struct `name` does not declare itself in its embedded
// structs, by Go's rule (shallowest depth, unique there): the path of embedded fields to the
// struct that declares it (nil: there is none).
func (c *codegen) promotedMethod(name, m string, at ast.Node) []string {
	type level struct {
		name string
		path []string
	}
	cur := []level{{goStruct(name), nil}}
	for depth := 0; depth < 20 && len(cur) > 0; depth++ {
		var found []string
		var next []level
		for _, l := range cur {
			for _, raw := range c.structs[l.name] {
				if raw.name != "" {
					continue
				}
				if _, ok := c.structs[raw.typ]; !ok {
					continue
				}
				p := append(append([]string{}, l.path...), raw.typ)
				if c.fns[fnKey{raw.typ, m}] != nil {
					if found != nil {
						c.fail(at, "ambiguous promoted method %s of struct %s", m, name)
					}
					found = p
				}
				next = append(next, level{raw.typ, p})
			}
		}
		if found != nil {
			return found
		}
		cur = next
	}
	return nil
}

// rawPromotedFieldType: the Go spelling of the type of the field (or embedded struct) f promoted
// into struct t from any depth ("" if there is none) — for the analyses that run on spellings.
func (c *codegen) rawPromotedFieldType(t, f string) string {
	cur := []string{t}
	for depth := 0; depth < 20 && len(cur) > 0; depth++ {
		var next []string
		found := ""
		for _, n := range cur {
			for _, sf := range c.structs[n] {
				if sf.name == f || (sf.name == "" && sf.typ == f) {
					found = sf.typ
				}
				if sf.name == "" {
					if _, ok := c.structs[sf.typ]; ok {
						next = append(next, sf.typ)
					}
				}
			}
		}
		if found != "" {
			return found
		}
		cur = next
	}
	return ""
}

func zeroValue(t gtype) string {
	switch t.kind {
	case kInt, kU8, kU32, kU64, kI32, kFnVal:
		return "0"
	case kBool:
		return "false"
	case kString:
		return `""`
	case kError:
		return "Err.ok"
	case kSlice:
		return "[]"
	case kBytes:
		return "Slice.nil"
	case kGSlice:
		return "GSlice.nil"
	case kFunc:
		return "[]"
	}
	return ""
}

// ---------------------------------------------------------------- scopes

var leanReserved = map[string]bool{
	"at": true, "by": true, "do": true, "end": true, "from": true, "fun": true, "have": true,
	"in": true, "let": true, "open": true, "show": true, "then": true, "with": true, "where": true,
	"match": true, "if": true, "else": true, "def": true, "theorem": true, "instance": true,
	"local": true, "prefix": true, "infix": true, "notation": true, "section": true,
	"namespace": true, "variable": true, "universe": true, "import": true, "mutual": true,
	"structure": true, "class": true, "inductive": true, "deriving": true, "private": true,
	"protected": true, "return": true, "for": true, "unless": true, "try": true, "catch": true,
	"finally": true, "mut": true, "Type": true, "Prop": true, "Sort": true, "using": true,
	"calc": true, "suffices": true, "obtain": true, "exact": true, "nomatch": true, "nofun": true,
	// names the generated terms refer to unqualified
	"iand": true, "ior": true, "shrU64": true, "shlU64": true, "shrU32": true, "shlU32": true,
	"shrU8": true, "shlU8": true, "bitsLen32": true, "bitsLen64": true, "Err": true, "List": true,
	"Int": true, "Nat": true, "UInt8": true, "UInt32": true, "UInt64": true, "Bool": true,
	"String": true, "decide": true, "true": true, "false": true, "LZ": true,
	// second part
	"grow": true, "fuel": true, "Res": true, "Slice": true,
	// third part
	"GSlice": true, "shiftCount": true,
	// fourth part
	"listSliceFrom": true,
	"Int32":         true, "leadingZeros64": true, "trailingZeros64": true, "highBitBelow": true, "lowBitFrom": true,
}

func (c *codegen) push() { c.cur.scopes = append(c.cur.scopes, map[string]*varInfo{}) }
func (c *codegen) pop()  { c.cur.scopes = c.cur.scopes[:len(c.cur.scopes)-1] }

func (c *codegen) lookup(name string) *varInfo {
	for i := len(c.cur.scopes) - 1; i >= 0; i-- {
		if v, ok := c.cur.scopes[i][name]; ok {
			return v
		}
	}
	return nil
}

// declare introduces a Go variable in the innermost scope.  The Lean name is
// the Go name unless that would capture a variable that is still visible.
func (c *codegen) declare(name string, t gtype) *varInfo {
	if c.phase2 && tmpName.MatchString(name) {
		c.fail(c.cur.fd, "variable name %s collides with the names of generated temporaries", name)
	}
	lean := name
	if leanReserved[lean] {
		lean += "_"
	}
	if c.lookup(name) != nil || c.cur.used[lean] && c.lookupLean(lean) {
		for i := 1; ; i++ {
			cand := fmt.Sprintf("%s_%d", name, i)
			if !c.cur.used[cand] {
				lean = cand
				break
			}
		}
	}
	c.cur.used[lean] = true
	c.cur.nvars++
	v := &varInfo{lean: lean, typ: t, depth: len(c.cur.scopes) - 1, seq: c.cur.nvars}
	c.cur.scopes[len(c.cur.scopes)-1][name] = v
	return v
}

// lookupLean reports whether a visible variable already carries the Lean name.
func (c *codegen) lookupLean(lean string) bool {
	for _, s := range c.cur.scopes {
		for _, v := range s {
			if v.lean == lean {
				return true
			}
		}
	}
	return false
}

// ---------------------------------------------------------------- constant folding

var stdConsts = map[string]string{
	"math.MaxInt8": "127", "math.MaxInt16": "32767", "math.MaxInt32": "2147483647",
	"math.MaxInt64": "9223372036854775807", "math.MinInt32": "-2147483648",
	"math.MinInt64": "-9223372036854775808", "math.MaxUint8": "255", "math.MaxUint16": "65535",
	"math.MaxUint32": "4294967295", "math.MaxUint64": "18446744073709551615",
	"math.MaxInt": "9223372036854775807", "math.MaxUint": "18446744073709551615",
}

// cfold folds a constant expression.  The type is kUntyped for untyped integer
// constants, kString for strings, and the target type for converted constants.
func (c *codegen) cfold(e ast.Expr) (constant.Value, gtype, bool) {
	switch x := e.(type) {
	case *ast.BasicLit:
		switch x.Kind {
		case token.INT:
			return constant.MakeFromLiteral(x.Value, token.INT, 0), gtype{kind: kUntyped}, true
		case token.STRING:
			s, err := strconv.Unquote(x.Value)
			if err != nil {
				return nil, gtype{}, false
			}
			return constant.MakeString(s), gtype{kind: kString}, true
		}
	case *ast.Ident:
		if c.cur != nil && c.lookup(x.Name) != nil {
			return nil, gtype{}, false
		}
		if v, ok := c.p.consts[x.Name]; ok {
			t := gtype{kind: kUntyped}
			if v.Kind() == constant.String {
				t = gtype{kind: kString}
			} else if v.Kind() != constant.Int {
				return nil, gtype{}, false
			}
			if te, ok := c.constTypes[x.Name]; ok && te != nil {
				t = c.typeOf(te, x)
			}
			return v, t, true
		}
	case *ast.SelectorExpr:
		if id, ok := x.X.(*ast.Ident); ok && (c.cur == nil || c.lookup(id.Name) == nil) {
			if s, ok := stdConsts[id.Name+"."+x.Sel.Name]; ok {
				return constant.MakeFromLiteral(s, token.INT, 0), gtype{kind: kUntyped}, true
			}
		}
	case *ast.ParenExpr:
		return c.cfold(x.X)
	case *ast.UnaryExpr:
		v, t, ok := c.cfold(x.X)
		if !ok || v.Kind() != constant.Int {
			return nil, gtype{}, false
		}
		if x.Op == token.SUB || x.Op == token.ADD {
			return constant.UnaryOp(x.Op, v, 0), t, true
		}
	case *ast.BinaryExpr:
		a, ta, ok1 := c.cfold(x.X)
		b, tb, ok2 := c.cfold(x.Y)
		if !ok1 || !ok2 || a.Kind() != constant.Int || b.Kind() != constant.Int {
			return nil, gtype{}, false
		}
		switch x.Op {
		case token.SHL, token.SHR:
			s, ok := constant.Uint64Val(b)
			if !ok || s > 4096 {
				return nil, gtype{}, false
			}
			return constant.Shift(a, x.Op, uint(s)), ta, true
		case token.ADD, token.SUB, token.MUL, token.AND, token.OR, token.QUO:
			t := ta
			if t.kind == kUntyped {
				t = tb
			} else if tb.kind != kUntyped && !ta.eq(tb) {
				return nil, gtype{}, false
			}
			op := x.Op
			if op == token.QUO {
				if constant.Sign(b) == 0 {
					return nil, gtype{}, false
				}
				op = token.QUO_ASSIGN
			}
			return constant.BinaryOp(a, op, b), t, true
		}
	case *ast.CallExpr:
		if id, ok := x.Fun.(*ast.Ident); ok && len(x.Args) == 1 && (c.cur == nil || c.lookup(id.Name) == nil) {
			switch id.Name {
			case "int", "int64", "uint32", "uint64", "uint", "byte", "uint8", "int32":
				if id.Name == "int32" && !c.phase4 {
					break
				}
				v, _, ok := c.cfold(x.Args[0])
				if ok && v.Kind() == constant.Int {
					return v, c.typeOf(id, x), true
				}
			}
		}
	}
	return nil, gtype{}, false
}

// lit renders a folded constant; bare literals are used where the Lean
// elaborator already knows the type.
func (c *codegen) lit(v constant.Value, t gtype, bare bool, at ast.Node) string {
	if v.Kind() == constant.String {
		return strconv.Quote(constant.StringVal(v))
	}
	s := v.ExactString()
	if constant.Sign(v) < 0 {
		if t.unsigned() {
			c.fail(at, "negative constant %s of unsigned type", s)
		}
		if bare {
			return "(" + s + ")"
		}
	} else if t.unsigned() {
		lim := constant.Shift(constant.MakeInt64(1), token.SHL, uint(t.bits()))
		if !constant.Compare(v, token.LSS, lim) {
			c.fail(at, "constant %s overflows %s", s, t)
		}
	}
	if t.kind == kI32 {
		lim := constant.MakeInt64(1 << 31)
		if !constant.Compare(v, token.LSS, lim) || constant.Compare(v, token.LSS, constant.UnaryOp(token.SUB, lim, 0)) {
			c.fail(at, "constant %s overflows int32", s)
		}
	}
	if bare {
		return s
	}
	return "(" + s + " : " + t.lean() + ")"
}

// ---------------------------------------------------------------- expressions

func paren(s string) string {
	if isAtom(s) {
		return s
	}
	return "(" + s + ")"
}

func isAtom(s string) bool {
	if s == "" {
		return true
	}
	depth := 0
	for i, r := range s {
		switch r {
		case '(', '{', '[':
			depth++
		case ')', '}', ']':
			depth--
			if depth == 0 && i != len(s)-1 {
				// closed before the end: atom only if nothing but a projection follows
				rest := s[i+1:]
				if !strings.HasPrefix(rest, ".") || strings.ContainsAny(rest, " ") {
					return false
				}
			}
		case ' ':
			if depth == 0 {
				return false
			}
		case '"':
			// string literal: quoted strings are atoms when they are the whole expression
			if i == 0 && strings.HasSuffix(s, `"`) && strings.Count(s, `"`)-strings.Count(s, `\"`) == 2 {
				return true
			}
		}
	}
	if strings.HasPrefix(s, "-") || strings.HasPrefix(s, "¬") || strings.HasPrefix(s, "~~~") {
		return false
	}
	return true
}

// expr translates a Go expression into a Lean term.  want is the type
// expected by the context (kInvalid if unknown); untyped constants adopt it.
// bare: a numeric literal may be emitted without type ascription.
func (c *codegen) expr(e ast.Expr, want gtype, bare bool) (string, gtype) {
	if v, t, ok := c.cfold(e); ok {
		if t.kind == kUntyped {
			if want.kind == kInvalid {
				return v.ExactString(), t // caller decides
			}
			if !want.numeric() {
				c.fail(e, "integer constant %s used as %s", v.ExactString(), want)
			}
			t = want
		}
		return c.lit(v, t, bare, e), t
	}
	switch x := e.(type) {
	case *ast.ParenExpr:
		return c.expr(x.X, want, bare)
	case *ast.Ident:
		switch x.Name {
		case "nil":
			if c.lookup("nil") == nil {
				if want.kind == kError {
					return "Err.ok", want
				}
				if want.kind == kBytes {
					return "Slice.nil", want
				}
				if want.kind == kGSlice {
					return "GSlice.nil", want
				}
				c.fail(e, "nil of type %s", want)
			}
		case "true", "false":
			if c.lookup(x.Name) == nil {
				return x.Name, gtype{kind: kBool}
			}
		}
		if v := c.lookup(x.Name); v != nil {
			return v.lean, v.typ
		}
		if want.kind == kFnVal { // code_osap.go: a package-level function stored into a field of function type
			return c.fnFieldCode(want, x), want
		}
		if c.phase2 {
			if ev := c.errVarOf(x.Name, e); ev != nil {
				return ev.lean, gtype{kind: kError}
			}
			if c.errVarDropped[x.Name] {
				c.fail(e, "package-level error variable %s is assigned or has its address taken somewhere in the package: not a constant", x.Name)
			}
		}
		c.fail(e, "identifier %s (not a local variable, parameter or integer/string constant)", x.Name)
	case *ast.SelectorExpr:
		if id, ok := x.X.(*ast.Ident); ok && c.phase5 && c.lookup(id.Name) == nil {
			if l, ok := stdErrVarOf(id.Name + "." + x.Sel.Name); ok {
				return l, gtype{kind: kError}
			}
		}
		s, t := c.expr(x.X, gtype{}, false)
		fp, ft := c.fieldPath(t, x.Sel.Name, e)
		return paren(s) + "." + strings.Join(fp, "."), ft
	case *ast.IndexExpr:
		return c.indexExpr(x)
	case *ast.SliceExpr:
		return c.sliceExpr(x)
	case *ast.CompositeLit:
		return c.compositeLit(x)
	case *ast.StarExpr:
		// *p where p is a pointer to a struct modelled by value (the receiver)
		if id, ok := x.X.(*ast.Ident); ok && c.cur.recvVar == id.Name && c.lookup(id.Name) != nil && c.phase2 {
			return c.expr(x.X, want, bare)
		}
		c.fail(e, "pointer dereference %s", c.src(e))
	case *ast.UnaryExpr:
		switch x.Op {
		case token.NOT:
			return "decide (" + c.cond(e) + ")", gtype{kind: kBool}
		case token.SUB:
			s, t := c.expr(x.X, want, false)
			if t.kind != kInt && t.kind != kI32 {
				c.fail(e, "unary minus on %s", t)
			}
			return "-" + paren(s), t
		case token.ADD:
			return c.expr(x.X, want, bare)
		case token.XOR:
			if c.phase4 {
				// ^x on an unsigned value: bitwise complement
				s, t := c.expr(x.X, want, false)
				if !t.unsigned() {
					c.fail(e, "bitwise complement of %s (only unsigned values)", t)
				}
				return "~~~" + paren(s), t
			}
		}
		c.fail(e, "unary operator %s", x.Op)
	case *ast.BinaryExpr:
		switch x.Op {
		case token.LAND, token.LOR, token.EQL, token.NEQ, token.LSS, token.LEQ, token.GTR, token.GEQ:
			return "decide (" + c.cond(e) + ")", gtype{kind: kBool}
		case token.SHL, token.SHR:
			return c.shift(x, want)
		case token.ADD, token.SUB, token.MUL, token.AND, token.OR:
			return c.arith(x, want)
		case token.XOR:
			if c.phase5 {
				return c.arith(x, want) // code_parse.go: a ^ b on unsigned values
			}
		}
		c.fail(e, "binary operator %s", x.Op)
	case *ast.CallExpr:
		return c.call(x, want)
	}
	c.fail(e, "expression %s", c.src(e))
	return "", gtype{}
}

// operands translates the two operands of a binary operator to a common type.
func (c *codegen) operands(x *ast.BinaryExpr, want gtype) (string, string, gtype) {
	_, _, lc := c.cfold(x.X)
	_, _, rc := c.cfold(x.Y)
	var a, b string
	var ta, tb gtype
	switch {
	case lc && !rc:
		b, tb = c.expr(x.Y, want, true)
		a, ta = c.expr(x.X, tb, true)
	case lc && rc:
		a, ta = c.expr(x.X, want, false)
		if ta.kind == kUntyped {
			b, tb = c.expr(x.Y, gtype{}, false)
			if tb.kind == kUntyped {
				// two untyped constants (only under a comparison): Go compares them as integers
				tb = gtype{kind: kInt}
				b, _ = c.expr(x.Y, tb, false)
			}
			a, ta = c.expr(x.X, tb, true)
		} else {
			b, tb = c.expr(x.Y, ta, true)
		}
	default:
		a, ta = c.expr(x.X, want, true)
		if ta.kind == kUntyped && a == "" {
			return "", "", ta // a pending shift of an untyped constant (see shift): the caller supplies the type
		}
		b, tb = c.expr(x.Y, ta, true)
	}
	if !ta.eq(tb) {
		c.fail(x, "operands of %s have different types %s and %s in %s", x.Op, ta, tb, c.src(x))
	}
	return a, b, ta
}

func (c *codegen) arith(x *ast.BinaryExpr, want gtype) (string, gtype) {
	if want.kind != kInvalid && !want.numeric() {
		want = gtype{}
	}
	a, b, t := c.operands(x, want)
	if t.kind == kUntyped && a == "" && c.phase3 {
		return "", t
	}
	if !t.numeric() {
		if t.kind == kString && x.Op == token.ADD {
			c.fail(x, "string concatenation")
		}
		c.fail(x, "operator %s on %s", x.Op, t)
	}
	switch x.Op {
	case token.ADD:
		return paren(a) + " + " + paren(b), t
	case token.SUB:
		return paren(a) + " - " + paren(b), t
	case token.MUL:
		return paren(a) + " * " + paren(b), t
	case token.AND:
		if t.kind == kInt {
			return "iand " + paren(a) + " " + paren(b), t
		}
		return paren(a) + " &&& " + paren(b), t
	case token.OR:
		if t.kind == kInt {
			return "ior " + paren(a) + " " + paren(b), t
		}
		return paren(a) + " ||| " + paren(b), t
	case token.XOR:
		// code_parse.go: bitwise exclusive or of two values of the same UNSIGNED type (on signed values
		// it would be the two's-complement operation: refused)
		if !t.unsigned() {
			c.fail(x, "operator ^ on %s (only unsigned values)", t)
		}
		return paren(a) + " ^^^ " + paren(b), t
	}
	c.fail(x, "operator %s", x.Op)
	return "", gtype{}
}

func (c *codegen) shift(x *ast.BinaryExpr, want gtype) (string, gtype) {
	if want.kind != kInvalid && !want.numeric() {
		want = gtype{}
	}
	a, t := c.expr(x.X, want, false)
	if t.kind == kUntyped {
		if c.phase3 {
			// Go: "if the left operand of a non-constant shift expression is an untyped constant, it
			// is first implicitly converted to the type it would assume if the shift expression were
			// replaced by its left operand alone" — the caller knows that type: like an untyped
			// constant the expression is handed back untyped (nothing has been emitted yet) and the
			// caller translates it again with the type (`n := 1 << k` ↦ int, `uint64(1 << k)` ↦ uint64)
			return "", t
		}
		c.fail(x, "shift of an untyped constant by a variable count")
	}
	if !t.numeric() || t.kind == kI32 {
		c.fail(x, "shift of %s", t)
	}
	var cnt string
	if v, _, ok := c.cfold(x.Y); ok {
		n, ok := constant.Uint64Val(v)
		if !ok || n > 4096 {
			c.fail(x, "shift count %s", c.src(x.Y))
		}
		cnt = strconv.FormatUint(n, 10)
	} else {
		s, ts := c.expr(x.Y, gtype{}, false)
		switch {
		case ts.unsigned():
			cnt = paren(s) + ".toNat"
		case ts.kind == kInt && c.phase3:
			// a signed count: the shift panics if it is negative (third prelude: shiftCount)
			cnt = c.bindRes("t", "shiftCount "+paren(s), x)
		default:
			c.fail(x, "shift count of type %s (a negative count panics)", ts)
		}
	}
	if t.kind == kInt {
		if x.Op == token.SHR {
			return paren(a) + " >>> (" + cnt + " : Nat)", t
		}
		return paren(a) + " * (2 : Int) ^ " + paren(cnt), t
	}
	op := "shl"
	if x.Op == token.SHR {
		op = "shr"
	}
	return fmt.Sprintf("%sU%d %s %s", op, t.bits(), paren(a), paren(cnt)), t
}

// cond translates a boolean expression into a decidable Lean proposition.
func (c *codegen) cond(e ast.Expr) string {
	switch x := e.(type) {
	case *ast.ParenExpr:
		return c.cond(x.X)
	case *ast.UnaryExpr:
		if x.Op == token.NOT {
			return "¬(" + c.cond(x.X) + ")"
		}
	case *ast.BinaryExpr:
		switch x.Op {
		case token.LAND, token.LOR:
			a := c.cond(x.X)
			n := len(c.cur.pre)
			b := c.cond(x.Y)
			if len(c.cur.pre) != n {
				c.fail(x.Y, "operation that may panic, or call with effects, on the right of %s (short-circuit evaluation)", x.Op)
			}
			if x.Op == token.LAND {
				return paren(a) + " ∧ " + paren(b)
			}
			return paren(a) + " ∨ " + paren(b)
		case token.EQL, token.NEQ, token.LSS, token.LEQ, token.GTR, token.GEQ:
			if r, ok := c.ptrNilCompare(x); ok {
				return r // code_parse.go: `p == nil` for a pointer parameter p
			}
			// nil comparisons take the type of the other side
			var a, b string
			var t gtype
			if id, ok := x.X.(*ast.Ident); ok && id.Name == "nil" && c.lookup("nil") == nil {
				b, t = c.expr(x.Y, gtype{}, false)
				a, _ = c.expr(x.X, t, false)
			} else if id, ok := x.Y.(*ast.Ident); ok && id.Name == "nil" && c.lookup("nil") == nil {
				a, t = c.expr(x.X, gtype{}, false)
				b, _ = c.expr(x.Y, t, false)
			} else {
				a, b, t = c.operands(x, gtype{})
			}
			ordered := x.Op != token.EQL && x.Op != token.NEQ
			if ordered && !t.numeric() {
				c.fail(e, "ordering comparison on %s", t)
			}
			if !ordered && (t.kind == kSlice || t.kind == kBytes || t.kind == kGSlice || t.kind == kInvalid) {
				c.fail(e, "equality on %s", t)
			}
			op := map[token.Token]string{token.EQL: "=", token.NEQ: "≠", token.LSS: "<",
				token.LEQ: "≤", token.GTR: ">", token.GEQ: "≥"}[x.Op]
			return paren(a) + " " + op + " " + paren(b)
		}
	}
	s, t := c.expr(e, gtype{kind: kBool}, false)
	if t.kind != kBool {
		c.fail(e, "condition of type %s", t)
	}
	return paren(s) + " = true"
}

// conv translates the conversion T(x).
func (c *codegen) conv(to gtype, arg ast.Expr, at ast.Node) (string, gtype) {
	s, from := c.expr(arg, gtype{}, false)
	if from.kind == kUntyped {
		s, from = c.expr(arg, to, false)
		return s, to
	}
	if from.eq(to) {
		return s, to
	}
	p := paren(s)
	switch {
	case to.kind == kInt && from.unsigned():
		return "Int.ofNat " + p + ".toNat", to
	// int32 (fourth part): Go's conversions between integer types truncate / sign-extend
	case to.kind == kI32 && from.kind == kInt:
		return "Int32.ofInt " + p, to
	case to.kind == kInt && from.kind == kI32:
		return p + ".toInt", to
	case to.kind == kI32 && from.unsigned():
		return "Int32.ofInt (Int.ofNat " + p + ".toNat)", to
	case to.unsigned() && from.kind == kI32:
		return to.lean() + ".ofInt " + p + ".toInt", to
	case to.unsigned() && from.kind == kInt:
		return to.lean() + ".ofInt " + p, to
	case to.unsigned() && from.unsigned():
		return p + ".to" + to.lean(), to
	}
	c.fail(at, "conversion from %s to %s", from, to)
	return "", gtype{}
}
