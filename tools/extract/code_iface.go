// code_iface.go — fifth part of the translation: INTERFACE VALUES as abstract object states, and
// what the Decoder (decoder_buffer.go), the WrappedParser (wrap.go) and the parser loop (hp.go)
// need on top of the fourth part (code_part4.go).  A topic of the fifth part (topics5 below;
// part5Topics) is a topic of the fourth part in which additionally
//
//	interface types        a variable, parameter or struct field of an interface type I (declared in the
//	                       package: `Parser`; or one of the standard interfaces in stdIfaceSrc: `io.Writer`,
//	                       `io.Reader`) has the Lean type `I` — a TYPE PARAMETER of every definition that
//	                       mentions it (`{io_Writer : Type}`).  A value of that type is the STATE of the
//	                       object behind the interface; nothing is known about it.
//	polymorphic structs    a struct with a field of interface type takes the type parameters of its fields:
//	                       `structure Decoder (io_Writer : Type) where buf : DecoderBuffer; w : io_Writer`
//	X.M(a, b)              a method call on a variable / field path X of interface type I is a call of the
//	                       OPAQUE STATE-PASSING function parameter `I_M`:
//	                           I_M : I → A → B → Res (I × <in-out arguments> × <Go results>)
//	                       Every function that (transitively) makes such a call takes `I_M` as a parameter
//	                       (after grow / fuel / the opaque callees of the fourth part).  The call is hoisted
//	                       like the call of a translated method that mutates its receiver: X is rebound to
//	                       the first component, the in-out arguments are rebound, the Go results follow.
//	                       `Res`: the callee may panic (`Res.panic` propagates like every Go panic).
//	                       The signature is read from the interface declaration (package interfaces) or
//	                       from stdIfaceSrc (the Go documentation of io).  IN-OUT are the arguments through
//	                       which the callee can change memory the caller sees:
//	                         - an argument of interface type (`s.s.ReadFrom(s.r)`: the reader is used),
//	                         - an argument of type *T, T a struct (`Parse(blk *Block, …)`),
//	                         - a slice argument, UNLESS the method is listed in stdIfaceRO (io.Writer: "Write
//	                           must not modify the slice data, even temporarily").
//	                       An in-out argument must be a variable or field path, or the literal nil (whose
//	                       new value is dropped).
//	                       TRUSTED READING: the object behind an interface value is reachable only through
//	                       that value (no second reference: not through another variable, not through the
//	                       arguments of the call); the callee does not retain its arguments; its effect on the
//	                       rest of the program is confined to its own state and its in-out arguments.
//	interface parameters   `func (b *DecoderBuffer) WriteTo(w io.Writer)`: a parameter of interface type on
//	                       which a method is called (or which is handed to a callee that does) is an OUT
//	                       parameter: its final state is a component of the result, the caller rebinds the
//	                       variable / field path it passed (`d.buf.WriteTo(d.w)` ↦ d.buf and d.w are rebound).
//	                       COPYING an interface value (`d.w = w`, `w := x`, a composite literal field, handing
//	                       it to a callee that keeps it) copies the state; it is accepted only as a MOVE
//	                       (ifaceMoved): the source is a plain variable or parameter, the statement is not
//	                       inside a loop and the variable is not mentioned again afterwards.  `w := d.w;
//	                       w.Write(p)` (a second live reference to the object of d.w) is refused.
//	pointer parameters     a parameter `blk *T` (T a struct) through which the function writes — a field
//	                       assignment `blk.f = …`, or handing it to a callee / interface method that writes
//	                       it — is an OUT parameter as well (the third part refused such functions).
//	                       TRUSTED READING: distinct pointer parameters point to distinct objects.
//	std error variables    `io.EOF`, `io.ErrShortWrite`, … (stdErrVars): distinct constants `io_EOF`, …
//	                       numbered from 2001 (package-level error variables: from 1001; function-local error
//	                       sites: below 1000) in the fifth prelude.
//	s[i:] on a list        a slice that an earlier part models as a LIST (no capacity: the `[]Seq` field of
//	                       Block) may be re-sliced from below: `listSliceFrom s i`, panics unless 0 ≤ i ≤ len;
//	                       `s[i:j]` / `s[:j]` on a list are refused (they depend on the capacity).
//	a call with several    a call that rebinds its receiver AND an argument (or two arguments) is ONE call
//	effects                with effects (the second part counted hoisted rebindings, not calls); the
//	                       receiver path and the paths of the rebound arguments must be disjoint.
//
// Nothing here is keyed on a function name; the per-topic data is the table below, the only
// knowledge about the standard library are the three tables stdIfaceSrc, stdIfaceRO, stdErrVars.
package main

import (
	"fmt"
	"go/ast"
	"go/parser"
	"strings"
)

// topics5: the topics of the fifth part.
var topics5 = []topic{
	{name: "Decoder", doc: "decoder_buffer.go: DecoderBuffer.WriteTo and the methods of Decoder (the destination io.Writer is an abstract state, w.Write an opaque state-passing parameter)",
		fns: cat(methods("DecoderBuffer", "WriteTo"), methods("Decoder", "Init", "Reset", "Flush", "WriteByte", "Write", "WriteBlock")), part2: true},
	{name: "Wrap", doc: "wrap.go: WrappedParser.Parse, Reset (the Parser and the io.Reader are abstract states)",
		fns: methods("WrappedParser", "Parse", "Reset"), part2: true},
}

var part5Topics = map[string]bool{}

func init() {
	for _, t := range topics5 {
		part3Topics[t.name] = true
		part4Topics[t.name] = true
		part5Topics[t.name] = true
	}
}

// ---------------------------------------------------------------- what is known about the standard library

// stdIfaceSrc: the standard interfaces, as documented (package io).
var stdIfaceSrc = map[string]string{
	"io.Writer": "interface{ Write(p []byte) (n int, err error) }",
	"io.Reader": "interface{ Read(p []byte) (n int, err error) }",
}

// stdIfaceRO: methods whose slice arguments the implementation must not write (io.Writer: "Write
// must not modify the slice data, even temporarily.  Implementations must not retain p.").
var stdIfaceRO = map[string]bool{"io.Writer.Write": true}

// stdErrVars: error variables of the standard library; numbered from stdErrBase+1 in this order.
var stdErrVars = []string{"io.EOF", "io.ErrShortWrite", "io.ErrShortBuffer", "io.ErrUnexpectedEOF", "io.ErrNoProgress", "io.ErrClosedPipe"}

const stdErrBase = 2000

func stdErrLean(q string) string { return strings.ReplaceAll(q, ".", "_") }

func stdErrVarOf(q string) (string, bool) {
	for _, s := range stdErrVars {
		if s == q {
			return stdErrLean(q), true
		}
	}
	return "", false
}

// ---------------------------------------------------------------- interface types

type ifaceMeth struct {
	name string
	ft   *ast.FuncType
	ro   bool // slice arguments are not written (stdIfaceRO)
}

type ifaceInfo struct {
	goName string // "io.Writer", "Parser"
	lean   string // "io_Writer", "Parser": the Lean type parameter
	meths  map[string]*ifaceMeth
}

// imKey names an interface method: the parameter `<lean>_<meth>` of the translated functions.
type imKey struct {
	goName, lean, meth string
}

func (k imKey) param() string { return k.lean + "_" + k.meth }

func ifaceLeanName(goName string) string { return strings.ReplaceAll(goName, ".", "_") }

// ifaceByStr resolves the Go spelling of a type to an interface of the package or of stdIfaceSrc
// (nil if it is neither).  Independent of the phase: used by the mutation analysis as well.
func (c *codegen) ifaceByStr(s string) *ifaceInfo {
	if c.ifaces == nil {
		c.ifaces = map[string]*ifaceInfo{}
		c.ifaceDecls = map[string]*ast.InterfaceType{}
		for _, f := range c.p.files {
			for _, d := range f.Decls {
				gd, ok := d.(*ast.GenDecl)
				if !ok {
					continue
				}
				for _, sp := range gd.Specs {
					if ts, ok := sp.(*ast.TypeSpec); ok && ts.TypeParams == nil {
						if it, ok := ts.Type.(*ast.InterfaceType); ok {
							c.ifaceDecls[ts.Name.Name] = it
						}
					}
				}
			}
		}
	}
	if ii, ok := c.ifaces[s]; ok {
		return ii
	}
	var it *ast.InterfaceType
	if src, ok := stdIfaceSrc[s]; ok {
		e, err := parser.ParseExpr(src)
		if err != nil {
			fatal(fmt.Errorf("stdIfaceSrc[%s]: %v", s, err))
		}
		it = e.(*ast.InterfaceType)
	} else if d, ok := c.ifaceDecls[s]; ok {
		it = d
	} else {
		c.ifaces[s] = nil
		return nil
	}
	ii := &ifaceInfo{goName: s, lean: ifaceLeanName(s), meths: map[string]*ifaceMeth{}}
	for _, m := range it.Methods.List {
		ft, ok := m.Type.(*ast.FuncType)
		if !ok || len(m.Names) != 1 {
			continue // an embedded interface: its methods are not known here (a call of one is refused)
		}
		ii.meths[m.Names[0].Name] = &ifaceMeth{name: m.Names[0].Name, ft: ft, ro: stdIfaceRO[s+"."+m.Names[0].Name]}
	}
	c.ifaces[s] = ii
	return ii
}

// ifaceType: the gtype of the interface type expression e (ok = false: not an interface).
func (c *codegen) ifaceType(e ast.Expr) (gtype, bool) {
	if !c.phase5 {
		return gtype{}, false
	}
	s := ""
	switch x := e.(type) {
	case *ast.Ident:
		if c.cur != nil && c.lookup(x.Name) != nil {
			return gtype{}, false
		}
		s = x.Name
	case *ast.SelectorExpr:
		id, ok := x.X.(*ast.Ident)
		if !ok || (c.cur != nil && c.lookup(id.Name) != nil) {
			return gtype{}, false
		}
		s = id.Name + "." + x.Sel.Name
	default:
		return gtype{}, false
	}
	ii := c.ifaceByStr(s)
	if ii == nil {
		return gtype{}, false
	}
	if leanReserved[ii.lean] {
		c.fail(e, "interface type %s: the name is reserved in Lean", s)
	}
	if _, clash := c.structs[ii.lean]; clash {
		c.fail(e, "interface type %s: the Lean name %s is also a struct", s, ii.lean)
	}
	return gtype{kind: kIface, name: ii.lean, goName: s}, true
}

// structTArgs: the type parameters of the Lean structure for the Go struct `name` — the interface
// types of its fields (transitively), in order of first occurrence.
func (c *codegen) structTArgs(name string) []string {
	var out []string
	seen := map[string]bool{}
	var walk func(n string, depth int)
	walk = func(n string, depth int) {
		if depth > 20 {
			return
		}
		for _, f := range c.structs[goStruct(n)] {
			t := f.typ
			for strings.HasPrefix(t, "[]") || strings.HasPrefix(t, "*") {
				t = strings.TrimPrefix(strings.TrimPrefix(t, "[]"), "*")
			}
			if ii := c.ifaceByStr(t); ii != nil {
				if !seen[ii.lean] {
					seen[ii.lean] = true
					out = append(out, ii.lean)
				}
				continue
			}
			if _, ok := c.structs[t]; ok {
				walk(t, depth+1)
			}
		}
	}
	walk(name, 0)
	return out
}

// tparamsOf: the type parameters a definition needs — the interface types in ts and in the
// signatures of the interface methods ms, in order of first occurrence.
func (c *codegen) tparamsOf(ts []gtype, ms []imKey, at ast.Node) []string {
	var out []string
	seen := map[string]bool{}
	var walk func(t gtype)
	walk = func(t gtype) {
		switch t.kind {
		case kIface:
			if !seen[t.name] {
				seen[t.name] = true
				out = append(out, t.name)
			}
		case kStruct:
			for _, a := range t.targs {
				if !seen[a] {
					seen[a] = true
					out = append(out, a)
				}
			}
		case kSlice, kGSlice:
			walk(*t.elem)
		}
	}
	for _, t := range ts {
		walk(t)
	}
	for _, m := range ms {
		walk(gtype{kind: kIface, name: m.lean})
		ps, _, rs := c.imethType(m, at)
		for _, t := range ps {
			walk(t)
		}
		for _, t := range rs {
			walk(t)
		}
	}
	return out
}

// imethType: parameter types, which of them are in-out, result types of an interface method.
func (c *codegen) imethType(k imKey, at ast.Node) (ps []gtype, inout []bool, rs []gtype) {
	ii := c.ifaceByStr(k.goName)
	m := ii.meths[k.meth]
	if m == nil {
		c.fail(at, "interface %s has no method %s (methods of embedded interfaces are not known)", k.goName, k.meth)
	}
	if m.ft.Params != nil {
		for _, p := range m.ft.Params.List {
			if _, ok := p.Type.(*ast.Ellipsis); ok {
				c.fail(at, "interface method %s.%s is variadic", k.goName, k.meth)
			}
			t := c.typeOf(p.Type, at)
			if t.kind == kFunc {
				c.fail(at, "interface method %s.%s has a parameter of function type", k.goName, k.meth)
			}
			_, ptr := p.Type.(*ast.StarExpr)
			io := t.kind == kIface || (ptr && t.kind == kStruct) || ((t.kind == kBytes || t.kind == kGSlice || t.kind == kSlice) && !m.ro)
			n := len(p.Names)
			if n == 0 {
				n = 1
			}
			for i := 0; i < n; i++ {
				ps = append(ps, t)
				inout = append(inout, io)
			}
		}
	}
	if m.ft.Results != nil {
		for _, r := range m.ft.Results.List {
			t := c.typeOf(r.Type, at)
			if t.kind == kFunc || t.kind == kIface {
				c.fail(at, "interface method %s.%s has a result of type %s", k.goName, k.meth, t)
			}
			n := len(r.Names)
			if n == 0 {
				n = 1
			}
			for i := 0; i < n; i++ {
				rs = append(rs, t)
			}
		}
	}
	return
}

// imethDecl: the binder of the parameter that stands for the interface method.
func (c *codegen) imethDecl(k imKey, at ast.Node) string {
	ps, inout, rs := c.imethType(k, at)
	comps := []gtype{{kind: kIface, name: k.lean}}
	ts := []string{k.lean}
	for i, p := range ps {
		s := p.lean()
		if strings.Contains(s, " ") {
			s = "(" + s + ")"
		}
		ts = append(ts, s)
		if inout[i] {
			comps = append(comps, p)
		}
	}
	comps = append(comps, rs...)
	return " (" + k.param() + " : " + strings.Join(ts, " → ") + " → Res (" + tupleType(comps) + "))"
}

func (c *codegen) needIMeth(k imKey, at ast.Node) {
	for _, o := range c.cur.sig.imeths {
		if o == k {
			return
		}
	}
	if !c.cur.probe {
		c.fail(at, "internal error: call of the interface method %s.%s in a function not marked as such", k.goName, k.meth)
	}
	c.cur.sig.imeths = append(c.cur.sig.imeths, k)
}

// sigBinders: the binders of a definition for type parameters, opaque callees and interface
// methods; ts are the types its other binders and its result mention.
func (c *codegen) sigBinders(sig *fnSig, ts []gtype, at ast.Node) string {
	s := ""
	if c.phase5 {
		for _, tp := range c.tparamsOf(ts, sig.imeths, at) {
			s += " {" + tp + " : Type}"
		}
	}
	s += c.opaqueDecls(sig, at)
	for _, o := range sig.sps { // code_opq.go
		s += c.spDecl(o, at)
	}
	for _, m := range sig.imeths {
		s += c.imethDecl(m, at)
	}
	return s
}

// sigArgs: the arguments for the opaque callees and interface methods of a callee (a translated
// function or a loop function) — passed on from the calling function's own parameters.
func (c *codegen) sigArgs(sig *fnSig, at ast.Node) []string {
	var parts []string
	for _, o := range sig.opaques {
		c.needOpaque(o, at)
		parts = append(parts, o.name)
	}
	for _, o := range sig.sps { // code_opq.go
		c.needSP(o, at)
		parts = append(parts, o.param())
	}
	for _, m := range sig.imeths {
		c.needIMeth(m, at)
		parts = append(parts, m.param())
	}
	return parts
}

// ifaceCallee: x is a method call on a variable / field path of interface type.
func (c *codegen) ifaceCallee(x *ast.CallExpr) (recv ast.Expr, k imKey, ok bool) {
	if !c.phase5 {
		return nil, imKey{}, false
	}
	f, isSel := x.Fun.(*ast.SelectorExpr)
	if !isSel {
		return nil, imKey{}, false
	}
	id := rootIdent(f.X)
	if id == nil || c.lookup(id.Name) == nil || indexOf(f.X) != nil {
		return nil, imKey{}, false
	}
	v, p := c.path(f.X)
	t := c.pathType(v, p, x)
	if t.kind != kIface {
		return nil, imKey{}, false
	}
	return f.X, imKey{t.goName, t.name, f.Sel.Name}, true
}

// disjointArgs (fifth part): two arguments rooted at the same variable name different parts of it.
func (c *codegen) disjointArgs(a, b ast.Expr) bool {
	if !c.phase5 || rootIdent(a) == nil || rootIdent(b) == nil || indexOf(a) != nil || indexOf(b) != nil {
		return false
	}
	if c.lookup(rootIdent(a).Name) == nil || c.lookup(rootIdent(b).Name) == nil {
		return false
	}
	va, pa := c.path(a)
	vb, pb := c.path(b)
	return va != vb || disjointPaths(pa, pb)
}

func disjointPaths(p, q []string) bool {
	for i := 0; i < len(p) && i < len(q); i++ {
		if p[i] != q[i] {
			return true
		}
	}
	return false
}

// ifaceCall translates X.M(args…) on an interface value; it returns the values of the Go results.
func (c *codegen) ifaceCall(recv ast.Expr, k imKey, x *ast.CallExpr) ([]string, []gtype) {
	ps, inout, rs := c.imethType(k, x)
	if leanReserved[k.param()] || c.lookup(k.param()) != nil {
		c.fail(x, "interface method %s.%s: the name %s is taken", k.goName, k.meth, k.param())
	}
	if len(ps) != len(x.Args) || x.Ellipsis.IsValid() {
		c.fail(x, "call of %s.%s with %d arguments", k.goName, k.meth, len(x.Args))
	}
	c.needIMeth(k, x)
	rv, rp := c.path(recv)
	c.checkRangeTarget(rv, rp, x)
	c.checkRecvMutation(rootIdent(recv), x)
	r0, _ := c.expr(recv, gtype{}, false)
	parts := []string{k.param(), paren(r0)}
	type outArg struct {
		v  *varInfo
		p  []string
		e  ast.Expr
		lc *lendCand // code_lend.go: the argument is a lent window
		an ast.Expr  // code_lend.go: the argument is an ANONYMOUS lent window S[lo:hi]; an = S
	}
	var outs []outArg
	for i, a := range x.Args {
		s, t := c.expr(a, ps[i], false)
		if !t.eq(ps[i]) {
			c.fail(a, "argument %d of %s.%s has type %s, want %s", i+1, k.goName, k.meth, t, ps[i])
		}
		parts = append(parts, paren(s))
		if !inout[i] {
			continue
		}
		if id, isId := a.(*ast.Ident); isId && id.Name == "nil" && c.lookup("nil") == nil {
			outs = append(outs, outArg{nil, nil, a, nil, nil})
			continue
		}
		if src := c.anonLend(a, ps[i]); src != nil {
			// code_lend.go: `X.M(S[lo:hi])` — the window is lent without a name and written back after the call
			v, p := c.path(src)
			c.checkRangeTarget(v, p, x)
			c.checkAliasWrite(v, p, x, "interface method call that may write its argument")
			if v == rv && !disjointPaths(p, rp) {
				c.fail(a, "argument %d of %s.%s overlaps the receiver of the call", i+1, k.goName, k.meth)
			}
			for _, o := range outs {
				if o.v == v && !disjointPaths(o.p, p) {
					c.fail(a, "two arguments of %s.%s that the callee may write overlap", k.goName, k.meth)
				}
			}
			outs = append(outs, outArg{v, p, a, nil, src})
			continue
		}
		if rootIdent(a) == nil || indexOf(a) != nil {
			c.fail(a, "argument %d of %s.%s may be written by the callee: only a variable, a field path or nil", i+1, k.goName, k.meth)
		}
		v, p := c.path(a)
		c.checkRangeTarget(v, p, x)
		lc := c.lentArg(x, i) // code_lend.go: a window lent to the callee is written back after the call
		if lc == nil {
			c.checkAliasWrite(v, p, x, "interface method call that may write its argument")
		}
		if v == rv && !disjointPaths(p, rp) {
			c.fail(a, "argument %d of %s.%s overlaps the receiver of the call", i+1, k.goName, k.meth)
		}
		for _, o := range outs {
			if o.v == v && !disjointPaths(o.p, p) {
				c.fail(a, "two arguments of %s.%s that the callee may write overlap", k.goName, k.meth)
			}
		}
		outs = append(outs, outArg{v, p, a, lc, nil})
	}
	n := 1 + len(outs) + len(rs)
	r := c.bindRes("r", strings.Join(parts, " "), x)
	c.cur.pre = append(c.cur.pre, "let "+rv.lean+" : "+rv.typ.lean()+" := "+update(rv.lean, rp, proj(r, 0, n)))
	c.cur.mutHoist = append(c.cur.mutHoist, hoist{rootIdent(recv).Name, x})
	c.noteOutParam(rootIdent(recv).Name, len(rp) == 0, x)
	i := 1
	for _, o := range outs {
		if o.an != nil {
			// code_lend.go: S := Slice.writeBack S <what the callee hands back>
			cur, _ := c.expr(o.an, gtype{}, false)
			c.cur.pre = append(c.cur.pre, "let "+o.v.lean+" : "+o.v.typ.lean()+" := "+update(o.v.lean, o.p, "Slice.writeBack "+paren(cur)+" "+paren(proj(r, i, n))))
			c.cur.mutHoist = append(c.cur.mutHoist, hoist{rootIdent(o.an).Name, x})
			c.noteOutParam(rootIdent(o.an).Name, false, x)
			i++
			continue
		}
		if o.v != nil {
			c.cur.pre = append(c.cur.pre, "let "+o.v.lean+" : "+o.v.typ.lean()+" := "+update(o.v.lean, o.p, proj(r, i, n)))
			c.cur.mutHoist = append(c.cur.mutHoist, hoist{rootIdent(o.e).Name, x})
			c.noteOutParam(rootIdent(o.e).Name, len(o.p) == 0, x)
			if o.lc != nil {
				line, root := c.lendWriteBack(o.lc, o.v.lean, x)
				c.cur.pre = append(c.cur.pre, line)
				c.cur.mutHoist = append(c.cur.mutHoist, hoist{root, x})
				c.noteOutParam(root, false, x)
			}
		}
		i++
	}
	var vals []string
	for range rs {
		vals = append(vals, proj(r, i, n))
		i++
	}
	return vals, rs
}

// ifaceMoved: an interface value is COPIED (assigned, stored in a struct, handed to a callee that
// keeps it).  The trusted reading "no second reference" is enforced syntactically as a MOVE: the source
// must be a plain variable or parameter (not a field path, which stays reachable), the statement must
// not be inside a loop, and the variable must not be mentioned again after the statement.
func (c *codegen) ifaceMoved(e ast.Expr, at ast.Node) {
	for {
		p, ok := e.(*ast.ParenExpr)
		if !ok {
			break
		}
		e = p.X
	}
	id, ok := e.(*ast.Ident)
	if !ok || c.lookup(id.Name) == nil {
		c.fail(at, "copy of the interface value %s (only a variable or parameter that is not used afterwards may be copied: a second reference to the same object cannot be expressed)", c.src(e))
	}
	if len(c.cur.loops) > 0 {
		c.fail(at, "copy of the interface value %s inside a loop", id.Name)
	}
	v := c.lookup(id.Name)
	later := false
	ast.Inspect(c.cur.fd.Body, func(n ast.Node) bool {
		if o, ok := n.(*ast.Ident); ok && o.Name == id.Name && o.Pos() >= at.End() {
			later = true
		}
		return !later
	})
	if later {
		c.fail(at, "the interface value %s is used after it has been copied (a second reference to the same object cannot be expressed)", id.Name)
	}
	_ = v
}

// markIfaceEffects (for assignedOuter2): what a call inside a statement list rebinds beyond what the
// earlier parts know — the receiver and the in-out arguments of an interface method call, the
// arguments passed for out parameters of a translated METHOD.
func (c *codegen) markIfaceEffects(call *ast.CallExpr, local func(string) bool, mark func(ast.Expr)) {
	f, ok := call.Fun.(*ast.SelectorExpr)
	if !ok {
		return
	}
	id := rootIdent(f.X)
	if id == nil || local(id.Name) || c.lookup(id.Name) == nil || indexOf(f.X) != nil {
		return
	}
	v, p := c.path(f.X)
	t := c.pathType(v, p, call)
	switch t.kind {
	case kIface:
		mark(f.X)
		k := imKey{t.goName, t.name, f.Sel.Name}
		ps, inout, _ := c.imethType(k, call)
		for i, a := range call.Args {
			if i < len(ps) && inout[i] {
				if se, ok := a.(*ast.SliceExpr); ok && pathOf(se.X) != nil {
					mark(se.X) // code_lend.go: an anonymous lent window is written back
					continue
				}
			}
			if i < len(ps) && inout[i] && rootIdent(a) != nil {
				mark(a)
				if lc := c.lentArg(call, i); lc != nil {
					mark(lc.src) // code_lend.go: the source of a lent window is written back
				}
			}
		}
	case kStruct:
		k := fnKey{goStruct(t.name), f.Sel.Name}
		if !c.whiteSet[k] || c.busy[k] || c.spOf[spKey{"", k.recv, k.name}] != nil { // code_osap.go: an opaque method is handled by markSPEffects
			return
		}
		c.ensure(k, call)
		sig := c.sigs[k]
		if sig == nil || len(sig.params) != len(call.Args) {
			return
		}
		args := c.addrArgs(call.Args, sig) // code_lend.go
		for i, sp := range sig.params {
			if sp.out && rootIdent(args[i]) != nil {
				mark(args[i])
			}
		}
	}
}

// ptrParamsWritten: the parameters of type *T (T a struct) the body assigns through — they become
// out parameters (fifth part).
func (c *codegen) ptrParamsWritten(fd *ast.FuncDecl) map[string]bool {
	out := map[string]bool{}
	if fd.Type.Params == nil {
		return out
	}
	ptr := map[string]bool{}
	for _, f := range fd.Type.Params.List {
		if _, isPtr := f.Type.(*ast.StarExpr); isPtr {
			for _, n := range f.Names {
				ptr[n.Name] = true
			}
		}
	}
	if len(ptr) == 0 {
		return out
	}
	for _, n := range c.assignedOuter2(fd, fd.Body.List) {
		if ptr[n] {
			out[n] = true
		}
	}
	return out
}

// ---------------------------------------------------------------- fifth prelude

func leanPrelude5() string {
	var sb strings.Builder
	sb.WriteString("/-! ### fifth prelude: error variables of the standard library, re-slicing of list-valued slices -/\n")
	for i, q := range stdErrVars {
		fmt.Fprintf(&sb, "\n/-- `%s` -/\ndef %s : Err := Err.error %d\n", q, stdErrLean(q), stdErrBase+1+i)
	}
	sb.WriteString(`
/-- ` + "`s[i:]`" + ` on a slice that is modelled as a list (no capacity): panics unless 0 ≤ i ≤ len(s) -/
def listSliceFrom {α : Type} (s : List α) (i : Int) : Res (List α) :=
  if 0 ≤ i ∧ i ≤ Int.ofNat s.length then Res.ok (s.drop i.toNat) else Res.panic
`)
	return sb.String()
}
