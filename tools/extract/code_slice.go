// code_slice.go — second part of the translation: byte slices as values
// (Slice), operations that may panic (Res), `for cond { … }` loops
// (fuel-indexed recursive functions), several and named results, package
// level error variables, embedded structs, composite literals.
//
// Conventions of the generated definitions of this part:
//
//	def F [grow] [fuel] [recv] params… : T        or  : Res T
//
// where T is the tuple of  (receiver, if the method mutates it) ×
// (every []byte parameter the function copies into) × (the Go results).
// `grow : Nat → Nat → Nat` (old capacity → needed length → new capacity) is
// present iff the function appends, `fuel : Nat` iff it loops, `Res` iff it
// contains an operation that may panic or a loop.
//
// Evaluation order (flush): a call with effects is hoisted in front of its statement; the
// statement must not read the modified variable outside of that call.  Exception for the builtin
// copy, which writes elements only: reads of a slice HEADER next to it — the operand P of
// P[lo:hi], len(P), cap(P), a plain assignment target, P a variable or field path — are the same
// before and after the call and are accepted (`b.Data = b.Data[:copy(b.Data, b.Data[d:])]`).
//
// State order (assignedOuter2): the variables a loop or an `if` assigns are listed in the order of
// their first assignment, or — for the topics of declOrderTopics (code_part4.go) — of their
// declaration.
package main

import (
	"fmt"
	"go/ast"
	"go/token"
	"regexp"
	"sort"
	"strings"
)

type sparam struct {
	name string
	typ  gtype
	out  bool // []byte parameter written through copy: returned to the caller
}

type sresult struct {
	name string // "" for unnamed results
	typ  gtype
}

type fnSig struct {
	recvMut bool
	recv    gtype
	params  []sparam
	results []sresult
	monadic bool
	grow    bool
	fuel    bool
	// fourth part: the opaque callees the function (transitively) calls, in order of first use —
	// parameters of the Lean function; the callback parameters (kFunc) are marked in params
	opaques []fnKey
	// fifth part: the interface methods the function (transitively) calls — parameters as well
	imeths []imKey
	// code_opq.go: the opaque state-passing callees the function (transitively) calls — parameters as well
	sps []spKey
	// code_parse.go: the local aliases of byte slices found so far (carried from the probe pass to the
	// emitting pass, so that a write that textually precedes the aliasing statement in a loop is seen)
	aliases []sliceAlias
}

// comps lists the types of the components of the Lean result.
func (s *fnSig) comps() []gtype {
	var ts []gtype
	if s.recvMut {
		ts = append(ts, s.recv)
	}
	for _, p := range s.params {
		if p.out {
			ts = append(ts, p.typ)
		}
	}
	for _, r := range s.results {
		ts = append(ts, r.typ)
	}
	return ts
}

func tupleType(ts []gtype) string {
	if len(ts) == 0 {
		return "Unit"
	}
	var ss []string
	for _, t := range ts {
		ss = append(ss, t.lean())
	}
	return strings.Join(ss, " × ")
}

func tupleVal(vs []string) string {
	if len(vs) == 0 {
		return "()"
	}
	if len(vs) == 1 {
		return vs[0]
	}
	return "(" + strings.Join(vs, ", ") + ")"
}

// proj is the i-th of n components of the tuple t.
func proj(t string, i, n int) string {
	if n == 1 {
		return t
	}
	s := t + strings.Repeat(".2", i)
	if i < n-1 {
		s += ".1"
	}
	return s
}

type hoist struct {
	root string
	call ast.Node
}

type loopDef struct {
	pos  token.Pos
	name string
	text []string
}

type loopCtx struct {
	breakK  cont
	contK   cont
	exitK   func(code int) []string
	escapes []string // labels the body jumps to
	label   string   // fourth part: the label of the loop statement ("" if none)
	brk     bool     // a break statement leaves this loop
	// third part: `range P` over a slice value — Lean name of the root of P and the field path
	rangeVar  string
	rangePath []string
	pos       token.Pos // code_parse.go: position of the loop statement
}

type errVar struct {
	name string
	lean string
	msg  string
	pos  ast.Node
	num  int
}

var tmpName = regexp.MustCompile(`^(t|r|join|acc)_[0-9]+$`)

// ---------------------------------------------------------------- package-level error variables

// collectErrVars finds `var X = errors.New("…")` at package level; a variable
// that is assigned anywhere in the package is not a constant and is dropped.
func (c *codegen) collectErrVars() {
	c.errVars = map[string]*errVar{}
	c.errVarDropped = map[string]bool{}
	var names []string
	for _, f := range c.p.files {
		for _, d := range f.Decls {
			gd, ok := d.(*ast.GenDecl)
			if !ok || gd.Tok != token.VAR {
				continue
			}
			for _, sp := range gd.Specs {
				vs := sp.(*ast.ValueSpec)
				if len(vs.Values) != len(vs.Names) {
					continue
				}
				for i, nm := range vs.Names {
					call, ok := vs.Values[i].(*ast.CallExpr)
					if !ok || len(call.Args) != 1 {
						continue
					}
					se, ok := call.Fun.(*ast.SelectorExpr)
					if !ok {
						continue
					}
					if id, ok := se.X.(*ast.Ident); !ok || id.Name != "errors" || se.Sel.Name != "New" {
						continue
					}
					msg, ok := strArg(call.Args[0])
					if !ok {
						continue
					}
					c.errVars[nm.Name] = &errVar{name: nm.Name, lean: nm.Name, msg: msg, pos: nm}
					names = append(names, nm.Name)
				}
			}
		}
	}
	// assignments / address-of anywhere in the package
	for _, f := range c.p.files {
		ast.Inspect(f, func(n ast.Node) bool {
			switch x := n.(type) {
			case *ast.AssignStmt:
				for _, l := range x.Lhs {
					if id, ok := l.(*ast.Ident); ok && x.Tok != token.DEFINE {
						// conservative: any assignment to an identifier of that name (even a local one)
						if ev := c.errVars[id.Name]; ev != nil {
							delete(c.errVars, id.Name)
							c.errVarDropped[id.Name] = true
						}
					}
				}
			case *ast.UnaryExpr:
				if id, ok := x.X.(*ast.Ident); ok && x.Op == token.AND {
					if c.errVars[id.Name] != nil {
						c.errVarDropped[id.Name] = true
					}
					delete(c.errVars, id.Name)
				}
			}
			return true
		})
	}
	sortStrings(names)
	i := 0
	for _, n := range names {
		if ev := c.errVars[n]; ev != nil {
			i++
			ev.num = errVarBase + i
		}
	}
}

// error variables are numbered from errVarBase+1 in alphabetical order of all
// error variables of the package; function-local error sites stay below.
const errVarBase = 1000

func (c *codegen) errVarOf(name string, at ast.Node) *errVar {
	ev := c.errVars[name]
	if ev == nil {
		return nil
	}
	if leanReserved[name] {
		c.fail(at, "error variable %s is reserved in Lean", name)
	}
	for _, u := range c.errVarUse {
		if u == name {
			return ev
		}
	}
	c.errVarUse = append(c.errVarUse, name)
	return ev
}

// ---------------------------------------------------------------- hoisting

func (c *codegen) newTmp(prefix string) string {
	c.cur.tmp++
	n := fmt.Sprintf("%s_%d", prefix, c.cur.tmp)
	c.cur.used[n] = true
	return n
}

// bindRes hoists a computation of type Res T and returns the name of its value.
func (c *codegen) bindRes(prefix, e string, at ast.Node) string {
	c.needMonadic(at)
	c.cur.nbind++
	t := c.newTmp(prefix)
	c.cur.pre = append(c.cur.pre, "Res.bind ("+e+") fun "+t+" =>")
	return t
}

func (c *codegen) needMonadic(at ast.Node) {
	if !c.phase2 {
		c.fail(at, "operation that may panic (only supported in the second part of the whitelist)")
	}
	if c.cur.sig.monadic {
		return
	}
	if !c.cur.probe {
		c.fail(at, "internal error: operation that may panic in a function not marked as such")
	}
	c.cur.sig.monadic = true
}

func (c *codegen) needGrow(at ast.Node) {
	if c.cur.sig.grow {
		return
	}
	if !c.cur.probe {
		c.fail(at, "internal error: append in a function not marked as such")
	}
	c.cur.sig.grow = true
}

func (c *codegen) needFuel(at ast.Node) {
	if c.cur.sig.fuel {
		return
	}
	if !c.cur.probe {
		c.fail(at, "internal error: loop in a function not marked as such")
	}
	c.cur.sig.fuel = true
}

// flush returns the lines hoisted while translating the expressions of one
// statement; exprs are those expressions (for the evaluation-order check: a statement must
// not read a variable outside of the call that modifies it — except, for the builtin copy,
// reads of a slice HEADER, see below).
func (c *codegen) flush(exprs ...ast.Node) []string {
	pre := c.cur.pre
	c.cur.pre = nil
	hs := c.cur.mutHoist
	c.cur.mutHoist = nil
	for _, h := range hs {
		// one call may rebind several variables (receiver and out arguments): hoists of the same call count once
		if h.call != hs[0].call {
			c.fail(h.call, "two calls with effects in one statement (evaluation order)")
		}
	}
	for _, h := range hs {
		// copy(dst, src) writes ELEMENTS only: the slice header of dst (and of everything else) is the
		// same before and after the call, so reading a header — the operand P of P[lo:hi], len(P),
		// cap(P), P a variable or field path — gives the same value in either evaluation order; the
		// elements seen through the resulting slice are in Go those of the shared array, i.e. the
		// ones after the call, which is what the hoisted rebinding yields.
		headerOnly := map[ast.Node]bool{}
		if hc, isCall := h.call.(*ast.CallExpr); isCall && isBuiltin(hc, "copy") && c.lookup("copy") == nil {
			for _, e := range exprs {
				if e == nil {
					continue
				}
				ast.Inspect(e, func(n ast.Node) bool {
					switch y := n.(type) {
					case *ast.AssignStmt:
						// a plain assignment TO a path does not read it (and copy does not move it)
						if y.Tok == token.ASSIGN || y.Tok == token.DEFINE {
							for _, l := range y.Lhs {
								if pathOf(l) != nil {
									headerOnly[l] = true
								}
							}
						}
					case *ast.SliceExpr:
						if pathOf(y.X) != nil {
							headerOnly[y.X] = true
						}
					case *ast.CallExpr:
						if (isBuiltin(y, "len") || isBuiltin(y, "cap")) && len(y.Args) == 1 && pathOf(y.Args[0]) != nil &&
							c.lookup(y.Fun.(*ast.Ident).Name) == nil {
							headerOnly[y.Args[0]] = true
						}
					}
					return true
				})
			}
		}
		for _, e := range exprs {
			if e == nil {
				continue
			}
			ast.Inspect(e, func(n ast.Node) bool {
				if n == nil {
					return false
				}
				if n.Pos() >= h.call.Pos() && n.End() <= h.call.End() {
					return false
				}
				if headerOnly[n] {
					return false
				}
				if id, ok := n.(*ast.Ident); ok && id.Name == h.root {
					c.fail(id, "statement reads %s outside of the call %s that modifies it (evaluation order is not fixed by Go)", h.root, c.src(h.call))
				}
				return true
			})
		}
	}
	return pre
}

// ---------------------------------------------------------------- slice expressions

func (c *codegen) intIndex(e ast.Expr) string {
	s, t := c.expr(e, gtype{kind: kInt}, false)
	switch {
	case t.kind == kInt:
		return paren(s)
	case t.unsigned():
		return "(Int.ofNat " + paren(s) + ".toNat)"
	case t.kind == kI32:
		return paren(s) + ".toInt"
	}
	c.fail(e, "index of type %s", t)
	return ""
}

func (c *codegen) indexExpr(x *ast.IndexExpr) (string, gtype) {
	s, t := c.expr(x.X, gtype{}, false)
	if t.kind == kGSlice {
		i := c.intIndex(x.Index)
		return c.bindRes("t", "GSlice.index "+c.zeroTyped(*t.elem, x)+" "+paren(s)+" "+i, x), *t.elem
	}
	if t.kind != kBytes {
		c.fail(x, "index expression on %s (only []byte values)", t)
	}
	i := c.intIndex(x.Index)
	return c.bindRes("t", "Slice.index "+paren(s)+" "+i, x), gtype{kind: kU8}
}

func (c *codegen) sliceExpr(x *ast.SliceExpr) (string, gtype) {
	if x.Slice3 || x.Max != nil {
		c.fail(x, "3-index slice expression")
	}
	s, t := c.expr(x.X, gtype{}, false)
	if t.kind == kSlice && c.phase5 {
		// a slice modelled as a list has no capacity: only s[i:] is determined by its value
		if c.constZero(x.High) && (x.Low == nil || c.constZero(x.Low)) {
			// code_parse.go: s[:0] / s[0:0] — 0 ≤ 0 ≤ cap(s) holds for every capacity: never panics,
			// the value is the empty list (the capacity it keeps is not modelled for lists)
			return "([] : " + t.lean() + ")", t
		}
		if x.High != nil || x.Low == nil {
			c.fail(x, "slice expression %s on a list-valued slice (only s[i:]: the upper bound of s[i:j] is checked against the capacity, which the list model does not have)", c.src(x))
		}
		return c.bindRes("t", "listSliceFrom "+paren(s)+" "+c.intIndex(x.Low), x), t
	}
	if t.kind != kBytes && t.kind != kGSlice {
		c.fail(x, "slice expression on %s (only []byte values)", t)
	}
	lo, hi := "0", "(Int.ofNat "+paren(s)+".len)"
	if x.Low != nil {
		lo = c.intIndex(x.Low)
	}
	if x.High != nil {
		hi = c.intIndex(x.High)
	}
	if t.kind == kGSlice {
		return c.bindRes("t", "GSlice.slice "+paren(s)+" "+lo+" "+hi, x), t
	}
	return c.bindRes("t", "Slice.slice "+paren(s)+" "+lo+" "+hi, x), gtype{kind: kBytes}
}

func (c *codegen) compositeLit(x *ast.CompositeLit) (string, gtype) {
	if !c.phase2 {
		c.fail(x, "composite literal")
	}
	id, ok := x.Type.(*ast.Ident)
	if !ok || (c.structs[id.Name] == nil && !(c.phase4 && c.cur.localTypes[id.Name] != "")) || c.lookup(id.Name) != nil {
		c.fail(x, "composite literal of type %s (only struct types)", c.src(x.Type))
	}
	t := c.typeOf(id, x)
	given := map[string]string{}
	elts := x.Elts
	if c.phase4 {
		elts = c.keyedElts(x, t)
	}
	for _, el := range elts {
		kv, ok := el.(*ast.KeyValueExpr)
		if !ok {
			c.fail(el, "positional composite literal")
		}
		key, ok := kv.Key.(*ast.Ident)
		if !ok {
			c.fail(el, "composite literal key")
		}
		var ft gtype
		found := false
		for _, sf := range c.structFields(t.name, x) {
			if sf.name == key.Name {
				ft, found = sf.typ, true
			}
		}
		if !found {
			c.fail(el, "struct %s has no field %s", id.Name, key.Name)
		}
		if _, dup := given[key.Name]; dup {
			c.fail(el, "duplicate field %s", key.Name)
		}
		v, vt := c.expr(kv.Value, ft, true)
		if !vt.eq(ft) {
			c.fail(el, "field %s of type %s initialised with %s", key.Name, ft, vt)
		}
		if c.phase3 {
			c.checkNoSliceAlias(ft, nil, kv.Value, el)
		}
		if ft.kind == kIface {
			c.ifaceMoved(kv.Value, x)
		}
		given[key.Name] = v
	}
	var fs []string
	for _, sf := range c.structFields(t.name, x) {
		v, ok := given[sf.name]
		if !ok {
			v = c.zeroOf(sf.typ, x)
		}
		fs = append(fs, sf.name+" := "+v)
	}
	return "({ " + strings.Join(fs, ", ") + " } : " + t.name + ")", t
}

// ---------------------------------------------------------------- builtins on slices

func (c *codegen) lenCap(name string, x *ast.CallExpr) (string, gtype) {
	if len(x.Args) != 1 {
		c.fail(x, "%s with %d arguments", name, len(x.Args))
	}
	s, t := c.expr(x.Args[0], gtype{}, false)
	switch {
	case t.kind == kBytes || t.kind == kGSlice:
		return "Int.ofNat " + paren(s) + "." + name, gtype{kind: kInt}
	case t.kind == kSlice && name == "len":
		return "Int.ofNat " + paren(s) + ".length", gtype{kind: kInt}
	}
	c.fail(x, "%s of %s", name, t)
	return "", gtype{}
}

// copyCall translates copy(dst, src): dst must be a variable or a field path;
// the call is hoisted, dst is rebound to the modified slice, the value is the count.
func (c *codegen) copyCall(x *ast.CallExpr) (string, gtype) {
	if !c.phase2 {
		c.fail(x, "copy")
	}
	if len(x.Args) != 2 {
		c.fail(x, "copy with %d arguments", len(x.Args))
	}
	if rootIdent(x.Args[0]) == nil {
		c.fail(x, "copy into %s (only into a variable or a field path: the modified slice must have a name)", c.src(x.Args[0]))
	}
	v, p := c.path(x.Args[0])
	if t := c.pathType(v, p, x); t.kind != kBytes {
		c.fail(x, "copy into %s", t)
	}
	c.checkAliasWrite(v, p, x, "copy into")
	dst, _ := c.expr(x.Args[0], gtype{}, false)
	src, st := c.expr(x.Args[1], gtype{kind: kBytes}, false)
	if st.kind != kBytes {
		c.fail(x, "copy from %s", st)
	}
	r := c.newTmp("r")
	c.cur.pre = append(c.cur.pre, "let "+r+" := Slice.copy "+paren(dst)+" "+paren(src))
	c.cur.pre = append(c.cur.pre, "let "+v.lean+" : "+v.typ.lean()+" := "+update(v.lean, p, r+".1"))
	c.cur.mutHoist = append(c.cur.mutHoist, hoist{rootIdent(x.Args[0]).Name, x})
	c.noteOutParam(rootIdent(x.Args[0]).Name, len(p) == 0, x)
	return r + ".2", gtype{kind: kInt}
}

// noteOutParam: a []byte parameter is written through; it must have been
// recognised as an out parameter and must never be re-assigned.
func (c *codegen) noteOutParam(name string, direct bool, at ast.Node) {
	v := c.lookup(name)
	if v == nil || v.depth != 0 {
		return // not a parameter
	}
	for i, p := range c.cur.sig.params {
		if p.name == name && (p.typ.kind == kBytes || (c.phase4 && p.typ.kind == kGSlice) || (c.phase5 && p.typ.kind == kIface)) {
			if !direct {
				c.fail(at, "write through a part of the parameter %s", name)
			}
			if !p.out {
				if !c.cur.probe {
					c.fail(at, "internal error: parameter %s written through but not an out parameter", name)
				}
				c.cur.sig.params[i].out = true
			}
		}
	}
}

var appendTargetKey = "\x00append"

func (c *codegen) appendCall(x *ast.CallExpr, target string) (string, gtype) {
	if !c.phase2 {
		c.fail(x, "append")
	}
	if len(x.Args) != 2 {
		c.fail(x, "append with %d arguments", len(x.Args))
	}
	if target == "" || c.src(x.Args[0]) != target || rootIdent(x.Args[0]) == nil {
		c.fail(x, "append whose result is not assigned back to its first argument (x = append(x, …)): slices are values, the old x would go stale")
	}
	a, at := c.expr(x.Args[0], gtype{}, false)
	if av, ap := c.path(x.Args[0]); av != nil {
		c.checkAliasWrite(av, ap, x, "append to")
	}
	if at.kind == kGSlice && c.phase4 {
		return c.appendGSlice(x, a, at)
	}
	if at.kind == kSlice && c.phase5 {
		return c.appendList(x, a, at) // code_parse.go
	}
	if at.kind != kBytes {
		c.fail(x, "append to %s", at)
	}
	c.needGrow(x)
	if x.Ellipsis != token.NoPos {
		b, bt := c.expr(x.Args[1], gtype{kind: kBytes}, false)
		switch {
		case bt.kind == kBytes:
			return "Slice.append grow " + paren(a) + " " + paren(b) + ".data", at
		case bt.kind == kSlice && bt.elem.kind == kU8:
			return "Slice.append grow " + paren(a) + " " + paren(b), at
		}
		c.fail(x, "append of %s...", bt)
	}
	b, bt := c.expr(x.Args[1], gtype{kind: kU8}, false)
	if bt.kind != kU8 {
		c.fail(x, "append of an element of type %s", bt)
	}
	return "Slice.append grow " + paren(a) + " [" + b + "]", at
}

func (c *codegen) makeCall(x *ast.CallExpr) (string, gtype) {
	if !c.phase2 {
		c.fail(x, "make")
	}
	if len(x.Args) < 2 || len(x.Args) > 3 {
		c.fail(x, "make with %d arguments", len(x.Args))
	}
	mt := c.typeOf(x.Args[0], x)
	if mt.kind != kBytes && mt.kind != kGSlice {
		c.fail(x, "make of %s (only []byte)", mt)
	}
	n := c.intIndex(x.Args[1])
	cp := n
	if len(x.Args) == 3 {
		cp = c.intIndex(x.Args[2])
	}
	if mt.kind == kGSlice {
		return c.bindRes("t", "GSlice.make "+c.zeroTyped(*mt.elem, x)+" "+n+" "+cp, x), mt
	}
	return c.bindRes("t", "Slice.make "+n+" "+cp, x), gtype{kind: kBytes}
}

// ---------------------------------------------------------------- calls of whitelisted functions (second part)

// call2 translates the call of a whitelisted function; the call is hoisted
// when it has effects, may panic or has several results.  It returns the
// values of the Go results.
func (c *codegen) call2(k fnKey, recv ast.Expr, x *ast.CallExpr) ([]string, []gtype) {
	c.ensure(k, x)
	sig := c.sigs[k]
	parts := []string{"LZ.Gen." + leanFn(k)}
	if sig.grow {
		c.needGrow(x)
		parts = append(parts, "grow")
	}
	if sig.fuel {
		c.needFuel(x)
		parts = append(parts, "fuel")
	}
	parts = append(parts, c.sigArgs(sig, x)...)
	var recvVar *varInfo
	var recvPath []string
	if k.recv != "" {
		if sig.recvMut {
			if rootIdent(recv) == nil {
				c.fail(x, "call of the mutating method %s on %s (only on a variable or field path)", fnName(k), c.src(recv))
			}
			recvVar, recvPath = c.path(recv)
			c.checkRangeTarget(recvVar, recvPath, x)
			// code_parse.go: a method whose element-write footprint is known is judged by it
			if fp, known := c.elemFootprint(k); known && c.phase5 {
				for _, q := range fp {
					c.checkAliasWrite(recvVar, append(append([]string{}, recvPath...), q...), x, "call of a method that writes elements of")
				}
			} else {
				c.checkAliasWrite(recvVar, recvPath, x, "call of a method that mutates")
			}
			c.checkRecvMutation(rootIdent(recv), x)
		}
		r, rt := c.expr(recv, gtype{}, false)
		if rt.kind != kStruct || goStruct(rt.name) != k.recv {
			c.fail(x, "method %s called on %s", fnName(k), rt)
		}
		parts = append(parts, paren(r))
	}
	if len(sig.params) != len(x.Args) || x.Ellipsis != token.NoPos {
		c.fail(x, "call of %s with %d arguments (variadic calls are not supported)", fnName(k), len(x.Args))
	}
	type outArg struct {
		v  *varInfo
		p  []string
		e  ast.Expr
		cb bool
	}
	var outs []outArg
	args := c.addrArgs(x.Args, sig) // code_lend.go: `&P` for a pointer parameter is the path P
	for i, a := range args {
		pt := sig.params[i].typ
		if pt.kind == kFunc {
			// the callback is handed on: the callee's log is appended to ours
			id, ok := a.(*ast.Ident)
			var v *varInfo
			if ok {
				v = c.lookup(id.Name)
			}
			if v == nil || !v.typ.eq(pt) {
				c.fail(a, "argument %d of %s must be a callback parameter of the calling function (type %s)", i+1, fnName(k), pt)
			}
			outs = append(outs, outArg{v, nil, a, true})
			continue
		}
		s, t := c.expr(a, pt, false)
		if !t.eq(pt) {
			c.fail(a, "argument %d of %s has type %s, want %s", i+1, fnName(k), t, pt)
		}
		parts = append(parts, paren(s))
		if c.phase5 && pt.kind == kGSlice && !sig.params[i].out && c.consumedParam(c.fns[k], sig.params[i].name) && !c.consumedArgOK(a) {
			// code_osap.go
			c.fail(a, "argument %d of %s is consumed by the callee (appended to and handed back): only `X.f[:0]` with f a scratch field (every occurrence of .f in the package is `X.f[:0]`)", i+1, fnName(k))
		}
		if pt.kind == kIface && !sig.params[i].out {
			c.ifaceMoved(a, x) // the callee keeps the value (it does not hand its state back)
		}
		if sig.params[i].out {
			if rootIdent(a) == nil {
				c.fail(a, "argument %d of %s is written by the callee: only a variable or field path", i+1, fnName(k))
			}
			v, p := c.path(a)
			c.checkRangeTarget(v, p, x)
			c.checkAliasWrite(v, p, x, "call that writes its argument")
			if c.phase5 {
				if recvVar != nil && recvVar == v && !disjointPaths(recvPath, p) {
					c.fail(a, "argument %d of %s, which the callee writes, overlaps the receiver of the call", i+1, fnName(k))
				}
				for _, o := range outs {
					if !o.cb && o.v == v && !disjointPaths(o.p, p) {
						c.fail(a, "two arguments of %s that the callee writes overlap", fnName(k))
					}
				}
			}
			outs = append(outs, outArg{v, p, a, false})
		}
	}
	app := strings.Join(parts, " ")
	comps := sig.comps()
	n := len(comps)
	var rtypes []gtype
	for _, r := range sig.results {
		rtypes = append(rtypes, r.typ)
	}
	if !sig.monadic && !sig.recvMut && len(outs) == 0 && len(rtypes) == 1 {
		return []string{app}, rtypes // pure function with one result: used in place
	}
	var r string
	if sig.monadic {
		r = c.bindRes("r", app, x)
	} else if n == 1 && sig.recvMut {
		// let recv := F recv …
		c.cur.pre = append(c.cur.pre, "let "+recvVar.lean+" : "+recvVar.typ.lean()+" := "+update(recvVar.lean, recvPath, app))
		c.cur.mutHoist = append(c.cur.mutHoist, hoist{rootIdent(recv).Name, x})
		return nil, nil
	} else {
		r = c.newTmp("r")
		c.cur.pre = append(c.cur.pre, "let "+r+" := "+app)
	}
	i := 0
	if sig.recvMut {
		c.cur.pre = append(c.cur.pre, "let "+recvVar.lean+" : "+recvVar.typ.lean()+" := "+update(recvVar.lean, recvPath, proj(r, i, n)))
		c.cur.mutHoist = append(c.cur.mutHoist, hoist{rootIdent(recv).Name, x})
		i++
	}
	for j, o := range outs {
		if o.cb {
			c.cur.pre = append(c.cur.pre, "let "+o.v.lean+" : "+o.v.typ.lean()+" := "+o.v.lean+" ++ "+proj(r, i, n))
			c.cur.mutHoist = append(c.cur.mutHoist, hoist{rootIdent(o.e).Name, x})
			i++
			continue
		}
		if c.phase4 {
			// the same variable passed for a written parameter and for another one: aliasing
			for j2, a2 := range args {
				if id2 := rootIdent(a2); id2 != nil && a2 != o.e && id2.Name == rootIdent(o.e).Name && !c.disjointArgs(a2, o.e) {
					c.fail(x, "variable %s is passed twice to %s, which writes one of the two parameters (aliasing)", id2.Name, fnName(k))
				}
				_ = j2
			}
		}
		_ = j
		c.cur.pre = append(c.cur.pre, "let "+o.v.lean+" : "+o.v.typ.lean()+" := "+update(o.v.lean, o.p, proj(r, i, n)))
		c.cur.mutHoist = append(c.cur.mutHoist, hoist{rootIdent(o.e).Name, x})
		c.noteOutParam(rootIdent(o.e).Name, len(o.p) == 0, x)
		i++
	}
	var vals []string
	for range rtypes {
		vals = append(vals, proj(r, i, n))
		i++
	}
	return vals, rtypes
}

// calleeOf resolves the callee of a call of a whitelisted function or method.
func (c *codegen) calleeOf(x *ast.CallExpr) (fnKey, ast.Expr, bool) {
	switch f := x.Fun.(type) {
	case *ast.Ident:
		if c.lookup(f.Name) != nil {
			return fnKey{}, nil, false
		}
		k := fnKey{"", f.Name}
		return k, nil, c.whiteSet[k]
	case *ast.SelectorExpr:
		if id, ok := f.X.(*ast.Ident); ok && c.lookup(id.Name) == nil {
			return fnKey{}, nil, false
		}
		if rootIdent(f.X) == nil {
			return fnKey{}, nil, false
		}
		v, p := c.path(f.X)
		t := c.pathType(v, p, x)
		if t.kind != kStruct {
			return fnKey{}, nil, false
		}
		k := fnKey{goStruct(t.name), f.Sel.Name}
		if c.fns[k] == nil {
			// method promoted from an embedded struct
			if pp := c.promotedMethod(t.name, f.Sel.Name, x); pp != nil {
				if !c.phase5 {
					c.fail(x, "call of the promoted method %s.%s", pp[len(pp)-1], f.Sel.Name)
				}
				// code_parse.go: `s.m(…)` is `s.E1.E2.m(…)`, E1.E2 the embedded fields on the way to
				// the struct that declares m (Go spec, "Selectors": x.f ≡ (&x.E1.E2).f)
				var recv ast.Expr = f.X
				for _, e := range pp {
					recv = &ast.SelectorExpr{X: recv, Sel: &ast.Ident{NamePos: f.Sel.Pos(), Name: e}}
				}
				k = fnKey{pp[len(pp)-1], f.Sel.Name}
				if !c.whiteSet[k] {
					c.fail(x, "call of non-whitelisted method %s", fnName(k))
				}
				return k, recv, true
			}
		}
		if !c.whiteSet[k] {
			c.fail(x, "call of non-whitelisted method %s", fnName(k))
		}
		return k, f.X, true
	}
	return fnKey{}, nil, false
}

// multiAssign translates  a, b := f(…)  /  a, b = f(…)  for a whitelisted f.
func (c *codegen) multiAssign(x *ast.AssignStmt) []string {
	call, ok := x.Rhs[0].(*ast.CallExpr)
	if !ok {
		c.fail(x, "assignment of a multi-valued expression")
	}
	var vals []string
	var types []gtype
	if sk, srecv, isSP := c.spCalleeOf(call); isSP { // code_opq.go
		vals, types = c.spCall(sk, srecv, call, false)
	} else if irecv, ik, isIface := c.ifaceCallee(call); isIface {
		vals, types = c.ifaceCall(irecv, ik, call)
	} else {
		k, recv, ok := c.calleeOf(call)
		if !ok {
			c.fail(x, "assignment of the multi-valued call %s", c.src(call))
		}
		vals, types = c.call2(k, recv, call)
	}
	if len(vals) != len(x.Lhs) {
		c.fail(x, "assignment of %d values to %d variables", len(vals), len(x.Lhs))
	}
	lines := c.flush(x)
	def := x.Tok == token.DEFINE
	for i, l := range x.Lhs {
		id, isId := l.(*ast.Ident)
		if isId && id.Name == "_" {
			continue
		}
		if def && isId {
			if _, ok := c.cur.scopes[len(c.cur.scopes)-1][id.Name]; !ok {
				v := c.declare(id.Name, types[i])
				lines = append(lines, fmt.Sprintf("let %s : %s := %s", v.lean, types[i].lean(), vals[i]))
				continue
			}
		}
		if ix, _ := indexStep(l); ix != nil {
			c.fail(x, "assignment of a call result to the element %s", c.src(l))
		}
		v, p := c.path(l)
		t := c.pathType(v, p, l)
		if !t.eq(types[i]) {
			c.fail(x, "assignment of %s to %s of type %s", types[i], c.src(l), t)
		}
		c.checkRangeTarget(v, p, x)
		lines = append(lines, "let "+v.lean+" : "+v.typ.lean()+" := "+update(v.lean, p, vals[i]))
	}
	return lines
}

// ---------------------------------------------------------------- loops

func (c *codegen) forStmt(x *ast.ForStmt, rest []ast.Stmt, k cont) []string {
	if !c.phase2 {
		c.fail(x, "for loop (only `for _, x := range slice` is supported)")
	}
	if x.Init != nil && c.phase4 {
		// for init; cond; post { … }  ↦  { init; for cond; post { … } }
		loop := *x
		loop.Init = nil
		blk := &ast.BlockStmt{Lbrace: x.Pos(), List: []ast.Stmt{x.Init, &loop}, Rbrace: x.End()}
		return c.seq(append([]ast.Stmt{blk}, rest...), k)
	}
	if x.Init != nil || (x.Post != nil && !c.phase4) {
		c.fail(x, "for loop with init or post statement (only `for cond { … }`)")
	}
	return c.loopStmt(x, x.Body, rest, k)
}

const exitMark = "\x00exit "

// loopStmt translates `for cond { … }` into a fuel-indexed recursive function and
// `for k, v = range list { … }` (second part) into a function recursive over the list.
// The function takes the variables it only reads as parameters and maps the values of the
// variables it assigns (its state) at the loop entry to their values at the exit; if the
// body contains `goto L` (L a label of the function body) the result also carries an exit
// code: 0 for the normal exit, i > 0 for the i-th label.
func (c *codegen) loopStmt(x ast.Stmt, bodyStmt *ast.BlockStmt, rest []ast.Stmt, k cont) []string {
	loopLabel := c.cur.pendingLabel
	c.cur.pendingLabel = ""
	if hasReturn(bodyStmt.List) {
		if !c.phase4 {
			c.fail(x, "return inside a loop")
		}
		if pre := c.declareRetVars(x); len(pre) > 0 {
			// the hidden result variables are declared in front of the (outermost) loop
			c.cur.pendingLabel = loopLabel
			return append(pre, c.loopStmt(x, bodyStmt, rest, k)...)
		}
	}
	fx, _ := x.(*ast.ForStmt)
	rx, _ := x.(*ast.RangeStmt)
	c.needMonadic(x)
	if fx != nil {
		c.needFuel(x)
	}
	c.cur.nbind++
	vars := c.assignedOuter(x, []ast.Stmt{x})
	if c.phase4 && hasReturn(bodyStmt.List) {
		for _, rv := range c.cur.retVars {
			dup := false
			for _, v := range vars {
				dup = dup || v == rv
			}
			if !dup {
				vars = append(vars, rv)
			}
		}
	}
	if len(vars) == 0 {
		c.fail(x, "loop that assigns no variable declared outside of it")
	}
	isState := map[string]bool{}
	for _, v := range vars {
		isState[v] = true
	}
	// the range expression is evaluated once, before the loop
	var rangeVal string
	var rangeT gtype
	// third part: range over a slice VALUE (GSlice, Slice) that is a variable or field path —
	// recursion over the number of iterations left, elements are read from the current value
	idxMode := false
	var rangeRoot *varInfo
	var rangePath []string
	if rx != nil {
		rangeVal, rangeT = c.expr(rx.X, gtype{}, false)
		if c.phase3 && (rangeT.kind == kGSlice || rangeT.kind == kBytes) {
			if rootIdent(rx.X) == nil || indexOf(rx.X) != nil {
				c.fail(x, "range over %s (a slice value must be a variable or a field path)", c.src(rx.X))
			}
			idxMode = true
			rangeRoot, rangePath = c.path(rx.X)
		} else if rangeT.kind != kSlice {
			c.fail(x, "range over %s (only over a list-valued slice)", rangeT)
		}
		if len(c.cur.pre) != 0 {
			c.fail(x, "range over an expression that may panic")
		}
	}
	// read-only variables of the enclosing function that the loop mentions
	var caps []string
	seen := map[string]bool{}
	note := func(n ast.Node) {
		ast.Inspect(n, func(n ast.Node) bool {
			if id, ok := n.(*ast.Ident); ok && !seen[id.Name] && !isState[id.Name] && c.lookup(id.Name) != nil {
				seen[id.Name] = true
				caps = append(caps, id.Name)
			}
			return true
		})
	}
	if fx != nil && fx.Cond != nil {
		note(fx.Cond)
	}
	if idxMode && rx.Value != nil {
		if id, ok := rx.Value.(*ast.Ident); !ok || id.Name != "_" {
			note(rx.X) // the elements are read inside of the loop function
		}
	}
	note(bodyStmt)
	// The loop function is closed (every variable it mentions is a parameter), so when the
	// statements after an `if` are translated twice (once per branch that falls through) the
	// second translation of the same loop re-uses the first definition, provided its text is
	// identical.  The temporaries of the loop function are numbered on their own.
	name := ""
	reuse := false
	for _, lp := range c.cur.loopDefs {
		if lp.pos == x.Pos() {
			name, reuse = lp.name, true
		}
	}
	if !reuse {
		c.cur.nloops++
		name = fmt.Sprintf("%s_loop_%d", leanFn(c.cur.key), c.cur.nloops)
	}
	savedTmp := c.cur.tmp
	c.cur.tmp = 0
	var callParts, stateNames, stateTypes, capDecl []string
	callParts = append(callParts, "LZ.Gen."+name)
	if c.cur.sig.grow {
		callParts = append(callParts, "grow")
	}
	usesFuel := c.cur.sig.fuel
	if rx != nil && usesFuel {
		callParts = append(callParts, "fuel")
	}
	for _, o := range c.cur.sig.opaques {
		callParts = append(callParts, o.name)
	}
	for _, o := range c.cur.sig.sps { // code_opq.go
		callParts = append(callParts, o.param())
	}
	for _, m := range c.cur.sig.imeths {
		callParts = append(callParts, m.param())
	}
	for _, v := range caps {
		vi := c.lookup(v)
		callParts = append(callParts, vi.lean)
		capDecl = append(capDecl, "("+vi.lean+" : "+vi.typ.lean()+")")
	}
	var stateT []gtype
	for _, v := range vars {
		vi := c.lookup(v)
		stateNames = append(stateNames, vi.lean)
		stateTypes = append(stateTypes, vi.typ.lean())
		stateT = append(stateT, vi.typ)
	}
	restVar, idxVar, elemVar := "", "", ""
	if rx != nil {
		restVar, idxVar, elemVar = c.newTmp("rest"), c.newTmp("i"), c.newTmp("x")
	}
	invoke := func() []string {
		// the state variables keep their Lean names through re-assignment
		if rx != nil {
			return []string{strings.Join(callParts, " ") + " " + restVar + " (" + idxVar + " + 1) " + strings.Join(stateNames, " ")}
		}
		return []string{strings.Join(callParts, " ") + " fuel " + strings.Join(stateNames, " ")}
	}
	lc := &loopCtx{contK: invoke, label: loopLabel, pos: x.Pos()}
	if fx != nil && fx.Post != nil {
		// `continue` (and falling off the end of the body) runs the post statement first; it is
		// translated in the scope of the loop statement
		depth := len(c.cur.scopes)
		lc.contK = func() []string {
			saved := c.cur.scopes
			c.cur.scopes = c.snapshotScopes()[:depth]
			defer func() { c.cur.scopes = saved }()
			return c.seq([]ast.Stmt{fx.Post}, invoke)
		}
	}
	if idxMode {
		lc.rangeVar, lc.rangePath = rangeRoot.lean, rangePath
	}
	lc.exitK = func(code int) []string {
		return []string{fmt.Sprintf("%s%d %s", exitMark, code, tupleVal(stateNames))}
	}
	lc.breakK = func() []string { lc.brk = true; return lc.exitK(0) }

	cond := ""
	if fx != nil && fx.Cond != nil {
		n := len(c.cur.pre)
		cond = c.cond(fx.Cond)
		if len(c.cur.pre) != n {
			c.fail(fx.Cond, "loop condition with an operation that may panic or a call with effects")
		}
	}
	c.cur.loops = append(c.cur.loops, lc)
	var body []string
	if rx != nil {
		// k, v := range / k, v = range: bound at the start of every iteration
		c.push()
		bindIter := func(e ast.Expr, val string, t gtype) {
			if e == nil {
				return
			}
			id, ok := e.(*ast.Ident)
			if !ok {
				c.fail(e, "range variable %s", c.src(e))
			}
			if id.Name == "_" {
				return
			}
			if rx.Tok == token.DEFINE {
				v := c.declare(id.Name, t)
				body = append(body, "let "+v.lean+" : "+t.lean()+" := "+val)
				return
			}
			v := c.lookup(id.Name)
			if v == nil || !v.typ.eq(t) {
				c.fail(e, "range variable %s must be a variable of type %s", id.Name, t)
			}
			body = append(body, "let "+v.lean+" : "+t.lean()+" := "+val)
		}
		bindIter(rx.Key, idxVar, gtype{kind: kInt})
		if idxMode {
			if id, ok := rx.Value.(*ast.Ident); rx.Value != nil && !(ok && id.Name == "_") {
				// e := P[i], read from the current value of P (see the head of code_gslice.go)
				cur, _ := c.expr(rx.X, gtype{}, false)
				et := gtype{kind: kU8}
				rd := "Slice.index " + paren(cur) + " " + idxVar
				if rangeT.kind == kGSlice {
					et = *rangeT.elem
					rd = "GSlice.index " + c.zeroTyped(et, x) + " " + paren(cur) + " " + idxVar
				}
				body = append(body, "Res.bind ("+rd+") fun "+elemVar+" =>")
				if et.kind == kGSlice || et.kind == kBytes || c.containsGSlice(et, x) {
					c.checkReadOnlyElemSlice(rx, bodyStmt) // code_osap.go: an element of a slice of slices shares its array with the element
				}
				bindIter(rx.Value, elemVar, et)
			}
		} else {
			bindIter(rx.Value, elemVar, *rangeT.elem)
		}
		body = append(body, c.block(bodyStmt.List, lc.contK)...)
		c.pop()
	} else {
		body = c.block(bodyStmt.List, lc.contK)
	}
	c.cur.loops = c.cur.loops[:len(c.cur.loops)-1]

	escapes := len(lc.escapes) > 0
	resolve := func(lines []string) []string {
		out := make([]string, len(lines))
		for i, l := range lines {
			if j := strings.Index(l, exitMark); j >= 0 {
				restl := l[j+len(exitMark):]
				sp := strings.Index(restl, " ")
				code, val := restl[:sp], restl[sp+1:]
				if escapes {
					val = strings.TrimSuffix(strings.TrimPrefix(val, "("), ")")
					if len(stateNames) == 1 {
						val = restl[sp+1:]
					}
					l = l[:j] + "Res.ok (" + code + ", " + val + ")"
				} else {
					l = l[:j] + "Res.ok " + val
				}
			}
			out[i] = l
		}
		return out
	}
	resT := tupleType(stateT)
	if escapes {
		resT = "Nat × " + resT
	}
	var def []string
	hdr := "def " + name
	if c.cur.sig.grow {
		hdr += " (grow : Nat → Nat → Nat)"
	}
	if rx != nil && usesFuel {
		hdr += " (fuel : Nat)"
	}
	{
		var ts []gtype
		for _, v := range caps {
			ts = append(ts, c.lookup(v).typ)
		}
		hdr += c.sigBinders(c.cur.sig, append(ts, stateT...), x)
	}
	if len(capDecl) > 0 {
		hdr += " " + strings.Join(capDecl, " ")
	}
	what := ""
	if fx != nil {
		condSrc := "true"
		if fx.Cond != nil {
			condSrc = c.src(fx.Cond)
		}
		what = "for " + condSrc
		hdr += " : Nat → " + strings.Join(stateTypes, " → ") + " → Res (" + resT + ")"
	} else {
		kv := ""
		if rx.Key != nil {
			kv = c.src(rx.Key)
		}
		if rx.Value != nil {
			kv += ", " + c.src(rx.Value)
		}
		what = "for " + kv + " " + rx.Tok.String() + " range " + c.src(rx.X)
		if idxMode {
			hdr += " : Nat → Int → " + strings.Join(stateTypes, " → ") + " → Res (" + resT + ")"
		} else {
			hdr += " : " + rangeT.lean() + " → Int → " + strings.Join(stateTypes, " → ") + " → Res (" + resT + ")"
		}
	}
	doc := fmt.Sprintf("/-- the loop `%s { … }` of %s (%s); state (%s)", what, fnName(c.cur.key), c.pos(x), strings.Join(vars, ", "))
	if fx != nil {
		doc += "; `Res.fuel` when the fuel runs out"
	} else {
		if idxMode {
			doc += "; recursion over the number of iterations left (len at the loop entry), the Int is the index"
		} else {
			doc += "; recursion over the remaining elements, the Int is the index"
		}
	}
	if escapes {
		doc += "; the first component of the result is the exit: 0 = the loop ended"
		for i, l := range lc.escapes {
			doc += fmt.Sprintf(", %d = %s", i+1, escapeDoc(l))
		}
	}
	def = append(def, doc+" -/", hdr)
	sn := strings.Join(stateNames, ", ")
	if fx != nil {
		def = append(def, "  | 0, "+sn+" => Res.fuel")
		def = append(def, "  | fuel + 1, "+sn+" =>")
		if cond != "" {
			def = append(def, "    if "+cond+" then")
			def = append(def, ind(resolve(body), 6)...)
			def = append(def, "    else")
			def = append(def, ind(resolve(lc.exitK(0)), 6)...)
		} else {
			def = append(def, ind(resolve(body), 4)...)
		}
	} else {
		if idxMode {
			def = append(def, "  | 0, "+idxVar+", "+sn+" =>")
		} else {
			def = append(def, "  | [], "+idxVar+", "+sn+" =>")
		}
		def = append(def, ind(resolve(lc.exitK(0)), 4)...)
		if idxMode {
			def = append(def, "  | "+restVar+" + 1, "+idxVar+", "+sn+" =>")
		} else {
			def = append(def, "  | "+elemVar+" :: "+restVar+", "+idxVar+", "+sn+" =>")
		}
		def = append(def, ind(resolve(body), 4)...)
	}
	c.cur.tmp = savedTmp
	if reuse {
		for _, lp := range c.cur.loopDefs {
			if lp.pos == x.Pos() && !c.cur.probe && strings.Join(lp.text, "\n") != strings.Join(def, "\n") {
				c.fail(x, "the loop is translated twice (it follows an if statement with a return) in different variable contexts")
			}
		}
	} else {
		c.cur.loopDefs = append(c.cur.loopDefs, loopDef{x.Pos(), name, def})
		c.cur.aux = append(c.cur.aux, def)
	}

	// the loop statement
	r := c.newTmp("r")
	var first string
	if rx != nil {
		if idxMode {
			first = strings.Join(callParts, " ") + " " + paren(rangeVal) + ".len 0 " + strings.Join(stateNames, " ")
		} else {
			first = strings.Join(callParts, " ") + " " + paren(rangeVal) + " 0 " + strings.Join(stateNames, " ")
		}
	} else {
		first = invoke()[0]
	}
	lines := []string{"Res.bind (" + first + ") fun " + r + " =>"}
	n, off := len(vars), 0
	if escapes {
		n, off = n+1, 1
	}
	for i, v := range vars {
		vi := c.lookup(v)
		lines = append(lines, "let "+vi.lean+" : "+vi.typ.lean()+" := "+proj(r, i+off, n))
	}
	if escapes {
		// dispatch on the exit code: the gotos of the body continue here
		restK := func() []string {
			saved := c.cur.scopes
			c.cur.scopes = c.snapshotScopes()
			defer func() { c.cur.scopes = saved }()
			return c.seq(rest, k)
		}
		// Go: a `for` statement without condition and without a break referring to it is a
		// terminating statement — the normal exit (code 0) does not exist, the last exit needs no test
		terminating := c.phase4 && fx != nil && fx.Cond == nil && !lc.brk
		for i, l := range lc.escapes {
			if terminating && i == len(lc.escapes)-1 {
				saved := c.cur.scopes
				c.cur.scopes = c.snapshotScopes()
				lines = append(lines, c.gotoK(l, x)...)
				c.cur.scopes = saved
				return lines
			}
			lines = append(lines, fmt.Sprintf("if %s = %d then", proj(r, 0, n), i+1))
			saved := c.cur.scopes
			c.cur.scopes = c.snapshotScopes()
			lines = append(lines, ind(c.gotoK(l, x), 2)...)
			c.cur.scopes = saved
			lines = append(lines, "else")
		}
		return append(lines, restK()...)
	}
	if c.phase4 && fx != nil && fx.Cond == nil && !lc.brk {
		c.fail(x, "for loop without condition, break or other exit")
	}
	return append(lines, c.seq(rest, k)...)
}

// gotoK is the continuation of `goto label`: inside a loop the loop function returns the
// exit code of the label, otherwise the statements from the label to the end of the function
// body follow (the label is a statement of the function body, so every variable visible
// there is visible at the goto and has kept its Lean name).
func (c *codegen) gotoK(label string, at ast.Node) []string {
	if isPseudoLabel(label) {
		return c.pseudoGotoK(label, at)
	}
	li, ok := c.cur.labels[label]
	if bl := c.cur.blockLabels[label]; !ok && bl != nil && c.phase5 {
		return c.blockGotoK(bl, label, at) // code_parse.go
	}
	if !ok || len(li) == 0 || li[0].Pos() <= at.Pos() {
		c.fail(at, "goto %s: only labels on statements of the function body, jumped to forwards", label)
	}
	if n := len(c.cur.loops); n > 0 {
		l := c.cur.loops[n-1]
		for i, e := range l.escapes {
			if e == label {
				return l.exitK(i + 1)
			}
		}
		l.escapes = append(l.escapes, label)
		return l.exitK(len(l.escapes))
	}
	saved := c.cur.scopes
	c.cur.scopes = c.snapshotScopes()[:2]
	defer func() { c.cur.scopes = saved }()
	return c.seq(li, c.cur.end)
}

func (c *codegen) branchStmt(x *ast.BranchStmt, rest []ast.Stmt) []string {
	if x.Tok == token.GOTO && x.Label != nil {
		if len(rest) > 0 {
			c.fail(rest[0], "statement after goto")
		}
		return c.gotoK(x.Label.Name, x)
	}
	if x.Label != nil && c.phase4 && (x.Tok == token.BREAK || x.Tok == token.CONTINUE) {
		if len(rest) > 0 {
			c.fail(rest[0], "statement after %s", x.Tok)
		}
		return c.pseudoGotoK(pseudoLabel(x.Tok, x.Label.Name), x)
	}
	if x.Label != nil || (x.Tok != token.BREAK && x.Tok != token.CONTINUE) {
		c.fail(x, "%s statement", x.Tok)
	}
	if len(c.cur.loops) == 0 {
		c.fail(x, "%s statement (only a trailing break of a switch case, or break/continue of a `for cond` loop)", x.Tok)
	}
	if len(rest) > 0 {
		c.fail(rest[0], "statement after %s", x.Tok)
	}
	l := c.cur.loops[len(c.cur.loops)-1]
	if x.Tok == token.BREAK {
		return l.breakK()
	}
	return l.contK()
}

// hasJump: the statements contain a return, or a break/continue that leaves them.
func hasJump(list []ast.Stmt) bool { return hasJumpX(list, false) }

// hasJumpX: localGotoOK — a `goto L` whose label L is declared inside of list does not leave
// list (code_parse.go).
func hasJumpX(list []ast.Stmt, localGotoOK bool) bool {
	found := false
	local := map[string]bool{}
	if localGotoOK {
		for _, s := range list {
			ast.Inspect(s, func(m ast.Node) bool {
				if ls, ok := m.(*ast.LabeledStmt); ok {
					local[ls.Label.Name] = true
				}
				return true
			})
		}
	}
	var walk func(n ast.Node, inLoop bool)
	walk = func(n ast.Node, inLoop bool) {
		ast.Inspect(n, func(m ast.Node) bool {
			if found || m == nil {
				return false
			}
			switch y := m.(type) {
			case *ast.ReturnStmt:
				found = true
			case *ast.ExprStmt:
				if isPanicStmt(y) {
					found = true // like a return: the statements after it are not executed
				}
			case *ast.BranchStmt:
				if y.Tok == token.GOTO && y.Label != nil && local[y.Label.Name] {
					break // stays inside of list
				}
				if y.Tok == token.GOTO || y.Label != nil || !inLoop {
					found = true
				}
			case *ast.ForStmt:
				if m != n {
					walk(y.Body, true)
					return false
				}
			case *ast.RangeStmt:
				if m != n {
					walk(y.Body, true)
					return false
				}
			case *ast.SwitchStmt:
				// a break inside a switch belongs to the switch; desugarSwitch checks those
				if m != n {
					for _, cl := range y.Body.List {
						for _, s := range cl.(*ast.CaseClause).Body {
							ast.Inspect(s, func(q ast.Node) bool {
								if _, ok := q.(*ast.ReturnStmt); ok {
									found = true
								}
								return !found
							})
						}
					}
					return false
				}
			}
			return true
		})
	}
	for _, s := range list {
		walk(s, false)
	}
	return found
}

// ---------------------------------------------------------------- functions (second part)

func (c *codegen) resultList(fd *ast.FuncDecl) []sresult {
	var rs []sresult
	if fd.Type.Results == nil {
		return nil
	}
	for _, f := range fd.Type.Results.List {
		t := c.typeOf(f.Type, fd)
		if len(f.Names) == 0 {
			rs = append(rs, sresult{"", t})
		}
		for _, n := range f.Names {
			if n.Name == "_" {
				c.fail(fd, "blank named result")
			}
			rs = append(rs, sresult{n.Name, t})
		}
	}
	return rs
}

const yieldMark = "\x00yield "

// yieldMarked is yield with a marker: whether the join is pure or in Res is
// known only after the branches have been translated (resolveYield).
func (c *codegen) yieldMarked(vars []string) cont {
	y := c.yield(vars)
	return func() []string { return []string{yieldMark + y()[0]} }
}

func resolveYield(lines []string, monadic bool) []string {
	out := make([]string, len(lines))
	for i, l := range lines {
		if j := strings.Index(l, yieldMark); j >= 0 {
			v := l[j+len(yieldMark):]
			if monadic {
				v = "Res.ok " + v
			}
			l = l[:j] + v
		}
		out[i] = l
	}
	return out
}

// bindJoinRes binds the value of a join whose branches are in Res.
func (c *codegen) bindJoinRes(vars []string, rhs []string) []string {
	t := c.newTmp("join")
	out := []string{"Res.bind ("}
	out = append(out, ind(rhs, 2)...)
	out[len(out)-1] += ") fun " + t + " =>"
	for i, v := range vars {
		vi := c.lookup(v)
		out = append(out, "let "+vi.lean+" : "+vi.typ.lean()+" := "+proj(t, i, len(vars)))
	}
	return out
}

func (c *codegen) jumps(list []ast.Stmt) bool {
	if c.phase5 {
		return hasJumpX(list, true)
	}
	if c.phase2 {
		return hasJump(list)
	}
	return hasReturn(list)
}

func isBuiltin(call *ast.CallExpr, name string) bool {
	id, ok := call.Fun.(*ast.Ident)
	return ok && id.Name == name
}

// callValue: a call used as an expression has exactly one result.
func (c *codegen) callValue(k fnKey, recv ast.Expr, x *ast.CallExpr) (string, gtype) {
	vals, types := c.call2(k, recv, x)
	if len(vals) != 1 {
		c.fail(x, "call of %s, which has %d results, used as a value", fnName(k), len(vals))
	}
	return vals[0], types[0]
}

// callStmt2: a call as a statement; its results are dropped.
func (c *codegen) callStmt2(x *ast.ExprStmt, call *ast.CallExpr) []string {
	if irecv, ik, isIface := c.ifaceCallee(call); isIface {
		c.ifaceCall(irecv, ik, call) // the results are dropped, the effect is in the hoisted lines
		return nil
	}
	k, recv, ok := c.calleeOf(call)
	if !ok {
		c.fail(x, "call statement %s", c.src(call))
	}
	c.ensure(k, call)
	sig := c.sigs[k]
	outs := false
	for _, p := range sig.params {
		outs = outs || p.out
	}
	if !sig.recvMut && !outs && !sig.monadic {
		c.fail(x, "call of %s as a statement: its result is discarded and it has no effect", fnName(k))
	}
	c.call2(k, recv, call)
	return nil
}

func (c *codegen) retValue(vals []string) []string {
	var comps []string
	f := c.cur
	if f.sig.recvMut {
		comps = append(comps, c.lookup(f.recvVar).lean)
	}
	for _, p := range f.sig.params {
		if p.out {
			v := c.lookup(p.name)
			if v == nil || v.depth != 0 {
				c.fail(f.fd, "parameter %s is shadowed at a return", p.name)
			}
			comps = append(comps, v.lean)
		}
	}
	comps = append(comps, vals...)
	if len(comps) == 0 {
		// (a function that writes elements only through a LOCAL slice variable ends up here: slices are values in
		// the model, so a write through a second reference is lost — not expressible.  The plain copy of a slice
		// FIELD with a stable header, `t := f.table; t[i] = e`, is a second name of the field and is substituted
		// by the normalisation pass, code_desugar.go "local copy of a slice field"; a re-sliced copy is not.)
		c.fail(f.fd, "function without result and without effect (writes through a local copy of a slice are not expressible in the value model, unless the copy is a plain `v := r.field` with a stable header: code_desugar.go)")
	}
	t := tupleVal(comps)
	if f.sig.monadic {
		return []string{"Res.ok " + paren(t)}
	}
	return []string{t}
}

func (c *codegen) namedResults(at ast.Node) []string {
	var vals []string
	for _, r := range c.cur.sig.results {
		if r.name == "" {
			c.fail(at, "bare return in a function with unnamed results")
		}
		v := c.lookup(r.name)
		if v == nil || !v.typ.eq(r.typ) || v.depth != 1 {
			c.fail(at, "bare return while the result %s is shadowed", r.name)
		}
		vals = append(vals, v.lean)
	}
	return vals
}

func (c *codegen) ret2(x *ast.ReturnStmt) []string {
	f := c.cur
	if len(f.loops) > 0 {
		if c.phase4 {
			return c.retInLoop(x)
		}
		c.fail(x, "return inside a for loop")
	}
	if len(x.Results) == 0 {
		return c.retValue(c.namedResults(x))
	}
	if len(x.Results) != len(f.sig.results) {
		c.fail(x, "return of %d values from a function with %d results", len(x.Results), len(f.sig.results))
	}
	var vals []string
	for i, r := range x.Results {
		want := f.sig.results[i].typ
		s, t := c.expr(r, want, false)
		if !t.eq(want) {
			c.fail(x, "return of %s where %s is expected", t, want)
		}
		if i > 0 && len(c.cur.mutHoist) > 0 {
			c.fail(x, "return of several values with a call that has effects")
		}
		vals = append(vals, s)
	}
	pre := c.flush(x)
	return append(pre, c.retValue(vals)...)
}

// function2 generates a function of the second part: a first pass finds out
// whether it needs Res / grow / fuel and which parameters it copies into, the
// second pass emits it.
func (c *codegen) function2(k fnKey) fnOut {
	_, probe := c.gen2(k, &fnSig{}, true)
	flags := &fnSig{monadic: probe.monadic, grow: probe.grow, fuel: probe.fuel, opaques: probe.opaques, imeths: probe.imeths, sps: probe.sps, aliases: probe.aliases}
	for _, p := range probe.params {
		flags.params = append(flags.params, sparam{name: p.name, out: p.out})
	}
	out, sig := c.gen2(k, flags, false)
	c.sigs[k] = sig
	return out
}

func (c *codegen) gen2(k fnKey, flags *fnSig, probe bool) (fnOut, *fnSig) {
	fd := c.fns[k]
	sig := &fnSig{monadic: flags.monadic, grow: flags.grow, fuel: flags.fuel, opaques: append([]fnKey{}, flags.opaques...),
		imeths: append([]imKey{}, flags.imeths...), sps: append([]spKey{}, flags.sps...), aliases: append([]sliceAlias{}, flags.aliases...)}
	f := &fnCtx{key: k, fd: fd, used: map[string]bool{}, errSiteOf: map[token.Pos]int{}, sig: sig, probe: probe, ptrVars: map[*varInfo]bool{}}
	prev := c.cur // restored also while a refusal unwinds through the caller's frames
	c.cur = f
	defer func() { c.cur = prev }()
	if fd.Body == nil {
		c.fail(fd, "function without body")
	}
	if fd.Type.TypeParams != nil {
		c.fail(fd, "generic function")
	}
	c.push() // depth 0: receiver and parameters
	var params []string
	gosig := "func "
	if fd.Recv != nil {
		r := fd.Recv.List[0]
		if len(r.Names) != 1 || r.Names[0].Name == "_" {
			c.fail(fd, "unnamed receiver")
		}
		t := c.typeOf(r.Type, fd)
		if t.kind != kStruct {
			c.fail(fd, "receiver of type %s", t)
		}
		_, ptr := r.Type.(*ast.StarExpr)
		f.recvVar = r.Names[0].Name
		f.recvMut = ptr && c.mutates[k]
		sig.recv, sig.recvMut = t, f.recvMut
		v := c.declare(f.recvVar, t)
		if ptr {
			f.ptrVars[v] = true
		}
		params = append(params, fmt.Sprintf("(%s : %s)", v.lean, t.lean()))
		gosig += "(" + f.recvVar + " " + c.src(r.Type) + ") "
	}
	gosig += fd.Name.Name + "("
	var ps []string
	var cbInit []string
	f.localTypes = map[string]string{}
	ptrOut := map[string]bool{}
	for _, p := range fd.Type.Params.List {
		if _, ok := p.Type.(*ast.Ellipsis); ok {
			c.fail(fd, "variadic parameter")
		}
		t := c.typeOf(p.Type, fd)
		if len(p.Names) == 0 {
			c.fail(fd, "unnamed parameter")
		}
		var ns []string
		for _, n := range p.Names {
			if n.Name == "_" {
				c.fail(fd, "blank parameter")
			}
			v := c.declare(n.Name, t)
			ns = append(ns, n.Name)
			if _, isPtr := p.Type.(*ast.StarExpr); isPtr {
				f.ptrVars[v] = true
				if fb := c.declareNilable(fd, n, v); fb != "" { // code_nil.go: flag + value
					params = append(params, fb)
				}
			}
			if t.kind == kFunc {
				// a callback parameter: not a Lean parameter, its calls are logged (code_part4.go)
				cbInit = append(cbInit, fmt.Sprintf("let %s : %s := []", v.lean, t.lean()))
				sig.params = append(sig.params, sparam{n.Name, t, true})
				continue
			}
			params = append(params, fmt.Sprintf("(%s : %s)", v.lean, t.lean()))
			out := false
			if i := len(sig.params); i < len(flags.params) {
				out = flags.params[i].out
			}
			sig.params = append(sig.params, sparam{n.Name, t, out})
		}
		ps = append(ps, strings.Join(ns, ", ")+" "+c.src(p.Type))
	}
	gosig += strings.Join(ps, ", ") + ")"
	sig.results = c.resultList(fd)
	if r := fd.Type.Results; r != nil && len(r.List) > 0 {
		var rs []string
		for _, fl := range r.List {
			var ns []string
			for _, n := range fl.Names {
				ns = append(ns, n.Name)
			}
			if len(ns) > 0 {
				rs = append(rs, strings.Join(ns, ", ")+" "+c.src(fl.Type))
			} else {
				rs = append(rs, c.src(fl.Type))
			}
		}
		if len(rs) == 1 && len(r.List[0].Names) == 0 {
			gosig += " " + rs[0]
		} else {
			gosig += " (" + strings.Join(rs, ", ") + ")"
		}
	}
	// number the error constructors in source order
	ast.Inspect(fd.Body, func(n ast.Node) bool {
		if call, ok := n.(*ast.CallExpr); ok {
			if se, ok := call.Fun.(*ast.SelectorExpr); ok {
				if id, ok := se.X.(*ast.Ident); ok {
					if q := id.Name + "." + se.Sel.Name; q == "fmt.Errorf" || q == "errors.New" {
						f.errSites++
						f.errSiteOf[call.Pos()] = f.errSites
						return false
					}
				}
			}
		}
		return true
	})
	if f.errSites >= errVarBase {
		c.fail(fd, "more than %d error constructors", errVarBase)
	}
	c.push() // depth 1: named results and the variables of the body
	if c.phase3 {
		c.checkSig3(fd, sig)
	}
	var body []string
	body = append(body, cbInit...)
	for _, r := range sig.results {
		if r.name != "" {
			v := c.declare(r.name, r.typ)
			body = append(body, fmt.Sprintf("let %s : %s := %s", v.lean, r.typ.lean(), c.zeroOf(r.typ, fd)))
		}
	}
	if c.phase5 {
		// pointer parameters the body writes through are out parameters (code_iface.go)
		ptrOut = c.ptrParamsWritten(fd)
		for i := range sig.params {
			if ptrOut[sig.params[i].name] && sig.params[i].typ.kind == kStruct {
				sig.params[i].out = true
			}
		}
	}
	var end cont
	if len(sig.results) == 0 {
		end = func() []string { return c.retValue(nil) }
	}
	f.end = end
	f.labels = map[string][]ast.Stmt{}
	for i, st := range fd.Body.List {
		if ls, ok := st.(*ast.LabeledStmt); ok {
			if _, dup := f.labels[ls.Label.Name]; dup {
				c.fail(ls, "duplicate label")
			}
			f.labels[ls.Label.Name] = append([]ast.Stmt{ls.Stmt}, fd.Body.List[i+1:]...)
		}
	}
	body = append(body, c.seq(fd.Body.List, end)...)
	c.pop()
	c.pop()
	var out []string
	for _, a := range f.aux {
		out = append(out, a...)
		out = append(out, "")
	}
	{
		doc := fmt.Sprintf("/-- `%s` — %s", gosig, c.pos(fd))
		if len(f.nilOrder) > 0 { // code_nil.go
			for _, v := range f.nilOrder {
				ni := f.nilVars[v]
				doc += fmt.Sprintf("\n    NILABLE pointer parameter %s (code_nil.go): `%s = true` ↦ the pointer is nil (the value `%s` is a ghost),\n    `%s == nil` ↦ `%s = true`; a dereference where it is nil ↦ `Res.panic`.  `%s` below is this function on non-nil pointers.", ni.name, ni.flag, v.lean, ni.name, ni.flag, leanFn(k))
			}
		}
		if len(f.nonNilUsed) > 0 {
			doc += fmt.Sprintf("\n    ASSUMES (topic assumption, code_parse.go) that the pointer parameter(s) %s are not nil:\n    `p == nil` ↦ False, `p != nil` ↦ True.", strings.Join(f.nonNilUsed, ", "))
		} else if notes := ptrAliasNotes[fd]; len(notes) > 0 {
			doc += fmt.Sprintf("\n    local pointer aliases eliminated at source level (code_ptralias.go): `%s`.", strings.Join(notes, "`, `"))
		}
		if notes := viewNotes[fd]; len(notes) > 0 { // code_lend.go
			doc += fmt.Sprintf("\n    view methods inlined at their range statements (code_lend.go): `%s`.", strings.Join(notes, "`, `"))
		}
		out = append(out, doc+" -/")
	}
	hdr := ""
	if sig.grow {
		hdr += " (grow : Nat → Nat → Nat)"
	}
	if sig.fuel {
		hdr += " (fuel : Nat)"
	}
	{
		var ts []gtype
		if fd.Recv != nil {
			ts = append(ts, sig.recv)
		}
		for _, p := range sig.params {
			ts = append(ts, p.typ)
		}
		for _, r := range sig.results {
			ts = append(ts, r.typ)
		}
		hdr += c.sigBinders(sig, ts, fd)
	}
	hdrRest := hdr // code_nil.go: everything in front of the value parameters
	if len(params) > 0 {
		hdr += " " + strings.Join(params, " ")
	}
	rt := tupleType(sig.comps())
	if sig.monadic {
		rt = "Res (" + rt + ")"
	}
	if len(f.nilOrder) > 0 { // code_nil.go: `<f>_nilable` and the wrapper `<f>`
		out = append(out, "def "+leanFn(k)+"_nilable"+hdr+" : "+rt+" :=")
		out = append(out, ind(body, 2)...)
		out = append(out, c.nilableWrapper(k, f, sig, hdrRest, params, rt, fd)...)
		return fnOut{k, out}, sig
	}
	out = append(out, "def "+leanFn(k)+hdr+" : "+rt+" :=")
	out = append(out, ind(body, 2)...)
	return fnOut{k, out}, sig
}

// assignedOuter2 is the scope-aware version of assignedOuter (second part): the variables
// declared outside of the statement lists that are assigned inside of them, in order of first
// occurrence.  A name declared inside (`x := …`, `var x`) hides the outer variable for the rest
// of its block.
func (c *codegen) assignedOuter2(at ast.Node, lists ...[]ast.Stmt) []string {
	var order []string
	assigned := map[string]bool{}
	type scope map[string]bool
	var scopes []scope
	local := func(name string) bool {
		for i := len(scopes) - 1; i >= 0; i-- {
			if scopes[i][name] {
				return true
			}
		}
		return false
	}
	mark := func(e ast.Expr) {
		id := rootIdent(e)
		if id == nil || id.Name == "_" || local(id.Name) || assigned[id.Name] {
			return
		}
		if c.lookup(id.Name) == nil {
			c.fail(at, "assignment to %s, which is not a local variable, parameter or receiver", id.Name)
		}
		assigned[id.Name] = true
		order = append(order, id.Name)
	}
	declare := func(name string) {
		if name != "_" {
			scopes[len(scopes)-1][name] = true
		}
	}
	// calls with effects inside expressions
	var exprEffects func(n ast.Node)
	exprEffects = func(n ast.Node) {
		if n == nil {
			return
		}
		ast.Inspect(n, func(m ast.Node) bool {
			call, ok := m.(*ast.CallExpr)
			if !ok {
				return true
			}
			if c.phase5 {
				c.markIfaceEffects(call, local, mark)
				c.markSPEffects(call, local, mark) // code_opq.go
			}
			switch f := call.Fun.(type) {
			case *ast.SelectorExpr:
				if id := rootIdent(f.X); id != nil && (local(id.Name) || c.lookup(id.Name) != nil) {
					// a method call on an addressable path may mutate its root
					if !local(id.Name) {
						if v, p := c.path(f.X); v != nil {
							if t := c.pathType(v, p, call); t.kind == kStruct {
								mk := fnKey{goStruct(t.name), f.Sel.Name}
								if c.fns[mk] == nil && c.phase5 {
									// a method promoted from an embedded struct (code_parse.go)
									if pp := c.promotedMethod(t.name, f.Sel.Name, call); pp != nil {
										mk = fnKey{pp[len(pp)-1], f.Sel.Name}
									}
								}
								if c.mutates[mk] {
									mark(f.X)
								}
							}
						}
					}
				}
			case *ast.Ident:
				if f.Name == "copy" && len(call.Args) == 2 {
					mark(call.Args[0])
				}
				if f.Name == "clear" && len(call.Args) == 1 && !local("clear") && c.lookup("clear") == nil && c.fns[fnKey{"", "clear"}] == nil {
					mark(call.Args[0])
				}
				if c.phase4 {
					c.markCallEffects4(f, call, local, mark)
				}
				if ri := c.reflOf(f.Name); ri != nil && ri.setter && len(call.Args) > 0 {
					mark(call.Args[0])
				}
			}
			return true
		})
	}
	var walkList func(list []ast.Stmt)
	var walk func(s ast.Stmt)
	walk = func(s ast.Stmt) {
		switch x := s.(type) {
		case nil:
		case *ast.AssignStmt:
			for _, r := range x.Rhs {
				exprEffects(r)
			}
			for _, l := range x.Lhs {
				if x.Tok == token.DEFINE {
					if id, ok := l.(*ast.Ident); ok {
						declare(id.Name)
						continue
					}
				}
				mark(l)
			}
		case *ast.IncDecStmt:
			mark(x.X)
		case *ast.DeclStmt:
			if gd, ok := x.Decl.(*ast.GenDecl); ok {
				for _, sp := range gd.Specs {
					if vs, ok := sp.(*ast.ValueSpec); ok {
						for _, v := range vs.Values {
							exprEffects(v)
						}
						for _, nm := range vs.Names {
							declare(nm.Name)
						}
					}
				}
			}
		case *ast.ExprStmt:
			exprEffects(x.X)
		case *ast.ReturnStmt:
			for _, r := range x.Results {
				exprEffects(r)
			}
		case *ast.BlockStmt:
			scopes = append(scopes, scope{})
			walkList(x.List)
			scopes = scopes[:len(scopes)-1]
		case *ast.IfStmt:
			scopes = append(scopes, scope{})
			walk(x.Init)
			exprEffects(x.Cond)
			walk(x.Body)
			walk(x.Else)
			scopes = scopes[:len(scopes)-1]
		case *ast.ForStmt:
			scopes = append(scopes, scope{})
			walk(x.Init)
			exprEffects(x.Cond)
			walk(x.Post)
			walk(x.Body)
			scopes = scopes[:len(scopes)-1]
		case *ast.RangeStmt:
			exprEffects(x.X)
			scopes = append(scopes, scope{})
			for _, e := range []ast.Expr{x.Key, x.Value} {
				if e == nil {
					continue
				}
				if id, ok := e.(*ast.Ident); ok && x.Tok == token.DEFINE {
					declare(id.Name)
				} else {
					mark(e)
				}
			}
			walk(x.Body)
			scopes = scopes[:len(scopes)-1]
		case *ast.SwitchStmt:
			scopes = append(scopes, scope{})
			walk(x.Init)
			exprEffects(x.Tag)
			for _, cl := range x.Body.List {
				cc := cl.(*ast.CaseClause)
				scopes = append(scopes, scope{})
				walkList(cc.Body)
				scopes = scopes[:len(scopes)-1]
			}
			scopes = scopes[:len(scopes)-1]
		case *ast.LabeledStmt:
			walk(x.Stmt)
		}
	}
	walkList = func(list []ast.Stmt) {
		for _, s := range list {
			walk(s)
		}
	}
	for _, l := range lists {
		scopes = append(scopes, scope{})
		walkList(l)
		scopes = scopes[:len(scopes)-1]
	}
	// NORMALISATION (topics with declOrder): the variables in the order of their DECLARATION (receiver, parameters, results,
	// locals), not of their first assignment in the statements — the state tuple of a loop and the
	// join tuple of an `if` then do not depend on the order in which independent assignments are
	// written (nor on which arm of an `if` comes first)
	if !c.declOrder {
		return order // topics whose proofs were written against the order of first assignment (code_part4.go)
	}
	sort.SliceStable(order, func(i, j int) bool {
		a, b := c.lookup(order[i]), c.lookup(order[j])
		if a == nil || b == nil {
			return false
		}
		return a.seq < b.seq
	})
	return order
}
