// facts_sem.go — the named constants of Facts.lean, derived from the BEHAVIOUR
// of the configuration functions (interp.go) instead of the position of their
// integer literals:
//
//   - defaults   = SetDefaults of the all-zero value (or of a value with one
//     field set, where the default depends on another field),
//   - thresholds = found by searching with the interpreter (smallest / largest
//     accepted value, position of the step of a step function).
//
// Every derivation validates the shape it assumes (one step, a contiguous
// accepted range strictly inside the probed range, linearity …).  If the
// interpreter cannot run a function, or the shape is not the expected one, the
// constants of that group fall back to the positional value, Facts.lean says so
// (`-- positional fallback: …`) and `shapeOK` guards the length of the literal
// list the position refers to.
package main

import (
	"fmt"
	"math/big"
	"strconv"
	"strings"
)

// namedConst is a constant of Facts.lean that the hand-written model imports.
type namedConst struct {
	name, typ string
	key       string // positional fallback: literal list …
	idx       int    // … and index
	str       bool   // string constant (index into the string literals)
	posLen    int    // length of the literal list the position assumes (guard of the fallback)
	group     string
}

// order = order of emission (unchanged from the positional generator)
var semConsts = []namedConst{
	{"defWindowSize", "Int", "BufConfig_SetDefaults", 1, false, 9, "BufConfig.SetDefaults"},
	{"shrinkSmallLimit", "Int", "BufConfig_SetDefaults", 4, false, 9, "BufConfig.SetDefaults (limit)"},
	{"defShrinkSize", "Int", "BufConfig_SetDefaults", 6, false, 9, "BufConfig.SetDefaults"},
	{"defBlockSize", "Int", "BufConfig_SetDefaults", 8, false, 9, "BufConfig.SetDefaults"},
	{"defInputLen", "Int", "hashConfig_SetDefaults", 1, false, 4, "hashConfig.SetDefaults"},
	{"defHashBits", "Int", "hashConfig_SetDefaults", 3, false, 4, "hashConfig.SetDefaults"},
	{"dhSmallInputLen", "Int", "dhConfig_SetDefaults", 1, false, 4, "dhConfig.SetDefaults"},
	{"defInputLen2Small", "Int", "dhConfig_SetDefaults", 2, false, 4, "dhConfig.SetDefaults"},
	{"defInputLen2Large", "Int", "dhConfig_SetDefaults", 3, false, 4, "dhConfig.SetDefaults"},
	{"defBucketInputLen", "Int", "bucketConfig_SetDefaults", 1, false, 6, "bucketConfig.SetDefaults"},
	{"defBucketHashBits", "Int", "bucketConfig_SetDefaults", 3, false, 6, "bucketConfig.SetDefaults"},
	{"defBucketSize", "Int", "bucketConfig_SetDefaults", 5, false, 6, "bucketConfig.SetDefaults"},
	{"defMinMatchLen", "Int", "GSAPConfig_SetDefaults", 1, false, 2, "GSAPConfig.SetDefaults"},
	{"defOsapMinMatchLen", "Int", "OSAPConfig_SetDefaults", 2, false, 5, "OSAPConfig.SetDefaults"},
	{"defMaxMatchLen", "Int", "OSAPConfig_SetDefaults", 4, false, 5, "OSAPConfig.SetDefaults"},
	{"defCost", "String", "OSAPConfig_SetDefaults", 1, true, 5, "OSAPConfig.SetDefaults"},
	{"minInputLen", "Int", "hashConfig_Verify", 0, false, 5, "hashConfig.Verify"},
	{"maxInputLen", "Int", "hashConfig_Verify", 1, false, 5, "hashConfig.Verify"},
	{"maxHashBits", "Int", "hashConfig_Verify", 2, false, 5, "hashConfig.Verify"},
	{"maxBucketHashBits", "Int", "bucketConfig_Verify", 2, false, 7, "bucketConfig.Verify"},
	{"minBucketSize", "Int", "bucketConfig_Verify", 5, false, 7, "bucketConfig.Verify"},
	{"maxBucketSize", "Int", "bucketConfig_Verify", 6, false, 7, "bucketConfig.Verify"},
	{"decDefWindowSize", "Int", "DecoderConfig_SetDefaults", 1, false, 4, "DecoderConfig.SetDefaults"},
	{"decBufFactor", "Int", "DecoderConfig_SetDefaults", 3, false, 4, "DecoderConfig.SetDefaults"},
}

type semFacts struct {
	in       *interp
	lits     map[string][]string
	val      map[string]string // constant -> Lean literal
	how      map[string]string // constant -> derivation
	failed   map[string]string // group -> reason of the fallback
	extra    []string          // additional semantic facts (lines of Lean)
	extraChk []string          // additional conjuncts of shapeOK (value based, not positional)
}

type semAbort struct{ reason string }

func (s *semFacts) abort(format string, a ...interface{}) {
	panic(semAbort{fmt.Sprintf(format, a...)})
}

// group runs the derivation of one group; on failure none of its constants is kept.
func (s *semFacts) group(name string, f func()) {
	saved := map[string]string{}
	for k, v := range s.val {
		saved[k] = v
	}
	nExtra, nChk := len(s.extra), len(s.extraChk)
	defer func() {
		if r := recover(); r != nil {
			a, ok := r.(semAbort)
			if !ok {
				panic(r)
			}
			s.val = saved
			s.extra, s.extraChk = s.extra[:nExtra], s.extraChk[:nChk]
			s.failed[name] = a.reason
		}
	}()
	f()
}

func (s *semFacts) set(name string, v *big.Int, how string) {
	s.val[name] = v.String()
	s.how[name] = how
}

// ---------------------------------------------------------------- running the functions

func (s *semFacts) zero(typ string) *structV {
	if s.in.structs[typ] == nil {
		s.abort("struct %s not found", typ)
	}
	var v *structV
	func() {
		defer func() {
			if r := recover(); r != nil {
				if ie, ok := r.(*interpError); ok {
					panic(semAbort{ie.msg})
				}
				panic(r)
			}
		}()
		v = s.in.newStruct(typ, nil)
	}()
	return v
}

func (s *semFacts) at(v *structV, path string) (*structV, string) {
	parts := strings.Split(path, ".")
	for _, p := range parts[:len(parts)-1] {
		n, ok := v.f[p].(*structV)
		if !ok {
			s.abort("struct %s has no struct field %s", v.typ, p)
		}
		v = n
	}
	return v, parts[len(parts)-1]
}

// mk builds a value of struct type typ with the given integer fields set.
func (s *semFacts) mk(typ string, kv ...interface{}) *structV {
	v := s.zero(typ)
	for i := 0; i+1 < len(kv); i += 2 {
		o, f := s.at(v, kv[i].(string))
		old, ok := o.f[f].(intV)
		if !ok {
			s.abort("struct %s has no integer field %s", typ, kv[i])
		}
		var b *big.Int
		switch x := kv[i+1].(type) {
		case int:
			b = big.NewInt(int64(x))
		case int64:
			b = big.NewInt(x)
		case *big.Int:
			b = x
		}
		o.f[f] = intV{old.k, b}
	}
	return v
}

func (s *semFacts) getInt(v *structV, path string) *big.Int {
	o, f := s.at(v, path)
	iv, ok := o.f[f].(intV)
	if !ok {
		s.abort("struct %s has no integer field %s", v.typ, path)
	}
	return iv.v
}

func (s *semFacts) getStr(v *structV, path string) string {
	o, f := s.at(v, path)
	sv, ok := o.f[f].(strV)
	if !ok {
		s.abort("struct %s has no string field %s", v.typ, path)
	}
	return string(sv)
}

// sd runs (*typ).SetDefaults on v and returns the result.
func (s *semFacts) sd(v *structV) *structV {
	if _, err := s.in.run(fnKey{v.typ, "SetDefaults"}, v); err != nil {
		s.abort("interpreter: %v", err)
	}
	return v
}

// ok runs (*typ).Verify on v and reports whether the result is nil.
func (s *semFacts) ok(v *structV) bool {
	r, err := s.in.run(fnKey{v.typ, "Verify"}, v)
	if err != nil {
		s.abort("interpreter: %v", err)
	}
	switch r.(type) {
	case nilV:
		return true
	case *errV:
		return false
	}
	s.abort("%s.Verify did not return an error value", v.typ)
	return false
}

// ---------------------------------------------------------------- searches

// step finds the single step of f on [lo, hi]: f = a on [lo, t), f = b on [t, hi], a ≠ b.
func (s *semFacts) step(what string, lo, hi int64, f func(int64) *big.Int) (a, b *big.Int, t int64) {
	a = f(lo)
	t = lo
	for i := lo + 1; i <= hi; i++ {
		v := f(i)
		switch {
		case t == lo && v.Cmp(a) != 0:
			b, t = v, i
		case t == lo:
		case v.Cmp(b) != 0:
			s.abort("%s is not a single-step function on [%d, %d] (second change at %d)", what, lo, hi, i)
		}
	}
	if t == lo {
		s.abort("%s is constant on [%d, %d]: no threshold", what, lo, hi)
	}
	return
}

// accepted returns min and max of {i in [lo, hi] : p(i)}; the set has to be a
// non-empty interval strictly inside [lo, hi].  If gallop is set and hi itself is
// accepted, the upper end is searched by doubling and bisection (assuming that
// the accepted set is an interval).
func (s *semFacts) accepted(what string, lo, hi int64, gallop bool, p func(int64) bool) (min, max int64) {
	found := false
	closed := false
	for i := lo; i <= hi; i++ {
		switch a := p(i); {
		case a && closed:
			s.abort("the accepted values of %s are not an interval (%d accepted after a gap)", what, i)
		case a && !found:
			found, min, max = true, i, i
		case a:
			max = i
		case found:
			closed = true
		}
	}
	if !found {
		s.abort("no accepted value of %s in [%d, %d]", what, lo, hi)
	}
	if min == lo {
		s.abort("%s has no lower bound in the probed range (%d accepted)", what, lo)
	}
	if max == hi {
		if !gallop {
			s.abort("%s has no upper bound in the probed range (%d accepted)", what, hi)
		}
		good, bad := hi, int64(0)
		for k := hi * 2; k <= 1<<62; k *= 2 {
			if !p(k) {
				bad = k
				break
			}
			good = k
			if k > 1<<61 {
				break
			}
		}
		if bad == 0 {
			s.abort("%s has no upper bound below 2^62", what)
		}
		for bad-good > 1 {
			m := good + (bad-good)/2
			if p(m) {
				good = m
			} else {
				bad = m
			}
		}
		max = good
		for _, d := range []int64{1, 2, 3, 17, 1 << 20} {
			if p(max + d) {
				s.abort("the accepted values of %s are not an interval (%d accepted above %d)", what, max+d, max)
			}
		}
	}
	return
}

// ---------------------------------------------------------------- derivations

func deriveSemanticFacts(p *pkgInfo, lits map[string][]string) *semFacts {
	s := &semFacts{in: newInterp(p), lits: lits, val: map[string]string{}, how: map[string]string{},
		failed: map[string]string{}}
	big1 := big.NewInt(1)
	shr1 := func(x *big.Int) *big.Int { return new(big.Int).Rsh(x, 1) }

	s.group("BufConfig.SetDefaults", func() {
		z := s.sd(s.mk("BufConfig"))
		s.set("defWindowSize", s.getInt(z, "WindowSize"), "BufConfig{}.SetDefaults().WindowSize")
		s.set("defBlockSize", s.getInt(z, "BlockSize"), "BufConfig{}.SetDefaults().BlockSize")
		large := new(big.Int).Lsh(big1, 30)
		shrink := func(b *big.Int) *big.Int { return s.getInt(s.sd(s.mk("BufConfig", "BufferSize", b)), "ShrinkSize") }
		def := shrink(large)
		for _, b := range []uint{31, 32, 40} {
			if shrink(new(big.Int).Lsh(big1, b)).Cmp(def) != 0 {
				s.abort("the default ShrinkSize of large buffers is not a constant")
			}
		}
		s.set("defShrinkSize", def, "BufConfig{BufferSize: 1<<30}.SetDefaults().ShrinkSize")
	})

	s.group("BufConfig.SetDefaults (limit)", func() {
		ds, ok := s.val["defShrinkSize"]
		if !ok {
			s.abort("defShrinkSize not derived: %s", s.failed["BufConfig.SetDefaults"])
		}
		def, _ := new(big.Int).SetString(ds, 10)
		shrink := func(b *big.Int) *big.Int { return s.getInt(s.sd(s.mk("BufConfig", "BufferSize", b)), "ShrinkSize") }
		// shrinkSmallLimit: SD(B).ShrinkSize = B>>1 for B < limit, = defShrinkSize for B >= limit.
		// For B in {2*def, 2*def+1} both arms agree, so behaviour alone leaves up to three
		// candidates; prefer the one that occurs as a constant in the function.
		test := func(c *big.Int) bool {
			if c.Cmp(big.NewInt(2)) < 0 {
				return false
			}
			cm := new(big.Int).Sub(c, big1)
			return shrink(cm).Cmp(shr1(cm)) == 0 && shrink(c).Cmp(def) == 0
		}
		var best *big.Int
		for _, l := range lits["BufConfig_SetDefaults"] {
			c, ok := new(big.Int).SetString(l, 10)
			if ok && test(c) && (best == nil || c.Cmp(best) < 0) {
				best = c
			}
		}
		if best != nil {
			s.set("shrinkSmallLimit", best,
				"the constant c of the function with SD(B=c-1).ShrinkSize = (c-1)>>1 and SD(B=c).ShrinkSize = defShrinkSize")
			return
		}
		// no literal qualifies: smallest B >= 1 from which on the default is used
		lo, hi := int64(1), int64(1)<<40 // SD(lo) is not the default unless the search ends there
		if shrink(big.NewInt(hi)).Cmp(def) != 0 {
			s.abort("ShrinkSize default not reached at 2^40")
		}
		isDef := func(b int64) bool { return shrink(big.NewInt(b)).Cmp(def) == 0 }
		if isDef(lo) {
			s.abort("no small-buffer arm: ShrinkSize is the default already for BufferSize 1")
		}
		for hi-lo > 1 {
			m := lo + (hi-lo)/2
			if isDef(m) {
				hi = m
			} else {
				lo = m
			}
		}
		c := big.NewInt(hi)
		if !test(c) {
			s.abort("no BufferSize limit found (candidate %d fails the behavioural test)", hi)
		}
		for _, d := range []int64{2, 3, 100} { // the arm below the limit really is B>>1
			b := new(big.Int).Sub(c, big.NewInt(d))
			if b.Sign() > 0 && shrink(b).Cmp(shr1(b)) != 0 {
				s.abort("ShrinkSize below the limit is not BufferSize>>1")
			}
		}
		s.set("shrinkSmallLimit", c, "smallest BufferSize from which on SetDefaults uses defShrinkSize (no constant of the function qualifies)")
	})

	s.group("hashConfig.SetDefaults", func() {
		z := s.sd(s.mk("hashConfig"))
		s.set("defInputLen", s.getInt(z, "InputLen"), "hashConfig{}.SetDefaults().InputLen")
		s.set("defHashBits", s.getInt(z, "HashBits"), "hashConfig{}.SetDefaults().HashBits")
	})

	// accepted (InputLen, HashBits) pairs of a Verify function with two such fields
	type pair struct{ il, hb int64 }
	grid := func(typ string, other ...interface{}) (ilMin, ilMax, hbMax int64) {
		const ilLo, ilHi, hbLo, hbHi = -3, 40, -3, 90
		acc := map[pair]bool{}
		for il := int64(ilLo); il <= ilHi; il++ {
			for hb := int64(hbLo); hb <= hbHi; hb++ {
				kv := append([]interface{}{"InputLen", il, "HashBits", hb}, other...)
				if s.ok(s.mk(typ, kv...)) {
					acc[pair{il, hb}] = true
				}
			}
		}
		ilMin, ilMax = s.accepted(typ+".InputLen", ilLo, ilHi, false, func(il int64) bool {
			for hb := int64(hbLo); hb <= hbHi; hb++ {
				if acc[pair{il, hb}] {
					return true
				}
			}
			return false
		})
		_, hbMax = s.accepted(typ+".HashBits", hbLo, hbHi, false, func(hb int64) bool {
			for il := int64(ilLo); il <= ilHi; il++ {
				if acc[pair{il, hb}] {
					return true
				}
			}
			return false
		})
		return
	}

	s.group("hashConfig.Verify", func() {
		ilMin, ilMax, hbMax := grid("hashConfig")
		s.set("minInputLen", big.NewInt(ilMin), "smallest InputLen that hashConfig.Verify accepts (for some HashBits)")
		s.set("maxInputLen", big.NewInt(ilMax), "largest InputLen that hashConfig.Verify accepts (for some HashBits)")
		s.set("maxHashBits", big.NewInt(hbMax), "largest HashBits that hashConfig.Verify accepts (for some InputLen)")
	})

	s.group("dhConfig.SetDefaults", func() {
		a, b, t := s.step("dhConfig.SetDefaults: H2.InputLen as a function of H1.InputLen", 1, 64, func(i int64) *big.Int {
			return s.getInt(s.sd(s.mk("dhConfig", "H1.InputLen", i)), "H2.InputLen")
		})
		s.set("dhSmallInputLen", big.NewInt(t), "smallest H1.InputLen for which dhConfig.SetDefaults chooses defInputLen2Large")
		s.set("defInputLen2Small", a, "dhConfig{H1.InputLen: small}.SetDefaults().H2.InputLen")
		s.set("defInputLen2Large", b, "dhConfig{H1.InputLen: large}.SetDefaults().H2.InputLen")
	})

	s.group("bucketConfig.SetDefaults", func() {
		z := s.sd(s.mk("bucketConfig"))
		s.set("defBucketInputLen", s.getInt(z, "InputLen"), "bucketConfig{}.SetDefaults().InputLen")
		s.set("defBucketHashBits", s.getInt(z, "HashBits"), "bucketConfig{}.SetDefaults().HashBits")
		s.set("defBucketSize", s.getInt(z, "BucketSize"), "bucketConfig{}.SetDefaults().BucketSize")
	})

	s.group("bucketConfig.Verify", func() {
		// a valid configuration to vary one field at a time: the defaults if they verify
		z := s.sd(s.mk("bucketConfig"))
		if !s.ok(z) {
			s.abort("the default bucketConfig does not verify")
		}
		il0, hb0, bs0 := s.getInt(z, "InputLen"), s.getInt(z, "HashBits"), s.getInt(z, "BucketSize")
		ilMin, ilMax, hbMax := grid("bucketConfig", "BucketSize", bs0)
		s.set("maxBucketHashBits", big.NewInt(hbMax), "largest HashBits that bucketConfig.Verify accepts (for some InputLen, default BucketSize)")
		bsMin, bsMax := s.accepted("bucketConfig.BucketSize", -3, 1024, true, func(bs int64) bool {
			return s.ok(s.mk("bucketConfig", "InputLen", il0, "HashBits", hb0, "BucketSize", bs))
		})
		s.set("minBucketSize", big.NewInt(bsMin), "smallest BucketSize that bucketConfig.Verify accepts (default InputLen, HashBits)")
		s.set("maxBucketSize", big.NewInt(bsMax), "largest BucketSize that bucketConfig.Verify accepts (default InputLen, HashBits)")
		s.extra = append(s.extra,
			fmt.Sprintf("def minBucketInputLen : Int := %d  -- smallest InputLen that bucketConfig.Verify accepts", ilMin),
			fmt.Sprintf("def maxBucketInputLen : Int := %d  -- largest InputLen that bucketConfig.Verify accepts", ilMax))
		if _, bad := s.failed["hashConfig.Verify"]; !bad {
			s.extraChk = append(s.extraChk, "minBucketInputLen == minInputLen", "maxBucketInputLen == maxInputLen")
		}
	})

	s.group("GSAPConfig.SetDefaults", func() {
		z := s.sd(s.mk("GSAPConfig"))
		s.set("defMinMatchLen", s.getInt(z, "MinMatchLen"), "GSAPConfig{}.SetDefaults().MinMatchLen")
	})

	s.group("OSAPConfig.SetDefaults", func() {
		z := s.sd(s.mk("OSAPConfig"))
		s.set("defOsapMinMatchLen", s.getInt(z, "MinMatchLen"), "OSAPConfig{}.SetDefaults().MinMatchLen")
		s.set("defMaxMatchLen", s.getInt(z, "MaxMatchLen"), "OSAPConfig{}.SetDefaults().MaxMatchLen")
		s.val["defCost"] = strconv.Quote(s.getStr(z, "Cost"))
		s.how["defCost"] = "OSAPConfig{}.SetDefaults().Cost"
	})

	s.group("DecoderConfig.SetDefaults", func() {
		z := s.sd(s.mk("DecoderConfig"))
		s.set("decDefWindowSize", s.getInt(z, "WindowSize"), "DecoderConfig{}.SetDefaults().WindowSize")
		buf := func(w int64) *big.Int {
			return s.getInt(s.sd(s.mk("DecoderConfig", "WindowSize", w)), "BufferSize")
		}
		f := buf(1)
		for _, w := range []int64{2, 3, 5, 1000, 1 << 23, 1 << 40} {
			if buf(w).Cmp(new(big.Int).Mul(f, big.NewInt(w))) != 0 {
				s.abort("the default BufferSize is not a multiple of WindowSize (WindowSize %d)", w)
			}
		}
		s.set("decBufFactor", f, "DecoderConfig{WindowSize: 1}.SetDefaults().BufferSize (checked: BufferSize = factor*WindowSize)")
	})
	s.group("ParserBuffer", func() {
		// margin and growMin from the capacities Reset / grow / Write allocate (len and cap of
		// b.Data are observable behaviour).  The model uses ONE margin and ONE minimum in all
		// these places; every use is probed and has to agree.
		const B = 1 << 20
		newPB := func() *structV { return s.mk("ParserBuffer", "BufConfig.BufferSize", B) }
		capLen := func(pb *structV) (int, int) {
			d, ok := pb.f["Data"].(*sliceV)
			if !ok {
				s.abort("ParserBuffer.Data is not a slice")
			}
			return d.c, d.n
		}
		bytes := func(n int) *sliceV {
			vals := make([]value, n)
			for i := range vals {
				vals[i] = mkInt(iU8, int64(i%251))
			}
			return newSlice(vals, "byte")
		}
		call := func(pb *structV, m string, args ...value) {
			if _, err := s.in.run(fnKey{"ParserBuffer", m}, pb, args...); err != nil {
				s.abort("interpreter: %v", err)
			}
		}
		margin := -1
		for _, n := range []int{1, 2, 9, 100} {
			pb := newPB()
			call(pb, "Reset", bytes(n)) // cap(data) = len(data): no margin, Reset has to allocate
			c, l := capLen(pb)
			if l != n {
				s.abort("Reset(data) leaves len(b.Data) = %d for len(data) = %d", l, n)
			}
			if margin < 0 {
				margin = c - l
			} else if c-l != margin {
				s.abort("Reset allocates different margins (%d, %d)", margin, c-l)
			}
		}
		if margin <= 0 {
			s.abort("Reset allocates no margin")
		}
		growCap := func(t int) int {
			pb := newPB()
			call(pb, "grow", mkInt(iInt, int64(t)))
			c, _ := capLen(pb)
			return c
		}
		gm := growCap(1)
		if gm <= 2+margin {
			s.abort("grow(1) allocates %d: no minimum allocation observable", gm)
		}
		tb := (gm - margin - 1) / 2 // largest t with 2t+margin < gm
		for _, t := range []int{2, 3, 10, tb} {
			if t >= 1 && growCap(t) != gm {
				s.abort("grow(%d) on an empty buffer allocates %d, expected the minimum %d", t, growCap(t), gm)
			}
		}
		for _, t := range []int{tb + 1, gm, 3*gm + 1} {
			if growCap(t) != 2*t+margin {
				s.abort("grow(%d) on an empty buffer allocates %d, expected 2t+margin = %d", t, growCap(t), 2*t+margin)
			}
		}
		for _, t := range []int{B, B/2 + 5} {
			if growCap(t) != B+margin {
				s.abort("grow(%d) allocates %d, expected BufferSize+margin = %d", t, growCap(t), B+margin)
			}
		}
		{ // grow keeps the buffer iff t+margin <= cap
			pb := newPB()
			call(pb, "grow", mkInt(iInt, 1))
			call(pb, "grow", mkInt(iInt, int64(gm-margin)))
			if c, _ := capLen(pb); c != gm {
				s.abort("grow(cap-margin) reallocates")
			}
			call(pb, "grow", mkInt(iInt, int64(gm-margin+1)))
			if c, _ := capLen(pb); c == gm {
				s.abort("grow(cap-margin+1) does not reallocate")
			}
		}
		{ // Write grows iff len+n+margin > cap
			pb := newPB()
			call(pb, "Write", bytes(gm-margin))
			if c, l := capLen(pb); c != 2*(gm-margin)+margin || l != gm-margin {
				s.abort("Write(%d bytes) on an empty buffer: cap %d len %d", gm-margin, c, l)
			}
			pb = newPB()
			call(pb, "grow", mkInt(iInt, 1))
			call(pb, "Write", bytes(gm-margin)) // fits exactly: no reallocation
			if c, _ := capLen(pb); c != gm {
				s.abort("Write reallocates although len+margin <= cap")
			}
			call(pb, "Write", bytes(1))
			if c, _ := capLen(pb); c == gm {
				s.abort("Write does not reallocate although len+margin > cap")
			}
		}
		s.val["margin"] = strconv.Itoa(margin)
		s.how["margin"] = "cap(b.Data) - len(b.Data) after ParserBuffer.Reset(data) with cap(data) = len(data) (checked: same margin in grow and Write)"
		s.val["growMin"] = strconv.Itoa(gm)
		s.how["growMin"] = "cap(b.Data) after ParserBuffer.grow(1) on an empty buffer with a large BufferSize (checked: cap = max(2t+margin, growMin) capped at BufferSize+margin)"
	})
	return s
}

// the constants of the ParserBuffer methods (emitted by main.go in front of the table above)
var pbufConsts = []namedConst{
	{"margin", "Nat", "ParserBuffer_grow", 0, false, 7, "ParserBuffer"},
	{"growMin", "Nat", "ParserBuffer_grow", 3, false, 7, "ParserBuffer"},
}

// pbufGuards: the positional checks of the ParserBuffer literal lists.  ReadFrom is neither
// translated nor interpreted (io.Reader): chunkSize stays positional and its list is always
// checked; the lists of grow / Write / Reset only if margin or growMin fell back.
func (s *semFacts) pbufGuards() []string {
	out := []string{}
	if _, ok := s.val["margin"]; !ok {
		out = append(out,
			"L_ParserBuffer_grow == [↑margin, 2, ↑margin, ↑growMin, ↑growMin, ↑margin, ↑margin]",
			"L_ParserBuffer_Write == [↑margin]",
			"L_ParserBuffer_Reset == [0, 0, 0, 0, ↑margin]")
	}
	out = append(out, "L_ParserBuffer_ReadFrom == [↑chunkSize, ↑chunkSize, ↑margin, ↑margin]")
	return out
}

// line renders the definition of a named constant; pos is the positional value.
func (s *semFacts) line(nc namedConst, pos string) string {
	if v, ok := s.val[nc.name]; ok {
		return fmt.Sprintf("def %s : %s := %s  -- %s", nc.name, nc.typ, v, s.how[nc.name])
	}
	reason := s.failed[nc.group]
	if reason == "" {
		reason = "not derived"
	}
	return fmt.Sprintf("def %s : %s := %s  -- positional fallback: %s", nc.name, nc.typ, pos, oneLine(reason))
}

func oneLine(s string) string { return strings.Join(strings.Fields(s), " ") }

// guards: shapeOK conjuncts for the literal lists that are still used by position.
func (s *semFacts) guards() []string {
	seen := map[string]bool{}
	var out []string
	for _, nc := range semConsts {
		if _, ok := s.val[nc.name]; ok || seen[nc.key] {
			continue
		}
		seen[nc.key] = true
		out = append(out, fmt.Sprintf("L_%s.length == %d", nc.key, nc.posLen))
	}
	return out
}
