// code_stmt.go — calls, statements, functions.
//
// Builtins translated here besides len/cap/copy/make/append (code_slice.go) and clear
// (code_gslice.go): min(a, b, …) / max(a, b, …) on numbers of one type ↦ nested
// `if a ≤ b then a else b` (minMaxCall) — only when the package does not declare a function of
// that name itself (the root package has its own `min`, which is translated as a function).
// A local `const` declaration is skipped when code_desugar.go has replaced all its uses.
package main

import (
	"fmt"
	"go/ast"
	"go/token"
	"strings"
)

func ind(lines []string, n int) []string {
	pad := strings.Repeat(" ", n)
	out := make([]string, len(lines))
	for i, l := range lines {
		out[i] = pad + l
	}
	return out
}

// ---------------------------------------------------------------- calls

func (c *codegen) call(x *ast.CallExpr, want gtype) (string, gtype) {
	switch f := x.Fun.(type) {
	case *ast.Ident:
		if c.lookup(f.Name) != nil {
			c.fail(x, "call of a function value %s", f.Name)
		}
		switch f.Name {
		case "int32":
			if !c.phase4 {
				break
			}
			fallthrough
		case "int", "int64", "uint32", "uint64", "uint", "byte", "uint8":
			if len(x.Args) != 1 {
				c.fail(x, "conversion with %d arguments", len(x.Args))
			}
			return c.conv(c.typeOf(f, x), x.Args[0], x)
		case "len":
			if c.phase2 {
				return c.lenCap("len", x)
			}
			if len(x.Args) != 1 {
				c.fail(x, "len with %d arguments", len(x.Args))
			}
			s, t := c.expr(x.Args[0], gtype{}, false)
			if t.kind != kSlice {
				c.fail(x, "len of %s", t)
			}
			return "Int.ofNat " + paren(s) + ".length", gtype{kind: kInt}
		case "cap":
			if c.phase2 {
				return c.lenCap("cap", x)
			}
		case "copy":
			if c.phase2 {
				return c.copyCall(x)
			}
		case "make":
			if c.phase2 {
				return c.makeCall(x)
			}
		case "append":
			if c.phase2 {
				return c.appendCall(x, "")
			}
		case "min", "max":
			// the builtin of Go 1.21 — unless the package declares its own function of that name
			if c.fns[fnKey{"", f.Name}] == nil {
				return c.minMaxCall(f.Name, x, want)
			}
		}
		if ri := c.reflOf(f.Name); ri != nil {
			if ri.setter {
				c.fail(x, "reflective setter %s used as an expression", f.Name)
			}
			return c.reflGet(ri, x)
		}
		k := fnKey{"", f.Name}
		if c.phase4 && c.opaqueOf[k] {
			return c.opaqueCall(k, x)
		}
		if !c.whiteSet[k] {
			c.fail(x, "call of non-whitelisted function %s", f.Name)
		}
		if c.phase2 {
			return c.callValue(k, nil, x)
		}
		return c.callFn(k, "", x)
	case *ast.SelectorExpr:
		if ff, isFF := c.fnFieldCallee(x); isFF { // code_osap.go
			return c.fnFieldCall(ff, x)
		}
		if sk, srecv, isSP := c.spCalleeOf(x); isSP { // code_opq.go
			vals, types := c.spCall(sk, srecv, x, false)
			if len(vals) != 1 {
				c.fail(x, "call of %s, which has %d results, used as a value", sk.goName(), len(vals))
			}
			return vals[0], types[0]
		}
		if id, ok := f.X.(*ast.Ident); ok && c.lookup(id.Name) == nil {
			q := id.Name + "." + f.Sel.Name
			switch q {
			case "bits.Len32", "bits.Len64":
				if len(x.Args) != 1 {
					c.fail(x, "%s with %d arguments", q, len(x.Args))
				}
				at := gtype{kind: kU32}
				if q == "bits.Len64" {
					at = gtype{kind: kU64}
				}
				s, t := c.expr(x.Args[0], at, false)
				if !t.eq(at) {
					c.fail(x, "%s applied to %s", q, t)
				}
				return fmt.Sprintf("bitsLen%d %s", at.bits(), paren(s)), gtype{kind: kInt}
			case "bits.LeadingZeros64", "bits.TrailingZeros64":
				if c.phase4 {
					if len(x.Args) != 1 {
						c.fail(x, "%s with %d arguments", q, len(x.Args))
					}
					at := gtype{kind: kU64}
					s, t := c.expr(x.Args[0], at, false)
					if !t.eq(at) {
						c.fail(x, "%s applied to %s", q, t)
					}
					fn := "leadingZeros64"
					if q == "bits.TrailingZeros64" {
						fn = "trailingZeros64"
					}
					return fn + " " + paren(s), gtype{kind: kInt}
				}
			case "fmt.Errorf", "errors.New":
				k, ok := c.cur.errSiteOf[x.Pos()]
				if !ok {
					c.fail(x, "error constructor outside of the function body")
				}
				return fmt.Sprintf("Err.error %d", k), gtype{kind: kError}
			}
			c.fail(x, "call of %s", q)
		}
		// method call on a struct value
		if c.phase2 {
			if irecv, ik, isIface := c.ifaceCallee(x); isIface {
				vals, types := c.ifaceCall(irecv, ik, x)
				if len(vals) != 1 {
					c.fail(x, "call of %s.%s, which has %d results, used as a value", ik.goName, ik.meth, len(vals))
				}
				return vals[0], types[0]
			}
			k, recv, ok := c.calleeOf(x)
			if !ok {
				c.fail(x, "call %s", c.src(x))
			}
			return c.callValue(k, recv, x)
		}
		recv, t := c.expr(f.X, gtype{}, false)
		if t.kind != kStruct {
			c.fail(x, "method call %s on %s", f.Sel.Name, t)
		}
		k := fnKey{t.name, f.Sel.Name}
		if !c.whiteSet[k] {
			c.fail(x, "call of non-whitelisted method %s", fnName(k))
		}
		if c.mutates[k] {
			c.fail(x, "call of the mutating method %s inside an expression", fnName(k))
		}
		return c.callFn(k, recv, x)
	}
	c.fail(x, "call %s", c.src(x))
	return "", gtype{}
}

// minMaxCall translates the builtins min(a, b, …) / max(a, b, …) on numbers of one type:
// `if a ≤ b then a else b` (for more arguments nested from the left, like Go).  The operands
// are pure Lean terms (whatever may panic in them has been hoisted), so repeating them is fine.
func (c *codegen) minMaxCall(name string, x *ast.CallExpr, want gtype) (string, gtype) {
	if len(x.Args) < 2 || x.Ellipsis.IsValid() {
		c.fail(x, "%s with %d arguments", name, len(x.Args))
	}
	// every argument is translated once (what may panic in it is hoisted once, in source order);
	// the untyped constants adopt the type of the others
	t := want
	vals := make([]string, len(x.Args))
	isConst := make([]bool, len(x.Args))
	typed := false
	for i, a := range x.Args {
		if _, at, ok := c.cfold(a); ok && at.kind == kUntyped {
			isConst[i] = true
			continue
		}
		s, at := c.expr(a, gtype{}, false)
		if typed && !at.eq(t) {
			c.fail(a, "argument %d of %s has type %s, want %s", i+1, name, at, t)
		}
		vals[i], t, typed = s, at, true
	}
	if !t.numeric() {
		c.fail(x, "%s on %s", name, t)
	}
	var acc string
	for i, a := range x.Args {
		s := vals[i]
		if isConst[i] {
			s, _ = c.expr(a, t, false)
		}
		if i == 0 {
			acc = s
			continue
		}
		op := "≤"
		if name == "max" {
			op = "≥"
		}
		acc = "if " + paren(acc) + " " + op + " " + paren(s) + " then " + paren(acc) + " else " + paren(s)
	}
	return acc, t
}

// callFn emits the application of a whitelisted function.
func (c *codegen) callFn(k fnKey, recv string, x *ast.CallExpr) (string, gtype) {
	c.ensure(k, x)
	fd := c.fns[k]
	var parts []string
	parts = append(parts, "LZ.Gen."+leanFn(k))
	if k.recv != "" {
		parts = append(parts, paren(recv))
	}
	var ptypes []gtype
	for _, p := range fd.Type.Params.List {
		t := c.typeOf(p.Type, x)
		n := len(p.Names)
		if n == 0 {
			n = 1
		}
		for i := 0; i < n; i++ {
			ptypes = append(ptypes, t)
		}
	}
	if len(ptypes) != len(x.Args) {
		c.fail(x, "call of %s with %d arguments (variadic calls are not supported)", fnName(k), len(x.Args))
	}
	for i, a := range x.Args {
		s, t := c.expr(a, ptypes[i], false)
		if !t.eq(ptypes[i]) {
			c.fail(a, "argument %d of %s has type %s, want %s", i+1, fnName(k), t, ptypes[i])
		}
		parts = append(parts, paren(s))
	}
	var rt gtype
	if c.mutates[k] {
		rt = gtype{kind: kStruct, name: k.recv}
	} else {
		rt = c.resultType(k, x)
	}
	return strings.Join(parts, " "), rt
}

func (c *codegen) resultType(k fnKey, at ast.Node) gtype {
	fd := c.fns[k]
	if fd.Type.Results == nil || len(fd.Type.Results.List) == 0 {
		return gtype{}
	}
	if len(fd.Type.Results.List) != 1 || len(fd.Type.Results.List[0].Names) > 0 {
		c.fail(at, "function %s with named or multiple results", fnName(k))
	}
	return c.typeOf(fd.Type.Results.List[0].Type, at)
}

// ---------------------------------------------------------------- statements: analysis

func hasReturn(list []ast.Stmt) bool {
	found := false
	for _, s := range list {
		ast.Inspect(s, func(n ast.Node) bool {
			if _, ok := n.(*ast.ReturnStmt); ok {
				found = true
			}
			return !found
		})
	}
	return found
}

func terminates(list []ast.Stmt) bool {
	if len(list) == 0 {
		return false
	}
	switch s := list[len(list)-1].(type) {
	case *ast.ExprStmt:
		return isPanicStmt(s)
	case *ast.ReturnStmt:
		return true
	case *ast.BranchStmt:
		return true
	case *ast.BlockStmt:
		return terminates(s.List)
	case *ast.IfStmt:
		if s.Else == nil {
			return false
		}
		return terminates(s.Body.List) && terminates(elseList(s))
	case *ast.SwitchStmt:
		def := false
		for _, cl := range s.Body.List {
			cc := cl.(*ast.CaseClause)
			if cc.List == nil {
				def = true
			}
			if !terminates(cc.Body) {
				return false
			}
		}
		return def
	}
	return false
}

func elseList(s *ast.IfStmt) []ast.Stmt {
	switch e := s.Else.(type) {
	case nil:
		return nil
	case *ast.BlockStmt:
		return e.List
	default:
		return []ast.Stmt{e}
	}
}

func rootIdent(e ast.Expr) *ast.Ident {
	for {
		switch x := e.(type) {
		case *ast.Ident:
			return x
		case *ast.SelectorExpr:
			e = x.X
		case *ast.ParenExpr:
			e = x.X
		case *ast.StarExpr:
			e = x.X
		case *ast.IndexExpr:
			// x[i] is rooted at x: an element assignment modifies (the value of) x
			e = x.X
		default:
			return nil
		}
	}
}

// assignedOuter lists (in order of first occurrence) the variables declared
// outside of the statement lists that are assigned inside of them.
func (c *codegen) assignedOuter(at ast.Node, lists ...[]ast.Stmt) []string {
	if c.phase2 {
		return c.assignedOuter2(at, lists...)
	}
	var order []string
	assigned := map[string]bool{}
	declared := map[string]bool{}
	mark := func(e ast.Expr) {
		if id := rootIdent(e); id != nil && id.Name != "_" && !assigned[id.Name] {
			assigned[id.Name] = true
			order = append(order, id.Name)
		}
	}
	for _, l := range lists {
		for _, s := range l {
			ast.Inspect(s, func(n ast.Node) bool {
				switch x := n.(type) {
				case *ast.AssignStmt:
					for _, lhs := range x.Lhs {
						if x.Tok == token.DEFINE {
							if id, ok := lhs.(*ast.Ident); ok {
								declared[id.Name] = true
							}
						} else {
							mark(lhs)
						}
					}
				case *ast.IncDecStmt:
					mark(x.X)
				case *ast.RangeStmt:
					for _, e := range []ast.Expr{x.Key, x.Value} {
						if id, ok := e.(*ast.Ident); ok {
							if x.Tok == token.DEFINE {
								declared[id.Name] = true
							} else {
								mark(id)
							}
						}
					}
				case *ast.DeclStmt:
					if gd, ok := x.Decl.(*ast.GenDecl); ok {
						for _, sp := range gd.Specs {
							if vs, ok := sp.(*ast.ValueSpec); ok {
								for _, nm := range vs.Names {
									declared[nm.Name] = true
								}
							}
						}
					}
				case *ast.ExprStmt:
					if call, ok := x.X.(*ast.CallExpr); ok {
						switch f := call.Fun.(type) {
						case *ast.SelectorExpr:
							// a method call on an addressable path may mutate its root
							if id := rootIdent(f.X); id != nil && c.lookup(id.Name) != nil {
								mark(f.X)
							}
						case *ast.Ident:
							if ri := c.reflOf(f.Name); ri != nil && ri.setter && len(call.Args) > 0 {
								mark(call.Args[0])
							}
						}
					}
				}
				return true
			})
		}
	}
	var out []string
	for _, n := range order {
		outer := c.lookup(n) != nil
		switch {
		case declared[n] && outer:
			c.fail(at, "variable %s is both assigned and redeclared inside a branch", n)
		case declared[n]:
		case !outer:
			c.fail(at, "assignment to %s, which is not a local variable, parameter or receiver", n)
		default:
			out = append(out, n)
		}
	}
	return out
}

// ---------------------------------------------------------------- statements: translation

type cont func() []string

func (c *codegen) snapshotScopes() []map[string]*varInfo {
	cp := make([]map[string]*varInfo, len(c.cur.scopes))
	for i, s := range c.cur.scopes {
		m := map[string]*varInfo{}
		for k, v := range s {
			vv := *v
			m[k] = &vv
		}
		cp[i] = m
	}
	return cp
}

// yield returns the continuation that produces the current values of vars.
func (c *codegen) yield(vars []string) cont {
	return func() []string {
		var ns []string
		for _, v := range vars {
			ns = append(ns, c.lookup(v).lean)
		}
		if len(ns) == 1 {
			return []string{ns[0]}
		}
		return []string{"(" + strings.Join(ns, ", ") + ")"}
	}
}

// bindJoin emits `let <vars> := <rhs>` for the value produced by a join.
func (c *codegen) bindJoin(vars []string, rhs []string) []string {
	if len(vars) == 1 {
		v := c.lookup(vars[0])
		out := []string{"let " + v.lean + " : " + v.typ.lean() + " :="}
		return append(out, ind(rhs, 2)...)
	}
	c.cur.tmp++
	t := fmt.Sprintf("join_%d", c.cur.tmp)
	out := []string{"let " + t + " :="}
	out = append(out, ind(rhs, 2)...)
	for i, v := range vars {
		proj := t + strings.Repeat(".2", i)
		if i < len(vars)-1 {
			proj += ".1"
		}
		out = append(out, "let "+c.lookup(v).lean+" : "+c.lookup(v).typ.lean()+" := "+proj)
	}
	return out
}

// block translates a nested statement list in its own scope.
func (c *codegen) block(list []ast.Stmt, k cont) []string {
	c.push()
	defer c.pop()
	return c.seq(list, k)
}

func (c *codegen) seq(list []ast.Stmt, k cont) []string {
	if len(list) == 0 {
		if k == nil {
			c.fail(c.cur.fd, "control reaches the end of a function that returns a value")
		}
		return k()
	}
	s, rest := list[0], list[1:]
	if len(c.cur.pre) != 0 || len(c.cur.mutHoist) != 0 {
		c.fail(s, "internal error: hoisted lines left over from the previous statement")
	}
	if c.phase5 {
		c.noteBlockLabels(list, k) // code_parse.go: goto targets inside nested blocks
	}
	if lines, done := c.nilGuard(s); done { // code_nil.go: dereference of a nil pointer parameter
		return lines
	}
	wrap := func(lines []string) []string {
		return append(append(c.flush(s), lines...), c.seq(rest, k)...)
	}
	switch x := s.(type) {
	case *ast.EmptyStmt:
		return c.seq(rest, k)
	case *ast.AssignStmt:
		return wrap(c.assign(x))
	case *ast.IncDecStmt:
		op := token.ADD
		if x.Tok == token.DEC {
			op = token.SUB
		}
		one := &ast.BasicLit{ValuePos: x.Pos(), Kind: token.INT, Value: "1"}
		lines := c.assign1(x.X, &ast.BinaryExpr{X: x.X, OpPos: x.Pos(), Op: op, Y: one}, false, x)
		return wrap(lines)
	case *ast.DeclStmt:
		return wrap(c.decl(x))
	case *ast.ExprStmt:
		if c.phase4 && isPanicStmt(x) && c.lookup("panic") == nil {
			// panic(v): the value is not translated; nothing after it is executed
			c.needMonadic(x)
			return []string{"Res.panic"}
		}
		if c.phase4 {
			if lines, ok := c.callbackStmt(x); ok {
				return append(lines, c.seq(rest, k)...)
			}
		}
		return wrap(c.exprStmt(x))
	case *ast.ReturnStmt:
		if len(rest) > 0 {
			c.fail(rest[0], "statement after return")
		}
		return c.ret(x)
	case *ast.IfStmt:
		if taken, isConst := c.constCond(x); isConst { // code_cblift.go: `if debug {…}` on a boolean constant of the package
			return c.seq(append(append([]ast.Stmt{}, taken...), rest...), k)
		}
		return c.ifStmt(x, rest, k)
	case *ast.SwitchStmt:
		if d := c.desugarSwitch(x); d != nil {
			return c.seq(append([]ast.Stmt{d}, rest...), k)
		}
		return c.seq(rest, k)
	case *ast.RangeStmt:
		if call := c.clearIdiom(x); call != nil {
			// code_gslice.go: the zeroing loop is clear(P)
			return c.seq(append([]ast.Stmt{&ast.ExprStmt{X: call}}, rest...), k)
		}
		if c.phase2 {
			return c.loopStmt(x, x.Body, rest, k)
		}
		return append(c.rangeStmt(x), c.seq(rest, k)...)
	case *ast.LabeledStmt:
		if c.phase4 {
			switch x.Stmt.(type) {
			case *ast.ForStmt, *ast.RangeStmt:
				if !c.labelOnlyForLoops(x.Label.Name) {
					c.fail(s, "label %s of a loop is also the target of a goto", x.Label.Name)
				}
				c.cur.pendingLabel = x.Label.Name
				return c.seq(append([]ast.Stmt{x.Stmt}, rest...), k)
			}
		}
		if c.phase2 && len(c.cur.scopes) == 2 && len(c.cur.loops) == 0 {
			if _, ok := c.cur.labels[x.Label.Name]; ok {
				// reached by falling through: the label itself has no effect
				return c.seq(append([]ast.Stmt{x.Stmt}, rest...), k)
			}
		}
		if c.phase5 && c.cur.blockLabels[x.Label.Name] != nil {
			// code_parse.go: reached by falling through: the label itself has no effect
			return c.seq(append([]ast.Stmt{x.Stmt}, rest...), k)
		}
		c.fail(s, "labeled statement (only labels on statements of the function body)")
	case *ast.BranchStmt:
		if c.phase2 {
			return c.branchStmt(x, rest)
		}
		c.fail(s, "%s statement (only a trailing break of a switch case is supported)", x.Tok)
	case *ast.ForStmt:
		if c.phase2 {
			return c.forStmt(x, rest, k)
		}
		c.fail(s, "for loop (only `for _, x := range slice` is supported)")
	case *ast.BlockStmt:
		if c.phase2 {
			// { … }: its own scope; the statements after it continue in the outer scope
			depth := len(c.cur.scopes)
			return c.block(x.List, func() []string {
				saved := c.cur.scopes
				c.cur.scopes = c.snapshotScopes()[:depth]
				defer func() { c.cur.scopes = saved }()
				return c.seq(rest, k)
			})
		}
		c.fail(s, "nested block statement")
	case *ast.GoStmt, *ast.DeferStmt, *ast.SelectStmt, *ast.SendStmt, *ast.TypeSwitchStmt:
		c.fail(s, "%T", s)
	}
	c.fail(s, "statement %T", s)
	return nil
}

func (c *codegen) ifStmt(x *ast.IfStmt, rest []ast.Stmt, k cont) []string {
	if y := c.splitAndIf(x); y != nil { // code_lend.go: `if A && B {…}` with a B that may panic
		return c.ifStmt(y, rest, k)
	}
	outerDepth := len(c.cur.scopes)
	c.push() // scope of the if statement (init variables)
	var lines []string
	if x.Init != nil {
		switch in := x.Init.(type) {
		case *ast.AssignStmt:
			al := c.assign(in)
			lines = append(lines, c.flush(in)...)
			lines = append(lines, al...)
		default:
			c.fail(x.Init, "init statement %T", x.Init)
		}
	}
	cond := c.cond(x.Cond)
	lines = append(lines, c.flush(x.Cond)...)
	thenL, elseL := x.Body.List, elseList(x)
	nilV, nilThen, nilElse := c.nilTest(x) // code_nil.go: `if p == nil` decides the nil-ness of p in the branches

	if !c.jumps(thenL) && !c.jumps(elseL) {
		vars := c.assignedOuter(x, thenL, elseL)
		// variables declared by the init statement are dead after the if
		var live []string
		for _, v := range vars {
			if c.lookup(v).depth < outerDepth {
				live = append(live, v)
			}
		}
		nb := c.cur.nbind
		if len(live) == 0 {
			// no effect outside: still translate (to check the subset), emit nothing
			// unless a branch may panic
			rhs := c.joinRhs(x, cond, func() []string { return []string{yieldMark + "()"} })
			c.pop()
			if c.cur.nbind != nb {
				lines = append(lines, c.bindJoinRes(nil, resolveYield(rhs, true))...)
			}
			return append(lines, c.seq(rest, k)...)
		}
		rhs := c.joinRhs(x, cond, c.yieldMarked(live))
		c.pop()
		if c.cur.nbind != nb {
			lines = append(lines, c.bindJoinRes(live, resolveYield(rhs, true))...)
		} else {
			lines = append(lines, c.bindJoin(live, resolveYield(rhs, false))...)
		}
		return append(lines, c.seq(rest, k)...)
	}

	// a branch returns: the continuation moves into the branches that fall through
	usedSnap, tmpSnap := map[string]bool{}, c.cur.tmp
	for n := range c.cur.used {
		usedSnap[n] = true
	}
	restK := func() []string {
		saved := c.cur.scopes
		c.cur.scopes = c.snapshotScopes()[:outerDepth]
		defer func() { c.cur.scopes = saved }()
		if c.phase2 {
			// every copy of the continuation is translated with the same names: the variables
			// and temporaries of the branch it follows are dead, so re-using their names is harmless
			c.cur.used = map[string]bool{}
			for n := range usedSnap {
				c.cur.used[n] = true
			}
			c.cur.tmp = tmpSnap
		}
		return c.seq(rest, k)
	}
	var a, b []string
	if terminates(thenL) {
		a = c.inNil(nilV, nilThen, func() []string { return c.block(thenL, nil) })
	} else {
		a = c.inNil(nilV, nilThen, func() []string { return c.block(thenL, restK) })
	}
	if terminates(elseL) {
		b = c.inNil(nilV, nilElse, func() []string { return c.block(elseL, nil) })
	} else {
		b = c.inNil(nilV, nilElse, func() []string { return c.block(elseL, restK) })
	}
	c.pop()
	lines = append(lines, "if "+cond+" then")
	lines = append(lines, ind(a, 2)...)
	lines = append(lines, "else")
	if x.Else == nil && terminates(thenL) {
		// early return: the rest of the function continues at the same level
		lines = append(lines, b...)
	} else {
		lines = append(lines, ind(b, 2)...)
	}
	return lines
}

// joinRhs renders a return-free if / else-if chain whose branches end in y.
func (c *codegen) joinRhs(x *ast.IfStmt, cond string, y cont) []string {
	nilV, nilThen, nilElse := c.nilTest(x) // code_nil.go
	rhs := []string{"if " + cond + " then"}
	rhs = append(rhs, ind(c.inNil(nilV, nilThen, func() []string { return c.block(x.Body.List, y) }), 2)...)
	el := elseList(x)
	if len(el) == 1 {
		if ei, ok := el[0].(*ast.IfStmt); ok && ei.Init == nil {
			sub := c.inNil(nilV, nilElse, func() []string {
				c.push()
				defer c.pop()
				return c.joinRhs(ei, c.cond(ei.Cond), y)
			})
			sub[0] = "else " + sub[0]
			return append(rhs, sub...)
		}
	}
	rhs = append(rhs, "else")
	return append(rhs, ind(c.inNil(nilV, nilElse, func() []string { return c.block(el, y) }), 2)...)
}

// desugarSwitch turns a switch into a chain of if statements.
func (c *codegen) desugarSwitch(x *ast.SwitchStmt) ast.Stmt {
	if x.Init != nil {
		c.fail(x, "switch with init statement")
	}
	type clause struct {
		cond ast.Expr
		body []ast.Stmt
		pos  token.Pos
	}
	var cls []clause
	var def *clause
	for _, s := range x.Body.List {
		cc := s.(*ast.CaseClause)
		body := cc.Body
		if n := len(body); n > 0 {
			if br, ok := body[n-1].(*ast.BranchStmt); ok && br.Tok == token.BREAK && br.Label == nil {
				body = body[:n-1]
			}
		}
		for _, b := range body {
			ast.Inspect(b, func(n ast.Node) bool {
				if br, ok := n.(*ast.BranchStmt); ok {
					if c.phase4 && (br.Tok == token.CONTINUE || (br.Tok == token.BREAK && br.Label != nil)) {
						return true // refers to a loop, not to the switch
					}
					c.fail(br, "%s inside a switch case", br.Tok)
				}
				return true
			})
		}
		if cc.List == nil {
			if def != nil {
				c.fail(cc, "two default clauses")
			}
			def = &clause{nil, body, cc.Pos()}
			continue
		}
		var cond ast.Expr
		for _, e := range cc.List {
			var one ast.Expr = e
			if x.Tag != nil {
				one = &ast.BinaryExpr{X: x.Tag, OpPos: e.Pos(), Op: token.EQL, Y: e}
			}
			if cond == nil {
				cond = one
			} else {
				cond = &ast.BinaryExpr{X: cond, OpPos: e.Pos(), Op: token.LOR, Y: one}
			}
		}
		cls = append(cls, clause{cond, body, cc.Pos()})
	}
	if x.Tag != nil {
		// the tag is evaluated once; it must be a side-effect free path or constant
		if rootIdent(x.Tag) == nil && !(c.phase5 && c.pureLenTag(x.Tag)) {
			if _, _, ok := c.cfold(x.Tag); !ok {
				c.fail(x.Tag, "switch tag %s (only variables and field paths)", c.src(x.Tag))
			}
		}
	}
	var elseS ast.Stmt
	if def != nil {
		elseS = &ast.BlockStmt{Lbrace: def.pos, List: def.body}
	}
	for i := len(cls) - 1; i >= 0; i-- {
		elseS = &ast.IfStmt{If: cls[i].pos, Cond: cls[i].cond,
			Body: &ast.BlockStmt{Lbrace: cls[i].pos, List: cls[i].body}, Else: elseS}
	}
	if elseS == nil {
		return nil
	}
	if bs, ok := elseS.(*ast.BlockStmt); ok {
		// only a default clause
		return &ast.IfStmt{If: bs.Lbrace, Cond: ast.NewIdent("true"), Body: bs}
	}
	return elseS
}

func (c *codegen) rangeStmt(x *ast.RangeStmt) []string {
	if x.Tok != token.DEFINE {
		c.fail(x, "range without :=")
	}
	if id, ok := x.Key.(*ast.Ident); !ok || id.Name != "_" {
		c.fail(x, "range with an index variable")
	}
	val, ok := x.Value.(*ast.Ident)
	if !ok || val.Name == "_" {
		c.fail(x, "range without a value variable")
	}
	if hasReturn(x.Body.List) {
		c.fail(x, "return inside a range loop")
	}
	ast.Inspect(x.Body, func(n ast.Node) bool {
		if br, ok := n.(*ast.BranchStmt); ok {
			c.fail(br, "%s inside a range loop", br.Tok)
		}
		return true
	})
	sl, st := c.expr(x.X, gtype{}, false)
	if st.kind != kSlice {
		c.fail(x, "range over %s", st)
	}
	if len(c.cur.pre) != 0 {
		c.fail(x, "range over an expression that may panic")
	}
	nbRange := c.cur.nbind
	defer func() {
		if c.cur != nil && c.cur.nbind != nbRange {
			c.fail(x, "operation that may panic inside a range loop")
		}
	}()
	if id := rootIdent(x.X); id != nil {
		for _, v := range c.assignedOuter(x, x.Body.List) {
			if v == id.Name {
				c.fail(x, "the range loop assigns to the variable it ranges over")
			}
		}
	}
	vars := c.assignedOuter(x, x.Body.List)
	if len(vars) == 0 {
		c.fail(x, "range loop without accumulator")
	}
	y := c.yield(vars)
	acc := y()[0]
	c.push()
	v := c.declare(val.Name, *st.elem)
	var body []string
	if len(vars) == 1 {
		body = c.seq(x.Body.List, y)
	} else {
		c.cur.tmp++
		t := fmt.Sprintf("acc_%d", c.cur.tmp)
		for i, vn := range vars {
			proj := t + strings.Repeat(".2", i)
			if i < len(vars)-1 {
				proj += ".1"
			}
			body = append(body, "let "+c.lookup(vn).lean+" : "+c.lookup(vn).typ.lean()+" := "+proj)
		}
		body = append(body, c.seq(x.Body.List, y)...)
		acc = t
	}
	c.pop()
	init := y()[0]
	rhs := []string{"List.foldl (fun " + acc + " " + v.lean + " =>"}
	rhs = append(rhs, ind(body, 4)...)
	rhs[len(rhs)-1] += ") " + init + " " + paren(sl)
	return c.bindJoin(vars, rhs)
}

func (c *codegen) decl(x *ast.DeclStmt) []string {
	gd, ok := x.Decl.(*ast.GenDecl)
	if ok && gd.Tok == token.TYPE && c.phase4 {
		c.localTypeDecl(gd)
		return nil
	}
	if ok && gd.Tok == token.CONST && desugaredConsts[gd] {
		return nil // code_desugar.go: every use has been replaced by the constant expression
	}
	if !ok || gd.Tok != token.VAR {
		c.fail(x, "local %s declaration", gd.Tok)
	}
	var lines []string
	for _, sp := range gd.Specs {
		vs := sp.(*ast.ValueSpec)
		if len(vs.Values) != 0 && len(vs.Values) != len(vs.Names) {
			c.fail(x, "var declaration with a multi-valued initializer")
		}
		for i, nm := range vs.Names {
			var t gtype
			if vs.Type != nil {
				t = c.typeOf(vs.Type, x)
			}
			var val string
			if len(vs.Values) > 0 {
				var vt gtype
				val, vt = c.expr(vs.Values[i], t, true)
				if vt.kind == kUntyped {
					vt = gtype{kind: kInt}
					val, _ = c.expr(vs.Values[i], vt, true)
				}
				if t.kind == kInvalid {
					t = vt
				} else if !t.eq(vt) {
					c.fail(x, "initializer of type %s for variable of type %s", vt, t)
				}
			} else {
				if t.kind == kInvalid {
					c.fail(x, "var declaration without type")
				}
				val = c.zeroOf(t, x)
			}
			if nm.Name == "_" {
				continue
			}
			v := c.declare(nm.Name, t)
			if len(vs.Values) > 0 {
				c.noteSliceAlias(v, nil, t, vs.Values[i], x)
			}
			lines = append(lines, fmt.Sprintf("let %s : %s := %s", v.lean, t.lean(), val))
		}
	}
	return lines
}

func (c *codegen) zeroOf(t gtype, at ast.Node) string {
	if t.kind == kStruct {
		var fs []string
		for _, f := range c.structFields(t.name, at) {
			fs = append(fs, f.name+" := "+c.zeroOf(f.typ, at))
		}
		return "{ " + strings.Join(fs, ", ") + " }"
	}
	z := zeroValue(t)
	if z == "" {
		c.fail(at, "zero value of %s", t)
	}
	return z
}

// path returns root variable and field path of an addressable expression.
func (c *codegen) path(e ast.Expr) (*varInfo, []string) {
	switch x := e.(type) {
	case *ast.Ident:
		if v := c.lookup(x.Name); v != nil {
			return v, nil
		}
		c.fail(e, "assignment to %s, which is not a local variable, parameter or receiver", x.Name)
	case *ast.ParenExpr:
		return c.path(x.X)
	case *ast.SelectorExpr:
		v, p := c.path(x.X)
		fp, _ := c.fieldPath(c.pathType(v, p, e), x.Sel.Name, e)
		return v, append(p, fp...)
	case *ast.StarExpr:
		if id, ok := x.X.(*ast.Ident); ok && c.phase2 && c.cur.recvVar == id.Name {
			return c.path(x.X)
		}
	}
	c.fail(e, "assignment target %s", c.src(e))
	return nil, nil
}

// update builds the term that replaces the field at path p of variable v by val.
func update(base string, p []string, val string) string {
	if len(p) == 0 {
		return val
	}
	inner := update(base+"."+p[0], p[1:], val)
	return "{ " + base + " with " + p[0] + " := " + inner + " }"
}

func (c *codegen) pathType(v *varInfo, p []string, at ast.Node) gtype {
	t := v.typ
	for _, f := range p {
		t = c.fieldType(t, f, at)
	}
	return t
}

func allPlainIdents(es []ast.Expr) bool {
	seen := map[string]bool{}
	for _, e := range es {
		id, ok := e.(*ast.Ident)
		if !ok || (id.Name != "_" && seen[id.Name]) {
			return false
		}
		seen[id.Name] = true
	}
	return true
}

func usesIdent(e ast.Expr, names map[string]bool) bool {
	found := false
	ast.Inspect(e, func(n ast.Node) bool {
		if se, ok := n.(*ast.SelectorExpr); ok {
			// the selector of `X.f` is a field name, not a variable (code_osap.go: `m, o := d[i].m, d[i].o`)
			found = found || usesIdent(se.X, names)
			return false
		}
		if id, ok := n.(*ast.Ident); ok && names[id.Name] {
			found = true
		}
		return !found
	})
	return found
}

func (c *codegen) assign(x *ast.AssignStmt) []string {
	def := x.Tok == token.DEFINE
	switch x.Tok {
	case token.DEFINE, token.ASSIGN:
		if len(x.Lhs) == 2 && len(x.Rhs) == 1 {
			// v, _ := reflectiveGetter(cfg)
			if call, ok := x.Rhs[0].(*ast.CallExpr); ok {
				if id, ok := call.Fun.(*ast.Ident); ok && c.lookup(id.Name) == nil {
					if ri := c.reflOf(id.Name); ri != nil && !ri.setter && ri.nres == 2 {
						if b, ok := x.Lhs[1].(*ast.Ident); !ok || b.Name != "_" {
							c.fail(x, "the error result of %s must be discarded with _ (it is statically nil)", id.Name)
						}
						return c.assign1(x.Lhs[0], x.Rhs[0], def, x)
					}
				}
			}
		}
		if len(x.Lhs) != len(x.Rhs) {
			if c.phase2 && len(x.Rhs) == 1 {
				return c.multiAssign(x)
			}
			c.fail(x, "assignment of a multi-valued call")
		}
		if len(x.Lhs) > 1 {
			// Go evaluates all right sides first and assigns afterwards; the translation assigns one after
			// the other, which is the same unless a right side reads the root variable of an EARLIER left
			// side (code_desugar.go: tupleDependency; `n, k = n+nn, k+kk` is fine, `a, b = b, a` is not).
			// The normalisation pass has already introduced temporaries for such statements in statement
			// lists; what arrives here with a dependency is in a position it does not handle.
			if tupleDependency(x.Lhs, x.Rhs) != 0 {
				c.fail(x, "parallel assignment whose right side reads an earlier assigned variable")
			}
		}
		var lines []string
		for i := range x.Lhs {
			lines = append(lines, c.assign1(x.Lhs[i], x.Rhs[i], def, x)...)
			if i > 0 && len(c.cur.pre) != 0 && !(c.phase5 && len(c.cur.mutHoist) == 0 && allPlainIdents(x.Lhs)) {
				// code_osap.go: when every left side is a plain variable (`m, o := d[i].m, d[i].o`), the
				// operations that may only PANIC (index, slice, make: Res.bind lines without a rebinding) are
				// hoisted in front of the whole statement; no right side reads an assigned variable (checked
				// above) and every panic is the same Res.panic, so their order is immaterial.  (With an element
				// assignment on the left the hoisted `set` of the second would read the slice before the first.)
				c.fail(x, "parallel assignment with an operation that may panic or a call with effects")
			}
		}
		return lines
	case token.ADD_ASSIGN, token.SUB_ASSIGN, token.MUL_ASSIGN, token.AND_ASSIGN, token.OR_ASSIGN,
		token.SHL_ASSIGN, token.SHR_ASSIGN:
		op := map[token.Token]token.Token{token.ADD_ASSIGN: token.ADD, token.SUB_ASSIGN: token.SUB,
			token.MUL_ASSIGN: token.MUL, token.AND_ASSIGN: token.AND, token.OR_ASSIGN: token.OR,
			token.SHL_ASSIGN: token.SHL, token.SHR_ASSIGN: token.SHR}[x.Tok]
		if len(x.Lhs) != 1 || len(x.Rhs) != 1 {
			c.fail(x, "compound assignment with several operands")
		}
		return c.assign1(x.Lhs[0], &ast.BinaryExpr{X: x.Lhs[0], OpPos: x.TokPos, Op: op, Y: x.Rhs[0]}, false, x)
	}
	c.fail(x, "assignment operator %s", x.Tok)
	return nil
}

func (c *codegen) assign1(lhs, rhs ast.Expr, def bool, at ast.Node) []string {
	if id, ok := lhs.(*ast.Ident); ok {
		if id.Name == "_" {
			c.expr(rhs, gtype{}, false) // checked, value dropped (expressions are pure)
			return nil
		}
		if def {
			if _, ok := c.cur.scopes[len(c.cur.scopes)-1][id.Name]; !ok {
				val, t := c.expr(rhs, gtype{}, true)
				if t.kind == kUntyped {
					t = gtype{kind: kInt} // Go's default type of an integer constant
					val, _ = c.expr(rhs, t, true)
				}
				if t.kind == kInvalid {
					c.fail(at, "value of %s has no type", c.src(rhs))
				}
				view := c.viewDefine(id.Name, at) // code_lend.go: a range-only variable is a block-scoped read-only view
				if c.phase3 && view == nil {
					c.checkNoSliceAlias(t, lhs, rhs, at)
				}
				if t.kind == kIface {
					c.ifaceMoved(rhs, at)
				}
				v := c.declare(id.Name, t)
				if view != nil {
					c.noteViewAlias(v, t, rhs, at, view)
				} else if !c.lendDefine(id.Name, at) { // code_lend.go: a lent window is no alias
					c.noteSliceAlias(v, nil, t, rhs, at)
				}
				return []string{fmt.Sprintf("let %s : %s := %s", v.lean, t.lean(), val)}
			}
		}
	}
	if ix, inner := indexStep(lhs); ix != nil {
		return c.assignElem(lhs, ix, inner, rhs, at)
	}
	v, p := c.path(lhs)
	t := c.pathType(v, p, lhs)
	if c.phase3 {
		c.checkNoSliceAlias(t, lhs, rhs, at)
	}
	if c.phase2 {
		c.checkRangeTarget(v, p, at)
	}
	if c.phase2 && len(p) == 0 {
		if id, ok := lhs.(*ast.Ident); ok {
			for _, sp := range c.cur.sig.params {
				if sp.name == id.Name && sp.out && c.lookup(id.Name).depth == 0 {
					c.fail(at, "assignment to the parameter %s, which the function also copies into", id.Name)
				}
			}
		}
	}
	var val string
	var vt gtype
	if call, ok := rhs.(*ast.CallExpr); ok && c.phase2 && isBuiltin(call, "append") && c.lookup("append") == nil {
		val, vt = c.appendCall(call, c.src(lhs))
	} else {
		val, vt = c.expr(rhs, t, true)
	}
	if !vt.eq(t) {
		c.fail(at, "assignment of %s to %s of type %s", vt, c.src(lhs), t)
	}
	if t.kind == kIface {
		c.ifaceMoved(rhs, at)
	}
	c.noteSliceAlias(v, p, t, rhs, at)
	return []string{"let " + v.lean + " : " + v.typ.lean() + " := " + update(v.lean, p, val)}
}

func (c *codegen) exprStmt(x *ast.ExprStmt) []string {
	call, ok := x.X.(*ast.CallExpr)
	if !ok {
		c.fail(x, "expression statement %s", c.src(x.X))
	}
	if li := liftedCalls[call]; li != nil { // code_cblift.go: a lambda-lifted closure as a logged callback
		return c.loggedCall(li, call)
	}
	if sk, srecv, isSP := c.spCalleeOf(call); isSP { // code_opq.go: the results are dropped, the effect is in the hoisted lines
		c.spCall(sk, srecv, call, true)
		return nil
	}
	switch f := call.Fun.(type) {
	case *ast.Ident:
		if c.phase2 && c.lookup(f.Name) == nil {
			if f.Name == "panic" && c.phase4 {
				c.fail(x, "internal error: panic statement not handled by seq")
			}
			if f.Name == "copy" {
				c.copyCall(call) // the count is dropped, the effect is in the hoisted lines
				return nil
			}
			if f.Name == "clear" && c.phase3 && c.fns[fnKey{"", "clear"}] == nil {
				return c.clearStmt(call, x) // code_gslice.go
			}
			if c.whiteSet[fnKey{"", f.Name}] && c.reflOf(f.Name) == nil {
				return c.callStmt2(x, call)
			}
		}
		if ri := c.reflOf(f.Name); ri != nil && c.lookup(f.Name) == nil {
			if !ri.setter {
				c.fail(x, "result of %s discarded", f.Name)
			}
			return c.reflSet(ri, call)
		}
	case *ast.SelectorExpr:
		if id, ok := f.X.(*ast.Ident); ok && c.lookup(id.Name) == nil {
			break // package function
		}
		if rootIdent(f.X) == nil {
			break
		}
		if c.phase2 {
			return c.callStmt2(x, call)
		}
		v, p := c.path(f.X)
		t := c.pathType(v, p, x)
		if t.kind != kStruct {
			break
		}
		k := fnKey{t.name, f.Sel.Name}
		if !c.whiteSet[k] {
			c.fail(x, "call of non-whitelisted method %s", fnName(k))
		}
		if !c.mutates[k] {
			c.fail(x, "call of %s as a statement: its result is discarded and it has no effect", fnName(k))
		}
		recv := v.lean
		if len(p) > 0 {
			recv += "." + strings.Join(p, ".")
		}
		app, _ := c.callFn(k, recv, call)
		return []string{"let " + v.lean + " : " + v.typ.lean() + " := " + update(v.lean, p, app)}
	}
	c.fail(x, "call statement %s", c.src(call))
	return nil
}

func (c *codegen) ret(x *ast.ReturnStmt) []string {
	if c.phase2 {
		return c.ret2(x)
	}
	f := c.cur
	switch len(x.Results) {
	case 0:
		if f.result.kind != kInvalid {
			c.fail(x, "bare return in a function with a result")
		}
		return c.endOfBody(x)
	case 1:
		if f.result.kind == kInvalid {
			c.fail(x, "return of a value from a function without result")
		}
		if f.recvMut {
			c.fail(x, "function both mutates its receiver and returns a value")
		}
		s, t := c.expr(x.Results[0], f.result, false)
		if !t.eq(f.result) {
			c.fail(x, "return of %s from a function returning %s", t, f.result)
		}
		return []string{s}
	}
	c.fail(x, "return of %d values", len(x.Results))
	return nil
}

func (c *codegen) endOfBody(at ast.Node) []string {
	f := c.cur
	if !f.recvMut {
		c.fail(at, "function without result that does not modify its receiver")
	}
	return []string{c.lookup(f.recvVar).lean}
}

// ---------------------------------------------------------------- functions

type fnOut struct {
	key   fnKey
	lines []string
}

func (c *codegen) function(k fnKey) fnOut {
	fd := c.fns[k]
	f := &fnCtx{key: k, fd: fd, used: map[string]bool{}, errSiteOf: map[token.Pos]int{}}
	prev := c.cur // restored also while a refusal unwinds through the caller's frames
	c.cur = f
	defer func() { c.cur = prev }()
	if fd.Body == nil {
		c.fail(fd, "function without body")
	}
	if fd.Type.TypeParams != nil {
		c.fail(fd, "generic function")
	}
	c.push()
	var params []string
	sig := "func "
	if fd.Recv != nil {
		r := fd.Recv.List[0]
		if len(r.Names) != 1 || r.Names[0].Name == "_" {
			c.fail(fd, "unnamed receiver")
		}
		t := c.typeOf(r.Type, fd)
		if t.kind != kStruct {
			c.fail(fd, "receiver of type %s", t)
		}
		_, ptr := r.Type.(*ast.StarExpr)
		f.recvVar = r.Names[0].Name
		f.recvMut = ptr && c.mutates[k]
		v := c.declare(f.recvVar, t)
		params = append(params, fmt.Sprintf("(%s : %s)", v.lean, t.lean()))
		sig += "(" + f.recvVar + " " + c.src(r.Type) + ") "
	}
	sig += fd.Name.Name + "("
	var ps []string
	for _, p := range fd.Type.Params.List {
		if _, ok := p.Type.(*ast.Ellipsis); ok {
			c.fail(fd, "variadic parameter")
		}
		t := c.typeOf(p.Type, fd)
		if len(p.Names) == 0 {
			c.fail(fd, "unnamed parameter")
		}
		var ns []string
		for _, n := range p.Names {
			if n.Name == "_" {
				c.fail(fd, "blank parameter")
			}
			v := c.declare(n.Name, t)
			params = append(params, fmt.Sprintf("(%s : %s)", v.lean, t.lean()))
			ns = append(ns, n.Name)
		}
		ps = append(ps, strings.Join(ns, ", ")+" "+c.src(p.Type))
	}
	sig += strings.Join(ps, ", ") + ")"
	f.result = c.resultType(k, fd)
	if f.result.kind != kInvalid {
		sig += " " + c.src(fd.Type.Results.List[0].Type)
	}
	// number the error constructors in source order
	ast.Inspect(fd.Body, func(n ast.Node) bool {
		if call, ok := n.(*ast.CallExpr); ok {
			if se, ok := call.Fun.(*ast.SelectorExpr); ok {
				if id, ok := se.X.(*ast.Ident); ok {
					if q := id.Name + "." + se.Sel.Name; q == "fmt.Errorf" || q == "errors.New" {
						f.errSites++
						f.errSiteOf[call.Pos()] = f.errSites
						return false
					}
				}
			}
		}
		return true
	})
	rt := f.result
	var end cont
	if f.result.kind == kInvalid {
		if !f.recvMut {
			c.fail(fd, "function without result that does not modify its receiver")
		}
		rt = gtype{kind: kStruct, name: k.recv}
		end = func() []string { return c.endOfBody(fd) }
	} else if f.recvMut {
		c.fail(fd, "function both mutates its receiver and returns a value")
	}
	c.push() // function body scope
	body := c.seq(fd.Body.List, end)
	c.pop()
	c.pop()
	{ // signature, for calls from the second part
		fs := &fnSig{recvMut: f.recvMut}
		if fd.Recv != nil {
			fs.recv = c.typeOf(fd.Recv.List[0].Type, fd)
		}
		for _, p := range fd.Type.Params.List {
			for _, n := range p.Names {
				fs.params = append(fs.params, sparam{n.Name, c.typeOf(p.Type, fd), false})
			}
		}
		if f.result.kind != kInvalid {
			fs.results = []sresult{{"", f.result}}
		}
		c.sigs[k] = fs
	}
	var out []string
	out = append(out, fmt.Sprintf("/-- `%s` — %s -/", sig, c.pos(fd)))
	out = append(out, fmt.Sprintf("def %s %s : %s :=", leanFn(k), strings.Join(params, " "), rt.lean()))
	out = append(out, ind(body, 2)...)
	return fnOut{k, out}
}
