// code_nil.go — NILABLE POINTER PARAMETERS (tenth part; general, nothing keyed on a function name; the
// per-topic switch is nilableTopics below).  The hooks in the other files are marked "code_nil.go".
//
// Everywhere else a pointer parameter `p *T` is modelled by the VALUE it points to: there is no nil
// pointer, `p == nil` is refused (or decided by the assumption of a topic of ptrNonNilTopics, code_parse.go).
// In a topic of nilableTopics a pointer PARAMETER (not the receiver) of struct type that the body of the
// function compares with nil is modelled Option-like by TWO Lean parameters
//
//	(p_nil : Bool) (p : T')          p_nil = true: the pointer is nil, the value p is a ghost (never read,
//	                                 never written; it is handed back unchanged if p is an out parameter)
//	                                 p_nil = false: the pointer points to the value p, as everywhere else
//
//	p == nil, nil == p     ↦ `p_nil = true`          p != nil, nil != p     ↦ `p_nil = false`
//
// The translated function is emitted as `<f>_nilable` (flag + value); the name `<f>` is a generated ONE-LINE
// wrapper `<f> … p … := <f>_nilable … false p …` — `<f>` is "f on non-nil pointers", which is what every other
// translated function with a pointer parameter means and what translated callers use (a caller cannot pass
// the literal nil: it has no value).  So the theorems about `<f>` keep their statements; the nil path is
// `<f>_nilable … true p …`.
//
// NIL-NESS IS TRACKED FLOW-SENSITIVELY (nilState: unknown / nil / non-nil, per nilable parameter; at the head
// of the function: unknown).  An if statement whose condition is EXACTLY `p == nil` / `p != nil` (no init
// statement) translates its branches — including the copy of the continuation that follows a branch falling
// through (ifStmt duplicates the rest of the list per branch when a branch returns) — with the state the test
// decides; after a JOIN (no branch jumps) the state is what it was before the if.  Hence after
// `if p == nil { …; return }` the rest of the function is translated with p non-nil.
//
//	state non-nil   every use of p is what it is everywhere else (the value pointed to).
//	state nil       a SIMPLE statement (assignment, inc/dec, expression statement, return, declaration)
//	                that DEREFERENCES p — `p.f` (field read or write), `*p` — ↦ `Res.panic` (nil pointer
//	                dereference; nothing after it is executed, the rest of the list is not translated),
//	                PROVIDED the statement contains no call other than len / cap / conversions (then no
//	                other outcome — a callee running out of fuel — can come first).  Otherwise refused.
//	state unknown   a dereference is refused ("nil-ness undecided": write `if p == nil {…}` around it).
//	state nil /     a use of p that is not a dereference (the pointer copied, passed on, compared with
//	unknown         another pointer, a method called on it), p in the header of a compound statement
//	                (if / for / range / switch: init, condition, post, tag, range operand), a goto or a label,
//	                a function literal: refused.
//
// A nil test of a nilable parameter INSIDE A LOOP is refused (the flag is not a Go variable, the loop
// functions take the Go variables they mention).  The parameter itself must never be assigned as a whole,
// re-declared, or have its address taken (checked up front: then it keeps its nil-ness through the function).
//
// TRUSTED READING: `<f>_nilable … true p …` is the call f(…, nil, …); the value p that accompanies a true flag
// is arbitrary and the translation never looks at it (by construction: every use under state nil / unknown is
// a panic or refused).
package main

import (
	"fmt"
	"go/ast"
	"go/token"
	"strings"
)

// nilableTopics: the topics whose functions model the pointer parameters they compare with nil as flag + value.
var nilableTopics = map[string]bool{"HPParse": true, "BHPParse": true, "DHPParse": true, "BDHPParse": true,
	"BUPParse": true, "GSAPParse": true, "OSAPParse": true}

const (
	nilUnknown = iota
	nilNil
	nilNonNil
)

// nilInfo: a nilable pointer parameter of the function being translated.
type nilInfo struct {
	name  string // Go name
	flag  string // Lean name of the flag
	state int
	seq   int // varInfo.seq of the parameter: its identity (snapshotScopes copies the varInfo records, so pointers are no identity)
}

// nilInfoOf: the nilable parameter that the variable v IS (identity by declaration number, see nilInfo.seq).
func (c *codegen) nilInfoOf(v *varInfo) *nilInfo {
	if c.cur == nil || v == nil {
		return nil
	}
	for _, ni := range c.cur.nilVars {
		if ni.seq == v.seq {
			return ni
		}
	}
	return nil
}

// bodyComparesNil: the body contains `name == nil` / `name != nil`.
func bodyComparesNil(fd *ast.FuncDecl, name string) bool {
	found := false
	ast.Inspect(fd.Body, func(n ast.Node) bool {
		if be, ok := n.(*ast.BinaryExpr); ok && (be.Op == token.EQL || be.Op == token.NEQ) {
			if isNilTestOf(be, name) {
				found = true
			}
		}
		return !found
	})
	return found
}

func isNilTestOf(be *ast.BinaryExpr, name string) bool {
	isNil := func(e ast.Expr) bool { id, ok := stripParens(e).(*ast.Ident); return ok && id.Name == "nil" }
	isP := func(e ast.Expr) bool { id, ok := stripParens(e).(*ast.Ident); return ok && id.Name == name }
	return isNil(be.Y) && isP(be.X) || isNil(be.X) && isP(be.Y)
}

// declareNilable (gen2): the parameter n of pointer-to-struct type becomes flag + value if the topic is
// nilable and the body compares it with nil.  Returns the binder of the flag ("" if not nilable).
func (c *codegen) declareNilable(fd *ast.FuncDecl, n *ast.Ident, v *varInfo) string {
	if !c.nilable || v.typ.kind != kStruct || !bodyComparesNil(fd, n.Name) {
		return ""
	}
	// the parameter keeps its nil-ness: never assigned as a whole, re-declared, address taken
	ast.Inspect(fd.Body, func(x ast.Node) bool {
		switch y := x.(type) {
		case *ast.AssignStmt:
			for _, l := range y.Lhs {
				if id, ok := stripParens(l).(*ast.Ident); ok && id.Name == n.Name {
					c.fail(y, "the nilable pointer parameter %s is assigned or re-declared", n.Name)
				}
			}
		case *ast.ValueSpec:
			for _, id := range y.Names {
				if id.Name == n.Name {
					c.fail(y, "the nilable pointer parameter %s is re-declared", n.Name)
				}
			}
		case *ast.RangeStmt:
			for _, e := range []ast.Expr{y.Key, y.Value} {
				if id, ok := e.(*ast.Ident); ok && id.Name == n.Name {
					c.fail(y, "the nilable pointer parameter %s is assigned or re-declared", n.Name)
				}
			}
		case *ast.UnaryExpr:
			if id, ok := stripParens(y.X).(*ast.Ident); ok && y.Op == token.AND && id.Name == n.Name {
				c.fail(y, "address of the nilable pointer parameter %s", n.Name)
			}
		case *ast.FuncLit:
			c.fail(y, "function literal in a function with the nilable pointer parameter %s", n.Name)
		}
		return true
	})
	flag := v.lean + "_nil"
	for c.cur.used[flag] {
		flag += "_"
	}
	c.cur.used[flag] = true
	if c.cur.nilVars == nil {
		c.cur.nilVars = map[*varInfo]*nilInfo{}
	}
	c.cur.nilVars[v] = &nilInfo{name: n.Name, flag: flag, state: nilUnknown, seq: v.seq}
	c.cur.nilOrder = append(c.cur.nilOrder, v)
	return fmt.Sprintf("(%s : Bool)", flag)
}

// nilCompare (ptrNilCompare, code_parse.go): the comparison of a nilable parameter with nil is its flag.
func (c *codegen) nilCompare(x *ast.BinaryExpr, v *varInfo) (string, bool) {
	ni := c.nilInfoOf(v)
	if ni == nil {
		return "", false
	}
	if len(c.cur.loops) > 0 {
		c.fail(x, "nil test of the nilable pointer parameter %s inside a loop", ni.name)
	}
	if x.Op == token.EQL {
		return ni.flag + " = true", true
	}
	return ni.flag + " = false", true
}

// nilTest: the condition is exactly `p == nil` / `p != nil`, p a nilable parameter: the states of p in the
// then- and in the else-branch.
func (c *codegen) nilTest(x *ast.IfStmt) (ni *nilInfo, thenSt, elseSt int) {
	if c.cur == nil || len(c.cur.nilVars) == 0 || x.Init != nil {
		return nil, 0, 0
	}
	be, ok := stripParens(x.Cond).(*ast.BinaryExpr)
	if !ok || be.Op != token.EQL && be.Op != token.NEQ {
		return nil, 0, 0
	}
	for _, n := range c.cur.nilVars {
		if isNilTestOf(be, n.name) && c.nilInfoOf(c.lookup(n.name)) == n {
			if be.Op == token.EQL {
				return n, nilNil, nilNonNil
			}
			return n, nilNonNil, nilNil
		}
	}
	return nil, 0, 0
}

// inNil runs f with the state st of ni.
func (c *codegen) inNil(ni *nilInfo, st int, f func() []string) []string {
	if ni == nil {
		return f()
	}
	saved := ni.state
	ni.state = st
	defer func() { ni.state = saved }()
	return f()
}

// nilUses classifies the occurrences of the nilable parameter in n (nil tests are not uses):
// derefs = `p.f`, `*p`; other = every other occurrence.
func nilUses(n ast.Node, name string) (derefs, other int, impure bool) {
	if n == nil {
		return
	}
	var walk func(n ast.Node)
	walk = func(n ast.Node) {
		ast.Inspect(n, func(m ast.Node) bool {
			switch y := m.(type) {
			case *ast.BinaryExpr:
				if (y.Op == token.EQL || y.Op == token.NEQ) && isNilTestOf(y, name) {
					return false
				}
			case *ast.SelectorExpr:
				if id, ok := stripParens(y.X).(*ast.Ident); ok && id.Name == name {
					derefs++
					return false
				}
			case *ast.StarExpr:
				if id, ok := stripParens(y.X).(*ast.Ident); ok && id.Name == name {
					derefs++
					return false
				}
			case *ast.CallExpr:
				if id, ok := y.Fun.(*ast.Ident); !ok || !(id.Name == "len" || id.Name == "cap" || basicTypeName(id.Name)) {
					impure = true
				}
			case *ast.Ident:
				if y.Name == name {
					other++
				}
			}
			return true
		})
	}
	walk(n)
	return
}

func basicTypeName(s string) bool {
	switch s {
	case "int", "int8", "int16", "int32", "int64", "uint", "uint8", "uint16", "uint32", "uint64", "byte", "uintptr":
		return true
	}
	return false
}

// nilGuard (seq): the statement s in the current nil states.  done: lines is the translation of s AND of
// everything after it (a nil pointer dereference).
func (c *codegen) nilGuard(s ast.Stmt) (lines []string, done bool) {
	if c.cur == nil || len(c.cur.nilVars) == 0 {
		return nil, false
	}
	for _, v := range c.cur.nilOrder {
		ni := c.cur.nilVars[v]
		if ni.state == nilNonNil || c.nilInfoOf(c.lookup(ni.name)) != ni {
			continue // known non-nil, or the name is shadowed here
		}
		what := "nil"
		if ni.state == nilUnknown {
			what = "not decided by an enclosing `if " + ni.name + " == nil`"
		}
		header := func(ns ...ast.Node) {
			for _, n := range ns {
				if n == nil {
					continue
				}
				if d, o, _ := nilUses(n, ni.name); d+o > 0 {
					c.fail(n, "the nilable pointer parameter %s in the header of a compound statement while its nil-ness is %s", ni.name, what)
				}
			}
		}
		nn := func(e ast.Expr) ast.Node {
			if e == nil {
				return nil
			}
			return e
		}
		ns := func(st ast.Stmt) ast.Node {
			if st == nil {
				return nil
			}
			return st
		}
		switch x := s.(type) {
		case *ast.AssignStmt, *ast.IncDecStmt, *ast.ExprStmt, *ast.ReturnStmt, *ast.DeclStmt:
			d, o, impure := nilUses(x, ni.name)
			if o > 0 {
				c.fail(s, "use of the nilable pointer parameter %s (not a dereference) while its nil-ness is %s", ni.name, what)
			}
			if d == 0 {
				continue
			}
			if ni.state == nilUnknown {
				c.fail(s, "dereference of the nilable pointer parameter %s while its nil-ness is %s", ni.name, what)
			}
			if impure {
				c.fail(s, "dereference of the nil pointer %s in a statement with a call (the call might not return)", ni.name)
			}
			c.needMonadic(s)
			return []string{"Res.panic"}, true
		case *ast.IfStmt:
			header(ns(x.Init), nn(x.Cond))
		case *ast.ForStmt:
			header(ns(x.Init), nn(x.Cond), ns(x.Post))
		case *ast.RangeStmt:
			header(nn(x.Key), nn(x.Value), nn(x.X))
		case *ast.SwitchStmt:
			header(ns(x.Init), nn(x.Tag))
			for _, cc := range x.Body.List {
				if cl, ok := cc.(*ast.CaseClause); ok {
					for _, e := range cl.List {
						header(e)
					}
				}
			}
		case *ast.BranchStmt:
			if x.Tok == token.GOTO {
				c.fail(s, "goto while the nil-ness of the nilable pointer parameter %s is %s", ni.name, what)
			}
		case *ast.LabeledStmt:
			switch x.Stmt.(type) {
			case *ast.ForStmt, *ast.RangeStmt:
			default:
				c.fail(s, "label while the nil-ness of the nilable pointer parameter %s is %s", ni.name, what)
			}
		case *ast.BlockStmt, *ast.EmptyStmt:
		default:
			if d, o, _ := nilUses(s, ni.name); d+o > 0 {
				c.fail(s, "the nilable pointer parameter %s in a %T while its nil-ness is %s", ni.name, s, what)
			}
		}
	}
	return nil, false
}

// nilableWrapper (gen2): the one-line definition of `<f>` (f on non-nil pointers) behind `<f>_nilable`.
func (c *codegen) nilableWrapper(k fnKey, f *fnCtx, sig *fnSig, hdrRest string, params []string, rt string, at ast.Node) []string {
	var names []string
	for _, v := range f.nilOrder {
		names = append(names, f.nilVars[v].name)
	}
	doc := fmt.Sprintf("/-- `%s` on NON-NIL %s (code_nil.go): the translation `%s_nilable` with the nil flag(s) false —\n    what every other translated function with a pointer parameter means, and what translated callers use -/",
		fnName(k), strings.Join(names, ", "), leanFn(k))
	var keep, args []string
	isFlag := map[string]bool{}
	for _, v := range f.nilOrder {
		isFlag[f.nilVars[v].flag] = true
	}
	for _, p := range params {
		nm := strings.TrimPrefix(strings.SplitN(p, " : ", 2)[0], "(")
		if isFlag[nm] {
			args = append(args, "false")
			continue
		}
		keep = append(keep, p)
		args = append(args, nm)
	}
	hdr := "def " + leanFn(k) + hdrRest
	if len(keep) > 0 {
		hdr += " " + strings.Join(keep, " ")
	}
	call := "LZ.Gen." + leanFn(k) + "_nilable"
	if sig.grow {
		call += " grow"
	}
	if sig.fuel {
		call += " fuel"
	}
	for _, a := range c.sigArgs(sig, at) {
		call += " " + a
	}
	call += " " + strings.Join(args, " ")
	return []string{"", doc, hdr + " : " + rt + " :=", "  " + call}
}
