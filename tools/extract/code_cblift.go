// code_cblift.go — tenth part of the translation: a CLOSURE handed as the callback of a function whose callback calls are
// LOGGED (fourth part: `suffix.Segments(sa, lcp, a, b, f)`), and what osap.go `(*optSuffixArrayParser).computeEdges`
// needs besides (zero-length windows of an element-blind field, `append` into such a window, an opaque callee without a
// declaration in the repository, `nil` for a read-only slice parameter of an opaque callee, an `if` on a constant).
// The constructs are available to every topic of the fifth part; the hooks in the other files are marked
// "code_cblift.go".  Nothing here is keyed on a function, type or variable name of the repository: the per-topic data
// are the entries of spTopics (code_opq.go) — `logcb` marks a callee whose callback calls are logged.
//
//	closure as logged      Source-level rewriting (liftCallbackLits, called from (*pkgInfo).funcs like elimPtrAliases; idempotent).
//	callback               In the statement list of the BODY of a method F with a pointer receiver r:
//	                           f := func(p1 T1, …, pn Tn) { B }          (no results)
//	                           …
//	                           Q.G(a1, …, f, …)                          (an expression statement of the same list)
//	                       where (C1) these are the only two occurrences of f in F, Q is not a variable of F;
//	                       (C2) every variable of F that B mentions (CAPTURED) is r, or a parameter / a local of basic
//	                       type that is declared ONCE, before the define of f, never assigned again, whose address is not
//	                       taken, and whose type can be read off its declaration (a parameter, or `x := T(e)` with T a
//	                       basic type); names declared inside B are resolved with Go's block scoping;
//	                       (C3) B contains no function literal, defer, go, goto or label.
//	                       The closure is LAMBDA-LIFTED into the method
//	                           func (r *R) F_f(c1 C1, …, p1 T1, …, pn Tn) { B }
//	                       (captured values first: a captured variable that is never assigned is the same as a value
//	                       parameter; the receiver is threaded like the receiver of every method), which is translated
//	                       with the existing machinery, and the call statement becomes
//	                           Q.G(a1, …, r.F_f(c1, …, 0, …, A), …)
//	                       whose inner call is NOT a Go call: it records the lifted method, the captured arguments and —
//	                       for the analyses that summarise effects (mutation, loop state) — exactly the effect of the
//	                       calls of the callback: r is mutated, and the slice argument A of G that the callback's slice
//	                       parameter is a window of (spTopics: `win`) is written.
//	                       Translation of the call statement (loggedCall): the opaque parameter `Q_G : A1 → … → Res (List
//	                       (T1 × … × Tn))` returns the LOG of the callback calls (it is instantiated by the translation of
//	                       G of the fourth part, whose result is that log); then the generated function `F_f_calls` folds
//	                       the lifted method over the log, threading r and A: for every entry the slice argument is the
//	                       CURRENT contents of the window of A it was cut from (offset `cap(A) − cap(seg0)`: re-slicing keeps
//	                       the rest of the array, in Go as in the model), and what the method hands back for it is written
//	                       back into A.  This is the interleaved execution of Go provided that (TRUSTED READING of the
//	                       fourth part, to be read off the callee) the control flow of G and the positions of the windows
//	                       do not depend on the elements of A, G reads nothing the callback writes, the callback's slice
//	                       argument is always a window `A[lo:hi]` of G's argument A, and G retains neither.
//	                       The slice parameter of the lifted method sits next to a receiver (checkSig3 refuses that
//	                       otherwise: aliasing): accepted because (C4) A is a local of F defined by `A := make(…)` that
//	                       occurs in F only as a complete argument of calls of functions of OTHER packages (it is
//	                       never stored, so nothing reachable from r shares its array).
package main

import (
	"go/ast"
	"go/token"
	"strings"
)

// liftInfo: one lifted closure.
type liftInfo struct {
	outer    *ast.FuncDecl
	lifted   *ast.FuncDecl
	key      fnKey
	captured []string      // the captured variables (without the receiver), in order of first use
	call     *ast.CallExpr // Q.G(…, <synthetic>, …)
	cbArg    int           // position of the callback argument
	inner    *ast.CallExpr // the synthetic call r.F_f(c…, 0…, A)
	recv     string
	nCb      int
}

// liftedCalls: the rewritten call statements, by the call expression.
var liftedCalls = map[*ast.CallExpr]*liftInfo{}

// liftedSliceParams: slice parameters of lambda-lifted closures (by *ast.FuncDecl): windows of a fresh local array (C4)
var liftedSliceParams = map[*ast.FuncDecl]map[string]bool{}

var cbBasicTypeName = map[string]bool{"int": true, "int8": true, "int16": true, "int32": true, "int64": true,
	"uint": true, "uint8": true, "uint16": true, "uint32": true, "uint64": true, "byte": true, "bool": true}

// liftCallbackLits rewrites the functions of the package in place (see the header).
func liftCallbackLits(p *pkgInfo, fns map[fnKey]*ast.FuncDecl) {
	for _, f := range p.files {
		var add []ast.Decl
		for _, d := range f.Decls {
			fd, ok := d.(*ast.FuncDecl)
			if !ok || fd.Body == nil {
				continue
			}
			for {
				li := liftOne(p, fd, fns, importNames(f))
				if li == nil {
					break
				}
				add = append(add, li.lifted)
				fns[li.key] = li.lifted
				// code_desugar.go, code_ptralias.go: the normalisation passes leave a function that contains a function literal
				// alone; neither the lifted body nor (now) the function it was taken from has one
				names := map[string]bool{}
				ast.Inspect(f, func(n ast.Node) bool {
					if id, ok := n.(*ast.Ident); ok {
						names[id.Name] = true
					}
					return true
				})
				fresh := 0
				for _, g := range []*ast.FuncDecl{li.lifted, fd} {
					ds := &desugarer{fd: g, names: names, fresh: &fresh}
					ds.block(&g.Body.List)
					ds.loops(g.Body)
					if notes := elimPtrAliases(g); len(notes) > 0 {
						ptrAliasNotes[g] = append(ptrAliasNotes[g], notes...)
					}
				}
			}
		}
		f.Decls = append(f.Decls, add...)
	}
}

type innerDecl struct {
	name     string
	from, to token.Pos
}

// importNames: the names under which the file imports packages.
func importNames(f *ast.File) map[string]bool {
	m := map[string]bool{}
	for _, im := range f.Imports {
		if im.Name != nil {
			m[im.Name.Name] = true
			continue
		}
		path := strings.Trim(im.Path.Value, "\"`")
		if i := strings.LastIndex(path, "/"); i >= 0 {
			path = path[i+1:]
		}
		m[path] = true
	}
	return m
}

func liftOne(p *pkgInfo, fd *ast.FuncDecl, fns map[fnKey]*ast.FuncDecl, imports map[string]bool) *liftInfo {
	if fd.Recv == nil || len(fd.Recv.List) != 1 || len(fd.Recv.List[0].Names) != 1 {
		return nil
	}
	if _, ptr := fd.Recv.List[0].Type.(*ast.StarExpr); !ptr {
		return nil
	}
	recv := fd.Recv.List[0].Names[0].Name
	list := fd.Body.List
	for di, st := range list {
		as, ok := st.(*ast.AssignStmt)
		if !ok || as.Tok != token.DEFINE || len(as.Lhs) != 1 || len(as.Rhs) != 1 {
			continue
		}
		fid, ok := as.Lhs[0].(*ast.Ident)
		lit, ok2 := as.Rhs[0].(*ast.FuncLit)
		if !ok || !ok2 || (lit.Type.Results != nil && len(lit.Type.Results.List) > 0) {
			continue
		}
		// (C1) the only other occurrence of f: a complete argument of a later expression statement Q.G(…)
		var uses []*ast.Ident
		ast.Inspect(fd.Body, func(n ast.Node) bool {
			if id, isId := n.(*ast.Ident); isId && id.Name == fid.Name && id != fid {
				uses = append(uses, id)
			}
			return true
		})
		if len(uses) != 1 {
			continue
		}
		var call *ast.CallExpr
		ci, cbArg := -1, -1
		for j := di + 1; j < len(list); j++ {
			es, isEs := list[j].(*ast.ExprStmt)
			if !isEs {
				continue
			}
			cx, isCall := es.X.(*ast.CallExpr)
			if !isCall {
				continue
			}
			for ai, a := range cx.Args {
				if a == ast.Expr(uses[0]) {
					call, ci, cbArg = cx, j, ai
				}
			}
		}
		if call == nil {
			continue
		}
		sel, isSel := call.Fun.(*ast.SelectorExpr)
		if !isSel {
			continue
		}
		q, isId := sel.X.(*ast.Ident)
		if !isId {
			continue
		}
		// the variables of F: receiver, parameters, results, every name declared in the body outside the literal
		outerDecl := map[string]int{}
		paramType := map[string]ast.Expr{}
		addFL := func(fl *ast.FieldList, isParam bool) {
			if fl == nil {
				return
			}
			for _, f := range fl.List {
				for _, n := range f.Names {
					outerDecl[n.Name]++
					if isParam {
						paramType[n.Name] = f.Type
					}
				}
			}
		}
		addFL(fd.Recv, false)
		addFL(fd.Type.Params, true)
		addFL(fd.Type.Results, false)
		assigned := map[string]bool{}
		defRhs := map[string]ast.Expr{}
		defPos := map[string]token.Pos{}
		bad := false
		inLit := func(n ast.Node) bool { return n.Pos() >= lit.Pos() && n.End() <= lit.End() }
		ast.Inspect(fd.Body, func(n ast.Node) bool {
			switch x := n.(type) {
			case *ast.AssignStmt:
				for i, l := range x.Lhs {
					id, isId := stripParens(l).(*ast.Ident)
					if !isId {
						continue
					}
					if x.Tok == token.DEFINE {
						if !inLit(x) {
							outerDecl[id.Name]++
							if len(x.Lhs) == len(x.Rhs) {
								defRhs[id.Name] = x.Rhs[i]
							}
							defPos[id.Name] = x.Pos()
						}
					} else {
						assigned[id.Name] = true
					}
				}
			case *ast.IncDecStmt:
				if id, isId := stripParens(x.X).(*ast.Ident); isId {
					assigned[id.Name] = true
				}
			case *ast.RangeStmt:
				for _, kv := range []ast.Expr{x.Key, x.Value} {
					if id, isId := kv.(*ast.Ident); isId && kv != nil {
						if x.Tok == token.DEFINE {
							if !inLit(x) {
								outerDecl[id.Name] += 2 // not capturable
							}
						} else {
							assigned[id.Name] = true
						}
					}
				}
			case *ast.GenDecl:
				for _, sp := range x.Specs {
					if vs, isVs := sp.(*ast.ValueSpec); isVs && !inLit(x) {
						for _, nm := range vs.Names {
							outerDecl[nm.Name] += 2
						}
					}
				}
			case *ast.UnaryExpr:
				if x.Op == token.AND {
					if id, isId := stripParens(x.X).(*ast.Ident); isId {
						assigned[id.Name] = true
					}
				}
			case *ast.FuncLit:
				if x != lit {
					bad = true
				}
			case *ast.DeferStmt, *ast.GoStmt:
				if inLit(n) {
					bad = true
				}
			case *ast.LabeledStmt:
				if inLit(n) {
					bad = true
				}
			case *ast.BranchStmt:
				if inLit(n) && (x.Tok == token.GOTO || x.Label != nil) {
					bad = true
				}
			}
			return true
		})
		if bad || outerDecl[q.Name] > 0 || !imports[q.Name] {
			continue // (C1) Q must be an imported package
		}
		// the names declared inside the literal, with the stretch of the source in which they are visible
		var inner []innerDecl
		if lit.Type.Params != nil {
			for _, f := range lit.Type.Params.List {
				for _, n := range f.Names {
					inner = append(inner, innerDecl{n.Name, lit.Body.Pos(), lit.Body.End()})
				}
			}
		}
		var scan func(n ast.Node, blockEnd token.Pos)
		declIn := func(s ast.Stmt, end token.Pos) {
			switch x := s.(type) {
			case *ast.AssignStmt:
				if x.Tok == token.DEFINE {
					for _, l := range x.Lhs {
						if id, isId := l.(*ast.Ident); isId && id.Name != "_" {
							inner = append(inner, innerDecl{id.Name, x.End(), end})
						}
					}
				}
			case *ast.DeclStmt:
				if gd, isGd := x.Decl.(*ast.GenDecl); isGd {
					for _, sp := range gd.Specs {
						if vs, isVs := sp.(*ast.ValueSpec); isVs {
							for _, nm := range vs.Names {
								inner = append(inner, innerDecl{nm.Name, x.End(), end})
							}
						}
					}
				}
			}
		}
		scan = func(n ast.Node, blockEnd token.Pos) {
			switch x := n.(type) {
			case *ast.BlockStmt:
				for _, s := range x.List {
					declIn(s, x.End())
					scan(s, x.End())
				}
			case *ast.IfStmt:
				if x.Init != nil {
					declIn(x.Init, x.End())
				}
				scan(x.Body, x.End())
				if x.Else != nil {
					scan(x.Else, x.End())
				}
			case *ast.ForStmt:
				if x.Init != nil {
					declIn(x.Init, x.End())
				}
				scan(x.Body, x.End())
			case *ast.RangeStmt:
				if x.Tok == token.DEFINE {
					for _, kv := range []ast.Expr{x.Key, x.Value} {
						if id, isId := kv.(*ast.Ident); isId && kv != nil && id.Name != "_" {
							inner = append(inner, innerDecl{id.Name, x.Body.Pos(), x.End()})
						}
					}
				}
				scan(x.Body, x.End())
			case *ast.SwitchStmt:
				if x.Init != nil {
					declIn(x.Init, x.End())
				}
				scan(x.Body, x.End())
			case *ast.CaseClause:
				for _, s := range x.Body {
					declIn(s, x.End())
					scan(s, x.End())
				}
			case *ast.TypeSwitchStmt, *ast.SelectStmt:
				bad = true
			}
		}
		scan(lit.Body, lit.Body.End())
		if bad {
			continue
		}
		boundInner := func(id *ast.Ident) bool {
			for _, d := range inner {
				if d.name == id.Name && d.from <= id.Pos() && id.Pos() < d.to {
					return true
				}
			}
			return false
		}
		// (C2) the captured variables
		skip := map[*ast.Ident]bool{}
		ast.Inspect(lit.Body, func(n ast.Node) bool {
			switch x := n.(type) {
			case *ast.SelectorExpr:
				skip[x.Sel] = true
			case *ast.KeyValueExpr:
				if id, isId := x.Key.(*ast.Ident); isId {
					skip[id] = true // a field name of a composite literal (a map key that is a variable is not supported anyway)
				}
			case *ast.AssignStmt:
				if x.Tok == token.DEFINE {
					for _, l := range x.Lhs {
						if id, isId := l.(*ast.Ident); isId {
							skip[id] = true
						}
					}
				}
			}
			return true
		})
		var captured []string
		seen := map[string]bool{}
		usesRecv := false
		ok = true
		ast.Inspect(lit.Body, func(n ast.Node) bool {
			id, isId := n.(*ast.Ident)
			if !isId || skip[id] || id.Name == "_" || boundInner(id) || outerDecl[id.Name] == 0 {
				return true
			}
			if id.Name == recv {
				usesRecv = true
				return true
			}
			if outerDecl[id.Name] != 1 || assigned[id.Name] {
				ok = false
				return true
			}
			if paramType[id.Name] == nil && (defPos[id.Name] == token.NoPos || defPos[id.Name] >= as.Pos()) {
				ok = false
				return true
			}
			if !seen[id.Name] {
				seen[id.Name] = true
				captured = append(captured, id.Name)
			}
			return true
		})
		if !ok || assigned[recv] {
			continue
		}
		_ = usesRecv
		var capFields []*ast.Field
		for _, cn := range captured {
			var te ast.Expr
			if t := paramType[cn]; t != nil {
				if id, isId := t.(*ast.Ident); isId && cbBasicTypeName[id.Name] {
					te = ast.NewIdent(id.Name)
				}
			} else if cx, isCall := defRhs[cn].(*ast.CallExpr); isCall && len(cx.Args) == 1 {
				if id, isId := cx.Fun.(*ast.Ident); isId && cbBasicTypeName[id.Name] && outerDecl[id.Name] == 0 {
					te = ast.NewIdent(id.Name)
				}
			}
			if te == nil {
				ok = false
				break
			}
			capFields = append(capFields, &ast.Field{Names: []*ast.Ident{ast.NewIdent(cn)}, Type: te})
		}
		if !ok {
			continue
		}
		name := fd.Name.Name + "_" + fid.Name
		key := fnKey{recvName(fd), name}
		if fns[key] != nil {
			continue
		}
		// the lifted method
		params := &ast.FieldList{Opening: lit.Type.Params.Opening, Closing: lit.Type.Params.Closing}
		params.List = append(params.List, capFields...)
		nCb := 0
		for _, f := range lit.Type.Params.List {
			params.List = append(params.List, f)
			n := len(f.Names)
			if n == 0 {
				ok = false
			}
			nCb += n
		}
		if !ok {
			continue
		}
		lifted := &ast.FuncDecl{
			Recv: &ast.FieldList{List: []*ast.Field{{Names: []*ast.Ident{ast.NewIdent(recv)}, Type: fd.Recv.List[0].Type}}},
			Name: &ast.Ident{NamePos: lit.Pos(), Name: name},
			Type: &ast.FuncType{Func: lit.Pos(), Params: params},
			Body: lit.Body,
		}
		// the synthetic inner call: r.F_f(c1, …, 0 / A placeholders) — filled in by the translator hook (loggedCall),
		// which knows the types; here: captured arguments only, the placeholders are appended when the topic is known
		inner2 := &ast.CallExpr{Fun: &ast.SelectorExpr{X: &ast.Ident{NamePos: uses[0].Pos(), Name: recv}, Sel: &ast.Ident{NamePos: uses[0].Pos(), Name: name}},
			Lparen: uses[0].Pos(), Rparen: uses[0].End()}
		for _, cn := range captured {
			inner2.Args = append(inner2.Args, &ast.Ident{NamePos: uses[0].Pos(), Name: cn})
		}
		// placeholders for the callback parameters: the zero literal, or — for a slice parameter — the first slice
		// argument of the call (the window source; checked against the table entry by loggedCall)
		var firstSliceArg ast.Expr
		for ai, a := range call.Args {
			if ai != cbArg {
				if id, isId := a.(*ast.Ident); isId && defRhs[id.Name] != nil {
					if mk, isCall := defRhs[id.Name].(*ast.CallExpr); isCall && isBuiltinName(mk, "make") {
						firstSliceArg = a
						break
					}
				}
			}
		}
		for _, f := range lit.Type.Params.List {
			for range f.Names {
				if _, isArr := f.Type.(*ast.ArrayType); isArr {
					if firstSliceArg == nil {
						ok = false
						break
					}
					inner2.Args = append(inner2.Args, &ast.Ident{NamePos: uses[0].Pos(), Name: firstSliceArg.(*ast.Ident).Name})
				} else if id, isId := f.Type.(*ast.Ident); isId && id.Name == "bool" {
					inner2.Args = append(inner2.Args, &ast.Ident{NamePos: uses[0].Pos(), Name: "false"})
				} else {
					inner2.Args = append(inner2.Args, &ast.BasicLit{ValuePos: uses[0].Pos(), Kind: token.INT, Value: "0"})
				}
			}
		}
		if !ok {
			continue
		}
		call.Args[cbArg] = inner2
		li := &liftInfo{outer: fd, lifted: lifted, key: key, captured: captured, call: call, cbArg: cbArg, inner: inner2, recv: recv, nCb: nCb}
		liftedCalls[call] = li
		// (C4) the slice parameters of the lifted method: windows of a fresh local that is never stored
		if firstSliceArg != nil {
			an := firstSliceArg.(*ast.Ident).Name
			fresh := true
			ast.Inspect(fd.Body, func(n ast.Node) bool {
				switch x := n.(type) {
				case *ast.CallExpr:
					sel, isSel := x.Fun.(*ast.SelectorExpr)
					crossPkg := false
					if isSel {
						if qid, isId := sel.X.(*ast.Ident); isId && outerDecl[qid.Name] == 0 && qid.Name != recv && imports[qid.Name] {
							crossPkg = true
						}
					}
					if isBuiltinName(x, "len") || isBuiltinName(x, "cap") {
						crossPkg = true
					}
					for _, a := range x.Args {
						if id, isId := a.(*ast.Ident); isId && id.Name == an && !crossPkg && x != inner2 {
							fresh = false
						}
					}
					if crossPkg {
						for _, a := range x.Args {
							if id, isId := a.(*ast.Ident); isId && id.Name == an {
								skip[id] = true
							}
						}
					}
				}
				return true
			})
			ast.Inspect(fd.Body, func(n ast.Node) bool {
				if id, isId := n.(*ast.Ident); isId && id.Name == an && !skip[id] && id.Pos() != defPos[an] && !(n.Pos() >= inner2.Pos() && n.End() <= inner2.End()) {
					// any other occurrence (assignment, re-slice, element access is fine but keep it simple: only the define)
					if as2, found := defStmtOf(fd, an); !found || as2.Lhs[0] != ast.Expr(id) {
						fresh = false
					}
				}
				return true
			})
			if fresh && outerDecl[an] == 1 && !assigned[an] {
				m := map[string]bool{}
				for _, f := range lit.Type.Params.List {
					if _, isArr := f.Type.(*ast.ArrayType); isArr {
						for _, n := range f.Names {
							m[n.Name] = true
						}
					}
				}
				liftedSliceParams[lifted] = m
			}
		}
		// remove the define of f
		fd.Body.List = append(append([]ast.Stmt{}, list[:di]...), list[di+1:]...)
		_ = ci
		return li
	}
	return nil
}

func defStmtOf(fd *ast.FuncDecl, name string) (*ast.AssignStmt, bool) {
	var res *ast.AssignStmt
	ast.Inspect(fd.Body, func(n ast.Node) bool {
		if as, ok := n.(*ast.AssignStmt); ok && as.Tok == token.DEFINE && len(as.Lhs) == 1 {
			if id, isId := as.Lhs[0].(*ast.Ident); isId && id.Name == name {
				res = as
			}
		}
		return true
	})
	return res, res != nil
}

func isBuiltinName(x *ast.CallExpr, name string) bool {
	id, ok := x.Fun.(*ast.Ident)
	return ok && id.Name == name
}

// ---------------------------------------------------------------- the call statement

// loggedCall translates `Q.G(a…, r.F_f(c…, …), …)` (see the header).
func (c *codegen) loggedCall(li *liftInfo, x *ast.CallExpr) []string {
	if !c.phase5 {
		c.fail(x, "closure handed to %s (only in a topic of the fifth part)", c.src(x.Fun))
	}
	sel := x.Fun.(*ast.SelectorExpr)
	k := spKey{sel.X.(*ast.Ident).Name, "", sel.Sel.Name}
	info := c.spOf[k]
	if info == nil || !info.logcb {
		c.fail(x, "closure handed to %s, which is not listed as a callee whose callback calls are logged (spTopics: logcb)", k.goName())
	}
	sig := c.spType(k, x)
	if sig.cb == nil || sig.cbPos != li.cbArg {
		c.fail(x, "the callback of %s is not its parameter %d", k.goName(), li.cbArg+1)
	}
	if len(sig.cb) != li.nCb {
		c.fail(x, "closure with %d parameters handed to %s, whose callback has %d", li.nCb, k.goName(), len(sig.cb))
	}
	if len(x.Args) != len(sig.ps)+1 || x.Ellipsis.IsValid() {
		c.fail(x, "call of %s with %d arguments", k.goName(), len(x.Args))
	}
	// the log
	c.needSP(k, x)
	parts := []string{k.param()}
	pi := 0
	var winArg ast.Expr
	for ai, a := range x.Args {
		if ai == li.cbArg {
			continue
		}
		s, t := c.expr(a, sig.ps[pi], false)
		if !t.eq(sig.ps[pi]) {
			c.fail(a, "argument %d of %s has type %s, want %s", ai+1, k.goName(), t, sig.ps[pi])
		}
		parts = append(parts, paren(s))
		if ai == info.win {
			winArg = a
		}
		pi++
	}
	log := c.bindRes("r", strings.Join(parts, " "), x)
	// the lifted method
	c.ensure(li.key, x)
	lsig := c.sigs[li.key]
	if lsig == nil || !lsig.monadic {
		c.fail(x, "internal error: the lifted closure %s is not monadic", fnName(li.key))
	}
	nCap := len(li.captured)
	if len(lsig.params) != nCap+li.nCb || len(lsig.results) != 0 {
		c.fail(x, "internal error: signature of the lifted closure %s", fnName(li.key))
	}
	sliceAt := -1
	for i := 0; i < li.nCb; i++ {
		pt := lsig.params[nCap+i].typ
		if !pt.eq(sig.cb[i]) {
			c.fail(x, "parameter %d of the closure has type %s, the callback of %s has %s", i+1, pt, k.goName(), sig.cb[i])
		}
		if pt.kind == kGSlice || pt.kind == kBytes || pt.kind == kSlice {
			if sliceAt >= 0 || pt.kind != kGSlice {
				c.fail(x, "closure handed to %s: only one callback parameter of slice type (a GSlice) is supported", k.goName())
			}
			sliceAt = i
		} else if lsig.params[nCap+i].out {
			c.fail(x, "internal error: basic callback parameter written")
		}
	}
	for i := 0; i < nCap; i++ {
		if lsig.params[i].out {
			c.fail(x, "internal error: captured value written")
		}
	}
	if sliceAt < 0 || winArg == nil {
		c.fail(x, "closure handed to %s: a callback parameter of slice type that is a window of an argument of the callee (spTopics: win) is required", k.goName())
	}
	if !liftedSliceParams[li.lifted][lsig.params[nCap+sliceAt].name] {
		c.fail(x, "closure handed to %s: the slice %s its parameter %s is a window of must be a local defined by make that occurs only as an argument of calls into other packages", k.goName(), c.src(winArg), lsig.params[nCap+sliceAt].name)
	}
	wid, isId := winArg.(*ast.Ident)
	if !isId || c.lookup(wid.Name) == nil || li.inner.Args[nCap+sliceAt].(*ast.Ident).Name != wid.Name {
		c.fail(x, "closure handed to %s: the window source must be the local variable passed as argument %d", k.goName(), info.win+1)
	}
	wv, wp := c.path(winArg)
	if !c.pathType(wv, wp, x).eq(sig.cb[sliceAt]) {
		c.fail(x, "closure handed to %s: window source of type %s", k.goName(), c.pathType(wv, wp, x))
	}
	c.checkRangeTarget(wv, wp, x)
	c.checkAliasWrite(wv, wp, x, "call whose callback writes windows of")
	rid := &ast.Ident{NamePos: x.Pos(), Name: li.recv}
	rv, rp := c.path(rid)
	recvT := rv.typ
	if lsig.recvMut {
		c.checkRangeTarget(rv, rp, x)
		// code_parse.go: a method whose element-write footprint is known is judged by it
		if fp, known := c.elemFootprint(li.key); known {
			for _, q := range fp {
				c.checkAliasWrite(rv, append(append([]string{}, rp...), q...), x, "call whose callback writes elements of")
			}
		} else {
			c.checkAliasWrite(rv, rp, x, "call whose callback mutates")
		}
		c.checkRecvMutation(rid, x)
	}
	pre := []string{"LZ.Gen." + leanFn(li.key)}
	var binders, passOn []string
	if lsig.grow {
		c.needGrow(x)
		pre = append(pre, "grow")
		binders, passOn = append(binders, "(grow : Nat → Nat → Nat)"), append(passOn, "grow")
	}
	if lsig.fuel {
		c.needFuel(x)
		pre = append(pre, "fuel")
		binders, passOn = append(binders, "(fuel : Nat)"), append(passOn, "fuel")
	}
	for _, o := range lsig.opaques {
		c.needOpaque(o, x)
		pre = append(pre, o.name)
		binders, passOn = append(binders, strings.TrimSpace(c.opaqueDecls(&fnSig{opaques: []fnKey{o}}, x))), append(passOn, o.name)
	}
	for _, o := range lsig.sps {
		c.needSP(o, x)
		pre = append(pre, o.param())
		binders, passOn = append(binders, strings.TrimSpace(c.spDecl(o, x))), append(passOn, o.param())
	}
	if len(lsig.imeths) > 0 {
		c.fail(x, "closure handed to %s calls a method of an interface value", k.goName())
	}
	var capArgs []string
	for i, cn := range li.captured {
		s, t := c.expr(&ast.Ident{NamePos: x.Pos(), Name: cn}, lsig.params[i].typ, false)
		if !t.eq(lsig.params[i].typ) {
			c.fail(x, "captured variable %s has type %s, the lifted closure expects %s", cn, t, lsig.params[i].typ)
		}
		capArgs = append(capArgs, paren(s))
		binders = append(binders, "("+cn+" : "+t.lean()+")")
		passOn = append(passOn, cn)
	}
	// the fold function (emitted once, next to the lifted method)
	foldKey := fnKey{li.key.recv, li.key.name + "_calls"}
	foldName := leanFn(foldKey)
	st := sig.cb[sliceAt].lean()
	if !c.done[foldKey] {
		var pat, app []string
		for i := 0; i < li.nCb; i++ {
			if i == sliceAt {
				pat = append(pat, "w0")
				app = append(app, "{ arr := a.arr.drop off, len := w0.len }")
			} else {
				pat = append(pat, "x"+lit(i+1))
				app = append(app, "x"+lit(i+1))
			}
		}
		call := strings.Join(pre, " ") + " " + li.recv
		for _, cn := range li.captured {
			call += " " + cn
		}
		call += " " + strings.Join(app, " ")
		var lines []string
		lines = append(lines,
			"/-- the calls of the closure `"+strings.TrimPrefix(li.key.name, li.outer.Name.Name+"_")+"` of "+fnName(fnKey{li.key.recv, li.outer.Name.Name})+" ("+c.pos(li.lifted)+") that `"+k.goName()+"` makes, one after the",
			"    other over its LOG: the slice argument of a call is the CURRENT contents of the window of `a` it was cut from (offset",
			"    `cap(a) - cap(w0)`), and the slice the closure hands back is written back into `a` -/",
			"def "+foldName+" "+strings.Join(binders, " ")+" : "+sig.cbType.lean()+" → "+recvT.lean()+" → "+st+" → Res ("+recvT.lean()+" × "+st+")",
			"  | [], "+li.recv+", a => Res.ok ("+li.recv+", a)",
			"  | ("+strings.Join(pat, ", ")+") :: rest, "+li.recv+", a =>",
			"    let off : Nat := a.arr.length - w0.arr.length",
			"    Res.bind ("+call+") fun r =>",
			"    "+foldName+" "+strings.Join(passOn, " ")+" rest r.1 { arr := a.arr.take off ++ r.2.arr, len := a.len }",
		)
		if !lsig.recvMut {
			c.fail(x, "closure handed to %s does not change its receiver (not supported)", k.goName())
		}
		c.done[foldKey] = true
		c.outs = append(c.outs, fnOut{key: foldKey, lines: lines})
	}
	cur, _ := c.expr(winArg, gtype{}, false)
	r0, _ := c.expr(rid, gtype{}, false)
	app := foldName + " " + strings.Join(pre[1:], " ")
	app = strings.TrimSpace(app)
	app = "LZ.Gen." + app + " " + strings.Join(capArgs, " ")
	if len(capArgs) == 0 {
		app = strings.TrimSpace(app)
	}
	r := c.bindRes("r", app+" "+log+" "+paren(r0)+" "+paren(cur), x)
	c.cur.pre = append(c.cur.pre, "let "+rv.lean+" : "+rv.typ.lean()+" := "+update(rv.lean, rp, proj(r, 0, 2)))
	c.cur.mutHoist = append(c.cur.mutHoist, hoist{li.recv, x})
	c.noteOutParam(li.recv, true, x)
	c.cur.pre = append(c.cur.pre, "let "+wv.lean+" : "+wv.typ.lean()+" := "+update(wv.lean, wp, proj(r, 1, 2)))
	c.cur.mutHoist = append(c.cur.mutHoist, hoist{wid.Name, x})
	c.noteOutParam(wid.Name, len(wp) == 0, x)
	return nil
}

// ---------------------------------------------------------------- windows
//
//	zero-length windows   `X[i] = Y[k:k:k+C]` (a 3-index slice expression; refused everywhere else) is accepted in exactly this shape
//	of an element-blind   (W2):   for i := range X { k := i * C; X[i] = Y[k : k : k+C] }      (C an integer literal ≥ 1)
//	field                 a statement of the top-level statement list of a function F0, X = r.fx and Y = r.fy field paths of
//	                      the receiver r.  Translation: `GSlice.set X i { arr := (Y.arr.drop k).take C, len := 0 }` after the
//	                      bounds check `0 ≤ k ≤ k+C ≤ cap(Y)` of Go — the VALUE of the window.  Two references to the array
//	                      of Y exist afterwards; the value model is exact because
//	                      (W1) Y is ELEMENT-BLIND: every occurrence of a selector `.fy` in the package is `cap(P.fy)`, one
//	                           side of the statement `P.fy = P.fy[:e]`, the left side of `P.fy = make(…)`, or the operand of
//	                           the window expression — no element is read or written through Y and nothing of non-zero
//	                           length is derived from it;
//	                      (W2) the windows of one execution of the loop are pairwise disjoint (`[i·C, i·C + C)`), and the loop
//	                           is the only place in the package that assigns an element of a field named fx except
//	                           `P.fx[e] = append(P.fx[e], v)` (below);
//	                      (W3, TRUSTED) no copy of an element of X made before the loop is used after it.
//	append into a window  `X[e] = append(X[e], v)` (also written through `p := &X[e]`, eliminated by code_ptralias.go) is
//	(windowedElems)       accepted when every element of X is such a window or the result of such an append: the statement is
//	                      in F0 behind the loop, or in a closure of F0 lambda-lifted (above) whose call statement is behind the
//	                      loop; F0 assigns fx / fy as a whole only BEFORE the loop; no other function of the package assigns
//	                      an element of a field named fx, and assigns the field as a whole only by `P.fx = P.fx[:e]` (the
//	                      elements it exposes again are not appended to before the next execution of the loop, which
//	                      re-assigns ALL of them: `range X`).  Then an append writes cell `len` of its own window (or
//	                      re-allocates when the window is full: `cap = C`), which no other live slice value contains.

type windowLoop struct {
	fd     *ast.FuncDecl
	loop   *ast.RangeStmt
	assign *ast.AssignStmt
	fx, fy string
	c      string // the literal C
}

func selName(e ast.Expr) string {
	if se, ok := stripParens(e).(*ast.SelectorExpr); ok {
		return se.Sel.Name
	}
	return ""
}

// windowLoopOf: the (W2) loops of the package for the field name fx.
func (c *codegen) windowLoops(fx string) []*windowLoop {
	var out []*windowLoop
	for _, f := range c.p.files {
		for _, d := range f.Decls {
			fd, ok := d.(*ast.FuncDecl)
			if !ok || fd.Body == nil || fd.Recv == nil || len(fd.Recv.List) != 1 || len(fd.Recv.List[0].Names) != 1 {
				continue
			}
			recv := fd.Recv.List[0].Names[0].Name
			for _, st := range fd.Body.List {
				rs, ok := st.(*ast.RangeStmt)
				if !ok || rs.Tok != token.DEFINE || rs.Value != nil || rs.Key == nil || len(rs.Body.List) != 2 {
					continue
				}
				i, ok := rs.Key.(*ast.Ident)
				xs, ok2 := stripParens(rs.X).(*ast.SelectorExpr)
				if !ok || !ok2 || xs.Sel.Name != fx {
					continue
				}
				if r, isId := xs.X.(*ast.Ident); !isId || r.Name != recv {
					continue
				}
				d1, ok := rs.Body.List[0].(*ast.AssignStmt)
				a2, ok2 := rs.Body.List[1].(*ast.AssignStmt)
				if !ok || !ok2 || d1.Tok != token.DEFINE || len(d1.Lhs) != 1 || len(d1.Rhs) != 1 || a2.Tok != token.ASSIGN || len(a2.Lhs) != 1 || len(a2.Rhs) != 1 {
					continue
				}
				k, ok := d1.Lhs[0].(*ast.Ident)
				mul, ok2 := d1.Rhs[0].(*ast.BinaryExpr)
				if !ok || !ok2 || mul.Op != token.MUL || k.Name == i.Name {
					continue
				}
				mi, ok := mul.X.(*ast.Ident)
				mc, ok2 := mul.Y.(*ast.BasicLit)
				if !ok || !ok2 || mi.Name != i.Name || mc.Kind != token.INT || mc.Value == "0" || strings.HasPrefix(mc.Value, "-") {
					continue
				}
				lx, ok := a2.Lhs[0].(*ast.IndexExpr)
				se, ok2 := a2.Rhs[0].(*ast.SliceExpr)
				if !ok || !ok2 || !se.Slice3 || se.Low == nil || se.High == nil || se.Max == nil {
					continue
				}
				if li, isId := lx.Index.(*ast.Ident); !isId || li.Name != i.Name || c.src(lx.X) != c.src(rs.X) {
					continue
				}
				lo, ok := se.Low.(*ast.Ident)
				hi, ok2 := se.High.(*ast.Ident)
				mx, ok3 := se.Max.(*ast.BinaryExpr)
				if !ok || !ok2 || !ok3 || lo.Name != k.Name || hi.Name != k.Name || mx.Op != token.ADD {
					continue
				}
				mk, ok := mx.X.(*ast.Ident)
				mc2, ok2 := mx.Y.(*ast.BasicLit)
				if !ok || !ok2 || mk.Name != k.Name || mc2.Kind != token.INT || mc2.Value != mc.Value {
					continue
				}
				ys, ok := stripParens(se.X).(*ast.SelectorExpr)
				if !ok {
					continue
				}
				if r, isId := ys.X.(*ast.Ident); !isId || r.Name != recv || ys.Sel.Name == fx {
					continue
				}
				out = append(out, &windowLoop{fd: fd, loop: rs, assign: a2, fx: fx, fy: ys.Sel.Name, c: mc.Value})
			}
		}
	}
	return out
}

// windowsOK checks (W1), (W2) and the conditions of windowedElems for the field name fx; the loop is returned.
func (c *codegen) windowsOK(fx string, at ast.Node) *windowLoop {
	if c.winOK == nil {
		c.winOK = map[string]*windowLoop{}
	}
	if wl, done := c.winOK[fx]; done {
		return wl
	}
	c.winOK[fx] = nil
	loops := c.windowLoops(fx)
	if len(loops) != 1 {
		c.winFail(fx, "the package has "+lit(len(loops))+" loops of the shape `for i := range X { k := i*C; X[i] = Y[k:k:k+C] }` for the field (exactly one is required)")
		return nil
	}
	wl := loops[0]
	// the functions lifted from F0 whose call statement is behind the loop
	liftedOK := map[*ast.FuncDecl]bool{}
	for _, li := range liftedCalls {
		if li.outer == wl.fd && li.call.Pos() > wl.loop.End() {
			liftedOK[li.lifted] = true
		}
	}
	ok := true
	for _, f := range c.p.files {
		for _, d := range f.Decls {
			fd, isFd := d.(*ast.FuncDecl)
			if !isFd || fd.Body == nil {
				continue
			}
			// statements `P.f = P.f[:e]`: both selectors are accounted for
			fine := map[*ast.SelectorExpr]bool{}
			ast.Inspect(fd.Body, func(n ast.Node) bool {
				switch x := n.(type) {
				case *ast.AssignStmt:
					if x.Tok != token.ASSIGN || len(x.Lhs) != 1 || len(x.Rhs) != 1 {
						for _, l := range x.Lhs {
							if nm := selName(l); nm == fx || nm == wl.fy {
								ok = c.winFail(fx, "an assignment to the field as a whole other than `P.f = P.f[:e]` / make, or a multi-assignment")
							}
						}
						return true
					}
					l := stripParens(x.Lhs[0])
					if ls, isSel := l.(*ast.SelectorExpr); isSel && (ls.Sel.Name == fx || ls.Sel.Name == wl.fy) {
						// a whole-field assignment
						whole := false
						if se, isSl := x.Rhs[0].(*ast.SliceExpr); isSl && !se.Slice3 && se.Low == nil && c.src(se.X) == c.src(l) {
							whole = true
							fine[ls] = true
							fine[stripParens(se.X).(*ast.SelectorExpr)] = true
						} else if mk, isCall := x.Rhs[0].(*ast.CallExpr); isCall && isBuiltinName(mk, "make") && fd == wl.fd {
							whole = true
							fine[ls] = true
						}
						if !whole || (fd == wl.fd && x.Pos() > wl.loop.Pos()) {
							ok = c.winFail(fx, "the field is assigned as a whole behind the window loop, or by something other than `P.f = P.f[:e]` / `make`")
						}
					}
					if lx, isIx := l.(*ast.IndexExpr); isIx && selName(lx.X) == wl.fy {
						ok = c.winFail(fx, "an element of the element-blind field is assigned")
					}
					if lx, isIx := l.(*ast.IndexExpr); isIx && selName(lx.X) == fx {
						// an element assignment of X: the window, or an append into the element behind the loop
						if x == wl.assign {
							return true
						}
						call, isCall := x.Rhs[0].(*ast.CallExpr)
						if !isCall || !isBuiltinName(call, "append") || len(call.Args) != 2 || c.src(call.Args[0]) != c.src(l) {
							ok = c.winFail(fx, "an element of the windowed field is assigned by something other than the window or `X[e] = append(X[e], v)`")
						} else if !(fd == wl.fd && x.Pos() > wl.loop.End()) && !liftedOK[fd] {
							ok = c.winFail(fx, "an append into an element outside the function of the window loop (behind the loop) and its lifted closures")
						}
					}
				case *ast.IncDecStmt:
					if nm := selName(x.X); nm == fx || nm == wl.fy {
						ok = c.winFail(fx, "++ / -- on the field")
					}
				case *ast.UnaryExpr:
					if x.Op == token.AND {
						if nm := selName(x.X); nm == fx || nm == wl.fy {
							ok = c.winFail(fx, "the address of the field is taken")
						}
						if ix, isIx := stripParens(x.X).(*ast.IndexExpr); isIx && (selName(ix.X) == fx || selName(ix.X) == wl.fy) {
							ok = c.winFail(fx, "a pointer to an element that was not eliminated (code_desugar.go: element pointers; a closure that could not be lifted keeps it)") // a pointer to an element that code_ptralias.go did not eliminate
						}
					}
				}
				return true
			})
			// (W1) every other occurrence of `.fy`: cap(P.fy) or the operand of the window expression
			ast.Inspect(fd.Body, func(n ast.Node) bool {
				switch x := n.(type) {
				case *ast.CallExpr:
					if isBuiltinName(x, "cap") && len(x.Args) == 1 {
						if se, isSel := stripParens(x.Args[0]).(*ast.SelectorExpr); isSel && se.Sel.Name == wl.fy {
							fine[se] = true
						}
					}
				case *ast.SliceExpr:
					if x == wl.assign.Rhs[0] {
						fine[stripParens(x.X).(*ast.SelectorExpr)] = true
					}
				}
				return true
			})
			ast.Inspect(fd.Body, func(n ast.Node) bool {
				if se, isSel := n.(*ast.SelectorExpr); isSel && se.Sel.Name == wl.fy && !fine[se] {
					ok = c.winFail(fx, "the element-blind field is used other than as cap(P.f), `P.f = P.f[:e]`, `P.f = make(…)` or the operand of the window")
				}
				return true
			})
		}
	}
	if !ok {
		return nil
	}
	c.winOK[fx] = wl
	return wl
}

// winFail records why the window conditions fail for the field (the first reason is reported).
func (c *codegen) winFail(fx, why string) bool {
	if c.winWhy == nil {
		c.winWhy = map[string]string{}
	}
	if c.winWhy[fx] == "" {
		c.winWhy[fx] = why
	}
	return false
}

// windowedElems: the elements of the slice of slices X (a field path) are pairwise disjoint windows (see above).
func (c *codegen) windowedElems(x ast.Expr, at ast.Node) bool {
	fx := selName(x)
	if fx == "" {
		return false
	}
	return c.windowsOK(fx, at) != nil
}

// window3: `X[i] = Y[k:k:k+C]` in the loop (W2): the value of the window.
func (c *codegen) window3(ix *ast.IndexExpr, rhs ast.Expr, t gtype, at ast.Node) (string, bool) {
	se, ok := rhs.(*ast.SliceExpr)
	if !ok || !se.Slice3 || !c.phase5 {
		return "", false
	}
	fx := selName(ix.X)
	wl := c.windowsOK(fx, at)
	if fx == "" || wl == nil || wl.assign.Rhs[0] != rhs || c.cur == nil || c.cur.fd != wl.fd {
		why := ""
		if c.winWhy[fx] != "" {
			why = "; here: " + c.winWhy[fx]
		}
		c.fail(at, "3-index slice expression (accepted only as the zero-length window `X[i] = Y[k:k:k+C]` in `for i := range X { k := i*C; … }` over an element-blind field Y: code_cblift.go%s)", why)
	}
	y, yt := c.expr(se.X, gtype{}, false)
	if yt.kind != kGSlice || !yt.eq(t) {
		c.fail(at, "window of %s assigned to an element of type %s", yt, t)
	}
	lo := c.intIndex(se.Low)
	mx := c.intIndex(se.Max)
	e := "(if (0 : Int) ≤ " + lo + " ∧ " + lo + " ≤ " + mx + " ∧ " + mx + " ≤ (Int.ofNat " + paren(y) + ".arr.length) then Res.ok ({ arr := (" + paren(y) + ".arr.drop (" + lo + ").toNat).take (" + mx + " - " + lo + ").toNat, len := 0 } : " + t.lean() + ") else Res.panic)"
	return c.bindRes("t", e, at), true
}

// ---------------------------------------------------------------- `if` on a constant
//
//	if on a constant      `if c { A } else { B }` (no init statement) where c is an identifier that is not a variable of the
//	                      function and names a package-level CONSTANT of boolean value (`const edgeStats = false`): Go
//	                      evaluates the condition at compile time; the statement is the branch that is taken (nothing for a
//	                      false condition without else), the other branch is NOT translated (it may use anything: fmt.Println).
//	                      The taken branch must not declare variables (it is spliced into the enclosing statement list).
//	                      Only in topics of the fifth part.

func (c *codegen) constCond(x *ast.IfStmt) ([]ast.Stmt, bool) {
	if !c.phase5 {
		return nil, false
	}
	return c.constCond0(x, func(n string) bool { return c.lookup(n) != nil })
}

// constCond0: the syntactic part (isVar: the name is a variable of the function).
func (c *codegen) constCond0(x *ast.IfStmt, isVar func(string) bool) ([]ast.Stmt, bool) {
	if x.Init != nil {
		return nil, false
	}
	id, ok := stripParens(x.Cond).(*ast.Ident)
	if !ok || isVar(id.Name) {
		return nil, false
	}
	val, found := false, false
	for _, f := range c.p.files {
		for _, d := range f.Decls {
			gd, isGd := d.(*ast.GenDecl)
			if !isGd || gd.Tok != token.CONST {
				continue
			}
			for _, sp := range gd.Specs {
				vs := sp.(*ast.ValueSpec)
				for j, n := range vs.Names {
					if n.Name != id.Name || j >= len(vs.Values) || len(vs.Values) != len(vs.Names) {
						continue
					}
					if vid, isId := stripParens(vs.Values[j]).(*ast.Ident); isId && (vid.Name == "true" || vid.Name == "false") && c.p.consts[vid.Name] == nil {
						val, found = vid.Name == "true", true
					}
				}
			}
		}
	}
	if !found {
		return nil, false
	}
	var taken []ast.Stmt
	if val {
		taken = x.Body.List
	} else {
		taken = elseList(x)
	}
	for _, s := range taken {
		switch y := s.(type) {
		case *ast.DeclStmt:
			return nil, false
		case *ast.AssignStmt:
			if y.Tok == token.DEFINE {
				return nil, false
			}
		}
	}
	return taken, true
}
