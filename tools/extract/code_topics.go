// code_topics.go — emission of the Go → Lean translation PER TOPIC.
//
// The translation of the whitelisted functions (code.go, code_stmt.go,
// code_refl.go) used to be one file, Code.lean, and one unsupported construct in
// any function made the whole run fail.  Here the whitelist is partitioned into
// topics; every topic is translated on its own and written to its own module
//
//	LzModel/Generated/CodePrelude.lean       Err, iand, ior, shifts, bits.Len
//	LzModel/Generated/CodeSlicePrelude.lean  Res, Slice (second prelude: panics, byte slices)
//	LzModel/Generated/CodeErrVars.lean       the package-level error variables as constants
//	LzModel/Generated/Code<Topic>.lean       structures + functions of the topic
//	LzModel/Generated/Code.lean              imports the topic modules that exist
//
// A construct outside of the subset (codegen.fail / reflFail → refuse) refuses
// only the topic that is being translated: its file is removed, the refusal is
// printed on stderr, the other topics are still written, and the extractor exits
// with status 3 ("partial") instead of 0.
package main

import (
	"fmt"
	"go/ast"
	"go/token"
	"os"
	"path/filepath"
	"regexp"
	"sort"
	"strconv"
	"strings"
)

type topic struct {
	name  string // module Code<name>
	doc   string
	fns   []fnKey
	refl  bool // uses the reflective helpers: the reflect primitives are checked first
	part2 bool // second part of the translator (code_slice.go): byte slices, panics, loops
	// fourth part (code_part4.go): topics4 below
	pkg    string  // "" = the root package, otherwise the sub-directory of the repository (package suffix)
	opaque []fnKey // callees that are NOT translated: they become function parameters (see code_part4.go)
}

func cfgPair(t string) []fnKey { return []fnKey{{t, "SetDefaults"}, {t, "Verify"}} }

func cat(ls ...[]fnKey) []fnKey {
	var out []fnKey
	for _, l := range ls {
		out = append(out, l...)
	}
	return out
}

// order matters only for readability: a function is emitted by the first topic that
// needs it, later topics import that module
var codeTopics = []topic{
	{"Ints", "ints.go: iverson, doz, min", []fnKey{{"", "iverson"}, {"", "doz"}, {"", "min"}}, false, false, "", nil},
	{"Hash", "hash.go: hashValue", []fnKey{{"", "hashValue"}}, false, false, "", nil},
	{"Cost", "osap.go: XZCost", []fnKey{{"", "XZCost"}}, false, false, "", nil},
	{"Len", "lz.go: Seq.Len, Block.Len", []fnKey{{"Seq", "Len"}, {"Block", "Len"}}, false, false, "", nil},
	{"CfgBuf", "lz.go: BufConfig", cfgPair("BufConfig"), false, false, "", nil},
	{"CfgHash", "hash.go: hashConfig, dhConfig", cat(cfgPair("hashConfig"), cfgPair("dhConfig")), false, false, "", nil},
	{"CfgBucket", "bucket_hash.go: bucketConfig", cfgPair("bucketConfig"), false, false, "", nil},
	{"CfgHP", "hp.go: HPConfig (through the reflective helpers)", cfgPair("HPConfig"), true, false, "", nil},
	{"CfgBHP", "bhp.go: BHPConfig (through the reflective helpers)", cfgPair("BHPConfig"), true, false, "", nil},
	{"CfgDHP", "dhp.go: DHPConfig (through the reflective helpers)", cfgPair("DHPConfig"), true, false, "", nil},
	{"CfgBDHP", "bdhp.go: BDHPConfig (through the reflective helpers)", cfgPair("BDHPConfig"), true, false, "", nil},
	{"CfgBUP", "bup.go: BUPConfig (through the reflective helpers)", cfgPair("BUPConfig"), true, false, "", nil},
	{"CfgGSAP", "gsap.go: GSAPConfig (through the reflective helpers)", cfgPair("GSAPConfig"), true, false, "", nil},
	{"CfgOSAP", "osap.go: OSAPConfig (through the reflective helpers)", cfgPair("OSAPConfig"), true, false, "", nil},
	{"Dec", "decoder_buffer.go: DecoderConfig", cfgPair("DecoderConfig"), false, false, "", nil},
	// second part: the buffer state machines
	{"PBuf", "parser_buffer.go: the methods of ParserBuffer", methods("ParserBuffer",
		"Shrink", "ByteAt", "PeekAt", "ReadAt", "Reset", "grow", "Write", "Init"), false, true, "", nil},
	{"DBuf", "decoder_buffer.go: the methods of DecoderBuffer without loops", methods("DecoderBuffer",
		"Init", "Reset", "ByteAtEnd", "Read", "shrink", "WriteByte", "Write"), false, true, "", nil},
	{"DBufCopy", "decoder_buffer.go: the copy loops of DecoderBuffer", methods("DecoderBuffer",
		"WriteMatch", "WriteBlock"), false, true, "", nil},
	// third part (part3Topics): slices of any element type as values — the hash tables and the
	// initialisation / Reset / Shrink of the hash parser
	{"HashTab", "hash.go: hash.init, hash.reset, hash.shiftOffsets", methods("hash",
		"init", "reset", "shiftOffsets"), false, true, "", nil},
	{"HashDict", "hash.go: hashDictionary.init, Reset, Shrink (they are Reset and Shrink of the hashParser, which embeds it)",
		methods("hashDictionary", "init", "Reset", "Shrink"), true, true, "", nil},
	{"HPInit", "hp.go: hashParser.init", methods("hashParser", "init"), true, true, "", nil},
	{"BucketTab", "bucket_hash.go: bucketHash.reset", methods("bucketHash", "reset"), false, true, "", nil},
	{"BucketDict", "bucket_hash.go: bucketDictionary.Reset (Reset of the bucketParser)", methods("bucketDictionary", "Reset"), false, true, "", nil},
	{"DHashDict", "hash.go: doubleHashDictionary.init, Reset, Shrink (Reset and Shrink of the double hash parsers DHP and BDHP)",
		methods("doubleHashDictionary", "init", "Reset", "Shrink"), true, true, "", nil},
	{"BHPInit", "bhp.go: backwardHashParser.init", methods("backwardHashParser", "init"), true, true, "", nil},
	{"DHPInit", "dhp.go: doubleHashParser.init", methods("doubleHashParser", "init"), true, true, "", nil},
	{"BDHPInit", "bdhp.go: bdhp.init", methods("bdhp", "init"), true, true, "", nil},
}

// part3Topics: the topics of the third part of the translator (code_gslice.go); they are
// topics of the second part as well (part2 is set).
var part3Topics = map[string]bool{"HashTab": true, "HashDict": true, "HPInit": true, "BucketTab": true,
	"BucketDict": true, "DHashDict": true, "BHPInit": true, "DHPInit": true, "BDHPInit": true}

// part4Topics: the topics of the fourth part (code_part4.go); they are topics of the third
// (and second) part as well.
var part4Topics = map[string]bool{}

// promoted3: the topics of the third part proper (the table above).  They are translated with the
// constructs of the fourth part switched on as well (three-clause loops, `continue`, return inside a
// loop, labels, … — so that a behaviour-preserving rewrite that uses one of them is not refused), with
// one restriction that keeps their trusted base unchanged: a slice parameter is admitted only as the
// ONLY slice a function can reach (no receiver, no second slice parameter), so that the "slices passed
// for different parameters do not overlap" reading of the fourth part is never needed (checkSig3).
// The translation of the unchanged repository is the same as without the promotion.
var promoted3 = map[string]bool{}

func init() {
	for n := range part3Topics {
		promoted3[n] = true
		part4Topics[n] = true
	}
	for _, t := range topics4 {
		part3Topics[t.name] = true
		part4Topics[t.name] = true
	}
}

func methods(recv string, names ...string) []fnKey {
	var out []fnKey
	for _, n := range names {
		out = append(out, fnKey{recv, n})
	}
	return out
}

const genModulePrefix = "LzModel.Generated."

// ---------------------------------------------------------------- refusal

type refusal struct{}

// refuse is called by codegen.fail / reflFail after the message has been printed.
func refuse() { panic(refusal{}) }

// guarded runs f; a refusal inside of f is caught, everything f printed on stderr is
// returned (and not yet shown).
func guarded(f func()) (refused bool, msg string) {
	tmp, err := os.CreateTemp("", "extract-stderr-*")
	if err != nil {
		fatal(err)
	}
	saved := os.Stderr
	os.Stderr = tmp
	defer func() {
		os.Stderr = saved
		tmp.Close()
		b, _ := os.ReadFile(tmp.Name())
		os.Remove(tmp.Name())
		msg = strings.TrimSpace(string(b))
		if r := recover(); r != nil {
			if _, ok := r.(refusal); ok {
				refused = true
				return
			}
			fmt.Fprintln(saved, msg)
			panic(r)
		}
	}()
	f()
	return
}

// ---------------------------------------------------------------- snapshots of the generator state

type cgSnap struct {
	nOuts, nStructs int
	seen            map[string]bool
	done            map[fnKey]bool
	refl            map[string]*reflInfo
	sigs            map[fnKey]*fnSig
	nErrUse         int
}

func (c *codegen) snap() cgSnap {
	s := cgSnap{nOuts: len(c.outs), nStructs: len(c.structUse), seen: map[string]bool{},
		done: map[fnKey]bool{}, refl: map[string]*reflInfo{}, sigs: map[fnKey]*fnSig{}, nErrUse: len(c.errVarUse)}
	for k, v := range c.sigs {
		s.sigs[k] = v
	}
	for k, v := range c.structSeen {
		s.seen[k] = v
	}
	for k, v := range c.done {
		s.done[k] = v
	}
	for k, v := range c.refl {
		s.refl[k] = v
	}
	return s
}

func (c *codegen) restore(s cgSnap) {
	c.outs, c.structUse = c.outs[:s.nOuts], c.structUse[:s.nStructs]
	c.structSeen, c.done, c.refl, c.sigs = s.seen, s.done, s.refl, s.sigs
	c.errVarUse = c.errVarUse[:s.nErrUse]
	// c.structPhase is deliberately kept: a struct first met in the first part keeps its
	// first-part shape, so the second part goes on calling its own version Name' even if the
	// topic that met it was refused (stable names for the proofs)
	c.busy = map[fnKey]bool{}
	c.cur = nil
	c.phase2 = false
	c.phase3 = false
	c.phase4 = false
	c.phase5 = false
	c.strictSliceParams = false
	c.declOrder = false
}

// checkReflPrimsSoft is checkReflPrims with a refusal instead of a fatal error.
func (c *codegen) checkReflPrimsSoft() {
	var names []string
	for n := range reflPrims {
		names = append(names, n)
	}
	sortStrings(names)
	for _, name := range names {
		want := reflPrims[name]
		fd := c.fns[fnKey{"", name}]
		if fd == nil || fd.Body == nil {
			fmt.Fprintf(os.Stderr, "extract: reflect primitive %s not found\n", name)
			refuse()
		}
		if got := normStmtText(c.nodeText(fd.Body)); got != want {
			fmt.Fprintf(os.Stderr, "extract: reflect primitive %s (%s) has body %q, the translator assumes %q\n",
				name, c.pos(fd), got, want)
			refuse()
		}
	}
}

// ---------------------------------------------------------------- driver

type topicOut struct {
	cg         *codegen
	autoHelper map[fnKey]bool
	t          topic
	refused    bool
	msg        string
	structs    []string
	outs       []fnOut
	helpers    []string
	deps       []string
}

var identRe = regexp.MustCompile(`[A-Za-z_][A-Za-z0-9_.']*`)

// genCodeTopics translates every topic and writes the modules next to codeFile
// (…/Code.lean).  It reports whether a topic was refused.
func genCodeTopics(p *pkgInfo, repo, codeFile string) (partial bool) {
	fnOwner := map[string]string{}     // lean function name -> topic
	structOwner := map[string]string{} // struct -> topic
	var results []*topicOut
	var topics []topic
	// the root package first, then the sub-packages (fourth part) in the order of topics4
	repoDir = repo // code_opq.go
	var rootTopics []topic
	rootTopics = append(rootTopics, codeTopics...)
	var subPkgs []string
	for _, t := range append(append([]topic{}, topics4...), topics5...) {
		if t.pkg == "" {
			rootTopics = append(rootTopics, t)
		} else {
			known := false
			for _, s := range subPkgs {
				known = known || s == t.pkg
			}
			if !known {
				subPkgs = append(subPkgs, t.pkg)
			}
		}
	}
	{
		ts, rs, part := translateTopics(p, rootTopics, true, "", fnOwner, structOwner, nil)
		topics, results, partial = append(topics, ts...), append(results, rs...), partial || part
	}
	rootStructs := p.structs()
	for _, sub := range subPkgs {
		var sts []topic
		for _, t := range topics4 {
			if t.pkg == sub {
				sts = append(sts, t)
			}
		}
		sp := load(filepath.Join(repo, sub))
		ts, rs, part := translateTopics(sp, sts, false, sub+"_", fnOwner, structOwner, rootStructs)
		topics, results, partial = append(topics, ts...), append(results, rs...), partial || part
	}
	renderTopics(codeFile, topics, results, fnOwner, structOwner)
	return partial
}

// translateTopics translates the topics of ONE package (one codegen per package: function and
// struct tables, mutation analysis, error variables are per package).  prefix is put in front of
// the Lean names of the functions of a sub-package (`suffix_InvertSA`); the struct names of a
// sub-package must not collide with those of the root package (reserved).
func translateTopics(p *pkgInfo, topicsIn []topic, withMisc bool, prefix string, fnOwner, structOwner map[string]string,
	reserved map[string][]field) (topics []topic, results []*topicOut, partial bool) {
	leanFnPrefix = prefix
	defer func() { leanFnPrefix = "" }()
	c := &codegen{p: p, prefix: prefix, reservedStructs: reserved, fns: p.funcs(), structs: p.structs(), constTypes: map[string]ast.Expr{},
		whiteSet: map[fnKey]bool{}, mutates: map[fnKey]bool{}, refl: map[string]*reflInfo{},
		structSeen: map[string]bool{}, done: map[fnKey]bool{}, busy: map[fnKey]bool{},
		structPhase: map[string]int{}, sigs: map[fnKey]*fnSig{}, white2Set: map[fnKey]bool{}, white3Set: map[fnKey]bool{}, white4Set: map[fnKey]bool{},
		opaqueOf: map[fnKey]bool{}, white5Set: map[fnKey]bool{}}
	for _, f := range p.files {
		for _, d := range f.Decls {
			if gd, ok := d.(*ast.GenDecl); ok && gd.Tok == token.CONST {
				var lastT ast.Expr
				for _, s := range gd.Specs {
					vs := s.(*ast.ValueSpec)
					if len(vs.Values) > 0 {
						lastT = vs.Type
					}
					for _, n := range vs.Names {
						c.constTypes[n.Name] = lastT
					}
				}
			}
		}
	}
	// topics: the table above plus "Misc" for whitelisted functions it does not mention
	topics = append([]topic{}, topicsIn...)
	inTopic := map[fnKey]bool{}
	for _, t := range topics {
		for _, k := range t.fns {
			inTopic[k] = true
		}
	}
	var misc, misc2 []fnKey
	if withMisc {
		for _, k := range codeWhitelist {
			if !inTopic[k] {
				misc = append(misc, k)
			}
		}
		for _, k := range codeWhitelist2 {
			if !inTopic[k] {
				misc2 = append(misc2, k)
			}
		}
	}
	if len(misc) > 0 {
		topics = append(topics, topic{"Misc", "whitelisted functions without a topic", misc, true, false, "", nil})
	}
	if len(misc2) > 0 {
		topics = append(topics, topic{"Misc2", "whitelisted functions of the second part without a topic", misc2, false, true, "", nil})
	}
	// first-part topics first: a function of the second part may call one of the first, never the other way round
	{
		var t1, t2, t3, t4 []topic
		for _, t := range topics {
			switch {
			case part4Topics[t.name]:
				t4 = append(t4, t)
			case part3Topics[t.name]:
				t3 = append(t3, t)
			case t.part2:
				t2 = append(t2, t)
			default:
				t1 = append(t1, t)
			}
		}
		topics = append(append(append(t1, t2...), t3...), t4...)
	}
	// helpers that are followed automatically (see helperCallees): added to the calling topic
	autoHelper := map[fnKey]bool{}
	helperPart2 := map[fnKey]bool{}
	{
		listed := map[fnKey]bool{}
		for _, t := range topics {
			for _, k := range t.fns {
				listed[k] = true
			}
		}
		for i := range topics {
			known := map[fnKey]bool{}
			for k := range listed {
				known[k] = true
			}
			for _, k := range topics[i].opaque {
				known[k] = true // not followed: a parameter of the translated functions
				c.opaqueOf[k] = true
			}
			for _, sp := range spTopics[topics[i].name] {
				if sp.recv != "" {
					known[fnKey{sp.recv, sp.name}] = true // code_opq.go / code_osap.go: an opaque method is not followed
				}
			}
			var hs []fnKey
			c.helperPhase5 = part5Topics[topics[i].name] // code_cblift.go: `if` on a constant
			for _, k := range topics[i].fns {
				c.helperCallees(k, known, &hs)
			}
			for _, h := range hs {
				if !autoHelper[h] {
					autoHelper[h] = true
					helperPart2[h] = topics[i].part2
				} else if !topics[i].part2 {
					helperPart2[h] = false // also needed by the first part
				}
			}
			topics[i].fns = append(append([]fnKey{}, topics[i].fns...), hs...)
		}
	}
	missing := map[fnKey]bool{}
	for _, t := range topics {
		for _, k := range t.fns {
			if c.fns[k] == nil {
				missing[k] = true
				continue
			}
			c.white = append(c.white, k)
			c.whiteSet[k] = true
			if t.part2 && (!autoHelper[k] || helperPart2[k]) {
				if part3Topics[t.name] {
					if !c.white2Set[k] {
						if part4Topics[t.name] && !c.white3Set[k] {
							c.white4Set[k] = true
							if part5Topics[t.name] {
								c.white5Set[k] = true
							}
						}
						c.white3Set[k] = true
					}
				} else {
					c.white2Set[k] = true
					delete(c.white3Set, k)
				}
			}
		}
	}
	if prefix == "" {
		c.collectErrVars()
	} else {
		// a sub-package: its error variables are not emitted (CodeErrVars is the root package's)
		c.errVars, c.errVarDropped = map[string]*errVar{}, map[string]bool{}
	}

	// the reflective helpers are analysed up front, one by one: a helper that is refused
	// must not take the mutation analysis (and with it every topic) down
	var helperNames []string
	for k := range c.fns {
		if k.recv == "" {
			helperNames = append(helperNames, k.name)
		}
	}
	sortStrings(helperNames)
	var broken []string
	for _, n := range helperNames {
		n := n
		snap := c.snap()
		if refused, _ := guarded(func() { c.reflOf(n) }); refused {
			c.restore(snap)
			fd := c.fns[fnKey{"", n}]
			c.refl[n] = &reflInfo{name: n, fd: fd, setter: len(fd.Type.Params.List) == 2 ||
				(len(fd.Type.Params.List) == 1 && len(fd.Type.Params.List[0].Names) == 2)}
			broken = append(broken, n)
		}
	}
	c.registerSP(topics) // code_opq.go: opaque methods count as mutating
	allRefused := ""
	if refused, msg := guarded(func() { c.computeMutates() }); refused {
		allRefused = msg
	}
	for _, n := range broken {
		delete(c.refl, n) // analysed (and refused) again by the topic that uses it
	}

	for _, t := range topics {
		t := t
		res := &topicOut{t: t, cg: c, autoHelper: autoHelper}
		results = append(results, res)
		snap := c.snap()
		run := func() {
			if allRefused != "" {
				fmt.Fprintln(os.Stderr, allRefused)
				refuse()
			}
			for _, k := range t.fns {
				if missing[k] {
					fmt.Fprintf(os.Stderr, "extract: whitelisted function %s not found in the repository\n", fnName(k))
					refuse()
				}
			}
			if t.refl {
				c.checkReflPrimsSoft()
			}
			c.phase2, c.phase3, c.phase4, c.phase5 = t.part2, part3Topics[t.name], part4Topics[t.name], part5Topics[t.name]
			c.ptrNonNil = ptrNonNilTopics[t.name]
			c.nilable = nilableTopics[t.name] // code_nil.go
			c.strictSliceParams = promoted3[t.name]
			c.declOrder = declOrderTopics[t.name]
			for _, k := range t.fns {
				c.ensure(k, c.fns[k])
			}
			c.strictSliceParams = false
			c.phase2, c.phase3, c.phase4, c.phase5 = false, false, false, false
			c.ptrNonNil = false
			c.nilable = false
		}
		res.refused, res.msg = guarded(run)
		if res.refused {
			c.restore(snap)
			partial = true
			continue
		}
		if res.msg != "" {
			fmt.Fprintln(os.Stderr, res.msg)
		}
		res.structs = append([]string{}, c.structUse[snap.nStructs:]...)
		res.outs = append([]fnOut{}, c.outs[snap.nOuts:]...)
		for _, s := range res.structs {
			structOwner[s] = t.name
		}
		for _, o := range res.outs {
			fnOwner[leanFn(o.key)] = t.name
		}
		// reflective helpers called by the functions of this module
		hs := map[string]bool{}
		for _, o := range res.outs {
			if c.fns[o.key] == nil {
				continue // code_osap.go: the dispatch function of a field of function type
			}
			ast.Inspect(c.fns[o.key].Body, func(n ast.Node) bool {
				if call, ok := n.(*ast.CallExpr); ok {
					if id, ok := call.Fun.(*ast.Ident); ok && c.refl[id.Name] != nil {
						hs[id.Name] = true
					}
				}
				return true
			})
		}
		for n := range hs {
			res.helpers = append(res.helpers, n)
		}
		sortStrings(res.helpers)
	}

	return topics, results, partial
}

// renderTopics writes the modules.
func renderTopics(codeFile string, topics []topic, results []*topicOut, fnOwner, structOwner map[string]string) {
	dir := filepath.Dir(codeFile)
	c := results[0].cg // the root package: owner of the error variables
	// ---- render
	header := func(sb *strings.Builder, what string, imports []string) {
		fmt.Fprintf(sb, "-- GENERATED by tools/extract -code from the repository source — do not edit; regenerated on every check\n")
		fmt.Fprintf(sb, "-- %s\n", what)
		for _, im := range imports {
			fmt.Fprintf(sb, "import %s%s\n", genModulePrefix, im)
		}
	}
	write := func(name, content string) {
		if err := os.WriteFile(filepath.Join(dir, name+".lean"), []byte(content), 0o644); err != nil {
			fatal(err)
		}
	}
	{
		var sb strings.Builder
		header(&sb, "Fixed prelude of the mechanical translation of the whitelisted Go functions (see NOTES.md for the subset).", nil)
		sb.WriteString("-- Go int/int64 ↦ Int (unbounded; overflow is out of scope), uint32 ↦ UInt32,\n")
		sb.WriteString("-- uint64/uint ↦ UInt64 (wrap-around), error ↦ Err, struct ↦ structure, []T ↦ List T.\n")
		sb.WriteString("namespace LZ.Gen\n\n")
		sb.WriteString(leanPrelude)
		sb.WriteString("\nend LZ.Gen\n")
		write("CodePrelude", strings.Replace(sb.String(), "namespace LZ.Gen\n",
			"import "+genModulePrefix+"CodeAttr\nnamespace LZ.Gen\n", 1))
		write("CodeAttr", "-- GENERATED by tools/extract -code — do not edit\n"+
			"-- The simp attribute carried by the unexported helper functions the translator followed\n"+
			"-- automatically (functions that are not on the whitelist but are called by whitelisted ones):\n"+
			"-- `simp only [Gen.F, gen_helper]` unfolds F and whatever helpers it calls.\n"+
			"import Lean.Meta.Tactic.Simp.RegisterCommand\n\n"+
			"/-- unexported helpers followed by the Go → Lean translator -/\n"+
			"register_simp_attr gen_helper\n")
	}
	{
		var sb strings.Builder
		header(&sb, "Second prelude of the translation (buffer state machines): panics, byte slices with capacity, fuel.", nil)
		sb.WriteString("namespace LZ.Gen\n\n")
		sb.WriteString(leanPrelude2)
		sb.WriteString("\nend LZ.Gen\n")
		write("CodeSlicePrelude", sb.String())
	}
	{
		var sb strings.Builder
		header(&sb, "Third prelude of the translation (hash tables): slices of any element type as values with capacity, signed shift counts.", []string{"CodeSlicePrelude"})
		sb.WriteString("namespace LZ.Gen\n\n")
		sb.WriteString(leanPrelude3)
		sb.WriteString("\nend LZ.Gen\n")
		write("CodeGSlicePrelude", sb.String())
	}
	{
		var sb strings.Builder
		header(&sb, "Fourth prelude of the translation (package suffix, bitset): append on slices of any element type, bit scans.", []string{"CodeGSlicePrelude"})
		sb.WriteString("namespace LZ.Gen\n\n")
		sb.WriteString(leanPrelude4)
		sb.WriteString("\nend LZ.Gen\n")
		write("CodePart4Prelude", sb.String())
	}
	{
		var sb strings.Builder
		header(&sb, "Fifth prelude of the translation (Decoder, WrappedParser): error variables of the standard library, re-slicing of list-valued slices.", []string{"CodePrelude", "CodeSlicePrelude"})
		sb.WriteString("namespace LZ.Gen\n\n")
		sb.WriteString(leanPrelude5())
		sb.WriteString("\nend LZ.Gen\n")
		write("CodeIfacePrelude", sb.String())
	}
	{
		var sb strings.Builder
		header(&sb, "Sixth prelude of the translation (code_lend.go): a window of a byte slice lent to a callee.", []string{"CodeSlicePrelude"})
		sb.WriteString("namespace LZ.Gen\n\n")
		sb.WriteString(leanPrelude6())
		sb.WriteString("\nend LZ.Gen\n")
		write(lendPreludeName, sb.String())
	}
	errVarNames := map[string]bool{}
	{
		// every package-level error variable that is a constant, whether a topic uses it or not:
		// the set (and the numbering) must not depend on which topics could be translated
		var names []string
		for n, ev := range c.errVars {
			if ev != nil && !leanReserved[n] {
				names = append(names, n)
				errVarNames[n] = true
			}
		}
		sortStrings(names)
		var sb strings.Builder
		header(&sb, "Package-level error variables.", []string{"CodePrelude"})
		sb.WriteString("namespace LZ.Gen\n\n")
		fmt.Fprintf(&sb, "/-! ### package-level error variables: distinct constants (numbered from %d in alphabetical\n", errVarBase+1)
		sb.WriteString("    order of all `var X = errors.New(…)` of the package; never assigned anywhere in the package) -/\n")
		for _, n := range names {
			ev := c.errVars[n]
			fmt.Fprintf(&sb, "\n/-- `var %s = errors.New(%s)` — %s -/\n", n, strconv.Quote(ev.msg), c.pos(ev.pos))
			fmt.Fprintf(&sb, "def %s : Err := Err.error %d\n", ev.lean, ev.num)
		}
		sb.WriteString("\nend LZ.Gen\n")
		write("CodeErrVars", sb.String())
	}
	var present []string
	for _, res := range results {
		c := res.cg
		autoHelper := res.autoHelper
		leanFnPrefix = c.prefix
		c.phase4 = part4Topics[res.t.name] // the field types of its structures (int32)
		c.phase5 = part5Topics[res.t.name] // … (interface types)
		file := "Code" + res.t.name
		if res.refused {
			os.Remove(filepath.Join(dir, file+".lean"))
			fmt.Fprintf(os.Stderr, "extract: topic %s REFUSED (module %s%s not written):\n", res.t.name, genModulePrefix, file)
			for _, l := range strings.Split(res.msg, "\n") {
				fmt.Fprintf(os.Stderr, "  %s\n", strings.TrimPrefix(l, "extract: "))
			}
			continue
		}
		var body strings.Builder
		w := func(format string, a ...interface{}) { fmt.Fprintf(&body, format+"\n", a...) }
		if len(res.structs) > 0 {
			w("/-! ### structures (one per Go struct the functions below touch) -/")
			for _, s := range res.structs {
				w("")
				w("/-- `type %s struct` -/", goStruct(s))
				tps := ""
				if c.phase5 {
					for _, tp := range c.structTArgs(s) {
						tps += " (" + tp + " : Type)"
					}
				}
				w("structure %s%s where", s, tps)
				for _, f := range c.structFields(s, nil) {
					w("  %s : %s", f.name, f.typ.lean())
				}
				w("deriving DecidableEq, Repr, Inhabited")
			}
			w("")
		}
		if len(res.helpers) > 0 {
			w("/-! ### reflective field-copy helpers, as read from their source (inlined at the call sites) -/")
			for _, n := range res.helpers {
				ri := c.refl[n]
				var cps []string
				for _, cp := range ri.copies {
					if ri.setter {
						cps = append(cps, fmt.Sprintf("cfg.%s := %s", cp.field, pathKey(cp.path)))
					} else {
						cps = append(cps, fmt.Sprintf("%s := cfg.%s", pathKey(cp.path), cp.field))
					}
				}
				kind := "getter"
				if ri.setter {
					kind = "setter"
				}
				w("-- %s (%s, %s of %s): requires [%s]; %s", n, c.pos(ri.fd), kind, ri.helper,
					strings.Join(ri.required, ", "), strings.Join(cps, ", "))
			}
			w("")
		}
		w("/-! ### functions -/")
		for _, o := range res.outs {
			w("")
			for _, l := range o.lines {
				if autoHelper[o.key] && strings.HasPrefix(l, "def "+leanFn(o.key)+" ") {
					w("-- not on the whitelist: an unexported helper of the functions above, followed automatically")
					l = "@[gen_helper] " + l
				}
				w("%s", l)
			}
		}
		// imports: the modules that own the functions and structures the text mentions
		deps := map[string]bool{}
		for _, tok := range identRe.FindAllString(body.String(), -1) {
			if own, ok := fnOwner[strings.TrimPrefix(tok, "LZ.Gen.")]; ok && strings.HasPrefix(tok, "LZ.Gen.") && own != res.t.name {
				deps[own] = true
			}
			if own, ok := structOwner[tok]; ok && own != res.t.name {
				deps[own] = true
			}
		}
		imports := []string{"CodePrelude"}
		if res.t.part2 {
			imports = append(imports, "CodeSlicePrelude")
			if part3Topics[res.t.name] {
				imports = append(imports, "CodeGSlicePrelude")
			}
			if part4Topics[res.t.name] {
				imports = append(imports, "CodePart4Prelude")
			}
			if part5Topics[res.t.name] {
				imports = append(imports, "CodeIfacePrelude")
				if strings.Contains(body.String(), "Slice.writeBack") {
					imports = append(imports, lendPreludeName) // code_lend.go
				}
			}
			for _, tok := range identRe.FindAllString(body.String(), -1) {
				if errVarNames[tok] {
					imports = append(imports, "CodeErrVars")
					break
				}
			}
		}
		for _, t := range topics { // topic order: deterministic
			if deps[t.name] {
				imports = append(imports, "Code"+t.name)
				res.deps = append(res.deps, t.name)
			}
		}
		var sb strings.Builder
		header(&sb, fmt.Sprintf("Topic %s — %s.", res.t.name, res.t.doc), imports)
		sb.WriteString("set_option linter.unusedVariables false\n")
		sb.WriteString("namespace LZ.Gen\n\n")
		sb.WriteString(body.String())
		sb.WriteString("\nend LZ.Gen\n")
		write(file, sb.String())
		present = append(present, file)
	}
	{
		var sb strings.Builder
		header(&sb, "Umbrella: imports every topic module that could be translated.",
			append([]string{"CodePrelude", "CodeSlicePrelude", "CodeGSlicePrelude", "CodePart4Prelude", "CodeIfacePrelude", lendPreludeName, "CodeErrVars"}, present...))
		for _, res := range results {
			if res.refused {
				fmt.Fprintf(&sb, "-- topic %s REFUSED: %s\n", res.t.name, oneLine(strings.ReplaceAll(res.msg, "extract: ", "")))
			}
		}
		if err := os.WriteFile(codeFile, []byte(sb.String()), 0o644); err != nil {
			fatal(err)
		}
	}
	// modules of topics that no longer exist (an older topic table) must not linger
	keep := map[string]bool{"Code.lean": true, "CodeAttr.lean": true, "CodePrelude.lean": true, "CodeSlicePrelude.lean": true, "CodeGSlicePrelude.lean": true, "CodePart4Prelude.lean": true, "CodeIfacePrelude.lean": true, lendPreludeName + ".lean": true, "CodeErrVars.lean": true}
	for _, f := range present {
		keep[f+".lean"] = true
	}
	if stale, err := filepath.Glob(filepath.Join(dir, "Code*.lean")); err == nil {
		for _, f := range stale {
			if !keep[filepath.Base(f)] {
				os.Remove(f)
			}
		}
	}
	leanFnPrefix = ""
}

// ---------------------------------------------------------------- helpers followed automatically

// A whitelisted function may call UNEXPORTED helpers that are not on the whitelist: a method
// of the same receiver called on the receiver variable (`b.appendMatch(n, off)`), a package
// level function (`hashBitsLimit(cfg.InputLen, 24)`), or an unexported method called on some OTHER
// value — a field of the receiver, an embedded struct, a local pointer to one of them
// (`h1.put(i, x)` with `h1 := &f.h1`, `s.hashDictionary.rehash(…)`).  "Extract a helper" is the most
// common harmless refactoring, so such callees are put on the whitelist of the calling topic before
// the translation starts (transitively).  They have to be in the subset like every other
// function — otherwise the topic is refused as before.  In the generated code they carry the
// simp attribute `gen_helper`, so the proofs can unfold them without knowing their names.
//
// This pass runs before the translator has types, so for a method called on another value the
// receiver type is not known here: every struct type that is REACHABLE from the receiver type or a
// parameter type of the calling function through fields (embedded or named, through `*` and `[]`)
// and declares an unexported method of that name is a candidate, and all candidates are followed
// (normally there is exactly one; a value of an unreachable type cannot occur in the function without
// a call that produces it, and results of calls are not followed).  A superfluous candidate only costs
// its translation; if it is outside the subset the topic is refused, which is what happened to the
// call before this rule existed.  Which method is really
// called, whether the call mutates its receiver, and the aliasing rules (code_ptralias.go,
// code_parse.go: a method that writes through its receiver while a parameter may alias the
// receiver's memory is refused) are decided later by the translator with types, as for every
// whitelisted method.
func unexported(name string) bool {
	return name != "" && name != "_" && !ast.IsExported(name)
}

func (c *codegen) helperCallees(k fnKey, known map[fnKey]bool, out *[]fnKey) {
	fd := c.fns[k]
	if fd == nil || fd.Body == nil {
		return
	}
	recvVar := ""
	if fd.Recv != nil && len(fd.Recv.List) == 1 && len(fd.Recv.List[0].Names) == 1 {
		recvVar = fd.Recv.List[0].Names[0].Name
	}
	add := func(h fnKey) {
		hd := c.fns[h]
		if hd == nil || hd.Body == nil || known[h] {
			return
		}
		known[h] = true
		*out = append(*out, h)
		c.helperCallees(h, known, out)
	}
	ast.Inspect(fd.Body, func(n ast.Node) bool {
		if is, isIf := n.(*ast.IfStmt); isIf && c.helperPhase5 {
			// code_cblift.go: the branch of an `if` on a boolean constant that is not taken is not translated
			if taken, isConst := c.constCond0(is, func(nm string) bool { return declCounts(fd)[nm] > 0 }); isConst {
				for _, s := range taken {
					ast.Inspect(s, func(m ast.Node) bool {
						if cx, isCall := m.(*ast.CallExpr); isCall {
							c.helperCall(k, fd, recvVar, cx, add)
						}
						return true
					})
				}
				return false
			}
		}
		call, ok := n.(*ast.CallExpr)
		if !ok {
			return true
		}
		c.helperCall(k, fd, recvVar, call, add)
		return true
	})
}

func (c *codegen) helperCall(k fnKey, fd *ast.FuncDecl, recvVar string, call *ast.CallExpr, add func(fnKey)) {
	{
		switch f := call.Fun.(type) {
		case *ast.SelectorExpr:
			if id, ok := f.X.(*ast.Ident); ok && recvVar != "" && id.Name == recvVar && unexported(f.Sel.Name) {
				h := fnKey{k.recv, f.Sel.Name}
				if c.fns[h] == nil {
					// a method promoted from an embedded struct (code_parse.go)
					if pp := c.promotedMethod(k.recv, f.Sel.Name, call); pp != nil {
						h = fnKey{pp[len(pp)-1], f.Sel.Name}
					}
				}
				add(h)
			} else if unexported(f.Sel.Name) && rootIdent(f.X) != nil {
				// a method of another value (field, embedded struct, local pointer): all candidates by name
				var cands []fnKey
				reach := c.reachableStructs(fd)
				for h := range c.fns {
					if h.recv != "" && h.name == f.Sel.Name && reach[h.recv] {
						cands = append(cands, h)
					}
				}
				sort.Slice(cands, func(i, j int) bool { return cands[i].recv < cands[j].recv })
				for _, h := range cands {
					add(h)
				}
			}
		case *ast.Ident:
			if !unexported(f.Name) {
				break
			}
			h := fnKey{"", f.Name}
			hd := c.fns[h]
			if hd == nil || hd.Type.Params == nil {
				break
			}
			if _, prim := reflPrims[f.Name]; prim {
				break
			}
			// the reflective helpers (first parameter of type ParserConfig) are read by code_refl.go
			if len(hd.Type.Params.List) > 0 && isParserConfigParam(hd.Type.Params.List[0]) {
				break
			}
			add(h)
		}
	}
}

// reachableStructs: the struct types reachable from the receiver and parameter types of fd through
// fields (Go spellings; `*T`, `[]T`, `[n]T` count as T).
func (c *codegen) reachableStructs(fd *ast.FuncDecl) map[string]bool {
	strip := func(t string) string {
		for {
			switch {
			case strings.HasPrefix(t, "*"):
				t = t[1:]
			case strings.HasPrefix(t, "[]"):
				t = t[2:]
			case strings.HasPrefix(t, "["):
				if i := strings.Index(t, "]"); i >= 0 {
					t = t[i+1:]
					continue
				}
				return t
			default:
				return t
			}
		}
	}
	seen := map[string]bool{}
	var visit func(t string)
	visit = func(t string) {
		t = strip(t)
		if seen[t] {
			return
		}
		if _, ok := c.structs[t]; !ok {
			return
		}
		seen[t] = true
		for _, f := range c.structs[t] {
			visit(f.typ)
		}
	}
	fields := func(fl *ast.FieldList) {
		if fl == nil {
			return
		}
		for _, f := range fl.List {
			visit(c.src(f.Type))
		}
	}
	fields(fd.Recv)
	fields(fd.Type.Params)
	return seen
}
