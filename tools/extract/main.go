// Command extract regenerates LzModel/Generated/Facts.lean from the Go source
// of github.com/ulikunitz/lz: the numeric constants the model uses, the
// configuration schema, the JSON type tags, the package-level variables and
// the method sets of the dictionaries. It emits data, not prose; the model
// imports these definitions instead of repeating the numbers, and the proofs
// discharge their side conditions against them by `decide`.
package main

import (
	"flag"
	"fmt"
	"go/ast"
	"go/constant"
	"go/parser"
	"go/token"
	"os"
	"path/filepath"
	"sort"
	"strconv"
	"strings"
)

type pkgInfo struct {
	fset   *token.FileSet
	files  map[string]*ast.File
	consts map[string]constant.Value
}

func load(dir string) *pkgInfo {
	p := &pkgInfo{fset: token.NewFileSet(), files: map[string]*ast.File{}, consts: map[string]constant.Value{}}
	ents, err := os.ReadDir(dir)
	if err != nil {
		fatal(err)
	}
	for _, e := range ents {
		n := e.Name()
		if !strings.HasSuffix(n, ".go") || strings.HasSuffix(n, "_test.go") || strings.HasPrefix(n, "verif_") {
			continue
		}
		f, err := parser.ParseFile(p.fset, filepath.Join(dir, n), nil, parser.ParseComments)
		if err != nil {
			fatal(err)
		}
		p.files[n] = f
	}
	// code_desugar.go: syntactic normalisation (local constants, element pointers, counting loops, fallthrough,
	// tuple assignments, local copies of slice fields); the struct declarations of the whole package are
	// collected first (the last rule needs the declared type of a field)
	collectPkgStructs(p.files)
	{
		var names []string
		for n := range p.files {
			names = append(names, n)
		}
		sort.Strings(names)
		for _, n := range names {
			desugarFile(p.files[n])
		}
	}
	// package level constants (several passes for dependencies)
	for pass := 0; pass < 4; pass++ {
		for _, f := range p.files {
			for _, d := range f.Decls {
				gd, ok := d.(*ast.GenDecl)
				if !ok || gd.Tok != token.CONST {
					continue
				}
				p.constDecl(gd, p.consts)
			}
		}
	}
	return p
}

func (p *pkgInfo) constDecl(gd *ast.GenDecl, into map[string]constant.Value) {
	var last []ast.Expr
	for i, s := range gd.Specs {
		vs := s.(*ast.ValueSpec)
		vals := vs.Values
		if len(vals) == 0 {
			vals = last
		} else {
			last = vals
		}
		for j, name := range vs.Names {
			if j < len(vals) {
				if v := p.evalIota(vals[j], int64(i), into); v != nil {
					into[name.Name] = v
				}
			}
		}
	}
}

func (p *pkgInfo) evalIota(e ast.Expr, iota int64, local map[string]constant.Value) constant.Value {
	return p.eval(e, func(name string) constant.Value {
		if name == "iota" {
			return constant.MakeInt64(iota)
		}
		if v, ok := local[name]; ok {
			return v
		}
		return p.consts[name]
	})
}

func (p *pkgInfo) eval(e ast.Expr, look func(string) constant.Value) constant.Value {
	switch x := e.(type) {
	case *ast.BasicLit:
		switch x.Kind {
		case token.INT:
			return constant.MakeFromLiteral(x.Value, token.INT, 0)
		case token.STRING:
			s, _ := strconv.Unquote(x.Value)
			return constant.MakeString(s)
		}
	case *ast.Ident:
		return look(x.Name)
	case *ast.ParenExpr:
		return p.eval(x.X, look)
	case *ast.UnaryExpr:
		v := p.eval(x.X, look)
		if v == nil {
			return nil
		}
		if x.Op == token.XOR && len(os.Args) >= 0 {
			// ^uint(0) etc. are platform words; treat as 64 bit
			return constant.BinaryOp(constant.MakeUint64(^uint64(0)), token.XOR, v)
		}
		if x.Op == token.SUB || x.Op == token.ADD {
			return constant.UnaryOp(x.Op, v, 0)
		}
	case *ast.BinaryExpr:
		a, b := p.eval(x.X, look), p.eval(x.Y, look)
		if a == nil || b == nil {
			return nil
		}
		switch x.Op {
		case token.SHL, token.SHR:
			s, ok := constant.Uint64Val(b)
			if !ok || a.Kind() != constant.Int {
				return nil
			}
			return constant.Shift(a, x.Op, uint(s))
		case token.ADD, token.SUB, token.MUL, token.AND, token.OR:
			if a.Kind() != b.Kind() {
				return nil
			}
			return constant.BinaryOp(a, x.Op, b)
		case token.QUO:
			if a.Kind() == constant.Int && b.Kind() == constant.Int {
				return constant.BinaryOp(a, token.QUO_ASSIGN, b)
			}
		}
	case *ast.CallExpr:
		// conversions int64(c), uint32(c), uint(c), int(c), uint64(c)
		if id, ok := x.Fun.(*ast.Ident); ok && len(x.Args) == 1 {
			switch id.Name {
			case "int64", "uint32", "uint", "int", "uint64", "int32":
				return p.eval(x.Args[0], look)
			}
		}
	}
	return nil
}

type fnKey struct{ recv, name string }

func recvName(fd *ast.FuncDecl) string {
	if fd.Recv == nil || len(fd.Recv.List) == 0 {
		return ""
	}
	t := fd.Recv.List[0].Type
	if s, ok := t.(*ast.StarExpr); ok {
		t = s.X
	}
	if id, ok := t.(*ast.Ident); ok {
		return id.Name
	}
	return "?"
}

func (p *pkgInfo) funcs() map[fnKey]*ast.FuncDecl {
	m := map[fnKey]*ast.FuncDecl{}
	for _, f := range p.files {
		for _, d := range f.Decls {
			if fd, ok := d.(*ast.FuncDecl); ok {
				// code_ptralias.go: local pointer aliases `v := &P` are eliminated at source level (idempotent)
				if notes := elimPtrAliases(fd); len(notes) > 0 {
					ptrAliasNotes[fd] = append(ptrAliasNotes[fd], notes...)
				}
				m[fnKey{recvName(fd), fd.Name.Name}] = fd
			}
		}
	}
	liftCallbackLits(p, m) // code_cblift.go: a closure handed as a logged callback is lambda-lifted at source level (idempotent)
	inlineViews(p, m)      // code_lend.go: view methods used as range operands are inlined at source level (idempotent)
	return m
}

// literals returns the maximal constant sub-expressions of a function body in
// source order; arguments of fmt.Errorf / panic are skipped.
func (p *pkgInfo) literals(fd *ast.FuncDecl) (ints []string, strs []string) {
	local := map[string]constant.Value{}
	look := func(name string) constant.Value {
		if v, ok := local[name]; ok {
			return v
		}
		return p.consts[name]
	}
	var walk func(n ast.Node) bool
	walk = func(n ast.Node) bool {
		switch x := n.(type) {
		case *ast.CallExpr:
			if se, ok := x.Fun.(*ast.SelectorExpr); ok {
				if id, ok := se.X.(*ast.Ident); ok && id.Name == "fmt" {
					return false
				}
			}
			if id, ok := x.Fun.(*ast.Ident); ok && id.Name == "panic" {
				return false
			}
		case *ast.DeclStmt:
			if gd, ok := x.Decl.(*ast.GenDecl); ok && gd.Tok == token.CONST {
				p.constDecl(gd, local)
				for _, s := range gd.Specs {
					for _, nm := range s.(*ast.ValueSpec).Names {
						if v := local[nm.Name]; v != nil && v.Kind() == constant.Int {
							ints = append(ints, v.ExactString())
						}
					}
				}
				return false
			}
		case ast.Expr:
			if v := p.eval(x, look); v != nil {
				switch v.Kind() {
				case constant.Int:
					ints = append(ints, v.ExactString())
				case constant.String:
					strs = append(strs, constant.StringVal(v))
				}
				return false
			}
		}
		return true
	}
	if fd.Body != nil {
		ast.Inspect(fd.Body, walk)
	}
	return
}

type field struct{ name, typ, tag string }

func (p *pkgInfo) structs() map[string][]field {
	m := map[string][]field{}
	for _, f := range p.files {
		for _, d := range f.Decls {
			gd, ok := d.(*ast.GenDecl)
			if !ok || gd.Tok != token.TYPE {
				continue
			}
			for _, s := range gd.Specs {
				ts := s.(*ast.TypeSpec)
				st, ok := ts.Type.(*ast.StructType)
				if !ok {
					continue
				}
				var fs []field
				for _, fl := range st.Fields.List {
					typ := exprStr(fl.Type)
					tag := ""
					if fl.Tag != nil {
						tag, _ = strconv.Unquote(fl.Tag.Value)
					}
					if len(fl.Names) == 0 {
						fs = append(fs, field{"", typ, tag}) // embedded
					}
					for _, n := range fl.Names {
						fs = append(fs, field{n.Name, typ, tag})
					}
				}
				m[ts.Name.Name] = fs
			}
		}
	}
	return m
}

func exprStr(e ast.Expr) string {
	switch x := e.(type) {
	case *ast.Ident:
		return x.Name
	case *ast.StarExpr:
		return "*" + exprStr(x.X)
	case *ast.ArrayType:
		return "[]" + exprStr(x.Elt)
	case *ast.SelectorExpr:
		return exprStr(x.X) + "." + x.Sel.Name
	case *ast.FuncType:
		return "func"
	}
	return "?"
}

func fatal(err error) {
	fmt.Fprintln(os.Stderr, "extract:", err)
	os.Exit(1)
}

func q(s string) string { return strconv.Quote(s) }

func leanInts(xs []string) string { return "[" + strings.Join(xs, ", ") + "]" }
func leanStrs(xs []string) string {
	ys := make([]string, len(xs))
	for i, x := range xs {
		ys[i] = q(x)
	}
	return "[" + strings.Join(ys, ", ") + "]"
}

func main() {
	repo := flag.String("repo", "/repo", "repository")
	out := flag.String("out", "", "output file")
	code := flag.String("code", "", "second output: Lean translation of the whitelisted functions (Code.lean and, next to it, CodePrelude.lean and one Code<Topic>.lean per topic)")
	flag.Parse()
	lz := load(*repo)
	if *code != "" {
		// per-topic translation (code_topics.go); status 3 = some topic was refused
		defer func() {
			if genCodeTopics(lz, *repo, *code) {
				os.Exit(3)
			}
		}()
	}
	sfx := load(filepath.Join(*repo, "suffix"))
	fns := lz.funcs()
	var sb strings.Builder
	w := func(format string, a ...interface{}) { fmt.Fprintf(&sb, format+"\n", a...) }
	w("-- GENERATED by tools/extract from the repository source — do not edit; regenerated on every check")
	w("namespace LZ.Facts")
	w("")
	w("/-! ### literal constants of the modelled functions, in source order (information; only the lists\n     named in `shapeOK` are used by position) -/")
	lits := map[string][]string{}
	strl := map[string][]string{}
	var names []fnKey
	want := []fnKey{
		{"BufConfig", "SetDefaults"}, {"BufConfig", "Verify"},
		{"hashConfig", "SetDefaults"}, {"hashConfig", "Verify"},
		{"dhConfig", "SetDefaults"}, {"dhConfig", "Verify"},
		{"bucketConfig", "SetDefaults"}, {"bucketConfig", "Verify"},
		{"GSAPConfig", "SetDefaults"}, {"GSAPConfig", "Verify"},
		{"OSAPConfig", "SetDefaults"}, {"OSAPConfig", "Verify"},
		{"DecoderConfig", "SetDefaults"}, {"DecoderConfig", "Verify"},
		{"ParserBuffer", "grow"}, {"ParserBuffer", "Write"}, {"ParserBuffer", "ReadFrom"}, {"ParserBuffer", "Reset"},
		{"hash", "init"}, {"", "XZCost"}, {"", "hashValue"},
	}
	for _, k := range want {
		fd, ok := fns[k]
		if !ok {
			w("-- MISSING function %s.%s", k.recv, k.name)
			lits[k.recv+"_"+k.name] = nil
			continue
		}
		names = append(names, k)
		i, s := lz.literals(fd)
		lits[k.recv+"_"+k.name] = i
		strl[k.recv+"_"+k.name] = s
		nm := strings.TrimPrefix(k.recv+"_"+k.name, "_")
		w("def L_%s : List Int := %s", nm, leanInts(i))
		if len(s) > 0 {
			w("def S_%s : List String := %s", nm, leanStrs(s))
		}
	}
	get := func(key string, idx int) string {
		l := lits[key]
		if idx < len(l) {
			return l[idx]
		}
		return "0"
	}
	gets := func(key string, idx int) string {
		l := strl[key]
		if idx < len(l) {
			return q(l[idx])
		}
		return q("")
	}
	cst := func(p *pkgInfo, name string) string {
		if v, ok := p.consts[name]; ok && v.Kind() == constant.Int {
			return v.ExactString()
		}
		return "0"
	}
	w("")
	w("/-! ### named constants used by the model -/")
	w("def prime : Nat := %s", cst(lz, "prime"))
	w("def noTrailingLiterals : Nat := %s", cst(lz, "NoTrailingLiterals"))
	w("def maxUint32 : Int := %s", cst(lz, "maxUint32"))
	w("def maxInt32 : Int := 2147483647")
	// the constants of the functions the interpreter covers are derived from their
	// behaviour (facts_sem.go); the position is only the fallback
	sem := deriveSemanticFacts(lz, lits)
	for _, nc := range pbufConsts {
		w("%s", sem.line(nc, get(nc.key, nc.idx)))
	}
	w("def chunkSize : Nat := %s  -- positional: ParserBuffer.ReadFrom is neither translated nor interpreted (io.Reader)", get("ParserBuffer_ReadFrom", 0))
	for _, nc := range semConsts {
		pos := get(nc.key, nc.idx)
		if nc.str {
			pos = gets(nc.key, nc.idx)
		}
		w("%s", sem.line(nc, pos))
	}
	w("def suffixSizeThreshold : Int := %s", func() string {
		fd := sfx.funcs()[fnKey{"", "Sort"}]
		if fd == nil {
			return "0"
		}
		i, _ := sfx.literals(fd)
		if len(i) > 0 {
			return i[0]
		}
		return "0"
	}())
	w("")
	if len(sem.extra) > 0 {
		w("")
		w("/-! ### further facts derived by running the functions -/")
		for _, l := range sem.extra {
			w("%s", l)
		}
	}
	w("")
	w("/-- the literal lists that are still used BY POSITION have the shape the positions assume")
	w("    (the functions the translator does not cover, and positional fallbacks), and the")
	w("    derived constants are consistent with each other -/")
	w("def shapeOK : Bool :=")
	for _, g := range sem.guards() {
		w("  %s &&", g)
	}
	for _, g := range sem.pbufGuards() {
		w("  %s &&", g)
	}
	w("  defBucketInputLen == defInputLen%s",
		func() string {
			out := ""
			for _, c := range sem.extraChk {
				out += " &&\n  " + c
			}
			return out
		}())
	w("")
	w("/-! ### configuration schema -/")
	st := lz.structs()
	cfgTypes := []string{"HPConfig", "BHPConfig", "DHPConfig", "BDHPConfig", "BUPConfig", "GSAPConfig", "OSAPConfig"}
	w("/-- configuration struct ↦ ordered fields (name, Go type) -/")
	w("def cfgStructs : List (String × List (String × String)) := [")
	for i, t := range cfgTypes {
		var fs []string
		for _, f := range st[t] {
			fs = append(fs, fmt.Sprintf("(%s, %s)", q(f.name), q(f.typ)))
		}
		comma := ","
		if i == len(cfgTypes)-1 {
			comma = ""
		}
		w("  (%s, [%s])%s", q(t), strings.Join(fs, ", "), comma)
	}
	w("]")
	w("/-- parserConfigUnion: ordered fields (name, Go type, json tag) -/")
	{
		var fs []string
		for _, f := range st["parserConfigUnion"] {
			fs = append(fs, fmt.Sprintf("(%s, %s, %s)", q(f.name), q(f.typ), q(f.tag)))
		}
		w("def unionStruct : List (String × String × String) := [%s]", strings.Join(fs, ", "))
	}
	// type tags: string literal passed to marshalJSON / unmarshalJSON per config type
	w("/-- configuration struct ↦ (tag passed to marshalJSON, tag passed to unmarshalJSON) -/")
	{
		var rows []string
		for _, t := range cfgTypes {
			tagOf := func(method, callee string) string {
				fd := fns[fnKey{t, method}]
				res := ""
				if fd != nil && fd.Body != nil {
					ast.Inspect(fd.Body, func(n ast.Node) bool {
						if c, ok := n.(*ast.CallExpr); ok {
							if id, ok := c.Fun.(*ast.Ident); ok && id.Name == callee {
								for _, a := range c.Args {
									if bl, ok := a.(*ast.BasicLit); ok && bl.Kind == token.STRING {
										res, _ = strconv.Unquote(bl.Value)
									}
								}
							}
						}
						return true
					})
				}
				return res
			}
			rows = append(rows, fmt.Sprintf("(%s, %s, %s)", q(t), q(tagOf("MarshalJSON", "marshalJSON")), q(tagOf("UnmarshalJSON", "unmarshalJSON"))))
		}
		w("def typeTags : List (String × String × String) := [%s]", strings.Join(rows, ", "))
	}
	// ParseJSON switch: case "X": var v TConfig
	{
		var rows []string
		if fd := fns[fnKey{"", "ParseJSON"}]; fd != nil {
			ast.Inspect(fd.Body, func(n ast.Node) bool {
				cc, ok := n.(*ast.CaseClause)
				if !ok || len(cc.List) != 1 {
					return true
				}
				bl, ok := cc.List[0].(*ast.BasicLit)
				if !ok {
					return true
				}
				tag, _ := strconv.Unquote(bl.Value)
				typ := ""
				for _, s := range cc.Body {
					if ds, ok := s.(*ast.DeclStmt); ok {
						if gd, ok := ds.Decl.(*ast.GenDecl); ok && gd.Tok == token.VAR {
							typ = exprStr(gd.Specs[0].(*ast.ValueSpec).Type)
						}
					}
				}
				rows = append(rows, fmt.Sprintf("(%s, %s)", q(tag), q(typ)))
				return true
			})
		}
		w("/-- `switch v.Type` of ParseJSON: tag ↦ configuration struct -/")
		w("def parseJSONSwitch : List (String × String) := [%s]", strings.Join(rows, ", "))
	}
	w("")
	w("/-! ### shared state: package-level variables, init functions, imports -/")
	for _, pk := range []struct {
		name string
		p    *pkgInfo
	}{{"lz", lz}, {"suffix", sfx}} {
		var vars, imps []string
		hasInit := false
		var fnames []string
		for n := range pk.p.files {
			fnames = append(fnames, n)
		}
		sort.Strings(fnames)
		impSet := map[string]bool{}
		for _, n := range fnames {
			f := pk.p.files[n]
			for _, im := range f.Imports {
				s, _ := strconv.Unquote(im.Path.Value)
				impSet[s] = true
			}
			for _, d := range f.Decls {
				switch x := d.(type) {
				case *ast.FuncDecl:
					if x.Recv == nil && x.Name.Name == "init" {
						hasInit = true
					}
				case *ast.GenDecl:
					if x.Tok != token.VAR {
						continue
					}
					for _, s := range x.Specs {
						vs := s.(*ast.ValueSpec)
						for i, nm := range vs.Names {
							kind := "zero"
							if i < len(vs.Values) {
								kind = "other"
								if c, ok := vs.Values[i].(*ast.CallExpr); ok {
									kind = "call:" + exprStr(c.Fun)
								}
							}
							vars = append(vars, fmt.Sprintf("(%s, %s)", q(nm.Name), q(kind)))
						}
					}
				}
			}
		}
		for s := range impSet {
			imps = append(imps, q(s))
		}
		sort.Strings(imps)
		w("def %sPackageVars : List (String × String) := [%s]", pk.name, strings.Join(vars, ", "))
		w("def %sImports : List String := [%s]", pk.name, strings.Join(imps, ", "))
		w("def %sHasInit : Bool := %v", pk.name, hasInit)
	}
	w("")
	w("/-! ### which dictionary types declare Reset / Shrink themselves -/")
	{
		var rows []string
		for _, t := range []string{"hashDictionary", "doubleHashDictionary", "bucketDictionary", "gsap", "optSuffixArrayParser"} {
			_, r := fns[fnKey{t, "Reset"}]
			_, s := fns[fnKey{t, "Shrink"}]
			rows = append(rows, fmt.Sprintf("(%s, %v, %v)", q(t), r, s))
		}
		w("def dictMethods : List (String × Bool × Bool) := [%s]", strings.Join(rows, ", "))
	}
	w("")
	w("end LZ.Facts")
	if *out == "" {
		fmt.Print(sb.String())
		return
	}
	if err := os.WriteFile(*out, []byte(sb.String()), 0o644); err != nil {
		fatal(err)
	}
}
