// interp.go — a small interpreter over go/ast for the configuration functions
// of the repository (SetDefaults / Verify and everything they call, including
// the reflective field-copy helpers).  It is used to derive the named constants
// of Facts.lean from the BEHAVIOUR of the functions instead of the position of
// their literals (facts_sem.go).
//
// Conventions (the same as the Go → Lean translator, code.go):
//   - int / int64 are unbounded integers (overflow is out of scope),
//   - uint8 / uint32 / uint64 / uint wrap around,
//   - error values are nil or "some error",
//   - structs have value semantics, pointers to structs alias the variable.
//
// The interpreter is deliberately more liberal than the translator (nested
// blocks, for loops, division, calls of arbitrary package functions, named
// results, the part of package reflect that the helpers use): a harmless
// rewrite that leaves the translator's subset should still leave the constants
// derivable.  Anything it does not understand raises an *interpError; the
// caller then falls back to the positional value.
package main

import (
	"fmt"
	"go/ast"
	"go/constant"
	"go/token"
	"math/big"
	"path/filepath"
	"strconv"
	"strings"
)

// ---------------------------------------------------------------- values

type ikind int

const (
	iUntyped ikind = iota // untyped integer constant
	iInt                  // int, int64: unbounded
	iU8
	iU32
	iU64
)

func (k ikind) bits() uint {
	switch k {
	case iU8:
		return 8
	case iU32:
		return 32
	case iU64:
		return 64
	}
	return 0
}

type value interface{}

type intV struct {
	k ikind
	v *big.Int
}

type boolV bool
type strV string
type nilV struct{}
type errV struct{ msg string } // used by pointer: identity is error identity

// structV is a struct OBJECT; variables and fields of struct type hold a
// *structV of their own, copies are made by copyVal.
type structV struct {
	typ   string
	names []string
	f     map[string]value
}

type ptrV struct{ s *structV }

// sliceV is a Go slice: a window [off, off+n) of a shared backing array with capacity c
// (so aliasing between slices of the same array is modelled); a == nil is the nil slice.
type sliceV struct {
	a         *[]value
	off, n, c int
	elem      string // element type (for make / zero values), "" if unknown
}

func (s *sliceV) at(i int) value     { return (*s.a)[s.off+i] }
func (s *sliceV) set(i int, v value) { (*s.a)[s.off+i] = v }
func (s *sliceV) elems() []value {
	if s.a == nil {
		return nil
	}
	return (*s.a)[s.off : s.off+s.n]
}

func newSlice(vals []value, elem string) *sliceV {
	a := append([]value{}, vals...)
	return &sliceV{a: &a, n: len(a), c: len(a), elem: elem}
}

type tupleV []value

type reflValueV struct {
	s     *structV
	isPtr bool
}
type reflFieldV struct {
	s    *structV
	name string
}
type reflTypeV struct{ typ string }

type interpError struct{ msg string }

func (e *interpError) Error() string { return e.msg }

func mkInt(k ikind, x int64) intV { return intV{k, big.NewInt(x)} }

func wrap(k ikind, v *big.Int) intV {
	if b := k.bits(); b > 0 {
		m := new(big.Int).Lsh(big.NewInt(1), b)
		r := new(big.Int).Mod(v, m) // Euclidean: 0 <= r < m
		return intV{k, r}
	}
	return intV{k, v}
}

func copyVal(v value) value {
	if s, ok := v.(*structV); ok {
		c := &structV{typ: s.typ, names: s.names, f: make(map[string]value, len(s.f))}
		for k, x := range s.f {
			c.f[k] = copyVal(x)
		}
		return c
	}
	return v
}

// ---------------------------------------------------------------- interpreter state

type interp struct {
	p          *pkgInfo
	fns        map[fnKey]*ast.FuncDecl
	structs    map[string][]field
	constTypes map[string]ast.Expr
	pkgVars    map[string]ast.Expr
	pkgVarVal  map[string]value
	steps      int
	budget     int
	depth      int
}

type cell struct{ v value }

type frame struct {
	scopes  []map[string]*cell
	consts  []map[string]constant.Value
	results []string // named results
	ret     value
}

type ctl int

const (
	ctlNone ctl = iota
	ctlReturn
	ctlBreak
	ctlContinue
)

func newInterp(p *pkgInfo) *interp {
	in := &interp{p: p, fns: p.funcs(), structs: p.structs(), constTypes: map[string]ast.Expr{},
		pkgVars: map[string]ast.Expr{}, pkgVarVal: map[string]value{}, budget: 200000}
	for _, f := range p.files {
		for _, d := range f.Decls {
			gd, ok := d.(*ast.GenDecl)
			if !ok {
				continue
			}
			switch gd.Tok {
			case token.CONST:
				var lastT ast.Expr
				for _, s := range gd.Specs {
					vs := s.(*ast.ValueSpec)
					if len(vs.Values) > 0 {
						lastT = vs.Type
					}
					for _, n := range vs.Names {
						in.constTypes[n.Name] = lastT
					}
				}
			case token.VAR:
				for _, s := range gd.Specs {
					vs := s.(*ast.ValueSpec)
					for i, n := range vs.Names {
						if i < len(vs.Values) {
							in.pkgVars[n.Name] = vs.Values[i]
						}
					}
				}
			}
		}
	}
	return in
}

func (in *interp) fail(n ast.Node, format string, a ...interface{}) {
	where := "?"
	if n != nil {
		p := in.p.fset.Position(n.Pos())
		where = fmt.Sprintf("%s:%d", filepath.Base(p.Filename), p.Line)
	}
	panic(&interpError{fmt.Sprintf("%s: %s", where, fmt.Sprintf(format, a...))})
}

// run calls a function or method and converts interpreter failures into errors.
func (in *interp) run(k fnKey, recv value, args ...value) (res value, err error) {
	defer func() {
		if r := recover(); r != nil {
			if ie, ok := r.(*interpError); ok {
				res, err = nil, fmt.Errorf("%s: %s", fnName(k), ie.msg)
				return
			}
			panic(r)
		}
	}()
	fd := in.fns[k]
	if fd == nil {
		return nil, fmt.Errorf("function %s not found", fnName(k))
	}
	in.steps, in.depth = 0, 0
	return in.callDecl(fd, recv, args, fd), nil
}

// ---------------------------------------------------------------- types and zero values

func (in *interp) kindOfName(name string) (ikind, bool) {
	switch name {
	case "int", "int64":
		return iInt, true
	case "uint8", "byte":
		return iU8, true
	case "uint32":
		return iU32, true
	case "uint64", "uint":
		return iU64, true
	}
	return 0, false
}

func (in *interp) zeroOfStr(t string, at ast.Node) value {
	if k, ok := in.kindOfName(t); ok {
		return mkInt(k, 0)
	}
	switch {
	case t == "bool":
		return boolV(false)
	case t == "string":
		return strV("")
	case t == "error" || t == "ParserConfig" || t == "func" || strings.HasPrefix(t, "*"):
		return nilV{}
	case strings.HasPrefix(t, "[]"):
		return &sliceV{elem: t[2:]}
	}
	if _, ok := in.structs[t]; ok {
		return in.newStruct(t, at)
	}
	in.fail(at, "zero value of type %s", t)
	return nil
}

func (in *interp) newStruct(t string, at ast.Node) *structV {
	s := &structV{typ: t, f: map[string]value{}}
	for _, f := range in.structs[t] {
		name := f.name
		if name == "" { // embedded
			name = strings.TrimPrefix(f.typ, "*")
		}
		s.names = append(s.names, name)
		s.f[name] = in.zeroOfStr(f.typ, at)
	}
	return s
}

func (in *interp) zeroOf(t ast.Expr, at ast.Node) value {
	return in.zeroOfStr(exprStr(t), at)
}

// ---------------------------------------------------------------- scopes

func (fr *frame) push() {
	fr.scopes = append(fr.scopes, map[string]*cell{})
	fr.consts = append(fr.consts, map[string]constant.Value{})
}
func (fr *frame) pop() {
	fr.scopes = fr.scopes[:len(fr.scopes)-1]
	fr.consts = fr.consts[:len(fr.consts)-1]
}

func (fr *frame) lookup(name string) *cell {
	for i := len(fr.scopes) - 1; i >= 0; i-- {
		if c, ok := fr.scopes[i][name]; ok {
			return c
		}
		if _, ok := fr.consts[i][name]; ok {
			return nil // shadowed by a local constant
		}
	}
	return nil
}

func (fr *frame) lookupConst(name string) (constant.Value, bool) {
	for i := len(fr.scopes) - 1; i >= 0; i-- {
		if _, ok := fr.scopes[i][name]; ok {
			return nil, false
		}
		if v, ok := fr.consts[i][name]; ok {
			return v, true
		}
	}
	return nil, false
}

func (fr *frame) declare(name string, v value) {
	if name == "_" {
		return
	}
	fr.scopes[len(fr.scopes)-1][name] = &cell{v}
}

// ---------------------------------------------------------------- calls

func (in *interp) callDecl(fd *ast.FuncDecl, recv value, args []value, at ast.Node) value {
	if fd.Body == nil {
		in.fail(at, "function %s without body", fd.Name.Name)
	}
	if fd.Type.TypeParams != nil {
		in.fail(at, "generic function %s", fd.Name.Name)
	}
	in.depth++
	if in.depth > 64 {
		in.fail(at, "call depth exceeded")
	}
	defer func() { in.depth-- }()
	fr := &frame{}
	fr.push()
	if fd.Recv != nil && len(fd.Recv.List) == 1 {
		r := fd.Recv.List[0]
		_, ptr := r.Type.(*ast.StarExpr)
		var rv value
		switch x := recv.(type) {
		case *structV:
			if ptr {
				rv = ptrV{x}
			} else {
				rv = copyVal(x)
			}
		case ptrV:
			if ptr {
				rv = x
			} else {
				rv = copyVal(x.s)
			}
		default:
			in.fail(at, "receiver of %s is not a struct", fd.Name.Name)
		}
		if len(r.Names) == 1 {
			fr.declare(r.Names[0].Name, rv)
		}
	}
	i := 0
	for _, p := range fd.Type.Params.List {
		if _, ok := p.Type.(*ast.Ellipsis); ok {
			in.fail(at, "variadic function %s", fd.Name.Name)
		}
		n := len(p.Names)
		if n == 0 {
			i++
			continue
		}
		for _, nm := range p.Names {
			if i >= len(args) {
				in.fail(at, "too few arguments in call of %s", fd.Name.Name)
			}
			fr.declare(nm.Name, in.convertParam(p.Type, copyVal(args[i])))
			i++
		}
	}
	if i != len(args) {
		in.fail(at, "wrong number of arguments in call of %s", fd.Name.Name)
	}
	nres := 0
	if fd.Type.Results != nil {
		for _, r := range fd.Type.Results.List {
			if len(r.Names) == 0 {
				nres++
			}
			for _, nm := range r.Names {
				nres++
				fr.declare(nm.Name, in.zeroOf(r.Type, at))
				fr.results = append(fr.results, nm.Name)
			}
		}
	}
	fr.push()
	c := in.execList(fr, fd.Body.List)
	if c != ctlReturn && nres > 0 {
		in.fail(fd, "control reaches the end of %s", fd.Name.Name)
	}
	if c != ctlReturn || (fr.ret == nil && len(fr.results) > 0) {
		// bare return / fall off the end
		if len(fr.results) == 1 {
			return copyVal(fr.scopes[0][fr.results[0]].v)
		} else if len(fr.results) > 1 {
			var t tupleV
			for _, n := range fr.results {
				t = append(t, copyVal(fr.scopes[0][n].v))
			}
			return t
		}
		return nil
	}
	// convert untyped constants to the declared result types
	if fd.Type.Results != nil && fr.ret != nil {
		var types []ast.Expr
		for _, r := range fd.Type.Results.List {
			n := len(r.Names)
			if n == 0 {
				n = 1
			}
			for j := 0; j < n; j++ {
				types = append(types, r.Type)
			}
		}
		if t, ok := fr.ret.(tupleV); ok {
			for j := range t {
				if j < len(types) {
					t[j] = in.convertParam(types[j], t[j])
				}
			}
		} else if len(types) == 1 {
			fr.ret = in.convertParam(types[0], fr.ret)
		}
	}
	return fr.ret
}

// convertParam gives an untyped constant the declared integer type.
func (in *interp) convertParam(t ast.Expr, v value) value {
	if iv, ok := v.(intV); ok && iv.k == iUntyped {
		if id, ok := t.(*ast.Ident); ok {
			if k, ok := in.kindOfName(id.Name); ok {
				return wrap(k, iv.v)
			}
		}
	}
	return v
}

func (in *interp) methodOf(typ, name string) (*ast.FuncDecl, []string) {
	if fd := in.fns[fnKey{typ, name}]; fd != nil {
		return fd, nil
	}
	for _, f := range in.structs[typ] {
		if f.name == "" {
			et := strings.TrimPrefix(f.typ, "*")
			if fd, path := in.methodOf(et, name); fd != nil {
				return fd, append([]string{et}, path...)
			}
		}
	}
	return nil, nil
}

func (in *interp) isPkg(fr *frame, e ast.Expr) (string, bool) {
	id, ok := e.(*ast.Ident)
	if !ok || fr.lookup(id.Name) != nil {
		return "", false
	}
	switch id.Name {
	case "reflect", "fmt", "errors", "bits", "math", "json", "strings", "sort", "slices", "io":
		if _, isConst := in.p.consts[id.Name]; !isConst {
			return id.Name, true
		}
	}
	return "", false
}

func (in *interp) evalArgs(fr *frame, args []ast.Expr) []value {
	if len(args) == 1 {
		if v, ok := in.eval(fr, args[0]).(tupleV); ok {
			return v
		}
	}
	out := make([]value, len(args))
	for i, a := range args {
		out[i] = in.eval1(fr, a)
	}
	return out
}

func (in *interp) call(fr *frame, x *ast.CallExpr) value {
	switch f := x.Fun.(type) {
	case *ast.ParenExpr:
		return in.call(fr, &ast.CallExpr{Fun: f.X, Lparen: x.Lparen, Args: x.Args, Rparen: x.Rparen})
	case *ast.Ident:
		if fr.lookup(f.Name) != nil {
			in.fail(x, "call of the function value %s", f.Name)
		}
		if k, ok := in.kindOfName(f.Name); ok && len(x.Args) == 1 {
			v, ok := in.eval1(fr, x.Args[0]).(intV)
			if !ok {
				in.fail(x, "conversion %s of a non-integer", f.Name)
			}
			return wrap(k, v.v)
		}
		if fd := in.fns[fnKey{"", f.Name}]; fd != nil {
			return in.callDecl(fd, nil, in.evalArgs(fr, x.Args), x)
		}
		switch f.Name {
		case "len":
			switch v := in.eval1(fr, x.Args[0]).(type) {
			case *sliceV:
				return mkInt(iInt, int64(v.n))
			case strV:
				return mkInt(iInt, int64(len(v)))
			}
			in.fail(x, "len of a value that is neither slice nor string")
		case "cap":
			if v, ok := in.eval1(fr, x.Args[0]).(*sliceV); ok {
				return mkInt(iInt, int64(v.c))
			}
			in.fail(x, "cap of a value that is not a slice")
		case "make":
			return in.makeSlice(fr, x)
		case "copy":
			if len(x.Args) == 2 {
				dst, ok1 := in.eval1(fr, x.Args[0]).(*sliceV)
				src, ok2 := in.eval1(fr, x.Args[1]).(*sliceV)
				if !ok1 || !ok2 {
					in.fail(x, "copy of values that are not slices")
				}
				k := dst.n
				if src.n < k {
					k = src.n
				}
				tmp := append([]value{}, src.elems()[:k]...) // memmove semantics
				for i, v := range tmp {
					dst.set(i, v)
				}
				return mkInt(iInt, int64(k))
			}
		case "append":
			return in.appendSlice(fr, x)
		case "min", "max":
			if len(x.Args) == 2 {
				a, b := in.int1(fr, x.Args[0]), in.int1(fr, x.Args[1])
				k := a.k
				if k == iUntyped {
					k = b.k
				}
				if (a.v.Cmp(b.v) <= 0) == (f.Name == "min") {
					return intV{k, a.v}
				}
				return intV{k, b.v}
			}
		case "panic":
			in.fail(x, "panic called")
		}
		in.fail(x, "call of %s", f.Name)
	case *ast.SelectorExpr:
		if pkg, ok := in.isPkg(fr, f.X); ok {
			return in.pkgCall(fr, pkg, f.Sel.Name, x)
		}
		recv := in.eval1(fr, f.X)
		switch r := recv.(type) {
		case reflValueV, reflFieldV, reflTypeV:
			return in.reflMethod(fr, recv, f.Sel.Name, x)
		case *structV:
			return in.callMethod(fr, r, f.Sel.Name, x)
		case ptrV:
			return in.callMethod(fr, r.s, f.Sel.Name, x)
		}
		in.fail(x, "method call %s on a value that is not a struct", f.Sel.Name)
	}
	in.fail(x, "call expression %T", x.Fun)
	return nil
}

func (in *interp) callMethod(fr *frame, s *structV, name string, x *ast.CallExpr) value {
	fd, path := in.methodOf(s.typ, name)
	if fd == nil {
		in.fail(x, "type %s has no method %s", s.typ, name)
	}
	for _, e := range path {
		switch t := s.f[e].(type) {
		case *structV:
			s = t
		case ptrV:
			s = t.s
		default:
			in.fail(x, "embedded field %s is not a struct", e)
		}
	}
	return in.callDecl(fd, s, in.evalArgs(fr, x.Args), x)
}

func (in *interp) pkgCall(fr *frame, pkg, name string, x *ast.CallExpr) value {
	q := pkg + "." + name
	switch q {
	case "fmt.Errorf", "errors.New":
		return &errV{q}
	case "reflect.ValueOf":
		switch v := in.eval1(fr, x.Args[0]).(type) {
		case ptrV:
			return reflValueV{v.s, true}
		case *structV:
			return reflValueV{copyVal(v).(*structV), false}
		}
		in.fail(x, "reflect.ValueOf of a value that is neither a struct nor a pointer to one")
	case "reflect.Indirect":
		if v, ok := in.eval1(fr, x.Args[0]).(reflValueV); ok {
			return reflValueV{v.s, false}
		}
		in.fail(x, "reflect.Indirect of a non-Value")
	case "bits.Len32", "bits.Len64", "bits.Len":
		return mkInt(iInt, int64(in.int1(fr, x.Args[0]).v.BitLen()))
	case "bits.TrailingZeros32", "bits.TrailingZeros64":
		v := in.int1(fr, x.Args[0])
		w := int64(32)
		if name == "TrailingZeros64" {
			w = 64
		}
		if v.v.Sign() == 0 {
			return mkInt(iInt, w)
		}
		return mkInt(iInt, int64(v.v.TrailingZeroBits()))
	}
	in.fail(x, "call of %s", q)
	return nil
}

func (in *interp) reflMethod(fr *frame, recv value, name string, x *ast.CallExpr) value {
	str := func(i int) string {
		if i >= len(x.Args) {
			in.fail(x, "reflect method %s: missing argument", name)
		}
		s, ok := in.eval1(fr, x.Args[i]).(strV)
		if !ok {
			in.fail(x, "reflect method %s: argument is not a string", name)
		}
		return string(s)
	}
	switch r := recv.(type) {
	case reflValueV:
		switch name {
		case "FieldByName":
			if r.isPtr {
				in.fail(x, "FieldByName on a pointer Value (reflect panics)")
			}
			return reflFieldV{r.s, str(0)}
		case "Type":
			t := r.s.typ
			if r.isPtr {
				t = "*" + t
			}
			return reflTypeV{t}
		case "Elem":
			return reflValueV{r.s, false}
		case "NumField":
			return mkInt(iInt, int64(len(r.s.names)))
		}
	case reflFieldV:
		fv, ok := r.s.f[r.name]
		switch name {
		case "IsValid":
			return boolV(ok)
		case "Int":
			iv, isInt := fv.(intV)
			if !ok || !isInt || iv.k != iInt {
				in.fail(x, "reflect: Int of field %s.%s, which is not a signed integer field (reflect panics)", r.s.typ, r.name)
			}
			return intV{iInt, iv.v}
		case "SetInt":
			iv, isInt := fv.(intV)
			if !ok || !isInt || iv.k != iInt {
				in.fail(x, "reflect: SetInt of field %s.%s, which is not a signed integer field (reflect panics)", r.s.typ, r.name)
			}
			r.s.f[r.name] = intV{iInt, in.int1(fr, x.Args[0]).v}
			return nil
		}
	case reflTypeV:
		switch name {
		case "FieldByName":
			if strings.HasPrefix(r.typ, "*") {
				in.fail(x, "Type.FieldByName on a pointer type (reflect panics)")
			}
			n := str(0)
			ok := false
			for _, f := range in.structs[r.typ] {
				if f.name == n {
					ok = true
				}
			}
			return tupleV{nilV{}, boolV(ok)}
		case "NumField":
			return mkInt(iInt, int64(len(in.structs[r.typ])))
		}
	}
	in.fail(x, "reflect method %s", name)
	return nil
}

// ---------------------------------------------------------------- expressions

func (in *interp) eval1(fr *frame, e ast.Expr) value {
	v := in.eval(fr, e)
	if t, ok := v.(tupleV); ok {
		if len(t) == 1 {
			return t[0]
		}
		in.fail(e, "multi-valued expression in single-value context")
	}
	if v == nil {
		in.fail(e, "expression has no value")
	}
	return v
}

func (in *interp) int1(fr *frame, e ast.Expr) intV {
	v, ok := in.eval1(fr, e).(intV)
	if !ok {
		in.fail(e, "integer expected")
	}
	return v
}

func (in *interp) constVal(name string, v constant.Value, at ast.Node) value {
	switch v.Kind() {
	case constant.Int:
		b, ok := new(big.Int).SetString(v.ExactString(), 10)
		if !ok {
			in.fail(at, "constant %s", name)
		}
		k := iUntyped
		if te, ok := in.constTypes[name]; ok && te != nil {
			if id, ok := te.(*ast.Ident); ok {
				if kk, ok := in.kindOfName(id.Name); ok {
					k = kk
				}
			}
		}
		return intV{k, b}
	case constant.String:
		return strV(constant.StringVal(v))
	case constant.Bool:
		return boolV(constant.BoolVal(v))
	}
	in.fail(at, "constant %s of unsupported kind", name)
	return nil
}

func (in *interp) eval(fr *frame, e ast.Expr) value {
	switch x := e.(type) {
	case *ast.BasicLit:
		switch x.Kind {
		case token.INT:
			b, ok := new(big.Int).SetString(strings.ReplaceAll(x.Value, "_", ""), 0)
			if !ok {
				in.fail(e, "integer literal %s", x.Value)
			}
			return intV{iUntyped, b}
		case token.STRING:
			s, err := strconv.Unquote(x.Value)
			if err != nil {
				in.fail(e, "string literal")
			}
			return strV(s)
		case token.CHAR:
			s, err := strconv.Unquote(x.Value)
			if err != nil || len([]rune(s)) != 1 {
				in.fail(e, "rune literal")
			}
			return intV{iUntyped, big.NewInt(int64([]rune(s)[0]))}
		}
		in.fail(e, "literal %s", x.Value)
	case *ast.ParenExpr:
		return in.eval(fr, x.X)
	case *ast.Ident:
		if c := fr.lookup(x.Name); c != nil {
			return c.v
		}
		if v, ok := fr.lookupConst(x.Name); ok {
			return in.constVal("", v, e)
		}
		switch x.Name {
		case "nil":
			return nilV{}
		case "true":
			return boolV(true)
		case "false":
			return boolV(false)
		}
		if v, ok := in.p.consts[x.Name]; ok {
			return in.constVal(x.Name, v, e)
		}
		if v, ok := in.pkgVarVal[x.Name]; ok {
			return v
		}
		if init, ok := in.pkgVars[x.Name]; ok {
			g := &frame{}
			g.push()
			v := in.eval1(g, init)
			in.pkgVarVal[x.Name] = v
			return v
		}
		in.fail(e, "identifier %s", x.Name)
	case *ast.SelectorExpr:
		if pkg, ok := in.isPkg(fr, x.X); ok {
			if s, ok := stdConsts[pkg+"."+x.Sel.Name]; ok {
				b, _ := new(big.Int).SetString(s, 10)
				return intV{iUntyped, b}
			}
			in.fail(e, "%s.%s", pkg, x.Sel.Name)
		}
		s := in.structOf(fr, x.X)
		return in.field(s, x.Sel.Name, e)
	case *ast.StarExpr:
		if p, ok := in.eval1(fr, x.X).(ptrV); ok {
			return p.s
		}
		in.fail(e, "dereference of a non-pointer (or nil)")
	case *ast.UnaryExpr:
		switch x.Op {
		case token.AND:
			switch t := x.X.(type) {
			case *ast.CompositeLit:
				if s, ok := in.eval1(fr, t).(*structV); ok {
					return ptrV{s}
				}
			default:
				if s, ok := in.eval1(fr, x.X).(*structV); ok {
					return ptrV{s}
				}
			}
			in.fail(e, "address of a value that is not a struct")
		case token.NOT:
			b, ok := in.eval1(fr, x.X).(boolV)
			if !ok {
				in.fail(e, "! of a non-boolean")
			}
			return !b
		case token.SUB:
			v := in.int1(fr, x.X)
			return wrap(v.k, new(big.Int).Neg(v.v))
		case token.ADD:
			return in.int1(fr, x.X)
		case token.XOR:
			v := in.int1(fr, x.X)
			return wrap(v.k, new(big.Int).Not(v.v))
		}
		in.fail(e, "unary operator %s", x.Op)
	case *ast.BinaryExpr:
		return in.binary(fr, x)
	case *ast.CallExpr:
		// conversion to a struct type, T(x), is not supported; everything else is a call
		return in.call(fr, x)
	case *ast.CompositeLit:
		return in.composite(fr, x, nil)
	case *ast.IndexExpr:
		sl, ok := in.eval1(fr, x.X).(*sliceV)
		if !ok {
			in.fail(e, "index of a non-slice")
		}
		i := in.int1(fr, x.Index)
		if !i.v.IsInt64() || i.v.Int64() < 0 || i.v.Int64() >= int64(sl.n) {
			in.fail(e, "index out of range (Go panics)")
		}
		return sl.at(int(i.v.Int64()))
	case *ast.SliceExpr:
		sl, ok := in.eval1(fr, x.X).(*sliceV)
		if !ok {
			in.fail(e, "slice expression on a non-slice")
		}
		if x.Slice3 {
			in.fail(e, "3-index slice expression")
		}
		lo, hi := 0, sl.n
		bound := func(b ast.Expr) int {
			v := in.int1(fr, b)
			if !v.v.IsInt64() || v.v.Int64() < 0 || v.v.Int64() > int64(sl.c) {
				in.fail(e, "slice bounds out of range (Go panics)")
			}
			return int(v.v.Int64())
		}
		if x.Low != nil {
			lo = bound(x.Low)
		}
		if x.High != nil {
			hi = bound(x.High)
		}
		if lo > hi {
			in.fail(e, "slice bounds out of range (Go panics)")
		}
		return &sliceV{a: sl.a, off: sl.off + lo, n: hi - lo, c: sl.c - lo, elem: sl.elem}
	}
	in.fail(e, "expression %T", e)
	return nil
}

func (in *interp) structOf(fr *frame, e ast.Expr) *structV {
	switch v := in.eval1(fr, e).(type) {
	case *structV:
		return v
	case ptrV:
		return v.s
	case nilV:
		in.fail(e, "nil pointer dereference")
	}
	in.fail(e, "selector on a value that is not a struct")
	return nil
}

func (in *interp) field(s *structV, name string, at ast.Node) value {
	if v, ok := s.f[name]; ok {
		return v
	}
	for _, f := range in.structs[s.typ] {
		if f.name == "" {
			switch t := s.f[strings.TrimPrefix(f.typ, "*")].(type) {
			case *structV:
				if v := in.fieldOpt(t, name); v != nil {
					return v
				}
			case ptrV:
				if v := in.fieldOpt(t.s, name); v != nil {
					return v
				}
			}
		}
	}
	in.fail(at, "struct %s has no field %s", s.typ, name)
	return nil
}

func (in *interp) fieldOpt(s *structV, name string) (v value) {
	defer func() {
		if r := recover(); r != nil {
			if _, ok := r.(*interpError); ok {
				v = nil
				return
			}
			panic(r)
		}
	}()
	return in.field(s, name, nil)
}

func (in *interp) composite(fr *frame, x *ast.CompositeLit, elided ast.Expr) value {
	t := x.Type
	if t == nil {
		t = elided
	}
	if at, ok := t.(*ast.ArrayType); ok && at.Len == nil {
		var vals []value
		for _, el := range x.Elts {
			if _, ok := el.(*ast.KeyValueExpr); ok {
				in.fail(x, "keyed slice literal")
			}
			if cl, ok := el.(*ast.CompositeLit); ok && cl.Type == nil {
				vals = append(vals, in.composite(fr, cl, at.Elt))
			} else {
				vals = append(vals, copyVal(in.convertParam(at.Elt, in.eval1(fr, el))))
			}
		}
		return newSlice(vals, exprStr(at.Elt))
	}
	id, ok := t.(*ast.Ident)
	if !ok || in.structs[id.Name] == nil {
		in.fail(x, "composite literal of a type that is not a package struct")
	}
	s := in.newStruct(id.Name, x)
	fields := in.structs[id.Name]
	for i, el := range x.Elts {
		var name string
		var ve ast.Expr
		if kv, ok := el.(*ast.KeyValueExpr); ok {
			k, ok := kv.Key.(*ast.Ident)
			if !ok {
				in.fail(el, "composite literal key")
			}
			name, ve = k.Name, kv.Value
		} else {
			if i >= len(fields) {
				in.fail(el, "too many values in struct literal")
			}
			name, ve = s.names[i], el
		}
		old, ok := s.f[name]
		if !ok {
			in.fail(el, "struct %s has no field %s", id.Name, name)
		}
		var v value
		if cl, ok := ve.(*ast.CompositeLit); ok && cl.Type == nil {
			in.fail(el, "composite literal with elided type")
		} else {
			v = copyVal(in.eval1(fr, ve))
		}
		if iv, ok := v.(intV); ok && iv.k == iUntyped {
			if ov, ok := old.(intV); ok {
				v = wrap(ov.k, iv.v)
			}
		}
		s.f[name] = v
	}
	return s
}

func cmpOp(op token.Token, c int) bool {
	switch op {
	case token.EQL:
		return c == 0
	case token.NEQ:
		return c != 0
	case token.LSS:
		return c < 0
	case token.LEQ:
		return c <= 0
	case token.GTR:
		return c > 0
	case token.GEQ:
		return c >= 0
	}
	return false
}

func (in *interp) valuesEqual(a, b value, at ast.Node) bool {
	switch x := a.(type) {
	case intV:
		if y, ok := b.(intV); ok {
			return x.v.Cmp(y.v) == 0
		}
	case boolV:
		if y, ok := b.(boolV); ok {
			return x == y
		}
	case strV:
		if y, ok := b.(strV); ok {
			return x == y
		}
	case nilV:
		switch y := b.(type) {
		case nilV:
			return true
		case *errV:
			return false
		case ptrV:
			return y.s == nil
		case *sliceV:
			return y.a == nil
		}
	case *errV:
		switch y := b.(type) {
		case nilV:
			return false
		case *errV:
			return x == y
		}
	case ptrV:
		switch y := b.(type) {
		case nilV:
			return x.s == nil
		case ptrV:
			return x.s == y.s
		}
	case *sliceV:
		if _, ok := b.(nilV); ok {
			return x.a == nil
		}
	case *structV:
		if y, ok := b.(*structV); ok && x.typ == y.typ {
			for _, n := range x.names {
				if !in.valuesEqual(x.f[n], y.f[n], at) {
					return false
				}
			}
			return true
		}
	}
	in.fail(at, "comparison of %T and %T", a, b)
	return false
}

func (in *interp) binary(fr *frame, x *ast.BinaryExpr) value {
	switch x.Op {
	case token.LAND, token.LOR:
		a, ok := in.eval1(fr, x.X).(boolV)
		if !ok {
			in.fail(x, "%s on a non-boolean", x.Op)
		}
		if bool(a) == (x.Op == token.LOR) {
			return a
		}
		b, ok := in.eval1(fr, x.Y).(boolV)
		if !ok {
			in.fail(x, "%s on a non-boolean", x.Op)
		}
		return b
	}
	a, b := in.eval1(fr, x.X), in.eval1(fr, x.Y)
	switch x.Op {
	case token.EQL:
		return boolV(in.valuesEqual(a, b, x))
	case token.NEQ:
		return boolV(!in.valuesEqual(a, b, x))
	}
	if sa, ok := a.(strV); ok {
		sb, ok := b.(strV)
		if !ok {
			in.fail(x, "string operand expected")
		}
		switch x.Op {
		case token.ADD:
			return sa + sb
		case token.LSS, token.LEQ, token.GTR, token.GEQ:
			return boolV(cmpOp(x.Op, strings.Compare(string(sa), string(sb))))
		}
		in.fail(x, "operator %s on strings", x.Op)
	}
	ia, ok1 := a.(intV)
	ib, ok2 := b.(intV)
	if !ok1 || !ok2 {
		in.fail(x, "operator %s on %T and %T", x.Op, a, b)
	}
	switch x.Op {
	case token.LSS, token.LEQ, token.GTR, token.GEQ:
		return boolV(cmpOp(x.Op, ia.v.Cmp(ib.v)))
	case token.SHL, token.SHR:
		if ib.v.Sign() < 0 {
			in.fail(x, "negative shift count (Go panics)")
		}
		if !ib.v.IsUint64() || ib.v.Uint64() > 4096 {
			if x.Op == token.SHR || ia.k.bits() > 0 {
				// everything is shifted out
				if x.Op == token.SHR && ia.v.Sign() < 0 {
					return intV{ia.k, big.NewInt(-1)}
				}
				return intV{ia.k, big.NewInt(0)}
			}
			in.fail(x, "shift count too large")
		}
		n := uint(ib.v.Uint64())
		if x.Op == token.SHL {
			return wrap(ia.k, new(big.Int).Lsh(ia.v, n))
		}
		return wrap(ia.k, new(big.Int).Rsh(ia.v, n)) // arithmetic shift for negative values
	}
	k := ia.k
	if k == iUntyped {
		k = ib.k
	}
	r := new(big.Int)
	switch x.Op {
	case token.ADD:
		r.Add(ia.v, ib.v)
	case token.SUB:
		r.Sub(ia.v, ib.v)
	case token.MUL:
		r.Mul(ia.v, ib.v)
	case token.QUO:
		if ib.v.Sign() == 0 {
			in.fail(x, "division by zero")
		}
		r.Quo(ia.v, ib.v) // truncated, as in Go
	case token.REM:
		if ib.v.Sign() == 0 {
			in.fail(x, "division by zero")
		}
		r.Rem(ia.v, ib.v)
	case token.AND:
		r.And(ia.v, ib.v)
	case token.OR:
		r.Or(ia.v, ib.v)
	case token.XOR:
		r.Xor(ia.v, ib.v)
	case token.AND_NOT:
		r.AndNot(ia.v, ib.v)
	default:
		in.fail(x, "binary operator %s", x.Op)
	}
	return wrap(k, r)
}

// ---------------------------------------------------------------- statements

func (in *interp) execList(fr *frame, list []ast.Stmt) ctl {
	for _, s := range list {
		if c := in.exec(fr, s); c != ctlNone {
			return c
		}
	}
	return ctlNone
}

func (in *interp) execBlock(fr *frame, list []ast.Stmt) ctl {
	fr.push()
	defer fr.pop()
	return in.execList(fr, list)
}

func (in *interp) truth(fr *frame, e ast.Expr) bool {
	b, ok := in.eval1(fr, e).(boolV)
	if !ok {
		in.fail(e, "condition is not a boolean")
	}
	return bool(b)
}

func (in *interp) exec(fr *frame, s ast.Stmt) ctl {
	in.steps++
	if in.steps > in.budget {
		in.fail(s, "step budget exceeded")
	}
	switch x := s.(type) {
	case *ast.EmptyStmt:
		return ctlNone
	case *ast.BlockStmt:
		return in.execBlock(fr, x.List)
	case *ast.ExprStmt:
		if _, ok := x.X.(*ast.CallExpr); !ok {
			in.fail(s, "expression statement")
		}
		in.eval(fr, x.X)
		return ctlNone
	case *ast.AssignStmt:
		in.assign(fr, x)
		return ctlNone
	case *ast.IncDecStmt:
		op := token.ADD
		if x.Tok == token.DEC {
			op = token.SUB
		}
		one := &ast.BasicLit{ValuePos: x.Pos(), Kind: token.INT, Value: "1"}
		in.store(fr, x.X, in.eval1(fr, &ast.BinaryExpr{X: x.X, OpPos: x.Pos(), Op: op, Y: one}), false)
		return ctlNone
	case *ast.DeclStmt:
		gd, ok := x.Decl.(*ast.GenDecl)
		if !ok {
			in.fail(s, "declaration")
		}
		switch gd.Tok {
		case token.CONST:
			look := map[string]constant.Value{}
			for i := range fr.consts {
				for k, v := range fr.consts[i] {
					look[k] = v
				}
			}
			in.p.constDecl(gd, look)
			for _, sp := range gd.Specs {
				for _, nm := range sp.(*ast.ValueSpec).Names {
					v, ok := look[nm.Name]
					if !ok || v == nil {
						in.fail(s, "local constant %s", nm.Name)
					}
					fr.consts[len(fr.consts)-1][nm.Name] = v
				}
			}
		case token.VAR:
			for _, sp := range gd.Specs {
				vs := sp.(*ast.ValueSpec)
				var vals []value
				if len(vs.Values) > 0 {
					var es []ast.Expr
					es = append(es, vs.Values...)
					vals = in.evalArgs(fr, es)
					if len(vals) != len(vs.Names) {
						in.fail(s, "var declaration: value count")
					}
				}
				for i, nm := range vs.Names {
					var v value
					if vals != nil {
						v = copyVal(vals[i])
						if vs.Type != nil {
							v = in.convertParam(vs.Type, v)
						} else if iv, ok := v.(intV); ok && iv.k == iUntyped {
							v = intV{iInt, iv.v}
						}
					} else {
						if vs.Type == nil {
							in.fail(s, "var declaration without type")
						}
						v = in.zeroOf(vs.Type, s)
					}
					fr.declare(nm.Name, v)
				}
			}
		default:
			in.fail(s, "local %s declaration", gd.Tok)
		}
		return ctlNone
	case *ast.ReturnStmt:
		switch len(x.Results) {
		case 0:
			fr.ret = nil
		case 1:
			v := in.eval(fr, x.Results[0])
			if t, ok := v.(tupleV); ok {
				c := make(tupleV, len(t))
				for i := range t {
					c[i] = copyVal(t[i])
				}
				fr.ret = c
			} else {
				if v == nil {
					in.fail(s, "return of a call without result")
				}
				fr.ret = copyVal(v)
			}
		default:
			t := make(tupleV, len(x.Results))
			for i, r := range x.Results {
				t[i] = copyVal(in.eval1(fr, r))
			}
			fr.ret = t
		}
		// named results are not kept in sync with an explicit return value: without
		// defer (which the interpreter refuses) this is not observable
		return ctlReturn
	case *ast.IfStmt:
		fr.push()
		defer fr.pop()
		if x.Init != nil {
			if c := in.exec(fr, x.Init); c != ctlNone {
				return c
			}
		}
		if in.truth(fr, x.Cond) {
			return in.execBlock(fr, x.Body.List)
		}
		if x.Else != nil {
			return in.exec(fr, x.Else)
		}
		return ctlNone
	case *ast.SwitchStmt:
		return in.execSwitch(fr, x)
	case *ast.ForStmt:
		fr.push()
		defer fr.pop()
		if x.Init != nil {
			in.exec(fr, x.Init)
		}
		for {
			in.steps++
			if in.steps > in.budget {
				in.fail(s, "step budget exceeded")
			}
			if x.Cond != nil && !in.truth(fr, x.Cond) {
				return ctlNone
			}
			switch c := in.execBlock(fr, x.Body.List); c {
			case ctlBreak:
				return ctlNone
			case ctlReturn:
				return c
			}
			if x.Post != nil {
				in.exec(fr, x.Post)
			}
		}
	case *ast.RangeStmt:
		return in.execRange(fr, x)
	case *ast.BranchStmt:
		if x.Label != nil {
			in.fail(s, "labelled %s", x.Tok)
		}
		switch x.Tok {
		case token.BREAK:
			return ctlBreak
		case token.CONTINUE:
			return ctlContinue
		}
		in.fail(s, "%s statement", x.Tok)
	}
	in.fail(s, "statement %T", s)
	return ctlNone
}

func (in *interp) execSwitch(fr *frame, x *ast.SwitchStmt) ctl {
	fr.push()
	defer fr.pop()
	if x.Init != nil {
		in.exec(fr, x.Init)
	}
	var tag value
	if x.Tag != nil {
		tag = in.eval1(fr, x.Tag)
	}
	var chosen, def *ast.CaseClause
outer:
	for _, s := range x.Body.List {
		cc := s.(*ast.CaseClause)
		if cc.List == nil {
			def = cc
			continue
		}
		for _, e := range cc.List {
			if tag != nil {
				if in.valuesEqual(tag, in.eval1(fr, e), e) {
					chosen = cc
					break outer
				}
			} else if in.truth(fr, e) {
				chosen = cc
				break outer
			}
		}
	}
	if chosen == nil {
		chosen = def
	}
	if chosen == nil {
		return ctlNone
	}
	for _, b := range chosen.Body {
		ast.Inspect(b, func(n ast.Node) bool {
			if br, ok := n.(*ast.BranchStmt); ok && br.Tok == token.FALLTHROUGH {
				in.fail(br, "fallthrough")
			}
			return true
		})
	}
	switch c := in.execBlock(fr, chosen.Body); c {
	case ctlBreak:
		return ctlNone
	default:
		return c
	}
}

func (in *interp) execRange(fr *frame, x *ast.RangeStmt) ctl {
	sl, ok := in.eval1(fr, x.X).(*sliceV)
	if !ok {
		in.fail(x, "range over a value that is not a slice")
	}
	elems := append([]value{}, sl.elems()...)
	for i, el := range elems {
		fr.push()
		bind := func(e ast.Expr, v value) {
			if e == nil {
				return
			}
			if x.Tok == token.DEFINE {
				if id, ok := e.(*ast.Ident); ok {
					fr.declare(id.Name, v)
					return
				}
			}
			in.store(fr, e, v, false)
		}
		bind(x.Key, mkInt(iInt, int64(i)))
		bind(x.Value, copyVal(el))
		c := in.execList(fr, x.Body.List)
		fr.pop()
		switch c {
		case ctlBreak:
			return ctlNone
		case ctlReturn:
			return c
		}
	}
	return ctlNone
}

func (in *interp) assign(fr *frame, x *ast.AssignStmt) {
	def := x.Tok == token.DEFINE
	switch x.Tok {
	case token.DEFINE, token.ASSIGN:
		var vals []value
		if len(x.Rhs) == 1 && len(x.Lhs) > 1 {
			t, ok := in.eval(fr, x.Rhs[0]).(tupleV)
			if !ok || len(t) != len(x.Lhs) {
				in.fail(x, "assignment count mismatch")
			}
			vals = t
		} else {
			if len(x.Lhs) != len(x.Rhs) {
				in.fail(x, "assignment count mismatch")
			}
			for _, r := range x.Rhs {
				vals = append(vals, copyVal(in.eval1(fr, r)))
			}
		}
		for i, l := range x.Lhs {
			in.store(fr, l, vals[i], def)
		}
		return
	}
	op, ok := map[token.Token]token.Token{token.ADD_ASSIGN: token.ADD, token.SUB_ASSIGN: token.SUB,
		token.MUL_ASSIGN: token.MUL, token.QUO_ASSIGN: token.QUO, token.REM_ASSIGN: token.REM,
		token.AND_ASSIGN: token.AND, token.OR_ASSIGN: token.OR, token.XOR_ASSIGN: token.XOR,
		token.SHL_ASSIGN: token.SHL, token.SHR_ASSIGN: token.SHR, token.AND_NOT_ASSIGN: token.AND_NOT}[x.Tok]
	if !ok || len(x.Lhs) != 1 || len(x.Rhs) != 1 {
		in.fail(x, "assignment operator %s", x.Tok)
	}
	v := in.eval1(fr, &ast.BinaryExpr{X: x.Lhs[0], OpPos: x.TokPos, Op: op, Y: x.Rhs[0]})
	in.store(fr, x.Lhs[0], v, false)
}

// fit adapts a new value to the slot it is stored into: untyped constants take
// the integer kind of the old value.
func fit(old, v value) value {
	if iv, ok := v.(intV); ok && iv.k == iUntyped {
		if ov, ok := old.(intV); ok && ov.k != iUntyped {
			return wrap(ov.k, iv.v)
		}
	}
	return v
}

func (in *interp) store(fr *frame, lhs ast.Expr, v value, def bool) {
	v = copyVal(v)
	switch l := lhs.(type) {
	case *ast.ParenExpr:
		in.store(fr, l.X, v, def)
		return
	case *ast.Ident:
		if l.Name == "_" {
			return
		}
		if def {
			if _, ok := fr.scopes[len(fr.scopes)-1][l.Name]; !ok {
				if iv, ok := v.(intV); ok && iv.k == iUntyped {
					v = intV{iInt, iv.v}
				}
				fr.declare(l.Name, v)
				return
			}
		}
		c := fr.lookup(l.Name)
		if c == nil {
			in.fail(lhs, "assignment to %s, which is not a local variable", l.Name)
		}
		if dst, ok := c.v.(*structV); ok {
			src, ok := v.(*structV)
			if !ok || src.typ != dst.typ {
				in.fail(lhs, "assignment of a non-struct to the struct variable %s", l.Name)
			}
			dst.f = src.f // keep the identity of the variable (pointers to it stay valid)
			return
		}
		c.v = fit(c.v, v)
		return
	case *ast.SelectorExpr:
		s := in.structOf(fr, l.X)
		old := in.field(s, l.Sel.Name, lhs)
		owner := in.ownerOf(s, l.Sel.Name)
		if dst, ok := old.(*structV); ok {
			src, ok := v.(*structV)
			if !ok || src.typ != dst.typ {
				in.fail(lhs, "assignment of a non-struct to the struct field %s", l.Sel.Name)
			}
			dst.f = src.f
			return
		}
		owner.f[l.Sel.Name] = fit(old, v)
		return
	case *ast.StarExpr:
		p, ok := in.eval1(fr, l.X).(ptrV)
		if !ok || p.s == nil {
			in.fail(lhs, "assignment through a non-pointer")
		}
		src, ok := v.(*structV)
		if !ok || src.typ != p.s.typ {
			in.fail(lhs, "assignment of a non-struct through a pointer")
		}
		p.s.f = src.f
		return
	case *ast.IndexExpr:
		sl, ok := in.eval1(fr, l.X).(*sliceV)
		if !ok {
			in.fail(lhs, "index assignment to a non-slice")
		}
		i := in.int1(fr, l.Index)
		if !i.v.IsInt64() || i.v.Int64() < 0 || i.v.Int64() >= int64(sl.n) {
			in.fail(lhs, "index out of range (Go panics)")
		}
		sl.set(int(i.v.Int64()), fit(sl.at(int(i.v.Int64())), v))
		return
	}
	in.fail(lhs, "assignment target %T", lhs)
}

// ownerOf returns the (possibly embedded) struct object that owns field name.
func (in *interp) ownerOf(s *structV, name string) *structV {
	if _, ok := s.f[name]; ok {
		return s
	}
	for _, f := range in.structs[s.typ] {
		if f.name == "" {
			var e *structV
			switch t := s.f[strings.TrimPrefix(f.typ, "*")].(type) {
			case *structV:
				e = t
			case ptrV:
				e = t.s
			}
			if e != nil {
				if o := in.ownerOf(e, name); o != nil {
					return o
				}
			}
		}
	}
	return nil
}

// ---------------------------------------------------------------- slices with capacity

func (in *interp) smallInt(fr *frame, e ast.Expr, what string) int {
	v := in.int1(fr, e)
	if !v.v.IsInt64() || v.v.Int64() < 0 || v.v.Int64() > 1<<26 {
		in.fail(e, "%s %s: negative (Go panics) or too large for the interpreter", what, v.v.String())
	}
	return int(v.v.Int64())
}

// make([]T, n[, c])
func (in *interp) makeSlice(fr *frame, x *ast.CallExpr) value {
	if len(x.Args) < 2 || len(x.Args) > 3 {
		in.fail(x, "make with %d arguments", len(x.Args))
	}
	at, ok := x.Args[0].(*ast.ArrayType)
	if !ok || at.Len != nil {
		in.fail(x, "make of a type that is not a slice")
	}
	n := in.smallInt(fr, x.Args[1], "make: length")
	c := n
	if len(x.Args) == 3 {
		c = in.smallInt(fr, x.Args[2], "make: capacity")
	}
	if n > c {
		in.fail(x, "make: len larger than cap (Go panics)")
	}
	elem := exprStr(at.Elt)
	a := make([]value, c)
	for i := range a {
		a[i] = in.zeroOfStr(elem, x)
	}
	return &sliceV{a: &a, n: n, c: c, elem: elem}
}

// append(s, v...) / append(s, t...): in place while the capacity suffices.  The capacity
// the run time chooses for a reallocation is not modelled: the interpreter refuses.
func (in *interp) appendSlice(fr *frame, x *ast.CallExpr) value {
	if len(x.Args) < 1 {
		in.fail(x, "append without arguments")
	}
	s, ok := in.eval1(fr, x.Args[0]).(*sliceV)
	if !ok {
		in.fail(x, "append to a value that is not a slice")
	}
	var vals []value
	if x.Ellipsis.IsValid() {
		if len(x.Args) != 2 {
			in.fail(x, "append with ... and %d arguments", len(x.Args))
		}
		t, ok := in.eval1(fr, x.Args[1]).(*sliceV)
		if !ok {
			in.fail(x, "append of a value that is not a slice")
		}
		vals = append(vals, t.elems()...)
	} else {
		for _, a := range x.Args[1:] {
			v := copyVal(in.eval1(fr, a))
			if iv, ok := v.(intV); ok && iv.k == iUntyped {
				if k, ok := in.kindOfName(s.elem); ok {
					v = wrap(k, iv.v)
				}
			}
			vals = append(vals, v)
		}
	}
	if s.n+len(vals) > s.c {
		in.fail(x, "append beyond the capacity (the capacity chosen by the run time is not modelled)")
	}
	for i, v := range vals {
		(*s.a)[s.off+s.n+i] = v
	}
	return &sliceV{a: s.a, off: s.off, n: s.n + len(vals), c: s.c, elem: s.elem}
}
