// code_opq.go — eighth part of the translation: OPAQUE STATE-PASSING CALLEES (functions of another
// package of the repository that write a slice argument; methods of a struct of the package), and
// the topics of gsap.go (the greedy suffix-array parser) that need them.  The topics of this file
// (topicsOpq below) are topics of the fifth part; the hooks in the other files are marked
// "code_opq.go".  Nothing here is keyed on a function, type or variable name of the repository: the
// per-topic data is the table spTopics.
//
// The fourth part knows opaque callees that are TOTAL PURE FUNCTIONS of the values of their
// arguments (`lcp`, `lcs`, `matchLen`: one numeric result, nothing written).  The fifth part knows
// method calls on INTERFACE values as opaque state-passing parameters.  What was missing (notes:
// suffix-translate.md §4 `suffix.Sort`, `bitset.insert`; bup-readfrom-translate.md §1
// `bucketHash.shiftOffsets`): a callee with a BODY in the repository that the value model of
// slices cannot express (two live references to one array, `copy` into a re-sliced alias, variadic
// parameters) or that is deliberately not modelled (DivSufSort), and that has EFFECTS.
//
//	opaque state-passing   a callee listed for the topic in spTopics is NOT translated.  Every function
//	callee                 that (transitively) calls it takes a function parameter (after grow / fuel /
//	                       the opaque callees of the fourth part, before the interface methods of the
//	                       fifth part):
//	                         package-level function F of the sub-package P (`suffix.Sort(t, sa)`):
//	                             P_F : A1 → … → An → Res (<in-out arguments> × <Go results>)
//	                         method m of the struct T of the package (`X.m(a…)`, X a variable or field
//	                         path of type T or *T; not a promoted method):
//	                             T_m : T → A1 → … → An → Res (T × <in-out arguments> × <Go results>)
//	                       `Res`: the callee may panic.  The signature is read from the DECLARATION in the
//	                       repository (the sub-package is parsed for it).  The call is hoisted like the
//	                       call of an interface method: X is rebound to the first component, the in-out
//	                       arguments are rebound in order, the Go results follow.
//	                       IN-OUT are the slice arguments (every slice argument, unless its position is
//	                       listed under `ro` in spTopics: the callee does not write it — TRUSTED, to be
//	                       read off the callee) and arguments of type *S, S a struct.  An in-out argument
//	                       must be a variable or field path without a live alias (checkAliasWrite), must
//	                       not overlap the receiver path or another in-out argument.
//	                       A VARIADIC parameter `...E` is a parameter of type `List E`; the call passes the
//	                       list of its arguments (`X.m(a, b)` ↦ `T_m X [a, b]`); `X.m(s...)` is refused.
//	                       A result of POINTER type is not a component of the Lean result; a call whose
//	                       results are used is refused if the callee has one (`b.insert(i)` returns b
//	                       itself: only the statement form is accepted).  Results of interface or function
//	                       type are refused.  Parameters of a cross-package callee must be of basic types or
//	                       slices of basic types (struct names are not resolved across packages).
//	                       TRUSTED READING (as for interface methods, code_iface.go): the callee's effect
//	                       on the rest of the program is confined to its receiver value — the struct X
//	                       including the arrays of the slices stored in it, which nothing else references —
//	                       and its in-out arguments; it retains none of its arguments; the slices passed
//	                       for different parameters do not overlap when one of them is written.  For a
//	                       method the first condition is backed by the alias rules of the sixth part
//	                       (no live alias of a slice inside X at the call: checkAliasWrite).
//	                       The theorems carry the specification of the callee as a hypothesis
//	                       (`SortSpec`, `InsertSpec` in LzProofs/GenGSAP*.lean).
//	                       A method listed in spTopics counts as MUTATING its receiver in the mutation
//	                       analysis (computeMutates, assignedOuter2), whatever its body says.
//
// Everything else gsap.go needs was there: `panic`, int32, GSlice make / re-slice, range over a
// GSlice with key and value, `for init; cond; post`, multi-valued method calls, the pure opaque
// callee `lcp`, local slice aliases of s.Data, `blk != nil` as a topic assumption.
package main

import (
	"go/ast"
	"go/parser"
	"go/token"
	"path/filepath"
	"strings"
)

// topicsOpq: the topics of this file; they are topics of the fifth part (registered by the init
// function of code_parse.go, after the topics of the seventh part).
var topicsOpq = []topic{
	{name: "GSAPParse", doc: "gsap.go: gsap.sort, gsap.Parse (suffix.Sort and bitset.insert are opaque state-passing parameters, lcp is an opaque pure parameter); ASSUMES blk != nil",
		fns: methods("gsap", "sort", "Parse"), opaque: []fnKey{{"", "lcp"}}, part2: true},
	{name: "GSAPInit", doc: "gsap.go: gsap.init, gsap.Reset, gsap.Shrink",
		fns: methods("gsap", "init", "Reset", "Shrink"), part2: true, refl: true},
	{name: "BUPShrink", doc: "bucket_hash.go: bucketDictionary.Shrink (Shrink of the bucketParser); bucketHash.shiftOffsets is an opaque state-passing parameter (it writes through the sub-slice returned by bucket() while bh.buckets is live)",
		fns: methods("bucketDictionary", "Shrink"), part2: true},
}

// spCallee: one opaque state-passing callee of a topic.
type spCallee struct {
	pkg  string // "" = a method of the package being translated; otherwise the sub-directory (package-level function)
	recv string // the struct type of the method ("" for a package-level function)
	name string
	ro   []int // positions of slice parameters the callee does NOT write (trusted)
	// sig: for a function that has NO declaration in the repository (standard library, possibly generic: `slices.Sort`) the
	// declaration the topic uses it at, e.g. "func Sort(x []int32)" — the instantiation of the type parameters is part of
	// the table; a call at another type fails the argument type check.  TRUSTED: the text matches the library.
	sig string
	// logcb (code_cblift.go): the callee has ONE parameter of function type without results; it is not translated as a
	// state-passing callee but as the function that returns the LOG of its callback calls (`Q_G : A… → Res (List (T…))`),
	// to be instantiated by the translation of the callee of the fourth part.  TRUSTED (to be read off the callee): it
	// writes none of its arguments itself, and the slice argument of a callback call is a window of its argument `win`.
	logcb bool
	win   int
}

// spTopics: the opaque state-passing callees per topic.
var spTopics = map[string][]spCallee{
	"GSAPParse": {
		// suffix.Sort(t []byte, sa []int32): reads t, fills sa (suffix/k1.go)
		{pkg: "suffix", name: "Sort", ro: []int{0}},
		// (*bitset).insert(i ...int) *bitset: variadic, calls support (two live references to one array)
		{recv: "bitset", name: "insert"},
	},
	"BUPShrink": {
		// (*bucketHash).shiftOffsets(delta uint32): `b := bh.bucket(h)` and writes through b (copy(b, tmp[:i]), p := b[i:]; p[k] = …)
		// while bh.buckets is live — two live references to one array with writes through the second
		{recv: "bucketHash", name: "shiftOffsets"},
	},
}

func init() {
	for _, t := range topicsOpq {
		declOrderTopics[t.name] = true
	}
}

// repoDir: the repository being translated (set by genCodeTopics); the sub-packages of cross-package
// opaque callees are parsed from it.
var repoDir string

type spKey struct{ pkg, recv, name string }

func (k spKey) param() string {
	if k.recv != "" {
		return k.recv + "_" + k.name
	}
	return k.pkg + "_" + k.name
}

func (k spKey) goName() string {
	if k.recv != "" {
		return k.recv + "." + k.name
	}
	return k.pkg + "." + k.name
}

type spInfo struct {
	key   spKey
	fd    *ast.FuncDecl
	ro    map[int]bool
	logcb bool // code_cblift.go
	win   int
}

// registerSP (translateTopics): the opaque state-passing callees of the topics of this package.
func (c *codegen) registerSP(topics []topic) {
	for _, t := range topics {
		for _, s := range spTopics[t.name] {
			k := spKey{s.pkg, s.recv, s.name}
			if c.spOf == nil {
				c.spOf = map[spKey]*spInfo{}
			}
			if c.spOf[k] != nil {
				continue
			}
			info := &spInfo{key: k, ro: map[int]bool{}, logcb: s.logcb, win: s.win}
			for _, i := range s.ro {
				info.ro[i] = true
			}
			if s.recv != "" {
				info.fd = c.fns[fnKey{s.recv, s.name}]
				c.mutates[fnKey{s.recv, s.name}] = true
			} else if s.sig != "" {
				// code_osap.go (computeEdges): the declaration comes from the table
				if f, err := parser.ParseFile(token.NewFileSet(), "", "package "+s.pkg+"\n"+s.sig+" {}\n", 0); err == nil {
					for _, d := range f.Decls {
						if fd, ok := d.(*ast.FuncDecl); ok && fd.Name.Name == s.name {
							info.fd = fd
						}
					}
				}
			} else if repoDir != "" {
				sp := load(filepath.Join(repoDir, s.pkg))
				info.fd = sp.funcs()[fnKey{"", s.name}]
			}
			c.spOf[k] = info // fd == nil: reported when a call is met
		}
	}
}

// spSig: the signature of an opaque state-passing callee.
type spSig struct {
	recv     *gtype
	ps       []gtype
	inout    []bool
	variadic bool // the last parameter is `...E` (ps[last] is List E)
	rs       []gtype
	ptrRes   bool // a result of pointer type was dropped
	// code_cblift.go: the callee's callback calls are logged — the types of the callback's parameters, the position of the
	// callback among the Go parameters, the type of a log entry
	cb     []gtype
	cbPos  int
	cbType gtype
}

func (c *codegen) spType(k spKey, at ast.Node) spSig {
	info := c.spOf[k]
	if info == nil || info.fd == nil {
		c.fail(at, "opaque state-passing callee %s not found in the repository", k.goName())
	}
	fd := info.fd
	var sig spSig
	if k.recv != "" {
		if fd.Recv == nil {
			c.fail(at, "opaque state-passing callee %s is not a method", k.goName())
		}
		t := c.typeOf(fd.Recv.List[0].Type, at)
		if t.kind != kStruct {
			c.fail(at, "opaque method %s has a receiver of type %s", k.goName(), t)
		}
		sig.recv = &t
	} else if fd.Recv != nil {
		c.fail(at, "opaque state-passing callee %s is a method", k.goName())
	}
	if fd.Type.TypeParams != nil {
		c.fail(at, "opaque state-passing callee %s is generic", k.goName())
	}
	basic := func(t gtype) bool { return t.numeric() || t.kind == kBool }
	pos := 0
	if fd.Type.Params != nil {
		for fi, p := range fd.Type.Params.List {
			var t gtype
			io := false
			if el, ok := p.Type.(*ast.Ellipsis); ok {
				if fi != len(fd.Type.Params.List)-1 || len(p.Names) > 1 {
					c.fail(at, "opaque state-passing callee %s: misplaced variadic parameter", k.goName())
				}
				et := c.typeOf(el.Elt, at)
				if !basic(et) {
					c.fail(at, "opaque state-passing callee %s has a variadic parameter of element type %s", k.goName(), et)
				}
				t = gtype{kind: kSlice, elem: &et}
				sig.variadic = true
			} else if ft, isFn := p.Type.(*ast.FuncType); isFn && info.logcb && sig.cb == nil && len(p.Names) <= 1 {
				// code_cblift.go: the logged callback
				sig.cbType = c.callbackType(ft, at)
				sig.cb = c.cbTypes[sig.cbType.name]
				sig.cbPos = pos
				pos++
				continue
			} else {
				t = c.typeOf(p.Type, at)
				_, ptr := p.Type.(*ast.StarExpr)
				switch {
				case basic(t):
				case t.kind == kBytes, (t.kind == kGSlice || t.kind == kSlice) && (k.pkg == "" || basic(*t.elem)):
					io = true
				case t.kind == kStruct && k.pkg == "":
					io = ptr
				default:
					c.fail(at, "opaque state-passing callee %s has a parameter of type %s", k.goName(), t)
				}
			}
			n := len(p.Names)
			if n == 0 {
				n = 1
			}
			for i := 0; i < n; i++ {
				sig.ps = append(sig.ps, t)
				sig.inout = append(sig.inout, io && !info.ro[pos] && !info.logcb)
				pos++
			}
		}
	}
	if fd.Type.Results != nil {
		for _, r := range fd.Type.Results.List {
			n := len(r.Names)
			if n == 0 {
				n = 1
			}
			if _, ptr := r.Type.(*ast.StarExpr); ptr {
				sig.ptrRes = true
				continue
			}
			t := c.typeOf(r.Type, at)
			if !basic(t) && t.kind != kError {
				c.fail(at, "opaque state-passing callee %s has a result of type %s", k.goName(), t)
			}
			for i := 0; i < n; i++ {
				sig.rs = append(sig.rs, t)
			}
		}
	}
	return sig
}

func (s spSig) comps() []gtype {
	if s.cb != nil { // code_cblift.go: the log
		return []gtype{s.cbType}
	}
	var comps []gtype
	if s.recv != nil {
		comps = append(comps, *s.recv)
	}
	for i, p := range s.ps {
		if s.inout[i] {
			comps = append(comps, p)
		}
	}
	return append(comps, s.rs...)
}

// spDecl: the binder of the parameter that stands for the callee.
func (c *codegen) spDecl(k spKey, at ast.Node) string {
	sig := c.spType(k, at)
	var ts []string
	add := func(t gtype) {
		s := t.lean()
		if strings.Contains(s, " ") {
			s = "(" + s + ")"
		}
		ts = append(ts, s)
	}
	if sig.recv != nil {
		add(*sig.recv)
	}
	for _, p := range sig.ps {
		add(p)
	}
	comps := sig.comps()
	if len(comps) == 0 {
		c.fail(at, "opaque state-passing callee %s has neither a receiver, nor an in-out argument, nor a result", k.goName())
	}
	return " (" + k.param() + " : " + strings.Join(ts, " → ") + " → Res (" + tupleType(comps) + "))"
}

func (c *codegen) needSP(k spKey, at ast.Node) {
	for _, o := range c.cur.sig.sps {
		if o == k {
			return
		}
	}
	if !c.cur.probe {
		c.fail(at, "internal error: call of the opaque callee %s in a function not marked as such", k.goName())
	}
	c.cur.sig.sps = append(c.cur.sig.sps, k)
}

// spCalleeOf: x is a call of an opaque state-passing callee (recv == nil for a package-level function).
func (c *codegen) spCalleeOf(x *ast.CallExpr) (k spKey, recv ast.Expr, ok bool) {
	if !c.phase5 || len(c.spOf) == 0 {
		return spKey{}, nil, false
	}
	f, isSel := x.Fun.(*ast.SelectorExpr)
	if !isSel {
		return spKey{}, nil, false
	}
	if id, isId := f.X.(*ast.Ident); isId && c.lookup(id.Name) == nil {
		k = spKey{id.Name, "", f.Sel.Name}
		if c.spOf[k] != nil {
			return k, nil, true
		}
		return spKey{}, nil, false
	}
	id := rootIdent(f.X)
	if id == nil || c.lookup(id.Name) == nil || indexOf(f.X) != nil {
		return spKey{}, nil, false
	}
	v, p := c.path(f.X)
	t := c.pathType(v, p, x)
	if t.kind != kStruct {
		return spKey{}, nil, false
	}
	k = spKey{"", goStruct(t.name), f.Sel.Name}
	if c.spOf[k] != nil {
		return k, f.X, true
	}
	return spKey{}, nil, false
}

// spCall translates the call; it returns the values of the Go results (without pointer results).
func (c *codegen) spCall(k spKey, recv ast.Expr, x *ast.CallExpr, stmt bool) ([]string, []gtype) {
	sig := c.spType(k, x)
	if leanReserved[k.param()] || c.lookup(k.param()) != nil {
		c.fail(x, "opaque callee %s: the name %s is taken", k.goName(), k.param())
	}
	if sig.ptrRes && !stmt {
		c.fail(x, "call of %s, which has a result of pointer type, used as a value", k.goName())
	}
	if x.Ellipsis.IsValid() {
		c.fail(x, "call of %s with a spread argument", k.goName())
	}
	nfix := len(sig.ps)
	if sig.variadic {
		nfix--
		if len(x.Args) < nfix {
			c.fail(x, "call of %s with %d arguments", k.goName(), len(x.Args))
		}
	} else if len(x.Args) != nfix {
		c.fail(x, "call of %s with %d arguments", k.goName(), len(x.Args))
	}
	c.needSP(k, x)
	parts := []string{k.param()}
	var rv *varInfo
	var rp []string
	if recv != nil {
		rv, rp = c.path(recv)
		c.checkRangeTarget(rv, rp, x)
		c.checkAliasWrite(rv, rp, x, "call of an opaque method that mutates")
		c.checkRecvMutation(rootIdent(recv), x)
		r0, _ := c.expr(recv, gtype{}, false)
		parts = append(parts, paren(r0))
	}
	type outArg struct {
		v *varInfo
		p []string
		e ast.Expr
	}
	var outs []outArg
	for i := 0; i < nfix; i++ {
		a := x.Args[i]
		s, t := c.expr(a, sig.ps[i], false)
		if !t.eq(sig.ps[i]) {
			c.fail(a, "argument %d of %s has type %s, want %s", i+1, k.goName(), t, sig.ps[i])
		}
		parts = append(parts, paren(s))
		if !sig.inout[i] {
			continue
		}
		if rootIdent(a) == nil || indexOf(a) != nil || c.lookup(rootIdent(a).Name) == nil {
			c.fail(a, "argument %d of %s may be written by the callee: only a variable or field path", i+1, k.goName())
		}
		v, p := c.path(a)
		c.checkRangeTarget(v, p, x)
		c.checkAliasWrite(v, p, x, "call of an opaque callee that may write its argument")
		if rv != nil && v == rv && !disjointPaths(p, rp) {
			c.fail(a, "argument %d of %s overlaps the receiver of the call", i+1, k.goName())
		}
		for _, o := range outs {
			if o.v == v && !disjointPaths(o.p, p) {
				c.fail(a, "two arguments of %s that the callee may write overlap", k.goName())
			}
		}
		// the same variable passed for a written parameter and for a read one: aliasing
		for j, a2 := range x.Args {
			if j != i && rootIdent(a2) != nil && rootIdent(a2).Name == rootIdent(a).Name && !c.disjointArgs(a2, a) {
				c.fail(x, "variable %s is passed twice to %s, which may write one of the two parameters (aliasing)", rootIdent(a).Name, k.goName())
			}
		}
		outs = append(outs, outArg{v, p, a})
	}
	if sig.variadic {
		et := *sig.ps[nfix].elem
		var es []string
		for _, a := range x.Args[nfix:] {
			s, t := c.expr(a, et, false)
			if !t.eq(et) {
				c.fail(a, "variadic argument of %s has type %s, want %s", k.goName(), t, et)
			}
			es = append(es, s)
		}
		parts = append(parts, "["+strings.Join(es, ", ")+"]")
	}
	comps := sig.comps()
	n := len(comps)
	if n == 0 {
		c.fail(x, "opaque state-passing callee %s has neither a receiver, nor an in-out argument, nor a result", k.goName())
	}
	r := c.bindRes("r", strings.Join(parts, " "), x)
	i := 0
	if rv != nil {
		c.cur.pre = append(c.cur.pre, "let "+rv.lean+" : "+rv.typ.lean()+" := "+update(rv.lean, rp, proj(r, i, n)))
		c.cur.mutHoist = append(c.cur.mutHoist, hoist{rootIdent(recv).Name, x})
		c.noteOutParam(rootIdent(recv).Name, len(rp) == 0, x)
		i++
	}
	for _, o := range outs {
		c.cur.pre = append(c.cur.pre, "let "+o.v.lean+" : "+o.v.typ.lean()+" := "+update(o.v.lean, o.p, proj(r, i, n)))
		c.cur.mutHoist = append(c.cur.mutHoist, hoist{rootIdent(o.e).Name, x})
		c.noteOutParam(rootIdent(o.e).Name, len(o.p) == 0, x)
		i++
	}
	var vals []string
	for range sig.rs {
		vals = append(vals, proj(r, i, n))
		i++
	}
	return vals, sig.rs
}

// markSPEffects (for assignedOuter2): the receiver and the in-out arguments of an opaque
// state-passing callee are rebound by the call.
func (c *codegen) markSPEffects(call *ast.CallExpr, local func(string) bool, mark func(ast.Expr)) {
	if len(c.spOf) == 0 {
		return
	}
	f, ok := call.Fun.(*ast.SelectorExpr)
	if !ok {
		return
	}
	var k spKey
	if id, isId := f.X.(*ast.Ident); isId && !local(id.Name) && c.lookup(id.Name) == nil {
		k = spKey{id.Name, "", f.Sel.Name}
	} else {
		id := rootIdent(f.X)
		if id == nil || local(id.Name) || c.lookup(id.Name) == nil || indexOf(f.X) != nil {
			return
		}
		v, p := c.path(f.X)
		t := c.pathType(v, p, call)
		if t.kind != kStruct {
			return
		}
		k = spKey{"", goStruct(t.name), f.Sel.Name}
		if c.spOf[k] != nil {
			mark(f.X)
		}
	}
	if c.spOf[k] == nil || c.spOf[k].fd == nil {
		return
	}
	sig := c.spType(k, call)
	for i, a := range call.Args {
		if i < len(sig.ps) && sig.inout[i] && !(sig.variadic && i == len(sig.ps)-1) && rootIdent(a) != nil {
			mark(a)
		}
	}
}

// spWritesRooted (for computeMutates): a call `P.F(…)` of a cross-package opaque callee that may write
// an argument rooted at the receiver r.
func (c *codegen) spWritesRooted(x *ast.CallExpr, rooted func(ast.Expr) bool) bool {
	f, ok := x.Fun.(*ast.SelectorExpr)
	if !ok || len(c.spOf) == 0 {
		return false
	}
	id, isId := f.X.(*ast.Ident)
	if !isId {
		return false
	}
	info := c.spOf[spKey{id.Name, "", f.Sel.Name}]
	if info == nil {
		return false
	}
	for i, a := range x.Args {
		if rooted(a) && !info.ro[i] {
			return true
		}
	}
	return false
}
