// code_refl.go — the reflective field-copy helpers (bufferConfig, setBufferConfig,
// hashCfg, setHashCfg, dhCfg, setDHCfg, bucketCfg, setBucketCfg), the
// mutation analysis, and the emission of Code.lean.
package main

import (
	"bytes"
	"fmt"
	"go/ast"
	"go/printer"
	"go/token"
	"os"
	"strconv"
	"strings"
)

// A reflective helper copies int fields *by name* between a parser
// configuration (passed as interface ParserConfig, accessed through
// reflect) and a small helper struct.  The extractor does not translate
// package reflect; it recognises exactly this idiom
//
//	v := reflect.Indirect(reflect.ValueOf(x))
//	[f := hasVal(v, "A"); f = f && hasVal(v, "B"); if !f { return …, errX }]
//	r := T{F: iVal(v, "A"), …}   |   r.F = iVal(v, "A")   |   setIVal(v, "A", s.F)
//	return r[, nil]              |   return nil
//
// and reads it as: require fields A, B, … to exist; copy the named fields.
type reflCopy struct {
	path  []string // field path in the helper struct
	field string   // field name in the parser configuration
	pos   ast.Node
}

type reflInfo struct {
	name     string
	fd       *ast.FuncDecl
	setter   bool
	nres     int
	helper   string // helper struct (result of a getter, 2nd parameter of a setter)
	required []string
	copies   []reflCopy
}

// the three reflect primitives the idiom is built from; their bodies are compared verbatim
var reflPrims = map[string]string{
	"iVal":    "{ return int(v.FieldByName(name).Int()) }",
	"setIVal": "{ v.FieldByName(name).SetInt(int64(i)) }",
	"hasVal":  "{ _, ok := v.Type().FieldByName(name) ; return ok }",
}

func (c *codegen) nodeText(n ast.Node) string {
	var b bytes.Buffer
	printer.Fprint(&b, c.p.fset, n)
	return strings.Join(strings.Fields(strings.ReplaceAll(b.String(), "\n", " ; ")), " ")
}

func normStmtText(s string) string {
	s = strings.ReplaceAll(s, "{ ; ", "{ ")
	s = strings.ReplaceAll(s, " ; }", " }")
	return s
}

func (c *codegen) checkReflPrims() {
	for name, want := range reflPrims {
		fd := c.fns[fnKey{"", name}]
		if fd == nil || fd.Body == nil {
			fatal(fmt.Errorf("reflect primitive %s not found", name))
		}
		got := normStmtText(c.nodeText(fd.Body))
		if got != want {
			fatal(fmt.Errorf("reflect primitive %s (%s) has body %q, the translator assumes %q", name, c.pos(fd), got, want))
		}
	}
}

func isParserConfigParam(f *ast.Field) bool {
	id, ok := f.Type.(*ast.Ident)
	return ok && id.Name == "ParserConfig" && len(f.Names) == 1
}

// reflOf returns the analysis of a reflective helper, nil if name is not one.
func (c *codegen) reflOf(name string) *reflInfo {
	if ri, ok := c.refl[name]; ok {
		return ri
	}
	c.refl[name] = nil
	fd := c.fns[fnKey{"", name}]
	if fd == nil || fd.Body == nil || fd.Type.Params == nil || len(fd.Type.Params.List) == 0 {
		return nil
	}
	if !isParserConfigParam(fd.Type.Params.List[0]) {
		return nil
	}
	uses := false
	ast.Inspect(fd.Body, func(n ast.Node) bool {
		if se, ok := n.(*ast.SelectorExpr); ok {
			if id, ok := se.X.(*ast.Ident); ok && id.Name == "reflect" {
				uses = true
			}
		}
		return !uses
	})
	if !uses {
		return nil
	}
	ri := c.analyzeRefl(name, fd)
	c.refl[name] = ri
	return ri
}

func (c *codegen) reflFail(ri *reflInfo, n ast.Node, format string, a ...interface{}) {
	fmt.Fprintf(os.Stderr, "extract: reflective helper %s (%s): unsupported construct: %s\n",
		ri.name, c.pos(n), fmt.Sprintf(format, a...))
	refuse() // code_topics.go: the refusal is per topic, not per run
}

func strArg(e ast.Expr) (string, bool) {
	bl, ok := e.(*ast.BasicLit)
	if !ok || bl.Kind != token.STRING {
		return "", false
	}
	s, err := strconv.Unquote(bl.Value)
	return s, err == nil
}

func (c *codegen) analyzeRefl(name string, fd *ast.FuncDecl) *reflInfo {
	ri := &reflInfo{name: name, fd: fd}
	ps := fd.Type.Params.List
	cfgVar := ps[0].Names[0].Name
	valVar := ""
	switch {
	case len(ps) == 1:
	case len(ps) == 2 && len(ps[1].Names) == 1:
		id, ok := ps[1].Type.(*ast.Ident)
		if !ok || c.structs[id.Name] == nil {
			c.reflFail(ri, fd, "second parameter is not a struct value")
		}
		ri.setter, ri.helper, valVar = true, id.Name, ps[1].Names[0].Name
	default:
		c.reflFail(ri, fd, "parameter list")
	}
	resVar := ""
	if r := fd.Type.Results; r != nil {
		for _, f := range r.List {
			n := len(f.Names)
			if n == 0 {
				n = 1
			}
			ri.nres += n
		}
		if !ri.setter {
			if ri.nres < 1 || ri.nres > 2 {
				c.reflFail(ri, fd, "result list")
			}
			id, ok := r.List[0].Type.(*ast.Ident)
			if !ok || c.structs[id.Name] == nil {
				c.reflFail(ri, fd, "first result is not a struct")
			}
			ri.helper = id.Name
			if len(r.List[0].Names) == 1 {
				resVar = r.List[0].Names[0].Name
			}
			if ri.nres == 2 {
				last := r.List[len(r.List)-1]
				if t, ok := last.Type.(*ast.Ident); !ok || t.Name != "error" {
					c.reflFail(ri, fd, "second result is not error")
				}
			}
		} else if ri.nres > 1 {
			c.reflFail(ri, fd, "result list")
		}
	}
	if !ri.setter && ri.helper == "" {
		c.reflFail(ri, fd, "helper without result and without value parameter")
	}
	vVar := ""
	guard := map[string]bool{} // guard variable -> initialised
	isCall := func(e ast.Expr, fn string, nargs int) (*ast.CallExpr, bool) {
		call, ok := e.(*ast.CallExpr)
		if !ok || len(call.Args) != nargs {
			return nil, false
		}
		id, ok := call.Fun.(*ast.Ident)
		if !ok || id.Name != fn {
			return nil, false
		}
		if nargs > 0 {
			if a, ok := call.Args[0].(*ast.Ident); !ok || a.Name != vVar || vVar == "" {
				return nil, false
			}
		}
		return call, true
	}
	var guardExpr func(e ast.Expr) bool
	guardExpr = func(e ast.Expr) bool {
		switch x := e.(type) {
		case *ast.ParenExpr:
			return guardExpr(x.X)
		case *ast.Ident:
			init, ok := guard[x.Name]
			if ok && !init {
				c.reflFail(ri, e, "guard variable %s read before it is assigned", x.Name)
			}
			return ok
		case *ast.BinaryExpr:
			return x.Op == token.LAND && guardExpr(x.X) && guardExpr(x.Y)
		case *ast.CallExpr:
			if call, ok := isCall(x, "hasVal", 2); ok {
				if s, ok := strArg(call.Args[1]); ok {
					ri.required = append(ri.required, s)
					return true
				}
			}
		}
		return false
	}
	isGuardSyntax := func(e ast.Expr) bool {
		ok := false
		ast.Inspect(e, func(n ast.Node) bool {
			if id, isId := n.(*ast.Ident); isId && id.Name == "hasVal" {
				ok = true
			}
			return true
		})
		return ok
	}
	var lit func(cl *ast.CompositeLit, prefix []string)
	lit = func(cl *ast.CompositeLit, prefix []string) {
		for _, el := range cl.Elts {
			kv, ok := el.(*ast.KeyValueExpr)
			if !ok {
				c.reflFail(ri, el, "positional composite literal")
			}
			key, ok := kv.Key.(*ast.Ident)
			if !ok {
				c.reflFail(ri, el, "composite literal key")
			}
			p := append(append([]string{}, prefix...), key.Name)
			if inner, ok := kv.Value.(*ast.CompositeLit); ok {
				lit(inner, p)
				continue
			}
			call, ok := isCall(kv.Value, "iVal", 2)
			if !ok {
				c.reflFail(ri, kv.Value, "field value %s (only iVal(%s, \"Name\"))", c.src(kv.Value), vVar)
			}
			s, ok := strArg(call.Args[1])
			if !ok {
				c.reflFail(ri, call, "field name is not a string literal")
			}
			ri.copies = append(ri.copies, reflCopy{p, s, kv})
		}
	}
	selPath := func(e ast.Expr, root string) ([]string, bool) {
		var p []string
		for {
			switch x := e.(type) {
			case *ast.SelectorExpr:
				p = append([]string{x.Sel.Name}, p...)
				e = x.X
				continue
			case *ast.Ident:
				return p, x.Name == root && len(p) > 0
			}
			return nil, false
		}
	}
	returned := false
	for i, st := range fd.Body.List {
		if returned {
			c.reflFail(ri, st, "statement after return")
		}
		switch x := st.(type) {
		case *ast.DeclStmt:
			gd, ok := x.Decl.(*ast.GenDecl)
			if ok && gd.Tok == token.VAR && len(gd.Specs) == 1 {
				vs := gd.Specs[0].(*ast.ValueSpec)
				if t, ok := vs.Type.(*ast.Ident); ok && t.Name == "bool" && len(vs.Values) == 0 && len(vs.Names) == 1 {
					guard[vs.Names[0].Name] = false
					continue
				}
			}
			c.reflFail(ri, st, "declaration")
		case *ast.AssignStmt:
			if len(x.Lhs) != 1 || len(x.Rhs) != 1 || (x.Tok != token.DEFINE && x.Tok != token.ASSIGN) {
				c.reflFail(ri, st, "assignment")
			}
			if i == 0 {
				if c.nodeText(x) != fmt.Sprintf("v := reflect.Indirect(reflect.ValueOf(%s))", cfgVar) {
					c.reflFail(ri, st, "first statement must be v := reflect.Indirect(reflect.ValueOf(%s))", cfgVar)
				}
				vVar = "v"
				continue
			}
			if id, ok := x.Lhs[0].(*ast.Ident); ok {
				if isGuardSyntax(x.Rhs[0]) {
					if _, known := guard[id.Name]; !known && x.Tok != token.DEFINE {
						c.reflFail(ri, st, "assignment to undeclared guard variable")
					}
					if !guardExpr(x.Rhs[0]) {
						c.reflFail(ri, st, "guard expression %s (only hasVal(v, \"Name\") joined by &&)", c.src(x.Rhs[0]))
					}
					guard[id.Name] = true
					continue
				}
				if cl, ok := x.Rhs[0].(*ast.CompositeLit); ok && !ri.setter {
					if t, ok := cl.Type.(*ast.Ident); !ok || t.Name != ri.helper {
						c.reflFail(ri, st, "composite literal of a type other than %s", ri.helper)
					}
					if x.Tok == token.DEFINE {
						if resVar != "" {
							c.reflFail(ri, st, "second result variable")
						}
						resVar = id.Name
					} else if id.Name != resVar {
						c.reflFail(ri, st, "assignment to %s", id.Name)
					}
					if len(ri.copies) > 0 {
						c.reflFail(ri, st, "result assigned after fields were copied")
					}
					lit(cl, nil)
					continue
				}
				c.reflFail(ri, st, "assignment %s", c.nodeText(x))
			}
			if p, ok := selPath(x.Lhs[0], resVar); ok && !ri.setter && resVar != "" && x.Tok == token.ASSIGN {
				call, ok := isCall(x.Rhs[0], "iVal", 2)
				if !ok {
					c.reflFail(ri, st, "field value %s", c.src(x.Rhs[0]))
				}
				s, ok := strArg(call.Args[1])
				if !ok {
					c.reflFail(ri, call, "field name is not a string literal")
				}
				ri.copies = append(ri.copies, reflCopy{p, s, st})
				continue
			}
			c.reflFail(ri, st, "assignment %s", c.nodeText(x))
		case *ast.IfStmt:
			un, ok := x.Cond.(*ast.UnaryExpr)
			if x.Init != nil || x.Else != nil || !ok || un.Op != token.NOT || !guardExpr(un.X) {
				c.reflFail(ri, st, "if statement (only `if !<hasVal guard> { return …, err }`)")
			}
			if len(x.Body.List) != 1 {
				c.reflFail(ri, st, "guard body")
			}
			r, ok := x.Body.List[0].(*ast.ReturnStmt)
			if !ok || len(r.Results) != ri.nres || ri.nres == 0 {
				c.reflFail(ri, st, "guard body must return the error")
			}
			if id, ok := r.Results[len(r.Results)-1].(*ast.Ident); !ok || id.Name == "nil" {
				c.reflFail(ri, st, "guard body must return a non-nil error")
			}
		case *ast.ExprStmt:
			call, ok := isCall(x.X, "setIVal", 3)
			if !ok || !ri.setter {
				c.reflFail(ri, st, "statement %s", c.nodeText(x))
			}
			s, ok := strArg(call.Args[1])
			if !ok {
				c.reflFail(ri, call, "field name is not a string literal")
			}
			p, ok := selPath(call.Args[2], valVar)
			if !ok {
				c.reflFail(ri, call, "copied value %s (only field paths of %s)", c.src(call.Args[2]), valVar)
			}
			ri.copies = append(ri.copies, reflCopy{p, s, st})
		case *ast.ReturnStmt:
			returned = true
			if len(x.Results) != ri.nres {
				c.reflFail(ri, st, "return")
			}
			for j, r := range x.Results {
				id, ok := r.(*ast.Ident)
				if !ok {
					c.reflFail(ri, st, "return value %s", c.src(r))
				}
				if !ri.setter && j == 0 {
					if id.Name != resVar {
						c.reflFail(ri, st, "return of %s instead of %s", id.Name, resVar)
					}
				} else if id.Name != "nil" {
					c.reflFail(ri, st, "return value %s", id.Name)
				}
			}
		default:
			c.reflFail(ri, st, "statement %T", st)
		}
	}
	if vVar == "" {
		c.reflFail(ri, fd, "missing v := reflect.Indirect(reflect.ValueOf(%s))", cfgVar)
	}
	if ri.nres > 0 && !returned {
		c.reflFail(ri, fd, "missing return")
	}
	return ri
}

// cfgArg checks the configuration argument of a reflective helper and
// returns its variable; all names the helper touches must be int fields.
func (c *codegen) cfgArg(ri *reflInfo, call *ast.CallExpr) *varInfo {
	arg := call.Args[0]
	if u, isAddr := arg.(*ast.UnaryExpr); isAddr && u.Op == token.AND {
		// &x of a struct variable x modelled by value: the helper reads / writes the fields of x
		arg = u.X
	}
	id, ok := arg.(*ast.Ident)
	if !ok {
		c.fail(call, "argument %s of %s (only the receiver or a local struct variable)", c.src(call.Args[0]), ri.name)
	}
	v := c.lookup(id.Name)
	if v == nil || v.typ.kind != kStruct {
		c.fail(call, "argument %s of %s is not a struct variable", id.Name, ri.name)
	}
	has := map[string]bool{}
	for _, f := range c.structFields(v.typ.name, call) {
		if f.typ.kind == kInt {
			has[f.name] = true
		}
	}
	for _, r := range ri.required {
		if !has[r] {
			c.fail(call, "%s(%s): struct %s has no int field %s, the helper returns an error", ri.name, id.Name, v.typ.name, r)
		}
	}
	for _, cp := range ri.copies {
		if !has[cp.field] {
			c.fail(call, "%s(%s): struct %s has no int field %s, the helper panics", ri.name, id.Name, v.typ.name, cp.field)
		}
	}
	return v
}

func pathKey(p []string) string { return strings.Join(p, ".") }

func (c *codegen) reflGet(ri *reflInfo, call *ast.CallExpr) (string, gtype) {
	if len(call.Args) != 1 {
		c.fail(call, "%s with %d arguments", ri.name, len(call.Args))
	}
	v := c.cfgArg(ri, call)
	src := map[string]string{}
	for _, cp := range ri.copies {
		src[pathKey(cp.path)] = cp.field // a later copy overrides an earlier one
	}
	usedKeys := map[string]bool{}
	var build func(s string, prefix []string) string
	build = func(s string, prefix []string) string {
		var fs []string
		for _, f := range c.structFields(s, call) {
			p := append(append([]string{}, prefix...), f.name)
			var val string
			switch {
			case f.typ.kind == kStruct:
				val = build(f.typ.name, p)
			case f.typ.kind == kInt && src[pathKey(p)] != "":
				val = v.lean + "." + src[pathKey(p)]
				usedKeys[pathKey(p)] = true
			default:
				val = c.zeroOf(f.typ, call)
			}
			fs = append(fs, f.name+" := "+val)
		}
		return "{ " + strings.Join(fs, ", ") + " }"
	}
	t := gtype{kind: kStruct, name: ri.helper}
	c.needStruct(ri.helper, call)
	s := build(ri.helper, nil)
	for _, cp := range ri.copies {
		if !usedKeys[pathKey(cp.path)] {
			c.fail(cp.pos, "%s: %s.%s is not an int field", ri.name, ri.helper, pathKey(cp.path))
		}
	}
	return "(" + s + " : " + ri.helper + ")", t
}

func (c *codegen) reflSet(ri *reflInfo, call *ast.CallExpr) []string {
	if len(call.Args) != 2 {
		c.fail(call, "%s with %d arguments", ri.name, len(call.Args))
	}
	v := c.cfgArg(ri, call)
	val, t := c.expr(call.Args[1], gtype{}, false)
	if t.kind != kStruct || t.name != ri.helper {
		c.fail(call, "second argument of %s has type %s, want %s", ri.name, t, ri.helper)
	}
	seen := map[string]bool{}
	var fs []string
	for _, cp := range ri.copies {
		if seen[cp.field] {
			c.fail(cp.pos, "%s writes field %s twice", ri.name, cp.field)
		}
		seen[cp.field] = true
		pt := t
		for _, f := range cp.path {
			pt = c.fieldType(pt, f, cp.pos)
		}
		if pt.kind != kInt {
			c.fail(cp.pos, "%s copies %s of type %s", ri.name, pathKey(cp.path), pt)
		}
		fs = append(fs, cp.field+" := "+paren(val)+"."+pathKey(cp.path))
	}
	if len(fs) == 0 {
		return nil
	}
	return []string{"let " + v.lean + " : " + v.typ.lean() + " := { " + v.lean + " with " + strings.Join(fs, ", ") + " }"}
}

// ---------------------------------------------------------------- mutation analysis

// computeMutates: a whitelisted method mutates its (pointer) receiver if it
// assigns to a path rooted at the receiver, calls a mutating method on such a
// path, or passes the receiver to a reflective setter.
func (c *codegen) computeMutates() {
	for changed := true; changed; {
		changed = false
		for _, k := range c.white {
			if c.mutates[k] || k.recv == "" {
				continue
			}
			fd := c.fns[k]
			if fd.Recv == nil || len(fd.Recv.List[0].Names) != 1 {
				continue
			}
			if _, ptr := fd.Recv.List[0].Type.(*ast.StarExpr); !ptr {
				continue
			}
			r := fd.Recv.List[0].Names[0].Name
			rooted := func(e ast.Expr) bool {
				id := rootIdent(e)
				return id != nil && id.Name == r
			}
			typeOfPath := func(e ast.Expr) string {
				var p []string
				for {
					if se, ok := e.(*ast.SelectorExpr); ok {
						p = append([]string{se.Sel.Name}, p...)
						e = se.X
						continue
					}
					break
				}
				t := k.recv
				for _, f := range p {
					nt := ""
					for _, sf := range c.structs[t] {
						// a named field, or an embedded struct selected by its type name
						if sf.name == f || (sf.name == "" && sf.typ == f) {
							nt = sf.typ
						}
					}
					if nt == "" {
						// a field promoted from an embedded struct
						for _, sf := range c.structs[t] {
							if sf.name != "" {
								continue
							}
							for _, pf := range c.structs[sf.typ] {
								if pf.name == f || (pf.name == "" && pf.typ == f) {
									nt = pf.typ
								}
							}
						}
					}
					if nt == "" {
						nt = c.rawPromotedFieldType(t, f) // deeper chains (code_parse.go)
					}
					t = nt
				}
				return t
			}
			m := false
			ast.Inspect(fd.Body, func(n ast.Node) bool {
				switch x := n.(type) {
				case *ast.AssignStmt:
					if x.Tok != token.DEFINE {
						for _, l := range x.Lhs {
							if rooted(l) {
								m = true
							}
						}
					}
				case *ast.IncDecStmt:
					if rooted(x.X) {
						m = true
					}
				case *ast.CallExpr:
					// fifth part: an interface value of the receiver handed to a callee may be used by it
					for _, a := range x.Args {
						if _, isSel := a.(*ast.SelectorExpr); isSel && rooted(a) && c.ifaceByStr(typeOfPath(a)) != nil {
							m = true
						}
					}
					if c.spWritesRooted(x, rooted) { // code_opq.go
						m = true
					}
					switch f := x.Fun.(type) {
					case *ast.SelectorExpr:
						if rooted(f.X) && c.mutates[fnKey{typeOfPath(f.X), f.Sel.Name}] {
							m = true
						}
						// a method promoted from an embedded struct (code_parse.go)
						if rooted(f.X) {
							if tp := typeOfPath(f.X); tp != "" && c.fns[fnKey{tp, f.Sel.Name}] == nil {
								if pp := c.promotedMethod(tp, f.Sel.Name, fd); pp != nil && c.mutates[fnKey{pp[len(pp)-1], f.Sel.Name}] {
									m = true
								}
							}
						}
						// fifth part: a method call on an interface value changes the state behind it
						if rooted(f.X) && c.ifaceByStr(typeOfPath(f.X)) != nil {
							m = true
						}
					case *ast.Ident:
						if f.Name == "copy" && len(x.Args) == 2 && rooted(x.Args[0]) {
							m = true
						}
						if f.Name == "clear" && len(x.Args) == 1 && rooted(x.Args[0]) && c.fns[fnKey{"", "clear"}] == nil {
							m = true
						}
						// a slice of the receiver handed to a package-level function that writes its elements
						if hd := c.fns[fnKey{"", f.Name}]; hd != nil && hd.Recv == nil {
							for i, a := range x.Args {
								if rooted(a) && c.writesParam(hd, i, 0) {
									m = true
								}
							}
						}
						if ri := c.reflOf(f.Name); ri != nil && ri.setter && len(x.Args) > 0 && rooted(x.Args[0]) {
							m = true
						}
					}
				}
				return !m
			})
			if m {
				c.mutates[k] = true
				changed = true
			}
		}
	}
}

// writesParam: the function (syntactically) writes elements of its i-th parameter — by an element
// assignment, copy, clear, or by handing it to a package-level function that does.
func (c *codegen) writesParam(fd *ast.FuncDecl, i, depth int) bool {
	if fd == nil || fd.Body == nil || fd.Type.Params == nil || depth > 4 {
		return false
	}
	name := ""
	n := 0
	for _, f := range fd.Type.Params.List {
		for _, id := range f.Names {
			if n == i {
				name = id.Name
			}
			n++
		}
	}
	if name == "" || name == "_" {
		return false
	}
	rooted := func(e ast.Expr) bool {
		id := rootIdent(e)
		return id != nil && id.Name == name
	}
	w := false
	ast.Inspect(fd.Body, func(n ast.Node) bool {
		switch x := n.(type) {
		case *ast.AssignStmt:
			if x.Tok != token.DEFINE {
				for _, l := range x.Lhs {
					if rooted(l) && indexOf(l) != nil {
						w = true
					}
				}
			}
		case *ast.IncDecStmt:
			if rooted(x.X) && indexOf(x.X) != nil {
				w = true
			}
		case *ast.CallExpr:
			if f, ok := x.Fun.(*ast.Ident); ok {
				if (f.Name == "copy" || f.Name == "clear") && len(x.Args) > 0 && rooted(x.Args[0]) {
					w = true
				}
				if hd := c.fns[fnKey{"", f.Name}]; hd != nil && hd.Recv == nil {
					for j, a := range x.Args {
						if rooted(a) && c.writesParam(hd, j, depth+1) {
							w = true
						}
					}
				}
			}
		}
		return !w
	})
	return w
}

// ---------------------------------------------------------------- driver

func (c *codegen) ensure(k fnKey, at ast.Node) {
	if c.done[k] {
		return
	}
	if c.busy[k] {
		c.fail(at, "recursive call of %s", fnName(k))
	}
	c.busy[k] = true
	saved, savedPhase, savedPhase3, savedPhase4, savedPhase5 := c.cur, c.phase2, c.phase3, c.phase4, c.phase5
	defer func() { c.phase4, c.phase5 = savedPhase4, savedPhase5 }()
	c.phase5 = c.phase5 && c.white5Set[k]
	var out fnOut
	if c.white4Set[k] {
		if !c.phase4 {
			c.fail(at, "internal error: function %s of the fourth part needed by an earlier part", fnName(k))
		}
		out = c.function2(k)
	} else if c.white3Set[k] {
		if !c.phase3 {
			c.fail(at, "internal error: function %s of the third part needed by an earlier part", fnName(k))
		}
		c.phase4 = false
		out = c.function2(k)
	} else if c.white2Set[k] {
		if !c.phase2 {
			c.fail(at, "internal error: function %s of the second part needed by the first part", fnName(k))
		}
		c.phase3, c.phase4 = false, false
		out = c.function2(k)
	} else {
		c.phase2, c.phase3, c.phase4 = false, false, false
		out = c.function(k)
	}
	c.cur, c.phase2, c.phase3 = saved, savedPhase, savedPhase3
	c.busy[k] = false
	c.done[k] = true
	c.outs = append(c.outs, out)
}

var codeWhitelist = []fnKey{
	{"", "iverson"}, {"", "doz"}, {"", "min"},
	{"", "hashValue"}, {"", "XZCost"},
	{"Seq", "Len"}, {"Block", "Len"},
	{"BufConfig", "SetDefaults"}, {"BufConfig", "Verify"},
	{"hashConfig", "SetDefaults"}, {"hashConfig", "Verify"},
	{"dhConfig", "SetDefaults"}, {"dhConfig", "Verify"},
	{"bucketConfig", "SetDefaults"}, {"bucketConfig", "Verify"},
	{"HPConfig", "SetDefaults"}, {"HPConfig", "Verify"},
	{"BHPConfig", "SetDefaults"}, {"BHPConfig", "Verify"},
	{"DHPConfig", "SetDefaults"}, {"DHPConfig", "Verify"},
	{"BDHPConfig", "SetDefaults"}, {"BDHPConfig", "Verify"},
	{"BUPConfig", "SetDefaults"}, {"BUPConfig", "Verify"},
	{"GSAPConfig", "SetDefaults"}, {"GSAPConfig", "Verify"},
	{"OSAPConfig", "SetDefaults"}, {"OSAPConfig", "Verify"},
	{"DecoderConfig", "SetDefaults"}, {"DecoderConfig", "Verify"},
}

// codeWhitelist2: the buffer state machines (second part of Code.lean).
var codeWhitelist2 = []fnKey{
	{"ParserBuffer", "Shrink"}, {"ParserBuffer", "ByteAt"}, {"ParserBuffer", "PeekAt"},
	{"ParserBuffer", "ReadAt"}, {"ParserBuffer", "Reset"}, {"ParserBuffer", "grow"},
	{"ParserBuffer", "Write"}, {"ParserBuffer", "Init"},
	{"DecoderBuffer", "Init"}, {"DecoderBuffer", "Reset"}, {"DecoderBuffer", "ByteAtEnd"},
	{"DecoderBuffer", "Read"}, {"DecoderBuffer", "shrink"}, {"DecoderBuffer", "WriteByte"},
	{"DecoderBuffer", "Write"}, {"DecoderBuffer", "WriteMatch"}, {"DecoderBuffer", "WriteBlock"},
}

const leanPrelude2 = `/-! ### second prelude: panics, byte slices with capacity, fuel -/

/-- outcome of a Go computation that may panic: ` + "`ok a`" + ` — it returns a; ` + "`panic`" + ` — the Go code
    panics (index or slice bounds out of range, ` + "`make`" + ` with len > cap or a negative size);
    ` + "`fuel`" + ` — a ` + "`for`" + ` loop was unrolled ` + "`fuel`" + ` times without leaving it (an artefact of the
    translation of loops: it says nothing about the Go code; the theorems show it does not occur) -/
inductive Res (α : Type) where
  | ok (a : α)
  | panic
  | fuel
deriving DecidableEq, Repr, Inhabited

def Res.bind {α β : Type} : Res α → (α → Res β) → Res β
  | .ok a, f => f a
  | .panic, _ => .panic
  | .fuel, _ => .fuel

/-- a ` + "`[]byte`" + ` value: ` + "`arr`" + ` is the backing array from the first element of the slice to the
    end of its capacity (so ` + "`cap = arr.length`" + `), ` + "`len`" + ` the length; the elements of the slice are
    ` + "`arr.take len`" + `.  Slices are values: two slices never share memory. -/
structure Slice where
  arr : List UInt8
  len : Nat
deriving DecidableEq, Repr, Inhabited

namespace Slice

/-- the nil slice -/
def nil : Slice := { arr := [], len := 0 }

def cap (s : Slice) : Nat := s.arr.length

/-- the elements -/
def data (s : Slice) : List UInt8 := s.arr.take s.len

/-- ` + "`s[i:j]`" + ` (` + "`s[i:]`" + ` is ` + "`s[i:len(s)]`" + `, ` + "`s[:j]`" + ` is ` + "`s[0:j]`" + `): panics unless 0 ≤ i ≤ j ≤ cap(s) -/
def slice (s : Slice) (i j : Int) : Res Slice :=
  if 0 ≤ i ∧ i ≤ j ∧ j ≤ Int.ofNat s.cap then
    Res.ok { arr := s.arr.drop i.toNat, len := j.toNat - i.toNat }
  else Res.panic

/-- ` + "`s[i]`" + `: panics unless 0 ≤ i < len(s) -/
def index (s : Slice) (i : Int) : Res UInt8 :=
  if 0 ≤ i ∧ i < Int.ofNat s.len then Res.ok (s.arr.getD i.toNat 0) else Res.panic

/-- ` + "`copy(dst, src)`" + `: the modified dst and the number of bytes copied (memmove semantics) -/
def copy (dst src : Slice) : Slice × Int :=
  let n := Nat.min dst.len src.len
  ({ arr := src.arr.take n ++ dst.arr.drop n, len := dst.len }, Int.ofNat n)

/-- ` + "`make([]byte, n, c)`" + `: panics unless 0 ≤ n ≤ c -/
def make (n c : Int) : Res Slice :=
  if 0 ≤ n ∧ n ≤ c then Res.ok { arr := List.replicate c.toNat 0, len := n.toNat } else Res.panic

/-- ` + "`append(s, bs...)`" + `: in place if the capacity suffices, else into a new zeroed array whose
    capacity ` + "`grow oldCap neededLen`" + ` is chosen by the run time -/
def append (grow : Nat → Nat → Nat) (s : Slice) (bs : List UInt8) : Slice :=
  let n := s.len + bs.length
  if n ≤ s.cap then { arr := s.arr.take s.len ++ bs ++ s.arr.drop n, len := n }
  else { arr := s.arr.take s.len ++ bs ++ List.replicate (grow s.cap n - n) 0, len := n }

end Slice
`

const leanPrelude = `/-! ### fixed prelude: the meaning of the Go primitives the translation refers to -/

/-- Go ` + "`error`" + ` values: ` + "`nil`" + `, or the k-th ` + "`fmt.Errorf`/`errors.New`" + ` of the function that
    created it (numbered from 1 in source order) -/
inductive Err where
  | ok
  | error (k : Nat)
deriving DecidableEq, Repr, Inhabited

/-- ` + "`x & y`" + ` on Go ` + "`int`" + ` modelled as unbounded two's-complement integers -/
def iand : Int → Int → Int
  | .ofNat m, .ofNat n => Int.ofNat (m &&& n)
  | .ofNat m, .negSucc n => Int.ofNat (Nat.bitwise (fun a b => a && !b) m n)
  | .negSucc m, .ofNat n => Int.ofNat (Nat.bitwise (fun a b => !a && b) m n)
  | .negSucc m, .negSucc n => .negSucc (m ||| n)

/-- ` + "`x | y`" + ` on Go ` + "`int`" + ` modelled as unbounded two's-complement integers -/
def ior : Int → Int → Int
  | .ofNat m, .ofNat n => Int.ofNat (m ||| n)
  | .ofNat m, .negSucc n => .negSucc (Nat.bitwise (fun a b => !a && b) m n)
  | .negSucc m, .ofNat n => .negSucc (Nat.bitwise (fun a b => a && !b) m n)
  | .negSucc m, .negSucc n => .negSucc (m &&& n)

/-- Go shifts of unsigned values: a count ≥ the width yields 0 -/
def shrU64 (x : UInt64) (s : Nat) : UInt64 := if s < 64 then x >>> UInt64.ofNat s else 0
def shlU64 (x : UInt64) (s : Nat) : UInt64 := if s < 64 then x <<< UInt64.ofNat s else 0
def shrU32 (x : UInt32) (s : Nat) : UInt32 := if s < 32 then x >>> UInt32.ofNat s else 0
def shlU32 (x : UInt32) (s : Nat) : UInt32 := if s < 32 then x <<< UInt32.ofNat s else 0
def shrU8 (x : UInt8) (s : Nat) : UInt8 := if s < 8 then x >>> UInt8.ofNat s else 0
def shlU8 (x : UInt8) (s : Nat) : UInt8 := if s < 8 then x <<< UInt8.ofNat s else 0

/-- ` + "`bits.Len32`" + `: number of bits needed to represent x, 0 for x = 0 -/
def bitsLen32 (x : UInt32) : Int := if x = 0 then 0 else Int.ofNat (Nat.log2 x.toNat + 1)
/-- ` + "`bits.Len64`" + ` -/
def bitsLen64 (x : UInt64) : Int := if x = 0 then 0 else Int.ofNat (Nat.log2 x.toNat + 1)
`

func genCode(p *pkgInfo, repo, outFile string) {
	c := &codegen{p: p, fns: p.funcs(), structs: p.structs(), constTypes: map[string]ast.Expr{},
		whiteSet: map[fnKey]bool{}, mutates: map[fnKey]bool{}, refl: map[string]*reflInfo{},
		structSeen: map[string]bool{}, done: map[fnKey]bool{}, busy: map[fnKey]bool{},
		structPhase: map[string]int{}, sigs: map[fnKey]*fnSig{}, white2Set: map[fnKey]bool{}, white3Set: map[fnKey]bool{}}
	for _, f := range p.files {
		for _, d := range f.Decls {
			if gd, ok := d.(*ast.GenDecl); ok && gd.Tok == token.CONST {
				var lastT ast.Expr
				for _, s := range gd.Specs {
					vs := s.(*ast.ValueSpec)
					if len(vs.Values) > 0 {
						lastT = vs.Type
					}
					for _, n := range vs.Names {
						c.constTypes[n.Name] = lastT
					}
				}
			}
		}
	}
	c.white = append(append([]fnKey{}, codeWhitelist...), codeWhitelist2...)
	for _, k := range c.white {
		if c.fns[k] == nil {
			fatal(fmt.Errorf("whitelisted function %s not found in %s", fnName(k), repo))
		}
		c.whiteSet[k] = true
	}
	for _, k := range codeWhitelist2 {
		c.white2Set[k] = true
	}
	c.checkReflPrims()
	c.computeMutates()
	c.collectErrVars()
	for _, k := range codeWhitelist {
		c.ensure(k, c.fns[k])
	}
	nstruct1, nout1 := len(c.structUse), len(c.outs)
	c.phase2 = true
	for _, k := range codeWhitelist2 {
		c.ensure(k, c.fns[k])
	}
	c.phase2 = false

	var sb strings.Builder
	w := func(format string, a ...interface{}) { fmt.Fprintf(&sb, format+"\n", a...) }
	_ = repo
	w("-- GENERATED by tools/extract -code from the repository source — do not edit; regenerated on every check")
	w("-- Mechanical translation of the whitelisted Go functions (see NOTES.md for the subset).")
	w("-- Go int/int64 ↦ Int (unbounded; overflow is out of scope), uint32 ↦ UInt32,")
	w("-- uint64/uint ↦ UInt64 (wrap-around), error ↦ Err, struct ↦ structure, []T ↦ List T.")
	w("set_option linter.unusedVariables false")
	w("namespace LZ.Gen")
	w("")
	sb.WriteString(leanPrelude)
	w("")
	w("/-! ### structures (one per Go struct the whitelisted functions touch) -/")
	emitStruct := func(s string) {
		w("")
		w("/-- `type %s struct` -/", goStruct(s))
		w("structure %s where", s)
		for _, f := range c.structFields(s, nil) {
			w("  %s : %s", f.name, f.typ.lean())
		}
		w("deriving DecidableEq, Repr, Inhabited")
	}
	for _, s := range c.structUse[:nstruct1] {
		emitStruct(s)
	}
	w("")
	w("/-! ### reflective field-copy helpers, as read from their source (inlined at the call sites) -/")
	var rnames []string
	for n, ri := range c.refl {
		if ri != nil {
			rnames = append(rnames, n)
		}
	}
	sortStrings(rnames)
	for _, n := range rnames {
		ri := c.refl[n]
		var cps []string
		for _, cp := range ri.copies {
			if ri.setter {
				cps = append(cps, fmt.Sprintf("cfg.%s := %s", cp.field, pathKey(cp.path)))
			} else {
				cps = append(cps, fmt.Sprintf("%s := cfg.%s", pathKey(cp.path), cp.field))
			}
		}
		kind := "getter"
		if ri.setter {
			kind = "setter"
		}
		w("-- %s (%s, %s of %s): requires [%s]; %s", n, c.pos(ri.fd), kind, ri.helper,
			strings.Join(ri.required, ", "), strings.Join(cps, ", "))
	}
	w("")
	w("/-! ### functions -/")
	for _, o := range c.outs[:nout1] {
		w("")
		for _, l := range o.lines {
			w("%s", l)
		}
	}
	w("")
	// ------------------------------------------------ second part
	w("/-! ## second part: the buffer state machines (byte slices, panics, loops) -/")
	w("")
	sb.WriteString(leanPrelude2)
	w("")
	w("/-! ### package-level error variables: distinct constants (numbered from %d in alphabetical", errVarBase+1)
	w("    order of all `var X = errors.New(…)` of the package; never assigned anywhere in the package) -/")
	names := append([]string{}, c.errVarUse...)
	sortStrings(names)
	for _, n := range names {
		ev := c.errVars[n]
		w("")
		w("/-- `var %s = errors.New(%s)` — %s -/", n, strconv.Quote(ev.msg), c.pos(ev.pos))
		w("def %s : Err := Err.error %d", ev.lean, ev.num)
	}
	w("")
	w("/-! ### structures of the second part (`[]byte` fields are `Slice`; an embedded struct is a field")
	w("    named after its type) -/")
	for _, s := range c.structUse[nstruct1:] {
		emitStruct(s)
	}
	w("")
	w("/-! ### functions of the second part -/")
	for _, o := range c.outs[nout1:] {
		w("")
		for _, l := range o.lines {
			w("%s", l)
		}
	}
	w("")
	w("end LZ.Gen")
	if err := os.WriteFile(outFile, []byte(sb.String()), 0o644); err != nil {
		fatal(err)
	}
}

func sortStrings(xs []string) {
	for i := 1; i < len(xs); i++ {
		for j := i; j > 0 && xs[j] < xs[j-1]; j-- {
			xs[j], xs[j-1] = xs[j-1], xs[j]
		}
	}
}
