module lzextract

go 1.22.0
