// code_osap.go — ninth part of the translation: what osap.go (the OPTIMIZING suffix-array parser) needs on top of
// the eighth part, and its topics (topicsOsap below; topics of the fifth part).  The hooks in the other files are
// marked "code_osap.go".  Nothing here is keyed on a function, type or variable name of the repository: the
// per-topic data are the function lists of topicsOsap and the entries of spTopics (code_opq.go): the one that makes
// `(*optSuffixArrayParser).computeEdges` an opaque state-passing METHOD of topic OSAPParse, and the callees of topic OSAPEdges.
//
//	field of function     a struct field `f func(A…) R` (A, R numeric or bool, exactly one result) is DEFUNCTIONALISED:
//	type                  its Lean type is Int, a CODE — 0 = nil, i = the i-th (alphabetical) of the package-level
//	(fnFieldOf)           functions that are stored into a field of that NAME anywhere in the package (every
//	                      assignment `X.f = G`, every keyed composite literal `{f: G}`; G must be the identifier of a
//	                      package-level function of the same signature that is a translated PURE function of the
//	                      first part, or nil; anything else — a closure, a method value, `&X.f`, a positional literal
//	                      of the struct, `:=` / op-assignment — refuses every topic that touches the struct).
//	                      `X.f = G` ↦ `{ X with f := i }`; the call `X.f(a…)` ↦ `Res.bind (T_f X.f a…)` with the
//	                      generated dispatch function `T_f (code) (a…) : Res R := if code = 1 then Res.ok (G1 a…) else
//	                      … else Res.panic` (calling a nil function value panics in Go; a code that names no function
//	                      cannot arise).  The dispatch function is emitted by the first topic that calls through the
//	                      field.  The structure keeps `deriving DecidableEq, Repr, Inhabited` (default 0 = nil).
//	                      TRUSTED: the field is not written by reflection / unsafe, or from another package (fields
//	                      are matched by name over the package being translated).
//	slices of slices      `[][]T` ↦ `GSlice (GSlice T)` (typeOfStr is recursive already).  The elements are VALUES: the
//	                      translation agrees with Go as long as no two live slice values that share an array are used
//	                      to write.  Enforced: `X[i][j] = v` and `X[i] = append(X[i], e)` are refused (assignElem: one
//	                      index step, no append into an element); `X[i] = P` only for a fresh P (checkNoSliceAlias);
//	                      `v := X[i]` is refused; the VALUE variable of `for i, q := range X` (a copy of the header
//	                      X[i]) must be defined by the range statement and used only as `len(q)`, `q[j]` (read) and
//	                      `range q` (checkReadOnlyElemSlice).
//	local alias of a      `v := P[i:j]` / `v := P`, P a variable or field path of type []T (T ≠ byte), v a new local:
//	slice value           accepted as for []byte (code_parse.go): the alias is recorded (noteSliceAlias) and from the
//	(aliasableSlice)      aliasing statement on every write through v or P — element assignment, append, clear, a
//	                      callee that writes it, a mutating method on a struct that contains it — is refused
//	                      (checkAliasWrite).  The earlier parts refuse the copy.
//	consumed slice        a slice parameter p of a function WITH a receiver (or next to other slices) is admitted when
//	parameter             every occurrence of p in the body is `p = append(p, e)`, `len(p)`, `p[i]` (read) or a result
//	(consumedParam)       of `return` (consumedParam): the function appends to the value it was handed and gives it
//	                      back; it never observes the elements between len and cap of the argument and writes no
//	                      element below len.  A result of slice type is admitted when every return statement returns
//	                      that parameter (consumedResult).  At the CALL the argument must be `X.f[:0]` with f a SCRATCH
//	                      field (scratchField): every occurrence of a selector `.f` in the whole package is the
//	                      statement `X.f = X.f[:0]` or — in exactly ONE place — the operand of `X.f[:0]`.  So nothing
//	                      reads or writes an element through the field, its capacity never changes, and only one
//	                      expression ever hands its array out.  The result must be bound by `v := call` to a local
//	                      that is only read (`len(v)`, `v[i]`, `range v`; consumedCallResult) — it cannot be stored,
//	                      returned or re-sliced, so it is dead when the statement is executed again.  Under these
//	                      conditions the value semantics is exact: the model's X.f keeps `len = 0` and its (never
//	                      observed) array, the callee's appends go to the value it returns (`GSlice.append` models
//	                      in-place growth up to the capacity through `grow`).
//	parallel define with  `m, o := d[i].m, d[i].o`: every left side a plain, distinct variable, no right side reads an
//	operations that may   assigned variable (usesIdent now ignores the FIELD name of a selector), no call with effects:
//	panic                 the operations that may only panic are hoisted in front of the statement (every panic is the
//	                      same `Res.panic`).  With an element assignment on the left it stays refused (the hoisted
//	                      `set` of the second would read the slice before the first).
//	opaque methods        a method listed in spTopics is no longer followed as an unexported helper of its callers
//	                      (helperCallees) nor analysed for out parameters (markCallEffectsIface): it is a parameter.
//
// `(*optSuffixArrayParser).computeEdges` (topic OSAPEdges) needs the constructs of the TENTH part, code_cblift.go: the
// zero-length windows `s.edges[i] = s.edgeBuf[k:k:k+4]`, `*p = append(*p, e)` into such a window, the closure handed to
// suffix.Segments (lambda-lifted at source level and folded over the log of the callback calls with write-back of the window
// of `sa` it sorts), `slices.Sort` (a callee without declaration in the repository), `if edgeStats {…}` on a constant.  For
// `Parse` (topic OSAPParse) computeEdges stays an opaque state-passing method under the hypothesis `CESpec`
// (LzProofs/GenOSAPParseLemmas.lean); LzProofs/GenOSAPHistGo.lean discharges it for the translation (notes/osap-history.md).
package main

import (
	"go/ast"
	"go/token"
	"strings"
)

// topicsOsap: the topics of this file; they are topics of the fifth part.
var topicsOsap = []topic{
	{name: "OSAPPath", doc: "osap.go: optSuffixArrayParser.shortestPath",
		fns: methods("optSuffixArrayParser", "shortestPath"), part2: true},
	{name: "OSAPParse", doc: "osap.go: optSuffixArrayParser.Parse (computeEdges is an opaque state-passing method); ASSUMES blk != nil",
		fns: methods("optSuffixArrayParser", "Parse"), part2: true},
	{name: "OSAPInit", doc: "osap.go: optSuffixArrayParser.init, Reset, Shrink (with resetEdges)",
		fns: methods("optSuffixArrayParser", "init", "Reset", "Shrink"), part2: true, refl: true},
	{name: "OSAPEdges", doc: "osap.go: optSuffixArrayParser.computeEdges (with its closure f, lambda-lifted: code_cblift.go; suffix.Sort, suffix.LCP, slices.Sort are opaque state-passing parameters, suffix.Segments is the parameter that returns the log of its callback calls)",
		fns: methods("optSuffixArrayParser", "computeEdges"), part2: true},
}

func init() {
	for _, t := range topicsOsap {
		declOrderTopics[t.name] = true
	}
	spTopics["OSAPParse"] = []spCallee{
		// (*optSuffixArrayParser).computeEdges(): not translated (see the header); for Parse it is a parameter with the specification CESpec
		{recv: "optSuffixArrayParser", name: "computeEdges"},
	}
	spTopics["OSAPEdges"] = []spCallee{
		// suffix.Sort(t []byte, sa []int32): reads t, fills sa (suffix/k1.go)
		{pkg: "suffix", name: "Sort", ro: []int{0}},
		// suffix.LCP(t []byte, sa, sainv, lcp []int32): reads t and sa, fills lcp; a missing sa / sainv (nil, or of another length) is computed in a LOCAL array
		{pkg: "suffix", name: "LCP", ro: []int{0, 1, 2}},
		// slices.Sort (standard library, generic): the instantiation computeEdges uses
		{pkg: "slices", name: "Sort", sig: "func Sort(x []int32)"},
		// suffix.Segments(sa, lcp []int32, minLen, maxLen int, f func(m int, segment []int32)): its callback calls are LOGGED
		// (translated in topic SuffixSegments); it reads lcp and len(sa) only, the callback gets the windows sa[lo:hi]
		{pkg: "suffix", name: "Segments", logcb: true, win: 0},
	}
}

// ---------------------------------------------------------------- fields of function type (defunctionalised)

// fnField: a struct field of function type, modelled by a CODE (Int): 0 = nil, i = the i-th (in
// alphabetical order) of the package-level functions that are stored into a field of that name
// anywhere in the package.
type fnField struct {
	strct, field string
	ps           []gtype
	res          gtype
	targets      []string
	lean         string // the dispatch function (without the LZ.Gen prefix)
	pos          ast.Node
}

func stripParens(e ast.Expr) ast.Expr {
	for {
		p, ok := e.(*ast.ParenExpr)
		if !ok {
			return e
		}
		e = p.X
	}
}

// fnFieldOf analyses the field (cached per package).
func (c *codegen) fnFieldOf(strct, field string, at ast.Node) *fnField {
	key := strct + "." + field
	if ff := c.fnFields[key]; ff != nil {
		return ff
	}
	if !c.phase5 {
		c.fail(at, "field type func in struct %s", strct)
	}
	var ft *ast.FuncType
	var pos ast.Node
	for _, f := range c.p.files {
		for _, d := range f.Decls {
			gd, ok := d.(*ast.GenDecl)
			if !ok || gd.Tok != token.TYPE {
				continue
			}
			for _, s := range gd.Specs {
				ts := s.(*ast.TypeSpec)
				st, ok := ts.Type.(*ast.StructType)
				if !ok || ts.Name.Name != strct {
					continue
				}
				for _, fl := range st.Fields.List {
					for _, n := range fl.Names {
						if n.Name == field {
							ft, _ = fl.Type.(*ast.FuncType)
							pos = fl
						}
					}
				}
			}
		}
	}
	if ft == nil {
		c.fail(at, "field %s of struct %s is not of a function type", field, strct)
	}
	ff := &fnField{strct: strct, field: field, lean: strct + "_" + field, pos: pos}
	basic := func(t gtype) bool { return t.numeric() || t.kind == kBool }
	sigOf := func(t *ast.FuncType, what string) ([]gtype, gtype) {
		var ps []gtype
		if t.TypeParams != nil {
			c.fail(at, "%s is generic", what)
		}
		if t.Params != nil {
			for _, p := range t.Params.List {
				if _, ok := p.Type.(*ast.Ellipsis); ok {
					c.fail(at, "%s is variadic", what)
				}
				pt := c.typeOf(p.Type, at)
				if !basic(pt) {
					c.fail(at, "%s has a parameter of type %s (function values: only numeric and bool parameters)", what, pt)
				}
				n := len(p.Names)
				if n == 0 {
					n = 1
				}
				for i := 0; i < n; i++ {
					ps = append(ps, pt)
				}
			}
		}
		if t.Results == nil || len(t.Results.List) != 1 || len(t.Results.List[0].Names) > 1 {
			c.fail(at, "%s does not have exactly one result", what)
		}
		rt := c.typeOf(t.Results.List[0].Type, at)
		if !basic(rt) {
			c.fail(at, "%s has a result of type %s", what, rt)
		}
		return ps, rt
	}
	ff.ps, ff.res = sigOf(ft, "the function type of field "+key)
	// every value stored into a field of that name anywhere in the package
	seen := map[string]bool{}
	store := func(rhs ast.Expr, n ast.Node) {
		id, ok := stripParens(rhs).(*ast.Ident)
		if !ok {
			c.fail(n, "field %s of function type is assigned %s (only package-level functions and nil)", field, c.src(rhs))
		}
		if id.Name == "nil" {
			return
		}
		fd := c.fns[fnKey{"", id.Name}]
		if fd == nil || fd.Recv != nil {
			c.fail(n, "field %s of function type is assigned %s, which is not a package-level function", field, id.Name)
		}
		if !seen[id.Name] {
			seen[id.Name] = true
			ff.targets = append(ff.targets, id.Name)
		}
	}
	for _, f := range c.p.files {
		ast.Inspect(f, func(n ast.Node) bool {
			switch x := n.(type) {
			case *ast.AssignStmt:
				for i, l := range x.Lhs {
					se, ok := stripParens(l).(*ast.SelectorExpr)
					if !ok || se.Sel.Name != field {
						continue
					}
					if len(x.Lhs) != len(x.Rhs) || x.Tok != token.ASSIGN {
						c.fail(x, "field %s of function type is assigned by %s", field, x.Tok)
					}
					store(x.Rhs[i], x)
				}
			case *ast.CompositeLit:
				isT := false
				if id, ok := x.Type.(*ast.Ident); ok && id.Name == strct {
					isT = true
				}
				for _, e := range x.Elts {
					kv, ok := e.(*ast.KeyValueExpr)
					if !ok {
						if isT {
							c.fail(x, "positional composite literal of struct %s, which has a field of function type", strct)
						}
						continue
					}
					if id, ok := kv.Key.(*ast.Ident); ok && id.Name == field {
						store(kv.Value, x)
					}
				}
			case *ast.UnaryExpr:
				if se, ok := stripParens(x.X).(*ast.SelectorExpr); ok && x.Op == token.AND && se.Sel.Name == field {
					c.fail(x, "address of the field %s of function type", field)
				}
			}
			return true
		})
	}
	sortStrings(ff.targets)
	for _, tn := range ff.targets {
		k := fnKey{"", tn}
		fd := c.fns[k]
		ps, rt := sigOf(fd.Type, "function "+tn+" (stored in field "+key+")")
		ok := len(ps) == len(ff.ps) && rt.eq(ff.res)
		for i := range ps {
			ok = ok && i < len(ff.ps) && ps[i].eq(ff.ps[i])
		}
		if !ok {
			c.fail(at, "function %s stored in field %s has a different signature", tn, key)
		}
		if !c.whiteSet[k] || c.white2Set[k] || c.white3Set[k] || c.white4Set[k] {
			c.fail(at, "function %s stored in field %s is not a translated pure function (first part of the whitelist)", tn, key)
		}
	}
	if c.fnFields == nil {
		c.fnFields = map[string]*fnField{}
	}
	c.fnFields[key] = ff
	return ff
}

func (ff *fnField) gtype() gtype { return gtype{kind: kFnVal, name: ff.lean} }

// fnFieldCode: the code of the package-level function `name` in the field described by t.
func (c *codegen) fnFieldCode(t gtype, id *ast.Ident) string {
	for _, ff := range c.fnFields {
		if ff.lean != t.name {
			continue
		}
		if id.Name == "nil" && c.lookup("nil") == nil {
			return "0"
		}
		if c.lookup(id.Name) != nil {
			break
		}
		for i, tn := range ff.targets {
			if tn == id.Name {
				return lit(i + 1)
			}
		}
	}
	c.fail(id, "function value %s (only a package-level function stored into a field of function type)", id.Name)
	return ""
}

func lit(i int) string {
	s := ""
	if i == 0 {
		return "0"
	}
	for i > 0 {
		s = string(rune('0'+i%10)) + s
		i /= 10
	}
	return s
}

// ensureFnField emits the dispatch function of the field (once; owned by the topic that first calls through the field).
func (c *codegen) ensureFnField(ff *fnField, at ast.Node) {
	k := fnKey{ff.strct, ff.field}
	if c.done[k] {
		return
	}
	var bs, as []string
	for i, p := range ff.ps {
		n := "a" + lit(i+1)
		bs = append(bs, " ("+n+" : "+p.lean()+")")
		as = append(as, " "+n)
	}
	lines := []string{
		"/-- the function values of the field `" + ff.field + "` of `" + ff.strct + "` (" + c.pos(ff.pos) + "), a CODE: 0 = nil (calling it panics)" + func() string {
			s := ""
			for i, tn := range ff.targets {
				s += ", " + lit(i+1) + " = `" + tn + "`"
			}
			return s
		}() + " — every function stored into a field of that name anywhere in the package -/",
		"def " + ff.lean + " (code : Int)" + strings.Join(bs, "") + " : Res " + ff.res.lean() + " :=",
	}
	for i, tn := range ff.targets {
		tk := fnKey{"", tn}
		c.ensure(tk, at)
		kw := "  if"
		if i > 0 {
			kw = "  else if"
		}
		lines = append(lines, kw+" code = "+lit(i+1)+" then Res.ok (LZ.Gen."+leanFn(tk)+strings.Join(as, "")+")")
	}
	if len(ff.targets) > 0 {
		lines = append(lines, "  else Res.panic")
	} else {
		lines = append(lines, "  Res.panic")
	}
	c.done[k] = true
	c.outs = append(c.outs, fnOut{key: k, lines: lines})
}

// fnFieldCallee: x is a call `P.f(…)` through a field f of function type, P a variable or field path.
func (c *codegen) fnFieldCallee(x *ast.CallExpr) (*fnField, bool) {
	if !c.phase5 {
		return nil, false
	}
	f, ok := x.Fun.(*ast.SelectorExpr)
	if !ok {
		return nil, false
	}
	id := rootIdent(f.X)
	if id == nil || c.lookup(id.Name) == nil || indexOf(f.X) != nil {
		return nil, false
	}
	v, p := c.path(f.X)
	t := c.pathType(v, p, x)
	if t.kind != kStruct || c.rawPromotedFieldType(goStruct(t.name), f.Sel.Name) != "func" {
		return nil, false
	}
	_, ft := c.fieldPath(t, f.Sel.Name, x)
	if ft.kind != kFnVal {
		return nil, false
	}
	for _, ff := range c.fnFields {
		if ff.lean == ft.name {
			return ff, true
		}
	}
	return nil, false
}

func (c *codegen) fnFieldCall(ff *fnField, x *ast.CallExpr) (string, gtype) {
	if x.Ellipsis.IsValid() || len(x.Args) != len(ff.ps) {
		c.fail(x, "call through the field %s with %d arguments", ff.field, len(x.Args))
	}
	c.ensureFnField(ff, x)
	code, _ := c.expr(x.Fun, gtype{}, false)
	parts := []string{"LZ.Gen." + ff.lean, paren(code)}
	for i, a := range x.Args {
		s, t := c.expr(a, ff.ps[i], false)
		if !t.eq(ff.ps[i]) {
			c.fail(a, "argument %d of the call through field %s has type %s, want %s", i+1, ff.field, t, ff.ps[i])
		}
		parts = append(parts, paren(s))
	}
	return c.bindRes("r", strings.Join(parts, " "), x), ff.res
}

// ---------------------------------------------------------------- consumed slice parameters, scratch fields

// identUses calls f for every occurrence of the identifier name in body, with the chain of its ancestors.
func identUses(body ast.Node, name string, f func(id *ast.Ident, stack []ast.Node)) {
	var stack []ast.Node
	ast.Inspect(body, func(n ast.Node) bool {
		if n == nil {
			stack = stack[:len(stack)-1]
			return true
		}
		if id, ok := n.(*ast.Ident); ok && id.Name == name {
			f(id, stack)
		}
		stack = append(stack, n)
		return true
	})
}

// readOnlyUse: the occurrence id of a slice variable is `len(v)`, `v[i]` in a value position, or the
// operand of `range v`; nothing that could observe the elements beyond len(v) or write an element.
func readOnlyUse(id *ast.Ident, stack []ast.Node) bool {
	if len(stack) == 0 {
		return false
	}
	switch p := stack[len(stack)-1].(type) {
	case *ast.CallExpr:
		return isBuiltin(p, "len") && len(p.Args) == 1 && p.Args[0] == ast.Expr(id)
	case *ast.IndexExpr:
		if p.X != ast.Expr(id) {
			return true // used inside the index: not a use of a slice
		}
		// not the target of an assignment, not under &
		for i := len(stack) - 2; i >= 0; i-- {
			switch q := stack[i].(type) {
			case *ast.SelectorExpr, *ast.ParenExpr:
				continue
			case *ast.AssignStmt:
				for _, l := range q.Lhs {
					if l.Pos() <= id.Pos() && id.End() <= l.End() {
						return false
					}
				}
				return true
			case *ast.IncDecStmt:
				return false
			case *ast.UnaryExpr:
				return q.Op != token.AND
			default:
				return true
			}
		}
		return true
	case *ast.RangeStmt:
		return p.X == ast.Expr(id)
	}
	return false
}

// consumedParam: the slice parameter `name` of fd is used only as `name = append(name, e)`, `len(name)`,
// `name[i]` (read) and `return …, name, …` — the function appends to the value it was handed and gives it
// back; it never observes the elements between len and cap of the argument and writes no element below
// len.  It is then admitted next to a receiver (the reading: the argument is CONSUMED by the call — the
// caller must not use the array it passed afterwards, which callConsumed checks at the call site).
func (c *codegen) consumedParam(fd *ast.FuncDecl, name string) bool {
	if fd.Body == nil {
		return false
	}
	ok, appended := true, false
	identUses(fd.Body, name, func(id *ast.Ident, stack []ast.Node) {
		if len(stack) == 0 {
			ok = false
			return
		}
		switch p := stack[len(stack)-1].(type) {
		case *ast.AssignStmt:
			// name = append(name, e)
			if p.Tok == token.ASSIGN && len(p.Lhs) == 1 && len(p.Rhs) == 1 && p.Lhs[0] == ast.Expr(id) {
				if call, isCall := p.Rhs[0].(*ast.CallExpr); isCall && isBuiltin(call, "append") && len(call.Args) == 2 && !call.Ellipsis.IsValid() {
					if a, isId := call.Args[0].(*ast.Ident); isId && a.Name == name {
						appended = true
						return
					}
				}
			}
			ok = false
		case *ast.CallExpr:
			if isBuiltin(p, "append") && len(p.Args) == 2 && p.Args[0] == ast.Expr(id) && len(stack) >= 2 {
				if as, isAs := stack[len(stack)-2].(*ast.AssignStmt); isAs && len(as.Lhs) == 1 {
					if l, isId := as.Lhs[0].(*ast.Ident); isId && l.Name == name {
						return
					}
				}
			}
			if !readOnlyUse(id, stack) {
				ok = false
			}
		case *ast.ReturnStmt:
			for _, r := range p.Results {
				if r == ast.Expr(id) {
					return
				}
			}
			ok = false
		default:
			if !readOnlyUse(id, stack) {
				ok = false
			}
		}
	})
	_ = appended
	return ok
}

// returnsParam: every return statement of fd returns the parameter `name` as its i-th result.
func returnsParam(fd *ast.FuncDecl, i int) string {
	name := ""
	ok := true
	ast.Inspect(fd.Body, func(n ast.Node) bool {
		if _, isLit := n.(*ast.FuncLit); isLit {
			return false
		}
		r, isRet := n.(*ast.ReturnStmt)
		if !isRet {
			return true
		}
		if i >= len(r.Results) {
			ok = false
			return true
		}
		id, isId := r.Results[i].(*ast.Ident)
		if !isId || (name != "" && id.Name != name) {
			ok = false
			return true
		}
		name = id.Name
		return true
	})
	if !ok {
		return ""
	}
	return name
}

// consumedResult: the i-th result of fd is one of its consumed slice parameters.
func (c *codegen) consumedResult(fd *ast.FuncDecl, i int) bool {
	if fd.Body == nil || fd.Type.Params == nil {
		return false
	}
	name := returnsParam(fd, i)
	if name == "" {
		return false
	}
	for _, p := range fd.Type.Params.List {
		for _, n := range p.Names {
			if n.Name == name {
				if _, isArr := p.Type.(*ast.ArrayType); isArr {
					return c.consumedParam(fd, name)
				}
			}
		}
	}
	return false
}

// scratchField: EVERY occurrence of a selector `.f` in the package is the statement `X.f = X.f[:0]`
// (`[0:0]`), or — in exactly ONE place of the package — the operand of an expression `X.f[:0]`: nothing in
// the package reads or writes an element through the field or observes more of it than its capacity, and at
// most one expression hands its (empty) array out.  nUses is the number of such expressions.
func (c *codegen) scratchField(f string) (ok bool, nUses int) {
	ok = true
	zeroSlice := func(p *ast.SliceExpr) bool {
		return !p.Slice3 && p.High != nil && c.constZeroLit(p.High) && (p.Low == nil || c.constZeroLit(p.Low))
	}
	for _, file := range c.p.files {
		var stack []ast.Node
		ast.Inspect(file, func(n ast.Node) bool {
			if n == nil {
				stack = stack[:len(stack)-1]
				return true
			}
			if se, isSel := n.(*ast.SelectorExpr); isSel && se.Sel.Name == f && len(stack) > 0 {
				switch p := stack[len(stack)-1].(type) {
				case *ast.SliceExpr:
					if !(p.X == ast.Expr(se) && zeroSlice(p)) {
						ok = false
						break
					}
					// the right side of `X.f = X.f[:0]`?
					self := false
					if len(stack) >= 2 {
						if as, isAs := stack[len(stack)-2].(*ast.AssignStmt); isAs && as.Tok == token.ASSIGN && len(as.Lhs) == 1 && len(as.Rhs) == 1 &&
							as.Rhs[0] == ast.Expr(p) && c.src(as.Lhs[0]) == c.src(se) {
							self = true
						}
					}
					if !self {
						nUses++
					}
				case *ast.AssignStmt:
					good := p.Tok == token.ASSIGN && len(p.Lhs) == 1 && len(p.Rhs) == 1 && p.Lhs[0] == ast.Expr(se)
					if good {
						sl, isSl := p.Rhs[0].(*ast.SliceExpr)
						good = isSl && zeroSlice(sl) && c.src(sl.X) == c.src(se)
					}
					if !good {
						ok = false
					}
				default:
					ok = false
				}
			}
			stack = append(stack, n)
			return true
		})
	}
	return ok, nUses
}

func (c *codegen) constZeroLit(e ast.Expr) bool {
	b, ok := stripParens(e).(*ast.BasicLit)
	return ok && b.Kind == token.INT && b.Value == "0"
}

// consumedArgOK: the argument passed for a consumed parameter is `X.f[:0]`, f a scratch field, and this is
// the only expression of the package that hands the array of a field of that name out.
func (c *codegen) consumedArgOK(a ast.Expr) bool {
	sl, ok := stripParens(a).(*ast.SliceExpr)
	if !ok || sl.Slice3 || sl.High == nil || !c.constZeroLit(sl.High) || (sl.Low != nil && !c.constZeroLit(sl.Low)) {
		return false
	}
	se, ok := stripParens(sl.X).(*ast.SelectorExpr)
	if !ok {
		return false
	}
	good, n := c.scratchField(se.Sel.Name)
	return good && n == 1
}

// aliasableSlice: `v := P[i:j]` / `v := P`, v a local variable being defined, P a variable or field path
// (no index step) — the alias of a slice value that noteSliceAlias records, as for []byte (code_parse.go):
// from the aliasing statement on every write through the alias or its source is refused.
func (c *codegen) aliasableSlice(lhs, rhs ast.Expr) bool {
	if _, ok := lhs.(*ast.Ident); !ok {
		return false
	}
	e := rhs
	for {
		switch x := e.(type) {
		case *ast.ParenExpr:
			e = x.X
			continue
		case *ast.SliceExpr:
			if x.Slice3 {
				return false
			}
			e = x.X
			continue
		}
		break
	}
	switch e.(type) {
	case *ast.Ident, *ast.SelectorExpr:
	default:
		return false
	}
	return rootIdent(e) != nil && indexOf(e) == nil && c.lookup(rootIdent(e).Name) != nil
}

// consumedCallResult: `v := X.m(…)` where the single result of m is a consumed parameter (the arguments are
// checked by call2) and the local variable v is only read (`len(v)`, `v[i]`, `range v`) in the function:
// the caller never observes the elements between len and cap, and never writes through v.
func (c *codegen) consumedCallResult(lhs ast.Expr, x *ast.CallExpr) bool {
	id, ok := lhs.(*ast.Ident)
	if !ok || c.cur == nil || c.cur.fd == nil {
		return false
	}
	if _, _, isSP := c.spCalleeOf(x); isSP {
		return false
	}
	k, _, ok := c.calleeOf(x)
	if !ok || c.fns[k] == nil || !c.consumedResult(c.fns[k], 0) {
		return false
	}
	fd := c.fns[k]
	if fd.Type.Results == nil || len(fd.Type.Results.List) != 1 || len(fd.Type.Results.List[0].Names) > 1 {
		return false
	}
	good, defs := true, 0
	identUses(c.cur.fd.Body, id.Name, func(u *ast.Ident, stack []ast.Node) {
		if len(stack) > 0 {
			if as, isAs := stack[len(stack)-1].(*ast.AssignStmt); isAs && as.Tok == token.DEFINE && len(as.Lhs) == 1 && as.Lhs[0] == ast.Expr(u) {
				defs++
				return
			}
		}
		if !readOnlyUse(u, stack) {
			good = false
		}
	})
	return good && defs == 1
}

// checkReadOnlyElemSlice: `for i, q := range P`, P a slice of slices (or of structs that contain slices).
// The value q is a copy of the slice HEADER P[i]: it shares its array with the element.  In the model q is
// an independent value, which agrees with Go as long as nothing is written through q and q is not
// re-sliced beyond its length: q may only be used as `len(q)`, `q[j]` (read) and `range q`, and it must be
// defined by the range statement (`:=`).
func (c *codegen) checkReadOnlyElemSlice(rx *ast.RangeStmt, body *ast.BlockStmt) {
	id, ok := rx.Value.(*ast.Ident)
	if !ok || rx.Tok != token.DEFINE {
		c.fail(rx, "range value of slice type assigned to an existing variable (it shares its array with the element)")
	}
	identUses(body, id.Name, func(u *ast.Ident, stack []ast.Node) {
		if !readOnlyUse(u, stack) {
			c.fail(u, "use of the range value %s of slice type other than len(%s), %s[j] (read), range %s: it shares its array with the element of the slice ranged over", id.Name, id.Name, id.Name, id.Name)
		}
	})
}
