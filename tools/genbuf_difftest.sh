#!/usr/bin/env bash
# Differential check of the second part of the translator (byte slices, panics, loops): the Go
# methods of ParserBuffer / DecoderBuffer are run in a scratch copy of /repo (internal test
# file tools/difftest/zz_genbufdiff_test.go) on 2 x 400 pseudo-random scripts of 30 calls, the
# generated Lean definitions are evaluated by tools/difftest/DiffBuf.lean on the same scripts,
# and the two transcripts (results, errors, panics, complete state incl. the backing array up
# to the capacity) are compared line by line.
set -eu
export GOFLAGS=-mod=mod GOPROXY=off GOSUMDB=off GOTOOLCHAIN=local
HERE="$(cd "$(dirname "$0")/.." && pwd)"
REPO="${REPO:-/repo}"
LEAN="${LEAN_DIR:-$HERE/lean}"
SCRATCH="$(mktemp -d /tmp/pf-genbuf-difftest.XXXXXX)"
trap 'rm -rf "$SCRATCH"' EXIT
mkdir "$SCRATCH/repo"
cp -r "$REPO"/. "$SCRATCH/repo"/
rm -rf "$SCRATCH/repo/.git"
cp "$HERE/tools/difftest/zz_genbufdiff_test.go" "$SCRATCH/repo"/
(cd "$SCRATCH/repo" && GENBUFDIFF_OUT="$SCRATCH/go.txt" go test -count=1 -run '^TestGenBufDiff$' . >"$SCRATCH/gotest.log" 2>&1) \
  || { cat "$SCRATCH/gotest.log"; exit 1; }
(cd "$LEAN" && lake build LzModel.Generated.Code LzModel.Driver >/dev/null 2>&1 && lake env lean --run "$HERE/tools/difftest/DiffBuf.lean") >"$SCRATCH/lean.txt"
n=$(wc -l <"$SCRATCH/go.txt")
np=$(grep -c ' panic$' "$SCRATCH/go.txt" || true)
if cmp -s "$SCRATCH/go.txt" "$SCRATCH/lean.txt"; then
  echo "genbuf difftest: $n lines ($np scripts end in a panic), Go and generated Lean agree on every line"
  cut -d' ' -f1,3 "$SCRATCH/go.txt" | sort | uniq -c | tr '\n' ';'; echo
  echo "error values: $(grep -oE ' (ok|full|outOfBuffer|endOfBuffer|offset|matchLen|litLen|oversize|error) ' "$SCRATCH/go.txt" | sort | uniq -c | tr '\n' ';')"
else
  echo "genbuf difftest: MISMATCH"; diff "$SCRATCH/go.txt" "$SCRATCH/lean.txt" | head -20; exit 1
fi
