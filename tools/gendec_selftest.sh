#!/usr/bin/env bash
# Mutation self-test of the FIFTH part of the Go -> Lean translation (interface values as abstract
# states: the Decoder layer of decoder_buffer.go and wrap.go; tools/extract/code_iface.go) and of
# LzProofs/GenDecoderProps.lean, LzProofs/GenWrapProps.lean; plus the pilot of the parser loop
# (tools/extract/code_parse.go, LzProofs/GenHPParse.lean; the mutants of the greedy loop are in genhp_selftest.sh).
#
# For every mutant: copy the repository to a fresh directory under /tmp, apply one small semantic
# change, regenerate LzModel/Generated/Code*.lean from the copy into a COPY of the lake
# project, and build the GenDecoderProps / GenWrapProps modules there.
#   kind proof    : the build must FAIL (the failing theorems are listed)
#   kind extract  : the extractor must refuse a topic (exit status 3)
#   kind harmless : a behaviour-preserving rewrite — extractor and build must still succeed
# The working tree (<verif>/lean) is never touched; scratch-repo and the copy are removed.
#
# usage: ./gendec_selftest.sh     exit status 0 iff every mutant behaves as expected
set -u
export GOFLAGS=-mod=mod GOPROXY=off GOSUMDB=off GOTOOLCHAIN=local

HERE="$(cd "$(dirname "$0")/.." && pwd)"
REPO="${REPO:-/repo}"
SCRATCH="$(mktemp -d /tmp/pf-gendec-selftest.XXXXXX)"
LEAN="$SCRATCH/lean"
GEN="$LEAN/LzModel/Generated"
MUT="$(mktemp -d /tmp/pf-mutrepo.XXXXXX)/scratch-repo"   # scratch copies of the library live outside /verif and /repo
EXTRACT="$SCRATCH/extract"
TARGETS="${TARGETS:-LzProofs.GenDecoderProps LzProofs.GenWrapProps LzProofs.GenHPParse}"
bad=0; good=0; total=0

cleanup() { rm -rf "$SCRATCH" "$MUT"; }
trap cleanup EXIT

cp -r "$HERE/lean" "$LEAN"
(cd "$HERE/tools/extract" && go build -o "$EXTRACT" .) || { echo "cannot build the extractor"; exit 1; }

failing_theorems() {
  grep -o 'error: LzProofs/Gen[A-Za-z]*\.lean:[0-9]*' "$1" | sed 's/error: //' | sort -u | while IFS=: read -r f ln; do
    awk -v L="$ln" -v F="$(basename "$f" .lean)" 'NR<=L && /^theorem /{name=$2} END{if (name=="") name="(import)"; print F ":" name}' "$LEAN/$f"
  done | sort -u | tr '\n' ' '
}
build() { (cd "$LEAN" && lake build $TARGETS) >"$1" 2>&1; }

# mutant <name> <kind> <file> <perl program>
mutant() {
  local name="$1" kind="$2" file="$3" prog="$4"
  total=$((total+1))
  rm -rf "$MUT"; cp -r "$REPO" "$MUT"; rm -rf "$MUT/.git"
  perl -0pi -e "$prog" "$MUT/$file"
  if cmp -s "$MUT/$file" "$REPO/$file"; then
    echo "ERROR    $name: the mutation did not apply to $file"; bad=$((bad+1)); return
  fi
  (cd "$MUT" && go build ./... >/dev/null 2>"$SCRATCH/gobuild.err") || {
    echo "ERROR    $name: the mutated repository does not compile: $(head -2 "$SCRATCH/gobuild.err" | tr '\n' ' ')"; bad=$((bad+1)); return; }
  "$EXTRACT" -repo "$MUT" -out "$SCRATCH/facts.lean" -code "$GEN/Code.lean" 2>"$SCRATCH/extract.err"
  local rc=$?
  local refused
  refused="$(grep -o 'topic [A-Za-z0-9]* REFUSED' "$SCRATCH/extract.err" | awk '{print $2}' | tr '\n' ' ' | sed 's/ $//')"
  case "$kind" in
  extract)
    if [ $rc -eq 3 ] && [ -n "$refused" ]; then
      echo "REFUSED  $name  [topics: $refused — $(grep -v REFUSED "$SCRATCH/extract.err" | head -1 | sed 's/^ *//')]"; good=$((good+1))
    else
      echo "ACCEPTED $name: the extractor accepted a construct it must refuse (status $rc)"; bad=$((bad+1))
    fi ;;
  proof)
    if [ $rc -ne 0 ]; then
      echo "ERROR    $name: extractor status $rc: $(head -3 "$SCRATCH/extract.err" | tr '\n' ' ')"; bad=$((bad+1))
    elif build "$SCRATCH/build.log"; then
      echo "SURVIVED $name: the proof modules still build"; bad=$((bad+1))
    else
      echo "KILLED   $name  [failing: $(failing_theorems "$SCRATCH/build.log")]"; good=$((good+1))
    fi ;;
  harmless)
    if [ $rc -ne 0 ]; then
      echo "BROKEN   $name: extractor status $rc: $(head -3 "$SCRATCH/extract.err" | tr '\n' ' ')"; bad=$((bad+1))
    elif build "$SCRATCH/build.log"; then
      echo "HARMLESS $name  [still builds]"; good=$((good+1))
    else
      echo "BROKEN   $name: a harmless rewrite breaks [$(failing_theorems "$SCRATCH/build.log")]"; bad=$((bad+1))
    fi ;;
  esac
}

echo "== baseline: code generated from $REPO, the proof modules build"
"$EXTRACT" -repo "$REPO" -out "$SCRATCH/facts.lean" -code "$GEN/Code.lean" || { echo "extractor failed on $REPO"; exit 1; }
diff -r "$GEN" "$HERE/lean/LzModel/Generated" >/dev/null || echo "   note: the Generated directory of the working tree is not up to date with $REPO"
build "$SCRATCH/base.log" || { echo "baseline build FAILED"; grep -A8 '^error' "$SCRATCH/base.log" | head -40; exit 1; }
echo "   ok"

echo "== mutants"
# --- decoder_buffer.go: (*Decoder).Write
mutant "Write: chunk size BufferSize (not BufferSize-WindowSize)" proof decoder_buffer.go 's/m := d\.buf\.BufferSize - d\.buf\.WindowSize;/m := d.buf.BufferSize;/'
mutant "Write: the err != ErrFullBuffer return dropped"       proof decoder_buffer.go 's/(func \(d \*Decoder\) Write\(.*?)\t\tif err != ErrFullBuffer \{\n\t\t\treturn n, err\n\t\t\}\n/${1}/s'
mutant "Write: p advanced by len(q) instead of k"             proof decoder_buffer.go 's/\t\tp = p\[k:\]\n/\t\tp = p[len(q):]\n/'
mutant "Write: flush error ignored"                           proof decoder_buffer.go 's/\t\tif _, err = d\.buf\.WriteTo\(d\.w\); err != nil \{\n\t\t\treturn n, err\n\t\t\}\n/\t\t_, err = d.buf.WriteTo(d.w)\n/'
# --- (*Decoder).WriteByte
mutant "WriteByte: flush error ignored"                       proof decoder_buffer.go 's/(func \(d \*Decoder\) WriteByte\(.*?\t\t_, err = d\.buf\.WriteTo\(d\.w\)\n)\t\tif err != nil \{\n\t\t\treturn err\n\t\t\}\n/${1}/s'
# --- (*Decoder).WriteBlock
mutant "WriteBlock: n = nn on retry (no accumulation)"        proof decoder_buffer.go 's/\t\tn \+= nn\n/\t\tn = nn\n/'
mutant "WriteBlock: k = kk on retry (no accumulation)"        proof decoder_buffer.go 's/\t\tk \+= kk\n/\t\tk = kk\n/'
mutant "WriteBlock: l not increased by the tail literals"     proof decoder_buffer.go 's/return n \+ m, k, l \+ m, err/return n + m, k, l, err/'
mutant "WriteBlock: literals not advanced on retry"           proof decoder_buffer.go 's/\t\tblk\.Literals = blk\.Literals\[ll:\]\n//'
mutant "WriteBlock: sequences advanced by kk+1"               proof decoder_buffer.go 's/blk\.Sequences = blk\.Sequences\[kk:\]/blk.Sequences = blk.Sequences[kk+1:]/'
# --- DecoderBuffer.WriteTo / Flush
mutant "WriteTo (Flush): a short write is not an error"       proof decoder_buffer.go 's/\tif err == nil && k < len\(p\) \{\n\t\terr = io\.ErrShortWrite\n\t\}\n//'
mutant "WriteTo: R advanced by len(p) instead of k"           proof decoder_buffer.go 's/(func \(b \*DecoderBuffer\) WriteTo\(.*?)\tb\.R \+= k\n/${1}\tb.R += len(p)\n/s'
mutant "Reset: the new writer is not installed"               proof decoder_buffer.go 's/(func \(d \*Decoder\) Reset\(w io\.Writer\) \{\n\td\.buf\.Reset\(\)\n)\td\.w = w\n/${1}/'
# --- wrap.go
mutant "wrap.Parse: loop ends on err != nil instead of k == 0" proof wrap.go 's/; k == 0 \{/; err != nil {\n\t\t\t_ = k/'
mutant "wrap.Parse: Shrink missing"                           proof wrap.go 's/\t\ts\.s\.Shrink\(\)\n//'
mutant "wrap.Parse: no panic on ErrFullBuffer"                proof wrap.go 's/\t\t\tif err == ErrFullBuffer \{\n\t\t\t\tpanic\("unexpected ErrFullBuffer"\)\n\t\t\t\}\n//'
mutant "wrap.Parse: retries on every error but ErrFullBuffer" proof wrap.go 's/if err != ErrEmptyBuffer \{/if err == ErrFullBuffer {/'
mutant "wrap.Reset: the new reader is not installed"          proof wrap.go 's/\ts\.r = r\n//'
# --- harmless rewrites: must still be accepted and proved
mutant "harmless: Write chunk limit hoisted out of the if"    harmless decoder_buffer.go 's/\t\tif m := d\.buf\.BufferSize - d\.buf\.WindowSize; len\(q\) > m \{/\t\tm := d.buf.BufferSize - d.buf.WindowSize\n\t\tif len(q) > m {/'
mutant "harmless: WriteBlock accumulation written n = n + nn" harmless decoder_buffer.go 's/\t\tn \+= nn\n/\t\tn = n + nn\n/'
mutant "harmless: Write loop condition written 0 < len(p)"    harmless decoder_buffer.go 's/for len\(p\) > 0 \{/for 0 < len(p) {/'
mutant "harmless: wrap.Parse result written n = 0 first"      harmless wrap.go 's/\t\t\treturn 0, err\n/\t\t\tn = 0\n\t\t\treturn n, err\n/'
# --- hp.go (the empty-block prefix; the greedy loop: tools/genhp_selftest.sh)
mutant "hp.Parse: empty block reports n = 1"                  proof hp.go 's/(\tblk\.Literals = blk\.Literals\[:0\]\n\n\tif n == 0 \{\n\t\treturn )0(, ErrEmptyBuffer)/${1}1${2}/'
mutant "hp.Parse: literals of the block are not reset"        proof hp.go 's/\tblk\.Literals = blk\.Literals\[:0\]\n\n\tif n == 0/\n\tif n == 0/'
mutant "harmless: hp.Parse block size clamp written with >="  harmless hp.go 's/(func \(s \*hashParser\) Parse.*?)\tif n > s\.BlockSize \{/${1}\tif n >= s.BlockSize {/s'
mutant "alias: hp.Parse writes through the block slice p"     extract hp.go 's/(\t_p := s\.Data\[:inputEnd\+7\]\n)/${1}\tp[0] = 1\n/'
# --- constructs outside of the interface model: the extractor must refuse
mutant "alias: Decoder keeps a second reference to the writer" extract decoder_buffer.go 's/(func \(d \*Decoder\) Flush\(\) error \{\n)/${1}\tw := d.w\n\tw.Write(nil)\n/'

echo "== summary: $good of $total mutants behaved as expected, $bad did not"
[ $bad -eq 0 ]
